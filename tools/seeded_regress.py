#!/usr/bin/env python3
"""Apply every seeded change (seeded/<id>/patch.diff) to /repo in turn, run the quick check(s) of the
property it breaks, verify that a VIOLATION is raised, and undo the change.  Not a registered check:
a self-test of the machinery (DESIGN.md section 12)."""
import json, os, subprocess, sys
ROOT = os.path.dirname(os.path.dirname(os.path.abspath(__file__)))
REPO = "/repo"
only = sys.argv[1:]
res = {}
for d in sorted(os.listdir(os.path.join(ROOT, "seeded"))):
    if only and d not in only:
        continue
    patch = os.path.join(ROOT, "seeded", d, "patch.diff")
    prop = d[:3]
    if subprocess.run(["git", "-C", REPO, "status", "--porcelain", "--untracked-files=no"], capture_output=True, text=True).stdout.strip():
        print("refusing: /repo has uncommitted changes"); sys.exit(2)
    if subprocess.run(["git", "-C", REPO, "apply", patch]).returncode != 0:
        res[d] = "patch does not apply"; continue
    try:
        out = subprocess.run([os.path.join(ROOT, "check"), prop, "quick"], capture_output=True, text=True, cwd=ROOT).stdout
        n = out.count("VIOLATION property=")
        found = sum(1 for l in out.splitlines() if l.startswith("VIOLATION") and "no-failing-input-found" not in l)
        res[d] = "caught by %s quick: %d violations (%d with a failing input)" % (prop, n, found) if n else "MISSED by %s quick" % prop
    finally:
        subprocess.run(["git", "-C", REPO, "checkout", "--", "."])
    print(d, "->", res[d], flush=True)
missed = [d for d, r in res.items() if not r.startswith("caught")]
print("seeded changes: %d, caught: %d, not caught by their own property's quick check: %s" % (len(res), len(res) - len(missed), missed))
sys.exit(1 if missed else 0)
