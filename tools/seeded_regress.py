#!/usr/bin/env python3
"""Self-test of the machinery (DESIGN.md section 12), not a registered check.

  seeded_regress.py [ids...]          every breaking change seeded/<id>/patch.diff is applied to /repo in turn, the
                                      quick check of the property it breaks must raise a VIOLATION, the patch is undone
  seeded_regress.py --harmless [ids]  every behaviour-preserving refactoring seeded/harmless/<id>/patch.diff (and the
                                      seeded changes whose meta.json says "expect": "quiet") is applied in turn and ALL
                                      twenty quick checks must stay silent

Nothing is ever committed to /repo; the script refuses to run on a dirty tree and restores it after each patch."""
import json, os, subprocess, sys
ROOT = os.path.dirname(os.path.dirname(os.path.abspath(__file__)))
REPO = "/repo"
args = sys.argv[1:]
harmless = "--harmless" in args
only = [a for a in args if not a.startswith("--")]
PROPS = ["C%02d" % i for i in range(1, 21)]


def clean():
    return not subprocess.run(["git", "-C", REPO, "status", "--porcelain", "--untracked-files=no"],
                              capture_output=True, text=True).stdout.strip()


def check(prop):
    out = subprocess.run([os.path.join(ROOT, "check"), prop, "quick"], capture_output=True, text=True, cwd=ROOT).stdout
    n = out.count("VIOLATION property=")
    found = sum(1 for l in out.splitlines() if l.startswith("VIOLATION") and "no-failing-input-found" not in l)
    return n, found


def entries():
    base = os.path.join(ROOT, "seeded")
    for d in sorted(os.listdir(base)):
        if d == "harmless":
            for h in sorted(os.listdir(os.path.join(base, d))):
                yield "harmless/" + h, os.path.join(base, d, h), True
        else:
            meta = json.load(open(os.path.join(base, d, "meta.json")))
            yield d, os.path.join(base, d), meta.get("expect") == "quiet"


res, bad = {}, []
for name, path, quiet in entries():
    if quiet != harmless or (only and name not in only and os.path.basename(name) not in only):
        continue
    if not clean():
        print("refusing: /repo has uncommitted changes"); sys.exit(2)
    if subprocess.run(["git", "-C", REPO, "apply", os.path.join(path, "patch.diff")]).returncode != 0:
        res[name] = "patch does not apply"; bad.append(name); continue
    try:
        if quiet:
            alarms = [p for p in PROPS if check(p)[0]]
            res[name] = "quiet on all 20 quick checks" if not alarms else "FALSE ALARM from %s" % alarms
            if alarms:
                bad.append(name)
        else:
            meta = json.load(open(os.path.join(path, "meta.json")))
            props = meta.get("property", name[:3])
            props = [props] if isinstance(props, str) else list(props)
            props = [p for p in props if p in PROPS] or [name[:3]]
            hits = []
            for prop in props:
                n, found = check(prop)
                if n:
                    hits.append("%s quick: %d violations (%d with a failing input)" % (prop, n, found))
            res[name] = ("caught by " + "; ".join(hits)) if hits else "MISSED by %s quick" % props
            if not hits:
                bad.append(name)
    finally:
        subprocess.run(["git", "-C", REPO, "checkout", "--", "."])
        subprocess.run(["git", "-C", REPO, "clean", "-fdq", "src"])      # files a patch added
    print(name, "->", res[name], flush=True)
print("%s: %d, as expected: %d, not as expected: %s" % ("behaviour-preserving changes" if harmless else "breaking changes",
                                                         len(res), len(res) - len(bad), bad))
sys.exit(1 if bad else 0)
