#!/usr/bin/env python3
"""MANIFEST.setup_cmd: build the whole framework offline from files on disk."""
import os, sys
sys.path.insert(0, os.path.dirname(os.path.abspath(__file__)))
import build
r = build.ensure_built(release=True)
ok = True
for k in ("translator", "coq", "driver", "harness", "harness_prod", "harness_release", "harness_prod_release"):
    st = r.get(k, (False, "not run"))
    print("%-16s %s" % (k, "ok" if st[0] else "FAILED"))
    if not st[0]:
        ok = False
        print(st[1][-3000:])
print("build_s %.1f" % r["build_s"])
sys.exit(0 if ok else 1)
