"""A conformant client's decoders (Python mirror of coq/Spec/Client.v), applied as the
specification oracle to the bytes the real server emitted.  Raises Bad on non-conformance."""
from mysqlproto import deframe, U24_MAX

MORE = 8
BYTES_TYPES = {254, 253, 252, 249, 250, 251, 248, 247, 0, 15, 16, 246, 255, 245}


class Bad(Exception):
    pass


def rd_lenenc(b, i):
    if i >= len(b):
        raise Bad("lenenc: eof")
    x = b[i]
    if x < 251:
        return x, i + 1
    n = {252: 2, 253: 3, 254: 8}.get(x)
    if n is None or i + 1 + n > len(b):
        raise Bad("lenenc: bad prefix %#x or eof" % x)
    return int.from_bytes(b[i + 1:i + 1 + n], "little"), i + 1 + n


def rd_lenenc_str(b, i):
    n, i = rd_lenenc(b, i)
    if i + n > len(b):
        raise Bad("lenenc string: eof")
    return b[i:i + n], i + n


def p_ok(m):
    if not m or m[0] != 0:
        raise Bad("not an OK packet")
    rows, i = rd_lenenc(m, 1)
    lid, i = rd_lenenc(m, i)
    if i + 4 > len(m):
        raise Bad("OK: truncated")
    return dict(rows=rows, id=lid, status=int.from_bytes(m[i:i + 2], "little"),
                warnings=int.from_bytes(m[i + 2:i + 4], "little"))


def p_eof(m):
    if len(m) != 5 or m[0] != 0xfe:
        raise Bad("not an EOF packet: %s" % m[:16].hex())
    return int.from_bytes(m[3:5], "little")


def p_err(m):
    if len(m) < 9 or m[0] != 0xff or m[3] != 0x23:
        raise Bad("not an ERR packet: %s" % m[:16].hex())
    return dict(code=int.from_bytes(m[1:3], "little"), state=bytes(m[4:9]), msg=bytes(m[9:]))


def p_coldef(m):
    cat, i = rd_lenenc_str(m, 0)
    if cat != b"def":
        raise Bad("coldef: catalog")
    _, i = rd_lenenc_str(m, i)
    table, i = rd_lenenc_str(m, i)
    _, i = rd_lenenc_str(m, i)
    name, i = rd_lenenc_str(m, i)
    _, i = rd_lenenc_str(m, i)
    fixed, i = rd_lenenc(m, i)
    if fixed != 12 or i + 12 > len(m):
        raise Bad("coldef: fixed part")
    ty = m[i + 6]
    flags = int.from_bytes(m[i + 7:i + 9], "little")
    return dict(table=bytes(table), name=bytes(name), type=ty, flags=flags, rest=bytes(m[i + 12:]))


def p_text_row(m, n):
    cells = []
    i = 0
    for _ in range(n):
        if i >= len(m):
            raise Bad("text row: too few cells")
        if m[i] == 0xfb:
            cells.append(None); i += 1
        else:
            v, i = rd_lenenc_str(m, i)
            cells.append(bytes(v))
    if i != len(m):
        raise Bad("text row: %d trailing bytes" % (len(m) - i))
    return cells


def p_bin_value(ty, unsigned, m, i):
    def take(n):
        if i + n > len(m):
            raise Bad("binary value: eof")
        return m[i:i + n], i + n
    if ty in BYTES_TYPES:
        v, j = rd_lenenc_str(m, i)
        return ("bytes", bytes(v)), j
    w = {1: 1, 2: 2, 13: 2, 3: 4, 9: 4, 8: 8}.get(ty)
    if w:
        v, j = take(w)
        return ("int", int.from_bytes(v, "little", signed=not unsigned)), j
    if ty == 4:
        v, j = take(4); return ("f32", int.from_bytes(v, "little")), j
    if ty == 5:
        v, j = take(8); return ("f64", int.from_bytes(v, "little")), j
    if ty in (10, 12, 7):
        l, j = take(1)
        l = l[0]
        if l not in (0, 4, 7, 11):
            raise Bad("date length %d" % l)
        if j + l > len(m):
            raise Bad("date: eof")
        v = m[j:j + l] + bytes(11 - l)
        return ("date", (int.from_bytes(v[0:2], "little"), v[2], v[3], v[4], v[5], v[6],
                         int.from_bytes(v[7:11], "little"))), j + l
    if ty == 11:
        l, j = take(1)
        l = l[0]
        if l not in (0, 8, 12):
            raise Bad("time length %d" % l)
        if j + l > len(m):
            raise Bad("time: eof")
        v = m[j:j + l] + bytes(12 - l)
        return ("time", (v[0] != 0, int.from_bytes(v[1:5], "little"), v[5], v[6], v[7],
                         int.from_bytes(v[8:12], "little"))), j + l
    raise Bad("binary value of unsupported column type %d" % ty)


def p_bin_row(m, cols):
    if not m or m[0] != 0:
        raise Bad("binary row header")
    n = len(cols)
    bl = (n + 7 + 2) // 8
    if 1 + bl > len(m):
        raise Bad("binary row: bitmap eof")
    bm = m[1:1 + bl]
    i = 1 + bl
    vals = []
    for k, c in enumerate(cols):
        pos = k + 2
        if bm[pos // 8] >> (pos % 8) & 1:
            vals.append(None)
        else:
            v, i = p_bin_value(c["type"], bool(c["flags"] & 32), m, i)
            vals.append(v)
    if i != len(m):
        raise Bad("binary row: %d trailing bytes" % (len(m) - i))
    # bits outside [2, n+2) must be clear
    for pos in list(range(0, 2)) + list(range(n + 2, bl * 8)):
        if bm[pos // 8] >> (pos % 8) & 1:
            raise Bad("binary row: stray bitmap bit %d" % pos)
    return vals


def p_response(msgs, k, binary):
    """decode one whole response starting at msgs[k]; returns (units, next_k)"""
    units = []
    while True:
        if k >= len(msgs):
            raise Bad("response: ran out of messages")
        m = msgs[k]
        if not m:
            raise Bad("empty message")
        if m[0] == 0:
            ok = p_ok(m); k += 1
            units.append(("ok", ok["rows"], ok["id"], ok["status"]))
            if ok["status"] & MORE:
                continue
            return units, k
        if m[0] == 0xff:
            e = p_err(m); k += 1
            units.append(("err", e["code"], e["state"], e["msg"]))
            return units, k
        n, j = rd_lenenc(m, 0)
        if j != len(m) or n == 0:
            raise Bad("column-count packet malformed: %s" % m[:16].hex())
        k += 1
        cols = []
        for _ in range(n):
            if k >= len(msgs):
                raise Bad("missing column definition")
            cols.append(p_coldef(msgs[k])); k += 1
        if k >= len(msgs):
            raise Bad("missing EOF after column definitions")
        p_eof(msgs[k]); k += 1
        rows = []
        while True:
            if k >= len(msgs):
                raise Bad("resultset not terminated")
            m = msgs[k]
            if m and m[0] == 0xff:
                e = p_err(m); k += 1
                units.append(("rows_err", cols, rows, e["code"], e["state"], e["msg"]))
                return units, k
            if m and m[0] == 0xfe and len(m) < 9:
                st = p_eof(m); k += 1
                units.append(("rows", cols, rows, st))
                if st & MORE:
                    break
                return units, k
            rows.append(p_bin_row(m, cols) if binary else p_text_row(m, n)); k += 1


def p_prepare_ok(msgs, k):
    m = msgs[k]
    if len(m) != 12 or m[0] != 0:
        raise Bad("prepare-ok header")
    sid = int.from_bytes(m[1:5], "little")
    nc = int.from_bytes(m[5:7], "little")
    np_ = int.from_bytes(m[7:9], "little")
    k += 1
    out = []
    for n in (np_, nc):
        defs = []
        for _ in range(n):
            if k >= len(msgs):
                raise Bad("prepare-ok: missing definition")
            defs.append(p_coldef(msgs[k])); k += 1
        if n:
            if k >= len(msgs):
                raise Bad("prepare-ok: missing EOF")
            p_eof(msgs[k]); k += 1
        out.append(defs)
    return dict(id=sid, params=out[0], cols=out[1]), k


def p_greeting(m):
    if not m or m[0] != 10:
        raise Bad("greeting: protocol version")
    try:
        z = m.index(0, 1)
    except ValueError:
        raise Bad("greeting: no NUL after server version")
    i = z + 1
    if i + 4 + 9 + 2 + 1 + 2 + 2 > len(m):
        raise Bad("greeting truncated")
    cap_lo = int.from_bytes(m[i + 13:i + 15], "little")
    cap_hi = int.from_bytes(m[i + 18:i + 20], "little")
    return dict(version=bytes(m[1:z]), caps=cap_lo | cap_hi << 16, charset=m[i + 15],
                status=int.from_bytes(m[i + 16:i + 18], "little"))


def server_messages(out: bytes, lim=U24_MAX):
    """deframe the whole server output; returns list of (first_seq, seqs, payload)"""
    try:
        return deframe(out, lim)
    except ValueError as e:
        raise Bad("framing: %s" % e)
