#!/usr/bin/env python3
"""Regenerate MANIFEST.json from the table below (kept valid at all times)."""
import json, os
ROOT = os.path.dirname(os.path.dirname(os.path.abspath(__file__)))
props = [json.loads(l) for l in open(os.path.join(ROOT, "properties.jsonl"))]
T = "Coq proof + differential correspondence harness"
CLAIMED = {
 "C01": dict(text="Theorems (Properties/C01.v, axiom-free): for every packet limit M, every framed command is returned whole by packet(); a strict prefix never yields a packet; next() returns exactly the next command under ANY partition of the stream into reads; a whole conversation is delivered once, in order, byte-for-byte; a stream ending inside a packet is an error. Tied to src/packet.rs by translated constants and by differential execution (real PacketConn via run_on vs the extracted model) incl. exhaustive chunkings at small M.",
             note="model abstracts bytes/start/remaining to the unconsumed tail; nom/Vec semantics modelled; real 2^24-1 limit cases checked against the spec oracle only",
             technique="Coq proof (induction over read script / framing) + differential correspondence harness", ref="6 C01"),
 "C02": dict(text="Theorems (Properties/C02.v): which callback each command reaches with verbatim arguments (dispatch), invalid UTF-8 never reaches the shim, the USE spellings normalise to the bare name, and for whole conversations under any chunking the callback log is exactly that of the commands in order (run loop refines the pure conversation semantics). Correspondence: random command sequences with near-miss prefixes, UTF-8 classes and USE spellings on the real run_on vs the extracted model vs a client-side oracle.",
             note="std str::from_utf8 / trim / char::is_whitespace semantics are modelled (Model/Utf8.v) and exercised by the correspondence", technique=T, ref="6 C02"),
 "C03": dict(text="Theorems (Properties/C03.v): (1) every finite writer-API program all of whose calls succeed makes the model of QueryResultWriter/RowWriter (incl. Drop impls) over PacketConn send exactly the canonical framing of its messages, in text and binary mode, any column count, any packet limit; (2) a conformant client (Spec/Client.v) decodes those messages to exactly the result units the program denotes, more-results flag on every terminator but the last, following replies untouched; NULL for NOT NULL refused. Correspondence: random programs in random command sequences with sentinel PINGs; shape-violating programs.",
             note="a shim that reports no success through the API (bare drop, no reply from on_prepare/on_init) is outside the property; server-level lift through Proofs/ServerRun.v", technique=T, ref="6 C03"),
 "C04": dict(text="Theorems (Properties/C04.v): any sequence of messages sent from a clean connection is put on the transport as exactly its canonical framing for EVERY packet limit and message size (maximal packets then a shorter, possibly empty one), independent of how the caller cuts writes; every header length equals its payload; client-side reassembly returns the messages. Correspondence at small limits (hook) incl. k*M+d sizes, and at the real 2^24-1 limit against the spec oracle.",
             note="fixed defect D1 (header counted into the limit; exact multiples unterminated) is re-checked from the corpus", technique=T, ref="6 C04"),
 "C05": dict(text="Theorems (Properties/C05.v): the k-th packet of an exchange carries (first id + k) mod 256 for any number of packets; every reply is framed from (id of the request's last packet + 1) mod 256 in every served conversation; greeting has id 0 and the auth reply continues the handshake response. Correspondence: every request id 0..255, multi-packet requests, responses up to 600 packets.",
             note="fixed defect D5 (id 255 overflow) re-checked from the corpus", technique=T, ref="6 C05"),
 "C06": dict(text="Theorems (Properties/C06.v): text rows decode cell by cell to the written contents; NULL distinct from every string; decimal text of every integer reads back (all of Z); DATE/DATETIME/TIME strings read back for years 0..9999 with and without microseconds. Floats partial: the cell is the Display text; Display/parse round-trip of std is an oracle checked dynamically. Correspondence: exhaustive 8-bit, dense 16-bit, boundary values, every day of several years, byte strings across lenenc classes.",
             note="floats: std Display/parse is a stated hypothesis", technique=T, ref="6 C06"),
 "C07": dict(text="Theorems (Properties/C07.v): a binary row of any number of columns and any NULL pattern decodes under the advertised types to exactly the values written; the NULL bitmap (offset 2) marks precisely the NULL cells; every accepted value of every implementor decodes to its denotation; NULL for NOT NULL and values of a kind the column type cannot carry are refused. Correspondence: every NULL pattern for n<=8/10, 1..300 columns, all (kind x column type) cells.",
             note="f32->f64 widening and chrono accessors are oracles; fixed defects D10/D11/D12 re-checked from the corpus", technique=T, ref="6 C07"),
 "C08": dict(text="Theorems (Properties/C08.v): the client's parameter block (any count, any NULL pattern, any bound type codes) is decoded to exactly the bound parameters; per-type value round trips incl. every length form of DATE/DATETIME/TIME; conversions to Rust types return the encoded value incl. microseconds. Correspondence: counts 0..300, all NULL patterns n<=5/8, all type codes, all length forms.",
             note="f32 conversion exact under the fptrunc(fpext x)=x oracle hypothesis; zero dates have no chrono value (raw delivery only); fixed defect D3 re-checked", technique=T, ref="6 C08"),
 "C09": dict(text="Theorems (Properties/C09.v): column definitions (any name bytes/length, every type, every flag mask) round-trip; resultset headers and PREPARE replies decode to the declared counts and definitions in order. Correspondence: 0..1000 descriptors, names up to 70000 bytes, all types.",
             note="counts above 65535 are outside the wire format's 16-bit fields", technique=T, ref="6 C09"),
 "C10": dict(text="Theorems (Properties/C10.v): the server's registry equals the history-defined one after every command (refinement to Spec/History.v); ids never prepared / rejected / closed are not live and EXECUTE / SEND_LONG_DATA for them never reach the shim and end the connection with InvalidData; every CLOSE reaches on_close once and sends nothing; re-prepare starts afresh. Correspondence: exhaustive short interleavings over 2 ids, random long ones over 4 ids.",
             note="HashMap modelled as an association list (never iterated by the code)", technique=T, ref="6 C10"),
 "C11": dict(text="Theorems (Properties/C11.v): the greeting decodes as protocol 10 / 4.1 with the TLS flag iff configured; the user name is parsed exactly as sent (4.1 and 3.20 layouts, any capability mask, any trailing data); accept: exactly one after_authentication before anything else, OK with the next id, pipelined commands stay buffered; reject: ERR 1045/28000, shim error returned, no other callback; malformed/missing response: error, no callback. Correspondence over layouts, masks, user names, truncations, pipelining.",
             note="clients requesting TLS are C18's", technique=T, ref="6 C11"),
 "C12": dict(text="Theorems (Properties/C12.v): every served conversation under any arrival schedule leaves a trace of shape [reads][callbacks, packets][flush] per command, hence at every read everything written has been flushed; a completely buffered command is returned without touching the transport. Correspondence with an instrumented transport: lock-step, pipelining depth 1..8, random and exhaustive chunkings.",
             note="real blocking, kernel and TLS-engine buffering are below the modelled transport interface (partial by nature)", technique=T, ref="6 C12"),
 "C13": dict(text="Theorems (Properties/C13.v): ERR packets round-trip code, SQLSTATE and ANY message bytes; over the tables translated from src/errorcodes.rs on every run: kinds<->codes convert both ways, codes distinct, every kind has one 5-byte SQLSTATE, the table extends the pinned reference. Correspondence: the real ErrorKind over all 65536 codes vs the translated tables; every reporting site.",
             note="translator tools/gen_tables.py is trusted; reference table coq/Spec/ErrRef.v pinned", technique="Coq proof by complete evaluation over the translated table (regenerated every run) + differential correspondence", ref="6 C13"),
 "C14": dict(text="Theorems (Properties/C14.v, axiom-free): every u64 round-trips through the length-encoded integer in all four size classes; the OK packet built for (rows, last_insert_id, status) is decoded by the conformant client to exactly these values; response-level statement through C03 (un_q: zero-column resultsets denote OK(rows ended, 0)). Correspondence: completions (single, chained, zero-column resultsets) on the real code vs the extracted model vs the client-side oracle.",
             note="client decoder Spec/Client.v is the specification", technique=T, ref="6 C14"),
 "C15": dict(text="Theorems (Properties/C15.v): for every Rust integer type, value, integer column type and signedness: accepted => the client decodes the same number; range-containing columns accept; pointer-sized accept iff the value fits; never a panic; same through generic values. Correspondence: all 120 cells x (all 8-bit, dense 16-bit, boundary/random wider) = 8*10^4..10^6 direct calls.",
             note="usize/isize are 64-bit; fixed defect D4 re-checked from the corpus", technique=T, ref="6 C15"),
 "C16": dict(text="Theorems (Properties/C16.v): an execution without types is decoded with the latest types bound for the same statement (end-to-end through the registry refinement); isolation between statements; a rebind replaces, a reuse keeps. Correspondence: exhaustive rebind/reuse patterns of <=4 executions on 2 statements, random histories.",
             note="assumes the shim pulls the parameters of a rebinding execution (D13 limitation); fixed defect D2 re-checked", technique=T, ref="6 C16"),
 "C17": dict(text="Theorems (Properties/C17.v): chunks are concatenated in arrival order per (statement, parameter), do not disturb other parameters/statements, are consumed by exactly one execution, vanish on re-prepare; at the execution the parameter is the pending data without consuming inline bytes. Correspondence: random interleavings incl. empty and multi-packet chunks.",
             note="a client never sets the NULL bit of a long-data parameter", technique=T, ref="6 C17"),
 "C19": dict(text="Theorems (Properties/C19.v): for every world (read errors at any read, one-off or persistent write/flush errors at any call index), configuration and error-propagating shim: any transport fault makes run_on return an error, never Ok; no callback is started after the fault; a stream ending at a command boundary or after QUIT gives Ok, inside a packet UnexpectedEof, before the handshake response ConnectionAborted; a shim error is returned unchanged. Correspondence = fault enumeration: every transport call index x {one-off, persistent}, every read index, every truncation point of ~15 conversations on the real code vs the model vs the oracle.",
             note="shims that ignore writer errors (policy Ignore) are outside the theorem; fixed defect D8 (Drop unwrap panics) re-checked from the corpus", technique="Coq proof (invariant: every fault is reported or parked) + exhaustive fault enumeration on the real code", ref="6 C19"),
 "C20": dict(text="Theorems (Properties/C20.v): for ALL client byte strings, chunkings and fault plans the connection terminates (fuel always suffices); every panic is at one of the named sites, and for shims that cannot panic themselves only at the five KNOWN client-reachable sites (out-of-order fragment ids; malformed EXECUTE parameter blocks), each shown reachable by a witness that is also replayed on the real code (KNOWN-FINDING). Correspondence: all strings over a 5-byte alphabet up to length 4/5, every command byte, every sequence id, parameter-block mutations, malformed handshakes, random streams.",
             note="known findings D9/D14 are genuine defects recorded in known_findings.json (repair needs an API change); D6 (parse unwrap) fixed", technique="Coq proof (termination by fuel, panic-site enumeration, witness lemmas) + differential correspondence on malformed input", ref="6 C20"),
}
checks = []
for p in props:
    i = p["id"]
    if i in CLAIMED:
        c = CLAIMED[i]
        checks.append({
            "property_id": i,
            "quick_cmd": "./check %s quick" % i,
            "thorough_cmd": "./check %s thorough" % i,
            "evidence_file": "/verif/evidence/%s.json" % i,
            "replay_cmd_template": "./check %s quick --replay {path}" % i,
            "engine": "coq+harness",
            "level_claimed": {"category": "proof", "text": c["text"], "design_ref": "DESIGN.md section " + c["ref"]},
            "level_note": c["note"] + "; trusted base: Coq 8.16.1 kernel+VM, no axioms, ExtrOcamlBasic extraction, translator, Rust harness/OCaml driver/Python glue",
            "technique": c["technique"],
        })
m = {
 "version": 1,
 "setup_cmd": "python3 tools/setup.py",
 "hooks": {"guard": "verif-hooks", "enable": "cargo feature `verif-hooks` of msql-srv (the harness crate depends on msql-srv = { path = \"/repo\", features = [\"verif-hooks\"] })",
           "baseline_off_cmd": "cd /repo && cargo test --workspace --no-fail-fast --offline",
           "source_commits": ["938117d", "fdd3fef"], "add_only": True},
 "engines": [{"name": "coq+harness", "path": "/verif/coq + /verif/harness + /verif/driver + /verif/tools",
              "serves_properties": sorted(CLAIMED), "kind_free_text": "Coq 8.16.1 development (model, specs, proofs) + extracted-model driver + Rust correspondence harness"}],
 "checks": checks,
 "notes": "Every check: translator -> full Coq build -> Print Assumptions/pins -> differential run (real code vs extracted model) -> spec oracle on the real output -> evidence. See DESIGN.md.",
 "not_applicable": [{"property_id": p["id"], "reason": "check under construction in this round (model and correspondence exist; theorems not yet packaged) - see DESIGN.md section 6"} for p in props if p["id"] not in CLAIMED],
}
json.dump(m, open(os.path.join(ROOT, "MANIFEST.json"), "w"), indent=1)
print("claimed:", sorted(CLAIMED))
