#!/usr/bin/env python3
"""Regenerate MANIFEST.json from the table below (kept valid at all times)."""
import json, os
ROOT = os.path.dirname(os.path.dirname(os.path.abspath(__file__)))
props = [json.loads(l) for l in open(os.path.join(ROOT, "properties.jsonl"))]
CLAIMED = {
 "C01": dict(text="Theorems (Properties/C01.v, axiom-free): for every packet limit M, every framed command is returned whole by packet(); a strict prefix never yields a packet; next() returns exactly the next command under ANY partition of the stream into reads; a whole conversation is delivered once, in order, byte-for-byte; a stream ending inside a packet is an error. Tied to src/packet.rs by translated constants and by differential execution (real PacketConn via run_on vs the extracted model) incl. exhaustive chunkings at small M.",
             note="model abstracts bytes/start/remaining to the unconsumed tail; nom/Vec semantics modelled; real 2^24-1 limit cases checked against the spec oracle only",
             technique="Coq proof (induction over read script / framing) + differential correspondence harness", ref="6 C01"),
 "C14": dict(text="Theorems (Properties/C14.v, axiom-free): every u64 round-trips through the length-encoded integer in all four size classes; the OK packet built for (rows, last_insert_id, status) is decoded by the conformant client to exactly these values. Correspondence: completions (single, chained, zero-column resultsets) on the real code vs the extracted model vs the client-side oracle.",
             note="response-level lift (C14 through C03's run/render theorems) in progress; client decoder Spec/Client.v is the specification",
             technique="Coq proof (case analysis over lenenc classes, N arithmetic) + differential correspondence harness", ref="6 C14"),
}
checks = []
for p in props:
    i = p["id"]
    if i in CLAIMED:
        c = CLAIMED[i]
        checks.append({
            "property_id": i,
            "quick_cmd": "./check %s quick" % i,
            "thorough_cmd": "./check %s thorough" % i,
            "evidence_file": "/verif/evidence/%s.json" % i,
            "replay_cmd_template": "./check %s quick --replay {path}" % i,
            "engine": "coq+harness",
            "level_claimed": {"category": "proof", "text": c["text"], "design_ref": "DESIGN.md section " + c["ref"]},
            "level_note": c["note"] + "; trusted base: Coq 8.16.1 kernel+VM, no axioms, ExtrOcamlBasic extraction, translator, Rust harness/OCaml driver/Python glue",
            "technique": c["technique"],
        })
m = {
 "version": 1,
 "setup_cmd": "python3 tools/setup.py",
 "hooks": {"guard": "verif-hooks", "enable": "cargo feature `verif-hooks` of msql-srv (the harness crate depends on msql-srv = { path = \"/repo\", features = [\"verif-hooks\"] })",
           "baseline_off_cmd": "cd /repo && cargo test --workspace --no-fail-fast --offline",
           "source_commits": ["938117d", "fdd3fef"], "add_only": True},
 "engines": [{"name": "coq+harness", "path": "/verif/coq + /verif/harness + /verif/driver + /verif/tools",
              "serves_properties": sorted(CLAIMED), "kind_free_text": "Coq 8.16.1 development (model, specs, proofs) + extracted-model driver + Rust correspondence harness"}],
 "checks": checks,
 "notes": "Every check: translator -> full Coq build -> Print Assumptions/pins -> differential run (real code vs extracted model) -> spec oracle on the real output -> evidence. See DESIGN.md.",
 "not_applicable": [{"property_id": p["id"], "reason": "check under construction in this round (model and correspondence exist; theorems not yet packaged) - see DESIGN.md section 6"} for p in props if p["id"] not in CLAIMED],
}
json.dump(m, open(os.path.join(ROOT, "MANIFEST.json"), "w"), indent=1)
print("claimed:", sorted(CLAIMED))
