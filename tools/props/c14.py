"""C14: completion counts arrive exactly, including for zero-column resultsets."""
from .common import *

RULE = ("conversations whose replies carry completion counts: single and chained completed()/complete_one() "
        "in text (COM_QUERY) and binary (COM_STMT_EXECUTE) mode with (rows, last_insert_id) drawn from the "
        "length-encoding class boundaries and random u64s, and zero-column resultsets with 0..n ended rows; "
        "a case is non-trivial when at least one OK packet with a count outside {0} or a chain/zero-column "
        "resultset is involved; distinct = distinct case text")
ASSUMPTIONS = ["shim callbacks return", "OK packets are decoded by the client of Spec/Client.v (no session tracking)"]

BOUNDS = [0, 1, 250, 251, 252, 255, 256, 65535, 65536, 65537, 2**24 - 1, 2**24, 2**24 + 1, 2**32 - 1, 2**32,
          2**63 - 1, 2**63, 2**64 - 2, 2**64 - 1]


def gen(ctx):
    rng = ctx.rng
    cases = []
    n = 0
    def pick():
        return rng.choice(BOUNDS) if rng.random() < 0.7 else rng.getrandbits(rng.choice([8, 16, 24, 32, 63, 64]))
    pairs = [(a, b) for a in BOUNDS for b in (0, 1, 251, 2**64 - 1)] + [(0, b) for b in BOUNDS]
    if ctx.quick():
        pairs = pairs[::2]
    for (r, i) in pairs:
        for binary in (False, True):
            n += 1
            if binary:
                cmds = [("prepare", cmd_prepare(b"p")), ("execute", cmd_execute(1)), ("ping", cmd_ping())]
                scripts = ["p reply 1 0 0", "x all - done %d %d" % (r, i)]
            else:
                cmds = [("query", cmd_query(b"q")), ("ping", cmd_ping())]
                scripts = ["q done %d %d" % (r, i)]
            c = mk_case("c14_%d" % n, cmds, scripts, chunks=[rng.choice([1, 5, 2048])])
            c.meta["expect"] = [[(r, i)]]
            cases.append(c)
    # chains
    for _ in range(20 if ctx.quick() else 200):
        n += 1
        k = rng.randint(1, 10)
        chain = [(pick(), pick()) for _ in range(k)]
        prog = "".join("c1 %d %d " % p for p in chain[:-1])
        last = chain[-1]
        style = rng.choice(["done", "c1nomore", "c1drop"])
        if style == "done":
            prog += "done %d %d" % last
        elif style == "c1nomore":
            prog += "c1 %d %d nomore" % last
        else:
            prog += "c1 %d %d drop" % last
        binary = rng.random() < 0.5
        if binary:
            cmds = [("prepare", cmd_prepare(b"p")), ("execute", cmd_execute(1)), ("ping", cmd_ping())]
            scripts = ["p reply 1 0 0", "x all - " + prog]
        else:
            cmds = [("query", cmd_query(b"q")), ("ping", cmd_ping())]
            scripts = ["q " + prog]
        c = mk_case("c14_%d" % n, cmds, scripts, lim=rng.choice([U24_MAX, U24_MAX, 7, 16]))
        c.meta["expect"] = [chain]
        cases.append(c)
    # zero-column resultsets: rows counted by end_row / write_row
    for rows in ([0, 1, 2, 3, 10, 250, 251, 300, 65535, 65536, 65537] if ctx.quick() else list(range(0, 40)) + [250, 251, 252, 1000, 65535, 65536, 65537, 70000, 131072]):
        for binary in (False, True):
            n += 1
            ops = []
            for j in range(rows):
                t = rng.random() if rows < 5000 else 0.1
                if t < 0.4:
                    ops.append("er p")
                elif t < 0.7:
                    ops.append("wr 0 p")
                else:
                    ops.append("wc i32:%d p er p" % j)    # write_col on a zero-column set does not count
            tail = rng.choice(["fin", "drop", "fin1 nomore"])
            prog = "start 0 " + " ".join(ops) + (" " if ops else "") + tail
            if binary:
                cmds = [("prepare", cmd_prepare(b"p")), ("execute", cmd_execute(1)), ("ping", cmd_ping())]
                scripts = ["p reply 1 0 0", "x all - " + prog]
            else:
                cmds = [("query", cmd_query(b"q")), ("ping", cmd_ping())]
                scripts = ["q " + prog]
            c = mk_case("c14_%d" % n, cmds, scripts)
            c.meta["expect"] = [[(rows, 0)]]
            cases.append(c)
    # chains in one response: several zero-column resultsets with different row counts, mixed with plain
    # completions -- each OK reports ITS OWN rows
    for _ in range(16 if ctx.quick() else 200):
        n += 1
        k = rng.randint(2, 5)
        exp, prog = [], []
        for j in range(k):
            last = j == k - 1
            if rng.random() < 0.7:
                rows = rng.choice([0, 1, 2, 3, 5])
                ops = " ".join(rng.choice(["er p", "wr 0 p"]) for _ in range(rows))
                prog.append("start 0 " + ops + (" " if ops else "") + ("fin" if last else "fin1"))
                exp.append((rows, 0))
            else:
                a, b = rng.choice([0, 7, 300]), rng.choice([0, 9])
                prog.append(("done %d %d" if last else "c1 %d %d") % (a, b))
                exp.append((a, b))
        binary = rng.random() < 0.5
        if binary:
            cmds = [("prepare", cmd_prepare(b"p")), ("execute", cmd_execute(1)), ("ping", cmd_ping())]
            scripts = ["p reply 1 0 0", "x all - " + " ".join(prog)]
        else:
            cmds = [("query", cmd_query(b"q")), ("ping", cmd_ping())]
            scripts = ["q " + " ".join(prog)]
        c = mk_case("c14_%d" % n, cmds, scripts)
        c.meta["expect"] = [exp]
        cases.append(c)
    return cases


def oracle(case, obs):
    fails = []
    try:
        d = decode_server(case, obs)
    except Bad as e:
        return [(None, "server output not conformant: %s" % e)]
    want = list(case.meta.get("expect", []))
    got = [dec for kind, dec in d["replies"] if kind in ("query", "execute")]
    for w, g in zip(want, got):
        oks = [(u[1], u[2]) for u in g if u[0] == "ok"]
        if oks != list(w):
            fails.append((None, "completion counts %s, client decoded %s" % (w, oks)))
        for j, u in enumerate(g):
            if u[0] == "ok" and bool(u[3] & 8) != (j < len(g) - 1):
                fails.append((None, "more-results flag wrong on result %d of %d" % (j, len(g))))
    if len(got) < len(want):
        fails.append((None, "reply missing"))
    if result_of(obs) != "ok":
        fails.append((None, "run_on did not return Ok: %s" % result_of(obs)))
    return fails


def classify(case, obs):
    ks = []
    exp = case.meta.get("expect", [[]])[0]
    ks.append("chain_len_%d" % min(len(exp), 5))
    for r, i in exp[:1]:
        for v in (r, i):
            ks.append("lenenc_class_%d" % (0 if v < 251 else 1 if v < 65536 else 2 if v < 2**24 else 3))
    ks.append("bin" if any(k == "execute" for k, _, _ in case.meta["cmds"]) else "text")
    return ks


def nontrivial(case, obs):
    exp = case.meta.get("expect", [[]])[0]
    return len(exp) > 1 or any(v for p in exp for v in p) or "start 0" in case.render()


def run(ctx):
    cases = gen(ctx)
    ctx.diff_conn(cases, nontrivial=nontrivial, oracle=oracle, classify=classify)
