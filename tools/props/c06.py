"""C06: text-protocol result values arrive unchanged."""
from .common import *
from . import progs
import check, struct

RULE = ("to_mysql_text called directly on values of every ToMysqlValue implementor (all 8/16-bit integers exhaustively, "
        "boundary and random wider integers, byte strings with lengths across the length-encoding classes, every day of "
        "several years, datetimes and durations with and without microseconds, Option / & wrappers, generic values, floats) "
        "and whole text resultsets through run_on in random row/column arrangements; oracle: the client-side text cell "
        "decoder returns exactly the written content, NULL only for NULL; floats: Rust's str::parse of the cell equals the value; "
        "non-trivial = anything but a small non-negative integer; distinct = distinct value token")
ASSUMPTIONS = ["floats: Rust's Display/parse round-trip (std) is an oracle, not proved", "years 0..9999, nanoseconds < 10^9 (no leap-second representation)"]


def val_lines(ctx):
    rng = ctx.rng
    L = []   # (line, expected content or None(NULL) or ANY)
    for ty in ("u8", "i8"):
        lo, hi = progs.INT_TYPES[ty]
        L += [("t %s:%d" % (ty, v), str(v).encode()) for v in range(lo, hi + 1)]
    for ty in ("u16", "i16"):
        lo, hi = progs.INT_TYPES[ty]
        step = 1 if not ctx.quick() else 37
        L += [("t %s:%d" % (ty, v), str(v).encode()) for v in range(lo, hi + 1, step)]
    for ty in ("u32", "i32", "u64", "i64", "usize", "isize"):
        for _ in range(300 if ctx.quick() else 3000):
            v = progs.rand_int(rng, ty)
            L.append(("t %s:%d" % (ty, v), str(v).encode()))
    for n in [0, 1, 2, 250, 251, 252, 255, 256, 65535, 65536, 65537] + ([] if ctx.quick() else [2**24 - 1, 2**24, 2**24 + 1]):
        b = bytes([rng.choice(b"ab\x00\xff\xfb")]) * n
        for k in ("b", "vec", "mbytes"):
            L.append(("t %s:%s" % (k, hexspec(b)), b))
    for s in (b"", b"NULL", b"null", b"0"):
        L.append(("t s:%s" % hexspec(s), s)); L.append(("t some string:%s" % hexspec(s), s))
    for tok in ("none", "mnull", "ref none", "some none", "ref mnull"):
        L.append(("t " + tok, None))
    for y in ([0, 1, 2000, 9999] if ctx.quick() else [0, 1, 4, 100, 400, 1900, 2000, 2023, 2024, 9999]):
        for m in range(1, 13):
            for d in range(1, progs.dim(y, m) + 1):
                if ctx.quick() and d not in (1, 15, progs.dim(y, m)):
                    continue
                L.append(("t date:%d:%d:%d" % (y, m, d), b"%04d-%02d-%02d" % (y, m, d)))
    for _ in range(300 if ctx.quick() else 5000):
        tok, t, b = progs.rand_value(rng)
        L.append(("t " + tok, t))
    # generic values outside the representable domain must be refused, never written as something else
    for tok in progs.OUT_OF_DOMAIN:
        L.append(("t " + tok, progs.REFUSED)); L.append(("t some " + tok, progs.REFUSED))
    # hours beyond two digits
    for secs in (0, 59, 3599, 3600, 86399, 86400, 359999, 360000, 3020399, 10**9):
        for us in (0, 1, 999999):
            L.append(("t dur:%d:%d" % (secs, us * 1000), b"%02d:%02d:%02d" % (secs // 3600, secs % 3600 // 60, secs % 60) + (b".%06d" % us if us else b"")))
    return L


def decode_cell(hexs):
    b = bytes.fromhex(hexs)
    if b == b"\xfb":
        return None, True
    try:
        v, i = pyclient.rd_lenenc_str(b, 0)
    except Bad:
        return b"<malformed>", False
    return bytes(v), i == len(b)


def run(ctx):
    L = val_lines(ctx)
    lines = [l for l, _ in L]
    impl, model = check.run_val(lines, "C06")
    corr = ctx.corr
    corr["evaluations"] += len(lines)
    seen = set()
    mism = 0
    for (line, exp), a, m in zip(L, impl, model):
        if line not in seen:
            seen.add(line)
            if not line.startswith(("t u8:", "t u16:")):
                corr["distinct_nontrivial"] += 1
        kind = line.split(" ")[1].split(":")[0]
        corr["hist"][kind] = corr["hist"].get(kind, 0) + 1
        bad = None
        if exp == progs.REFUSED:
            if a.startswith("ok "):
                bad = "a value outside the representable domain was accepted and written as %s" % a[3:60]
            elif a.startswith("panic"):
                bad = "panicked: " + a
        elif a.startswith("ok "):
            got, whole = decode_cell(a[3:])
            if not whole:
                bad = "cell is not exactly one NULL marker or one length-encoded string"
            elif exp is None and got is not None:
                bad = "NULL written, client sees %r" % got
            elif exp is not None and got is None:
                bad = "value written, client sees NULL"
            elif exp not in (None, progs.ANY) and got != exp:
                bad = "client sees %r, written %r" % (got[:40], exp[:40])
            elif exp == progs.ANY and kind in ("f32", "f64", "some", "ref") and ("f32:" in line or "f64:" in line or "mdouble" in line):
                bad = float_check(line, got)
        elif a.startswith("panic"):
            bad = "panicked: " + a
        else:
            bad = "refused: " + a if exp is not progs.ANY or True else None
        if bad:
            corr["oracle_failures"] += 1
            if corr["oracle_failures"] <= 6:
                ctx.violation("C06 oracle: `%s`: %s" % (line[:120], bad), line + "\n", name="val")
        if a != m:
            mism += 1
            if mism <= 5 and not bad:
                ctx.violation("model and implementation disagree on `%s`: impl %s, model %s" % (line[:120], a[:120], m[:120]),
                              line + "\n", name="corr", found=False)
    corr["mismatches"] += mism
    corr["samples"] = [{"case": lines[j][:200], "impl": impl[j][:200]} for j in (0, len(lines) // 2, len(lines) - 1)]
    rows_through_server(ctx)


def float_check(line, got):
    """the text of a float must parse back to the same float (Python float() implements correct rounding)"""
    import re
    m = re.search(r"(f32|f64|mdouble|mfloat):([0-9a-f]+)", line)
    if not m or got is None:
        return None
    bits = int(m.group(2), 16)
    try:
        txt = got.decode()
        if m.group(1) in ("f32", "mfloat"):
            f = struct.unpack("<f", struct.pack("<I", bits))[0]
            back = struct.unpack("<I", struct.pack("<f", float(txt)))[0] if txt not in ("NaN",) else 0x7fc00000
            ok = back == bits or (f != f)
        else:
            f = struct.unpack("<d", struct.pack("<Q", bits))[0]
            back = struct.unpack("<Q", struct.pack("<d", float(txt)))[0] if txt not in ("NaN",) else 0x7ff8000000000000
            ok = back == bits or (f != f)
        return None if ok else "float text %r does not parse back to the written value" % txt
    except Exception as e:
        return "float text %r unparsable (%s)" % (got, e)


def rows_through_server(ctx):
    rng = ctx.rng
    cases = []
    for i in range(40 if ctx.quick() else 600):
        ncols = rng.choice([1, 2, 3, 5, 9])
        cs = progs.rand_cols(rng, ncols, False)
        rows, parts = [], ["start " + progs.cols_tok(cs)]
        for _ in range(rng.randint(1, 4)):
            toks, texp, _ = progs.rand_row(rng, cs, False)
            rows.append(texp)
            parts.append("wr %d %s p" % (len(toks), " ".join(toks)))
        parts.append("fin")
        c = mk_case("c06r_%d" % i, [("query", cmd_query(b"q"))], ["q " + " ".join(parts)], lim=rng.choice([U24_MAX, 6, 64]))
        c.meta["expect"] = [("rows", cs, rows)]
        cases.append(c)

    def oracle(case, obs):
        try:
            d = decode_server(case, obs)
        except Bad as e:
            return [(None, "not conformant: %s" % e)]
        got = [dec for k, dec in d["replies"] if k == "query"]
        if not got:
            return [(None, "no reply")]
        return [(None, m) for m in progs.units_match(case.meta["expect"], got[0], False)]
    ctx.diff_conn(cases, tag="C06rows", oracle=oracle, classify=lambda c, o: ["rows_through_run_on"])


def replay(ctx, path):
    lines = [l.strip() for l in open(path) if l.strip()]
    impl, model = check.run_val(lines, "C06replay")
    for l, a, m in zip(lines, impl, model):
        print("%s\n  impl : %s\n  model: %s" % (l[:200], a[:200], m[:200]))
