"""C11: greeting is well-formed and no command is served before the shim authenticates."""
from .common import *
from . import progs

RULE = ("handshake responses in the 4.1 and 3.20 layouts: every single capability bit, random masks, user names (empty, "
        "1 byte, each byte 0x01..0xff, non-UTF-8, 300 bytes), random trailing auth/db/plugin data, every truncation of a valid "
        "response; with TLS configured or not; shim accepting or rejecting; 0..3 commands pipelined behind the handshake in the "
        "same read; oracle: greeting decodes (protocol 10, 4.1, TLS flag iff configured), after_authentication is the first and "
        "(on reject) only callback and gets the exact user name, reject => ERR 1045/28000 + shim error returned, accept => OK "
        "with the next sequence id then the pipelined commands are served; non-trivial = every case; distinct = distinct case text")
ASSUMPTIONS = ["clients that request TLS are covered by C18"]


def mk(ctx, cid, hs, auth="ok", tls=0, pipelined=0, hs_seq=1, one_read=True):
    cmds = [("query", cmd_query(b"q%d" % j)) for j in range(pipelined)]
    c = mk_case(cid, cmds, [], auth=auth, tls=tls, hs=hs, hs_seq=hs_seq, chunks=[2048] if one_read else [ctx.rng.choice([1, 7])])
    return c


def oracle(case, obs):
    fails = []
    out = b"".join(bytes.fromhex(l[2:]) for l in obs if l.startswith("w|"))
    try:
        msgs = pyclient.server_messages(out, case.lim)
        g = pyclient.p_greeting(msgs[0][2])
        if msgs[0][0] != 0:
            fails.append((None, "greeting sequence id %d" % msgs[0][0]))
        if not g["caps"] & 0x200:
            fails.append((None, "greeting does not advertise the 4.1 protocol"))
        if bool(g["caps"] & 0x800) != bool(case.tls):
            fails.append((None, "greeting TLS flag %s but tls configured = %s" % (bool(g["caps"] & 0x800), case.tls)))
    except (Bad, IndexError) as e:
        return [(None, "greeting not well-formed: %s" % e)]
    calls = calls_of(obs)
    exp = case.meta.get("expect")
    r = result_of(obs)
    if exp is None:
        return fails
    if exp["kind"] == "bad":
        if any(c.startswith("auth") for c in calls) and exp.get("no_auth", True):
            fails.append((None, "malformed handshake reached after_authentication"))
        if r == "ok" or r.startswith("panic"):
            fails.append((None, "malformed handshake: run_on returned %s" % r))
        return fails
    if not calls or calls[0] != "auth|" + exp["user"].hex():
        fails.append((None, "after_authentication saw %s, client sent user %s" % (calls[:1], exp["user"].hex())))
    if sum(1 for c in calls if c.startswith("auth|")) != 1:
        fails.append((None, "after_authentication called %d times" % sum(1 for c in calls if c.startswith("auth|"))))
    first = (last_seq(case.meta["hs_seq"], case.meta["hs"], case.lim) + 1) % 256
    if exp["kind"] == "reject":
        if len(calls) != 1:
            fails.append((None, "callbacks after a rejected authentication: %s" % calls[1:3]))
        if r != "err Shim:%d" % exp["tag"]:
            fails.append((None, "run_on returned %s, the shim's error was Shim:%d" % (r, exp["tag"])))
        try:
            e = pyclient.p_err(msgs[1][2])
            if (e["code"], e["state"]) != (1045, b"28000") or msgs[1][0] != first or len(msgs) != 2:
                fails.append((None, "expected exactly ERR 1045/28000 with id %d, got %s id %d (%d messages)" % (first, e, msgs[1][0], len(msgs))))
        except (Bad, IndexError) as e:
            fails.append((None, "no ERR packet after rejection: %s" % e))
    else:
        try:
            pyclient.p_ok(msgs[1][2])
            if msgs[1][0] != first:
                fails.append((None, "auth OK carries id %d, expected %d" % (msgs[1][0], first)))
        except (Bad, IndexError) as e:
            fails.append((None, "no OK after authentication: %s" % e))
        want = ["query|" + (b"q%d" % j).hex() for j in range(exp["pipelined"])]
        if calls[1:] != want:
            fails.append((None, "pipelined commands: shim saw %s, expected %s" % (calls[1:], want)))
        if r != "ok":
            fails.append((None, "run_on returned %s" % r))
    return fails


def run(ctx):
    rng = ctx.rng
    cases = []
    i = 0
    def add(hs, user, **kw):
        nonlocal i
        i += 1
        auth = kw.pop("auth", "ok")
        pipelined = kw.pop("pipelined", rng.randint(0, 3))
        c = mk(ctx, "c11_%d" % i, hs, auth=auth, pipelined=pipelined, **kw)
        if auth == "ok":
            c.meta["expect"] = dict(kind="accept", user=user, pipelined=pipelined)
        else:
            c.meta["expect"] = dict(kind="reject", user=user, tag=int(auth.split(":")[1]), pipelined=pipelined)
        cases.append(c)
    users = [b"", b"a", b"jon", bytes(range(1, 256)), b"\xff\xfe", b"u" * 300, "日本".encode(), b"root@localhost"]
    for u in users:
        for auth in ("ok", "rej:%d" % rng.randint(1, 10**6)):
            for tls in (0, 1):
                add(hs41(u, tail=rng.choice([b"\x00", b"\x14" + bytes(20) + b"db\x00mysql_native_password\x00", progs.rand_bytes(rng)])), u,
                    auth=auth, tls=tls, hs_seq=rng.choice([1, 1, 255]), one_read=rng.random() < 0.7)
    for b in range(256):
        u = bytes([b]) if b else b"x"
        add(hs41(u), u)
    # the fields the server has no business interpreting: reserved block (MariaDB puts extended capabilities
    # there), max packet size, collation
    for filler in (b"\xff" * 23, bytes(19) + b"\x04\x00\x00\x00", bytes(range(1, 24)), b"\x00" * 22 + b"\x01"):
        for maxps, coll in ((0, 0), (0xffffffff, 0xff), (rng.getrandbits(32), rng.getrandbits(8))):
            u = rng.choice(users[:6])
            add(hs41(u, filler=filler, maxps=maxps, coll=coll), u, tls=rng.randint(0, 1), auth=rng.choice(["ok", "rej:9"]))
    for bit in range(32):
        caps = (1 << bit) | 0x200
        if caps & 0x800:
            continue
        add(hs41(b"capuser", caps=caps), b"capuser")
    for _ in range(30 if ctx.quick() else 400):
        caps = (rng.getrandbits(32) | 0x200) & ~0x800
        add(hs41(b"r", caps=caps, tail=progs.rand_bytes(rng)), b"r", tls=rng.randint(0, 1))
    for u in users[:5]:
        for caps in (0x0005, 0x0001, 0x00ff & ~0x08, rng.getrandbits(16) & ~0x0a00):
            add(hs320(u, caps=caps & ~0x200 & ~0x800, tail=progs.rand_bytes(rng)), u)
    # a 4.1 response with CLIENT_SSL set although no TLS was configured/advertised: refused, no callback
    for caps in (DEFAULT_CAPS | 0x800, 0x200 | 0x800, (rng.getrandbits(32) | 0xa00)):
        i += 1
        c = mk(ctx, "c11s_%d" % i, hs41(b"root", caps=caps), pipelined=1, tls=0)
        c.meta["expect"] = dict(kind="bad")
        cases.append(c)
    # malformed
    good = hs41(b"jon")
    for k in range(len(good)):
        i += 1
        hs = good[:k]
        c = mk(ctx, "c11b_%d" % i, hs, pipelined=0)
        # a truncation that still contains the NUL after the user name is a complete response
        if k >= 32 + len(b"jon") + 1:
            c.meta["expect"] = dict(kind="accept", user=b"jon", pipelined=0)
        else:
            c.meta["expect"] = dict(kind="bad")
        cases.append(c)
    ctx.diff_conn(cases, oracle=oracle, nontrivial=lambda c, o: True,
                  classify=lambda c, o: [c.meta["expect"]["kind"], "tls_cfg_%d" % c.tls])
