"""C17: long data is concatenated in order, delivered once, and never leaks."""
from .common import *
from . import c16

RULE = ("histories over up to 3 prepared statements and up to 4 parameter indexes: COM_STMT_SEND_LONG_DATA chunks (sizes 0, "
        "1, small, multi-packet at small packet limits) interleaved with executions (rebinding and reusing), re-prepares and "
        "executions of other statements; oracle: at each execution the addressed parameter is the concatenation of the chunks "
        "sent for that statement and parameter since its last execution / prepare, every other parameter is decoded from the "
        "inline bytes, nothing is delivered twice or to another statement; non-trivial = at least one chunk; distinct = distinct case text")
ASSUMPTIONS = c16.ASSUMPTIONS + ["a client never sets the NULL bit of a parameter it sent long data for (the NULL bit wins in the code)"]
oracle = c16.oracle


def run(ctx):
    cases = c16.gen(ctx, True)
    ctx.diff_conn(cases, oracle=oracle, nontrivial=lambda c, o: any(k == "longdata" for k, _, _ in c.meta["cmds"]),
                  classify=lambda c, o: ["chunks_%d" % min(sum(1 for k, _, _ in c.meta["cmds"] if k == "longdata"), 6),
                                        "lim_%s" % (c.lim if c.lim < 1000 else "real")])
