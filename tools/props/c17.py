"""C17: long data is concatenated in order, delivered once, and never leaks."""
from .common import *
from . import c16

RULE = ("statements with 65..260 parameters and long data for parameters around the 64 / 128 / 256 marks; histories over up to 3 prepared statements and up to 4 parameter indexes: COM_STMT_SEND_LONG_DATA chunks (sizes 0, "
        "1, small, multi-packet at small packet limits) interleaved with executions (rebinding and reusing), re-prepares and "
        "executions of other statements; oracle: at each execution the addressed parameter is the concatenation of the chunks "
        "sent for that statement and parameter since its last execution / prepare, every other parameter is decoded from the "
        "inline bytes, nothing is delivered twice or to another statement; non-trivial = at least one chunk; distinct = distinct case text")
ASSUMPTIONS = c16.ASSUMPTIONS + ["a client never sets the NULL bit of a parameter it sent long data for (the NULL bit wins in the code)"]
oracle = c16.oracle


def wide_cases(ctx):
    """statements with more than 64 (and more than 256) parameters; long data for parameters around the 64 / 128 / 256
    marks, in ascending and descending order; the other parameters inline"""
    rng = ctx.rng
    out = []
    for j, (npar, longs) in enumerate([(65, [64]), (66, [63, 64, 65]), (70, [69, 0, 64]), (130, [128, 127, 64]), (260, [256, 255, 64, 0])]):
        types = [(253, False)] * npar
        cmds = [("prepare", cmd_prepare(b"w"))]
        scripts = ["p reply 4 %s 0" % progs.cols_tok([dict(table=b"", name=b"?", type=253, flags=0)] * npar)]
        data = {}
        for k, par in enumerate(longs):
            chunk = b"L%d-" % par + bytes([65 + k]) * rng.randint(0, 5)
            cmds.append(("longdata", cmd_long_data(4, par, chunk)))
            data[par] = data.get(par, b"") + chunk
        vals, calls = [], []
        for i in range(npar):
            if i in data:
                calls.append("param|253|bytes:" + data[i].hex())
            else:
                v = b"i%d" % i
                vals.append(lenenc_str(v)); calls.append("param|253|bytes:" + v.hex())
        cmds.append(("execute", cmd_execute(4, exec_block([False] * npar, types, vals))))
        scripts.append("x all - done 0 0")
        c = mk_case("w_%d" % j, cmds, scripts)
        c.meta["expect_calls"] = ["auth|" + b"jon".hex(), "prepare|" + b"w".hex(), "execute|4"] + calls
        c.meta["reuse"] = False
        out.append(c)
    return out


def run(ctx):
    from . import progs
    globals()["progs"] = progs
    cases = c16.gen(ctx, True) + wide_cases(ctx)
    ctx.diff_conn(cases, oracle=oracle, nontrivial=lambda c, o: any(k == "longdata" for k, _, _ in c.meta["cmds"]),
                  classify=lambda c, o: ["chunks_%d" % min(sum(1 for k, _, _ in c.meta["cmds"] if k == "longdata"), 6),
                                        "lim_%s" % (c.lim if c.lim < 1000 else "real")])
