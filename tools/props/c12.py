"""C12: the server never waits for input while it owes a flushed reply."""
from .common import *
from . import progs
from .c01 import compositions

RULE = ("command sequences delivered under arrival schedules: strict lock-step (one command per read), pipelining depth "
        "1..8 (k commands per read), random chunkings, multi-packet commands around exact multiples of a small packet limit "
        "(lock-step, depth 2, random chunkings), replies of 254..258 and 510..514 packets (the sequence counter wraps to its start), reads that exactly fill the receive buffer's spare capacity, and ALL compositions of short conversations into reads; the harness's "
        "instrumented transport logs every read/write/flush in order; oracle: at every read() the server has flushed "
        "everything it wrote, and the number of complete replies in the flushed output equals the number of reply-expecting "
        "commands wholly contained in the bytes delivered so far; commands delivered in one read are all answered before the "
        "next read; plus conversations over an upgraded TLS connection whose transport delivers server bytes only on flush(); non-trivial = more than one command; distinct = distinct case text")
ASSUMPTIONS = ["real socket blocking, kernel and TLS-engine buffering are below the transport interface and not modelled"]


def oracle(case, obs):
    fails = []
    pending_write = False
    delivered = 0
    flushed = b""
    unflushed = b""
    stream = case.meta["stream"]
    # boundaries of client packets = ends of commands (all commands here are single-packet)
    ends = []
    i = 0
    while i < len(stream):
        ln = int.from_bytes(stream[i:i + 3], "little"); i += 4 + ln
        if ln < case.lim:      # a packet shorter than the limit ends the command
            ends.append(i)
    kinds = ["hs"] + [k for k, _, _ in case.meta["cmds"]]
    for l in obs:
        if l.startswith("w|"):
            unflushed += bytes.fromhex(l[2:]); pending_write = True
        elif l == "flush":
            flushed += unflushed; unflushed = b""; pending_write = False
        elif l.startswith("read|"):
            if pending_write:
                fails.append((None, "the server reads while %d written bytes are not flushed" % len(unflushed)))
                break
            complete = sum(1 for e in ends if e <= delivered)
            expect_replies = 1 + sum(1 for k in kinds[:complete] if k in ("hs",) + REPLY_KINDS)
            try:
                got = len(pyclient.server_messages(flushed, case.lim))
            except Bad as e:
                fails.append((None, "flushed output not well-framed at a read: %s" % e)); break
            # every reply here is exactly one message (greeting, OK) except resultsets; count lower bound
            if got < expect_replies:
                fails.append((None, "the server waits for input with %d complete commands received but only %d messages flushed" % (complete, got)))
                break
            delivered += int(l[5:])
    if result_of(obs) != "ok":
        fails.append((None, "run_on returned %s" % result_of(obs)))
    return fails


def run(ctx):
    rng = ctx.rng
    cases = []
    i = 0
    def conv(n):
        cmds, scripts = [], []
        for _ in range(n):
            k = rng.random()
            if k < 0.3:
                cmds.append(("ping", cmd_ping()))
            elif k < 0.55:
                cmds.append(("query", cmd_query(b"q"))); scripts.append("q done 1 1")
            elif k < 0.7:
                cmds.append(("close", cmd_close(rng.randint(1, 3))))
            elif k < 0.8:
                # probes the library answers itself
                cmds.append(("query", cmd_query(rng.choice([b"SELECT @@max_allowed_packet", b"select @@version_comment limit 1",
                                                            b"SELECT @@wait_timeout", b"select @@session.tx_isolation"]))))
            elif k < 0.86:
                cmds.append(("query", cmd_query(rng.choice([b"USE `db`;", b"use x"])))); scripts.append("i ok")
            elif k < 0.91:
                cmds.append(("init", cmd_init(b"db"))); scripts.append("i ok")
            elif k < 0.95:
                cmds.append(("fieldlist", cmd_field_list(b"t\x00")))
            else:
                cmds.append(("prepare", cmd_prepare(b"p"))); scripts.append("p reply 2 0 0")
        return cmds, scripts
    for depth in range(1, 9):
        for _ in range(3 if ctx.quick() else 30):
            i += 1
            cmds, scripts = conv(rng.randint(depth, 16))
            c = mk_case("c12_%d" % i, cmds, scripts)
            # deliver `depth` commands per read (handshake alone first)
            stream = c.meta["stream"]
            bounds = []
            j = 0
            while j < len(stream):
                ln = int.from_bytes(stream[j:j + 3], "little"); j += 4 + ln
                bounds.append(j)
            toks, prev = [], 0
            cut = [bounds[0]] + bounds[depth::depth]
            if cut[-1] != bounds[-1]:
                cut.append(bounds[-1])
            for b in cut:
                if b > prev:
                    toks.append("d:" + hexspec(stream[prev:b])); prev = b
            c.reads = toks
            c.meta["depth"] = depth
            cases.append(c)
    for _ in range(30 if ctx.quick() else 600):
        i += 1
        cmds, scripts = conv(rng.randint(2, 12))
        c = mk_case("c12_%d" % i, cmds, scripts, chunks=[rng.randint(1, 11) for _ in range(7)])
        c.meta["depth"] = 0
        cases.append(c)
    # multi-packet commands at small packet limits (payloads around exact multiples of the limit), lock-step,
    # pipelined and randomly chunked; and the buffer-boundary streams of C01
    for lim in (4, 8):
        for rep in range(2 if ctx.quick() else 20):
            for depth in (1, 2, 0):
                i += 1
                cmds, scripts = [], []
                for ln in rng.sample([lim - 1, lim, lim + 1, 2 * lim, 2 * lim + 1, 3 * lim], 4):
                    cmds.append(("query", b"\x03" + bytes(rng.choice(b"abcd") for _ in range(ln - 1)))); scripts.append("q done 1 1")
                    if rng.random() < 0.5:
                        cmds.append(("ping", cmd_ping()))
                c = mk_case("c12_%d" % i, cmds, scripts, lim=lim,
                            chunks=[rng.randint(1, 11) for _ in range(7)] if depth == 0 else None)
                if depth:
                    stream = c.meta["stream"]
                    bounds, j = [], 0
                    while j < len(stream):
                        ln = int.from_bytes(stream[j:j + 3], "little"); j += 4 + ln
                        if ln < lim:
                            bounds.append(j)
                    cut = [bounds[0]] + bounds[depth::depth]
                    if cut[-1] != bounds[-1]:
                        cut.append(bounds[-1])
                    toks, prev = [], 0
                    for b in cut:
                        if b > prev:
                            toks.append("d:" + hexspec(stream[prev:b])); prev = b
                    c.reads = toks
                c.meta["depth"] = 100 + depth
                cases.append(c)
    # replies whose packet count is a multiple of 256 or next to one (the sequence counter wraps to where it
    # started), in lock-step with a following command
    c1 = col(b"a", 3, 0)
    for nrows in (list(range(250, 255)) + list(range(506, 511))) if ctx.quick() else (list(range(245, 262)) + list(range(500, 520)) + [764, 1020]):
        i += 1
        prog = " ".join(["q start 1 " + c1] + ["wr 1 i32:%d p" % (k % 100) for k in range(nrows)] + ["fin"])
        cmds = [("query", cmd_query(b"big")), ("ping", cmd_ping()), ("query", cmd_query(b"q"))]
        c = mk_case("c12_%d" % i, cmds, [prog, "q done 1 1"])
        stream = c.meta["stream"]
        toks, j = [], 0
        while j < len(stream):
            ln = int.from_bytes(stream[j:j + 3], "little")
            toks.append("d:" + hexspec(stream[j:j + 4 + ln])); j += 4 + ln
        c.reads = toks
        c.meta["depth"] = 300
        cases.append(c)
    # replies whose LAST packet is the one that crosses a power-of-two amount of output since the previous flush
    # (4 KiB .. 64 KiB): whatever buffering threshold an implementation might use, the terminator must be flushed
    coldef = len(frame(b"\x03def\x00\x00\x00\x01a\x00\x0c\x21\x00\x00\x04\x00\x00\x03\x00\x00\x00\x00\x00", 0))
    base = 5 + coldef + 9            # column count, one definition, EOF
    for T in (4096, 8192, 16384, 32768, 65536) if not ctx.quick() else (4096, 16384, 65536):
        ns = [nr for nr in range(T // 6 - 12, T // 6 + 3) if T - 9 < base + 6 * nr <= T]
        for nr in sorted(set(ns + [x + 1 for x in ns[-1:]] + [x - 1 for x in ns[:1]])):
            i += 1
            prog = " ".join(["q start 1 " + c1] + ["wr 1 i32:5 p"] * nr + ["fin"])
            c = mk_case("c12_%d" % i, [("query", cmd_query(b"t")), ("ping", cmd_ping())], [prog])
            stream = c.meta["stream"]
            toks, j = [], 0
            while j < len(stream):
                ln = int.from_bytes(stream[j:j + 3], "little")
                toks.append("d:" + hexspec(stream[j:j + 4 + ln])); j += 4 + ln
            c.reads = toks
            c.meta["depth"] = 400
            cases.append(c)
    from .c01 import gen_fill
    for c in gen_fill(ctx):
        c.id = c.id.replace("c01_", "c12_"); c.meta["depth"] = 200
        c.scripts = ["q done 1 1" for k, _, _ in c.meta["cmds"] if k == "query"]
        cases.append(c)
    # all compositions of a short conversation (after the handshake)
    cmds = [("ping", cmd_ping()), ("ping", cmd_ping())]
    base = mk_case("x", cmds, [])
    hs_len = len(frame(base.meta["hs"], 1))
    rest = base.meta["stream"][hs_len:]
    for comp in compositions(len(rest)):
        i += 1
        c = mk_case("c12_%d" % i, cmds, [])
        toks, j = ["d:" + hexspec(c.meta["stream"][:hs_len])], 0
        for n in comp:
            toks.append("d:" + hexspec(rest[j:j + n])); j += n
        c.reads = toks
        c.meta["depth"] = -1
        cases.append(c)
    ctx.corr["exhaustive"] = True
    ctx.diff_conn(cases, oracle=oracle, nontrivial=lambda c, o: len(c.meta["cmds"]) > 1,
                  classify=lambda c, o: ["depth_%d" % c.meta["depth"]])
    # the same over an upgraded (TLS) connection: the transport hands server bytes to the client only on flush()
    # and counts the reads made while written ciphertext is still unflushed
    import check
    from . import c18
    tcases = []
    for k, ch in enumerate(("*", [64], [7], [1])):
        cmds = [("ping", cmd_ping()), ("query", cmd_query(b"q1")), ("ping", cmd_ping()), ("query", cmd_query(b"q2"))]
        tcases.append(c18.mk("c12tls_%d" % k, cmds=cmds, scripts=["q done 1 2", "q start 1 %s wr 1 i32:5 p fin" % col(b"a", 3, 0)],
                             chunks=ch, split=rng.choice([0, 5, 10000])))
    tio, tmo = check.run_tls([(c[0], c[1]) for c in tcases], "C12tls")
    for cid, text, meta in tcases:
        a = tio.get(cid, ["<none>"])
        get = lambda k: next((l[len(k) + 1:] for l in a if l.startswith(k + "|")), None)
        ctx.corr["evaluations"] += 1
        ctx.corr["distinct_nontrivial"] += 1
        ctx.corr["hist"]["over_tls"] = ctx.corr["hist"].get("over_tls", 0) + 1
        if get("tlsflush") != "ok" or get("result") != "ok":
            ctx.corr["oracle_failures"] += 1
            ctx.violation("over TLS: the server waited for input while ciphertext it had written was not flushed to the transport "
                          "(tlsflush=%s, result=%s) (case %s)" % (get("tlsflush"), get("result"), cid), text, name="oracle")
