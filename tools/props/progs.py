"""Random shim programs over the writer API together with what a client is meant to see
(by construction), and random typed values with their expected text / binary decodings."""
import struct
from .common import *

INT_TYPES = {"u8": (0, 2**8 - 1), "i8": (-2**7, 2**7 - 1), "u16": (0, 2**16 - 1), "i16": (-2**15, 2**15 - 1),
             "u32": (0, 2**32 - 1), "i32": (-2**31, 2**31 - 1), "u64": (0, 2**64 - 1), "i64": (-2**63, 2**63 - 1),
             "usize": (0, 2**64 - 1), "isize": (-2**63, 2**63 - 1)}
ANY = "<any>"
REFUSED = "<must be refused>"
# generic values outside what the crate can represent: negative times, zero / impossible dates, 
OUT_OF_DOMAIN = ["mtime:1:0:1:2:3:0", "mtime:1:2:0:0:0:5", "mtime:1:0:0:0:0:0", "mdate:0:0:0:0:0:0:0", "mdate:2020:0:1:0:0:0:0",
                 "mdate:2020:13:1:0:0:0:0", "mdate:2021:2:29:0:0:0:0", "mdate:2020:1:1:24:0:0:0", "mdate:2020:1:1:0:60:0:0"]
OUT_OF_DOMAIN_BIN = OUT_OF_DOMAIN + ["mtime:0:35:0:0:0:0"]      # the binary TIME layout has a day limit; the text form has none
INT_COLS = {1: 1, 2: 2, 13: 2, 3: 4, 9: 4, 8: 8}
WIDTH = {"u8": 1, "i8": 1, "u16": 2, "i16": 2, "u32": 4, "i32": 4, "u64": 8, "i64": 8}


def col_range(ct, unsigned):
    w = INT_COLS[ct]
    return (0, 2**(8 * w) - 1) if unsigned else (-2**(8 * w - 1), 2**(8 * w - 1) - 1)


def int_accepts(ty, v, ct, unsigned):
    """the post-fix acceptance rule of encode_int (what the property requires at least + what the code does)"""
    if ct not in INT_COLS:
        return False
    wc = INT_COLS[ct]
    lo, hi = col_range(ct, unsigned)
    if ty in ("usize", "isize"):
        return lo <= v <= hi
    wt = WIDTH[ty]
    signed_t = ty.startswith("i")
    if wc < wt:
        return False
    if wc == wt:
        return signed_t != unsigned
    if not unsigned:
        return True
    return v >= 0


def rand_int(rng, ty):
    lo, hi = INT_TYPES[ty]
    r = rng.random()
    if r < 0.3:
        return rng.choice([lo, hi, 0, 1, -1 if lo < 0 else 1, lo + 1, hi - 1])
    if r < 0.6:
        k = rng.randint(0, 63)
        v = rng.choice([2**k, 2**k - 1, 2**k + 1, -(2**k), -(2**k) - 1, -(2**k) + 1])
        return min(max(v, lo), hi)
    return rng.randint(lo, hi)


def rand_bytes(rng, maxlen=40):
    r = rng.random()
    if r < 0.15:
        return b""
    if r < 0.25:
        return rng.choice([b"NULL", b"\xfb", b"\xff", b"\xfe", b"\x00", b"#", b"\xfe" * 9])
    n = rng.choice([1, 2, 3, 5, 8, 13, rng.randint(0, maxlen)])
    return bytes(rng.getrandbits(8) for _ in range(n))


def rand_utf8(rng, maxlen=12):
    alphabet = ["a", "b", "z", " ", "é", "日", "😀", "`", ";", "\t", "0"]
    return "".join(rng.choice(alphabet) for _ in range(rng.randint(0, maxlen))).encode("utf-8")


def is_leap(y):
    return (y % 4 == 0 and y % 100 != 0) or y % 400 == 0


def dim(y, m):
    return [31, 29 if is_leap(y) else 28, 31, 30, 31, 30, 31, 31, 30, 31, 30, 31][m - 1]


def rand_date(rng):
    y = rng.choice([0, 1, 4, 100, 400, 1900, 1970, 2000, 2020, 2024, 9999, rng.randint(0, 9999)])
    m = rng.randint(1, 12)
    d = rng.choice([1, dim(y, m), rng.randint(1, dim(y, m))])
    return y, m, d


def rand_value(rng, ct=None, unsigned=False, allow_null=True):
    """returns (token, text_expect, bin_expect): expectations may be None (= not predicted here).
    If ct is given the value is chosen to be carried by that binary column type."""
    kinds = []
    if ct is None:
        kinds = ["int", "bytes", "str", "date", "dt", "dur", "null", "f64", "f32", "mint", "mbytes"]
    elif ct in INT_COLS:
        kinds = ["int", "int", "mint"]
    elif ct in BYTES_TYPES:
        kinds = ["bytes", "str", "vec", "mbytes"]
    elif ct == 10:
        kinds = ["date"]
    elif ct in (12, 7):
        kinds = ["dt", "mdate"]
    elif ct == 11:
        kinds = ["dur", "mtime"]
    elif ct == 5:
        kinds = ["f64", "f32", "mdouble"]
    elif ct == 4:
        kinds = ["f32"]
    else:
        kinds = ["null"]
    if allow_null and rng.random() < 0.15:
        kinds = ["null"]
    k = rng.choice(kinds)
    wrap = rng.choice(["", "", "", "some ", "ref ", "ref some ", "some ref "]) if k != "null" else ""
    if k == "null":
        tok = rng.choice(["none", "mnull", "ref none", "ref mnull", "some none"][:4])
        return tok, None, None
    if k == "int":
        if ct is None:
            ty = rng.choice(list(INT_TYPES))
            v = rand_int(rng, ty)
        else:
            lo, hi = col_range(ct, unsigned)
            cands = [t for t in INT_TYPES if int_accepts(t, max(lo, min(hi, 1)), ct, unsigned)]
            ty = rng.choice(cands)
            tlo, thi = INT_TYPES[ty]
            v = rand_int(rng, ty)
            v = max(max(lo, tlo), min(min(hi, thi), v))
            if not int_accepts(ty, v, ct, unsigned):
                v = max(0, max(lo, tlo))
        return wrap + "%s:%d" % (ty, v), str(v).encode(), ("int", v)
    if k == "mint":
        if ct is None:
            v = rand_int(rng, "i64")
        else:
            lo, hi = col_range(ct, unsigned)
            v = max(max(lo, -2**63), min(min(hi, 2**63 - 1), rand_int(rng, "i64")))
        return wrap + "mint:%d" % v, str(v).encode(), ("int", v)
    if k in ("bytes", "vec", "mbytes"):
        b = rand_bytes(rng)
        tok = {"bytes": "b:", "vec": "vec:", "mbytes": "mbytes:"}[k] + hexspec(b)
        return wrap + tok, b, ("bytes", b)
    if k == "str":
        b = rand_utf8(rng)
        return wrap + rng.choice(["s:", "string:"]) + hexspec(b), b, ("bytes", b)
    if k == "date":
        y, m, d = rand_date(rng)
        return wrap + "date:%d:%d:%d" % (y, m, d), b"%04d-%02d-%02d" % (y, m, d), ("date", (y, m, d, 0, 0, 0, 0))
    if k in ("dt", "mdate"):
        y, m, d = rand_date(rng)
        if k == "mdate" and y == 0:
            y = 1; d = min(d, dim(y, m))
        h, mi, s = rng.randint(0, 23), rng.randint(0, 59), rng.randint(0, 59)
        us = rng.choice([0, 0, 1, 999999, rng.randint(0, 999999), rng.choice([10, 1234, 99999, 100000, 500])])
        # boundary shapes: midnight (with and without a fraction), whole minutes / hours, first of the month
        z = rng.random()
        if z < 0.15:
            h = mi = s = 0
        elif z < 0.22:
            s = 0
        elif z < 0.28:
            mi = s = 0
        if rng.random() < 0.1:
            m, d = rng.choice([(1, 1), (12, 31), (m, 1)])
        txt = b"%04d-%02d-%02d %02d:%02d:%02d" % (y, m, d, h, mi, s) + (b".%06d" % us if us else b"")
        if k == "dt":
            ns = us * 1000 + rng.choice([0, 0, 999])
            return wrap + "dt:%d:%d:%d:%d:%d:%d:%d" % (y, m, d, h, mi, s, ns), txt, ("date", (y, m, d, h, mi, s, us))
        return wrap + "mdate:%d:%d:%d:%d:%d:%d:%d" % (y, m, d, h, mi, s, us), txt, ("date", (y, m, d, h, mi, s, us))
    if k in ("dur", "mtime"):
        days = rng.choice([0, 0, 1, 34, rng.randint(0, 34)])
        h, mi, s = rng.randint(0, 23), rng.randint(0, 59), rng.randint(0, 59)
        if rng.random() < 0.1:
            days = h = mi = s = 0
        # boundary shapes: individual fields zero (whole minutes / hours / days)
        z = rng.random()
        if z < 0.12:
            s = 0
        elif z < 0.2:
            mi = s = 0
        elif z < 0.26:
            h = mi = s = 0
        elif z < 0.3:
            days = h = 0
        us = rng.choice([0, 0, 1, 999999, rng.randint(0, 999999)])
        secs = days * 86400 + h * 3600 + mi * 60 + s
        txt = b"%02d:%02d:%02d" % (secs // 3600, mi, s) + (b".%06d" % us if us else b"")
        binexp = ("time", (False, days, h, mi, s, us)) if (secs or us) else ("time", (False, 0, 0, 0, 0, 0))
        if k == "dur":
            return wrap + "dur:%d:%d" % (secs, us * 1000 + rng.choice([0, 0, 999])), txt, binexp
        return wrap + "mtime:0:%d:%d:%d:%d:%d" % (days, h, mi, s, us), txt, binexp
    if k in ("f64", "mdouble"):
        bits = rng.choice([0, 0x3ff0000000000000, 0x7ff0000000000000, 0xfff0000000000000, 0x0000000000000001,
                           0x7fefffffffffffff, 0x8000000000000000, rng.getrandbits(64)])
        if (bits >> 52) & 0x7ff == 0x7ff and bits & ((1 << 52) - 1):
            bits = 0x7ff8000000000000      # canonical NaN only
        tok = ("f64:%016x" if k == "f64" else "mdouble:%016x") % bits
        return wrap + tok, ANY, ("f64", bits)
    if k == "f32":
        bits = rng.choice([0, 0x3f800000, 0x7f800000, 0xff800000, 1, 0x7f7fffff, 0x80000000, rng.getrandbits(32)])
        if (bits >> 23) & 0xff == 0xff and bits & ((1 << 23) - 1):
            bits = 0x7fc00000
        if ct == 5:
            f = struct.unpack("<f", struct.pack("<I", bits))[0]
            b64 = struct.unpack("<Q", struct.pack("<d", f))[0]
            return wrap + "f32:%08x" % bits, ANY, ("f64", b64)
        return wrap + "f32:%08x" % bits, ANY, ("f32", bits)
    raise AssertionError(k)


BIN_COLTYPES = [1, 2, 13, 3, 9, 8, 4, 5, 10, 12, 7, 11] + BYTES_TYPES


def rand_cols(rng, n, binary):
    cs = []
    for i in range(n):
        ct = rng.choice(BIN_COLTYPES) if binary else rng.choice(ALL_TYPES)
        fl = rng.choice([0, 0, UNSIGNED, NOT_NULL, UNSIGNED | NOT_NULL, rng.getrandbits(16)])
        name = rng.choice([b"c%d" % i, b"", rand_utf8(rng), b"x" * rng.choice([1, 250, 251, 300])])
        table = rng.choice([b"", b"t", rand_utf8(rng)])
        cs.append(dict(table=table, name=name, type=ct, flags=fl))
    return cs


def cols_tok(cs):
    return cols([col(c["name"], c["type"], c["flags"], c["table"]) for c in cs])


def rand_row(rng, cs, binary):
    toks, texp, bexp = [], [], []
    for c in cs:
        notnull = bool(c["flags"] & NOT_NULL) and binary
        tok, t, b = rand_value(rng, c["type"] if binary else None, bool(c["flags"] & UNSIGNED), allow_null=not notnull)
        toks.append(tok); texp.append(t); bexp.append(b)
    return toks, texp, bexp


def rand_qprog(rng, binary, depth=0, maxdepth=4):
    """returns (program text, expected units); every call in the program succeeds.
    units: ('ok', rows, id) | ('err', code, msg) | ('rows', cols, rows) | ('rows_err', cols, rows, code, msg)"""
    r = rng.random()
    last = depth >= maxdepth
    if r < 0.15:
        rows, i = rng.choice([0, 1, 251, 2**16, 2**64 - 1]), rng.choice([0, 7, 2**24])
        return "done %d %d" % (rows, i), [("ok", rows, i)]
    if r < 0.25:
        code = rng.choice(ERR_CODES)
        msg = rand_bytes(rng)
        return "err %d %s" % (code, hexspec(msg)), [("err", code, msg)]
    if r < 0.40 and not last:
        rows, i = rng.randint(0, 300), rng.randint(0, 300)
        p, u = rand_qprog(rng, binary, depth + 1, maxdepth)
        return "c1 %d %d %s" % (rows, i, p), [("ok", rows, i)] + u
    if r < 0.45 and depth > 0:
        return rng.choice(["nomore", "drop"]), []
    # a resultset
    ncols = rng.choice([0, 1, 1, 2, 3, 7, 9, 17])
    cs = rand_cols(rng, ncols, binary)
    nrows = rng.choice([0, 1, 2, 3, 5])
    parts = ["start " + cols_tok(cs)]
    rows = []
    for _ in range(nrows):
        toks, texp, bexp = rand_row(rng, cs, binary)
        rows.append(bexp if binary else texp)
        z = rng.random()
        if z < 0.45 or ncols == 0:
            parts.append("wr %d %s p" % (len(toks), " ".join(toks)) if toks else "wr 0 p")
        elif z < 0.8 or ncols < 2:
            for t in toks:
                parts.append("wc %s p" % t)
            parts.append("er p")
        else:
            # a row begun cell by cell and completed by write_row
            j = rng.randint(1, ncols - 1)
            for t in toks[:j]:
                parts.append("wc %s p" % t)
            parts.append("wr %d %s p" % (ncols - j, " ".join(toks[j:])))
    # possibly a last row left open (auto-ended by finish / drop)
    if ncols and rng.random() < 0.2:
        toks, texp, bexp = rand_row(rng, cs, binary)
        rows.append(bexp if binary else texp)
        for t in toks:
            parts.append("wc %s p" % t)
    end = rng.random()
    if ncols == 0:
        unit = ("ok", nrows, 0)
    else:
        unit = ("rows", cs, rows)
    if end < 0.35 or last:
        parts.append(rng.choice(["fin", "drop"]))
        return " ".join(parts), [unit]
    if end < 0.55:
        code = rng.choice(ERR_CODES); msg = rand_bytes(rng)
        parts.append("ferr %d %s" % (code, hexspec(msg)))
        if ncols == 0:
            return " ".join(parts), [("err", code, msg)]
        return " ".join(parts), [("rows_err", cs, rows, code, msg)]
    p, u = rand_qprog(rng, binary, depth + 1, maxdepth)
    parts.append("fin1 " + p)
    return " ".join(parts), [unit] + u


ERR_CODES = [1000, 1005, 1045, 1046, 1049, 1062, 1064, 1146, 1205, 1213, 1317, 1768, 1885]


def units_match(want, got, binary, errref=None):
    """compare expected units with what the client-side oracle decoded; returns list of messages"""
    fails = []
    if len(want) != len(got):
        return ["%d result units expected, client decoded %d" % (len(want), len(got))]
    for j, (w, g) in enumerate(zip(want, got)):
        lastu = j == len(want) - 1
        if w[0] == "ok":
            if g[0] != "ok" or (g[1], g[2]) != (w[1], w[2]):
                fails.append("unit %d: expected OK(%d,%d), got %s" % (j, w[1], w[2], str(g)[:80]))
            elif bool(g[3] & 8) == lastu:
                fails.append("unit %d: more-results flag %s on %s unit" % (j, bool(g[3] & 8), "last" if lastu else "non-last"))
        elif w[0] == "err":
            if g[0] != "err" or g[1] != w[1] or g[3] != w[2]:
                fails.append("unit %d: expected ERR(%d,%r), got %s" % (j, w[1], w[2], str(g)[:100]))
            elif errref and g[2] != errref.get(w[1]):
                fails.append("unit %d: SQLSTATE %r for code %d, reference says %r" % (j, g[2], w[1], errref.get(w[1])))
        elif w[0] in ("rows", "rows_err"):
            if g[0] != w[0]:
                fails.append("unit %d: expected %s, got %s" % (j, w[0], g[0])); continue
            gc = [(c["table"], c["name"], c["type"], c["flags"]) for c in g[1]]
            wc = [(c["table"], c["name"], c["type"], c["flags"]) for c in w[1]]
            if gc != wc:
                fails.append("unit %d: column metadata differs" % j)
            if len(g[2]) != len(w[2]):
                fails.append("unit %d: %d rows expected, %d decoded" % (j, len(w[2]), len(g[2])))
            else:
                for ri, (wr, gr) in enumerate(zip(w[2], g[2])):
                    for ci, (wv, gv) in enumerate(zip(wr, gr)):
                        if wv == ANY:
                            continue
                        if wv != gv:
                            fails.append("unit %d row %d cell %d: wrote %r, client decoded %r" % (j, ri, ci, wv, gv))
            if w[0] == "rows" and bool(g[3] & 8) == lastu:
                fails.append("unit %d: more-results flag wrong" % j)
            if w[0] == "rows_err" and (g[3] != w[3] or g[5] != w[4]):
                fails.append("unit %d: expected trailing ERR(%d,%r)" % (j, w[3], w[4]))
    return fails
