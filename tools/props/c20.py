"""C20: no client byte sequence can crash or wedge a connection."""
from .common import *
from . import progs
import itertools

RULE = ("after a valid handshake: ALL byte strings of length <= 4 (quick) / 5 (thorough) over the alphabet "
        "{00,01,03,17,ff} sent as raw stream bytes; every command byte 0..255 with empty / short / long bodies; every request "
        "sequence id 0..255; grammar-aware single-field mutations of valid conversations (truncated and extended fields, "
        "flipped parameter counts, unknown type codes 0..255, inconsistent NULL bitmaps, out-of-order fragment ids); malformed "
        "handshakes (every truncation of a valid response, random bytes); random byte streams; outcome must be a conformant "
        "reply or an error return -- never a panic or a hang; non-trivial = not a fully valid conversation; distinct = distinct case text")
ASSUMPTIONS = ["shim callbacks return and do not panic by themselves (no From<Value> conversion of a mistyped parameter, defined error kinds)"]

KNOWN_PANIC_KEYS = {}      # no known findings left: D9 and D14 have been repaired


def raw_case(cid, raw, lim=U24_MAX, scripts=()):
    c = mk_case(cid, [("rawbytes", raw)], list(scripts), lim=lim)
    return c


def gen(ctx):
    rng = ctx.rng
    cases = []
    n = 0
    alpha = [0x00, 0x01, 0x03, 0x17, 0xff]
    maxlen = 4 if ctx.quick() else 5
    for ln in range(1, maxlen + 1):
        for tup in itertools.product(alpha, repeat=ln):
            n += 1
            cases.append(raw_case("c20a_%d" % n, bytes(tup)))
    ctx.corr["exhaustive"] = True
    # every command byte with several bodies, every sequence id
    for cb in range(256):
        for body in (b"", b"\x01", b"\x01\x00\x00\x00", b"\x01\x00\x00\x00\x00\x01\x00\x00\x00", b"abc" * 5):
            n += 1
            cases.append(mk_case("c20c_%d" % n, [("raw", bytes([cb]) + body, 0), ("ping", cmd_ping(), 0)], []))
    for sid in range(256):
        n += 1
        cases.append(mk_case("c20s_%d" % n, [("ping", cmd_ping(), sid), ("query", cmd_query(b"q"), (sid * 7) % 256)], []))
    # empty packets: alone, before / between / after commands, with more bytes behind them in the same read or
    # in a later one, with any sequence id
    cases.append(mk_case("c20e", [("raw", b"", 0)], []))
    for k, (before, after) in enumerate([([], [("ping", cmd_ping(), 0)]), ([("ping", cmd_ping(), 0)], [("ping", cmd_ping(), 0)]),
                                         ([("query", cmd_query(b"q"), 0)], [("rawbytes", b"\x01")]), ([], [("rawbytes", b"\x00\x00")]),
                                         ([("ping", cmd_ping(), 0)], [("raw", b"", 1), ("ping", cmd_ping(), 0)])]):
        for sid in (0, 1, 255):
            for chunks in ([2048], [1], [4], [5, 3]):
                n += 1
                cases.append(mk_case("c20e_%d" % n, before + [("raw", b"", sid)] + after, ["q done 0 0"], chunks=chunks))
    # execute-block mutations
    base_types = [(3, False), (253, False), (8, True)]
    vals = [le(5, 4), lenenc_str(b"hello"), le(7, 8)]
    good = exec_block([False] * 3, base_types, vals)
    pcols = progs.cols_tok([dict(table=b"", name=b"?", type=253, flags=0)] * 3)
    muts = [good[:k] for k in range(len(good))] + [good + b"\x00" * k for k in (1, 9)]
    for ty in range(256):
        muts.append(exec_block([False] * 3, [(ty, False), (253, False), (8, True)], vals))
    for bm in range(8):
        muts.append(bytes([bm]) + good[1:])
    muts.append(b"\xff" + good[1:])
    muts.append(good[:1] + b"\x00" + good[2:])          # flag cleared with no types ever bound
    for declared in (0, 1, 2, 4, 9, 300):
        n += 1
        pc = progs.cols_tok([dict(table=b"", name=b"?", type=253, flags=0)] * declared)
        cases.append(mk_case("c20p_%d" % n, [("prepare", cmd_prepare(b"p")), ("execute", cmd_execute(1, good)), ("ping", cmd_ping())],
                             ["p reply 1 %s 0" % pc, "x all - done 0 0"]))
    for m in muts:
        n += 1
        cases.append(mk_case("c20m_%d" % n, [("prepare", cmd_prepare(b"p")), ("execute", cmd_execute(1, m)), ("ping", cmd_ping())],
                             ["p reply 1 %s 0" % pcols, "x all - done 0 0"]))
    # executions of a statement that never had types bound (flag 0, or the block ends after the NULL bitmap):
    # every pattern of NULL / long-data / inline parameters for 1..3 parameters; also after a valid first execution
    for npar in (1, 2, 3):
        pc = progs.cols_tok([dict(table=b"", name=b"?", type=253, flags=0)] * npar)
        for pat in itertools.product("NLI", repeat=npar):
            for flagbyte in (True, False):
                for bound_first in (False, True):
                    if bound_first and (not flagbyte or ctx.quick() and npar == 3):
                        continue
                    n += 1
                    cmds = [("prepare", cmd_prepare(b"p"))]
                    scripts = ["p reply 1 %s 0" % pc]
                    if bound_first:
                        cmds.append(("execute", cmd_execute(1, exec_block([False] * npar, [(253, False)] * npar, [lenenc_str(b"v")] * npar))))
                        scripts.append("x all - done 0 0")
                    for i, k in enumerate(pat):
                        if k == "L":
                            cmds.append(("longdata", cmd_long_data(1, i, b"long")))
                    blk = exec_block([k == "N" for k in pat], None, [lenenc_str(b"in") for k in pat if k == "I"])
                    if not flagbyte:
                        blk = blk[:(npar + 7) // 8]
                    cmds += [("execute", cmd_execute(1, blk)), ("ping", cmd_ping())]
                    scripts.append("x all - done 0 0")
                    cases.append(mk_case("c20u_%d" % n, cmds, scripts))
    # text queries around the built-in prefixes: every combination of keyword spelling, spacing, quoting
    # debris and terminators (a lone backtick, only a semicolon, nothing at all, ...)
    names = [b"", b"`", b"``", b"```", b"`a", b"a`", b"`a`", b"a", b";", b"`;", b" ", b"\t", b"`;`", b"\xff", b"a b"]
    for kw in (b"USE ", b"use ", b"USE", b"Use ", b"SELECT @@", b"select @@", b"SELECT @", b"select"):
        for nm in names:
            for suf in (b"", b";", b" ;", b"; ", b"\n"):
                if ctx.quick() and (len(cases) % 3):
                    pass
                n += 1
                cases.append(mk_case("c20q_%d" % n, [("query", cmd_query(kw + nm + suf)), ("ping", cmd_ping())], ["i ok", "q done 0 0"]))
    # a statement with bound types, then an execution whose new-params-bound byte is neither 0 nor 1, followed by
    # bytes that would be acceptable as values of the old types (or as a type table, or neither)
    for flag in (2, 3, 0x7f, 0x80, 0xfe, 0xff):
        for tail in (bytes.fromhex("f0000100"), le(7, 4), bytes.fromhex("0300") + le(7, 4), bytes.fromhex("fd00") + b"abc", b"", b"\x03", bytes(8)):
            n += 1
            first = exec_block([False], [(3, False)], [le(42, 4)])
            second = b"\x00" + bytes([flag]) + tail
            cases.append(mk_case("c20b_%d" % n, [("prepare", cmd_prepare(b"p")), ("execute", cmd_execute(1, first)),
                                                ("execute", cmd_execute(1, second)), ("ping", cmd_ping())],
                                 ["p reply 1 %s 0" % progs.cols_tok([dict(table=b"", name=b"?", type=253, flags=0)]),
                                  "x all - done 0 0", "x all - done 0 0"]))
    # statements declared with the largest parameter counts the wire format allows
    for npar in (65535,):
        n += 1
        blk = exec_block([True] * npar, [(6, False)] * npar, [])
        cases.append(mk_case("c20w_%d" % n, [("prepare", cmd_prepare(b"p")), ("execute", cmd_execute(1, blk)), ("ping", cmd_ping())],
                             ["p reply 1 %s 0" % progs.cols_tok([dict(table=b"", name=b"", type=6, flags=0)] * npar), "x 2 - done 0 0"]))
    # fragment ids out of order (small limit)
    for ids in ([0, 1, 2], [0, 2, 3], [5, 5, 6], [255, 0, 1], [255, 1, 2], [0, 1, 1]):
        n += 1
        lim = 4
        payload = b"\x03" + b"a" * 8          # 9 bytes -> fragments of 4,4,1
        raw = b""
        parts = [payload[0:4], payload[4:8], payload[8:]]
        for sid, part in zip(ids, parts):
            raw += le(len(part), 3) + bytes([sid]) + part
        c = mk_case("c20f_%d" % n, [("rawbytes", raw)], [], lim=lim)
        cases.append(c)
    # fragmented commands (valid and with a bad continuation) under small-chunk delivery
    for lim in (4, 8, 255):
        for ln in (lim, lim + 1, 2 * lim, 2 * lim + 3, 3 * lim):
            for chunk in (1, 3, lim + 5):
                n += 1
                payload = b"\x03" + b"q" * (ln - 1)
                cases.append(mk_case("c20g_%d" % n, [("query", payload, rng.choice([0, 254])), ("ping", cmd_ping(), 0)], [], lim=lim, chunks=[chunk]))
    # malformed handshakes
    hs = hs41(b"jon")
    for k in range(len(hs) + 1):
        n += 1
        cases.append(mk_case("c20h_%d" % n, [("ping", cmd_ping())], [], hs=hs[:k]))
    for _ in range(40 if ctx.quick() else 500):
        n += 1
        cases.append(mk_case("c20h_%d" % n, [("ping", cmd_ping())], [], hs=bytes(rng.getrandbits(8) for _ in range(rng.randint(0, 60)))))
    # random streams
    for _ in range(100 if ctx.quick() else 3000):
        n += 1
        raw = bytes(rng.choice([0, 1, 2, 3, 0x0e, 0x16, 0x17, 0x18, 0x19, 0xff, rng.getrandbits(8)]) for _ in range(rng.randint(1, 40)))
        cases.append(raw_case("c20r_%d" % n, raw, lim=rng.choice([U24_MAX, 3, 8])))
    return cases


def oracle(case, obs):
    r = result_of(obs)
    fails = []
    if r.startswith("panic") or r == "hang":
        key = None
        for pat, k in KNOWN_PANIC_KEYS.items():
            if r.startswith(pat):
                key = k
        fails.append((key, "client bytes made run_on %s" % r))
    else:
        # whatever was written must be well-framed, conformant replies
        out = b"".join(bytes.fromhex(l[2:]) for l in obs if l.startswith("w|"))
        try:
            msgs = pyclient.server_messages(out, case.lim)
            for first, seqs, m in msgs[1:]:
                if not m or m[0] not in (0x00, 0xff, 0xfe) and len(m) < 1:
                    raise Bad("empty message")
        except Bad as e:
            fails.append((None, "output not well-framed: %s" % e))
    return fails


def run(ctx):
    cases = gen(ctx)
    ctx.diff_conn(cases, oracle=oracle, nontrivial=lambda c, o: True,
                  classify=lambda c, o: [c.id.split("_")[0], "result_" + result_of(o).split(" ")[0]])
