"""C05: response sequence ids continue the request's and wrap modulo 256."""
from .common import *
from . import progs

RULE = ("every request sequence id 0..255 (exhaustive) for single- and multi-packet requests (small packet limits), "
        "followed by responses of 1..600 packets (rows), chains and prepare replies; oracle: the client-side decoder checks "
        "that the greeting carries id 0, the auth reply and every response start at (last request id + 1) mod 256 and "
        "continue consecutively modulo 256; non-trivial = request id != 0 or response longer than one packet; distinct = distinct case text")
ASSUMPTIONS = []


def oracle(case, obs):
    try:
        d = decode_server(case, obs)
    except Bad as e:
        return [(None, "sequence ids / framing: %s" % e)]
    if "missing_from" in d or result_of(obs) != "ok":
        return [(None, "reply missing or run_on returned %s" % result_of(obs))]
    return []


def run(ctx):
    rng = ctx.rng
    cases = []
    c1 = col(b"a", 3, 0)
    for sid in range(256):
        nrows = rng.choice([0, 1, 3, 254, 255, 256, 300, 600]) if (sid % 16 == 0 or not ctx.quick()) else rng.choice([0, 1, 3])
        prog = " ".join(["start 1 " + c1] + ["wr 1 i32:%d p" % i for i in range(nrows)] + ["fin"])
        lim = rng.choice([U24_MAX, U24_MAX, 4, 9])
        q = b"q" * rng.choice([1, 3, 8, 17])
        cases.append(mk_case("c05_%d" % sid, [("query", cmd_query(q), sid), ("ping", cmd_ping(), (sid + 100) % 256),
                                             ("prepare", cmd_prepare(b"p"), 255 - sid)],
                             ["q " + prog, "p reply 1 2 %s %s 1 %s" % (c1, c1, c1)], lim=lim, hs_seq=rng.choice([1, 1, 255, 254])))
    ctx.corr["exhaustive"] = True
    ctx.diff_conn(cases, oracle=oracle, nontrivial=lambda c, o: True,
                  classify=lambda c, o: ["lim_%s" % (c.lim if c.lim < 1000 else "real"), "pkts_%d" % min(600, sum(1 for l in o if l.startswith("w|")) // 100 * 100)])
