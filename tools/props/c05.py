"""C05: response sequence ids continue the request's and wrap modulo 256."""
from .common import *
from . import progs

RULE = ("every request sequence id 0..255 (exhaustive) for single- and multi-packet requests (small packet limits), "
        "followed by responses of 1..600 packets (rows), chains and prepare replies; every ordered pair of command kinds "
        "(field list, ping, init, USE, SELECT @@ probes, query, error, prepare, close) with random request ids; oracle: the client-side decoder checks "
        "that the greeting carries id 0, the auth reply and every response start at (last request id + 1) mod 256 and "
        "continue consecutively modulo 256; non-trivial = request id != 0 or response longer than one packet; distinct = distinct case text")
ASSUMPTIONS = []


def oracle(case, obs):
    try:
        d = decode_server(case, obs)
    except Bad as e:
        return [(None, "sequence ids / framing: %s" % e)]
    if "missing_from" in d or result_of(obs) != "ok":
        return [(None, "reply missing or run_on returned %s" % result_of(obs))]
    return []


def run(ctx):
    rng = ctx.rng
    cases = []
    c1 = col(b"a", 3, 0)
    for sid in range(256):
        nrows = rng.choice([0, 1, 3, 254, 255, 256, 300, 600]) if (sid % 16 == 0 or not ctx.quick()) else rng.choice([0, 1, 3])
        prog = " ".join(["start 1 " + c1] + ["wr 1 i32:%d p" % i for i in range(nrows)] + ["fin"])
        lim = rng.choice([U24_MAX, U24_MAX, 4, 9])
        q = b"q" * rng.choice([1, 3, 8, 17])
        cases.append(mk_case("c05_%d" % sid, [("query", cmd_query(q), sid), ("ping", cmd_ping(), (sid + 100) % 256),
                                             ("prepare", cmd_prepare(b"p"), 255 - sid)],
                             ["q " + prog, "p reply 1 2 %s %s 1 %s" % (c1, c1, c1)], lim=lim, hs_seq=rng.choice([1, 1, 255, 254])))
    # a packet of more than 64 KiB / 1 MiB in the middle of a reply: the packets after it continue the count
    for big in (70000, (1 << 20) + 1):
        prog = "start 1 %s wr 1 s:61 p wr 1 b:r%dx61 p wr 1 s:62 p wr 1 s:63 p fin" % (col(b"a", 252, 0), big)
        cases.append(mk_case("c05big_%d" % big, [("query", cmd_query(b"q"), 9), ("ping", cmd_ping(), 0)], ["q " + prog]))
    # every kind of command (the library answers some itself), each preceded by exchanges that leave the
    # counter at a different value, with arbitrary request ids: each reply must restart from its own request
    c2 = col(b"b", 253, 0)
    kinds = [("fieldlist", lambda: cmd_field_list(b"t\x00"), None), ("ping", cmd_ping, None),
             ("init", lambda: cmd_init(b"db"), "i ok"), ("query", lambda: cmd_query(b"SELECT @@max_allowed_packet"), None),
             ("query", lambda: cmd_query(b"select @@version_comment"), None), ("query", lambda: cmd_query(b"USE `x`"), "i ok"),
             ("query", lambda: cmd_query(b"q"), "q start 2 %s %s wr 2 i32:1 s:61 p fin" % (c1, c2)),
             ("query", lambda: cmd_query(b"e"), "q err 1064 6f6f7073"),
             ("prepare", lambda: cmd_prepare(b"p"), "p reply 7 1 %s 1 %s" % (c1, c1)),
             ("prepare", lambda: cmd_prepare(b"bad"), "p err 1146 6e6f"),
             ("close", lambda: cmd_close(7), None)]
    n = 0
    for rep in range(2 if ctx.quick() else 20):
        for i, (kind, mk, script) in enumerate(kinds):
            for j, (kind0, mk0, script0) in enumerate(kinds):
                if ctx.quick() and (i + j + rep) % 3:
                    continue
                n += 1
                s0, s1 = rng.randrange(256), rng.randrange(256)
                scripts = [x for x in (script0, script) if x]
                cases.append(mk_case("c05k_%d" % n, [(kind0, mk0(), s0), (kind, mk(), s1), ("ping", cmd_ping(), rng.randrange(256))], scripts,
                                     lim=rng.choice([U24_MAX, U24_MAX, 5]), hs_seq=rng.choice([1, 200])))
    ctx.corr["exhaustive"] = True
    ctx.diff_conn(cases, oracle=oracle, nontrivial=lambda c, o: True,
                  classify=lambda c, o: ["lim_%s" % (c.lim if c.lim < 1000 else "real"), "pkts_%d" % min(600, sum(1 for l in o if l.startswith("w|")) // 100 * 100)])
