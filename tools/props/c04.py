"""C04: outbound bytes are well-framed, including messages of 16 MiB and more."""
from .common import *
from . import progs

RULE = ("text and binary rows whose cells produce logical messages of k*M+d bytes (k <= 3, d in -6..2) at packet limits "
        "M in {1,2,3,5,8,255} (hook), assembled from 1..5 writes of varying sizes (cells), plus prepare replies, errors and "
        "OK packets at those limits; at the real limit 2^24-1: rows with one cell making messages of M-6..M+2, 2M-1..2M+1 "
        "bytes (implementation vs specification only); oracle: client-side reassembly of the server's bytes yields exactly "
        "the messages (every header length = payload length, non-final fragments maximal, exact multiples closed by an "
        "empty packet) and the cell contents arrive intact; non-trivial = a message >= M; distinct = distinct case text")
ASSUMPTIONS = ["real-limit cases are checked against the specification oracle only (theorems are parametric in M)"]


def row_case(cid, lim, cell_lens, binary=False, implicit=False):
    cs = [dict(table=b"", name=b"c%d" % i, type=253, flags=0) for i in range(len(cell_lens))]
    cells = [bytes([97 + i % 26]) * n for i, n in enumerate(cell_lens)]
    # implicit: the row is not ended by end_row but by the finish that follows (same bytes expected)
    prog = "start %s %s %sfin" % (progs.cols_tok(cs), " ".join("wc b:%s p" % hexspec(c) for c in cells), "" if implicit else "er p ")
    if binary:
        cmds = [("prepare", cmd_prepare(b"p")), ("execute", cmd_execute(1)), ("ping", cmd_ping())]
        scripts = ["p reply 1 0 0", "x all - " + prog]
    else:
        cmds = [("query", cmd_query(b"q")), ("ping", cmd_ping())]
        scripts = ["q " + prog]
    c = mk_case(cid, cmds, scripts, lim=lim)
    c.meta["expect"] = [("rows", cs, [[("bytes", x) for x in cells] if binary else cells])]
    c.meta["binary"] = binary
    c.meta["msglen"] = sum(len(lenenc_str(x)) for x in cells) + (1 + (len(cells) + 9) // 8 if binary else 0)
    return c


def oracle(case, obs):
    try:
        d = decode_server(case, obs)
    except Bad as e:
        return [(None, "server bytes are not a well-framed conformant reply: %s" % e)]
    kind = "execute" if case.meta["binary"] else "query"
    got = [dec for k, dec in d["replies"] if k == kind]
    if not got:
        return [(None, "no reply (%s)" % result_of(obs))]
    fails = [(None, m) for m in progs.units_match(case.meta["expect"], got[0], case.meta["binary"])]
    if d.get("extra") or "missing_from" in d:
        fails.append((None, "reply count differs"))
    return fails


def run(ctx):
    rng = ctx.rng
    cases = []
    n = 0
    for lim in (1, 2, 3, 5, 8, 255):
        for k in range(0, 4):
            for d in range(-6, 3):
                target = k * lim + d
                if target < 2:
                    continue
                for binary in ((False, True) if not ctx.quick() else (rng.random() < 0.5,)):
                    # split the payload into 1..5 cells; each cell costs 1 byte of length prefix (< 251) or 3
                    ncell = rng.randint(1, 5)
                    budget = target - (1 + (ncell + 9) // 8 if binary else 0)
                    lens = []
                    for j in range(ncell):
                        left = ncell - j
                        if budget <= 0:
                            break
                        sz = budget if left == 1 else rng.randint(1, max(1, budget - (left - 1)))
                        body = sz - 1 if sz - 1 < 251 else max(0, sz - 3)
                        lens.append(max(0, body)); budget -= sz
                    if not lens:
                        continue
                    n += 1
                    cases.append(row_case("c04_%d" % n, lim, lens, binary, implicit=rng.random() < 0.35))
                    if rng.random() < 0.3:
                        cases[-1].wcap = rng.choice([1, 2, 7])     # a transport that accepts only part of each write
    ctx.diff_conn(cases, oracle=oracle, nontrivial=lambda c, o: c.meta["msglen"] >= c.lim,
                  classify=lambda c, o: ["lim_%d" % c.lim, "k_%d" % (c.meta["msglen"] // c.lim)])
    real = []
    M = U24_MAX
    sizes = [M - 6, M - 4, M - 1, M, M + 1] if ctx.quick() else [M - 6, M - 5, M - 4, M - 3, M - 2, M - 1, M, M + 1, M + 2, 2 * M - 1, 2 * M, 2 * M + 1]
    for i, target in enumerate(sizes):
        cell = target - 9 if target - 9 >= 2**24 else target - 4   # lenenc prefix: 9 bytes (>= 2^24) or 4
        if 65536 <= cell < 2**24:
            pre = 4
        elif cell >= 2**24:
            pre = 9
        cell = target - pre
        real.append(row_case("c04_real_%d" % i, M, [cell], False))
    # medium-sized messages at the real limit (1 KiB .. 100 KiB): far below the packet limit, so exactly one packet
    # each whatever the client announced as its own max_packet_size in the handshake
    mid = [row_case("c04_mid_%d" % j, M, [sz], bool(j % 2), implicit=bool(j % 3 == 0)) for j, sz in
           enumerate([600, 1100, 2000, 4095, 4096, 5000, 9000, 20000, 65535, 65536, 70000, 100000])]
    ctx.diff_conn(mid, tag="C04mid", oracle=oracle, nontrivial=lambda c, o: True, classify=lambda c, o: ["lim_real_mid"])
    ctx.impl_only(real, oracle=oracle, nontrivial=lambda c, o: True, classify=lambda c, o: ["lim_real"], tag="C04real")
