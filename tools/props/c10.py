"""C10: statement ids are executable exactly between PREPARE reply and CLOSE."""
from .common import *
from . import progs
import itertools

RULE = ("interleavings (length <= 60) of PREPARE (shim replies / rejects / does not reply) / EXECUTE / SEND_LONG_DATA / CLOSE "
        "over up to 4 statement ids with id reuse and re-preparation with a different parameter count; exhaustive for all "
        "sequences of length <= 4 (quick) / 5 (thorough) over 2 ids; oracle: an abstract registry (id live from the PREPARE "
        "reply until CLOSE) predicts which commands reach the shim, that the first command on a dead id ends the connection "
        "with InvalidData and no callback, that every CLOSE reaches on_close and sends nothing, and that a re-prepared id has "
        "the new parameter count; non-trivial = at least one command on a dead id or a re-prepare; distinct = distinct case text")
ASSUMPTIONS = []
OPS = ["prep_ok", "prep_err", "exec", "long", "close"]


def build(ctx, cid, seq, lim=U24_MAX):
    """seq: list of (op, id index)"""
    rng = ctx.rng
    ids = [3, 70000, 1, 2**32 - 1]
    live = {}
    pend = {}
    cmds, scripts, exp = [], [], ["auth|" + b"jon".hex()]
    dead_hit = False
    reprep = False
    for op, k in seq:
        sid = ids[k]
        if op == "prep_ok":
            n = rng.randint(0, 3)
            cmds.append(("prepare", cmd_prepare(b"s%d" % k)))
            scripts.append("p reply %d %s 0" % (sid, progs.cols_tok([dict(table=b"", name=b"?", type=3, flags=0)] * n)))
            exp.append("prepare|" + (b"s%d" % k).hex())
            reprep = reprep or sid in live
            live[sid] = n
            pend.pop(sid, None)
        elif op == "prep_err":
            cmds.append(("prepare", cmd_prepare(b"bad")))
            scripts.append("p err 1064 6e6f")
            exp.append("prepare|" + b"bad".hex())
        elif op == "exec":
            n = live.get(sid, 1)
            has_long = sid in pend and n >= 1
            block = exec_block([False] * n, [(3, False)] * n, [le(j + 1, 4) for j in range(n) if not (has_long and j == 0)])
            cmds.append(("execute", cmd_execute(sid, block)))
            if sid not in live:
                dead_hit = True; break
            scripts.append("x all - done 0 0")
            exp.append("execute|%d" % sid)
            exp += [("param|3|bytes:" + pend[sid].hex()) if (has_long and j == 0) else "param|3|int:%d" % (j + 1) for j in range(n)]
            pend.pop(sid, None)
        elif op == "long":
            cmds.append(("longdata", cmd_long_data(sid, 0, b"zz")))
            if sid not in live:
                dead_hit = True; break
            pend[sid] = pend.get(sid, b"") + b"zz"
        elif op == "close":
            cmds.append(("close", cmd_close(sid))); exp.append("close|%d" % sid)
            live.pop(sid, None); pend.pop(sid, None)
    if not dead_hit:
        cmds.append(("ping", cmd_ping()))
    c = mk_case(cid, cmds, scripts, lim=lim)
    c.meta.update(expect_calls=exp, dead=dead_hit, reprep=reprep)
    return c


def oracle(case, obs):
    calls = calls_of(obs)
    fails = []
    if calls != case.meta["expect_calls"]:
        want = case.meta["expect_calls"]
        k = next((i for i, (a, b) in enumerate(zip(calls, want)) if a != b), min(len(calls), len(want)))
        fails.append((None, "callback #%d: shim saw %s, expected %s" % (k, calls[k] if k < len(calls) else "<nothing>",
                                                                      want[k] if k < len(want) else "<nothing>")))
    r = result_of(obs)
    if case.meta["dead"] and r != "err InvalidData":
        fails.append((None, "a command for a statement id that is not live must end the connection with an error; got %s" % r))
    if not case.meta["dead"]:
        if r != "ok":
            fails.append((None, "run_on returned %s" % r))
        else:
            try:
                d = decode_server(case, obs)
                if d.get("extra") or "missing_from" in d:
                    fails.append((None, "replies do not match commands (CLOSE / LONG_DATA must not be answered)"))
            except Bad as e:
                fails.append((None, "not conformant: %s" % e))
    return fails


def run(ctx):
    rng = ctx.rng
    cases = []
    i = 0
    maxlen = 4 if ctx.quick() else 5
    alphabet = [(op, k) for op in OPS for k in (0, 1)]
    for ln in range(1, maxlen + 1):
        for seq in itertools.product(alphabet, repeat=ln):
            i += 1
            cases.append(build(ctx, "c10_%d" % i, list(seq)))
    ctx.corr["exhaustive"] = True
    for _ in range(100 if ctx.quick() else 2000):
        i += 1
        seq = [(rng.choice(OPS + ["prep_ok", "exec"]), rng.randrange(4)) for _ in range(rng.randint(5, 60))]
        cases.append(build(ctx, "c10_%d" % i, seq, lim=rng.choice([U24_MAX, U24_MAX, 13])))
    ctx.diff_conn(cases, oracle=oracle, nontrivial=lambda c, o: c.meta["dead"] or c.meta["reprep"],
                  classify=lambda c, o: ["dead_id_hit" if c.meta["dead"] else "all_live", "reprepare" if c.meta["reprep"] else "no_reprepare"])
