"""C01: inbound packets are reassembled exactly under every transport chunking."""
from .common import *
import itertools

RULE = ("client streams of framed commands (QUERY/PREPARE payloads of letters, PING) at packet limits "
        "M in {1,2,3,5} with EVERY composition of the command bytes into reads (exhaustive up to the stated "
        "stream length), at M in {8,255} with payload lengths k*M+d (k<=3, d in -2..2) under 1-byte, header-splitting, "
        "command-spanning, single-read and random chunkings, and at the real limit 2^24-1 with payloads of "
        "M-1, M, M+1, 2M, 2M+1, 5M+3, 6M, 9M+1 bytes (implementation vs specification only); plus buffer-boundary streams at the real limit: "
        "with e in {0,1,100,2048,3000,4096} bytes pending, one read of exactly max(4096,2e)-e (+-1) bytes that completes the pending "
        "command(s), as one command or many, after which the peer is silent; non-trivial = the stream contains a "
        "multi-packet command or a read boundary inside a header or spanning two commands; distinct = distinct case text")
ASSUMPTIONS = ["apart from the buffer-boundary cases, reads offered to the transport are never larger than 2048 bytes",
               "real-limit cases are checked against the specification oracle only (the model runs at small M; the theorems are parametric in M)"]


def compositions(n):
    """all compositions of n as lists of positive ints"""
    for mask in range(1 << (n - 1)):
        parts = []
        cur = 1
        for i in range(n - 1):
            if mask >> i & 1:
                parts.append(cur); cur = 1
            else:
                cur += 1
        parts.append(cur)
        yield parts


def build(cid, lim, payloads, cmd_chunks, seqs=None, hs_chunk=2048):
    cmds = []
    for i, p in enumerate(payloads):
        kind = {3: "query", 0x16: "prepare", 0x0e: "ping"}[p[0]]
        cmds.append((kind, p, (seqs[i] if seqs else 0)))
    c = mk_case(cid, cmds, [], lim=lim)
    hs = frame(c.meta["hs"], c.meta["hs_seq"], lim)
    rest = c.meta["stream"][len(hs):]
    toks = rechunk(hs, [hs_chunk])
    i = 0
    for n in cmd_chunks:
        if i >= len(rest):
            break
        toks.append("d:" + hexspec(rest[i:i + n])); i += n
    if i < len(rest):
        toks += rechunk(rest[i:], [2048])
    c.reads = toks
    return c


def expected_calls(case):
    out = ["auth|" + b"jon".hex()]
    for kind, p, seq in case.meta["cmds"]:
        if kind == "query":
            out.append("query|" + p[1:].hex())
        elif kind == "prepare":
            out.append("prepare|" + p[1:].hex())
    return out


def oracle(case, obs):
    fails = []
    if calls_of(obs) != expected_calls(case):
        fails.append((None, "callbacks %s, expected %s" % (calls_of(obs)[:6], expected_calls(case)[:6])))
    if result_of(obs) != "ok":
        fails.append((None, "run_on returned %s" % result_of(obs)))
    if not fails:
        try:
            decode_server(case, obs)
        except Bad as e:
            fails.append((None, "replies not conformant: %s" % e))
    return fails


def gen(ctx):
    rng = ctx.rng
    cases = []
    n = 0
    letters = b"ab"
    # exhaustive small scope
    maxlen = 9 if ctx.quick() else 13
    for lim in (1, 2, 3, 5):
        lists = [[b"\x03a"], [b"\x03ab", b"\x0e"], [b"\x0e", b"\x03b"], [b"\x03" + b"ab" * 2], [b"\x16a", b"\x03b"],
                 [b"\x03" + b"a" * lim], [b"\x03" + b"a" * (lim - 1) if lim > 1 else b"\x0e", b"\x03b"]]
        for pl in lists:
            total = sum(len(frame(p, 0, lim)) for p in pl)
            if total > maxlen:
                continue
            for comp in compositions(total):
                n += 1
                cases.append(build("c01_%d" % n, lim, pl, comp))
    ctx.corr["exhaustive"] = True
    # generated, mid-size limits
    for lim in (8, 255):
        for k in range(0, 4):
            for d in range(-2, 3):
                ln = k * lim + d
                if ln < 1:
                    continue
                p = b"\x03" + bytes(rng.choice(b"abcdefgh") for _ in range(ln - 1))
                pl = [p, b"\x0e", b"\x03zz"]
                stream_len = sum(len(frame(x, 0, lim)) for x in pl)
                styles = [[1] * stream_len, [3, 2], [stream_len], [len(frame(p, 0, lim)) + 2, 1],
                          [rng.randint(1, 9) for _ in range(stream_len)]]
                if ctx.quick():
                    styles = styles[:2] + styles[4:]
                for st in styles:
                    n += 1
                    sizes = list(itertools.islice(itertools.cycle(st), stream_len))
                    cases.append(build("c01_%d" % n, lim, pl, sizes, seqs=[rng.choice([0, 254, 255]), 0, 7],
                                       hs_chunk=rng.choice([1, 7, 2048])))
    return cases


def gen_fill(ctx):
    """reads that exactly fill the spare capacity PacketConn::next offers (max(4096, 2*pending) - pending)
    and complete the pending commands, plus the neighbouring sizes; the peer then sends nothing more"""
    rng = ctx.rng
    cases = []
    n = 0
    hs_len = len(frame(hs41(b"jon"), 1, U24_MAX))
    for e in (0, 1, 100, 2048, 3000, 4096):
        cap = max(4096, 2 * e) - e
        for delta in (-1, 0, 1):
            for shape in ("one", "many"):
                for with_hs in ((False, True) if e == 0 else (False,)):
                    total = e + cap + delta - (hs_len if with_hs else 0)
                    if shape == "one":
                        pl = [b"\x03" + bytes(rng.choice(b"abcdefgh") for _ in range(total - 5))]
                    else:
                        pl, left = [], total
                        while left > 0:
                            k = left if left < 30 else rng.randint(5, 24)
                            if left - k in (1, 2, 3, 4):
                                k = left
                            pl.append(b"\x03" + bytes(rng.choice(b"abcdefgh") for _ in range(k - 5)) if k > 5 else b"\x0e" * (k - 4))
                            left -= k
                        pl = [x for x in pl if x]
                    n += 1
                    c = mk_case("c01_fill_%d" % n, [({3: "query", 0x0e: "ping"}[x[0]], x, 0) for x in pl], [])
                    st = c.meta["stream"]
                    assert len(st) == hs_len + total, (len(st), hs_len, total)
                    if with_hs:
                        c.reads = ["d:" + hexspec(st)]
                    else:
                        c.reads = ["d:" + hexspec(st[:hs_len])]
                        if e:
                            c.reads.append("d:" + hexspec(st[hs_len:hs_len + e]))
                        c.reads.append("d:" + hexspec(st[hs_len + e:]))
                    cases.append(c)
    return cases


def gen_real(ctx):
    cases = []
    M = U24_MAX
    # 5 and more maximal fragments: beyond any "reasonable" bound on the number of fragments of one command
    sizes = [M - 1, M, M + 1, 5 * M + 3] if ctx.quick() else [M - 1, M, M + 1, 2 * M, 2 * M + 1, 5 * M + 3, 6 * M, 9 * M + 1]
    for i, ln in enumerate(sizes):
        p = b"\x03" + b"a" * (ln - 1)
        c = mk_case("c01_real_%d" % i, [("query", p, 0), ("query", b"\x03tail", 0)], [], lim=M, chunks=[2048, 3, 1 << 20, 1 << 24], cap=1 << 26)   # the transport splits to what the buffer offers
        cases.append(c)
    return cases


def classify(case, obs):
    lim = case.lim
    ks = ["lim_%d" % lim if lim < 1000 else "lim_real"]
    if any(len(p) >= lim for _, p, _ in case.meta["cmds"]):
        ks.append("multi_packet_command")
    ks.append("reads_%d" % min(len(case.reads) // 4 * 4, 40))
    return ks


def nontrivial(case, obs):
    return any(len(p) >= case.lim for _, p, _ in case.meta["cmds"]) or len(case.reads) > 2


def run(ctx):
    cases = gen(ctx) + gen_fill(ctx)
    ctx.diff_conn(cases, nontrivial=nontrivial, oracle=oracle, classify=classify)
    ctx.impl_only(gen_real(ctx), oracle=oracle, nontrivial=nontrivial, classify=classify, tag="C01real")
