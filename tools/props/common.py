"""Shared case construction and the generic conversation oracle (spec-side decoding of what the
real server wrote)."""
import os, sys
sys.path.insert(0, os.path.dirname(os.path.dirname(os.path.abspath(__file__))))
from mysqlproto import *
import pyclient
from pyclient import Bad

REPLY_KINDS = ("query", "prepare", "execute", "init", "fieldlist", "ping")


def mk_case(cid, cmds, scripts=(), lim=U24_MAX, chunks=None, user=b"jon", auth="ok", tls=0, dinit=0,
            hs=None, hs_seq=1, eof=True, quit=False, cap=2048, wcap=0):
    """cmds: list of (kind, payload[, seq]).  The whole client stream is framed with `lim`."""
    c = Case(cid, lim=lim, tls=tls, auth=auth, dinit=dinit)
    c.wcap = wcap
    if hs is not None:
        hs_payload = hs
    else:
        # every conversation announces a different client capability mask (deterministic in the case id): the
        # server's replies and dispatch must not depend on bits it never advertised (CLIENT_DEPRECATE_EOF 2^24,
        # SESSION_TRACK, MULTI_STATEMENTS, ...); CLIENT_SSL stays clear, CLIENT_PROTOCOL_41 set
        import zlib
        h = zlib.crc32(cid.encode())
        caps = DEFAULT_CAPS if h % 3 == 0 else ((DEFAULT_CAPS ^ (h * 2654435761 & 0xffffffff)) | 0x200) & ~0x800 & 0xffffffff
        if h % 5 == 1:
            caps |= 1 << 24
        # ... and a different max_packet_size / collation (the server has no business acting on either)
        maxps = [0x01000000, 0, 1024, 4096, 65535, 0xffffffff, 0x00ffffff, 512][(h >> 8) % 8]
        hs_payload = hs41(user, caps=caps, maxps=maxps, coll=[0x21, 0x2d, 0xff, 8][(h >> 12) % 4])
    stream = frame(hs_payload, hs_seq, lim)
    meta = []
    for item in cmds:
        kind, payload = item[0], item[1]
        seq = item[2] if len(item) > 2 else 0
        if kind == "rawbytes":
            stream += payload
        else:
            stream += frame(payload, seq, lim)
        meta.append((kind, payload, seq))
    if quit:
        stream += frame(cmd_quit(), 0, lim)
        meta.append(("quit", cmd_quit(), 0))
    c.reads = rechunk(stream, chunks or [2048], cap)
    c.scripts = list(scripts)
    c.meta = dict(cmds=meta, hs=hs_payload, hs_seq=hs_seq, stream=stream)
    return c


def last_seq(seq, payload, lim):
    return (seq + len(payload) // lim) % 256


def result_of(obs):
    for l in reversed(obs):
        if l.startswith("result|"):
            return l[7:]
    return "?"


def calls_of(obs):
    return [l[5:] for l in obs if l.startswith("call|")]


def decode_server(case, obs, upto_error=True):
    """Apply the client-side spec to everything the server wrote.  Returns
    dict(greeting, auth, replies=[(kind, decoded)]) ; raises Bad when the output is not a
    conformant sequence of replies with the right sequence ids."""
    out = b"".join(bytes.fromhex(l[2:]) for l in obs if l.startswith("w|"))
    lim = case.lim
    msgs = pyclient.server_messages(out, lim)
    res = dict(replies=[])
    if not msgs:
        raise Bad("no greeting")
    k = 0
    if msgs[0][0] != 0:
        raise Bad("greeting sequence id %d" % msgs[0][0])
    res["greeting"] = pyclient.p_greeting(msgs[0][2])
    k = 1
    payloads = [m[2] for m in msgs]

    def check_seq(start_k, end_k, first):
        exp = first
        for j in range(start_k, end_k):
            for s in msgs[j][1]:
                if s != exp % 256:
                    raise Bad("sequence id %d where %d expected (message %d)" % (s, exp % 256, j))
                exp += 1
    if k < len(msgs):
        m = payloads[k]
        first = last_seq(case.meta["hs_seq"], case.meta["hs"], lim) + 1
        if m and m[0] == 0:
            res["auth"] = ("ok", pyclient.p_ok(m))
        else:
            res["auth"] = ("err", pyclient.p_err(m))
        check_seq(k, k + 1, first)
        k += 1
    for kind, payload, seq in case.meta["cmds"]:
        if kind not in REPLY_KINDS:
            continue
        if k >= len(msgs):
            res["missing_from"] = len(res["replies"])
            break
        k0 = k
        if kind in ("query", "execute"):
            dec, k = pyclient.p_response(payloads, k, kind == "execute")
        elif kind == "prepare":
            if payloads[k] and payloads[k][0] == 0xff:
                dec = ("err", pyclient.p_err(payloads[k])); k += 1
            else:
                d, k = pyclient.p_prepare_ok(payloads, k)
                dec = ("prepok", d)
        elif kind in ("init", "ping"):
            m = payloads[k]
            dec = ("ok", pyclient.p_ok(m)) if m and m[0] == 0 else ("err", pyclient.p_err(m))
            k += 1
        elif kind == "fieldlist":
            defs = []
            while True:
                if k >= len(msgs):
                    raise Bad("field list not terminated")
                m = payloads[k]
                if m and m[0] == 0xfe and len(m) < 9:
                    pyclient.p_eof(m); k += 1
                    break
                defs.append(pyclient.p_coldef(m)); k += 1
            dec = ("fields", defs)
        check_seq(k0, k, last_seq(seq, payload, lim) + 1)
        res["replies"].append((kind, dec))
    res["extra"] = len(msgs) - k
    return res
