"""C02: each client command reaches exactly the right shim callback, verbatim."""
from .common import *
from . import progs

RULE = ("command sequences (length <= 40) over QUERY / PREPARE / EXECUTE / SEND_LONG_DATA / CLOSE / INIT_DB / FIELD_LIST / "
        "PING / QUIT with text from a grammar of built-in prefixes and near-prefixes (`SELECT @@x`, `select @@`, `SELECT @x`, "
        "`Select @@x`, `USE x`, `use\\tx`, `USEx`, `USER()`), valid UTF-8 of 1-4 byte sequences and each class of invalid "
        "UTF-8, `USE` spellings (bare / back-tick quoted, trailing semicolons, white space incl. Unicode spaces) and spellings "
        "just outside that grammar; oracle: callback log = expected callbacks with verbatim arguments, invalid UTF-8 never "
        "reaches the shim; non-trivial = contains a near-prefix, USE spelling or non-ASCII text; distinct = distinct case text")
ASSUMPTIONS = ["`USE` spellings with white space between name and ';' or doubled back-ticks inside the name are outside the property's grammar (passed through as the code normalises them)"]

WS = [" ", "\t", "\n", "\x0b", "\x0c", "\r", "\x85", "\xa0", " ", " ", " ", " ", " ", " ", " ", " ", "　"]
INVALID = [b"\x80", b"\xc0\xaf", b"\xc2", b"\xe0\x80\x80", b"\xed\xa0\x80", b"\xf4\x90\x80\x80", b"\xf5\x80\x80\x80", b"\xff", b"a\xe2\x82", b"\xf0\x9f\x98"]


def rust_trim(s: str) -> str:
    ws = set(WS)
    i, j = 0, len(s)
    while i < j and s[i] in ws:
        i += 1
    while j > i and s[j - 1] in ws:
        j -= 1
    return s[i:j]


def use_schema(arg: bytes) -> bytes:
    s = rust_trim(arg.decode("utf-8"))
    s = s.rstrip(";")
    s = s.strip("`")
    return s.encode("utf-8")


def valid_utf8(b):
    try:
        b.decode("utf-8"); return True
    except UnicodeDecodeError:
        return False


def expected_for_query(q: bytes):
    """('none',) | ('init', schema) | ('query', q) | ('error',)"""
    if q.startswith(b"SELECT @@") or q.startswith(b"select @@"):
        return ("none",)
    if q.startswith(b"USE ") or q.startswith(b"use "):
        return ("init", use_schema(q[4:])) if valid_utf8(q[4:]) else ("error",)
    return ("query", q) if valid_utf8(q) else ("error",)


def rand_text(rng):
    r = rng.random()
    if r < 0.12:
        # what connectors and dump tools put in front of a statement: the text is the shim's, verbatim
        pre = rng.choice([b"/* mysql-connector-java */", b"/*!40101 SET NAMES utf8 */", b"/* x */ ", b"/**/", b"/* unterminated ", b"-- c\n", b"# c\n",
                          b"\n", b"\t ", b"(", b"/*+ hint */ "])
        return pre + rng.choice([b"SELECT 1", b"SELECT @@version_comment", b"USE prod", b"use `x`;", b"", b"select @@x", b"SET NAMES utf8"])
    if r < 0.25:
        return rng.choice([b"SELECT @@max_allowed_packet", b"SELECT @@version_comment limit 1", b"select @@x", b"SELECT @x",
                           b"Select @@x", b"SELECT  @@x", b"SELECT@@x", b" SELECT @@x", b"select @", b"SELECT @@", b"USER()",
                           b"USEdb", b"use\tdb", b"Use db", b"USE", b"use ", b"USE  ", b"USE ;", b"USE ``"])
    if r < 0.5:
        name = rng.choice(["db", "my_db", "日本", "a b", "x`y", "semi;colon", "é", ""])
        q = rng.choice(["", "`", "``"])
        s = ("".join(rng.choice(WS) for _ in range(rng.randint(0, 2))) + q + name + q + ";" * rng.randint(0, 2) +
             "".join(rng.choice(WS) for _ in range(rng.randint(0, 2))))
        if rng.random() < 0.15:
            s = name + " ;"        # just outside the grammar
        return rng.choice([b"USE ", b"use "]) + s.encode("utf-8")
    if r < 0.65:
        return rng.choice([b"q", b"SELECT 1", b"USE x", b""]) + rng.choice(INVALID) + rng.choice([b"", b"z"])
    return progs.rand_utf8(rng, 20)


def conv(ctx, cid):
    rng = ctx.rng
    cmds, exp = [], ["auth|" + b"jon".hex()]
    prepared = set()
    ended = False
    for _ in range(rng.randint(1, 40)):
        k = rng.random()
        if k < 0.45:
            q = rand_text(rng)
            cmds.append(("query", cmd_query(q)))
            e = expected_for_query(q)
            if e[0] == "init":
                exp.append("init|" + e[1].hex())
            elif e[0] == "query":
                exp.append("query|" + e[1].hex())
            elif e[0] == "error":
                ended = True; break
        elif k < 0.55:
            q = rand_text(rng)
            cmds.append(("prepare", cmd_prepare(q)))
            if not valid_utf8(q):
                ended = True; break
            exp.append("prepare|" + q.hex()); prepared.add(1)
        elif k < 0.65 and prepared:
            cmds.append(("execute", cmd_execute(1))); exp.append("execute|1")
        elif k < 0.7 and prepared:
            cmds.append(("longdata", cmd_long_data(1, 0, progs.rand_bytes(rng))))
        elif k < 0.78:
            sid = rng.choice([1, 2, 2**32 - 1])
            cmds.append(("close", cmd_close(sid))); exp.append("close|%d" % sid)
            if sid == 1:
                prepared.discard(1)
        elif k < 0.86:
            s = rand_text(rng)
            cmds.append(("init", cmd_init(s)))
            if not valid_utf8(s):
                ended = True; break
            exp.append("init|" + s.hex())
        elif k < 0.92:
            cmds.append(("fieldlist", cmd_field_list(progs.rand_bytes(rng))))
        elif k < 0.98:
            cmds.append(("ping", cmd_ping()))
        else:
            cmds.append(("quit", cmd_quit())); ended = True
            cmds.append(("query", cmd_query(b"after quit")))
            break
    c = mk_case(cid, cmds, [], lim=rng.choice([U24_MAX, U24_MAX, 7]), chunks=[rng.choice([1, 5, 2048])])
    c.meta["expect_calls"] = exp
    c.meta["ends_in_error"] = ended and cmds[-1][0] not in ("quit",) and not any(k == "quit" for k, _, _ in c.meta["cmds"])
    return c


def oracle(case, obs):
    calls = calls_of(obs)
    fails = []
    if calls != case.meta["expect_calls"]:
        want = case.meta["expect_calls"]
        k = next((i for i, (a, b) in enumerate(zip(calls, want)) if a != b), min(len(calls), len(want)))
        fails.append((None, "callback #%d: shim saw %s, expected %s" % (k, calls[k] if k < len(calls) else "<nothing>",
                                                                      want[k] if k < len(want) else "<nothing>")))
    r = result_of(obs)
    if case.meta["ends_in_error"] and r != "err InvalidData":
        fails.append((None, "text that is not valid UTF-8 must end the connection with InvalidData, got %s" % r))
    if not case.meta["ends_in_error"] and r != "ok":
        fails.append((None, "run_on returned %s" % r))
    return fails


def run(ctx):
    cases = [conv(ctx, "c02_%d" % i) for i in range(150 if ctx.quick() else 4000)]
    ctx.diff_conn(cases, oracle=oracle, nontrivial=lambda c, o: len(c.meta["expect_calls"]) > 1,
                  classify=lambda c, o: ["calls_%d" % min(len(c.meta["expect_calls"]) // 5 * 5, 40), "result_" + result_of(o).split(" ")[0]])
