"""C19: connection end and transport faults are reported, never masked."""
from .common import *
from . import progs
import copy

RULE = ("for each of a set of conversations (every reply kind, multi-resultset, prepared statements, long data, writer drops) "
        "the fault-free run is recorded; then EVERY transport write/flush call index k is failed once (one-off) and from k on "
        "(persistent), EVERY read index is failed, and the client stream is cut after EVERY byte count (end-of-stream inside "
        "packets, at packet boundaries, before the handshake completes); oracle: run_on returns an error (never Ok, never a "
        "panic) unless the stream was cut at a command boundary after the handshake or after QUIT, no callback is started after "
        "the fault, a shim error is returned unchanged; non-trivial = every case; distinct = distinct case text; exhaustive per conversation")
ASSUMPTIONS = ["the shim propagates writer errors with `?` (policy p) or finishes its program; callbacks return"]
STARTS = ("call|query", "call|prepare", "call|execute", "call|init", "call|close", "call|auth")


def conversations(ctx):
    rng = ctx.rng
    convs = []
    c1 = col(b"a", 3, 0); c2 = col(b"b", 253, 0)
    base = [
        ([("ping", cmd_ping())], []),
        ([("query", cmd_query(b"q1"))], ["q done 3 4"]),
        ([("query", cmd_query(b"q2"))], ["q start 2 %s %s wr 2 i32:1 s:6162 p wc i32:2 p wc none p er p fin" % (c1, c2)]),
        ([("query", cmd_query(b"q3"))], ["q start 1 %s wr 1 i32:1 p fin1 c1 1 2 start 1 %s wc i32:9 p drop" % (c1, c1)]),
        ([("query", cmd_query(b"q4"))], ["q start 1 %s wr 1 i32:1 p ferr 1064 6f6f7073" % c1]),
        ([("query", cmd_query(b"q5"))], ["q err 1146 6e6f"]),
        ([("query", cmd_query(b"q6"))], ["q c1 1 1 drop"]),
        ([("query", cmd_query(b"q8"))], ["q start 1 %s drop" % c1]),
        ([("query", cmd_query(b"q9"))], ["q start 1 %s wc i32:5 p drop" % c1]),
        ([("query", cmd_query(b"SELECT @@max_allowed_packet"))], []),
        ([("init", cmd_init(b"db"))], ["i ok"]),
        ([("query", cmd_query(b"USE `x`;"))], ["i err 1049 6e6f6462"]),
        ([("fieldlist", cmd_field_list(b"t\x00"))], []),
        ([("prepare", cmd_prepare(b"p")), ("execute", cmd_execute(1, exec_block([False], [(3, False)], [le(5, 4)]))), ("close", cmd_close(1))],
         ["p reply 1 1 %s 1 %s" % (c1, c1), "x all - start 1 %s wr 1 i32:7 p fin" % c1]),
        ([("prepare", cmd_prepare(b"p")), ("longdata", cmd_long_data(1, 0, b"abc")), ("execute", cmd_execute(1, exec_block([False], [(253, False)], [])))],
         ["p reply 1 1 %s 0" % c2, "x all - done 1 1"]),
        ([("prepare", cmd_prepare(b"p"))], ["p err 1064 62"]),
        ([("query", cmd_query(b"q7"))], ["q done 0 0 ret:55"]),
    ]
    # what follows the command under test decides how a swallowed error would show: nothing (the
    # stream ends / QUIT: run_on would return Ok), a callback-bearing command (it would be started
    # after the fault), or a library-answered command first
    tails = [[], [("query", cmd_query(b"after"))], [("ping", cmd_ping()), ("query", cmd_query(b"after"))]]
    for bi, (cmds, scripts) in enumerate(base):
        for lim in ((U24_MAX,) if ctx.quick() else (U24_MAX, 7)):
            for ti, tail in enumerate(tails):
                for quit in (False, True):
                    if ctx.quick() and (bi + ti + quit) % 2:
                        continue
                    convs.append((cmds + tail, scripts, lim, quit))
    # multi-packet commands at a small packet limit (the stream may end exactly between two fragments, or
    # after the last maximal fragment when the empty terminator is still owed)
    for q in (b"x" * 13, b"y" * 15, b"z" * 20):
        convs.append(([("query", cmd_query(q)), ("ping", cmd_ping())], ["q done 1 1"], 7, False))
    convs.append(([("prepare", cmd_prepare(b"p" * 6)), ("query", cmd_query(b"after"))], ["p reply 1 0 0", "q done 0 0"], 7, True))
    return convs


def ops_of(obs):
    """transport write / flush operations of a fault-free run: (kind, bytes written before it, flushes before it)"""
    ops, off, nf = [], 0, 0
    for l in obs:
        if l.startswith("w|"):
            ops.append(("w", off, nf)); off += (len(l) - 2) // 2
        elif l == "flush":
            ops.append(("f", off, nf)); nf += 1
    return ops


def variants(ctx, idx, cmds, scripts, lim, quit, base_obs, model_obs):
    """all single-fault variants of one conversation.  Write / flush faults are addressed by operation index; the
    model's twin run gets the index of ITS operation at the same byte offset (identical on the tree as verified; it
    differs when the code cuts its output into transport writes differently).  An operation of the code with no
    twin in the model is still run, against the specification oracle only."""
    out, unpaired = [], []
    impl_ops, model_ops = ops_of(base_obs), ops_of(model_obs)
    nops = len(impl_ops)
    nreads = sum(1 for l in base_obs if l.startswith("read|"))
    def mk(tag):
        return mk_case("c19_%d_%s" % (idx, tag), cmds, scripts, lim=lim, quit=quit, chunks=[9])
    for k in range(nops):
        for kind in ("once", "from"):
            c = mk("%s%d" % (kind, k)); c.fault = "%s:%d:%d" % (kind, k, 100 + k)
            c.meta["fault"] = ("write", kind, k)
            if impl_ops[k] in model_ops:
                k2 = model_ops.index(impl_ops[k])
                if k2 != k:
                    c.mfault = "%s:%d:%d" % (kind, k2, 100 + k)
                out.append(c)
            else:
                unpaired.append(c)
    # a transport that stops accepting bytes: from output byte k on, write() returns Ok(0) (a full sink, a peer
    # that no longer drains): that is an error of the transport (WriteZero), never a success
    total = sum((len(l) - 2) // 2 for l in base_obs if l.startswith("w|"))
    for k in sorted(set([0, 1, 4, 5, 72, 73, 74, total - 1] + [total * j // 7 for j in range(1, 7)])):
        if 0 <= k < total:
            c = mk("wzero%d" % k); c.wzero = k + 1
            c.meta["fault"] = ("wzero", k)
            unpaired.append(c)
    base = mk("x")
    toks = base.reads
    for k in range(len(toks) + 1):
        # every read position with three error kinds: the one its index selects, UnexpectedEof (code = 4 mod 8)
        # and Interrupted (1 mod 8) -- the kinds a reader is most tempted to treat as "not really an error"
        for code in sorted({200 + k, 800 + 8 * k + 4, 800 + 8 * k + 1}):
            c = mk("rerr%d_%d" % (k, code)); c.reads = toks[:k] + ["err:%d" % code] + toks[k:]
            c.meta["fault"] = ("read", "err", k)
            out.append(c)
    stream = base.meta["stream"]
    # packet boundaries of the client stream
    bounds = set()
    i = 0
    while i < len(stream):
        ln = int.from_bytes(stream[i:i + 3], "little"); i += 4 + ln
        bounds.add(i)
    # logical command boundaries (a multi-packet command ends with its short packet)
    cb = set()
    i = 0
    while i < len(stream):
        ln = int.from_bytes(stream[i:i + 3], "little"); i += 4 + ln
        if ln < lim:
            cb.add(i)
    hs_end = min(cb)
    step = 1 if len(stream) < 400 else 7
    for k in range(0, len(stream) + 1, step):
        c = mk("eof%d" % k)
        c.reads = rechunk(stream[:k], [9]) + ["eof"]
        c.meta["fault"] = ("eof", k, k in cb and k >= hs_end)
        c.meta["quit_before"] = quit and k == len(stream)
        out.append(c)
    return out, unpaired


def oracle(case, obs):
    f = case.meta.get("fault")
    r = result_of(obs)
    fails = []
    if f is None:
        return fails
    if r.startswith("panic") or r == "hang":
        fails.append((None, "transport fault %s made run_on %s" % (f, r)))
        return fails
    faultpos = next((i for i, l in enumerate(obs) if l.startswith(("werr|", "flusherr|", "readerr|")) or l == "wzero"), None)
    if f[0] in ("write", "read", "wzero"):
        if faultpos is None:
            # the fault index was never reached (e.g. shim error ended the run first)
            return fails
        if r == "ok":
            fails.append((None, "transport error at %s was masked: run_on returned Ok" % (f,)))
        if any(l.startswith(STARTS) for l in obs[faultpos + 1:]):
            fails.append((None, "a shim callback was started after the transport error %s" % (f,)))
    else:
        _, k, at_boundary = f
        if at_boundary:
            shim_err = any("ret:" in s for s in case.scripts)
            if r != "ok" and not shim_err:
                fails.append((None, "stream ended at a command boundary (byte %d) but run_on returned %s" % (k, r)))
        else:
            if r == "ok":
                # a QUIT earlier in the stream legitimately ends the run
                fails.append((None, "stream ended inside a packet / before the handshake completed (byte %d) but run_on returned Ok" % k))
    return fails


def run(ctx):
    convs = conversations(ctx)
    base_cases = [mk_case("c19b_%d" % i, cmds, scripts, lim=lim, quit=q, chunks=[9]) for i, (cmds, scripts, lim, q) in enumerate(convs)]
    io, mo = ctx.diff_conn(base_cases, tag="C19base", classify=lambda c, o: ["fault_free"])
    allv, unpaired = [], []
    for i, (cmds, scripts, lim, q) in enumerate(convs):
        v, u = variants(ctx, i, cmds, scripts, lim, q, io["c19b_%d" % i], mo.get("c19b_%d" % i, []))
        allv += v; unpaired += u
    ctx.corr["exhaustive"] = True
    ctx.diff_conn(allv, tag="C19", oracle=oracle,
                  classify=lambda c, o: ["%s_%s" % (c.meta["fault"][0], c.meta["fault"][1] if c.meta["fault"][0] != "eof" else ("boundary" if c.meta["fault"][2] else "inside")),
                                        "result_" + result_of(o).split(" ")[0]])
    if unpaired:
        ctx.corr["hist"]["faults_checked_against_the_oracle_only"] = len(unpaired)
        ctx.impl_only(unpaired, oracle=oracle, tag="C19unpaired")
