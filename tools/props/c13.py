"""C13: errors reach the client with the exact code, SQLSTATE and message."""
from .common import *
from . import progs
import check, build, json, os, re

RULE = ("(1) the complete error table: for every u16 the real ErrorKind::from / `as u16` / sqlstate() are compared with the "
        "tables translated from src/errorcodes.rs (the ones the theorems are about) and with the pinned reference; (2) every "
        "reporting site (InitWriter::error, StatementMetaWriter::error, QueryResultWriter::error, RowWriter::finish_error after "
        "0..k rows, text and binary) with error kinds from the table and messages that are empty, long, non-UTF-8, contain "
        "'#', NUL, 0xFF; oracle: the client-side ERR decoder returns exactly (code, reference SQLSTATE, message); "
        "non-trivial = every case; distinct = distinct case text; the table comparison is exhaustive")
ASSUMPTIONS = ["the pinned reference table coq/Spec/ErrRef.v holds the MySQL/MariaDB names, codes and SQLSTATEs"]


def load_ref():
    ref = {}
    txt = open(os.path.join(build.COQ, "Spec", "ErrRef.v")).read()
    for name, code, st in re.findall(r'\("(\w+)"%string, (\d+), \[([^\]]*)\]\)', txt):
        ref[int(code)] = (name, bytes(int(x[1:], 16) for x in st.split("; ")))
    return ref


def table_check(ctx):
    out = os.path.join(build.BUILD, "errtab.txt")
    rc, o = build.sh([build.harness_bin(prod=True), "errtab", out])
    if rc != 0:
        raise RuntimeError("errtab failed: " + o)
    ref = load_ref()
    impl = {}
    for line in open(out):
        parts = line.strip().split("|")
        if parts[0] == "panics":
            continue
        c, name, asu, st = parts
        impl[int(c)] = (name, int(asu), bytes.fromhex(st))
    # translated tables (when the translator no longer understands the source, the tie is reported by the caller;
    # the search for a concrete failing code goes on below against the pinned reference table)
    import gen_tables
    try:
        variants, from_arms, state_arms = gen_tables.parse_errorcodes(os.path.join(build.REPO, "src/errorcodes.rs"))
    except gen_tables.Unsupported:
        variants = None
    ctx.corr["evaluations"] += 65536
    ctx.corr["hist"]["table_codes_accepted"] = len(impl)
    if variants is not None:
        vcode = dict(variants)
        first_from = {}
        for c, n in from_arms:
            first_from.setdefault(c, n)
        stt = {}
        for names, s in state_arms:
            for n in names:
                stt.setdefault(n, s.encode())
        for c in range(65536):
            t = first_from.get(c)
            i = impl.get(c)
            if (t is None) != (i is None):
                ctx.violation("translator and implementation disagree on ErrorKind::from(%d): %s vs %s" % (c, t, i), "errtab code %d\n" % c, name="tab", found=False)
                break
            if i is not None and (i[0] != t or i[1] != vcode[t] or i[2] != stt[t]):
                ctx.violation("translated table and implementation disagree on code %d: %s vs (%s,%d,%r)" % (c, i, t, vcode[t], stt[t]), "errtab code %d\n" % c, name="tab", found=False)
                break
    for c, (name, st) in ref.items():
        i = impl.get(c)
        if i is None or i[0] != name or i[1] != c or i[2] != st:
            ctx.violation("error kind %s: reference says code %d SQLSTATE %r, the implementation gives %s" % (name, c, st, i),
                          "errtab code %d\n" % c, name="tab")
            if len(ctx.violations) > 5:
                break
    return ref


MSGS = [b"", b"#", b"#HY000oops", b"\x00", b"\xff\xfe", b"a" * 300, "日本語".encode(), b"it's \"quoted\"\n", bytes(range(256)),
        b"m" * 511, b"n" * 512, b"o" * 513, b"p" * 5000, b"q" * 70000]


def run(ctx):
    ref = table_check(ctx)
    rng = ctx.rng
    codes = sorted(ref)
    pick = codes if not ctx.quick() else codes[::9] + [1045, 1064, 1768, 1885]
    cases = []
    c1 = col(b"a", 3, 0)
    for i, code in enumerate(pick):
        msg = MSGS[i % len(MSGS)] if rng.random() < 0.7 else progs.rand_bytes(rng)
        site = i % 6
        h = hexspec(msg)
        if site == 0:
            cmds, scripts = [("query", cmd_query(b"q"))], ["q err %d %s" % (code, h)]
        elif site == 1:
            k = rng.randint(0, 3)
            openrow = ["wc i32:9 p"] if rng.random() < 0.4 else []
            cmds, scripts = [("query", cmd_query(b"q"))], [" ".join(["q start 1 " + c1] + ["wr 1 i32:%d p" % j for j in range(k)] + openrow + ["ferr %d %s" % (code, h)])]
        elif site == 2:
            cmds, scripts = [("prepare", cmd_prepare(b"p"))], ["p err %d %s" % (code, h)]
        elif site == 3:
            cmds, scripts = [("init", cmd_init(b"db"))], ["i err %d %s" % (code, h)]
        elif site == 4:
            # error after some rows, the last row possibly still open (written with write_col, not ended)
            body = rng.choice(["wr 1 i32:1 p", "wc i32:1 p", "wr 1 i32:1 p wc i32:2 p", ""])
            cmds, scripts = [("prepare", cmd_prepare(b"p")), ("execute", cmd_execute(1))], ["p reply 1 0 0", " ".join(x for x in ["x all - start 1 " + c1, body, "ferr %d %s" % (code, h)] if x)]
        else:
            cmds, scripts = [("query", cmd_query(b"USE x"))], ["i err %d %s" % (code, h)]
        # one case in five: the client answered the greeting in the pre-4.1 layout (the ERR packet is the same)
        hs = hs320(b"old", caps=0x0005, tail=b"pw") if i % 5 == 2 else None
        c = mk_case("c13_%d" % i, cmds + [("ping", cmd_ping())], scripts, lim=rng.choice([U24_MAX, U24_MAX, 11]), hs=hs)
        c.meta["err"] = (code, ref[code][1], msg)
        cases.append(c)

    def oracle(case, obs):
        try:
            d = decode_server(case, obs)
        except Bad as e:
            return [(None, "not conformant: %s" % e)]
        code, st, msg = case.meta["err"]
        found = []
        for kind, dec in d["replies"]:
            if kind in ("query", "execute"):
                for u in dec:
                    if u[0] == "err":
                        found.append((u[1], u[2], u[3]))
                    elif u[0] == "rows_err":
                        found.append((u[3], u[4], u[5]))
            elif kind in ("prepare", "init") and dec[0] == "err":
                found.append((dec[1]["code"], dec[1]["state"], dec[1]["msg"]))
        if found != [(code, st, msg)]:
            return [(None, "shim reported (%d, %r, %r); client decoded %s" % (code, st, msg[:30], str(found)[:160]))]
        return []
    ctx.diff_conn(cases, oracle=oracle, nontrivial=lambda c, o: True, classify=lambda c, o: ["site_%s" % c.scripts[-1].split(" ")[0]])
    ctx.corr["exhaustive"] = True
