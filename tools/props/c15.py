"""C15: integer results are exact or refused, never silently altered."""
from .common import *
from . import progs
import check

RULE = ("to_mysql_bin called directly on every (Rust integer type x integer column type x signedness) cell: all 8- and "
        "16-bit values exhaustively, for wider types all +-2^k, +-2^k+-1, the bounds of every width and random values; "
        "also through mysql_common Value::Int/UInt; the boundary values again with every other column flag set (only UNSIGNED decides signedness); the same integers inside binary rows served by run_on (columns of different widths side by side, rows written by write_row / cell by cell / mixed); oracle: accepted => client decodes the same number, range-containing "
        "columns accept, pointer-sized accept iff the value fits; non-trivial = value outside [0,127] or a cell where type "
        "and column differ in width or signedness; distinct = distinct (type, value, column, signedness)")
ASSUMPTIONS = ["usize/isize are 64-bit (asserted by the harness platform)"]
COLS = [1, 2, 13, 9, 3, 8]


def values_for(ty, rng, quick):
    lo, hi = progs.INT_TYPES[ty]
    if ty in ("u8", "i8"):
        return list(range(lo, hi + 1))
    if ty in ("u16", "i16"):
        return list(range(lo, hi + 1)) if not quick else sorted(set(list(range(lo, lo + 300)) + list(range(hi - 300, hi + 1)) + list(range(-300, 300)) + [rng.randint(lo, hi) for _ in range(500)]) & set(range(lo, hi + 1)))
    vs = set()
    for k in range(0, 65):
        for b in (2**k, -(2**k)):
            for d in (-1, 0, 1):
                vs.add(b + d)
    for w in (8, 16, 32, 64):
        vs |= {2**w - 1, 2**(w - 1) - 1, -2**(w - 1), 2**w, 2**(w - 1)}
    for _ in range(200 if quick else 3000):
        vs.add(rng.randint(lo, hi))
    return sorted(v for v in vs if lo <= v <= hi)


def run(ctx):
    rng = ctx.rng
    lines, meta = [], []
    for ty in progs.INT_TYPES:
        vals = values_for(ty, rng, ctx.quick())
        for ct in COLS:
            for uns in (False, True):
                for v in vals:
                    lines.append("b %d %d %s:%d" % (ct, 32 if uns else 0, ty, v))
                    meta.append((ty, v, ct, uns))
    # the signedness of a column is its UNSIGNED flag and nothing else: the same cells with other flag bits set
    # (NOT_NULL 1, ZEROFILL 64, BINARY 128, AUTO_INCREMENT 512, NUM 32768, everything but UNSIGNED)
    for ty in list(progs.INT_TYPES) + ["mint", "muint"]:
        lo, hi = progs.INT_TYPES.get(ty, progs.INT_TYPES["i64" if ty == "mint" else "u64"])
        bounds = sorted(set(v for v in [lo, hi, -1, 0, 1, 127, 128, 255, 256, 32767, 32768, 65535, 65536, 2**31 - 1, 2**31, 2**32 - 1,
                                        2**63 - 1, 2**63, -128, -129, -32768, -2**31, -2**63] if lo <= v <= hi))
        for ct in COLS:
            for uns in (False, True):
                for extra in (64, 1 | 64 | 128, 512 | 32768, 0xffff & ~32):
                    for v in bounds:
                        lines.append("b %d %d %s:%d" % (ct, (32 if uns else 0) | extra, ty, v))
                        meta.append((ty, v, ct, uns))
    # generic values
    gvals = values_for("i64", rng, ctx.quick())
    for ct in COLS:
        for uns in (False, True):
            for v in gvals:
                lines.append("b %d %d mint:%d" % (ct, 32 if uns else 0, v)); meta.append(("mint", v, ct, uns))
            for v in values_for("u64", rng, True):
                lines.append("b %d %d muint:%d" % (ct, 32 if uns else 0, v)); meta.append(("muint", v, ct, uns))
    impl, model = check.run_val(lines, "C15")
    corr = ctx.corr
    corr["evaluations"] = len(lines)
    corr["exhaustive"] = True
    nontriv = 0
    mism = 0
    for i, (a, m) in enumerate(zip(impl, model)):
        ty, v, ct, uns = meta[i]
        w = progs.INT_COLS[ct]
        if not (0 <= v <= 127) or ty in ("mint", "muint") or progs.WIDTH.get(ty, 8) != w:
            nontriv += 1
        k = "%s->%d%s" % (ty, ct, "u" if uns else "s")
        st = a.split(" ")[0]
        corr["hist"][st] = corr["hist"].get(st, 0) + 1
        # specification oracle on the implementation's answer
        bad = None
        lo, hi = progs.col_range(ct, uns)
        if a.startswith("ok "):
            got = int.from_bytes(bytes.fromhex(a[3:]), "little", signed=not uns)
            if len(a[3:]) != 2 * w:
                bad = "wrote %d bytes into a %d-byte column" % (len(a[3:]) // 2, w)
            elif got != v:
                bad = "accepted but the client decodes %d" % got
        elif a.startswith("panic"):
            bad = "panicked (%s) instead of refusing with an error" % a
        else:
            if ty in ("usize", "isize", "mint") and lo <= v <= hi:
                bad = "refused although the column can represent the value"
            elif ty in progs.WIDTH:
                tlo, thi = progs.INT_TYPES[ty]
                if lo <= tlo and thi <= hi:
                    bad = "refused although the column's range contains the whole range of %s" % ty
        if bad:
            corr["oracle_failures"] += 1
            if corr["oracle_failures"] <= 8:
                ctx.violation("C15 oracle: %s:%d into column type %d %s: %s" % (ty, v, ct, "unsigned" if uns else "signed", bad),
                              lines[i] + "\n", name="val")
        if a != m:
            mism += 1
            if mism <= 5 and not bad:
                ctx.violation("model and implementation disagree on `%s`: impl %s, model %s" % (lines[i], a, m),
                              lines[i] + "\n", name="corr", found=False)
    corr["mismatches"] = mism
    corr["distinct_nontrivial"] = nontriv
    corr["samples"] = [{"case": lines[j], "impl": impl[j]} for j in (0, len(lines) // 3, len(lines) // 2, len(lines) - 1)]
    nontriv_val = corr["distinct_nontrivial"]
    rows_through_server(ctx)
    corr["distinct_nontrivial"] = max(corr["distinct_nontrivial"], nontriv_val)


def rows_through_server(ctx):
    """the same integers inside binary rows served by run_on: integer columns of DIFFERENT widths side by side, rows
    written with write_row, cell by cell, or begun cell by cell and completed by write_row; the client decodes each
    cell with the column's own width and signedness"""
    rng = ctx.rng
    cases = []
    for i in range(40 if ctx.quick() else 600):
        n = rng.randint(2, 6)
        cs, rows, parts = [], [], []
        for j in range(n):
            ct = rng.choice(COLS)
            cs.append(dict(table=b"t", name=b"c%d" % j, type=ct, flags=rng.choice([0, 32, 32, 64, 1])))
        parts.append("start " + progs.cols_tok(cs))
        for _r in range(rng.randint(1, 3)):
            toks, exp = [], []
            for c in cs:
                uns = bool(c["flags"] & 32)
                lo, hi = progs.col_range(c["type"], uns)
                # a Rust type whose whole range the column contains, or a pointer-sized / generic value inside the range
                fits = [t for t, (tlo, thi) in progs.INT_TYPES.items() if t not in ("usize", "isize") and lo <= tlo and thi <= hi]
                ty = rng.choice(fits + ["mint"] if lo < 0 else fits + ["usize"]) if fits else ("isize" if lo < 0 else "usize")
                tlo, thi = progs.INT_TYPES.get(ty, (-2**63, 2**63 - 1))
                v = rng.choice([max(lo, tlo), min(hi, thi), rng.randint(max(lo, tlo), min(hi, thi))])
                toks.append("%s:%d" % (ty, v)); exp.append(("int", v))
            rows.append(exp)
            z = rng.random()
            if z < 0.35:
                parts.append("wr %d %s p" % (n, " ".join(toks)))
            elif z < 0.65:
                parts += ["wc %s p" % t for t in toks] + ["er p"]
            else:
                j = rng.randint(1, n - 1)
                parts += ["wc %s p" % t for t in toks[:j]] + ["wr %d %s p" % (n - j, " ".join(toks[j:]))]
        parts.append("fin")
        c = mk_case("c15r_%d" % i, [("prepare", cmd_prepare(b"p")), ("execute", cmd_execute(1))], ["p reply 1 0 0", "x all - " + " ".join(parts)])
        c.meta["expect"] = [("rows", cs, rows)]
        cases.append(c)

    def oracle(case, obs):
        try:
            d = decode_server(case, obs)
        except Bad as e:
            return [(None, "not conformant: %s" % e)]
        got = [dec for k, dec in d["replies"] if k == "execute"]
        if not got:
            return [(None, "no reply to execute (%s)" % result_of(obs))]
        return [(None, m) for m in progs.units_match(case.meta["expect"], got[0], True)]
    ctx.diff_conn(cases, tag="C15rows", oracle=oracle, classify=lambda c, o: ["rows_through_run_on"])


def replay(ctx, path):
    lines = [l.strip() for l in open(path) if l.strip()]
    impl, model = check.run_val(lines, "C15replay")
    for l, a, m in zip(lines, impl, model):
        print("%s\n  impl : %s\n  model: %s" % (l, a, m))
