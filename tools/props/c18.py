"""C18: TLS upgrade loses no bytes and leaks no plaintext."""
from .common import *
from . import progs
import check

RULE = ("a real rustls client inside the scripted transport: the plaintext SSL request is delivered with k bytes of the "
        "ClientHello coalesced behind it for EVERY k in 0..40 and a sample up to the whole hello, with the first delivery cut "
        "into reads of 1, 2, 3 .. bytes and the later ciphertext in reads of 1 / 7 / 64 / everything; with and without client "
        "certificates; TLS configured or not; shim accepting or rejecting; commands (queries, prepared statements) after the "
        "handshake, incl. replies of 10^4..10^5 bytes in thousands of small packets (larger than the engine's send buffer), also over a transport with short writes; oracle: the handshake completes, every server byte after the greeting is a well-formed TLS record, the user "
        "name of the encrypted handshake response and the certificate chain reach after_authentication, the decrypted replies "
        "and the callback log equal the model's plaintext run, a TLS request without configuration is refused before "
        "after_authentication; non-trivial = every case; distinct = distinct case text")
ASSUMPTIONS = ["rustls (handshake, record layer, certificate validation) is an opaque engine: partial by nature",
               "the model compares plaintext: the chunking of the engine's plaintext delivery is irrelevant by C01"]
SSL_CAPS = DEFAULT_CAPS | CLIENT_SSL


def mk(cid, lim=U24_MAX, tls=1, auth="ok", clientcert=0, user=b"jon", split=0, prechunks=None, chunks="*", cmds=(), scripts=(), bighello=0, wcap=0, caps2=None, pre320=None):
    # pre320: the SSL request in the pre-4.1 layout (2-byte capabilities with CLIENT_SSL, 3-byte max packet size) and,
    # as that layout has it, a user name sent in the clear -- the name that counts is the one sent over TLS
    pre = frame(ssl_request(SSL_CAPS), 1, lim) if pre320 is None else frame(le(0x0805, 2) + le(0xffffff, 3) + pre320 + b"\x00", 1, lim)
    hs2 = hs41(user, caps=SSL_CAPS if caps2 is None else caps2)
    plain = frame(hs2, 2, lim)
    for kind, payload in cmds:
        plain += frame(payload, 0, lim)
    L = ["case %s" % cid, "cfg lim=%d tls=%d auth=%s clientcert=%d" % (lim, tls, auth, clientcert) + (" bighello=%d" % bighello if bighello else "") + (" wcap=%d" % wcap if wcap else ""),
         "pre " + hexspec(pre), "plain " + hexspec(plain), "split %d" % split]
    if prechunks:
        L.append("prechunks " + " ".join(str(x) for x in prechunks))
    L.append("chunks " + (chunks if isinstance(chunks, str) else " ".join(str(x) for x in chunks)))
    L += list(scripts) + ["end"]
    meta = dict(tls=tls, auth=auth, clientcert=clientcert, user=user, cmds=list(cmds), lim=lim, hs2=hs2)
    return cid, "\n".join(L) + "\n", meta


def oracle(meta, obs):
    fails = []
    get = lambda k: next((l[len(k) + 1:] for l in obs if l.startswith(k + "|")), None)
    r = get("result")
    calls = [l[5:] for l in obs if l.startswith("call|")]
    if get("tlsflush") not in ("ok", None):
        fails.append("the server waited for input while ciphertext it had written was not flushed to the transport (%s reads)" % get("tlsflush")[4:])
    if get("tlsrec") != "ok":
        fails.append("bytes after the greeting are not all TLS records: %s" % get("tlsrec"))
    try:
        g = pyclient.p_greeting(pyclient.server_messages(bytes.fromhex(get("plainout") or ""), meta["lim"])[0][2])
        if bool(g["caps"] & 0x800) != bool(meta["tls"]):
            fails.append("greeting TLS flag %s, configured %s" % (bool(g["caps"] & 0x800), meta["tls"]))
    except (Bad, IndexError) as e:
        fails.append("plaintext part is not exactly a greeting: %s" % e)
    if not meta["tls"]:
        if r != "err InvalidData" or calls:
            fails.append("TLS requested without configuration: result %s, callbacks %s" % (r, calls[:2]))
        return fails
    if not calls or calls[0] != "auth|" + meta["user"].hex():
        fails.append("after_authentication saw %s, the encrypted handshake response named %s" % (calls[:1], meta["user"].hex()))
    want_certs = "1" if meta["clientcert"] else "none"
    if get("certs") not in (want_certs,) and not (not meta["clientcert"] and get("certs") == "0"):
        fails.append("client certificates seen by after_authentication: %s (client presented %s)" % (get("certs"), want_certs))
    try:
        msgs = pyclient.server_messages(bytes.fromhex(get("tlsout") or ""), meta["lim"])
    except Bad as e:
        return fails + ["decrypted replies are not well-framed: %s" % e]
    first = (last_seq(2, meta["hs2"], meta["lim"]) + 1) % 256
    if meta["auth"] == "ok":
        if not msgs or msgs[0][0] != first or not msgs[0][2] or msgs[0][2][0] != 0:
            fails.append("no OK with id %d after the encrypted handshake" % first)
        want = [k + "|" + p[1:].hex() for k, p in meta["cmds"] if k in ("query", "prepare")]
        got = [c for c in calls[1:] if c.split("|")[0] in ("query", "prepare")]
        if got != want:
            fails.append("commands over TLS: shim saw %s, client sent %s" % (got[:4], want[:4]))
        if r != "ok":
            fails.append("run_on returned %s" % r)
    else:
        if len(calls) != 1 or not r.startswith("err Shim:"):
            fails.append("rejected authentication: callbacks %s result %s" % (calls, r))
        if not msgs or msgs[0][0] != first or not msgs[0][2] or msgs[0][2][0] != 0xff or msgs[0][2][1:3] != le(1045, 2):
            fails.append("rejected authentication over TLS: the client must receive ERR 1045 with id %d, got %s" % (
                first, ("id %d %s" % (msgs[0][0], msgs[0][2][:12].hex())) if msgs else "nothing"))
    return fails


def run(ctx):
    rng = ctx.rng
    cases = []
    n = 0
    cmdsets = [[("ping", cmd_ping())], [("query", cmd_query(b"q1")), ("ping", cmd_ping())],
               [("prepare", cmd_prepare(b"p")), ("execute", cmd_execute(1)), ("query", cmd_query(b"after"))]]
    scripts = ["q done 1 2", "p reply 1 0 0", "x all - done 3 4", "q start 1 %s wr 1 i32:5 p fin" % col(b"a", 3, 0)]
    splits = list(range(0, 41)) + [64, 100, 150, 200, 300, 10000] if not ctx.quick() else [0, 1, 2, 3, 4, 5, 8, 16, 31, 32, 33, 100, 10000]
    for k in splits:
        for pc, ch in ((None, "*"), ([1], [1]), ([3, 2], [7]), ([rng.randint(1, 9)], [64])):
            if ctx.quick() and pc is not None and k % 3:
                continue
            n += 1
            cases.append(mk("c18_%d" % n, split=k, prechunks=pc, chunks=ch, cmds=rng.choice(cmdsets), scripts=scripts,
                            clientcert=rng.randint(0, 1), user=rng.choice([b"jon", b"", b"\xff\xfe", b"u" * 40])))
    for tls in (0, 1):
        for auth in ("ok", "rej:77"):
            for cc in (0, 1):
                n += 1
                cases.append(mk("c18_%d" % n, tls=tls, auth=auth, clientcert=cc, split=rng.choice([0, 7]), cmds=cmdsets[1], scripts=scripts))
    # a ClientHello larger than any single read buffer, coalesced behind the SSL request as far as the
    # server's read buffer allows, and in other chunkings
    for big in (5000, 17000, 40000):
        for sp, ch in ((100000, "*"), (100000, [4096]), (3000, [1000, 3]), (0, "*")):
            n += 1
            cases.append(mk("c18_%d" % n, bighello=big, split=sp, chunks=ch, cmds=cmdsets[1], scripts=scripts, clientcert=rng.randint(0, 1)))
    # replies much larger than the TLS engine's send buffer (64 KiB in rustls), made of many small packets so
    # that the buffer limit is met at arbitrary offsets inside and between packets: served as over plaintext
    for nrows, width in ((2500, 4), (3000, 36), (1500, rng.randint(1, 60)), (6000, rng.randint(1, 20))):
        n += 1
        rows = " ".join("wr 1 s:%s p" % hexspec(bytes(rng.choice(b"abcdefgh") for _ in range(width))) for _ in range(nrows))
        big = ["q start 1 %s %s fin" % (col(b"a", 253, 0), rows), "q done 1 2"]
        cases.append(mk("c18_%d" % n, cmds=[("query", cmd_query(b"big")), ("ping", cmd_ping()), ("query", cmd_query(b"after"))],
                        scripts=big, chunks=rng.choice(["*", [64]]), clientcert=0))
        # the same over a transport that accepts only part of each write (short writes)
        n += 1
        cases.append(mk("c18_%d" % n, cmds=[("query", cmd_query(b"big")), ("ping", cmd_ping()), ("query", cmd_query(b"after"))],
                        scripts=big, chunks="*", clientcert=0, wcap=rng.choice([1000, 97, 4096])))
    # one outbound packet larger than the engine's 64 KiB send buffer (a 100 kB / 1 MB cell)
    for big in (100000, 1 << 20):
        n += 1
        cases.append(mk("c18_%d" % n, cmds=[("query", cmd_query(b"blob")), ("ping", cmd_ping())],
                        scripts=["q start 1 %s wr 1 b:r%dx62 p fin" % (col(b"a", 252, 0), big)], chunks="*", clientcert=0))
    # an SSL request in the pre-4.1 layout carrying a (different) user name in the clear
    for auth in ("ok", "rej:5"):
        n += 1
        cases.append(mk("c18_%d" % n, pre320=b"eve", user=b"alice", auth=auth, cmds=cmdsets[0], scripts=scripts, split=rng.choice([0, 9])))
    # the encrypted handshake response need not repeat the capability bits of the SSL request
    for caps2 in (DEFAULT_CAPS, 0x200, DEFAULT_CAPS | 0x8, (rng.getrandbits(32) | 0x200) & ~0x800, (rng.getrandbits(32) | 0xa00)):
        n += 1
        cases.append(mk("c18_%d" % n, caps2=caps2, user=rng.choice([b"jon", b"\xff\xfe", b"x" * 30]), cmds=cmdsets[1], scripts=scripts,
                        split=rng.choice([0, 3, 10000])))
    for lim in (64, 300):
        n += 1
        cases.append(mk("c18_%d" % n, lim=lim, cmds=cmdsets[2], scripts=scripts, chunks=[5]))
    io, mo = check.run_tls([(c[0], c[1]) for c in cases], "C18")
    corr = ctx.corr
    for cid, text, meta in cases:
        a = io.get(cid, ["<none>"]); m = mo.get(cid, ["<none>"])
        corr["evaluations"] += 1
        corr["distinct_nontrivial"] += 1
        k = "split_" + next(l for l in text.splitlines() if l.startswith("split")).split()[1]
        corr["hist"]["tls_cfg_%d" % meta["tls"]] = corr["hist"].get("tls_cfg_%d" % meta["tls"], 0) + 1
        fails = oracle(meta, a)
        for msg in fails:
            corr["oracle_failures"] += 1
            ctx.violation("specification oracle fails on the implementation's output: %s (case %s)" % (msg, cid), text, name="oracle")
        a2 = [l for l in a if not l.startswith(("tlsrec|", "certs|", "tlsflush|"))]
        if a2 != m:
            corr["mismatches"] += 1
            if not fails:
                j = check.first_diff(a2, m)
                ctx.violation("model (plaintext run) and implementation (over TLS) disagree on case %s at observation %d:\n impl : %s\n model: %s" %
                              (cid, j, (a2[j] if j < len(a2) else "<end>")[:200], (m[j] if j < len(m) else "<end>")[:200]), text, name="corr", found=False)
        if len(corr["samples"]) < 3:
            corr["samples"].append({"case": text[:600], "impl_result": a[-1]})
    corr["exhaustive"] = True


def replay(ctx, path):
    text = open(path).read()
    io, mo = check.run_tls([("replay", text)], "C18replay")
    for k in io:
        for l in io[k]:
            print("impl : " + l[:300])
        for l in mo.get(k, []):
            print("model: " + l[:300])
