"""C03: exactly one complete, protocol-conformant response per command."""
from .common import *
from . import progs

RULE = ("random command sequences (QUERY / PREPARE / EXECUTE / INIT_DB / FIELD_LIST / PING / CLOSE / LONG_DATA) whose "
        "callbacks run random writer-API programs (chains of resultsets, zero-column sets, completions, errors after rows, "
        "drops in every legal position, text and binary mode), each followed by a sentinel PING, at several packet limits "
        "and chunkings; plus shape-violating programs (surplus / missing cells, NULL for NOT NULL, wrong value kind); "
        "non-trivial = at least one resultset, chain or error unit; distinct = distinct case text")
ASSUMPTIONS = ["shim callbacks return", "a shim that drops the fresh writer without any call, or returns Ok from on_init/on_prepare "
               "without replying, is outside the property (it reports no success through the API)"]


def conv(ctx, cid, n_cmds, lim):
    rng = ctx.rng
    cmds, scripts, expect = [], [], []
    prepared = {}
    for _ in range(n_cmds):
        k = rng.random()
        if k < 0.35:
            p, u = progs.rand_qprog(rng, False)
            while not u:
                p, u = progs.rand_qprog(rng, False)
            cmds.append(("query", cmd_query(b"q" + progs.rand_utf8(rng)), rng.choice([0, 0, 3, 255])))
            scripts.append("q " + p); expect.append(("units", False, u))
        elif k < 0.5:
            sid = rng.randint(1, 5)
            np_ = rng.randint(0, 3)
            ps = progs.rand_cols(rng, np_, True); cs = progs.rand_cols(rng, rng.randint(0, 3), True)
            cmds.append(("prepare", cmd_prepare(b"p"), 0))
            scripts.append("p reply %d %s %s" % (sid, progs.cols_tok(ps), progs.cols_tok(cs)))
            expect.append(("prepok", sid, ps, cs)); prepared[sid] = np_
        elif k < 0.7 and prepared:
            sid = rng.choice(sorted(prepared)); np_ = prepared[sid]
            p, u = progs.rand_qprog(rng, True)
            while not u:
                p, u = progs.rand_qprog(rng, True)
            block = exec_block([False] * np_, [(3, False)] * np_, [le(rng.randint(0, 9), 4)] * np_)
            cmds.append(("execute", cmd_execute(sid, block), 0))
            scripts.append("x all - " + p); expect.append(("units", True, u))
        elif k < 0.78:
            ok = rng.random() < 0.6
            cmds.append(("init", cmd_init(b"db" + progs.rand_utf8(rng)), 0))
            if ok:
                scripts.append("i ok"); expect.append(("ok",))
            else:
                code = rng.choice(progs.ERR_CODES); msg = progs.rand_bytes(rng)
                scripts.append("i err %d %s" % (code, hexspec(msg))); expect.append(("err", code, msg))
        elif k < 0.83:
            cmds.append(("fieldlist", cmd_field_list(b"t\x00"), 0)); expect.append(("fields",))
        elif k < 0.88 and prepared:
            sid = rng.choice(sorted(prepared))
            cmds.append(("longdata", cmd_long_data(sid, 0, progs.rand_bytes(rng)), 0))
        elif k < 0.93:
            sid = rng.randint(1, 9)
            cmds.append(("close", cmd_close(sid), 0)); prepared.pop(sid, None)
        elif k < 0.97:
            code = rng.choice(progs.ERR_CODES); msg = progs.rand_bytes(rng)
            cmds.append(("prepare", cmd_prepare(b"bad"), 0))
            scripts.append("p err %d %s" % (code, hexspec(msg))); expect.append(("err", code, msg))
        else:
            cmds.append(("query", cmd_query(b"SELECT @@max_allowed_packet"), 0)); expect.append(("builtin",))
        cmds.append(("ping", cmd_ping(), rng.choice([0, 9])))
        expect.append(("ok",))
    c = mk_case(cid, cmds, scripts, lim=lim, chunks=[rng.choice([1, 3, 7, 64, 2048])], quit=rng.random() < 0.5)
    c.meta["expect"] = expect
    return c


def oracle(case, obs):
    fails = []
    try:
        d = decode_server(case, obs)
    except Bad as e:
        return [(None, "server output not conformant: %s" % e)]
    if d.get("extra"):
        fails.append((None, "%d server messages beyond the expected replies" % d["extra"]))
    if "missing_from" in d:
        fails.append((None, "no reply for reply-expecting command #%d" % d["missing_from"]))
    exp = case.meta.get("expect", [])
    for (kind, dec), e in zip(d["replies"], exp):
        if e[0] == "units":
            for m in progs.units_match(e[2], [(u[0],) + tuple(u[1:]) for u in dec], e[1]):
                fails.append((None, m))
        elif e[0] == "ok":
            if dec[0] != "ok":
                fails.append((None, "expected OK, got %s" % str(dec)[:80]))
        elif e[0] == "err":
            if dec[0] != "err" or dec[1]["code"] != e[1] or dec[1]["msg"] != e[2]:
                fails.append((None, "expected ERR(%d), got %s" % (e[1], str(dec)[:100])))
        elif e[0] == "prepok":
            if dec[0] != "prepok" or dec[1]["id"] != e[1] or len(dec[1]["params"]) != len(e[2]) or len(dec[1]["cols"]) != len(e[3]):
                fails.append((None, "prepare reply differs: %s" % str(dec)[:100]))
    if result_of(obs) != "ok":
        fails.append((None, "run_on returned %s" % result_of(obs)))
    return fails


def shape_cases(ctx):
    """writer calls that contradict the declared row shape must fail with an error"""
    rng = ctx.rng
    out = []
    n = 0
    c_int = col(b"a", 3, 0); c_nn = col(b"b", 253, NOT_NULL)
    variants = [
        ("surplus cell", "start 2 %s %s wc i32:1 i wc s:61 i wc i32:3 i er i fin" % (c_int, c_nn)),
        ("missing cell", "start 2 %s %s wc i32:1 i er i fin" % (c_int, c_nn)),
        ("null for not null", "start 2 %s %s wc i32:1 i wc none i fin" % (c_int, c_nn)),
        ("wrong kind", "start 2 %s %s wc s:61 i fin" % (c_int, c_nn)),
        ("write_row too long", "start 2 %s %s wr 3 i32:1 s:61 i32:2 i fin" % (c_int, c_nn)),
        ("write_row too short", "start 2 %s %s wr 1 i32:1 i fin" % (c_int, c_nn)),
        # a last row left incomplete and closed implicitly: the closing call must refuse it
        ("partial row at finish", "start 2 %s %s wr 2 i32:1 s:61 i wc i32:3 i fin" % (c_int, c_nn)),
        ("partial row at finish_one", "start 2 %s %s wc i32:3 i fin1 done 0 0" % (c_int, c_nn)),
        ("partial row at finish_error", "start 2 %s %s wc i32:3 i ferr 1064 6f6f7073" % (c_int, c_nn)),
        ("partial row at drop", "start 2 %s %s wr 2 i32:1 s:61 i wc i32:3 i drop" % (c_int, c_nn)),
    ]
    for name, prog in variants:
        for binary in (False, True):
            n += 1
            if binary:
                cmds = [("prepare", cmd_prepare(b"p")), ("execute", cmd_execute(1))]
                scripts = ["p reply 1 0 0", "x all - " + prog]
            else:
                cmds = [("query", cmd_query(b"q"))]
                scripts = ["q " + prog]
            c = mk_case("c03s_%d" % n, cmds, scripts)
            c.meta["shape"] = (name, binary)
            out.append(c)
    return out


def shape_oracle(case, obs):
    name, binary = case.meta["shape"]
    apis = [l for l in obs if l.startswith("api|")]
    if name == "partial row at drop":
        # Drop cannot return the error: it must surface as the result of run_on (parked, reported by the flush),
        # and in no case may the short row reach the client as if it were complete
        if result_of(obs) == "ok":
            try:
                decode_server(case, obs)
            except Bad as e:
                return [(None, "an incomplete row was dropped silently and the client receives a malformed resultset: %s" % e)]
            return [(None, "an incomplete row was dropped but run_on returned Ok")]
        return []
    if not any(l.startswith("api|err") for l in apis):
        # text mode: a wrong kind is not detectable (everything is a string); surplus cells are reported by end_row
        if not binary and name == "wrong kind":
            return []
        if not binary and name == "null for not null":
            return []
        return [(None, "shape violation '%s' (%s) was not refused by any call" % (name, "binary" if binary else "text"))]
    return []


def nontrivial(case, obs):
    return any(e[0] == "units" and (len(e[2]) > 1 or e[2][0][0] != "ok") for e in case.meta.get("expect", [])) or "shape" in case.meta


def classify(case, obs):
    ks = ["lim_%s" % (case.lim if case.lim < 1000 else "real")]
    for e in case.meta.get("expect", []):
        if e[0] == "units":
            ks.append("units_%d_%s" % (min(len(e[2]), 4), "bin" if e[1] else "text"))
            for u in e[2]:
                ks.append("unit_" + u[0])
    return ks


def run(ctx):
    n = 60 if ctx.quick() else 1500
    cases = [conv(ctx, "c03_%d" % i, ctx.rng.randint(1, 6), ctx.rng.choice([U24_MAX, U24_MAX, 5, 16, 255])) for i in range(n)]
    ctx.diff_conn(cases, nontrivial=nontrivial, oracle=oracle, classify=classify)
    ctx.diff_conn(shape_cases(ctx), tag="C03shape", nontrivial=nontrivial, oracle=shape_oracle)
