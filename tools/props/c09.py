"""C09: column metadata reaches the client exactly as the shim declared it."""
from .common import *
from . import progs

RULE = ("resultset headers and PREPARE replies with 0..1000 column descriptors and 0..300 parameter descriptors (counts on both "
        "sides of 250/251 and 255/256/257, chosen independently); table/column names of 0, 1, 250, 251, "
        "65535, 65536, 70000 bytes incl. non-ASCII; every column type code; random and all-ones flag masks; statement ids "
        "0, 1, 2^16, 2^32-1; oracle: the client-side decoders return the declared count, names, types, flags, in order; "
        "non-trivial = more than one descriptor or a name >= 251 bytes; distinct = distinct case text")
ASSUMPTIONS = ["parameter / column counts above 65535 are outside the wire format's 16-bit fields"]


def desc(rng, big=False):
    def name():
        n = rng.choice([0, 1, 5, 250, 251, 300] + ([65535, 65536, 70000] if big else []))
        if rng.random() < 0.3:
            out = b""
            for ch in "日本é" * (n // 2 + 1):
                if len(out) + len(ch.encode()) > n:
                    break
                out += ch.encode()
            return out
        return bytes([rng.choice(b"abcxyz_ ")]) * n
    return dict(table=name() if rng.random() < 0.5 else b"t", name=name(), type=rng.choice(ALL_TYPES),
                flags=rng.choice([0, 1, 32, 33, 0xffff, rng.getrandbits(16)]))


def cmp_cols(want, got):
    if len(want) != len(got):
        return "declared %d descriptors, client decoded %d" % (len(want), len(got))
    for i, (w, g) in enumerate(zip(want, got)):
        for k in ("table", "name", "type", "flags"):
            if w[k] != g[k]:
                return "descriptor %d: %s declared %r, decoded %r" % (i, k, w[k] if k in ("type", "flags") else w[k][:20], g[k] if k in ("type", "flags") else g[k][:20])
    return None


def oracle(case, obs):
    try:
        d = decode_server(case, obs)
    except Bad as e:
        return [(None, "not conformant: %s" % e)]
    fails = []
    for (kind, dec), exp in zip(d["replies"], case.meta["expect"]):
        if exp[0] == "rows":
            got = dec[0][1] if dec and dec[0][0] == "rows" else None
            m = cmp_cols(exp[1], got) if got is not None else "no resultset decoded"
        else:
            if dec[0] != "prepok":
                m = "no prepare-ok decoded"
            else:
                m = cmp_cols(exp[2], dec[1]["params"]) or cmp_cols(exp[3], dec[1]["cols"]) or (None if dec[1]["id"] == exp[1] else "statement id %d decoded as %d" % (exp[1], dec[1]["id"]))
        if m:
            fails.append((None, m))
    if len(d["replies"]) < len(case.meta["expect"]):
        fails.append((None, "reply missing (%s)" % result_of(obs)))
    return fails


def run(ctx):
    rng = ctx.rng
    cases = []
    counts = [0, 1, 2, 3, 10, 250, 251, 252, 300] + ([1000] if not ctx.quick() else [])
    i = 0
    for n in counts:
        for rep in range(3 if ctx.quick() else 8):
            i += 1
            cs = [desc(rng, big=(n <= 3 and rep == 0)) for _ in range(n)]
            # parameter counts on both sides of the one-byte / 256 boundaries, independent of the column count
            ps = [desc(rng) for _ in range(rng.choice([0, 1, 2, n % 7, 255, 256, 257, 300] if rep else [0, 1, n % 7]))]
            sid = rng.choice([0, 1, 65536, 2**32 - 1, rng.getrandbits(32)])
            cmds, scripts, exp = [], [], []
            if n > 0:
                cmds.append(("query", cmd_query(b"q"))); scripts.append("q start %s fin" % progs.cols_tok(cs)); exp.append(("rows", cs))
            cmds.append(("prepare", cmd_prepare(b"p"))); scripts.append("p reply %d %s %s" % (sid, progs.cols_tok(ps), progs.cols_tok(cs)))
            exp.append(("prep", sid, ps, cs))
            c = mk_case("c09_%d" % i, cmds, scripts, lim=rng.choice([U24_MAX, U24_MAX, 300]))
            c.meta["expect"] = exp
            cases.append(c)
    # consecutive resultset headers (and prepare replies) on one connection that differ in ONE attribute only
    base = [dict(table=b"t", name=b"id", type=3, flags=0), dict(table=b"t", name=b"v", type=253, flags=0)]
    variants = [base,
                [dict(c, flags=f) for c, f in zip(base, (35, 1))],                 # flags only
                [dict(c, type=ty) for c, ty in zip(base, (8, 252))],              # types only
                [dict(c, table=b"u") for c in base],                             # table only
                [dict(base[0], name=b"ID"), base[1]],                            # name case only
                base]
    for order in (variants, variants[::-1], [variants[1], variants[0], variants[1]]):
        i += 1
        cmds, scripts, exp = [], [], []
        for v in order:
            if rng.random() < 0.7:
                cmds.append(("query", cmd_query(b"q"))); scripts.append("q start %s fin" % progs.cols_tok(v)); exp.append(("rows", v))
            else:
                cmds.append(("prepare", cmd_prepare(b"p"))); scripts.append("p reply 3 %s %s" % (progs.cols_tok(v), progs.cols_tok(v))); exp.append(("prep", 3, v, v))
        if exp[-1][0] != "prep":
            cmds.append(("prepare", cmd_prepare(b"p"))); scripts.append("p reply 3 0 %s" % progs.cols_tok(order[-1])); exp.append(("prep", 3, [], order[-1]))
        c = mk_case("c09_%d" % i, cmds, scripts)
        c.meta["expect"] = exp
        cases.append(c)
    # parameter / column counts that are exact multiples of 256 (one-byte counters wrap to where they started)
    for (np_, nc_) in ((256, 1), (1, 256), (256, 256), (512, 3), (0, 512)):
        i += 1
        cs = [dict(table=b"t", name=b"c%d" % j, type=3, flags=0) for j in range(nc_)]
        ps = [dict(table=b"", name=b"?", type=253, flags=0) for j in range(np_)]
        cmds = ([("query", cmd_query(b"q"))] if nc_ else []) + [("prepare", cmd_prepare(b"p"))]
        scripts = (["q start %s fin" % progs.cols_tok(cs)] if nc_ else []) + ["p reply 5 %s %s" % (progs.cols_tok(ps), progs.cols_tok(cs))]
        c = mk_case("c09_%d" % i, cmds, scripts)
        c.meta["expect"] = ([("rows", cs)] if nc_ else []) + [("prep", 5, ps, cs)]
        cases.append(c)
    ctx.diff_conn(cases, oracle=oracle, nontrivial=lambda c, o: True,
                  classify=lambda c, o: ["ncols_%d" % len(c.meta["expect"][-1][3])])
