"""C07: binary-protocol rows arrive unchanged, with an exact NULL bitmap."""
from .common import *
from . import progs
import check, itertools

RULE = ("binary resultsets through run_on (COM_STMT_EXECUTE): column counts 1..20 (bitmap byte boundaries at 6/7 and 14/15) "
        "and sampled up to 300, EVERY NULL pattern for n <= 8 (quick) / 10 (thorough), random patterns beyond, all supported "
        "column types and both signednesses, values of every implementor incl. Option/& wrappers and generic values; plus "
        "to_mysql_bin called directly on (value kind x every column type code) to check refusal of values the column "
        "cannot carry, and NULL offered to NOT NULL columns; oracle: the client-side binary row decoder returns exactly "
        "the written values and NULL positions; non-trivial = a row with >= 1 NULL or >= 2 columns; distinct = distinct case text")
ASSUMPTIONS = ["f32 -> f64 widening is exact (fpext oracle supplied by the harness)", "chrono accessors return the stored fields"]


def null_pattern_cases(ctx):
    rng = ctx.rng
    cases = []
    maxn = 8 if ctx.quick() else 10
    i = 0
    for n in range(1, maxn + 1):
        cs = [dict(table=b"", name=b"c%d" % k, type=3, flags=0) for k in range(n)]
        pats = list(itertools.product([False, True], repeat=n))
        # several rows per case to keep the number of cases small
        for start in range(0, len(pats), 16):
            rows, parts = [], ["start " + progs.cols_tok(cs)]
            for pat in pats[start:start + 16]:
                toks = ["none" if isnull else "i32:%d" % (k + 1) for k, isnull in enumerate(pat)]
                rows.append([None if isnull else ("int", k + 1) for k, isnull in enumerate(pat)])
                parts.append("wr %d %s p" % (n, " ".join(toks)))
            parts.append("fin")
            i += 1
            c = mk_case("c07n_%d" % i, [("prepare", cmd_prepare(b"p")), ("execute", cmd_execute(1))],
                        ["p reply 1 0 0", "x all - " + " ".join(parts)])
            c.meta["expect"] = [("rows", cs, rows)]
            cases.append(c)
    # a cell of 1 MiB and more followed, in the same row, by NULLs and small values (and a second row)
    for big in ((1 << 20) + 3, 70000) if ctx.quick() else ((1 << 20) + 3, 70000, 1 << 20, (1 << 21) + 1):
        for order in ("big,int,null", "null,big,null,int", "int,big,null,null,big"):
            if ctx.quick() and (big, order) not in (((1 << 20) + 3, "big,int,null"), ((1 << 20) + 3, "null,big,null,int"), (70000, "int,big,null,null,big")):
                continue
            i += 1
            cs, toks, exp = [], [], []
            for j, k in enumerate(order.split(",")):
                if k == "big":
                    cs.append(dict(table=b"t", name=b"b%d" % j, type=252, flags=0)); toks.append("b:r%dx61" % big); exp.append(("bytes", b"a" * big))
                elif k == "int":
                    cs.append(dict(table=b"t", name=b"i%d" % j, type=3, flags=0)); toks.append("i32:5"); exp.append(("int", 5))
                else:
                    cs.append(dict(table=b"t", name=b"n%d" % j, type=3, flags=0)); toks.append("none"); exp.append(None)
            n = len(cs)
            two = not ctx.quick() and big < (1 << 20)
            prog = "start %s %s er p %sfin" % (progs.cols_tok(cs), " ".join("wc %s p" % t for t in toks), ("wr %d %s p " % (n, " ".join(toks))) if two else "")
            c = mk_case("c07r_%d" % i, [("prepare", cmd_prepare(b"p")), ("execute", cmd_execute(1))], ["p reply 1 0 0", "x all - " + prog])
            c.meta["expect"] = [("rows", cs, [exp, exp] if two else [exp])]
            cases.append(c)
    return cases


def random_cases(ctx):
    rng = ctx.rng
    cases = []
    counts = list(range(1, 21)) + [31, 32, 33, 63, 64, 65, 100, 300]
    reps = 2 if ctx.quick() else 20
    i = 0
    for n in counts:
        for _ in range(reps):
            i += 1
            cs = progs.rand_cols(rng, n, True)
            rows, parts = [], ["start " + progs.cols_tok(cs)]
            for _r in range(rng.randint(1, 3)):
                toks, _, bexp = progs.rand_row(rng, cs, True)
                rows.append(bexp)
                z = rng.random()
                if z < 0.4:
                    parts.append("wr %d %s p" % (n, " ".join(toks)))
                elif z < 0.75 or n < 2:
                    parts += ["wc %s p" % t for t in toks] + ["er p"]
                else:
                    # the first j cells one by one, the rest of the row with write_row
                    j = rng.randint(1, n - 1)
                    parts += ["wc %s p" % t for t in toks[:j]] + ["wr %d %s p" % (n - j, " ".join(toks[j:]))]
            parts.append(rng.choice(["fin", "drop"]))
            c = mk_case("c07r_%d" % i, [("prepare", cmd_prepare(b"p")), ("execute", cmd_execute(1))],
                        ["p reply 1 0 0", "x all - " + " ".join(parts)], lim=rng.choice([U24_MAX, U24_MAX, 9, 255]))
            c.meta["expect"] = [("rows", cs, rows)]
            cases.append(c)
    # a cell of 1 MiB and more followed, in the same row, by NULLs and small values (and a second row)
    for big in ((1 << 20) + 3, 70000) if ctx.quick() else ((1 << 20) + 3, 70000, 1 << 20, (1 << 21) + 1):
        for order in ("big,int,null", "null,big,null,int", "int,big,null,null,big"):
            if ctx.quick() and (big, order) not in (((1 << 20) + 3, "big,int,null"), ((1 << 20) + 3, "null,big,null,int"), (70000, "int,big,null,null,big")):
                continue
            i += 1
            cs, toks, exp = [], [], []
            for j, k in enumerate(order.split(",")):
                if k == "big":
                    cs.append(dict(table=b"t", name=b"b%d" % j, type=252, flags=0)); toks.append("b:r%dx61" % big); exp.append(("bytes", b"a" * big))
                elif k == "int":
                    cs.append(dict(table=b"t", name=b"i%d" % j, type=3, flags=0)); toks.append("i32:5"); exp.append(("int", 5))
                else:
                    cs.append(dict(table=b"t", name=b"n%d" % j, type=3, flags=0)); toks.append("none"); exp.append(None)
            n = len(cs)
            two = not ctx.quick() and big < (1 << 20)
            prog = "start %s %s er p %sfin" % (progs.cols_tok(cs), " ".join("wc %s p" % t for t in toks), ("wr %d %s p " % (n, " ".join(toks))) if two else "")
            c = mk_case("c07r_%d" % i, [("prepare", cmd_prepare(b"p")), ("execute", cmd_execute(1))], ["p reply 1 0 0", "x all - " + prog])
            c.meta["expect"] = [("rows", cs, [exp, exp] if two else [exp])]
            cases.append(c)
    return cases


def oracle(case, obs):
    try:
        d = decode_server(case, obs)
    except Bad as e:
        return [(None, "not conformant: %s" % e)]
    got = [dec for k, dec in d["replies"] if k == "execute"]
    if not got:
        return [(None, "no reply to execute (%s)" % result_of(obs))]
    return [(None, m) for m in progs.units_match(case.meta["expect"], got[0], True)]


KIND_VALUES = ["u8:7", "i8:-7", "u16:700", "i16:-700", "u32:70000", "i32:-70000", "u64:5", "i64:-5", "usize:9", "isize:-9",
               "f32:3f800000", "f64:3ff0000000000000", "b:6162", "s:6162", "vec:6162", "string:6162",
               "date:2020:2:29", "dt:2020:2:29:1:2:3:0", "dt:2020:2:29:1:2:3:4000", "dur:0:0", "dur:3661:0", "dur:3661:5000",
               "dur:3024000:0", "mint:5", "mint:-5", "muint:5", "mbytes:6162", "mfloat:3f800000", "mdouble:3ff0000000000000",
               "mdate:2020:2:29:1:2:3:4", "mdate:2021:2:29:0:0:0:0", "mtime:0:1:2:3:4:5", "mtime:1:1:2:3:4:5", "mtime:0:35:0:0:0:0",
               "some u8:7", "ref i64:-5", "ref some b:61", "some ref dt:2020:2:29:1:2:3:4000"]
CARRIES = {"int": set(progs.INT_COLS), "f32": {4, 5}, "f64": {5}, "bytes": set(BYTES_TYPES), "date": {10}, "dt": {12, 7}, "dur": {11}}


def kind_of(tok):
    t = tok.split(" ")[-1].split(":")[0]
    if t in progs.INT_TYPES or t in ("mint", "muint"):
        return "int"
    return {"f32": "f32", "mfloat": "f32", "f64": "f64", "mdouble": "f64", "b": "bytes", "s": "bytes", "vec": "bytes",
            "string": "bytes", "mbytes": "bytes", "date": "date", "dt": "dt", "mdate": "dt", "dur": "dur", "mtime": "dur"}[t]


def refusal_lines(ctx):
    L = []
    for tok in KIND_VALUES:
        for ct in ALL_TYPES:
            for fl in (0, 32):
                L.append(("b %d %d %s" % (ct, fl, tok), tok, ct, fl))
    # generic values outside the representable domain: refused for every column type
    for tok in progs.OUT_OF_DOMAIN_BIN:
        for ct in (7, 10, 11, 12, 253):
            L.append(("b %d 0 %s" % (ct, tok), "OUT " + tok, ct, 0))
    return L


def run(ctx):
    cases = null_pattern_cases(ctx)
    ctx.corr["exhaustive"] = True
    ctx.diff_conn(cases, tag="C07nulls", oracle=oracle, nontrivial=lambda c, o: True,
                  classify=lambda c, o: ["null_patterns_n%d" % len(c.meta["expect"][0][1])])
    ctx.diff_conn(random_cases(ctx), tag="C07rand", oracle=oracle, nontrivial=lambda c, o: len(c.meta["expect"][0][1]) >= 2,
                  classify=lambda c, o: ["cols_%d" % min(len(c.meta["expect"][0][1]), 40), "lim_%s" % (c.lim if c.lim < 1000 else "real")])
    # NULL for NOT NULL, through the server
    nn = []
    for j, tok in enumerate(["none", "mnull", "ref none", "ref mnull"]):
        c = mk_case("c07nn_%d" % j, [("prepare", cmd_prepare(b"p")), ("execute", cmd_execute(1))],
                    ["p reply 1 0 0", "x all - start 2 %s %s wc i32:1 i wc %s i fin" % (col(b"a", 3, 0), col(b"b", 3, NOT_NULL), tok)])
        nn.append(c)

    def nn_oracle(case, obs):
        apis = [l for l in obs if l.startswith("api|")]
        if len(apis) < 4 or not apis[3].startswith("api|err"):
            return [(None, "NULL offered for a NOT NULL column was not refused: %s" % apis[:4])]
        return []
    ctx.diff_conn(nn, tag="C07nn", oracle=nn_oracle)
    # ... and a shim that, after the refusal, supplies a real value for that column and ends the row: the row
    # the client receives is exactly the values written, with a clean bitmap
    rec = []
    for j, (pos, tok) in enumerate([(1, "none"), (2, "mnull"), (5, "ref none"), (6, "none"), (7, "none"), (9, "mnull")]):
        ncol = pos + 2
        cs = [dict(table=b"t", name=b"c%d" % k, type=3, flags=(NOT_NULL if k == pos else 0)) for k in range(ncol)]
        parts = ["start " + progs.cols_tok(cs)]
        for k in range(ncol):
            if k == pos:
                parts.append("wc %s i" % tok)
            parts.append("wc i32:%d i" % (k + 1))
        parts += ["er i", "fin"]
        c = mk_case("c07rec_%d" % j, [("prepare", cmd_prepare(b"p")), ("execute", cmd_execute(1))], ["p reply 1 0 0", "x all - " + " ".join(parts)])
        c.meta["expect"] = [("rows", cs, [[("int", k + 1) for k in range(ncol)]])]
        rec.append(c)
    ctx.diff_conn(rec, tag="C07rec", oracle=oracle)
    # refusal matrix, direct calls
    L = refusal_lines(ctx)
    impl, model = check.run_val([l[0] for l in L], "C07")
    corr = ctx.corr
    corr["evaluations"] += len(L)
    mism = 0
    for (line, tok, ct, fl), a, m in zip(L, impl, model):
        outdom = tok.startswith("OUT ")
        k = kind_of(tok[4:] if outdom else tok)
        corr["hist"]["kind_" + k] = corr["hist"].get("kind_" + k, 0) + 1
        bad = None
        if outdom and a.startswith("ok "):
            bad = "a value outside the representable domain was accepted and encoded as %s" % a[3:60]
        elif a.startswith("ok ") and ct not in CARRIES[k]:
            bad = "a %s value was encoded for column type %d, which cannot carry it" % (k, ct)
        elif a.startswith("panic"):
            bad = "panicked (%s) instead of refusing with an error" % a
        elif a.startswith("ok "):
            try:
                v, i = pyclient.p_bin_value(ct, bool(fl & 32), bytes.fromhex(a[3:]), 0)
                if i != len(bytes.fromhex(a[3:])):
                    bad = "encoding has trailing bytes for its column type"
            except Bad as e:
                bad = "client cannot decode the accepted value: %s" % e
        if bad:
            corr["oracle_failures"] += 1
            if corr["oracle_failures"] <= 6:
                ctx.violation("C07 oracle: `%s`: %s" % (line, bad), line + "\n", name="val")
        if a != m:
            mism += 1
            if mism <= 5 and not bad:
                ctx.violation("model and implementation disagree on `%s`: impl %s, model %s" % (line, a, m), line + "\n",
                              name="corr", found=False)
    corr["mismatches"] += mism


def replay(ctx, path):
    txt = open(path).read()
    if txt.startswith("case "):
        print("conn replay: run `build/harness-target/debug/harness conn %s out aux` and the driver on the same file" % path)
        return
    lines = [l.strip() for l in txt.splitlines() if l.strip()]
    impl, model = check.run_val(lines, "C07replay")
    for l, a, m in zip(lines, impl, model):
        print("%s\n  impl : %s\n  model: %s" % (l[:200], a[:200], m[:200]))
