"""C16: bound parameter types persist per statement across executions.
C17 shares the generator (long data interleaved)."""
from .common import *
from . import progs
from .c08 import rand_param
import itertools

RULE = ("histories over up to 3 prepared statements where every execution independently rebinds (new-params-bound=1 with "
        "random types) or reuses (flag 0, values encoded with the statement's latest bound types), interleaved with "
        "re-prepares, closes and executions of other statements; exhaustive over all rebind/reuse patterns of <= 4 executions "
        "on 2 statements with a 2-type alphabet; plus histories ending in a re-prepare under a live (or just closed) id followed by a "
        "type-reusing execution, which must be refused; oracle: every execution delivers the types and values the client encoded; "
        "non-trivial = at least one reusing execution; distinct = distinct case text")
ASSUMPTIONS = ["shim callbacks return"]


def history_case(ctx, cid, plan=None, with_long=False, lim=U24_MAX, stale=False):
    """plan: list of (stmt index, rebind?) or None for random"""
    rng = ctx.rng
    nst = 2 if plan else rng.randint(1, 3)
    nparams = [rng.randint(1, 4) for _ in range(nst)]
    ids = rng.sample(range(1, 20), nst)
    cmds, scripts, exp = [], [], []
    bound = {}      # stmt index -> list of (type, unsigned)
    pend = {}       # (stmt index, param) -> bytes
    prepared = set()

    def prepare(k):
        cmds.append(("prepare", cmd_prepare(b"s%d" % k)))
        scripts.append("p reply %d %s 0" % (ids[k], progs.cols_tok([dict(table=b"", name=b"?", type=253, flags=0)] * nparams[k])))
        exp.append("prepare|" + (b"s%d" % k).hex())
        bound[k] = None
        for key in [key for key in pend if key[0] == k]:
            del pend[key]
        prepared.add(k)
    for k in range(nst):
        prepare(k)
    steps = plan if plan else [(rng.randrange(nst), rng.random() < 0.5) for _ in range(rng.randint(2, 8))]
    for k, rebind in steps:
        r = rng.random()
        if not plan and r < 0.1:
            prepare(k); continue
        if with_long and rng.random() < 0.6:
            # long data may be followed by anything before the statement is executed: chunks for other
            # parameters / statements, a re-prepare (which must discard what is pending), a close + prepare
            for _ in range(rng.randint(1, 7)):
                kk = k if rng.random() < 0.8 else rng.randrange(nst)
                if kk not in prepared:
                    continue
                par = rng.randrange(nparams[kk])
                data = progs.rand_bytes(rng, 12) if rng.random() < 0.8 else b""
                cmds.append(("longdata", cmd_long_data(ids[kk], par, data)))
                pend[(kk, par)] = pend.get((kk, par), b"") + data
                t = rng.random()
                if t < 0.15:
                    prepare(kk)
                elif t < 0.22:
                    cmds.append(("close", cmd_close(ids[kk]))); exp.append("close|%d" % ids[kk])
                    for key in [key for key in pend if key[0] == kk]:
                        del pend[key]
                    prepare(kk)
        n = nparams[k]
        if bound[k] is None:
            rebind = True
        if rebind:
            allow = [3, 253] if plan else None
            ps = [rand_param(rng, allow) for _ in range(n)]
            types = [(p[0], p[1]) for p in ps]
        else:
            types = bound[k]
            ps = []
            for (t, u) in types:
                while True:
                    p = rand_param(rng, [t])
                    if p[1] == u or t not in (1, 2, 13, 3, 9, 8):
                        break
                ps.append((t, u) + p[2:])
        nulls = [rng.random() < 0.15 for _ in range(n)]
        vals, call = [], []
        for i, (p, isnull) in enumerate(zip(ps, nulls)):
            if isnull:
                call.append("param|%d|null" % p[0])
            elif (k, i) in pend:
                call.append("param|%d|bytes:%s" % (p[0], pend[(k, i)].hex()))
            else:
                vals.append(p[2]); call.append("param|%d|%s" % (p[0], p[3]))
        block = exec_block(nulls, types if rebind else None, vals)
        cmds.append(("execute", cmd_execute(ids[k], block)))
        # the shim may look at only some of the parameters (or none): what the NEXT executions are
        # decoded with must not depend on that
        pull = n if (plan or rng.random() < 0.7) else rng.randint(0, n)
        scripts.append("x %s - done 0 0" % ("all" if pull == n else str(pull)))
        exp += ["execute|%d" % ids[k]] + call[:pull]
        bound[k] = types
        for key in [key for key in pend if key[0] == k]:
            del pend[key]
    if stale:
        # a statement prepared again under an id whose previous statement had bound types (with or without a
        # CLOSE in between) is a new statement: an execution that reuses types has none to reuse and is refused
        ks = [k for k in range(nst) if bound[k] is not None]
        if not ks:
            return history_case(ctx, cid, plan, with_long, lim, stale)
        k = rng.choice(ks)
        old = bound[k]
        if rng.random() < 0.4:
            cmds.append(("close", cmd_close(ids[k]))); exp.append("close|%d" % ids[k])
        prepare(k)
        ps = [rand_param(rng, [t]) for (t, u) in old]
        cmds.append(("execute", cmd_execute(ids[k], exec_block([False] * len(ps), None, [p[2] for p in ps]))))
        scripts.append("x all - done 0 0")
    c = mk_case(cid, cmds, scripts, lim=lim, chunks=[rng.choice([1, 9, 2048])])
    c.meta["expect_calls"] = ["auth|" + b"jon".hex()] + exp
    c.meta["stale"] = stale
    c.meta["reuse"] = any(not rb for _, rb in steps)
    return c


def oracle(case, obs):
    calls = calls_of(obs)
    fails = []
    if calls != case.meta["expect_calls"]:
        want = case.meta["expect_calls"]
        k = next((i for i, (a, b) in enumerate(zip(calls, want)) if a != b), min(len(calls), len(want)))
        fails.append((None, "delivery differs at call #%d: shim saw %s, client meant %s" % (
            k, calls[k] if k < len(calls) else "<nothing>", want[k] if k < len(want) else "<nothing>")))
    if case.meta.get("stale"):
        if result_of(obs) == "ok":
            fails.append((None, "an execution without types of a freshly prepared statement was accepted"))
    elif result_of(obs) != "ok":
        fails.append((None, "run_on returned %s" % result_of(obs)))
    return fails


def gen(ctx, with_long):
    cases = []
    i = 0
    if not with_long:
        for nexec in range(1, 5 if not ctx.quick() else 4):
            for plan in itertools.product([(0, True), (0, False), (1, True), (1, False)], repeat=nexec):
                i += 1
                cases.append(history_case(ctx, "h_%d" % i, plan=list(plan)))
    for _ in range(100 if ctx.quick() else 1500):
        i += 1
        cases.append(history_case(ctx, "h_%d" % i, with_long=with_long, lim=ctx.rng.choice([U24_MAX, U24_MAX, 6, 64])))
    if not with_long:
        for _ in range(12 if ctx.quick() else 200):
            i += 1
            cases.append(history_case(ctx, "h_%d" % i, stale=True))
    return cases


def run(ctx):
    ctx.corr["exhaustive"] = True
    # a batch with long data in between: what an execution that received long data leaves behind must not
    # disturb the types a later execution reuses
    extra = gen(ctx, True)[:(25 if ctx.quick() else 400)]
    for c in extra:
        c.id = "l" + c.id
    ctx.diff_conn(gen(ctx, False) + extra, oracle=oracle, nontrivial=lambda c, o: c.meta["reuse"],
                  classify=lambda c, o: ["reuse" if c.meta["reuse"] else "rebind_only", "lim_%s" % (c.lim if c.lim < 1000 else "real")])
