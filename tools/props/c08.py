"""C08: prepared-statement parameters are decoded to exactly what the client bound."""
from .common import *
from . import progs
import struct, itertools

RULE = ("COM_STMT_EXECUTE blocks built by the scripted client: parameter counts 0..20 exhaustively plus sampled up to 300, "
        "EVERY NULL pattern for n <= 8, every type code ColumnType::try_from accepts x unsigned flag, every legal length "
        "form of DATE/DATETIME/TIME (0,4,7,11 / 0,8,12), boundary and random values; the shim pulls all parameters and "
        "converts each to the matching Rust type; oracle: count, type codes, raw values and converted values equal what "
        "the client encoded; non-trivial = at least one parameter; distinct = distinct case text")
ASSUMPTIONS = ["f32<->f64 conversions of FLOAT parameters are exact (oracle supplied by the harness)",
               "the zero DATE/DATETIME (length 0) has no chrono value: only raw delivery is claimed for it"]

INT_W = {1: 1, 2: 2, 13: 2, 3: 4, 9: 4, 8: 8}


BIG = [False]      # set while generating the cases that may contain parameters of 64 KiB and more


def rand_param(rng, allow=None):
    """returns (type, unsigned, encoded bytes, expected inner text, conv name, expected conv text)"""
    ty = rng.choice(allow or [1, 2, 13, 3, 9, 8, 4, 5, 10, 12, 7, 11, 6] + BYTES_TYPES)
    uns = rng.random() < 0.5
    if ty in INT_W:
        w = INT_W[ty]
        lo, hi = (0, 2**(8 * w) - 1) if uns else (-2**(8 * w - 1), 2**(8 * w - 1) - 1)
        v = rng.choice([lo, hi, 0, 1, lo + 1, hi - 1, rng.randint(lo, hi)])
        enc = v.to_bytes(w, "little", signed=not uns)
        inner = ("uint:%d" if uns else "int:%d") % v
        conv = {1: "u8", 2: "u16", 4: "u32", 8: "u64"}[w] if uns else {1: "i8", 2: "i16", 4: "i32", 8: "i64"}[w]
        return ty, uns, enc, inner, conv, str(v)
    if ty == 4:
        bits = rng.choice([0, 0x3f800000, 0x40490fdb, 0x7f7fffff, 1, 0x80000000, rng.getrandbits(32)])
        if (bits >> 23) & 0xff == 0xff:
            bits = 0x3f800000
        f = struct.unpack("<f", struct.pack("<I", bits))[0]
        b64 = struct.unpack("<Q", struct.pack("<d", f))[0]
        return ty, uns, struct.pack("<I", bits), "double:%016x" % b64, "f32", "%08x" % bits
    if ty == 5:
        bits = rng.getrandbits(64)
        if (bits >> 52) & 0x7ff == 0x7ff:
            bits = 0x3ff0000000000000
        return ty, uns, struct.pack("<Q", bits), "double:%016x" % bits, "f64", "%016x" % bits
    if ty in BYTES_TYPES:
        n = rng.choice([0, 1, 3, 250, 251, 300, 300, 65535, 65536, 70000] if BIG[0] else [0, 1, 3, 250, 251, 300])
        b = bytes(rng.choice(b"ab\x00\xff") for _ in range(n)) if (rng.random() < 0.5 and n < 1000) else b"x" * n
        asstr = all(c < 128 for c in b)
        return ty, uns, lenenc_str(b), "bytes:" + b.hex(), ("str" if asstr and rng.random() < 0.5 else "bytes"), b.hex()
    if ty == 10:
        y, m, d = progs.rand_date(rng)
        if y == 0:
            y = 1; d = min(d, progs.dim(y, m))
        form = rng.choice([0, 4, 4, 4])
        if form == 0:
            return ty, uns, b"\x00", "date:", "none", None
        raw = struct.pack("<HBB", y, m, d)
        return ty, uns, b"\x04" + raw, "date:" + raw.hex(), "date", "%d:%d:%d" % (y, m, d)
    if ty in (12, 7):
        y, m, d = progs.rand_date(rng)
        if y == 0:
            y = 1; d = min(d, progs.dim(y, m))
        h, mi, s, us = rng.randint(0, 23), rng.randint(0, 59), rng.randint(0, 59), rng.choice([1, 999999, rng.randint(1, 999999)])
        form = rng.choice([0, 4, 7, 11, 11])
        if form == 0:
            return ty, uns, b"\x00", "datetime:", "none", None
        if form == 4:
            raw = struct.pack("<HBB", y, m, d)
            return ty, uns, b"\x04" + raw, "datetime:" + raw.hex(), "datetime", "%d:%d:%d:0:0:0:0" % (y, m, d)
        if form == 7:
            raw = struct.pack("<HBBBBB", y, m, d, h, mi, s)
            return ty, uns, b"\x07" + raw, "datetime:" + raw.hex(), "datetime", "%d:%d:%d:%d:%d:%d:0" % (y, m, d, h, mi, s)
        raw = struct.pack("<HBBBBBI", y, m, d, h, mi, s, us)
        return ty, uns, b"\x0b" + raw, "datetime:" + raw.hex(), "datetime", "%d:%d:%d:%d:%d:%d:%d" % (y, m, d, h, mi, s, us * 1000)
    if ty == 11:
        days, h, mi, s, us = rng.choice([0, 1, 34, 1000, 178956970, 178956971, 2**31 - 1, 2**31, 2**32 - 1]), rng.randint(0, 23), rng.randint(0, 59), rng.randint(0, 59), rng.choice([1, 999999, rng.randint(1, 999999)])
        form = rng.choice([0, 8, 12, 12])
        if form == 0:
            return ty, uns, b"\x00", "time:", "dur", "0:0"
        secs = days * 86400 + h * 3600 + mi * 60 + s
        if form == 8:
            raw = struct.pack("<BIBBB", 0, days, h, mi, s)
            return ty, uns, b"\x08" + raw, "time:" + raw.hex(), "dur", "%d:0" % secs
        raw = struct.pack("<BIBBBI", 0, days, h, mi, s, us)
        return ty, uns, b"\x0c" + raw, "time:" + raw.hex(), "dur", "%d:%d" % (secs, us * 1000)
    if ty == 6:
        return ty, uns, b"", "null", "none", None
    raise AssertionError(ty)


def exec_case(ctx, cid, n, nulls=None, lim=U24_MAX, allow=None):
    rng = ctx.rng
    ps = [rand_param(rng, allow) for _ in range(n)]
    nulls = list(nulls) if nulls is not None else [rng.random() < 0.2 for _ in range(n)]
    vals = [p[2] for p, isnull in zip(ps, nulls) if not isnull]
    block = exec_block(nulls, [(p[0], p[1]) for p in ps], vals)
    convs = ",".join("none" if isnull else p[4] for p, isnull in zip(ps, nulls)) or "-"
    pcols = progs.cols_tok([dict(table=b"", name=b"?", type=p[0], flags=0) for p in ps])
    c = mk_case(cid, [("prepare", cmd_prepare(b"p")), ("execute", cmd_execute(7, block)), ("ping", cmd_ping())],
                ["p reply 7 %s 0" % pcols, "x all %s done 0 0" % convs], lim=lim, chunks=[rng.choice([1, 13, 2048])])
    exp = ["execute|7"]
    for p, isnull in zip(ps, nulls):
        if isnull:
            exp.append("param|%d|null" % p[0])
        else:
            exp.append("param|%d|%s" % (p[0], p[3]))
            if p[4] != "none" and p[5] is not None:
                exp.append("conv|" + p[5])
    c.meta["expect_calls"] = exp
    return c


def oracle(case, obs):
    calls = [x for x in calls_of(obs) if x.startswith(("execute|", "param|", "conv|"))]
    fails = []
    if calls != case.meta["expect_calls"]:
        k = next((i for i, (a, b) in enumerate(zip(calls, case.meta["expect_calls"])) if a != b), min(len(calls), len(case.meta["expect_calls"])))
        fails.append((None, "parameter delivery differs at #%d: shim saw %s, client bound %s" % (
            k, calls[k] if k < len(calls) else "<nothing>", case.meta["expect_calls"][k] if k < len(case.meta["expect_calls"]) else "<nothing>")))
    if result_of(obs) != "ok":
        fails.append((None, "run_on returned %s" % result_of(obs)))
    return fails


def run(ctx):
    rng = ctx.rng
    cases = []
    i = 0
    for n in list(range(0, 21)) + [31, 32, 33, 64, 65, 300]:
        for _ in range(2 if ctx.quick() else 12):
            i += 1
            cases.append(exec_case(ctx, "c08_%d" % i, n, lim=rng.choice([U24_MAX, U24_MAX, 11])))
    for n in range(1, (6 if ctx.quick() else 9)):
        for pat in itertools.product([False, True], repeat=n):
            i += 1
            cases.append(exec_case(ctx, "c08_%d" % i, n, nulls=pat, allow=[3, 8, 253, 12]))
    # every type code with both flags, alone
    for ty in [1, 2, 13, 3, 9, 8, 4, 5, 10, 12, 7, 11, 6] + BYTES_TYPES:
        for _ in range(3 if ctx.quick() else 10):
            i += 1
            cases.append(exec_case(ctx, "c08_%d" % i, 1, nulls=[False], allow=[ty]))
    # byte-string parameters in every length-encoding class (1-, 3-, 4- and 9-byte prefixes), each followed by
    # further parameters that would be decoded out of phase if the prefix were misread
    BIG[0] = True
    for _ in range(8 if ctx.quick() else 60):
        i += 1
        cases.append(exec_case(ctx, "c08_%d" % i, rng.randint(2, 4), nulls=[False] * 4, allow=[253, 252, 3]))
    BIG[0] = False
    huge = []
    if not ctx.quick():
        for n in (2**24 - 1, 2**24, 2**24 + 5):
            i += 1
            blob = b"y" * n
            block = exec_block([False, False], [(252, False), (3, False)], [lenenc_str(blob), le(77, 4)])
            c = mk_case("c08_%d" % i, [("prepare", cmd_prepare(b"p")), ("execute", cmd_execute(7, block)), ("ping", cmd_ping())],
                        ["p reply 7 %s 0" % progs.cols_tok([dict(table=b"", name=b"?", type=252, flags=0)] * 2), "x all none,none done 0 0"],
                        chunks=[1 << 20], cap=1 << 26)
            c.meta["expect_calls"] = ["execute|7", "param|252|bytes:" + blob.hex(), "param|3|int:77"]
            huge.append(c)      # too large for the list-based model: implementation vs specification only
    # several executions of one statement, each binding its own (different) types
    from . import c16
    multi = [c16.history_case(ctx, "c08m_%d" % j, plan=[(j % 2, True)] * rng.randint(2, 4)) for j in range(20 if ctx.quick() else 300)]
    ctx.diff_conn(multi, tag="C08multi", oracle=c16.oracle, nontrivial=lambda c, o: True, classify=lambda c, o: ["multi_execution"])
    if huge:
        ctx.impl_only(huge, oracle=oracle, tag="C08huge")
    ctx.diff_conn(cases, oracle=oracle, nontrivial=lambda c, o: len(c.meta["expect_calls"]) > 1,
                  classify=lambda c, o: ["params_%d" % min(len([x for x in c.meta["expect_calls"] if x.startswith("param")]), 21)] +
                                        list({"conv_" + x.split("|")[0] for x in c.meta["expect_calls"]}))
