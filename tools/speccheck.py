"""Cross-validation of the run-time oracle: the Coq specification's client (Spec/Frame.v deframe,
Spec/Client.v c_response / c_prepare_ok / c_ok / c_err / c_greeting, extracted, driver `spec` mode) is
run over the bytes the REAL server emitted and must decode them exactly as tools/pyclient.py does."""
import os
import build, pyclient
from pyclient import Bad

KIND = {"query": "q", "execute": "x", "prepare": "p", "init": "o", "ping": "o", "fieldlist": "f"}


def col_str(c):
    return "%s/%s/%d/%d" % (c["table"].hex(), c["name"].hex(), c["type"], c["flags"])


def cell_str(v, binary):
    if v is None:
        return "N"
    if not binary:
        return "T" + v.hex()
    k, x = v
    if k == "int":
        return "i%d" % x
    if k == "f32":
        return "f%08x" % x
    if k == "f64":
        return "d%016x" % x
    if k == "bytes":
        return "b" + x.hex()
    if k == "date":
        return "D" + ":".join(str(a) for a in x)
    if k == "time":
        return "t%d:" % (1 if x[0] else 0) + ":".join(str(a) for a in x[1:])
    return "?"


def unit_str(u, binary):
    if u[0] == "ok":
        return "ok %d %d" % (u[1], u[2])
    if u[0] == "err":
        return "err %d %s %s" % (u[1], u[2].hex(), u[3].hex())
    cols = ";".join(col_str(c) for c in u[1])
    rows = ";".join(",".join(cell_str(v, binary) for v in r) for r in u[2])
    if u[0] == "rows":
        return "rows [%s] [%s]" % (cols, rows)
    return "rows_err [%s] [%s] %d %s %s" % (cols, rows, u[3], u[4].hex(), u[5].hex())


def py_render(case, obs):
    """what pyclient decodes, in the driver's canonical form; None if pyclient rejects"""
    out = b"".join(bytes.fromhex(l[2:]) for l in obs if l.startswith("w|"))
    lines = []
    try:
        msgs = pyclient.server_messages(out, case.lim)
        lines.append("seqs|" + ",".join("%d-%d" % (m[0], m[1][-1]) for m in msgs))
        payloads = [m[2] for m in msgs]
        k = 0
        g = pyclient.p_greeting(payloads[k]); k += 1
        lines.append("g|10 %d" % g["caps"])
        kinds = ["a"] + [KIND[c[0]] for c in case.meta["cmds"] if c[0] in KIND]
        for kd in kinds:
            if kd in ("a", "o"):
                m = payloads[k]; k += 1
                if m and m[0] == 0:
                    ok = pyclient.p_ok(m); lines.append("%s|ok %d %d %d" % (kd, ok["rows"], ok["id"], ok["status"]))
                else:
                    e = pyclient.p_err(m); lines.append("%s|err %d %s %s" % (kd, e["code"], e["state"].hex(), e["msg"].hex()))
            elif kd in ("q", "x"):
                units, k = pyclient.p_response(payloads, k, kd == "x")
                lines.append("%s|%s" % (kd, " ## ".join(unit_str(u, kd == "x") for u in units)))
            elif kd == "p":
                if payloads[k] and payloads[k][0] == 0xff:
                    e = pyclient.p_err(payloads[k]); k += 1
                    lines.append("p|err %d %s %s" % (e["code"], e["state"].hex(), e["msg"].hex()))
                else:
                    d, k = pyclient.p_prepare_ok(payloads, k)
                    lines.append("p|prep %d [%s] [%s]" % (d["id"], ";".join(col_str(c) for c in d["params"]), ";".join(col_str(c) for c in d["cols"])))
            elif kd == "f":
                defs = []
                while True:
                    m = payloads[k]; k += 1
                    if m and m[0] == 0xfe and len(m) < 9:
                        pyclient.p_eof(m); break
                    defs.append(pyclient.p_coldef(m))
                lines.append("f|[%s]" % ";".join(col_str(c) for c in defs))
        lines.append("left|%d" % (len(payloads) - k))
    except (Bad, IndexError):
        return None
    return lines


def cross_check(ctx, cases, io, tag):
    """returns number of cases compared; records a violation on disagreement"""
    todo = []
    for c in cases:
        obs = io.get(c.id)
        if not obs or obs[-1] != "result|ok" or "cmds" not in getattr(c, "meta", {}):
            continue
        if any(k[0] in ("raw", "rawbytes") for k in c.meta["cmds"]):
            continue
        pr = py_render(c, obs)
        if pr is None:
            continue
        todo.append((c, obs, pr))
    if not todo:
        return 0
    d = os.path.join(build.BUILD, "run_" + tag)
    os.makedirs(d, exist_ok=True)
    inp = os.path.join(d, "spec_in.txt"); outp = os.path.join(d, "spec_out.txt")
    with open(inp, "w") as f:
        for c, obs, pr in todo:
            out = "".join(l[2:] for l in obs if l.startswith("w|"))
            kinds = ",".join(["g", "a"] + [KIND[k[0]] for k in c.meta["cmds"] if k[0] in KIND])
            f.write("%s|%d|%s|%s\n" % (c.id, c.lim, kinds, out))
    rc, o = build.sh([build.driver_bin(), "spec", inp, outp], timeout=3000)
    if rc != 0:
        raise RuntimeError("driver spec failed: " + o[-1000:])
    got = {}
    for l in open(outp):
        cid, _, rest = l.rstrip("\n").partition("|")
        got.setdefault(cid, []).append(rest)
    bad = 0
    for c, obs, pr in todo:
        if got.get(c.id) != pr:
            bad += 1
            if bad <= 2:
                a = got.get(c.id, ["<none>"])
                k = next((i for i, (x, y) in enumerate(zip(a, pr)) if x != y), min(len(a), len(pr)))
                ctx.violation("the Coq specification client and the Python oracle decode the server's bytes differently (case %s, reply %d):\n coq   : %s\n python: %s" %
                              (c.id, k, (a[k] if k < len(a) else "<end>")[:300], (pr[k] if k < len(pr) else "<end>")[:300]),
                              c.render(), name="spec", found=False)
    ctx.corr["hist"]["spec_client_cross_checked"] = ctx.corr["hist"].get("spec_client_cross_checked", 0) + len(todo)
    return len(todo)
