#!/usr/bin/env python3
"""Translator: regenerate coq/Gen/*.v from /repo's current sources.

Reads   /repo/src/errorcodes.rs  (enum ErrorKind, From<u16>, sqlstate())
        /repo/src/packet.rs      (U24_MAX, the fragment tag in fullpacket)
Writes  coq/Gen/ErrorCodes.v, coq/Gen/Consts.v  (only when the content changed)
Exit 0 on success; exit 3 with a message when the sources no longer have the declarative
shape this translator understands (the tie is then broken and the caller reports it).
"""
import re, sys, os, json

REPO = os.environ.get("VERIF_REPO", "/repo")
OUT = os.path.join(os.path.dirname(os.path.abspath(__file__)), "..", "coq", "Gen")


def strip_comments(src):
    out = []
    i = 0
    n = len(src)
    while i < n:
        if src.startswith("//", i):
            j = src.find("\n", i)
            i = n if j < 0 else j
        elif src.startswith("/*", i):
            depth = 1
            i += 2
            while i < n and depth:
                if src.startswith("/*", i):
                    depth += 1; i += 2
                elif src.startswith("*/", i):
                    depth -= 1; i += 2
                else:
                    i += 1
        elif src[i] == '"':
            j = i + 1
            while j < n and src[j] != '"':
                j += 2 if src[j] == "\\" else 1
            out.append(src[i:j + 1]); i = j + 1
        else:
            out.append(src[i]); i += 1
    return "".join(out)


def tokens(src):
    return re.findall(r'b"[^"]*"|"[^"]*"|[A-Za-z_][A-Za-z0-9_]*|\d[\d_]*(?:u16|u8|usize)?|=>|::|[{}()\[\],;=|&<>!#.:*+\-/]', src)


class Unsupported(Exception):
    pass


def fail(msg):
    raise Unsupported(msg)


def block_after(toks, start):
    """index range (a,b) of the tokens inside the brace block that opens at/after start"""
    i = start
    while toks[i] != "{":
        i += 1
    depth = 0
    a = i + 1
    while True:
        if toks[i] == "{":
            depth += 1
        elif toks[i] == "}":
            depth -= 1
            if depth == 0:
                return a, i
        i += 1


def find_seq(toks, seq, start=0):
    n = len(seq)
    for i in range(start, len(toks) - n + 1):
        if toks[i:i + n] == seq:
            return i
    return -1


def parse_errorcodes(path):
    toks = tokens(strip_comments(open(path).read()))
    # enum
    i = find_seq(toks, ["pub", "enum", "ErrorKind"])
    if i < 0:
        fail("enum ErrorKind not found")
    a, b = block_after(toks, i)
    body = toks[a:b]
    variants = []
    j = 0
    while j < len(body):
        if body[j] == "#":  # attribute
            while body[j] != "]":
                j += 1
            j += 1
            continue
        if j + 3 < len(body) + 1 and re.match(r"[A-Za-z_]", body[j]) and body[j + 1] == "=":
            num = body[j + 2].replace("_", "")
            if not num.isdigit():
                fail("enum discriminant not a literal: %s" % body[j + 2])
            variants.append((body[j], int(num)))
            j += 3
            if j < len(body) and body[j] == ",":
                j += 1
        else:
            fail("unexpected token in enum ErrorKind: %r" % body[j:j + 4])
    # From<u16>
    i = find_seq(toks, ["impl", "From", "<", "u16", ">", "for", "ErrorKind"])
    if i < 0:
        fail("impl From<u16> for ErrorKind not found")
    a, b = block_after(toks, i)       # impl block
    k = find_seq(toks, ["match", "x"], a)
    a2, b2 = block_after(toks, k)
    body = toks[a2:b2]
    from_arms = []
    wildcard_panics = False
    j = 0
    while j < len(body):
        t = body[j]
        if re.match(r"\d", t):
            code = int(re.sub(r"_?u16$", "", t).replace("_", ""))
            if body[j + 1] != "=>":
                fail("From<u16>: expected => after %s" % t)
            j += 2
            braced = body[j] == "{"
            if braced:
                j += 1
            if body[j:j + 2] != ["ErrorKind", "::"]:
                fail("From<u16>: arm %d is not `ErrorKind::NAME`" % code)
            from_arms.append((code, body[j + 2]))
            j += 3
            if braced:
                if body[j] != "}":
                    fail("From<u16>: arm %d: unexpected block" % code)
                j += 1
            if j < len(body) and body[j] == ",":
                j += 1
        elif t == "_":
            if body[j + 1] != "=>" or body[j + 2] != "panic":
                fail("From<u16>: wildcard arm is not a panic")
            wildcard_panics = True
            break
        else:
            fail("From<u16>: unexpected token %r" % body[j:j + 4])
    if not wildcard_panics:
        fail("From<u16>: no wildcard arm")
    # sqlstate
    i = find_seq(toks, ["fn", "sqlstate"])
    if i < 0:
        fail("fn sqlstate not found")
    k = find_seq(toks, ["match", "self"], i)
    a3, b3 = block_after(toks, k)
    body = toks[a3:b3]
    state_arms = []
    j = 0
    while j < len(body):
        names = []
        while True:
            if body[j:j + 2] != ["ErrorKind", "::"]:
                fail("sqlstate: unexpected token %r" % body[j:j + 4])
            names.append(body[j + 2])
            j += 3
            if body[j] == "|":
                j += 1
                continue
            break
        if body[j] != "=>":
            fail("sqlstate: expected =>")
        lit = body[j + 1]
        m = re.fullmatch(r'b"([^"\\]*)"', lit)
        if not m:
            fail("sqlstate: arm value is not a plain byte-string literal: %s" % lit)
        state_arms.append((names, m.group(1)))
        j += 2
        if j < len(body) and body[j] == ",":
            j += 1
    return variants, from_arms, state_arms


def parse_packet(path):
    """U24_MAX and the literal fragment tag; looked for in packet.rs first, then in any other file of
    src/ (a constant that moved to another module is still the same constant)"""
    srcdir = os.path.dirname(path)
    files = [path] + sorted(os.path.join(dp, f) for dp, _, fn in os.walk(srcdir) for f in fn
                            if f.endswith(".rs") and os.path.join(dp, f) != path)
    consts, tags = [], []
    for f in files:
        if not os.path.exists(f):
            continue
        src = strip_comments(open(f).read())
        consts += re.findall(r"const\s+U24_MAX\s*:\s*\w+\s*=\s*([0-9_]+|0[xX][0-9a-fA-F_]+)\s*;", src)
        tags += re.findall(r"tag\(&\[\s*(0x[0-9a-fA-F]+|\d+)\s*,\s*(0x[0-9a-fA-F]+|\d+)\s*,\s*(0x[0-9a-fA-F]+|\d+)\s*\]\)", src)
    if len(consts) != 1:
        fail("expected exactly one `const U24_MAX: <int type> = <literal>;` in src/ (found %d)" % len(consts))
    u24 = int(consts[0].replace("_", ""), 0)
    if len(tags) > 1:
        fail("more than one literal 3-byte tag(&[..]) in src/")
    if len(tags) == 1:
        tag, src_of_tag = [int(x, 0) for x in tags[0]], "literal"
    else:
        # the code recognises a maximal fragment without a literal tag (e.g. by comparing the decoded
        # length with U24_MAX): there is no second constant that could disagree with U24_MAX
        tag, src_of_tag = [u24 & 255, (u24 >> 8) & 255, (u24 >> 16) & 255], "derived from U24_MAX (no literal tag in src/)"
    return u24, tag, src_of_tag


def coq_string(s):
    return '"' + s.replace('"', '""') + '"'


def coq_bytes(s):
    return "[" + "; ".join("x%02x" % ord(c) for c in s) + "]"


def write_if_changed(path, content):
    try:
        if open(path).read() == content:
            return False
    except FileNotFoundError:
        pass
    os.makedirs(os.path.dirname(path), exist_ok=True)
    with open(path, "w") as f:
        f.write(content)
    return True


def main():
    """the two tables are translated independently: a source file whose shape is no longer understood
    breaks the tie only for the properties that rest on its table (exit 3, message names the part)"""
    problems = []
    for part, fn in (("errorcodes", gen_errorcodes), ("packet", gen_consts)):
        try:
            fn()
        except Unsupported as e:
            problems.append("%s: %s" % (part, e))
        except Exception as e:
            problems.append("%s: translator crashed: %r" % (part, e))
    if problems:
        for pr in problems:
            print("gen_tables: UNSUPPORTED " + pr, file=sys.stderr)
        sys.exit(3)


SUMMARY = {}


def gen_errorcodes():
    variants, from_arms, state_arms = parse_errorcodes(os.path.join(REPO, "src/errorcodes.rs"))
    idx = {}
    for i, (name, code) in enumerate(variants):
        if name in idx:
            fail("duplicate variant " + name)
        idx[name] = i
    for code, name in from_arms:
        if name not in idx:
            fail("From<u16> arm names unknown variant " + name)
    for names, st in state_arms:
        for nme in names:
            if nme not in idx:
                fail("sqlstate arm names unknown variant " + nme)
    L = []
    L.append("(* GENERATED by tools/gen_tables.py from /repo/src/errorcodes.rs -- do not edit *)")
    L.append("From Coq Require Import List NArith String.")
    L.append("From Coq.Strings Require Import Byte.")
    L.append("Import ListNotations.")
    L.append("Open Scope N_scope.")
    L.append("(* enum ErrorKind: (index of the variant, name, discriminant) in declaration order *)")
    L.append("Definition kinds : list (N * string * N) := [")
    L.append(";\n".join("  (%d, %s%%string, %d)" % (i, coq_string(n), c) for i, (n, c) in enumerate(variants)))
    L.append("].")
    L.append("(* impl From<u16>: arms in source order (code, variant index); the wildcard arm panics *)")
    L.append("Definition from_arms : list (N * N) := [")
    L.append(";\n".join("  (%d, %d)" % (c, idx[n]) for c, n in from_arms))
    L.append("].")
    L.append("(* fn sqlstate: arms in source order (variant indexes, state bytes) *)")
    L.append("Definition state_arms : list (list N * list byte) := [")
    L.append(";\n".join("  ([%s], %s)" % ("; ".join(str(idx[n]) for n in names), coq_bytes(st)) for names, st in state_arms))
    L.append("].")
    ch1 = write_if_changed(os.path.join(OUT, "ErrorCodes.v"), "\n".join(L) + "\n")
    SUMMARY.update({"variants": len(variants), "from_arms": len(from_arms), "state_arms": len(state_arms),
                    "states": len(set(s for _, s in state_arms)), "errorcodes_changed": ch1})


def gen_consts():
    u24, tag, tag_src = parse_packet(os.path.join(REPO, "src/packet.rs"))
    C = ["(* GENERATED by tools/gen_tables.py from /repo/src/packet.rs -- do not edit *)",
         "From Coq Require Import List NArith.", "Import ListNotations.", "Open Scope N_scope.",
         "Definition U24_MAX : N := %d." % u24,
         "Definition fragment_tag : list N := [%s]." % "; ".join(str(x) for x in tag), ""]
    ch2 = write_if_changed(os.path.join(OUT, "Consts.v"), "\n".join(C))
    SUMMARY.update({"U24_MAX": u24, "tag": tag, "tag_source": tag_src, "consts_changed": ch2})
    with open(os.path.join(OUT, "summary.json"), "w") as f:
        json.dump(SUMMARY, f)
    print(json.dumps(SUMMARY))


if __name__ == "__main__":
    main()
