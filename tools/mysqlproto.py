"""Client-side encoders and case-file construction (the scripted MySQL client of the
correspondence harness).  Everything here plays the role of a conformant (or deliberately
non-conformant) client; nothing here is part of what is verified."""
import struct

U24_MAX = 0xFFFFFF


def hexspec(b: bytes) -> str:
    """compact hexspec: runs of >= 24 equal bytes become r<count>x<hh>"""
    if not b:
        return "-"
    out = []
    i = 0
    n = len(b)
    lit = bytearray()
    while i < n:
        j = i
        while j < n and b[j] == b[i]:
            j += 1
        if j - i >= 24:
            if lit:
                out.append(lit.hex()); lit = bytearray()
            out.append("r%dx%02x" % (j - i, b[i]))
        else:
            lit += b[i:j]
        i = j
    if lit:
        out.append(lit.hex())
    return "+".join(out)


def unhexspec(s: str) -> bytes:
    if s == "-":
        return b""
    out = bytearray()
    for seg in s.split("+"):
        if seg.startswith("r"):
            cnt, hh = seg[1:].split("x")
            out += bytes([int(hh, 16)]) * int(cnt)
        else:
            out += bytes.fromhex(seg)
    return bytes(out)


def le(n, width):
    return int(n).to_bytes(width, "little")


def lenenc(x):
    if x < 251:
        return bytes([x])
    if x < 65536:
        return b"\xfc" + le(x, 2)
    if x < 16777216:
        return b"\xfd" + le(x, 3)
    return b"\xfe" + le(x, 8)


def lenenc_str(b):
    return lenenc(len(b)) + b


def frame(payload: bytes, seq=0, lim=U24_MAX) -> bytes:
    """MySQL framing as a client does it: maximal packets, then a shorter (possibly empty) one"""
    out = bytearray()
    i = 0
    while len(payload) - i >= lim:
        out += le(lim, 3) + bytes([seq & 0xFF]) + payload[i:i + lim]
        i += lim
        seq += 1
    rest = payload[i:]
    out += le(len(rest), 3) + bytes([seq & 0xFF]) + rest
    return bytes(out)


def npackets(length, lim=U24_MAX):
    return length // lim + 1


def deframe(data: bytes, lim=U24_MAX):
    """client-side reassembly: list of (first_seq, seqs, payload); raises ValueError if malformed"""
    msgs = []
    i = 0
    cur = None
    while i < len(data):
        if i + 4 > len(data):
            raise ValueError("truncated header at %d" % i)
        ln = int.from_bytes(data[i:i + 3], "little")
        seq = data[i + 3]
        if i + 4 + ln > len(data):
            raise ValueError("truncated packet at %d" % i)
        body = data[i + 4:i + 4 + ln]
        i += 4 + ln
        if cur is None:
            cur = [seq, [seq], bytearray(body)]
        else:
            cur[1].append(seq); cur[2] += body
        if ln < lim:
            msgs.append((cur[0], cur[1], bytes(cur[2]))); cur = None
    if cur is not None:
        raise ValueError("message not terminated by a short packet")
    return msgs


CLIENT_PROTOCOL_41 = 0x200
CLIENT_SSL = 0x800
DEFAULT_CAPS = 0x203fa685   # what the mysql crate sends (no SSL)


def hs41(user: bytes, caps=DEFAULT_CAPS, tail=b"\x00", maxps=0x01000000, coll=0x21, filler=b"\x00" * 23):
    assert caps & CLIENT_PROTOCOL_41
    return le(caps & 0xFFFFFFFF, 4) + le(maxps, 4) + bytes([coll]) + filler + user + b"\x00" + tail


def ssl_request(caps=DEFAULT_CAPS | CLIENT_SSL, maxps=0x01000000, coll=0x21):
    return le(caps & 0xFFFFFFFF, 4) + le(maxps, 4) + bytes([coll]) + b"\x00" * 23


def hs320(user: bytes, caps=0x0005, tail=b"", maxps=0x010000):
    assert not (caps & CLIENT_PROTOCOL_41)
    return le(caps & 0xFFFF, 2) + le(maxps, 3) + user + b"\x00" + tail


def cmd_query(text): return b"\x03" + text
def cmd_field_list(arg): return b"\x04" + arg
def cmd_init(schema): return b"\x02" + schema
def cmd_prepare(text): return b"\x16" + text
def cmd_close(stmt): return b"\x19" + le(stmt, 4)
def cmd_ping(): return b"\x0e"
def cmd_quit(): return b"\x01"
def cmd_execute(stmt, block=b"", flags=0, iters=1): return b"\x17" + le(stmt, 4) + bytes([flags]) + le(iters, 4) + block
def cmd_long_data(stmt, param, data): return b"\x18" + le(stmt, 4) + le(param, 2) + data


def exec_block(nulls, types, values):
    """COM_STMT_EXECUTE parameter block.  nulls: list of bool (one per declared parameter);
    types: None (new-params-bound flag = 0) or list of (type_code, unsigned);
    values: list of already-encoded value bytes for the non-NULL parameters (in order)."""
    n = len(nulls)
    if n == 0:
        return b""
    bm = bytearray((n + 7) // 8)
    for i, isnull in enumerate(nulls):
        if isnull:
            bm[i // 8] |= 1 << (i % 8)
    out = bytes(bm)
    if types is None:
        out += b"\x00"
    else:
        out += b"\x01" + b"".join(bytes([t, 0x80 if u else 0]) for t, u in types)
    return out + b"".join(values)


# ---- column type codes ----
T = dict(DECIMAL=0, TINY=1, SHORT=2, LONG=3, FLOAT=4, DOUBLE=5, NULL=6, TIMESTAMP=7, LONGLONG=8, INT24=9,
         DATE=10, TIME=11, DATETIME=12, YEAR=13, NEWDATE=14, VARCHAR=15, BIT=16, TIMESTAMP2=17, DATETIME2=18,
         TIME2=19, TYPED_ARRAY=20, UNKNOWN=243, JSON=245, NEWDECIMAL=246, ENUM=247, SET=248, TINY_BLOB=249,
         MEDIUM_BLOB=250, LONG_BLOB=251, BLOB=252, VAR_STRING=253, STRING=254, GEOMETRY=255)
ALL_TYPES = sorted(T.values())
KNOWN_TYPES = [t for t in ALL_TYPES if t != 14]          # accepted by ColumnType::try_from
BYTES_TYPES = [254, 253, 252, 249, 250, 251, 248, 247, 0, 15, 16, 246, 255, 245]
NOT_NULL = 1
UNSIGNED = 32


def col(name=b"c", ty=3, flags=0, table=b""):
    return "%s %s %d %d" % (hexspec(table), hexspec(name), ty, flags)


def cols(cs):
    return "%d %s" % (len(cs), " ".join(cs)) if cs else "0"


class Case:
    def __init__(self, cid, lim=U24_MAX, tls=0, auth="ok", dinit=0):
        self.id = cid
        self.lim = lim
        self.tls = tls
        self.auth = auth
        self.dinit = dinit
        self.reads = []       # list of tokens
        self.fault = "none"
        self.wcap = 0         # the transport accepts at most this many bytes per write (0 = all): short writes
        self.wzero = 0        # from this many output bytes on, write() returns Ok(0) (1 = from the first byte); 0 = never
        self.mfault = None    # fault plan for the model's twin run when its op index differs (same byte offset)
        self.scripts = []     # raw lines: "q ...", "p ...", "x ...", "i ..."
        self.meta = {}        # free-form information for oracles / evidence (not written)

    # ---- stream construction ----
    def send(self, data: bytes, chunks=None):
        """append client bytes; chunks: None = one read (split into <=2048-byte reads)"""
        self.feed(data, chunks)

    def feed(self, data, chunks=None):
        i = 0
        sizes = list(chunks) if chunks else []
        while i < len(data):
            n = sizes.pop(0) if sizes else len(data) - i
            n = max(1, min(n, 2048, len(data) - i))
            self.reads.append("d:" + hexspec(data[i:i + n]))
            i += n

    def eof(self): self.reads.append("eof")
    def read_err(self, k): self.reads.append("err:%d" % k)

    def render(self):
        L = ["case %s" % self.id,
             "cfg lim=%d tls=%d auth=%s dinit=%d" % (self.lim, self.tls, self.auth, self.dinit) + (" wcap=%d" % self.wcap if self.wcap else "") + (" wzero=%d" % self.wzero if self.wzero else ""),
             "reads " + " ".join(self.reads), "fault " + self.fault]
        if self.mfault:
            L.append("mfault " + self.mfault)
        L += self.scripts
        L.append("end")
        return "\n".join(L) + "\n"


def rechunk(stream: bytes, sizes, cap=2048):
    """split a stream into read tokens according to sizes (cycled), each <= 2048"""
    toks = []
    i = 0
    k = 0
    # the model re-parses the whole buffer after every read (as the code does): keep the number of
    # reads of one case bounded
    if sizes and len(stream) / (sum(sizes) / len(sizes)) > 300:
        f = int(len(stream) / 300 / (sum(sizes) / len(sizes))) + 1
        sizes = [x * f for x in sizes]
    while i < len(stream):
        n = sizes[k % len(sizes)] if sizes else len(stream)
        k += 1
        n = max(1, min(n, cap, len(stream) - i))
        toks.append("d:" + hexspec(stream[i:i + n]))
        i += n
    return toks


def std_handshake(user=b"jon", seq=1):
    return frame(hs41(user), seq)
