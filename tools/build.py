"""Build orchestration shared by all checks: translator, Coq make, driver, harness.
Everything is rebuilt from /repo's current working tree; results are cached under /verif/build
(cargo and make are incremental) and guarded by a file lock so that checks may run concurrently."""
import fcntl, hashlib, json, os, subprocess, sys, time

ROOT = os.path.abspath(os.path.join(os.path.dirname(os.path.abspath(__file__)), ".."))
BUILD = os.path.join(ROOT, "build")
COQ = os.path.join(ROOT, "coq")
REPO = os.environ.get("VERIF_REPO", "/repo")
ENV = dict(os.environ, CARGO_NET_OFFLINE="true")
PROD_STATS = {"prod": 0, "hooked": 0}     # cases run on the production / on the hooked build of msql-srv


def _big_stack():
    import resource
    try:
        resource.setrlimit(resource.RLIMIT_STACK, (resource.RLIM_INFINITY, resource.RLIM_INFINITY))
    except Exception:
        pass


def sh(cmd, cwd=None, timeout=3600, env=None):
    # the extracted model recurses non-tail-recursively over long byte lists: give children a big stack
    p = subprocess.run(cmd, cwd=cwd, shell=isinstance(cmd, str), stdout=subprocess.PIPE,
                       stderr=subprocess.STDOUT, timeout=timeout, env=env or ENV, preexec_fn=_big_stack)
    return p.returncode, p.stdout.decode("utf-8", "replace")


class Lock:
    def __enter__(self):
        os.makedirs(BUILD, exist_ok=True)
        self.f = open(os.path.join(BUILD, ".lock"), "w")
        fcntl.flock(self.f, fcntl.LOCK_EX)
        return self

    def __exit__(self, *a):
        fcntl.flock(self.f, fcntl.LOCK_UN)
        self.f.close()


def file_hash(path):
    h = hashlib.sha256()
    with open(path, "rb") as f:
        for blk in iter(lambda: f.read(1 << 20), b""):
            h.update(blk)
    return h.hexdigest()


def repo_fingerprint():
    h = hashlib.sha256()
    for dp, dn, fn in os.walk(os.path.join(REPO, "src")):
        dn.sort()
        for f in sorted(fn):
            p = os.path.join(dp, f)
            h.update(p.encode()); h.update(open(p, "rb").read())
    for f in ("Cargo.toml", "Cargo.lock"):
        p = os.path.join(REPO, f)
        if os.path.exists(p):
            h.update(open(p, "rb").read())
    return h.hexdigest()


def gen_tables():
    rc, out = sh([sys.executable, os.path.join(ROOT, "tools", "gen_tables.py")])
    return rc == 0, out


def coq_make(target=None, jobs=16):
    """full .vo build through coq_makefile; returns (ok, log)"""
    if (not os.path.exists(os.path.join(COQ, "Makefile")) or
            os.path.getmtime(os.path.join(COQ, "Makefile")) < os.path.getmtime(os.path.join(COQ, "_CoqProject"))):
        rc, out = sh("coq_makefile -f _CoqProject -o Makefile", cwd=COQ)
        if rc != 0:
            return False, out
    cmd = "timeout 3000 make -j%d %s" % (jobs, target or "")
    rc, out = sh(cmd, cwd=COQ, timeout=3100)
    return rc == 0, out


def build_driver():
    d = os.path.join(BUILD, "driver")
    os.makedirs(d, exist_ok=True)
    srcs = [os.path.join(COQ, "model.ml"), os.path.join(COQ, "model.mli"), os.path.join(ROOT, "driver", "main.ml")]
    for s in srcs:
        if not os.path.exists(s):
            return False, "missing " + s
    stamp = os.path.join(d, "stamp")
    want = "".join(file_hash(s) for s in srcs)
    if os.path.exists(stamp) and open(stamp).read() == want and os.path.exists(os.path.join(d, "driver")):
        return True, "cached"
    for s in srcs:
        sh(["cp", s, d])
    rc, out = sh("ocamlfind ocamlopt -O2 -w -a -o driver model.mli model.ml main.ml", cwd=d, timeout=1200)
    if rc == 0:
        open(stamp, "w").write(want)
    return rc == 0, out


def build_harness(release=False, prod=False):
    """prod=True: the harness against the PRODUCTION build of msql-srv (cargo feature verif-hooks off)"""
    h = os.path.join(ROOT, "harness")
    lock = os.path.join(h, "Cargo.lock")
    if not os.path.exists(lock):
        sh(["cp", os.path.join(REPO, "Cargo.lock"), lock])
    cmd = "cargo build --offline" + (" --release" if release else "")
    env = None
    if prod:
        cmd += " --no-default-features"
        env = dict(ENV, CARGO_TARGET_DIR=os.path.join(BUILD, "harness-target-prod"))
    rc, out = sh(cmd, cwd=h, timeout=3000, env=env)
    return rc == 0, out


def harness_bin(release=False, prod=False):
    return os.path.join(BUILD, "harness-target-prod" if prod else "harness-target", "release" if release else "debug", "harness")


def driver_bin():
    return os.path.join(BUILD, "driver", "driver")


def ensure_built(release=False, log=None):
    """returns dict(status per stage). Never raises on build failures: the caller decides."""
    res = {}
    t0 = time.time()
    with Lock():
        ok, out = gen_tables()
        res["translator"] = (ok, out[-2000:])
        ok, out = coq_make()
        res["coq"] = (ok, out[-6000:])
        if ok or os.path.exists(os.path.join(COQ, "model.ml")):
            ok2, out2 = build_driver()
            res["driver"] = (ok2, out2[-3000:])
        else:
            res["driver"] = (False, "no extracted model")
        ok3, out3 = build_harness(False)
        res["harness"] = (ok3, out3[-3000:])
        ok5, out5 = build_harness(False, prod=True)
        res["harness_prod"] = (ok5, out5[-3000:])
        if release:
            ok4, out4 = build_harness(True)
            res["harness_release"] = (ok4, out4[-3000:])
            ok6, out6 = build_harness(True, prod=True)
            res["harness_prod_release"] = (ok6, out6[-3000:])
    res["build_s"] = time.time() - t0
    return res
