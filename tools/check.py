#!/usr/bin/env python3
"""./check <property> <quick|thorough> [--replay FILE]

One run of one property check (see DESIGN.md section 3):
  1. regenerate the translated tables, build the Coq development (full .vo), the extracted-model
     driver and the Rust harness against /repo's current working tree (hooks on);
  2. proof obligations: the property's theorem file must compile, its statements must equal the
     pinned ones, `Print Assumptions` must be within the allow-list, no Admitted/Axiom anywhere;
  3. correspondence: generated cases (corpus first) run on the real code (harness) and on the
     model (driver), observations compared line by line; the specification oracle is applied to
     the implementation's output;
  4. on any break, search for a concrete failing input; report VIOLATION (with or without
     `no-failing-input-found`), except for inputs listed in known_findings.json;
  5. write evidence/<property>.json.
"""
import json, os, random, re, subprocess, sys, time, importlib, traceback

HERE = os.path.dirname(os.path.abspath(__file__))
sys.path.insert(0, HERE)
import build
from build import ROOT, BUILD, COQ

EVID = os.path.join(ROOT, "evidence")
ALLOWED_AXIOMS = set()       # target: none.  (Standard-library axioms would be listed here by name.)
FORBIDDEN = re.compile(r"\b(Admitted|admit|Axiom|Axioms|Parameter|Parameters|Conjecture|Hypothesis|Variable\b(?!s?\s*\w+\s*:\s*[^.]*\.\s*\(\*\s*section)|Unset\s+Guard|bypass_check|Admit\s+Obligations|type-in-type|impredicative-set)\b")


def say(*a):
    print(*a, flush=True)


# ------------------------------------------------------------------ proof obligations

def dep_closure(prop):
    """source files Properties/<prop>.v transitively depends on (from coq_makefile's .Makefile.d)"""
    dfile = os.path.join(COQ, ".Makefile.d")
    deps = {}
    if os.path.exists(dfile):
        txt = open(dfile).read().replace("\\\n", " ")
        for line in txt.split("\n"):
            if ":" not in line:
                continue
            lhs, rhs = line.split(":", 1)
            tg = [t for t in lhs.split() if t.endswith(".vo")]
            ds = [d[:-1] for d in rhs.split() if d.endswith(".vo") and not d.startswith("/")]
            for t in tg:
                deps.setdefault(t[:-1], set()).update(ds)
    start = "Properties/%s.v" % prop
    seen = set()
    todo = [start]
    while todo:
        f = todo.pop()
        if f in seen:
            continue
        seen.add(f)
        todo += list(deps.get(f, ()))
    return seen


def scan_forbidden(only=None):
    """grep the development for declarations that would introduce axioms or switch checks off"""
    bad = []
    pat = re.compile(r"^\s*(Admitted|Axiom|Axioms|Parameter|Parameters|Conjecture|Conjectures|Admit Obligations)\b|\badmit\b|Unset\s+Guard\s+Checking|bypass_check|Unset\s+Positivity|Unset\s+Universe\s+Checking|-type-in-type|-impredicative-set")
    for dp, dn, fn in os.walk(COQ):
        for f in fn:
            if not f.endswith(".v"):
                continue
            p = os.path.join(dp, f)
            if only is not None and os.path.relpath(p, COQ) not in only:
                continue
            depth = 0
            for i, line in enumerate(open(p, encoding="utf-8", errors="replace"), 1):
                # strip comments (nesting aware, line-local approximation is enough: track depth)
                out = []
                j = 0
                while j < len(line):
                    if line.startswith("(*", j):
                        depth += 1; j += 2
                    elif line.startswith("*)", j) and depth:
                        depth -= 1; j += 2
                    else:
                        if depth == 0:
                            out.append(line[j])
                        j += 1
                code = "".join(out)
                if pat.search(code):
                    bad.append("%s:%d: %s" % (os.path.relpath(p, ROOT), i, code.strip()))
    # Variables/Hypotheses are only allowed inside Sections
    for dp, dn, fn in os.walk(COQ):
        for f in fn:
            if not f.endswith(".v"):
                continue
            p = os.path.join(dp, f)
            if only is not None and os.path.relpath(p, COQ) not in only:
                continue
            sec = 0
            for i, line in enumerate(open(p, encoding="utf-8", errors="replace"), 1):
                s = line.strip()
                if re.match(r"Section\s+\w+", s):
                    sec += 1
                elif re.match(r"End\s+\w+", s) and sec:
                    sec -= 1
                elif re.match(r"(Variable|Variables|Hypothesis|Hypotheses|Context)\b", s) and sec == 0:
                    bad.append("%s:%d: %s outside a Section" % (os.path.relpath(p, ROOT), i, s))
    return bad


def proof_obligations(prop):
    """compile Properties/<prop>.v's checker file; returns dict with obligations/discharged/problems"""
    res = {"obligations": 0, "discharged": 0, "problems": [], "theorems": [], "assumptions": {}}
    pf = os.path.join(COQ, "Properties", prop + ".v")
    if not os.path.exists(pf):
        res["problems"].append("no property file Properties/%s.v" % prop)
        return res
    src = open(pf).read()
    thms = re.findall(r"^(?:Theorem|Corollary)\s+(\w+)", src, re.M)
    res["theorems"] = thms
    res["obligations"] = len(thms)
    ok, out = build.coq_make("Properties/%s.vo" % prop)
    if not ok:
        m = re.search(r'File "([^"]+)", line (\d+)[^\n]*\n(Error:[^\n]*(?:\n[^\n]+){0,6})', out)
        res["problems"].append("proof no longer checks: " + (m.group(0)[:800] if m else out[-800:]))
        res["failing_file"] = m.group(1) if m else None
        return res
    # pinned statements + assumptions, evaluated fresh every run
    pins = os.path.join(COQ, "Properties", prop + "_pins.v")
    chk = os.path.join(BUILD, "chk_%s.v" % prop)
    with open(chk, "w") as f:
        f.write("From MsqlVerif Require Import Properties.%s.\n" % prop)
        if os.path.exists(pins):
            f.write(open(pins).read() + "\n")
        for t in thms:
            f.write('Print Assumptions %s.\n' % t)
    rc, out = build.sh("timeout 600 coqc -noglob -Q %s MsqlVerif %s" % (COQ, chk), cwd=BUILD)
    if rc != 0:
        res["problems"].append("pinned statements / assumptions check failed: " + out[-1200:])
        return res
    blocks = re.split(r"(?=Closed under the global context|Axioms:)", out)
    closed = out.count("Closed under the global context")
    axioms = re.findall(r"^(\w[\w.']*)\s*:", out.split("Axioms:", 1)[1], re.M) if "Axioms:" in out else []
    extra = [a for a in axioms if a not in ALLOWED_AXIOMS]
    res["assumptions"] = {"closed": closed, "axioms": sorted(set(axioms))}
    if extra:
        res["problems"].append("theorems depend on axioms outside the allow-list: %s" % sorted(set(extra)))
    res["discharged"] = closed if not extra else 0
    if closed + (1 if axioms else 0) < len(thms) and not extra and closed != len(thms):
        res["problems"].append("Print Assumptions output not understood (%d closed of %d)" % (closed, len(thms)))
    closure = dep_closure(prop)
    res["files_in_closure"] = len(closure)
    bad = scan_forbidden(closure if len(closure) > 1 else None)
    if bad:
        res["problems"].append("forbidden declarations: " + "; ".join(bad[:10]))
        res["discharged"] = 0
    return res


# ------------------------------------------------------------------ running cases

REAL_LIMIT = 16777215
PROD_STATS = build.PROD_STATS      # one shared counter (this file is loaded both as __main__ and as `check`)


def run_harness(mode, items, cf, impl, aux, release=False, jobs=16):
    """items: list of (case text, packet limit).  Cases at the real packet limit run on the harness built against
    the PRODUCTION msql-srv (cargo feature verif-hooks off: the code a user gets); only cases with a small limit
    need the build with the hook.  Outputs are concatenated into `impl` / `aux`; `cf` receives all cases."""
    with open(cf, "w") as f:
        for t, _ in items:
            f.write(t)
    for p in (impl, aux):
        if os.path.exists(p):
            os.remove(p)
    parts = (("prod", [t for t, l in items if l == REAL_LIMIT]), ("hooked", [t for t, l in items if l != REAL_LIMIT]))
    worst = 0
    for kind, texts in parts:
        if not texts:
            continue
        PROD_STATS[kind] += len(texts)
        pcf, pimpl, paux = cf + "." + kind, impl + "." + kind, aux + "." + kind
        with open(pcf, "w") as f:
            f.write("".join(texts))
        rc, out = build.sh([build.harness_bin(release, prod=(kind == "prod")), mode, pcf, pimpl, paux, "--jobs", str(jobs)], timeout=3000)
        if rc not in (0, 3):
            raise RuntimeError("harness (%s build) failed rc=%d: %s" % (kind, rc, out[-2000:]))
        worst = max(worst, rc)
        for src, dst in ((pimpl, impl), (paux, aux)):
            if os.path.exists(src):
                with open(dst, "ab") as g:
                    g.write(open(src, "rb").read())
    for p in (impl, aux):
        if not os.path.exists(p):
            open(p, "w").close()
    return worst


def run_conn(cases, tag, release=False, jobs=16):
    """cases: list of mysqlproto.Case.  Returns (impl_obs, model_obs) as dict id -> [lines]"""
    d = os.path.join(BUILD, "run_" + tag)
    os.makedirs(d, exist_ok=True)
    cf = os.path.join(d, "cases.txt")
    impl = os.path.join(d, "impl.obs"); aux = os.path.join(d, "aux.txt"); model = os.path.join(d, "model.obs")
    if os.path.exists(model):
        os.remove(model)
    run_harness("conn", [(c.render(), c.lim) for c in cases], cf, impl, aux, release=release, jobs=jobs)
    io = split_obs(impl)
    # effective read scripts (only when the transport had to split a chunk)
    eff = {cid: [l for l in ls if l.startswith("eff|")] for cid, ls in io.items()}
    if any(eff.values()):
        with open(cf, "w") as f:
            for c in cases:
                e = eff.get(c.id)
                if e:
                    saved = c.reads
                    c.reads = e[0][4:].split(" ")
                    f.write(c.render())
                    c.reads = saved
                else:
                    f.write(c.render())
    # the model runs single-threaded: shard the case file over several driver processes
    txt = open(cf).read()
    blocks = ["case " + b for b in txt.split("\ncase ")]
    blocks[0] = blocks[0][5:] if blocks[0].startswith("case case ") else blocks[0]
    if blocks and blocks[0].startswith("case case "):
        blocks[0] = blocks[0][5:]
    nsh = min(jobs, max(1, len(blocks) // 8))
    procs = []
    for k in range(nsh):
        sf = os.path.join(d, "shard%d.txt" % k); so = os.path.join(d, "shard%d.obs" % k)
        with open(sf, "w") as f:
            for b in blocks[k::nsh]:
                f.write(b if b.endswith("\n") else b + "\n")
        procs.append((subprocess.Popen([build.driver_bin(), "conn", sf, aux, so], stdout=subprocess.PIPE, stderr=subprocess.STDOUT, preexec_fn=build._big_stack), so))
    mo = {}
    for pr, so in procs:
        out, _ = pr.communicate(timeout=3000)
        if pr.returncode != 0:
            raise RuntimeError("driver failed rc=%d: %s" % (pr.returncode, out.decode("utf-8", "replace")[-2000:]))
        mo.update(split_obs(so))
    for cid in io:
        io[cid] = [l for l in io[cid] if not l.startswith("eff|")]
    return io, mo


def split_obs(path):
    d = {}
    with open(path, encoding="utf-8", errors="replace") as f:
        for line in f:
            line = line.rstrip("\n")
            if not line:
                continue
            cid, _, rest = line.partition("|")
            d.setdefault(cid, []).append(rest)
    return d


def run_val(lines, tag, release=False, jobs=16):
    d = os.path.join(BUILD, "run_" + tag)
    os.makedirs(d, exist_ok=True)
    cf = os.path.join(d, "val.txt")
    with open(cf, "w") as f:
        f.write("\n".join(lines) + "\n")
    impl = os.path.join(d, "val_impl.txt"); aux = os.path.join(d, "val_aux.txt"); model = os.path.join(d, "val_model.txt")
    # value cases call the encoders directly (no packet limit involved): production build
    rc, out = build.sh([build.harness_bin(release, prod=True), "val", cf, impl, aux, "--jobs", str(jobs)], timeout=3000)
    if rc != 0:
        raise RuntimeError("harness val failed: " + out[-2000:])
    PROD_STATS["prod"] += len(lines)
    rc, out = build.sh([build.driver_bin(), "val", cf, aux, model], timeout=3000)
    if rc != 0:
        raise RuntimeError("driver val failed: " + out[-2000:])
    a = [l.rstrip("\n").partition("|")[2] for l in open(impl)]
    b = [l.rstrip("\n").partition("|")[2] for l in open(model)]
    return a, b


def run_tls(case_texts, tag, jobs=8):
    """TLS cases (FORMAT.md section 5): list of (id, text) -> (impl_obs, model_obs)"""
    d = os.path.join(BUILD, "run_" + tag)
    os.makedirs(d, exist_ok=True)
    cf = os.path.join(d, "tls_cases.txt")
    impl = os.path.join(d, "tls_impl.obs"); aux = os.path.join(d, "tls_aux.txt"); model = os.path.join(d, "tls_model.obs")
    def lim_of(t):
        m = re.search(r"lim=(\d+)", t)
        return int(m.group(1)) if m else REAL_LIMIT
    run_harness("tls", [(t, lim_of(t)) for _, t in case_texts], cf, impl, aux, jobs=jobs)
    rc, out = build.sh([build.driver_bin(), "tls", cf, aux, model], timeout=3000)
    if rc != 0:
        raise RuntimeError("driver tls failed rc=%d: %s" % (rc, out[-2000:]))
    return split_obs(impl), split_obs(model)


def out_bytes(obs):
    """concatenation of all bytes the transport accepted, from observation lines"""
    return b"".join(bytes.fromhex(l[2:]) for l in obs if l.startswith("w|"))


# ------------------------------------------------------------------ main

def load_known():
    p = os.path.join(ROOT, "known_findings.json")
    if os.path.exists(p):
        return json.load(open(p))
    return {"known": [], "fixed": []}


def main():
    if len(sys.argv) < 3:
        say(__doc__); sys.exit(2)
    prop, tier = sys.argv[1], sys.argv[2]
    tier = os.environ.get("VERIF_TIER", tier)
    if tier not in ("quick", "thorough"):
        tier = "quick"
    seed = int(os.environ.get("VERIF_SEED", "20260930"))
    t0 = time.time()
    os.makedirs(EVID, exist_ok=True)
    mod = importlib.import_module("props." + prop.lower())
    ctx = Ctx(prop, tier, seed)
    replay = None
    if "--replay" in sys.argv:
        replay = sys.argv[sys.argv.index("--replay") + 1]

    b = build.ensure_built(release=(tier == "thorough" and getattr(mod, "NEEDS_RELEASE", False)))
    ctx.build = b
    violations = []      # (message, replay_path or None, found_input: bool)
    if not b["translator"][0]:
        # the generated tables are the tie for C13 (errorcodes.rs) and for the constants of C01 / C04 (packet.rs);
        # the other properties do not rest on them (the last good tables stay in place for the build)
        tmsg = b["translator"][1]
        parts = set(re.findall(r"UNSUPPORTED (\w+):", tmsg)) or {"errorcodes", "packet"}
        needs = {"C13": "errorcodes", "C01": "packet", "C04": "packet"}.get(prop)
        if needs in parts:
            violations.append(("translator no longer understands the source tables: " + tmsg[-400:], None, False))
        else:
            say("note: translator does not understand %s any more (not part of this property's tie): %s" % (sorted(parts), tmsg[-200:].strip()))
    if not b["harness"][0]:
        say("harness build failed:\n" + b["harness"][1])
        violations.append(("harness does not build against the current tree: " + b["harness"][1][-600:], None, False))
    elif not b.get("harness_prod", (True, ""))[0]:
        say("harness (production build) failed:\n" + b["harness_prod"][1])
        violations.append(("harness does not build against the production (hook-free) build of the current tree: " + b["harness_prod"][1][-600:], None, False))
    if not b.get("driver", (False, ""))[0]:
        violations.append(("model driver does not build: " + b["driver"][1][-600:], None, False))

    po = proof_obligations(prop)
    ctx.po = po
    for p in po["problems"]:
        violations.append((p, None, False))

    # thorough: independent re-check of the compiled property file and everything it depends on
    if tier == "thorough" and not po["problems"]:
        rc, out = build.sh("timeout 1500 coqchk -o -silent -Q . MsqlVerif MsqlVerif.Properties.%s" % prop, cwd=COQ, timeout=1600)
        m = re.search(r"\* Axioms:\s*(.*?)\n\s*\n", out, re.S)
        ax = m.group(1).strip() if m else "?"
        po["coqchk"] = {"rc": rc, "axioms": ax}
        if rc != 0 or ax != "<none>":
            po["problems"].append("coqchk: rc=%d axioms=%s" % (rc, ax[:300]))
            violations.append(("independent checker (coqchk) does not accept the property file: rc=%d axioms=%s" % (rc, ax[:300]), None, False))
    corr = {"evaluations": 0, "distinct_nontrivial": 0, "mismatches": 0, "oracle_failures": 0, "samples": [], "hist": {}}
    ctx.corr = corr
    known_hits = []
    if b["harness"][0] and b.get("driver", (False,))[0]:
        try:
            if replay:
                if hasattr(mod, "replay"):
                    mod.replay(ctx, replay)
                else:
                    generic_replay(ctx, replay)
            else:
                run_corpus(ctx)
                mod.run(ctx)
        except Exception as e:
            traceback.print_exc()
            violations.append(("check machinery failed: %r" % (e,), None, False))
        violations += ctx.violations
        known_hits = ctx.known_hits
    wall = time.time() - t0

    # known findings are reported, never raised
    for k in known_hits:
        say("KNOWN-FINDING: property=%s %s" % (prop, k))

    ev = {
        "property_id": prop, "tier": tier, "seed": seed, "level": "proof",
        "coverage": {
            "obligations": max(po["obligations"], 1), "discharged": po["discharged"],
            "checker_cmd": "coq_makefile -f _CoqProject -o Makefile && make (coqc 8.16.1, full .vo) ; coqc build/chk_%s.v (Print Assumptions)" % prop,
            "trusted_base": TRUSTED_BASE + getattr(mod, "TRUSTED_EXTRA", []),
            "theorems": po["theorems"], "assumptions": po["assumptions"], "coqchk": po.get("coqchk"),
            "evaluations": corr["evaluations"], "distinct_nontrivial": corr["distinct_nontrivial"],
            "rule": getattr(mod, "RULE", ""), "samples": corr["samples"][:6],
            "input_distribution": corr["hist"], "correspondence_mismatches": corr["mismatches"],
            "write_granularity_only_differences": corr.get("granularity_only", 0),
            "cases_run_on_production_build": PROD_STATS["prod"], "cases_run_on_hooked_build": PROD_STATS["hooked"],
            "oracle_failures": corr["oracle_failures"], "exhaustive": bool(corr.get("exhaustive", False)),
            "known_findings_reproduced": known_hits,
            "build_seconds": b.get("build_s"),
        },
        "assumptions": getattr(mod, "ASSUMPTIONS", []),
        "wall_s": round(wall, 2), "violations": len(violations),
    }
    with open(os.path.join(EVID, prop + ".json"), "w") as f:
        json.dump(ev, f, indent=1)

    if getattr(ctx, "suppressed", 0):
        say("  (%d further violations of the same run not listed)" % ctx.suppressed)
    if violations:
        rdir = os.path.join(EVID, "replays"); os.makedirs(rdir, exist_ok=True)
        for i, (msg, rp, found) in enumerate(violations):
            if rp is None:
                rp = os.path.join(rdir, "%s_%d.txt" % (prop, i))
                with open(rp, "w") as f:
                    f.write("# property %s: no concrete failing input; what no longer checks:\n# %s\n" % (prop, msg.replace("\n", "\n# ")))
            say("  " + msg.replace("\n", "\n  ")[:1500])
            say("VIOLATION property=%s replay=%s%s" % (prop, rp, "" if found else " no-failing-input-found"))
        sys.exit(1)
    say("OK property=%s tier=%s theorems=%d/%d cases=%d nontrivial=%d wall=%.1fs" %
        (prop, tier, po["discharged"], po["obligations"], corr["evaluations"], corr["distinct_nontrivial"], wall))
    sys.exit(0)


TRUSTED_BASE = [
    "Coq 8.16.1 kernel incl. its bytecode VM (vm_compute); no native_compute",
    "axioms: none (every property theorem prints 'Closed under the global context')",
    "extraction: ExtrOcamlBasic only (bool option unit list prod sumbool sumor andb orb); OCaml 4.13.1",
    "translator tools/gen_tables.py (errorcodes.rs, packet.rs constants -> coq/Gen/*.v)",
    "correspondence harness (Rust, /verif/harness), model driver (OCaml, /verif/driver), tools/*.py glue",
    "modelled not verified: nom 7 combinators, byteorder, mysql_common lenenc/constants, std Vec/HashMap/io::Write::write_all/str::from_utf8/trim, integer Display",
]


class RawCase:
    """a case given as text (corpus / replay files)"""
    def __init__(self, text, cid=None):
        self.text = text if text.endswith("\n") else text + "\n"
        first = self.text.split("\n", 1)[0].split()
        self.id = cid or (first[1] if len(first) > 1 else "raw")
        if cid:
            self.text = "case %s\n" % cid + self.text.split("\n", 1)[1]
        m = re.search(r"lim=(\d+)", self.text)
        self.lim = int(m.group(1)) if m else 16777215
        self.reads = re.search(r"^reads (.*)$", self.text, re.M).group(1).split(" ") if re.search(r"^reads (.*)$", self.text, re.M) else []
        self.meta = {}

    def render(self):
        if self.reads is not None:
            return re.sub(r"^reads .*$", lambda m: "reads " + " ".join(self.reads), self.text, count=1, flags=re.M)
        return self.text


def run_corpus(ctx):
    """corpus first: replays of fixed defects must agree with the model (no failure returns);
    replays of known findings must still fail in the listed way"""
    kf = ctx.known
    cases, kinds = [], []
    for section in ("fixed", "known"):
        for e in kf.get(section, []):
            if e.get("property") != ctx.prop:
                continue
            path = os.path.join(ROOT, e.get("replay", ""))
            if not path.endswith(".case") or not os.path.exists(path):
                continue
            cases.append(RawCase(open(path).read(), cid="corpus_%d" % len(cases)))
            kinds.append((section, e))
    if not cases:
        return
    io, mo = run_conn(cases, ctx.prop + "corpus")
    for c, (section, e) in zip(cases, kinds):
        a = io.get(c.id, ["<none>"]); m = mo.get(c.id, ["<none>"])
        ctx.corr["evaluations"] += 1
        if section == "fixed":
            res = a[-1]
            differ = canon_obs(a) != canon_obs(m)
            if differ and re.search(r"^fault (once|from)", c.text, re.M) and a[-1] == m[-1]:
                # a replay with a transport fault addressed by operation index: only the result is comparable
                # when the code cuts its output into transport writes differently than the model
                differ = False
            if differ or res.startswith("result|panic") or res == "result|hang":
                ctx.violation("a repaired defect has returned (%s): impl %s, model %s" % (e["what"][:120], a[-1], m[-1]),
                              c.render(), name="regress")
        else:
            key = e["key"].split(":", 1)[1]
            if ("panic " + key) in a[-1]:
                hit = "%s [%s]" % (e.get("what", key), e["key"])
                if hit not in ctx.known_hits:
                    ctx.known_hits.append(hit)
            else:
                say("note: known finding %s no longer reproduces with %s (now: %s)" % (e["key"], e["replay"], a[-1]))


class Ctx:
    def __init__(self, prop, tier, seed):
        self.prop, self.tier, self.seed = prop, tier, seed
        self.rng = random.Random(seed)
        self.violations = []
        self.known_hits = []
        self.known = load_known()
        self.corr = None

    def quick(self):
        return self.tier == "quick"

    def replay_path(self, name):
        d = os.path.join(EVID, "replays"); os.makedirs(d, exist_ok=True)
        return os.path.join(d, "%s_%s.case" % (self.prop, name))

    def known_key(self, key):
        for k in self.known.get("known", []):
            if k.get("property") == self.prop and k.get("key") == key:
                return k
        return None

    def violation(self, msg, case_text=None, name="v", found=True, key=None):
        """record a violation unless its key is a listed known finding"""
        if key is not None:
            k = self.known_key(key)
            if k is not None:
                hit = "%s [%s]" % (k.get("what", key), key)
                if hit not in self.known_hits:
                    self.known_hits.append(hit)
                return
        # at most 10 violations with a concrete failing input and 4 without are listed per run
        kind = "found" if (found and case_text is not None) else "nofound"
        self.nv = getattr(self, "nv", {"found": 0, "nofound": 0})
        self.nv[kind] += 1
        if self.nv[kind] > (10 if kind == "found" else 4):
            self.suppressed = getattr(self, "suppressed", 0) + 1
            return
        rp = None
        if case_text is not None:
            rp = self.replay_path(name + str(len(self.violations)))
            with open(rp, "w") as f:
                f.write(case_text)
        self.violations.append((msg, rp, found and case_text is not None))

    # ---- the standard differential run over conn cases ----
    def diff_conn(self, cases, tag=None, nontrivial=lambda c, obs: True, oracle=None, classify=None, release=False):
        """run cases on impl and model, compare, apply oracle(case, impl_obs) -> list[(key, msg)]"""
        tag = tag or self.prop
        io, mo = run_conn(cases, tag, release=release)
        corr = self.corr
        seen = set()
        for c in cases:
            a = io.get(c.id, ["<no output>"]); m = mo.get(c.id, ["<no output>"])
            corr["evaluations"] += 1
            sig = c.render().split("\n", 1)[1]
            if sig not in seen and nontrivial(c, a):
                seen.add(sig)
                corr["distinct_nontrivial"] += 1
            if classify:
                for k in classify(c, a):
                    corr["hist"][k] = corr["hist"].get(k, 0) + 1
            if len(corr["samples"]) < 6 and self.rng.random() < max(0.01, 6.0 / max(1, len(cases))):
                corr["samples"].append({"case": c.render()[:1500], "impl_result": a[-1]})
            fails = oracle(c, a) if oracle else []
            for key, msg in fails:
                corr["oracle_failures"] += 1
                self.violation("specification oracle fails on the implementation's output: %s (case %s)" % (msg, c.id),
                               c.render(), name="oracle", key=key)
            if a != m and canon_obs(a) == canon_obs(m):
                # same bytes, same order relative to reads / flushes / callbacks; only the way the bytes are cut
                # into transport write() calls (or a repeated flush) differs: not observable by any property
                corr["granularity_only"] = corr.get("granularity_only", 0) + 1
            elif a != m:
                corr["mismatches"] += 1
                if not fails:
                    k = first_diff(a, m)
                    self.violation("model and implementation disagree on case %s at observation %d:\n impl : %s\n model: %s" %
                                   (c.id, k, a[k] if k < len(a) else "<end>", m[k] if k < len(m) else "<end>"),
                                   c.render(), name="corr", found=False, key=getattr(c, "known_key", None))
        try:
            import speccheck
            speccheck.cross_check(self, cases, io, tag + "spec")
        except Exception as e:
            self.violation("specification cross-check failed to run: %r" % (e,), None, found=False)
        if not corr["samples"] and cases:
            corr["samples"].append({"case": cases[0].render()[:1500], "impl_result": io.get(cases[0].id, ["?"])[-1]})
        return io, mo


def _impl_only(self, cases, oracle, nontrivial=lambda c, o: True, classify=None, tag=None, release=False):
    """cases too large for the model: implementation vs specification oracle only"""
    tag = tag or (self.prop + "impl")
    d = os.path.join(BUILD, "run_" + tag)
    os.makedirs(d, exist_ok=True)
    cf = os.path.join(d, "cases.txt")
    impl = os.path.join(d, "impl.obs"); aux = os.path.join(d, "aux.txt")
    run_harness("conn", [(c.render(), c.lim) for c in cases], cf, impl, aux, release=release, jobs=4)
    io = split_obs(impl)
    corr = self.corr
    for c in cases:
        a = [l for l in io.get(c.id, ["<no output>"]) if not l.startswith("eff|")]
        corr["evaluations"] += 1
        if nontrivial(c, a):
            corr["distinct_nontrivial"] += 1
        if classify:
            for k in classify(c, a):
                corr["hist"][k] = corr["hist"].get(k, 0) + 1
        for key, msg in oracle(c, a):
            corr["oracle_failures"] += 1
            self.violation("specification oracle fails on the implementation's output: %s (case %s)" % (msg, c.id),
                           c.render(), name="oracle", key=key)
    return io


Ctx.impl_only = _impl_only


def generic_replay(ctx, path):
    c = RawCase(open(path).read())
    io, mo = run_conn([c], ctx.prop + "replay")
    a = io.get(c.id, []); m = mo.get(c.id, [])
    say("replay of %s: implementation vs model (%d / %d observations)" % (path, len(a), len(m)))
    for i in range(max(len(a), len(m))):
        x = a[i] if i < len(a) else "<end>"; y = m[i] if i < len(m) else "<end>"
        say("%s impl : %s" % ("  " if x == y else "!=", x[:300]))
        if x != y:
            say("   model: %s" % y[:300])
    if a != m:
        ctx.violation("replay: model and implementation disagree", c.render(), name="replay", found=True)


def canon_obs(obs):
    """merge adjacent transport writes, drop a flush that directly follows a flush"""
    out = []
    for l in obs:
        if l.startswith("w|") and out and out[-1].startswith("w|"):
            out[-1] += l[2:]
        elif l == "flush" and out and out[-1] == "flush":
            continue
        else:
            out.append(l)
    return out


def first_diff(a, b):
    for i in range(min(len(a), len(b))):
        if a[i] != b[i]:
            return i
    return min(len(a), len(b))


if __name__ == "__main__":
    main()
