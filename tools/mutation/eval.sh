#!/bin/bash
# usage: eval.sh <mutant id> <check ids...>
id=$1; shift
cd /repo && git apply /tmp/mut/$id.out/patch.diff || { echo "APPLY FAILED"; exit 1; }
for p in "$@"; do
  out=$(cd /verif && ./check $p quick 2>&1 | grep -v "^WARN\|KNOWN")
  echo "== mutant $id check $p quick: $(echo "$out" | grep -c '^VIOLATION') violations; last: $(echo "$out" | tail -1 | cut -c1-160)"
  echo "$out" | grep "^  " | head -3 | cut -c1-260
done
cd /repo && git checkout -- . && git status --short | head -3
