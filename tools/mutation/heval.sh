#!/bin/bash
# usage: heval.sh <patch file> : apply a behaviour-preserving refactoring, run all quick checks, expect silence
pf=$1
cd /repo && git apply $pf || { echo "APPLY FAILED $pf"; exit 1; }
for p in C01 C02 C03 C04 C05 C06 C07 C08 C09 C10 C11 C12 C13 C14 C15 C16 C17 C18 C19 C20; do
  out=$(cd /verif && ./check $p quick 2>&1 | grep -v "^WARN\|KNOWN")
  nv=$(echo "$out" | grep -c '^VIOLATION')
  if [ "$nv" != "0" ]; then echo "== $pf: $p ALARM ($nv): $(echo "$out" | grep '^  ' | head -2 | cut -c1-300)"; fi
done
echo "== $pf done"
cd /repo && git checkout -- . && git clean -fdq src && git status --short | head -3
