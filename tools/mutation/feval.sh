#!/bin/bash
# usage: feval.sh <id> <k>: apply round-4 mutant, run all 20 quick checks, list which raise violations
id=$1; k=$2; pf=/tmp/mut/$id.out/patch_$k.diff
cd /repo && git apply $pf || { echo "APPLY FAILED $pf"; exit 1; }
res=""
for p in C01 C02 C03 C04 C05 C06 C07 C08 C09 C10 C11 C12 C13 C14 C15 C16 C17 C18 C19 C20; do
  out=$(cd /verif && ./check $p quick 2>&1 | grep -v "^WARN\|KNOWN")
  nv=$(echo "$out" | grep -c '^VIOLATION')
  nf=$(echo "$out" | grep '^VIOLATION' | grep -vc 'no-failing-input-found')
  if [ "$nv" != "0" ]; then res="$res $p($nf/$nv)"; fi
done
echo "== $id/$k [$(python3 -c "import json;print(json.load(open('/tmp/mut/$id.out/meta_$k.json'))['property'])")] caught by:$res"
cd /repo && git checkout -- . && git clean -fdq src && git status --short | head -3
