#!/bin/bash
id=$1; k=$2; shift; shift
cd /repo && git apply /tmp/mut/$id.out/patch_$k.diff || { echo "APPLY FAILED"; exit 1; }
for p in "$@"; do
  out=$(cd /verif && ./check $p quick 2>&1 | grep -v "^WARN\|KNOWN")
  echo "== $id/$k check $p: $(echo "$out" | grep -c '^VIOLATION') violations; $(echo "$out" | tail -1 | cut -c1-140)"
  echo "$out" | grep "^  " | head -3 | cut -c1-240
done
cd /repo && git checkout -- . && git clean -fdq src && git status --short | head -3
