#!/bin/bash
# confirm a mutant without git stash (the stash is shared by all worktrees of one repository)
id=$1; wt=/tmp/mut/$id; out=/tmp/mut/$id.out
cd $wt || exit 1
export CARGO_TARGET_DIR=$wt/target
git checkout -q -- src && git apply $out/patch.diff || { echo "$id APPLY FAILED"; exit 1; }
cp $out/demo_mut.rs tests/demo_mut.rs
with=$(cargo test --offline --no-fail-fast 2>&1 | grep "^test result" | tr '\n' ';')
git checkout -q -- src
without=$(cargo test --offline --no-fail-fast 2>&1 | grep "^test result" | tr '\n' ';')
git apply $out/patch.diff
echo "$id WITH:    $with"
echo "$id WITHOUT: $without"
echo "$id FILES: $(grep '^+++' $out/patch.diff | tr '\n' ' ')"
