#!/usr/bin/env python3
# Generates the example inputs in this directory (client packets are framed here:
# 3-byte LE length, 1-byte sequence id, payload). Run from /verif/harness/examples:
#   python3 gen_examples.py
#   H=/verif/build/harness-target/release/harness
#   $H conn basic.cases basic.obs basic.aux
#   $H conn edge.cases edge.obs edge.aux    (debug build: edge.debug.obs)
#   $H val values.vals values.out values.aux
#   $H tls tls.cases tls.obs tls.aux
import struct
def pkt(seq, payload):
    return (struct.pack('<I', len(payload))[:3] + bytes([seq]) + payload)
def hs(user=b'jon', seq=1, caps=bytes([0x85,0xa6,0x3f,0x20])):
    p = caps + bytes([0,0,0,1]) + bytes([0x21]) + bytes(23) + user + b'\0' + b'\0'
    return pkt(seq, p)
def d(b): return 'd:' + b.hex()
PING = pkt(0, b'\x0e'); QUIT = pkt(0, b'\x01')
def query(q): return pkt(0, b'\x03' + q)
def prepare(q): return pkt(0, b'\x16' + q)
def execute(stmt, types, vals, nullmap):
    p = b'\x17' + struct.pack('<I', stmt) + b'\0' + struct.pack('<I', 1) + nullmap + b'\x01' + b''.join(bytes([t, f]) for t, f in types) + vals
    return pkt(0, p)
def initdb(s): return pkt(0, b'\x02' + s)
def close(stmt): return pkt(0, b'\x19' + struct.pack('<I', stmt))


import re as _re
def F(tmpl):
    def ev(m):
        return str(eval(m.group(1), globals()))
    # match {...} with balanced parens not containing braces
    return _re.sub(r"\{([^{}]*)\}", ev, tmpl)

cases = []
# 1: handshake + ping + quit
cases.append(F(r"""case ping
cfg lim=16777215 tls=0 auth=ok
reads {d(hs())} {d(PING)} {d(QUIT)}
fault none
end"""))
# 2: query with 2-col resultset, 2 rows
a = '61'; b_ = '62'; t = '74'
cases.append(F(r"""case rs2
cfg lim=16777215 tls=0 auth=ok
reads {d(hs() + query(b'SELECT a, b FROM t'))} {d(QUIT)}
fault none
q start 2 {t} {a} 8 0 {t} {b_} 253 0 wc i64:42 p wc s:6869 p er p wr 2 some i64:-7 none p fin
end"""))
# 3: prepare + execute with two LONG params
cases.append(F(r"""case px
cfg lim=16777215 tls=0 auth=ok
reads {d(hs())} {d(prepare(b'SELECT ?+?'))} {d(execute(1, [(3,0),(3,0)], struct.pack('<ii', 5, -6), b'\0'))} {d(close(1))} {d(QUIT)}
fault none
p reply 1 2 - 3f 3 0 - 3f 3 0 1 - 73 3 0
x all i32,i64 start 1 - 73 3 0 wc i32:-1 p fin
end"""))
open('basic.cases','w').write('\n'.join(cases)+'\n')

cases = []
# split chunk + small lim + fault + auth reject + init + float param + NullBin + double panic
cases.append(F(r"""case split
cfg lim=16777215 tls=0 auth=ok
reads {d(hs())}+89130000+03+r5000x58 eof
fault none
q err 1064 r3x41
end"""))
cases.append(F(r"""case lim8
cfg lim=8 tls=0 auth=ok
reads {d(hs(seq=1))}
fault none
end"""))
cases.append(F(r"""case rej
cfg lim=16777215 tls=0 auth=rej:77
reads {d(hs())}
fault none
end"""))
cases.append(F(r"""case fault
cfg lim=16777215 tls=0 auth=ok
reads {d(hs())} {d(PING)} {d(PING)}
fault once:4:9
end"""))
cases.append(F(r"""case init
cfg lim=16777215 tls=0 auth=ok
reads {d(hs())} {d(initdb(b'db1'))} {d(query(b'USE `db2`;'))} {d(query(b'q'))} err:5
fault none
i err 1049 6e6f ret:3
q drop ret:12
end"""))
cases.append(F(r"""case floatp
cfg lim=16777215 tls=0 auth=ok
reads {d(hs())} {d(prepare(b'?'))} {d(execute(1, [(4,0),(5,0),(253,0)], struct.pack('<fd', 1.5, 0.1) + b'\x02hi', b'\0'))}
fault none
p reply 1 3 - - 4 0 - - 5 0 - - 253 0 0
x 2 f32,f64 done 1 2
end"""))
cases.append(F(r"""case nullbin
cfg lim=16777215 tls=0 auth=ok
reads {d(hs())} {d(prepare(b'?'))} {d(execute(1, [], b'', b''))}
fault none
p reply 1 0 1 - 61 3 0
x all - start 1 - 61 3 0 wc ref none p fin
end"""))
cases.append(F(r"""case dblpanic
cfg lim=16777215 tls=0 auth=ok
reads {d(hs())} {d(prepare(b'?'))} {d(execute(1, [], b'', b''))} {d(PING)}
fault none
p reply 1 0 2 - 61 3 0 - 62 3 0
x all - start 2 - 61 3 0 - 62 3 0 wc i32:1 p wc ref none p fin
end"""))
cases.append(F(r"""case after
cfg lim=16777215 tls=0 auth=ok
reads {d(hs())} {d(PING)} {d(QUIT)}
fault none
end"""))
cases.append(F(r"""case badconv
cfg lim=16777215 tls=0 auth=ok
reads {d(hs())} {d(prepare(b'?'))} {d(execute(1, [(253,0)], b'\x02hi', b'\0'))}
fault none
p reply 1 1 - - 253 0 0
x all u8 done 0 0
end"""))
cases.append(F(r"""case shortparams
cfg lim=16777215 tls=0 auth=ok
reads {d(hs())} {d(prepare(b'?'))} {d(pkt(0, b'\x17' + struct.pack('<I', 1) + b'\0' + struct.pack('<I', 1)))}
fault none
p reply 1 9 - - 3 0 - - 3 0 - - 3 0 - - 3 0 - - 3 0 - - 3 0 - - 3 0 - - 3 0 - - 3 0 0
end"""))
cases.append(F(r"""case tlsjunk
cfg lim=16777215 tls=1 auth=ok
reads {d(pkt(1, bytes([0x85,0xae,0x3f,0x20]) + bytes([0,0,0,1,0x21]) + bytes(23)))} {d(b'hello world, not tls')}
fault none
end"""))
cases.append(F(r"""case dropunwrap
cfg lim=16777215 tls=0 auth=ok
reads {d(hs())} {d(query(b'q'))}
fault from:4:1
q c1 1 1 drop
end"""))
cases.append(F(r"""case dinit
cfg lim=16777215 tls=0 auth=ok dinit=1
reads {d(hs())} {d(initdb(b'db1'))} {d(query(b'USE `db2`;'))} {d(QUIT)}
fault none
i err 1049 6e6f ret:3
end"""))
cases.append(F(r"""case seq255
cfg lim=16777215 tls=0 auth=ok
reads {d(hs(seq=255))} {d(PING)}
fault none
end"""))
open('edge.cases','w').write('\n'.join(cases)+'\n')

vals = """t u8:5
t ref u8:5
t some ref b:00
t none
t some none
n none
n ref none
n some none
n mnull
b 1 0 u8:5
b 1 32 u8:5
b 3 0 i32:-2
b 8 0 ref none
b 253 0 s:r300x61
t f32:3fc00000
t f64:3fb999999999999a
b 5 0 f32:3dcccccd
t date:2020:2:29
t dt:2020:2:29:1:2:3:4000
b 12 0 dt:2020:2:29:1:2:3:4000
t dur:90061:500000
b 11 0 dur:90061:500000
b 11 0 dur:9006100:0
t mdate:2020:13:1:0:0:0:0
t mtime:1:0:0:0:0:0
t mtime:0:1:2:3:4:5
b 3 32 mint:-1
b 3 0 mint:70000
t string:c3a9
t vec:-
b 14 0 date:2020:1:1
t some some i8:-3
t ref ref string:41
b 8 0 usize:18446744073709551615
b 8 32 usize:18446744073709551615
b 1 0 isize:-129
t mfloat:7fc00000
t mdouble:fff0000000000000"""
open('values.vals','w').write(vals+'\n')

# ---- tls mode examples
CAPS_SSL = struct.pack('<I', 0x203fae85)
def sslreq(seq=1): return pkt(seq, CAPS_SSL + bytes([0,0,0,1]) + bytes([0x21]) + bytes(23))
def hs_tls(user=b'jon', seq=2): return pkt(seq, CAPS_SSL + bytes([0,0,0,1]) + bytes([0x21]) + bytes(23) + user + b'\0' + b'\0')
PLAIN = hs_tls() + PING + query(b'q')
cases = []
def tcase(name, cfg='lim=16777215 tls=1 auth=ok', split=0, prechunks=None, chunks='*', extra=''):
    lines = ['case ' + name, 'cfg ' + cfg, 'pre ' + sslreq().hex(), 'plain ' + PLAIN.hex(), 'split %d' % split]
    if prechunks: lines.append('prechunks ' + prechunks)
    lines.append('chunks ' + chunks)
    if extra: lines.append(extra)
    lines.append('end')
    cases.append('\n'.join(lines))
for k in (0, 1, 5, 100, 10000):
    tcase('split%d' % k, split=k)
tcase('chunks1', split=3, chunks='1')
tcase('chunks7', split=0, chunks='7')
tcase('prechunks', split=50, prechunks='1 2 3', chunks='5 11')
tcase('notls', cfg='lim=16777215 tls=0 auth=ok', split=100)
tcase('clientcert', cfg='lim=16777215 tls=1 auth=ok clientcert=1', split=10, chunks='64')
tcase('rej', cfg='lim=16777215 tls=1 auth=rej:5 clientcert=1')
tcase('bighello', cfg='lim=16777215 tls=1 auth=ok bighello=6000', split=100000)
tcase('bighello40k', cfg='lim=16777215 tls=1 auth=ok clientcert=1 bighello=40000', split=5000, chunks='1000 3')
tcase('lim64', cfg='lim=64 tls=1 auth=ok', chunks='13', extra='q start 1 - 61 253 0 wc s:r100x7a p fin')
open('tls.cases','w').write('\n'.join(cases)+'\n')
