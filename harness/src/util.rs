//! Small helpers: hex encoding, hexspec parsing, token cursor, io error canonicalisation.

use std::io;

const HEX: &[u8; 16] = b"0123456789abcdef";

/// Append the lowercase hex encoding of `bytes` to `out`.
pub fn push_hex(out: &mut String, bytes: &[u8]) {
    out.reserve(bytes.len() * 2);
    // SAFETY: only ASCII bytes are pushed.
    let v = unsafe { out.as_mut_vec() };
    for &b in bytes {
        v.push(HEX[(b >> 4) as usize]);
        v.push(HEX[(b & 15) as usize]);
    }
}

pub fn hex(bytes: &[u8]) -> String {
    let mut s = String::new();
    push_hex(&mut s, bytes);
    s
}

fn hexval(c: u8) -> Option<u8> {
    match c {
        b'0'..=b'9' => Some(c - b'0'),
        b'a'..=b'f' => Some(c - b'a' + 10),
        _ => None,
    }
}

/// Parse a hexspec (`-` | seg(+seg)*, seg = lowercase even-length hex | r<count>x<hh>).
pub fn parse_hexspec(s: &str) -> Result<Vec<u8>, String> {
    if s == "-" {
        return Ok(Vec::new());
    }
    if s.is_empty() {
        return Err("empty hexspec (use `-` for the empty string)".into());
    }
    let mut out = Vec::new();
    for seg in s.split('+') {
        let b = seg.as_bytes();
        if b.is_empty() {
            return Err(format!("empty segment in hexspec `{}`", trunc(s)));
        }
        if b[0] == b'r' {
            let rest = &seg[1..];
            let (cnt, hh) = rest
                .split_once('x')
                .ok_or_else(|| format!("bad repeat segment `{}`", trunc(seg)))?;
            if cnt.is_empty() || !cnt.bytes().all(|c| c.is_ascii_digit()) {
                return Err(format!("bad repeat count in `{}`", trunc(seg)));
            }
            let cnt: usize = cnt
                .parse()
                .map_err(|_| format!("bad repeat count in `{}`", trunc(seg)))?;
            let hb = hh.as_bytes();
            if hb.len() != 2 {
                return Err(format!("bad repeat byte in `{}`", trunc(seg)));
            }
            let (h, l) = match (hexval(hb[0]), hexval(hb[1])) {
                (Some(h), Some(l)) => (h, l),
                _ => return Err(format!("bad repeat byte in `{}`", trunc(seg))),
            };
            let byte = (h << 4) | l;
            out.resize(out.len() + cnt, byte);
        } else {
            if b.len() % 2 != 0 {
                return Err(format!("odd-length hex segment `{}`", trunc(seg)));
            }
            out.reserve(b.len() / 2);
            for p in b.chunks_exact(2) {
                match (hexval(p[0]), hexval(p[1])) {
                    (Some(h), Some(l)) => out.push((h << 4) | l),
                    _ => return Err(format!("bad hex digit in segment `{}`", trunc(seg))),
                }
            }
        }
    }
    Ok(out)
}

fn trunc(s: &str) -> &str {
    if s.len() > 40 {
        let mut e = 40;
        while !s.is_char_boundary(e) {
            e -= 1;
        }
        &s[..e]
    } else {
        s
    }
}

/// Cursor over the single-space separated tokens of a line.
pub struct Toks<'a> {
    it: std::str::Split<'a, char>,
    peeked: Option<Option<&'a str>>,
}

impl<'a> Toks<'a> {
    pub fn new(s: &'a str) -> Self {
        Toks {
            it: s.split(' '),
            peeked: None,
        }
    }
    pub fn empty() -> Self {
        let mut t = Toks::new("");
        t.peeked = Some(None);
        t
    }
    pub fn peek(&mut self) -> Option<&'a str> {
        if self.peeked.is_none() {
            self.peeked = Some(self.it.next());
        }
        self.peeked.unwrap()
    }
    pub fn opt(&mut self) -> Option<&'a str> {
        match self.peeked.take() {
            Some(p) => p,
            None => self.it.next(),
        }
    }
    pub fn next(&mut self) -> Result<&'a str, String> {
        match self.opt() {
            Some("") => Err("empty token (double or trailing space?)".into()),
            Some(t) => Ok(t),
            None => Err("unexpected end of line".into()),
        }
    }
    pub fn at_end(&mut self) -> bool {
        self.peek().is_none()
    }
    pub fn expect_end(&mut self) -> Result<(), String> {
        match self.peek() {
            None => Ok(()),
            Some(t) => Err(format!("trailing token `{}`", trunc(t))),
        }
    }
    pub fn num<T: std::str::FromStr>(&mut self, what: &str) -> Result<T, String> {
        let t = self.next()?;
        parse_dec(t, what)
    }
    pub fn hexspec(&mut self) -> Result<Vec<u8>, String> {
        let t = self.next()?;
        parse_hexspec(t)
    }
}

/// Decimal number, optional leading `-`, no `+`, no other junk.
pub fn parse_dec<T: std::str::FromStr>(t: &str, what: &str) -> Result<T, String> {
    let digits = t.strip_prefix('-').unwrap_or(t);
    if digits.is_empty() || !digits.bytes().all(|c| c.is_ascii_digit()) {
        return Err(format!("bad {} `{}`", what, trunc(t)));
    }
    t.parse::<T>()
        .map_err(|_| format!("{} out of range `{}`", what, trunc(t)))
}

pub fn parse_hex_u32(t: &str) -> Result<u32, String> {
    if t.len() != 8 || !t.bytes().all(|c| hexval(c).is_some()) {
        return Err(format!("expected 8 lowercase hex digits, got `{}`", trunc(t)));
    }
    u32::from_str_radix(t, 16).map_err(|e| e.to_string())
}

pub fn parse_hex_u64(t: &str) -> Result<u64, String> {
    if t.len() != 16 || !t.bytes().all(|c| hexval(c).is_some()) {
        return Err(format!("expected 16 lowercase hex digits, got `{}`", trunc(t)));
    }
    u64::from_str_radix(t, 16).map_err(|e| e.to_string())
}

/// Canonical `<kind>` of an io::Error.
pub fn io_kind(e: &io::Error) -> String {
    {
        if let Some(inner) = e.get_ref() {
            let m = inner.to_string();
            if let Some(k) = m.strip_prefix("injected ") {
                if !k.is_empty() && k.bytes().all(|c| c.is_ascii_digit()) {
                    return format!("Injected:{}", k);
                }
            }
        }
    }
    format!("{:?}", e.kind())
}

pub fn injected(k: u64) -> io::Error {
    io::Error::new(io::ErrorKind::Other, format!("injected {}", k))
}

/// A scripted READ error: the io::ErrorKind varies with the code (an error is an error whatever its kind;
/// `Interrupted` and `WouldBlock` are the kinds code is most tempted to swallow).  Write / flush errors keep
/// kind `Other`: std's `write_all` itself retries `Interrupted` by contract.
pub fn injected_read(k: u64) -> io::Error {
    let kind = match k % 8 {
        0 => io::ErrorKind::Other,
        1 => io::ErrorKind::Interrupted,
        2 => io::ErrorKind::WouldBlock,
        3 => io::ErrorKind::ConnectionReset,
        4 => io::ErrorKind::UnexpectedEof,
        5 => io::ErrorKind::TimedOut,
        6 => io::ErrorKind::BrokenPipe,
        _ => io::ErrorKind::ConnectionAborted,
    };
    io::Error::new(kind, format!("injected {}", k))
}

/// A float the harness met; rendered into the aux file.
#[derive(Clone, Copy, PartialEq, Eq, Hash, Debug)]
pub enum Aux {
    F32(u32),
    F64(u64),
    /// `trunc|<bits of d>|<bits of d as f32>`: an f32 conversion of a `Double(d)` parameter
    Trunc(u64),
    /// FLOAT parameter `Double(d)` whose `d` is not `f64::from(d as f32)` (cannot normally
    /// happen): `f32|<bits of d as f32>|<text>|<bits of d>`
    F32Param(u64),
}

impl Aux {
    pub fn render(&self, out: &mut String) {
        use std::fmt::Write;
        match *self {
            Aux::F32(bits) => {
                let x = f32::from_bits(bits);
                let _ = write!(out, "f32|{:08x}|", bits);
                push_hex(out, format!("{}", x).as_bytes());
                let _ = write!(out, "|{:016x}", f64::from(x).to_bits());
            }
            Aux::F64(bits) => {
                let x = f64::from_bits(bits);
                let _ = write!(out, "f64|{:016x}|", bits);
                push_hex(out, format!("{}", x).as_bytes());
            }
            Aux::Trunc(bits) => {
                let d = f64::from_bits(bits);
                let _ = write!(out, "trunc|{:016x}|{:08x}", bits, (d as f32).to_bits());
            }
            Aux::F32Param(bits) => {
                let x = f64::from_bits(bits) as f32;
                let _ = write!(out, "f32|{:08x}|", x.to_bits());
                push_hex(out, format!("{}", x).as_bytes());
                let _ = write!(out, "|{:016x}", bits);
            }
        }
        out.push('\n');
    }

    /// The aux line for a pulled FLOAT parameter with inner `Double(d)`.
    pub fn float_param(d: f64) -> Aux {
        let x = d as f32;
        if f64::from(x).to_bits() == d.to_bits() {
            Aux::F32(x.to_bits())
        } else {
            Aux::F32Param(d.to_bits())
        }
    }

    /// Inverse of `render` (used to rebuild the dedup set when appending to an aux file).
    pub fn parse_line(l: &str) -> Option<Aux> {
        let f: Vec<&str> = l.split('|').collect();
        match (f.first().copied(), f.len()) {
            (Some("f32"), 4) => {
                let b = u32::from_str_radix(f[1], 16).ok()?;
                let d = u64::from_str_radix(f[3], 16).ok()?;
                if f64::from(f32::from_bits(b)).to_bits() == d {
                    Some(Aux::F32(b))
                } else {
                    Some(Aux::F32Param(d))
                }
            }
            (Some("f64"), 3) => Some(Aux::F64(u64::from_str_radix(f[1], 16).ok()?)),
            (Some("trunc"), 3) => Some(Aux::Trunc(u64::from_str_radix(f[1], 16).ok()?)),
            _ => None,
        }
    }
}
