//! `tls` mode (FORMAT.md section 5): one real `run_on` per case over a transport that embeds a
//! real `rustls::ClientConnection` playing the client's TLS side.

use crate::conn::{self, Case, Inner, Shim, ShimDefaultInit, CS};
use crate::panics;
use crate::util::{push_hex, Aux};
use msql_srv::MysqlIntermediary;
use rustls::client::danger::{HandshakeSignatureValid, ServerCertVerified, ServerCertVerifier};
use rustls::crypto::{verify_tls12_signature, verify_tls13_signature, CryptoProvider};
use rustls::pki_types::{CertificateDer, PrivateKeyDer, ServerName, UnixTime};
use rustls::server::danger::{ClientCertVerified, ClientCertVerifier};
use rustls::{ClientConfig, ClientConnection, DigitallySignedStruct, DistinguishedName};
use rustls::{ServerConfig, SignatureScheme};
use std::cell::RefCell;
use std::io::{self, Read, Write};
use std::sync::{Arc, OnceLock};

// ---------------------------------------------------------------------------------------------
// Certificate verifiers: accept any certificate, but really verify the handshake signatures.

fn provider() -> &'static CryptoProvider {
    static P: OnceLock<CryptoProvider> = OnceLock::new();
    P.get_or_init(rustls::crypto::ring::default_provider)
}

#[derive(Debug)]
struct AcceptAnyServerCert;

impl ServerCertVerifier for AcceptAnyServerCert {
    fn verify_server_cert(
        &self,
        _end_entity: &CertificateDer<'_>,
        _intermediates: &[CertificateDer<'_>],
        _server_name: &ServerName<'_>,
        _ocsp_response: &[u8],
        _now: UnixTime,
    ) -> Result<ServerCertVerified, rustls::Error> {
        Ok(ServerCertVerified::assertion())
    }
    fn verify_tls12_signature(
        &self,
        message: &[u8],
        cert: &CertificateDer<'_>,
        dss: &DigitallySignedStruct,
    ) -> Result<HandshakeSignatureValid, rustls::Error> {
        verify_tls12_signature(
            message,
            cert,
            dss,
            &provider().signature_verification_algorithms,
        )
    }
    fn verify_tls13_signature(
        &self,
        message: &[u8],
        cert: &CertificateDer<'_>,
        dss: &DigitallySignedStruct,
    ) -> Result<HandshakeSignatureValid, rustls::Error> {
        verify_tls13_signature(
            message,
            cert,
            dss,
            &provider().signature_verification_algorithms,
        )
    }
    fn supported_verify_schemes(&self) -> Vec<SignatureScheme> {
        provider()
            .signature_verification_algorithms
            .supported_schemes()
    }
}

/// Requests a client certificate, does not require one, accepts whatever is presented.
#[derive(Debug)]
struct AcceptAnyClientCert;

impl ClientCertVerifier for AcceptAnyClientCert {
    fn offer_client_auth(&self) -> bool {
        true
    }
    fn client_auth_mandatory(&self) -> bool {
        false
    }
    fn root_hint_subjects(&self) -> &[DistinguishedName] {
        &[]
    }
    fn verify_client_cert(
        &self,
        _end_entity: &CertificateDer<'_>,
        _intermediates: &[CertificateDer<'_>],
        _now: UnixTime,
    ) -> Result<ClientCertVerified, rustls::Error> {
        Ok(ClientCertVerified::assertion())
    }
    fn verify_tls12_signature(
        &self,
        message: &[u8],
        cert: &CertificateDer<'_>,
        dss: &DigitallySignedStruct,
    ) -> Result<HandshakeSignatureValid, rustls::Error> {
        verify_tls12_signature(
            message,
            cert,
            dss,
            &provider().signature_verification_algorithms,
        )
    }
    fn verify_tls13_signature(
        &self,
        message: &[u8],
        cert: &CertificateDer<'_>,
        dss: &DigitallySignedStruct,
    ) -> Result<HandshakeSignatureValid, rustls::Error> {
        verify_tls13_signature(
            message,
            cert,
            dss,
            &provider().signature_verification_algorithms,
        )
    }
    fn supported_verify_schemes(&self) -> Vec<SignatureScheme> {
        provider()
            .signature_verification_algorithms
            .supported_schemes()
    }
}

/// Server config for `tls=1 clientcert=1`.
pub(crate) fn server_config_client_auth() -> Arc<ServerConfig> {
    static C: OnceLock<Arc<ServerConfig>> = OnceLock::new();
    C.get_or_init(|| {
        let (cert, key) = conn::server_identity();
        let cfg = ServerConfig::builder()
            .with_client_cert_verifier(Arc::new(AcceptAnyClientCert))
            .with_single_cert(
                vec![CertificateDer::from(cert.clone())],
                PrivateKeyDer::Pkcs8(key.clone().into()),
            )
            .expect("harness: rustls server config (client auth)");
        Arc::new(cfg)
    })
    .clone()
}

/// The client's self-signed certificate (DER) and PKCS#8 key, built once.
fn client_identity() -> &'static (Vec<u8>, Vec<u8>) {
    static ID: OnceLock<(Vec<u8>, Vec<u8>)> = OnceLock::new();
    ID.get_or_init(|| {
        let cert = rcgen::generate_simple_self_signed(vec!["client.localhost".to_string()])
            .expect("harness: rcgen failed (client cert)");
        (
            cert.serialize_der().expect("harness: client cert der"),
            cert.get_key_pair().serialize_der(),
        )
    })
}

/// Client config, cached per (clientcert, bighello). `bighello = N > 0` inflates the ClientHello
/// to at least N bytes with ceil(N / 256) distinct 255-byte ALPN protocol names (each costs
/// 256 bytes in the extension), which is legal TLS; a server without ALPN ignores them.
fn client_config(clientcert: bool, bighello: usize) -> Arc<ClientConfig> {
    use std::collections::HashMap;
    use std::sync::Mutex;
    static CACHE: OnceLock<Mutex<HashMap<(bool, usize), Arc<ClientConfig>>>> = OnceLock::new();
    let cache = CACHE.get_or_init(|| Mutex::new(HashMap::new()));
    let mut cache = cache.lock().unwrap_or_else(|e| e.into_inner());
    cache
        .entry((clientcert, bighello))
        .or_insert_with(|| {
            let b = ClientConfig::builder()
                .dangerous()
                .with_custom_certificate_verifier(Arc::new(AcceptAnyServerCert));
            let mut cfg = if clientcert {
                let (cert, key) = client_identity();
                b.with_client_auth_cert(
                    vec![CertificateDer::from(cert.clone())],
                    PrivateKeyDer::Pkcs8(key.clone().into()),
                )
                .expect("harness: rustls client config")
            } else {
                b.with_no_client_auth()
            };
            if bighello > 0 {
                let n = (bighello + 255) / 256;
                cfg.alpn_protocols = (0..n)
                    .map(|i| {
                        let mut name = format!("harness-pad-{:05}-", i).into_bytes();
                        name.resize(255, b'x');
                        name
                    })
                    .collect();
            }
            Arc::new(cfg)
        })
        .clone()
}

// ---------------------------------------------------------------------------------------------
// Transport state (thread-local so that the panic hook can finish an aborting case)

struct TlsState {
    client: ClientConnection,
    /// undelivered remainder of the `pre` + first-k-bytes-of-ClientHello block
    pre_block: Vec<u8>,
    pre_pos: usize,
    prechunks: Vec<usize>,
    prechunk_i: usize,
    /// undelivered client ciphertext (everything after the pre block)
    cipher: Vec<u8>,
    cipher_pos: usize,
    chunks: Option<Vec<usize>>,
    chunk_i: usize,
    /// plaintext to send through TLS once the handshake is done
    plain: Vec<u8>,
    plain_sent: bool,
    /// the client hit a TLS error while digesting server bytes; it is not fed any more
    client_failed: bool,
    flushed_once: bool,
    /// server bytes written before the first flush (the greeting)
    plainout: Vec<u8>,
    /// server bytes written after the first flush (must be TLS records)
    after: Vec<u8>,
    /// everything the client decrypted
    tlsout: Vec<u8>,
    /// server bytes written after the greeting and not yet flushed: the transport hands bytes to the
    /// peer only on flush()
    pending: Vec<u8>,
    /// number of read() calls made while written bytes were waiting for a flush
    unflushed_reads: usize,
    /// at most this many bytes are accepted per write() (0 = everything)
    wcap: usize,
}

thread_local! {
    static TS: RefCell<Option<TlsState>> = const { RefCell::new(None) };
}

impl TlsState {
    /// Move whatever the client wants to send into `cipher`.
    fn pump_client(&mut self) {
        while self.client.wants_write() {
            if self.cipher_pos > 0 && self.cipher_pos == self.cipher.len() {
                self.cipher.clear();
                self.cipher_pos = 0;
            }
            match self.client.write_tls(&mut self.cipher) {
                Ok(0) | Err(_) => break,
                Ok(_) => {}
            }
        }
    }

    /// Feed server bytes to the client; collect decrypted plaintext; send `plain` when possible.
    fn feed_client(&mut self, mut buf: &[u8]) {
        while !buf.is_empty() && !self.client_failed {
            match self.client.read_tls(&mut buf) {
                Ok(0) | Err(_) => {
                    self.client_failed = true;
                    break;
                }
                Ok(_) => {}
            }
            if self.client.process_new_packets().is_err() {
                self.client_failed = true;
                // let a pending alert go out
                break;
            }
            let mut tmp = [0u8; 4096];
            loop {
                match self.client.reader().read(&mut tmp) {
                    Ok(0) | Err(_) => break,
                    Ok(n) => self.tlsout.extend_from_slice(&tmp[..n]),
                }
            }
        }
        if !self.client_failed && !self.plain_sent && !self.client.is_handshaking() {
            self.plain_sent = true;
            let plain = std::mem::take(&mut self.plain);
            let _ = self.client.writer().write_all(&plain);
            // the client is done after `plain`: orderly shutdown of its sending side
            self.client.send_close_notify();
        }
    }
}

pub struct TlsTransport;

impl Read for TlsTransport {
    fn read(&mut self, buf: &mut [u8]) -> io::Result<usize> {
        TS.with(|ts| {
            let mut ts = ts.borrow_mut();
            let ts = ts.as_mut().expect("harness: tls state missing");
            if !ts.pending.is_empty() {
                ts.unflushed_reads += 1;
            }
            // 1. the `pre` + k block
            if ts.pre_pos < ts.pre_block.len() {
                let avail = ts.pre_block.len() - ts.pre_pos;
                let want = if ts.prechunks.is_empty() {
                    avail
                } else {
                    let w = ts.prechunks[ts.prechunk_i % ts.prechunks.len()];
                    ts.prechunk_i += 1;
                    w
                };
                let n = want.min(avail).min(buf.len());
                buf[..n].copy_from_slice(&ts.pre_block[ts.pre_pos..ts.pre_pos + n]);
                ts.pre_pos += n;
                return Ok(n);
            }
            // 2. later ciphertext
            ts.pump_client();
            let avail = ts.cipher.len() - ts.cipher_pos;
            if avail > 0 {
                let want = match &ts.chunks {
                    None => avail,
                    Some(c) => {
                        let w = c[ts.chunk_i % c.len()];
                        ts.chunk_i += 1;
                        w
                    }
                };
                let n = want.min(avail).min(buf.len());
                buf[..n].copy_from_slice(&ts.cipher[ts.cipher_pos..ts.cipher_pos + n]);
                ts.cipher_pos += n;
                return Ok(n);
            }
            // 3. nothing to deliver. Everything is synchronous: the client only ever produces
            // bytes in reaction to server writes, and all of those have been digested already.
            // So nothing will ever come: end of stream (whether the client is done with `plain`,
            // still waiting for a handshake flight the server will never send, or has failed).
            Ok(0)
        })
    }
}

impl Write for TlsTransport {
    fn write(&mut self, buf: &[u8]) -> io::Result<usize> {
        TS.with(|ts| {
            let mut ts = ts.borrow_mut();
            let ts = ts.as_mut().expect("harness: tls state missing");
            let n = if ts.wcap > 0 && ts.flushed_once { buf.len().min(ts.wcap) } else { buf.len() };
            let buf = &buf[..n];
            if !ts.flushed_once {
                ts.plainout.extend_from_slice(buf);
            } else {
                ts.after.extend_from_slice(buf);
                ts.pending.extend_from_slice(buf);
            }
            Ok(n)
        })
    }

    fn flush(&mut self) -> io::Result<()> {
        TS.with(|ts| {
            if let Some(ts) = ts.borrow_mut().as_mut() {
                ts.flushed_once = true;
                let pending = std::mem::take(&mut ts.pending);
                ts.feed_client(&pending);
            }
        });
        Ok(())
    }
}

/// `ok` or `bad:<reason>` for the bytes the server wrote after the greeting.
fn check_records(b: &[u8]) -> &'static str {
    let mut i = 0;
    while i < b.len() {
        if b.len() - i < 5 {
            return "bad:truncated";
        }
        if !(20..=23).contains(&b[i]) {
            return "bad:type";
        }
        if b[i + 1] != 3 {
            return "bad:version";
        }
        let len = usize::from(b[i + 3]) << 8 | usize::from(b[i + 4]);
        if len > 16640 {
            return "bad:length";
        }
        if b.len() - i - 5 < len {
            return "bad:truncated";
        }
        i += 5 + len;
    }
    "ok"
}

/// Finish the current case: tlsrec, certs, tlsout, plainout, result. Also used by the abort path.
pub fn finish_case(result: &str) -> (String, Vec<Aux>) {
    let st = TS.with(|ts| ts.borrow_mut().take());
    CS.with(|cs| {
        let mut cs = cs.borrow_mut();
        let cs = &mut *cs;
        let mut log = std::mem::take(&mut cs.log);
        let id = cs.id.clone();
        let line = |log: &mut String, f: &dyn Fn(&mut String)| {
            log.push_str(&id);
            log.push('|');
            f(log);
            log.push('\n');
        };
        let (after, tlsout, plainout): (&[u8], &[u8], &[u8]) = match &st {
            Some(s) => (&s.after, &s.tlsout, &s.plainout),
            None => (&[], &[], &[]),
        };
        line(&mut log, &|l| {
            l.push_str("tlsrec|");
            l.push_str(check_records(after));
        });
        let unflushed_reads = st.as_ref().map(|s| s.unflushed_reads).unwrap_or(0);
        line(&mut log, &|l| {
            l.push_str("tlsflush|");
            if unflushed_reads == 0 {
                l.push_str("ok");
            } else {
                l.push_str(&format!("bad:{}", unflushed_reads));
            }
        });
        let certs = cs.certs;
        line(&mut log, &|l| {
            l.push_str("certs|");
            match certs {
                Some(Some(n)) => l.push_str(&n.to_string()),
                _ => l.push_str("none"),
            }
        });
        line(&mut log, &|l| {
            l.push_str("tlsout|");
            push_hex(l, tlsout);
        });
        line(&mut log, &|l| {
            l.push_str("plainout|");
            push_hex(l, plainout);
        });
        line(&mut log, &|l| {
            l.push_str("result|");
            l.push_str(result);
        });
        (log, std::mem::take(&mut cs.aux))
    })
}

/// Run one tls-mode case on the current thread.
pub fn run_case(case: Case) -> (String, Vec<Aux>) {
    let mut case = case;
    let parse_aux = std::mem::take(&mut case.aux);
    CS.with(|cs| {
        *cs.borrow_mut() = conn::CaseState {
            id: case.id.clone(),
            aux: parse_aux,
            ..Default::default()
        };
    });
    #[cfg(feature = "hooks")]
    msql_srv::verif::set_packet_limit(case.lim);
    #[cfg(not(feature = "hooks"))]
    assert_eq!(case.lim, 16_777_215, "production build of msql-srv: the packet limit is fixed");
    if case.tls {
        // build the shared configs outside of the caught region
        if case.clientcert {
            let _ = server_config_client_auth();
        } else {
            let _ = conn::tls_config();
        }
    }
    // The client is created up front so that its ClientHello is available immediately.
    let mut client = ClientConnection::new(
        client_config(case.clientcert, case.bighello),
        ServerName::try_from("localhost").expect("harness: server name"),
    )
    .expect("harness: cannot create rustls client");
    let mut hello = Vec::new();
    while client.wants_write() {
        match client.write_tls(&mut hello) {
            Ok(0) | Err(_) => break,
            Ok(_) => {}
        }
    }
    if std::env::var_os("HARNESS_TLS_DEBUG").is_some() {
        eprintln!("harness: case {}: ClientHello is {} bytes", case.id, hello.len());
    }
    let k = case.split.min(hello.len());
    let mut pre_block = std::mem::take(&mut case.pre);
    pre_block.extend_from_slice(&hello[..k]);
    let cipher = hello[k..].to_vec();
    TS.with(|ts| {
        *ts.borrow_mut() = Some(TlsState {
            client,
            pre_block,
            pre_pos: 0,
            prechunks: std::mem::take(&mut case.prechunks),
            prechunk_i: 0,
            cipher,
            cipher_pos: 0,
            chunks: case.chunks.take(),
            chunk_i: 0,
            plain: std::mem::take(&mut case.plain),
            plain_sent: false,
            client_failed: false,
            flushed_once: false,
            plainout: Vec::new(),
            after: Vec::new(),
            tlsout: Vec::new(),
            pending: Vec::new(),
            unflushed_reads: 0,
            wcap: case.wcap,
        });
    });
    let case = Arc::new(case);
    let inner = Inner::new(case.clone());
    let r = if case.dinit {
        let shim = ShimDefaultInit(inner);
        panics::caught(move || MysqlIntermediary::run_on(shim, TlsTransport))
    } else {
        let shim = Shim(inner);
        panics::caught(move || MysqlIntermediary::run_on(shim, TlsTransport))
    };
    let result = match r {
        Ok(Ok(())) => "ok".to_string(),
        Ok(Err(e)) => format!("err {}", conn::shim_kind(&e)),
        Err(site) => format!("panic {}", site),
    };
    finish_case(&result)
}
