//! The dynamic value: parsed from `val` tokens, implements `ToMysqlValue` by forwarding to the
//! REAL impl of the concrete Rust type named by the token.

use crate::util::{parse_dec, parse_hex_u32, parse_hex_u64, parse_hexspec, Aux, Toks};
use chrono::{NaiveDate, NaiveDateTime};
use msql_srv::{Column, ToMysqlValue};
use mysql_common::value::Value as MyValue;
use std::io::{self, Write};
use std::time::Duration;

#[derive(Debug, Clone)]
pub enum Val {
    U8(u8),
    I8(i8),
    U16(u16),
    I16(i16),
    U32(u32),
    I32(i32),
    U64(u64),
    I64(i64),
    Usize(usize),
    Isize(isize),
    F32(f32),
    F64(f64),
    /// `b:` a `&[u8]`
    B(Vec<u8>),
    /// `vec:` a `Vec<u8>`
    VecU8(Vec<u8>),
    /// `s:` a `&str`
    S(String),
    /// `string:` a `String`
    Str(String),
    Date(NaiveDate),
    Dt(NaiveDateTime),
    Dur(Duration),
    /// `none`: `None::<u8>`
    NoneU8,
    /// `m...`: a `mysql_common::Value`
    M(MyValue),
    Some(Box<Val>),
    Ref(Box<Val>),
}

/// Maximum number of `some`/`ref` wrappers around a leaf.
pub const MAX_NEST: usize = 2;

fn utf8(b: Vec<u8>, what: &str) -> Result<String, String> {
    String::from_utf8(b).map_err(|_| format!("{} is not valid UTF-8", what))
}

fn fields<'a>(s: &'a str, n: usize, what: &str) -> Result<Vec<&'a str>, String> {
    let v: Vec<&str> = s.split(':').collect();
    if v.len() != n {
        return Err(format!("{} needs {} `:`-separated fields", what, n));
    }
    Ok(v)
}

/// Parse one value (1 or more tokens). Floats met are appended to `aux`.
pub fn parse_val(t: &mut Toks<'_>, aux: &mut Vec<Aux>) -> Result<Val, String> {
    parse_val_depth(t, aux, 0)
}

fn parse_val_depth(t: &mut Toks<'_>, aux: &mut Vec<Aux>, depth: usize) -> Result<Val, String> {
    let tok = t.next()?;
    match tok {
        "some" | "ref" => {
            if depth >= MAX_NEST {
                return Err("some/ref nested more than two deep".into());
            }
            let inner = parse_val_depth(t, aux, depth + 1)?;
            return Ok(if tok == "some" {
                Val::Some(Box::new(inner))
            } else {
                Val::Ref(Box::new(inner))
            });
        }
        "none" => return Ok(Val::NoneU8),
        "mnull" => return Ok(Val::M(MyValue::NULL)),
        _ => {}
    }
    let (ty, arg) = tok
        .split_once(':')
        .ok_or_else(|| format!("bad value token `{}`", short(tok)))?;
    Ok(match ty {
        "u8" => Val::U8(parse_dec(arg, "u8")?),
        "i8" => Val::I8(parse_dec(arg, "i8")?),
        "u16" => Val::U16(parse_dec(arg, "u16")?),
        "i16" => Val::I16(parse_dec(arg, "i16")?),
        "u32" => Val::U32(parse_dec(arg, "u32")?),
        "i32" => Val::I32(parse_dec(arg, "i32")?),
        "u64" => Val::U64(parse_dec(arg, "u64")?),
        "i64" => Val::I64(parse_dec(arg, "i64")?),
        "usize" => Val::Usize(parse_dec(arg, "usize")?),
        "isize" => Val::Isize(parse_dec(arg, "isize")?),
        "f32" => {
            let bits = parse_hex_u32(arg)?;
            aux.push(Aux::F32(bits));
            Val::F32(f32::from_bits(bits))
        }
        "f64" => {
            let bits = parse_hex_u64(arg)?;
            aux.push(Aux::F64(bits));
            Val::F64(f64::from_bits(bits))
        }
        "b" => Val::B(parse_hexspec(arg)?),
        "vec" => Val::VecU8(parse_hexspec(arg)?),
        "s" => Val::S(utf8(parse_hexspec(arg)?, "s: value")?),
        "string" => Val::Str(utf8(parse_hexspec(arg)?, "string: value")?),
        "date" => {
            let f = fields(arg, 3, "date")?;
            let d = NaiveDate::from_ymd_opt(
                parse_dec(f[0], "year")?,
                parse_dec(f[1], "month")?,
                parse_dec(f[2], "day")?,
            )
            .ok_or("invalid date")?;
            Val::Date(d)
        }
        "dt" => {
            let f = fields(arg, 7, "dt")?;
            let d = NaiveDate::from_ymd_opt(
                parse_dec(f[0], "year")?,
                parse_dec(f[1], "month")?,
                parse_dec(f[2], "day")?,
            )
            .ok_or("invalid date in dt")?
            .and_hms_nano_opt(
                parse_dec(f[3], "hour")?,
                parse_dec(f[4], "minute")?,
                parse_dec(f[5], "second")?,
                parse_dec(f[6], "nanos")?,
            )
            .ok_or("invalid time in dt")?;
            Val::Dt(d)
        }
        "dur" => {
            let f = fields(arg, 2, "dur")?;
            let secs: u64 = parse_dec(f[0], "secs")?;
            let nanos: u32 = parse_dec(f[1], "nanos")?;
            if secs.checked_add(u64::from(nanos / 1_000_000_000)).is_none() {
                return Err("dur overflows Duration::new".into());
            }
            Val::Dur(Duration::new(secs, nanos))
        }
        "mbytes" => Val::M(MyValue::Bytes(parse_hexspec(arg)?)),
        "mint" => Val::M(MyValue::Int(parse_dec(arg, "mint")?)),
        "muint" => Val::M(MyValue::UInt(parse_dec(arg, "muint")?)),
        "mfloat" => {
            let bits = parse_hex_u32(arg)?;
            aux.push(Aux::F32(bits));
            Val::M(MyValue::Float(f32::from_bits(bits)))
        }
        "mdouble" => {
            let bits = parse_hex_u64(arg)?;
            aux.push(Aux::F64(bits));
            Val::M(MyValue::Double(f64::from_bits(bits)))
        }
        "mdate" => {
            let f = fields(arg, 7, "mdate")?;
            Val::M(MyValue::Date(
                parse_dec(f[0], "year")?,
                parse_dec(f[1], "month")?,
                parse_dec(f[2], "day")?,
                parse_dec(f[3], "hour")?,
                parse_dec(f[4], "minute")?,
                parse_dec(f[5], "second")?,
                parse_dec(f[6], "micros")?,
            ))
        }
        "mtime" => {
            let f = fields(arg, 6, "mtime")?;
            let neg = match f[0] {
                "0" => false,
                "1" => true,
                _ => return Err("mtime NEG must be 0 or 1".into()),
            };
            Val::M(MyValue::Time(
                neg,
                parse_dec(f[1], "days")?,
                parse_dec(f[2], "hours")?,
                parse_dec(f[3], "minutes")?,
                parse_dec(f[4], "seconds")?,
                parse_dec(f[5], "micros")?,
            ))
        }
        _ => return Err(format!("unknown value token `{}`", short(tok))),
    })
}

fn short(s: &str) -> &str {
    let mut e = s.len().min(40);
    while !s.is_char_boundary(e) {
        e -= 1;
    }
    &s[..e]
}

// ---------------------------------------------------------------------------------------------
// Dispatch to the concrete type. No polymorphic recursion: three non-recursive levels.

pub trait Visitor {
    type Out;
    fn visit<T: ToMysqlValue>(self, t: T) -> Self::Out;
}

/// Turns the visited `T` into `Some(T)` (an `Option<T>`).
struct SomeAdapter<V>(V);
impl<V: Visitor> Visitor for SomeAdapter<V> {
    type Out = V::Out;
    #[inline]
    fn visit<T: ToMysqlValue>(self, t: T) -> Self::Out {
        self.0.visit::<Option<T>>(Some(t))
    }
}

/// Turns the visited `T` into `&T`.
struct RefAdapter<V>(V);
impl<V: Visitor> Visitor for RefAdapter<V> {
    type Out = V::Out;
    #[inline]
    fn visit<T: ToMysqlValue>(self, t: T) -> Self::Out {
        self.0.visit::<&T>(&t)
    }
}

fn leaf<V: Visitor>(val: &Val, v: V) -> V::Out {
    match val {
        Val::U8(x) => v.visit::<u8>(*x),
        Val::I8(x) => v.visit::<i8>(*x),
        Val::U16(x) => v.visit::<u16>(*x),
        Val::I16(x) => v.visit::<i16>(*x),
        Val::U32(x) => v.visit::<u32>(*x),
        Val::I32(x) => v.visit::<i32>(*x),
        Val::U64(x) => v.visit::<u64>(*x),
        Val::I64(x) => v.visit::<i64>(*x),
        Val::Usize(x) => v.visit::<usize>(*x),
        Val::Isize(x) => v.visit::<isize>(*x),
        Val::F32(x) => v.visit::<f32>(*x),
        Val::F64(x) => v.visit::<f64>(*x),
        Val::B(x) => v.visit::<&[u8]>(&x[..]),
        Val::VecU8(x) => v.visit::<Vec<u8>>(x.clone()),
        Val::S(x) => v.visit::<&str>(&x[..]),
        Val::Str(x) => v.visit::<String>(x.clone()),
        Val::Date(x) => v.visit::<NaiveDate>(*x),
        Val::Dt(x) => v.visit::<NaiveDateTime>(*x),
        Val::Dur(x) => v.visit::<Duration>(*x),
        Val::NoneU8 => v.visit::<Option<u8>>(None::<u8>),
        Val::M(x) => v.visit::<MyValue>(x.clone()),
        Val::Some(_) | Val::Ref(_) => {
            unreachable!("harness: value nested deeper than the parser allows")
        }
    }
}

fn level1<V: Visitor>(val: &Val, v: V) -> V::Out {
    match val {
        Val::Some(inner) => leaf(inner, SomeAdapter(v)),
        Val::Ref(inner) => leaf(inner, RefAdapter(v)),
        _ => leaf(val, v),
    }
}

/// Entry point: at most two wrappers.
pub fn dispatch<V: Visitor>(val: &Val, v: V) -> V::Out {
    match val {
        Val::Some(inner) => level1(inner, SomeAdapter(v)),
        Val::Ref(inner) => level1(inner, RefAdapter(v)),
        _ => leaf(val, v),
    }
}

struct TextV<'w, W: Write>(&'w mut W);
impl<'w, W: Write> Visitor for TextV<'w, W> {
    type Out = io::Result<()>;
    #[inline]
    fn visit<T: ToMysqlValue>(self, t: T) -> Self::Out {
        t.to_mysql_text(self.0)
    }
}

struct BinV<'w, 'c, W: Write>(&'w mut W, &'c Column);
impl<'w, 'c, W: Write> Visitor for BinV<'w, 'c, W> {
    type Out = io::Result<()>;
    #[inline]
    fn visit<T: ToMysqlValue>(self, t: T) -> Self::Out {
        t.to_mysql_bin(self.0, self.1)
    }
}

struct NullV;
impl Visitor for NullV {
    type Out = bool;
    #[inline]
    fn visit<T: ToMysqlValue>(self, t: T) -> Self::Out {
        t.is_null()
    }
}

/// What the programs hand to `write_col` / `write_row`, and what `val` mode evaluates.
/// (Deliberately not `&Val`: `<&T as ToMysqlValue>` does not forward `is_null`.)
#[derive(Clone, Copy)]
pub struct DynVal<'a>(pub &'a Val);

impl<'a> ToMysqlValue for DynVal<'a> {
    fn to_mysql_text<W: Write>(&self, w: &mut W) -> io::Result<()> {
        dispatch(self.0, TextV(w))
    }
    fn to_mysql_bin<W: Write>(&self, w: &mut W, c: &Column) -> io::Result<()> {
        dispatch(self.0, BinV(w, c))
    }
    fn is_null(&self) -> bool {
        dispatch(self.0, NullV)
    }
}
