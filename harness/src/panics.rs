//! Panic hook (records file + message in a thread-local, prints nothing for case panics) and
//! the mapping from (file basename, message pattern) to the site keys of FORMAT.md.

use std::cell::{Cell, RefCell};
use std::panic::{self, AssertUnwindSafe};

thread_local! {
    /// (file, message) of every panic since the last `begin()`, in order.
    static PANICS: RefCell<Vec<(String, String)>> = const { RefCell::new(Vec::new()) };
    /// True while a case is being run under `caught`.
    static ARMED: Cell<bool> = const { Cell::new(false) };
    /// Called from the hook when a second panic happens while the first one is still unwinding
    /// (the runtime would abort the process when the hook returns). Gets the combined site key.
    /// If it is set the hook never returns (the thread is parked forever).
    static ON_ABORT: RefCell<Option<Box<dyn Fn(&str)>>> = const { RefCell::new(None) };
}

pub fn set_on_abort(f: Option<Box<dyn Fn(&str)>>) {
    ON_ABORT.with(|c| *c.borrow_mut() = f);
}

pub fn install_hook() {
    panic::set_hook(Box::new(|info| {
        let file = info
            .location()
            .map(|l| l.file().to_string())
            .unwrap_or_else(|| "?".to_string());
        let msg = if let Some(s) = info.payload().downcast_ref::<&str>() {
            (*s).to_string()
        } else if let Some(s) = info.payload().downcast_ref::<String>() {
            s.clone()
        } else {
            "<non-string panic payload>".to_string()
        };
        let armed = ARMED.with(|a| a.get());
        if !armed {
            // a bug in the harness itself: be loud
            eprintln!(
                "harness: internal panic at {}:{}: {}",
                file,
                info.location().map(|l| l.line()).unwrap_or(0),
                msg
            );
            return;
        }
        let n = PANICS.with(|p| match p.try_borrow_mut() {
            Ok(mut v) => {
                v.push((file.clone(), msg.clone()));
                v.len()
            }
            Err(_) => 0,
        });
        if n >= 2 {
            // panic while panicking: the process is about to abort. Hand the case over.
            let key = PANICS.with(|p| {
                let v = p.borrow();
                let mut s = String::new();
                for (i, (f, m)) in v.iter().enumerate() {
                    if i > 0 {
                        s.push('+');
                    }
                    s.push_str(&classify(f, m));
                }
                s
            });
            let handled = ON_ABORT.with(|c| match c.try_borrow() {
                Ok(cb) => {
                    if let Some(cb) = cb.as_ref() {
                        cb(&key);
                        true
                    } else {
                        false
                    }
                }
                Err(_) => false,
            });
            if handled {
                loop {
                    std::thread::park();
                }
            } else {
                eprintln!("harness: double panic ({}), process aborts", key);
            }
        }
    }));
}

/// Run `f` with panics caught; `Err(site)` if it panicked.
pub fn caught<R>(f: impl FnOnce() -> R) -> Result<R, String> {
    PANICS.with(|p| p.borrow_mut().clear());
    ARMED.with(|a| a.set(true));
    let r = panic::catch_unwind(AssertUnwindSafe(f));
    ARMED.with(|a| a.set(false));
    match r {
        Ok(v) => Ok(v),
        Err(_) => {
            let site = PANICS.with(|p| {
                let v = p.borrow();
                match v.first() {
                    Some((f, m)) => classify(f, m),
                    None => "Other:?:".to_string(),
                }
            });
            PANICS.with(|p| p.borrow_mut().clear());
            Err(site)
        }
    }
}

pub fn classify(file: &str, msg: &str) -> String {
    let base = file.rsplit(['/', '\\']).next().unwrap_or(file);
    let overflow = msg.starts_with("attempt to ") && msg.contains("overflow");
    let unwrap_err = msg.starts_with("called `Result::unwrap()` on an `Err` value");
    let assertion = msg.starts_with("assertion ");

    if msg.contains("Unknown error type") {
        return "FromU16".into();
    }
    if msg.contains("bad column type") {
        return "ParamsBadType".into();
    }
    if msg.contains("invalid type conversion") {
        return "Conv".into();
    }
    match base {
        "packet.rs" => {
            if assertion {
                return "FragSeq".into();
            }
            if overflow {
                return "SeqOverflow".into();
            }
        }
        "params.rs" => {
            if msg.contains("mid > len") {
                return "ParamsSplit".into();
            }
            if msg.starts_with("index out of bounds") {
                return "ParamsBoundIndex".into();
            }
            if unwrap_err {
                return "ParamsValue".into();
            }
        }
        "decode.rs" => {
            if overflow {
                return "ConvOverflow".into();
            }
            return "Conv".into();
        }
        "encode.rs" => {
            if msg.contains("unreachable code") {
                return "NullBin".into();
            }
            if msg.starts_with("assertion failed") {
                return "EncodeAssert".into();
            }
        }
        "resultset.rs" => {
            if unwrap_err {
                return "DropUnwrap".into();
            }
        }
        "lib.rs" => {
            if overflow {
                return "SeqOverflow".into();
            }
            if unwrap_err {
                return "ParseUnwrap".into();
            }
        }
        _ => {}
    }
    let m: String = msg
        .chars()
        .take(40)
        .map(|c| if (c as u32) < 0x20 || c == '\x7f' { ' ' } else { c })
        .collect();
    format!("Other:{}:{}", base, m)
}
