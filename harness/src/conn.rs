//! `conn` mode: case parser, scripted transport, scripted shim, one `run_on` per case.

use crate::panics;
use crate::util::{hex, injected, io_kind, parse_dec, push_hex, Aux, Toks};
use crate::val::{parse_val, DynVal, Val};
use chrono::{Datelike, NaiveDate, NaiveDateTime, Timelike};
use msql_srv::{
    AuthenticationContext, Column, ColumnFlags, ColumnType, ErrorKind, InitWriter,
    MysqlIntermediary, MysqlShim, ParamParser, QueryResultWriter, RowWriter, StatementMetaWriter,
    ValueInner,
};
use std::cell::RefCell;
use std::collections::VecDeque;
use std::convert::TryFrom;
use std::fmt::Write as FmtWrite;
use std::io::{self, Read, Write};
use std::sync::{Arc, OnceLock};
use std::time::Duration;

// ---------------------------------------------------------------------------------------------
// Case AST

#[derive(Debug, Clone)]
pub enum RTok {
    D(Vec<u8>),
    Eof,
    Err(u64),
}

#[derive(Debug, Clone, Copy)]
pub enum Fault {
    None,
    Once(u64, u64),
    From(u64, u64),
}

/// Flattened qprog/rprog (every program form has exactly one continuation).
#[derive(Debug)]
pub enum Op {
    // on a QueryResultWriter
    Start(Vec<Column>),
    C1(u64, u64),
    Done(u64, u64),
    QErr(u16, Vec<u8>),
    NoMore,
    QDrop,
    // on a RowWriter
    Wc(Val, bool),
    Er(bool),
    Wr(Vec<Val>, bool),
    Fin,
    Fin1,
    Ferr(u16, Vec<u8>),
    RDrop,
}

#[derive(Debug)]
pub struct QLine {
    pub ops: Vec<Op>,
    pub ret: Option<u64>,
}

#[derive(Debug)]
pub enum PProg {
    Reply(u32, Vec<Column>, Vec<Column>),
    Err(u16, Vec<u8>),
    NoReply,
}

#[derive(Debug)]
pub struct PLine {
    pub prog: PProg,
    pub ret: Option<u64>,
}

#[derive(Debug)]
pub enum IProg {
    Ok,
    Err(u16, Vec<u8>),
    NoReply,
}

#[derive(Debug)]
pub struct ILine {
    pub prog: IProg,
    pub ret: Option<u64>,
}

#[derive(Debug, Clone, Copy, PartialEq, Eq)]
pub enum Conv {
    None,
    U8,
    I8,
    U16,
    I16,
    U32,
    I32,
    U64,
    I64,
    F32,
    F64,
    Bytes,
    Str,
    Date,
    Datetime,
    Dur,
}

#[derive(Debug)]
pub struct XLine {
    /// None = `all`
    pub pull: Option<u64>,
    pub convs: Vec<Conv>,
    pub q: QLine,
}

#[derive(Debug)]
pub struct Case {
    pub id: String,
    pub lim: usize,
    pub tls: bool,
    /// `dinit=1`: use the shim type that does not override `on_init`
    pub dinit: bool,
    /// the transport accepts at most this many bytes per write() call (0 = everything): short writes
    pub wcap: usize,
    /// from this many bytes of output on, the transport's write() accepts nothing and returns Ok(0) (a full sink);
    /// 0 = never
    pub wzero: usize,
    // tls mode only
    pub clientcert: bool,
    /// minimum ClientHello size (0 = rustls default hello)
    pub bighello: usize,
    pub pre: Vec<u8>,
    pub plain: Vec<u8>,
    pub split: usize,
    pub prechunks: Vec<usize>,
    /// None = `*`
    pub chunks: Option<Vec<usize>>,
    pub auth: Option<u64>,
    pub reads: Vec<RTok>,
    pub fault: Fault,
    pub q: Vec<QLine>,
    pub p: Vec<PLine>,
    pub x: Vec<XLine>,
    pub i: Vec<ILine>,
    pub def_q: QLine,
    pub def_p: PLine,
    pub def_x: XLine,
    pub def_i: ILine,
    /// floats met while parsing
    pub aux: Vec<Aux>,
}

// ---------------------------------------------------------------------------------------------
// Parser

fn coltype(n: u8) -> Result<ColumnType, String> {
    if n == 14 {
        return Ok(ColumnType::MYSQL_TYPE_NEWDATE);
    }
    ColumnType::try_from(n).map_err(|_| format!("{} is not a ColumnType", n))
}

pub fn make_column(table: String, column: String, ty: u8, flags: u16) -> Result<Column, String> {
    Ok(Column {
        table,
        column,
        coltype: coltype(ty)?,
        colflags: ColumnFlags::from_bits_truncate(flags),
    })
}

fn parse_col(t: &mut Toks<'_>) -> Result<Column, String> {
    let table =
        String::from_utf8(t.hexspec()?).map_err(|_| "column table is not UTF-8".to_string())?;
    let name =
        String::from_utf8(t.hexspec()?).map_err(|_| "column name is not UTF-8".to_string())?;
    let ty: u8 = t.num("column type")?;
    let flags: u16 = t.num("column flags")?;
    make_column(table, name, ty, flags)
}

fn parse_cols(t: &mut Toks<'_>) -> Result<Vec<Column>, String> {
    let n: usize = t.num("column count")?;
    let mut v = Vec::with_capacity(n.min(4096));
    for _ in 0..n {
        v.push(parse_col(t)?);
    }
    Ok(v)
}

fn parse_pi(t: &mut Toks<'_>) -> Result<bool, String> {
    match t.next()? {
        "p" => Ok(true),
        "i" => Ok(false),
        o => Err(format!("expected p or i, got `{}`", o)),
    }
}

fn parse_qprog(t: &mut Toks<'_>, aux: &mut Vec<Aux>) -> Result<Vec<Op>, String> {
    let mut ops = Vec::new();
    let mut in_rows = false;
    loop {
        let tok = t.next()?;
        if !in_rows {
            match tok {
                "start" => {
                    ops.push(Op::Start(parse_cols(t)?));
                    in_rows = true;
                }
                "c1" => {
                    let rows = t.num("rows")?;
                    let id = t.num("last insert id")?;
                    ops.push(Op::C1(rows, id));
                }
                "done" => {
                    let rows = t.num("rows")?;
                    let id = t.num("last insert id")?;
                    ops.push(Op::Done(rows, id));
                    return Ok(ops);
                }
                "err" => {
                    let code = t.num("error code")?;
                    let msg = t.hexspec()?;
                    ops.push(Op::QErr(code, msg));
                    return Ok(ops);
                }
                "nomore" => {
                    ops.push(Op::NoMore);
                    return Ok(ops);
                }
                "drop" => {
                    ops.push(Op::QDrop);
                    return Ok(ops);
                }
                o => return Err(format!("unknown qprog form `{}`", o)),
            }
        } else {
            match tok {
                "wc" => {
                    let v = parse_val(t, aux)?;
                    let p = parse_pi(t)?;
                    ops.push(Op::Wc(v, p));
                }
                "er" => {
                    let p = parse_pi(t)?;
                    ops.push(Op::Er(p));
                }
                "wr" => {
                    let n: usize = t.num("value count")?;
                    let mut vals = Vec::with_capacity(n.min(4096));
                    for _ in 0..n {
                        vals.push(parse_val(t, aux)?);
                    }
                    let p = parse_pi(t)?;
                    ops.push(Op::Wr(vals, p));
                }
                "fin" => {
                    ops.push(Op::Fin);
                    return Ok(ops);
                }
                "fin1" => {
                    ops.push(Op::Fin1);
                    in_rows = false;
                }
                "ferr" => {
                    let code = t.num("error code")?;
                    let msg = t.hexspec()?;
                    ops.push(Op::Ferr(code, msg));
                    return Ok(ops);
                }
                "drop" => {
                    ops.push(Op::RDrop);
                    return Ok(ops);
                }
                o => return Err(format!("unknown rprog form `{}`", o)),
            }
        }
    }
}

/// Split an optional trailing ` ret:TAG` off a directive's argument string.
fn split_ret(rest: &str) -> Result<(&str, Option<u64>), String> {
    let (head, last) = match rest.rsplit_once(' ') {
        Some((h, l)) => (h, l),
        None => ("", rest),
    };
    if let Some(tag) = last.strip_prefix("ret:") {
        let tag: u64 = parse_dec(tag, "ret tag")?;
        Ok((head, Some(tag)))
    } else {
        Ok((rest, None))
    }
}

fn toks(s: &str) -> Toks<'_> {
    if s.is_empty() {
        Toks::empty()
    } else {
        Toks::new(s)
    }
}

fn parse_qline(rest: &str, aux: &mut Vec<Aux>) -> Result<QLine, String> {
    let (body, ret) = split_ret(rest)?;
    let mut t = toks(body);
    let ops = parse_qprog(&mut t, aux)?;
    t.expect_end()?;
    Ok(QLine { ops, ret })
}

fn parse_pline(rest: &str) -> Result<PLine, String> {
    let (body, ret) = split_ret(rest)?;
    let mut t = toks(body);
    let prog = match t.next()? {
        "reply" => {
            let id: u32 = t.num("statement id")?;
            let params = parse_cols(&mut t)?;
            let cols = parse_cols(&mut t)?;
            PProg::Reply(id, params, cols)
        }
        "err" => {
            let code = t.num("error code")?;
            let msg = t.hexspec()?;
            PProg::Err(code, msg)
        }
        "noreply" => PProg::NoReply,
        o => return Err(format!("unknown pprog form `{}`", o)),
    };
    t.expect_end()?;
    Ok(PLine { prog, ret })
}

fn parse_iline(rest: &str) -> Result<ILine, String> {
    let (body, ret) = split_ret(rest)?;
    let mut t = toks(body);
    let prog = match t.next()? {
        "ok" => IProg::Ok,
        "err" => {
            let code = t.num("error code")?;
            let msg = t.hexspec()?;
            IProg::Err(code, msg)
        }
        "noreply" => IProg::NoReply,
        o => return Err(format!("unknown iprog form `{}`", o)),
    };
    t.expect_end()?;
    Ok(ILine { prog, ret })
}

fn parse_conv(s: &str) -> Result<Conv, String> {
    Ok(match s {
        "none" => Conv::None,
        "u8" => Conv::U8,
        "i8" => Conv::I8,
        "u16" => Conv::U16,
        "i16" => Conv::I16,
        "u32" => Conv::U32,
        "i32" => Conv::I32,
        "u64" => Conv::U64,
        "i64" => Conv::I64,
        "f32" => Conv::F32,
        "f64" => Conv::F64,
        "bytes" => Conv::Bytes,
        "str" => Conv::Str,
        "date" => Conv::Date,
        "datetime" => Conv::Datetime,
        "dur" => Conv::Dur,
        o => return Err(format!("unknown conversion `{}`", o)),
    })
}

fn parse_xline(rest: &str, aux: &mut Vec<Aux>) -> Result<XLine, String> {
    let (body, ret) = split_ret(rest)?;
    let mut t = toks(body);
    let pull = match t.next()? {
        "all" => None,
        n => Some(parse_dec::<u64>(n, "pull count")?),
    };
    let convs = match t.next()? {
        "-" => Vec::new(),
        l => l.split(',').map(parse_conv).collect::<Result<Vec<_>, _>>()?,
    };
    let ops = parse_qprog(&mut t, aux)?;
    t.expect_end()?;
    Ok(XLine {
        pull,
        convs,
        q: QLine { ops, ret },
    })
}

fn parse_reads(rest: &str) -> Result<Vec<RTok>, String> {
    let mut v = Vec::new();
    let mut t = toks(rest);
    while !t.at_end() {
        let tok = t.next()?;
        if tok == "eof" {
            v.push(RTok::Eof);
        } else if let Some(k) = tok.strip_prefix("err:") {
            v.push(RTok::Err(parse_dec(k, "err K")?));
        } else if let Some(h) = tok.strip_prefix("d:") {
            let b = crate::util::parse_hexspec(h)?;
            if b.is_empty() {
                return Err("d: chunk must not be empty".into());
            }
            v.push(RTok::D(b));
        } else {
            return Err("bad read token (expected d:<hexspec> | eof | err:K)".into());
        }
    }
    Ok(v)
}

fn parse_fault(rest: &str) -> Result<Fault, String> {
    if rest == "none" {
        return Ok(Fault::None);
    }
    let f: Vec<&str> = rest.split(':').collect();
    if f.len() != 3 {
        return Err("fault must be none | once:OP:K | from:OP:K".into());
    }
    let op: u64 = parse_dec(f[1], "fault OP")?;
    let k: u64 = parse_dec(f[2], "fault K")?;
    match f[0] {
        "once" => Ok(Fault::Once(op, k)),
        "from" => Ok(Fault::From(op, k)),
        _ => Err("fault must be none | once:OP:K | from:OP:K".into()),
    }
}

/// Parse the lines of one case (from `case <id>` to `end`, both included).
/// Errors carry the 0-based offset of the offending line within `lines`.
pub fn parse_case(lines: &[&str], tls_mode: bool) -> Result<Case, (usize, String)> {
    let mut aux = Vec::new();
    let id = lines[0]
        .strip_prefix("case ")
        .ok_or((0, "expected `case <id>`".to_string()))?;
    if id.is_empty() || id.contains(' ') || id.contains('|') {
        return Err((0, "bad case id".into()));
    }
    let mut c = Case {
        id: id.to_string(),
        lim: 16_777_215,
        tls: false,
        dinit: false,
        wcap: 0,
        wzero: 0,
        clientcert: false,
        bighello: 0,
        pre: Vec::new(),
        plain: Vec::new(),
        split: 0,
        prechunks: Vec::new(),
        chunks: None,
        auth: None,
        reads: Vec::new(),
        fault: Fault::None,
        q: Vec::new(),
        p: Vec::new(),
        x: Vec::new(),
        i: Vec::new(),
        def_q: QLine {
            ops: vec![Op::Done(0, 0)],
            ret: None,
        },
        def_p: PLine {
            prog: PProg::Reply(1, Vec::new(), Vec::new()),
            ret: None,
        },
        def_x: XLine {
            pull: None,
            convs: Vec::new(),
            q: QLine {
                ops: vec![Op::Done(0, 0)],
                ret: None,
            },
        },
        def_i: ILine {
            prog: IProg::Ok,
            ret: None,
        },
        aux: Vec::new(),
    };
    let (mut seen_cfg, mut seen_reads, mut seen_fault) = (false, false, false);
    let mut seen_tls: std::collections::HashSet<&str> = std::collections::HashSet::new();
    let last = lines.len() - 1;
    for (n, line) in lines.iter().enumerate().skip(1) {
        let e = |m: String| (n, m);
        if n == last {
            if *line != "end" {
                return Err(e("expected `end`".into()));
            }
            break;
        }
        let (dir, rest) = match line.split_once(' ') {
            Some((d, r)) => (d, r),
            None => (*line, ""),
        };
        match dir {
            "cfg" => {
                if seen_cfg {
                    return Err(e("duplicate cfg".into()));
                }
                seen_cfg = true;
                let mut t = toks(rest);
                while !t.at_end() {
                    let kv = t.next().map_err(e)?;
                    let (k, v) = kv
                        .split_once('=')
                        .ok_or_else(|| e(format!("bad cfg item `{}`", kv)))?;
                    match k {
                        "lim" => {
                            let m: usize = parse_dec(v, "lim").map_err(e)?;
                            if !(1..=16_777_215).contains(&m) {
                                return Err(e("lim out of range 1..16777215".into()));
                            }
                            c.lim = m;
                        }
                        "tls" => {
                            c.tls = match v {
                                "0" => false,
                                "1" => true,
                                _ => return Err(e("tls must be 0 or 1".into())),
                            }
                        }
                        "clientcert" if tls_mode => {
                            c.clientcert = match v {
                                "0" => false,
                                "1" => true,
                                _ => return Err(e("clientcert must be 0 or 1".into())),
                            }
                        }
                        "bighello" if tls_mode => {
                            let n: usize = parse_dec(v, "bighello").map_err(e)?;
                            if n > 65000 {
                                return Err(e("bighello must be <= 65000".into()));
                            }
                            c.bighello = n;
                        }
                        "wzero" => {
                            c.wzero = v.parse().map_err(|_| e("wzero must be a number".into()))?;
                        }
                        "wcap" => {
                            c.wcap = v.parse().map_err(|_| e("wcap must be a number".into()))?;
                        }
                        "dinit" => {
                            c.dinit = match v {
                                "0" => false,
                                "1" => true,
                                _ => return Err(e("dinit must be 0 or 1".into())),
                            }
                        }
                        "auth" => {
                            if v == "ok" {
                                c.auth = None;
                            } else if let Some(tag) = v.strip_prefix("rej:") {
                                c.auth = Some(parse_dec(tag, "auth tag").map_err(e)?);
                            } else {
                                return Err(e("auth must be ok or rej:TAG".into()));
                            }
                        }
                        _ => return Err(e(format!("unknown cfg key `{}`", k))),
                    }
                }
            }
            "pre" | "plain" | "split" | "prechunks" | "chunks" if tls_mode => {
                if !seen_tls.insert(dir) {
                    return Err(e(format!("duplicate {}", dir)));
                }
                let sizes = |rest: &str| -> Result<Vec<usize>, String> {
                    let mut v = Vec::new();
                    let mut t = toks(rest);
                    while !t.at_end() {
                        let n: usize = t.num("chunk size")?;
                        if n == 0 {
                            return Err("chunk size must be >= 1".into());
                        }
                        v.push(n);
                    }
                    Ok(v)
                };
                match dir {
                    "pre" => c.pre = crate::util::parse_hexspec(rest).map_err(e)?,
                    "plain" => c.plain = crate::util::parse_hexspec(rest).map_err(e)?,
                    "split" => c.split = parse_dec(rest, "split").map_err(e)?,
                    "prechunks" => c.prechunks = sizes(rest).map_err(e)?,
                    _ => {
                        if rest == "*" {
                            c.chunks = None;
                        } else {
                            let v = sizes(rest).map_err(e)?;
                            if v.is_empty() {
                                return Err(e("chunks needs sizes or `*`".into()));
                            }
                            c.chunks = Some(v);
                        }
                    }
                }
            }
            "reads" | "fault" if tls_mode => {
                return Err(e(format!("`{}` is not a tls-mode directive", dir)));
            }
            "reads" => {
                if seen_reads {
                    return Err(e("duplicate reads".into()));
                }
                seen_reads = true;
                c.reads = parse_reads(rest).map_err(e)?;
            }
            "fault" => {
                if seen_fault {
                    return Err(e("duplicate fault".into()));
                }
                seen_fault = true;
                c.fault = parse_fault(rest).map_err(e)?;
            }
            // the fault plan of the model's twin run (same byte offset, the model's own op index): not ours
            "mfault" => {}
            "q" => c.q.push(parse_qline(rest, &mut aux).map_err(e)?),
            "p" => c.p.push(parse_pline(rest).map_err(e)?),
            "x" => c.x.push(parse_xline(rest, &mut aux).map_err(e)?),
            "i" => c.i.push(parse_iline(rest).map_err(e)?),
            "end" => return Err(e("`end` before the end of the case block".into())),
            o => return Err(e(format!("unknown directive `{}`", o))),
        }
    }
    c.aux = aux;
    Ok(c)
}

// ---------------------------------------------------------------------------------------------
// Per-case state (thread-local so that the panic hook can reach it)

#[derive(Default)]
pub struct CaseState {
    pub id: String,
    pub log: String,
    pub reads: VecDeque<RTok>,
    pub delivered: Vec<RTok>,
    pub split: bool,
    pub fault: Option<Fault>,
    pub opno: u64,
    pub wcap: usize,
    pub wzero: usize,
    pub written: usize,
    pub aux: Vec<Aux>,
    /// `tls_client_certs.map(len)` as seen by the last `after_authentication` call
    pub certs: Option<Option<usize>>,
}

thread_local! {
    pub static CS: RefCell<CaseState> = RefCell::new(CaseState::default());
}

/// Append one observation line: `<id>|` + whatever `f` writes + newline.
pub(crate) fn obs(f: impl FnOnce(&mut String)) {
    CS.with(|cs| {
        let mut cs = cs.borrow_mut();
        let cs = &mut *cs;
        cs.log.push_str(&cs.id);
        cs.log.push('|');
        f(&mut cs.log);
        cs.log.push('\n');
    })
}

fn obs_str(s: &str) {
    obs(|l| l.push_str(s));
}

fn aux(a: Aux) {
    CS.with(|cs| cs.borrow_mut().aux.push(a));
}

fn push_rtok(out: &mut String, t: &RTok) {
    match t {
        RTok::D(b) => {
            out.push_str("d:");
            push_hex(out, b);
        }
        RTok::Eof => out.push_str("eof"),
        RTok::Err(k) => {
            let _ = write!(out, "err:{}", k);
        }
    }
}

/// Finish the log of the current case: `result` line, then `eff` if a chunk was split.
/// Returns (observations, aux floats met at run time).
pub fn finish_case(result: &str) -> (String, Vec<Aux>) {
    CS.with(|cs| {
        let mut cs = cs.borrow_mut();
        let cs = &mut *cs;
        let mut log = std::mem::take(&mut cs.log);
        log.push_str(&cs.id);
        log.push_str("|result|");
        log.push_str(result);
        log.push('\n');
        if cs.split {
            log.push_str(&cs.id);
            log.push_str("|eff|");
            let mut first = true;
            for t in cs.delivered.iter().chain(cs.reads.iter()) {
                if !first {
                    log.push(' ');
                }
                first = false;
                push_rtok(&mut log, t);
            }
            log.push('\n');
        }
        cs.delivered.clear();
        cs.reads.clear();
        (log, std::mem::take(&mut cs.aux))
    })
}

// ---------------------------------------------------------------------------------------------
// Transport

pub struct Transport;

impl Read for Transport {
    fn read(&mut self, buf: &mut [u8]) -> io::Result<usize> {
        CS.with(|cs| {
            let mut cs = cs.borrow_mut();
            let cs = &mut *cs;
            let (res, line): (io::Result<usize>, String) = match cs.reads.pop_front() {
                None => (Ok(0), "read|0".to_string()),
                Some(RTok::Eof) => {
                    cs.delivered.push(RTok::Eof);
                    (Ok(0), "read|0".to_string())
                }
                Some(RTok::Err(k)) => {
                    cs.delivered.push(RTok::Err(k));
                    (Err(crate::util::injected_read(k)), format!("readerr|{}", k))
                }
                Some(RTok::D(mut bytes)) => {
                    if bytes.len() <= buf.len() {
                        let n = bytes.len();
                        buf[..n].copy_from_slice(&bytes);
                        cs.delivered.push(RTok::D(bytes));
                        (Ok(n), format!("read|{}", n))
                    } else {
                        let n = buf.len();
                        let rest = bytes.split_off(n);
                        buf.copy_from_slice(&bytes);
                        cs.split = true;
                        cs.reads.push_front(RTok::D(rest));
                        if n == 0 {
                            // caller offered an empty buffer: indistinguishable from eof for it
                            cs.delivered.push(RTok::Eof);
                        } else {
                            cs.delivered.push(RTok::D(bytes));
                        }
                        (Ok(n), format!("read|{}", n))
                    }
                }
            };
            cs.log.push_str(&cs.id);
            cs.log.push('|');
            cs.log.push_str(&line);
            cs.log.push('\n');
            res
        })
    }
}

impl Transport {
    /// Consumes one write/flush operation number; Some(K) if it must fail.
    fn next_op_fails(cs: &mut CaseState) -> Option<u64> {
        let op = cs.opno;
        cs.opno += 1;
        match cs.fault {
            Some(Fault::Once(o, k)) if op == o => Some(k),
            Some(Fault::From(o, k)) if op >= o => Some(k),
            _ => None,
        }
    }
}

impl Write for Transport {
    fn write(&mut self, buf: &[u8]) -> io::Result<usize> {
        CS.with(|cs| {
            let mut cs = cs.borrow_mut();
            let cs = &mut *cs;
            cs.log.push_str(&cs.id);
            match Transport::next_op_fails(cs) {
                Some(k) => {
                    let _ = writeln!(cs.log, "|werr|{}", k);
                    Err(injected(k))
                }
                None if cs.wzero > 0 && cs.written + 1 >= cs.wzero && !buf.is_empty() => {
                    // the sink is full: nothing is accepted any more (std's write_all turns this into WriteZero)
                    cs.log.push_str("|wzero\n");
                    Ok(0)
                }
                None => {
                    let mut n = if cs.wcap > 0 { buf.len().min(cs.wcap) } else { buf.len() };
                    if cs.wzero > 0 {
                        n = n.min(cs.wzero - 1 - cs.written);
                    }
                    cs.written += n;
                    cs.log.push_str("|w|");
                    push_hex(&mut cs.log, &buf[..n]);
                    cs.log.push('\n');
                    Ok(n)
                }
            }
        })
    }

    fn flush(&mut self) -> io::Result<()> {
        CS.with(|cs| {
            let mut cs = cs.borrow_mut();
            let cs = &mut *cs;
            cs.log.push_str(&cs.id);
            match Transport::next_op_fails(cs) {
                Some(k) => {
                    let _ = writeln!(cs.log, "|flusherr|{}", k);
                    Err(injected(k))
                }
                None => {
                    cs.log.push_str("|flush\n");
                    Ok(())
                }
            }
        })
    }
}

// ---------------------------------------------------------------------------------------------
// Shim

pub enum ShimError {
    Io(io::Error),
    Shim(u64),
}

impl From<io::Error> for ShimError {
    fn from(e: io::Error) -> Self {
        ShimError::Io(e)
    }
}

pub(crate) fn shim_kind(e: &ShimError) -> String {
    match e {
        ShimError::Io(e) => io_kind(e),
        ShimError::Shim(t) => format!("Shim:{}", t),
    }
}

/// Log the result of one writer-API call.
fn api<T>(r: &io::Result<T>) {
    match r {
        Ok(_) => obs_str("api|ok"),
        Err(e) => obs(|l| {
            l.push_str("api|err ");
            l.push_str(&io_kind(e));
        }),
    }
}

/// What a callback returns given the program's final io result and the optional `ret:TAG`.
fn callback_result(r: io::Result<()>, ret: Option<u64>) -> Result<(), ShimError> {
    match r {
        Err(e) => Err(ShimError::Io(e)),
        Ok(()) => match ret {
            Some(t) => Err(ShimError::Shim(t)),
            None => Ok(()),
        },
    }
}

enum St<'a, W: Read + Write> {
    Q(QueryResultWriter<'a, W>),
    R(RowWriter<'a, W>),
}

/// Interpret a (flattened) qprog. `Err(e)` = the program propagates `e` out of the callback.
fn run_qprog<'a, W: Read + Write>(
    w: QueryResultWriter<'a, W>,
    ops: &'a [Op],
) -> io::Result<()> {
    let mut st = St::Q(w);
    let mut it = ops.iter();
    loop {
        let op = it
            .next()
            .expect("harness: program ended without a terminal form");
        st = match st {
            St::Q(w) => match op {
                Op::Start(cols) => {
                    let r = w.start(&cols[..]);
                    api(&r);
                    St::R(r?)
                }
                Op::C1(rows, id) => {
                    let r = w.complete_one(*rows, *id);
                    api(&r);
                    St::Q(r?)
                }
                Op::Done(rows, id) => {
                    let r = w.completed(*rows, *id);
                    api(&r);
                    return r;
                }
                Op::QErr(code, msg) => {
                    let r = w.error(ErrorKind::from(*code), &msg[..]);
                    api(&r);
                    return r;
                }
                Op::NoMore => {
                    let r = w.no_more_results();
                    api(&r);
                    return r;
                }
                Op::QDrop => {
                    drop(w);
                    return Ok(());
                }
                _ => unreachable!("harness: row op on a QueryResultWriter"),
            },
            St::R(mut rw) => match op {
                Op::Wc(v, prop) => {
                    let r = rw.write_col(DynVal(v));
                    api(&r);
                    if let Err(e) = r {
                        if *prop {
                            return Err(e);
                        }
                    }
                    St::R(rw)
                }
                Op::Er(prop) => {
                    let r = rw.end_row();
                    api(&r);
                    if let Err(e) = r {
                        if *prop {
                            return Err(e);
                        }
                    }
                    St::R(rw)
                }
                Op::Wr(vals, prop) => {
                    let row: Vec<DynVal<'_>> = vals.iter().map(DynVal).collect();
                    let r = rw.write_row(row);
                    api(&r);
                    if let Err(e) = r {
                        if *prop {
                            return Err(e);
                        }
                    }
                    St::R(rw)
                }
                Op::Fin => {
                    let r = rw.finish();
                    api(&r);
                    return r;
                }
                Op::Fin1 => {
                    let r = rw.finish_one();
                    api(&r);
                    St::Q(r?)
                }
                Op::Ferr(code, msg) => {
                    let r = rw.finish_error(ErrorKind::from(*code), msg);
                    api(&r);
                    return r;
                }
                Op::RDrop => {
                    drop(rw);
                    return Ok(());
                }
                _ => unreachable!("harness: query op on a RowWriter"),
            },
        };
    }
}

/// The script interpreter shared by the two shim types.
pub struct Inner {
    case: Arc<Case>,
    qi: usize,
    pi: usize,
    xi: usize,
    ii: usize,
}

impl Inner {
    pub fn new(case: Arc<Case>) -> Inner {
        Inner {
            case,
            qi: 0,
            pi: 0,
            xi: 0,
            ii: 0,
        }
    }
}

static SERVER_IDENTITY: OnceLock<(Vec<u8>, Vec<u8>)> = OnceLock::new();

/// (certificate DER, PKCS#8 key DER) of the server's self-signed certificate, built once.
pub(crate) fn server_identity() -> &'static (Vec<u8>, Vec<u8>) {
    SERVER_IDENTITY.get_or_init(|| {
        let cert = rcgen::generate_simple_self_signed(vec!["localhost".to_string()])
            .expect("harness: rcgen failed");
        (
            cert.serialize_der().expect("harness: cert der"),
            cert.get_key_pair().serialize_der(),
        )
    })
}

static TLS_CONFIG: OnceLock<Arc<rustls::ServerConfig>> = OnceLock::new();

pub(crate) fn tls_config() -> Arc<rustls::ServerConfig> {
    TLS_CONFIG
        .get_or_init(|| {
            use rustls::pki_types::{CertificateDer, PrivateKeyDer};
            let (cert, key) = server_identity();
            let cfg = rustls::ServerConfig::builder()
                .with_no_client_auth()
                .with_single_cert(
                    vec![CertificateDer::from(cert.clone())],
                    PrivateKeyDer::Pkcs8(key.clone().into()),
                )
                .expect("harness: rustls server config");
            Arc::new(cfg)
        })
        .clone()
}

fn log_param(coltype: ColumnType, inner: &ValueInner<'_>) {
    obs(|l| {
        let _ = write!(l, "call|param|{}|", coltype as u8);
        match inner {
            ValueInner::NULL => l.push_str("null"),
            ValueInner::Bytes(b) => {
                l.push_str("bytes:");
                push_hex(l, b);
            }
            ValueInner::Int(z) => {
                let _ = write!(l, "int:{}", z);
            }
            ValueInner::UInt(n) => {
                let _ = write!(l, "uint:{}", n);
            }
            ValueInner::Double(d) => {
                let _ = write!(l, "double:{:016x}", d.to_bits());
            }
            ValueInner::Date(b) => {
                l.push_str("date:");
                push_hex(l, b);
            }
            ValueInner::Time(b) => {
                l.push_str("time:");
                push_hex(l, b);
            }
            ValueInner::Datetime(b) => {
                l.push_str("datetime:");
                push_hex(l, b);
            }
        }
    });
    if let ValueInner::Double(d) = inner {
        aux(Aux::F64(d.to_bits()));
        if coltype == ColumnType::MYSQL_TYPE_FLOAT {
            aux(Aux::float_param(*d));
        }
    }
}

fn do_conv(conv: Conv, v: msql_srv::Value<'_>) {
    let text = match conv {
        Conv::None => return,
        Conv::U8 => {
            let x: u8 = v.into();
            x.to_string()
        }
        Conv::I8 => {
            let x: i8 = v.into();
            x.to_string()
        }
        Conv::U16 => {
            let x: u16 = v.into();
            x.to_string()
        }
        Conv::I16 => {
            let x: i16 = v.into();
            x.to_string()
        }
        Conv::U32 => {
            let x: u32 = v.into();
            x.to_string()
        }
        Conv::I32 => {
            let x: i32 = v.into();
            x.to_string()
        }
        Conv::U64 => {
            let x: u64 = v.into();
            x.to_string()
        }
        Conv::I64 => {
            let x: i64 = v.into();
            x.to_string()
        }
        Conv::F32 => {
            let x: f32 = v.into();
            if let ValueInner::Double(d) = v.into_inner() {
                aux(Aux::Trunc(d.to_bits()));
            }
            aux(Aux::F32(x.to_bits()));
            format!("{:08x}", x.to_bits())
        }
        Conv::F64 => {
            let x: f64 = v.into();
            aux(Aux::F64(x.to_bits()));
            format!("{:016x}", x.to_bits())
        }
        Conv::Bytes => {
            let x: &[u8] = v.into();
            hex(x)
        }
        Conv::Str => {
            let x: &str = v.into();
            hex(x.as_bytes())
        }
        Conv::Date => {
            let x: NaiveDate = v.into();
            format!("{}:{}:{}", x.year(), x.month(), x.day())
        }
        Conv::Datetime => {
            let x: NaiveDateTime = v.into();
            format!(
                "{}:{}:{}:{}:{}:{}:{}",
                x.year(),
                x.month(),
                x.day(),
                x.hour(),
                x.minute(),
                x.second(),
                x.nanosecond()
            )
        }
        Conv::Dur => {
            let x: Duration = v.into();
            format!("{}:{}", x.as_secs(), x.subsec_nanos())
        }
    };
    obs(|l| {
        l.push_str("call|conv|");
        l.push_str(&text);
    });
}

impl Inner {
    fn on_prepare<W: Read + Write>(
        &mut self,
        query: &str,
        info: StatementMetaWriter<'_, W>,
    ) -> Result<(), ShimError> {
        obs(|l| {
            l.push_str("call|prepare|");
            push_hex(l, query.as_bytes());
        });
        let case = self.case.clone();
        let n = self.pi;
        self.pi += 1;
        let line = case.p.get(n).unwrap_or(&case.def_p);
        let r = match &line.prog {
            PProg::Reply(id, params, cols) => {
                let r = info.reply(*id, &params[..], &cols[..]);
                api(&r);
                r
            }
            PProg::Err(code, msg) => {
                let r = info.error(ErrorKind::from(*code), &msg[..]);
                api(&r);
                r
            }
            PProg::NoReply => {
                drop(info);
                Ok(())
            }
        };
        callback_result(r, line.ret)
    }

    fn on_execute<W: Read + Write>(
        &mut self,
        id: u32,
        params: ParamParser<'_>,
        results: QueryResultWriter<'_, W>,
    ) -> Result<(), ShimError> {
        obs(|l| {
            let _ = write!(l, "call|execute|{}", id);
        });
        let case = self.case.clone();
        let n = self.xi;
        self.xi += 1;
        let line = case.x.get(n).unwrap_or(&case.def_x);
        let mut it = params.into_iter();
        let mut idx: u64 = 0;
        loop {
            if let Some(k) = line.pull {
                if idx >= k {
                    break;
                }
            }
            let pv = match it.next() {
                None => break,
                Some(pv) => pv,
            };
            let v = pv.value;
            log_param(pv.coltype, &v.into_inner());
            if let Some(c) = line.convs.get(idx as usize) {
                do_conv(*c, v);
            }
            idx += 1;
        }
        let r = run_qprog(results, &line.q.ops);
        callback_result(r, line.q.ret)
    }

    fn on_close(&mut self, stmt: u32) {
        obs(|l| {
            let _ = write!(l, "call|close|{}", stmt);
        });
    }

    fn on_query<W: Read + Write>(
        &mut self,
        query: &str,
        results: QueryResultWriter<'_, W>,
    ) -> Result<(), ShimError> {
        obs(|l| {
            l.push_str("call|query|");
            push_hex(l, query.as_bytes());
        });
        let case = self.case.clone();
        let n = self.qi;
        self.qi += 1;
        let line = case.q.get(n).unwrap_or(&case.def_q);
        let r = run_qprog(results, &line.ops);
        callback_result(r, line.ret)
    }

    fn on_init<W: Read + Write>(
        &mut self,
        schema: &str,
        w: InitWriter<'_, W>,
    ) -> Result<(), ShimError> {
        obs(|l| {
            l.push_str("call|init|");
            push_hex(l, schema.as_bytes());
        });
        let case = self.case.clone();
        let n = self.ii;
        self.ii += 1;
        let line = case.i.get(n).unwrap_or(&case.def_i);
        let r = match &line.prog {
            IProg::Ok => {
                let r = w.ok();
                api(&r);
                r
            }
            IProg::Err(code, msg) => {
                let r = w.error(ErrorKind::from(*code), &msg[..]);
                api(&r);
                r
            }
            IProg::NoReply => {
                drop(w);
                Ok(())
            }
        };
        callback_result(r, line.ret)
    }

    fn tls_config(&self) -> Option<Arc<rustls::ServerConfig>> {
        if self.case.tls {
            if self.case.clientcert {
                Some(crate::tlsmode::server_config_client_auth())
            } else {
                Some(tls_config())
            }
        } else {
            None
        }
    }

    fn after_authentication(&mut self, ctx: &AuthenticationContext<'_>) -> Result<(), ShimError> {
        obs(|l| {
            l.push_str("call|auth|");
            match &ctx.username {
                Some(u) => push_hex(l, u),
                None => l.push_str("none"),
            }
        });
        let n = ctx.tls_client_certs.map(|c| c.len());
        CS.with(|cs| cs.borrow_mut().certs = Some(n));
        match self.case.auth {
            None => Ok(()),
            Some(t) => Err(ShimError::Shim(t)),
        }
    }
}

/// The normal shim: every callback is scripted.
pub struct Shim(pub Inner);

/// `dinit=1`: identical, but `on_init` is NOT overridden (the trait's default runs).
pub struct ShimDefaultInit(pub Inner);

macro_rules! shim_common {
    ($w:ident) => {
        type Error = ShimError;

        fn on_prepare(
            &mut self,
            query: &str,
            info: StatementMetaWriter<'_, $w>,
        ) -> Result<(), ShimError> {
            self.0.on_prepare(query, info)
        }

        fn on_execute(
            &mut self,
            id: u32,
            params: ParamParser<'_>,
            results: QueryResultWriter<'_, $w>,
        ) -> Result<(), ShimError> {
            self.0.on_execute(id, params, results)
        }

        fn on_close(&mut self, stmt: u32) {
            self.0.on_close(stmt)
        }

        fn on_query(
            &mut self,
            query: &str,
            results: QueryResultWriter<'_, $w>,
        ) -> Result<(), ShimError> {
            self.0.on_query(query, results)
        }

        fn tls_config(&self) -> Option<Arc<rustls::ServerConfig>> {
            self.0.tls_config()
        }

        fn after_authentication(
            &mut self,
            ctx: &AuthenticationContext<'_>,
        ) -> Result<(), ShimError> {
            self.0.after_authentication(ctx)
        }
    };
}

impl<W: Read + Write> MysqlShim<W> for Shim {
    shim_common!(W);

    fn on_init(&mut self, schema: &str, w: InitWriter<'_, W>) -> Result<(), ShimError> {
        self.0.on_init(schema, w)
    }
}

impl<W: Read + Write> MysqlShim<W> for ShimDefaultInit {
    shim_common!(W);
}

// ---------------------------------------------------------------------------------------------
// Running one case

/// Run one case on the current thread. Returns (observations, floats met).
/// If the case aborts the process (panic while panicking) the panic hook's `on_abort` callback
/// (installed by the caller) takes over and this function never returns.
pub fn run_case(case: Case) -> (String, Vec<Aux>) {
    let mut case = case;
    let parse_aux = std::mem::take(&mut case.aux);
    let reads: VecDeque<RTok> = std::mem::take(&mut case.reads).into();
    CS.with(|cs| {
        let mut cs = cs.borrow_mut();
        *cs = CaseState {
            id: case.id.clone(),
            log: String::new(),
            reads,
            delivered: Vec::new(),
            split: false,
            fault: Some(case.fault),
            opno: 0,
            wcap: case.wcap,
            wzero: case.wzero,
            written: 0,
            aux: parse_aux,
            certs: None,
        };
    });
    #[cfg(feature = "hooks")]
    msql_srv::verif::set_packet_limit(case.lim);
    #[cfg(not(feature = "hooks"))]
    assert_eq!(case.lim, 16_777_215, "production build of msql-srv: the packet limit is fixed");
    if case.tls {
        // build the shared config outside of the measured/caught region
        let _ = tls_config();
    }
    let case = Arc::new(case);
    let inner = Inner::new(case.clone());
    let r = if case.dinit {
        let shim = ShimDefaultInit(inner);
        panics::caught(move || MysqlIntermediary::run_on(shim, Transport))
    } else {
        let shim = Shim(inner);
        panics::caught(move || MysqlIntermediary::run_on(shim, Transport))
    };
    let result = match r {
        Ok(Ok(())) => "ok".to_string(),
        Ok(Err(e)) => format!("err {}", shim_kind(&e)),
        Err(site) => format!("panic {}", site),
    };
    finish_case(&result)
}
