//! Correspondence harness: drives the real `msql-srv` crate through scripted cases and prints
//! canonical observations (see /verif/FORMAT.md).
//!
//!   harness conn <cases-file> <obs-out> <aux-out> [--jobs N]
//!   harness val  <cases-file> <out>     <aux-out> [--jobs N]
//!   harness tls  <cases-file> <obs-out> <aux-out> [--jobs N]
//!   harness errtab <out>
//!
//! Exit codes: 0 ok, 1 usage / io problem, 2 unparsable input, 3 a case hung (> 20 s).

mod conn;
mod panics;
mod tlsmode;
mod util;
mod val;

use std::collections::{BTreeMap, HashSet};
use std::fmt::Write as FmtWrite;
use std::fs::File;
use std::io::{BufWriter, Write};
use std::sync::atomic::{AtomicBool, AtomicU64, AtomicUsize, Ordering};
use std::sync::mpsc::{self, RecvTimeoutError, Sender};
use std::sync::Arc;
use std::time::{Duration, Instant};

use util::{push_hex, Aux, Toks};

const HANG_SECS: u64 = 20;

/// Watchdog limit; `HARNESS_HANG_SECS` overrides the default (for self-tests of the watchdog).
fn hang_secs() -> u64 {
    std::env::var("HARNESS_HANG_SECS")
        .ok()
        .and_then(|s| s.parse().ok())
        .unwrap_or(HANG_SECS)
}
const VAL_CHUNK: usize = 2048;

fn die(code: i32, msg: &str) -> ! {
    eprintln!("harness: {}", msg);
    std::process::exit(code);
}

fn usage() -> ! {
    die(
        1,
        "usage: harness conn <cases> <obs-out> <aux-out> [--jobs N] | \
         harness tls <cases> <obs-out> <aux-out> [--jobs N] | \
         harness val <cases> <out> <aux-out> [--jobs N] | harness errtab <out>",
    )
}

fn create(path: &str) -> BufWriter<File> {
    match File::create(path) {
        Ok(f) => BufWriter::with_capacity(1 << 20, f),
        Err(e) => die(1, &format!("cannot create {}: {}", path, e)),
    }
}

fn append(path: &str) -> BufWriter<File> {
    match std::fs::OpenOptions::new().append(true).open(path) {
        Ok(f) => BufWriter::with_capacity(1 << 20, f),
        Err(e) => die(1, &format!("cannot append to {}: {}", path, e)),
    }
}

fn read_input(path: &str) -> &'static str {
    match std::fs::read_to_string(path) {
        Ok(s) => Box::leak(s.into_boxed_str()),
        Err(e) => die(1, &format!("cannot read {}: {}", path, e)),
    }
}

fn split_lines(text: &'static str) -> Vec<&'static str> {
    let mut v: Vec<&str> = text.split('\n').collect();
    if v.last() == Some(&"") {
        v.pop();
    }
    for l in v.iter_mut() {
        if let Some(s) = l.strip_suffix('\r') {
            *l = s;
        }
    }
    v
}

// ---------------------------------------------------------------------------------------------
// Ordered writer + watchdog shared by `conn` and `val`

enum Msg {
    /// Work item `idx` is finished. `worker_dead`: the sending worker thread is gone for good
    /// (parked in the panic hook after a panic-while-panicking) and must be replaced.
    Done {
        idx: usize,
        obs: String,
        aux: Vec<Aux>,
        worker_dead: bool,
    },
    /// Unparsable input at 0-based line `line`.
    Bad { line: usize, msg: String },
    /// A worker ran out of work.
    Exit,
}

/// One per worker: 0 = idle, otherwise 1 + an opaque "what am I running" number that changes
/// whenever the worker moves on to the next case.
type Slot = Arc<AtomicU64>;

struct Sink {
    out: BufWriter<File>,
    aux: BufWriter<File>,
    seen: HashSet<Aux>,
    scratch: String,
}

impl Sink {
    fn emit(&mut self, obs: &str, aux: &[Aux]) {
        if let Err(e) = self.out.write_all(obs.as_bytes()) {
            die(1, &format!("write failed: {}", e));
        }
        for a in aux {
            if self.seen.insert(*a) {
                self.scratch.clear();
                a.render(&mut self.scratch);
                if let Err(e) = self.aux.write_all(self.scratch.as_bytes()) {
                    die(1, &format!("write failed: {}", e));
                }
            }
        }
    }
    fn flush(&mut self) {
        if let Err(e) = self.out.flush().and_then(|_| self.aux.flush()) {
            die(1, &format!("flush failed: {}", e));
        }
    }
}

/// How a `drive` run can be continued in a fresh process image (see `drive`).
struct Recycle {
    /// Workers stop claiming new items once this is set.
    stop: Arc<AtomicBool>,
    /// Re-executes the harness so that it continues with item `next` (appending to the outputs).
    exec: Box<dyn Fn(usize)>,
}

/// Number of worker threads lost to panic-while-panicking cases after which the process
/// re-executes itself (parked threads can never be reclaimed otherwise).
fn recycle_after() -> usize {
    std::env::var("HARNESS_RECYCLE_AFTER")
        .ok()
        .and_then(|s| s.parse().ok())
        .unwrap_or(1000)
}

/// Runs the pool over items `first..n_total`. `spawn(slot, tx)` starts one worker thread.
/// `hang_line(tag)` renders the line written for a hung item, `tag` being the slot value - 1.
fn drive(
    first: usize,
    n_total: usize,
    jobs: usize,
    mut sink: Sink,
    spawn: &dyn Fn(Slot, Sender<Msg>),
    hang_line: &dyn Fn(u64) -> (usize, String),
    recycle: Option<Recycle>,
) -> ! {
    let n_items = n_total - first;
    let (tx, rx) = mpsc::channel::<Msg>();
    let mut slots: Vec<Slot> = Vec::new();
    let mut watch: Vec<(u64, Instant)> = Vec::new();
    let new_worker = |slots: &mut Vec<Slot>, watch: &mut Vec<(u64, Instant)>| {
        let slot: Slot = Arc::new(AtomicU64::new(0));
        slots.push(slot.clone());
        watch.push((0, Instant::now()));
        spawn(slot, tx.clone());
    };
    let mut live = 0usize; // workers that will eventually send Exit
    let mut exits = 0usize;
    let mut dead = 0usize;
    let mut stopping = false;
    for _ in 0..jobs.max(1).min(n_items.max(1)) {
        new_worker(&mut slots, &mut watch);
        live += 1;
    }

    let mut pending: BTreeMap<usize, (String, Vec<Aux>)> = BTreeMap::new();
    let mut next_out = first;
    let mut received = 0usize;
    let mut bad: Option<(usize, String)> = None;
    let limit = hang_secs();
    let recycle_limit = recycle_after();

    while received < n_items {
        match rx.recv_timeout(Duration::from_millis(250)) {
            Ok(Msg::Done {
                idx,
                obs,
                aux,
                worker_dead,
            }) => {
                received += 1;
                pending.insert(idx, (obs, aux));
                while let Some((o, a)) = pending.remove(&next_out) {
                    sink.emit(&o, &a);
                    next_out += 1;
                }
                if worker_dead {
                    dead += 1;
                    live -= 1;
                    if let Some(r) = &recycle {
                        if dead >= recycle_limit && !stopping {
                            stopping = true;
                            r.stop.store(true, Ordering::SeqCst);
                        }
                    }
                    if !stopping {
                        new_worker(&mut slots, &mut watch);
                        live += 1;
                    }
                }
            }
            Ok(Msg::Bad { line, msg }) => {
                bad = Some((line, msg));
                break;
            }
            Ok(Msg::Exit) => exits += 1,
            Err(RecvTimeoutError::Timeout) => {}
            Err(RecvTimeoutError::Disconnected) => break,
        }
        if stopping && exits >= live && received < n_items {
            // every claimed item is finished and written; continue in a fresh process image
            if !pending.is_empty() {
                die(1, "internal error: gap in finished items while recycling");
            }
            sink.flush();
            drop(sink);
            (recycle.as_ref().unwrap().exec)(next_out);
            die(1, "internal error: re-exec returned");
        }
        // watchdog
        let now = Instant::now();
        let mut hung: Vec<u64> = Vec::new();
        for (i, s) in slots.iter().enumerate() {
            let v = s.load(Ordering::Relaxed);
            if v == 0 || v != watch[i].0 {
                watch[i] = (v, now);
            } else if now.duration_since(watch[i].1) >= Duration::from_secs(limit) {
                hung.push(v - 1);
            }
        }
        if !hung.is_empty() {
            for tag in hung {
                let (idx, line) = hang_line(tag);
                eprintln!("harness: item {} hung (> {} s)", idx, limit);
                pending.entry(idx).or_insert((line, Vec::new()));
            }
            for (_, (o, a)) in std::mem::take(&mut pending) {
                sink.emit(&o, &a);
            }
            sink.flush();
            std::process::exit(3);
        }
    }
    sink.flush();
    if let Some((line, msg)) = bad {
        die(2, &format!("unparsable input at line {}: {}", line + 1, msg));
    }
    if received < n_items {
        die(1, "internal error: workers vanished");
    }
    std::process::exit(0);
}

struct Opts {
    jobs: usize,
    /// hidden: continue with this item, appending to the output files
    resume: Option<usize>,
}

fn parse_opts(args: &[String]) -> Opts {
    let mut o = Opts {
        jobs: std::thread::available_parallelism()
            .map(|n| n.get())
            .unwrap_or(4),
        resume: None,
    };
    let mut i = 0;
    while i < args.len() {
        if args[i] == "--jobs" && i + 1 < args.len() {
            o.jobs = args[i + 1]
                .parse()
                .unwrap_or_else(|_| die(1, "bad --jobs value"));
            i += 2;
        } else if args[i] == "--resume" && i + 1 < args.len() {
            o.resume = Some(
                args[i + 1]
                    .parse()
                    .unwrap_or_else(|_| die(1, "bad --resume value")),
            );
            i += 2;
        } else {
            usage();
        }
    }
    o.jobs = o.jobs.max(1);
    o
}

// ---------------------------------------------------------------------------------------------
// conn mode

struct ConnShared {
    lines: Vec<&'static str>,
    /// (first line, last line) of every case block, inclusive
    blocks: Vec<(usize, usize)>,
    ids: Vec<&'static str>,
    next: AtomicUsize,
    stop: Arc<AtomicBool>,
    /// `tls` mode instead of `conn` mode
    tls_mode: bool,
    /// self-test hook for the watchdog (`HARNESS_TEST_HANG_ID`): this case never finishes
    test_hang_id: Option<String>,
}

fn conn_worker(sh: Arc<ConnShared>, slot: Slot, tx: Sender<Msg>) {
    loop {
        if sh.stop.load(Ordering::SeqCst) {
            break;
        }
        let idx = sh.next.fetch_add(1, Ordering::SeqCst);
        if idx >= sh.blocks.len() {
            break;
        }
        slot.store(idx as u64 + 1, Ordering::Relaxed);
        let (a, b) = sh.blocks[idx];
        let case = match conn::parse_case(&sh.lines[a..=b], sh.tls_mode) {
            Ok(c) => c,
            Err((off, msg)) => {
                let _ = tx.send(Msg::Bad { line: a + off, msg });
                slot.store(0, Ordering::Relaxed);
                return;
            }
        };
        // If this case panics while panicking the hook hands the case over and parks forever.
        {
            let tx2 = tx.clone();
            let slot2 = slot.clone();
            let tls_mode = sh.tls_mode;
            panics::set_on_abort(Some(Box::new(move |key: &str| {
                let result = format!("panic {}", key);
                let (obs, aux) = if tls_mode {
                    tlsmode::finish_case(&result)
                } else {
                    conn::finish_case(&result)
                };
                slot2.store(0, Ordering::Relaxed);
                let _ = tx2.send(Msg::Done {
                    idx,
                    obs,
                    aux,
                    worker_dead: true,
                });
            })));
        }
        if sh.test_hang_id.as_deref() == Some(case.id.as_str()) {
            loop {
                std::thread::park();
            }
        }
        let (obs, aux) = if sh.tls_mode {
            tlsmode::run_case(case)
        } else {
            conn::run_case(case)
        };
        panics::set_on_abort(None);
        slot.store(0, Ordering::Relaxed);
        if tx
            .send(Msg::Done {
                idx,
                obs,
                aux,
                worker_dead: false,
            })
            .is_err()
        {
            return;
        }
    }
    let _ = tx.send(Msg::Exit);
}

fn mode_conn(args: &[String], tls_mode: bool) -> ! {
    if args.len() < 3 {
        usage();
    }
    let opts = parse_opts(&args[3..]);
    let jobs = opts.jobs;
    let lines = split_lines(read_input(&args[0]));
    // split into case blocks
    let mut blocks = Vec::new();
    let mut ids = Vec::new();
    let mut i = 0;
    while i < lines.len() {
        let l = lines[i];
        if l.is_empty() || l.starts_with('#') {
            i += 1;
            continue;
        }
        let id = match l.strip_prefix("case ") {
            Some(id) => id,
            None => die(
                2,
                &format!("unparsable input at line {}: expected `case <id>`", i + 1),
            ),
        };
        let mut j = i + 1;
        loop {
            if j >= lines.len() {
                die(
                    2,
                    &format!(
                        "unparsable input at line {}: case `{}` has no `end`",
                        i + 1,
                        id
                    ),
                );
            }
            if lines[j] == "end" {
                break;
            }
            if lines[j].starts_with("case ") {
                die(
                    2,
                    &format!(
                        "unparsable input at line {}: `case` inside case `{}` (missing `end`?)",
                        j + 1,
                        id
                    ),
                );
            }
            j += 1;
        }
        blocks.push((i, j));
        ids.push(id);
        i = j + 1;
    }
    let n = blocks.len();
    let first = opts.resume.unwrap_or(0).min(n);
    let sink = if opts.resume.is_some() {
        // continuing after a re-exec: append, and rebuild the set of aux lines already written
        let mut seen = HashSet::new();
        if let Ok(old) = std::fs::read_to_string(&args[2]) {
            for l in old.lines() {
                if let Some(a) = Aux::parse_line(l) {
                    seen.insert(a);
                }
            }
        }
        Sink {
            out: append(&args[1]),
            aux: append(&args[2]),
            seen,
            scratch: String::new(),
        }
    } else {
        Sink {
            out: create(&args[1]),
            aux: create(&args[2]),
            seen: HashSet::new(),
            scratch: String::new(),
        }
    };
    let stop = Arc::new(AtomicBool::new(false));
    let sh = Arc::new(ConnShared {
        lines,
        blocks,
        ids,
        next: AtomicUsize::new(first),
        stop: stop.clone(),
        tls_mode,
        test_hang_id: std::env::var("HARNESS_TEST_HANG_ID").ok(),
    });
    let base_args: Vec<String> = vec![
        if tls_mode { "tls" } else { "conn" }.to_string(),
        args[0].clone(),
        args[1].clone(),
        args[2].clone(),
        "--jobs".to_string(),
        jobs.to_string(),
    ];
    let recycle = Recycle {
        stop,
        exec: Box::new(move |next: usize| {
            use std::os::unix::process::CommandExt;
            let exe = std::env::current_exe()
                .unwrap_or_else(|e| die(1, &format!("cannot find own executable: {}", e)));
            let err = std::process::Command::new(exe)
                .args(&base_args)
                .arg("--resume")
                .arg(next.to_string())
                .exec();
            die(1, &format!("cannot re-exec: {}", err));
        }),
    };
    let sh2 = sh.clone();
    let spawn = move |slot: Slot, tx: Sender<Msg>| {
        let sh = sh2.clone();
        std::thread::Builder::new()
            .name("case-worker".into())
            .stack_size(8 << 20)
            .spawn(move || conn_worker(sh, slot, tx))
            .unwrap_or_else(|e| die(1, &format!("cannot spawn worker: {}", e)));
    };
    let sh3 = sh.clone();
    let hang_line = move |tag: u64| {
        let idx = tag as usize;
        (idx, format!("{}|result|hang\n", sh3.ids[idx]))
    };
    drive(first, n, jobs, sink, &spawn, &hang_line, Some(recycle))
}

// ---------------------------------------------------------------------------------------------
// val mode

struct ValShared {
    lines: Vec<&'static str>,
    next: AtomicUsize,
}

/// Evaluate one `val` line; appends `ok <hex>` / `err <kind>` / `panic <site>` to `out`.
fn eval_val_line(
    line: &str,
    out: &mut String,
    buf: &mut Vec<u8>,
    aux: &mut Vec<Aux>,
) -> Result<(), String> {
    let mut t = Toks::new(line);
    let kind = t.next()?;
    enum R {
        Bytes(std::io::Result<()>),
        Bool(bool),
    }
    buf.clear();
    let res = match kind {
        "t" => {
            let v = val::parse_val(&mut t, aux)?;
            t.expect_end()?;
            panics::caught(|| {
                use msql_srv::ToMysqlValue;
                R::Bytes(val::DynVal(&v).to_mysql_text(buf))
            })
        }
        "b" => {
            let ty: u8 = t.num("column type")?;
            let flags: u16 = t.num("column flags")?;
            let col = conn::make_column(String::new(), String::new(), ty, flags)?;
            let v = val::parse_val(&mut t, aux)?;
            t.expect_end()?;
            panics::caught(|| {
                use msql_srv::ToMysqlValue;
                R::Bytes(val::DynVal(&v).to_mysql_bin(buf, &col))
            })
        }
        "n" => {
            let v = val::parse_val(&mut t, aux)?;
            t.expect_end()?;
            panics::caught(|| {
                use msql_srv::ToMysqlValue;
                R::Bool(val::DynVal(&v).is_null())
            })
        }
        o => return Err(format!("unknown val-mode directive `{}`", o)),
    };
    match res {
        Ok(R::Bytes(Ok(()))) => {
            out.push_str("ok ");
            push_hex(out, buf);
        }
        Ok(R::Bytes(Err(e))) => {
            out.push_str("err ");
            out.push_str(&util::io_kind(&e));
        }
        Ok(R::Bool(b)) => out.push_str(if b { "ok 01" } else { "ok 00" }),
        Err(site) => {
            out.push_str("panic ");
            out.push_str(&site);
        }
    }
    Ok(())
}

fn val_worker(sh: Arc<ValShared>, slot: Slot, tx: Sender<Msg>) {
    let n = sh.lines.len();
    let nchunks = (n + VAL_CHUNK - 1) / VAL_CHUNK;
    let mut buf: Vec<u8> = Vec::new();
    let mut seen: HashSet<Aux> = HashSet::new();
    let mut line_aux: Vec<Aux> = Vec::new();
    loop {
        let c = sh.next.fetch_add(1, Ordering::Relaxed);
        if c >= nchunks {
            break;
        }
        let start = c * VAL_CHUNK;
        let end = (start + VAL_CHUNK).min(n);
        let mut out = String::with_capacity((end - start) * 24);
        let mut aux: Vec<Aux> = Vec::new();
        for i in start..end {
            slot.store(i as u64 + 1, Ordering::Relaxed);
            let _ = write!(out, "{}|", i);
            line_aux.clear();
            if let Err(msg) = eval_val_line(sh.lines[i], &mut out, &mut buf, &mut line_aux) {
                let _ = tx.send(Msg::Bad { line: i, msg });
                slot.store(0, Ordering::Relaxed);
                return;
            }
            out.push('\n');
            for a in line_aux.drain(..) {
                if seen.insert(a) {
                    aux.push(a);
                }
            }
        }
        slot.store(0, Ordering::Relaxed);
        if tx
            .send(Msg::Done {
                idx: c,
                obs: out,
                aux,
                worker_dead: false,
            })
            .is_err()
        {
            return;
        }
    }
    let _ = tx.send(Msg::Exit);
}

fn mode_val(args: &[String]) -> ! {
    if args.len() < 3 {
        usage();
    }
    let opts = parse_opts(&args[3..]);
    if opts.resume.is_some() {
        usage();
    }
    let jobs = opts.jobs;
    let lines = split_lines(read_input(&args[0]));
    let sink = Sink {
        out: create(&args[1]),
        aux: create(&args[2]),
        seen: HashSet::new(),
        scratch: String::new(),
    };
    let n = lines.len();
    let nchunks = (n + VAL_CHUNK - 1) / VAL_CHUNK;
    let sh = Arc::new(ValShared {
        lines,
        next: AtomicUsize::new(0),
    });
    let spawn = move |slot: Slot, tx: Sender<Msg>| {
        let sh = sh.clone();
        std::thread::Builder::new()
            .name("val-worker".into())
            .stack_size(16 << 20)
            .spawn(move || val_worker(sh, slot, tx))
            .unwrap_or_else(|e| die(1, &format!("cannot spawn worker: {}", e)));
    };
    // a hung line: its chunk is written as just the hang line (sorted by chunk index)
    let hang_line = |tag: u64| {
        let i = tag as usize;
        (i / VAL_CHUNK, format!("{}|hang\n", i))
    };
    drive(0, nchunks, jobs, sink, &spawn, &hang_line, None)
}

// ---------------------------------------------------------------------------------------------
// errtab mode

fn mode_errtab(args: &[String]) -> ! {
    if args.len() != 1 {
        usage();
    }
    let mut out = create(&args[0]);
    let mut panicked = 0u32;
    let mut s = String::new();
    for c in 0..=65535u16 {
        let r = panics::caught(|| {
            let k = msql_srv::ErrorKind::from(c);
            (format!("{:?}", k), k as u16, *k.sqlstate())
        });
        match r {
            Ok((name, code, state)) => {
                s.clear();
                let _ = write!(s, "{}|{}|{}|", c, name, code);
                push_hex(&mut s, &state);
                s.push('\n');
                if let Err(e) = out.write_all(s.as_bytes()) {
                    die(1, &format!("write failed: {}", e));
                }
            }
            Err(_) => panicked += 1,
        }
    }
    if let Err(e) = writeln!(out, "panics|{}", panicked).and_then(|_| out.flush()) {
        die(1, &format!("write failed: {}", e));
    }
    std::process::exit(0);
}

fn main() {
    panics::install_hook();
    let args: Vec<String> = std::env::args().skip(1).collect();
    if args.is_empty() {
        usage();
    }
    match args[0].as_str() {
        "conn" => mode_conn(&args[1..], false),
        "tls" => mode_conn(&args[1..], true),
        "val" => mode_val(&args[1..]),
        "errtab" => mode_errtab(&args[1..]),
        _ => usage(),
    }
}
