(* Driver for the extracted Coq model: reads the case files of FORMAT.md, runs the model,
   prints observations in the same textual form as the Rust harness. *)
open Model
type string = Stdlib.String.t
module String = Stdlib.String
module List = Stdlib.List
module Char = Stdlib.Char
module Array = Stdlib.Array
module Buffer = Stdlib.Buffer
module Hashtbl = Stdlib.Hashtbl
module Printf = Stdlib.Printf
module Sys = Stdlib.Sys

let fail_parse msg = prerr_endline ("driver: " ^ msg); exit 2

(* ---------- numbers ---------- *)
let rec pos_of_int i = if i = 1 then XH else if i land 1 = 0 then XO (pos_of_int (i lsr 1)) else XI (pos_of_int (i lsr 1))
let n_of_int i = if i = 0 then N0 else Npos (pos_of_int i)
let nat_of_int i = let r = ref O in for _ = 1 to i do r := S !r done; !r
let rec int_of_nat = function O -> 0 | S n -> 1 + int_of_nat n
let rec int_of_pos = function XH -> 1 | XO p -> 2 * int_of_pos p | XI p -> 2 * int_of_pos p + 1
let int_of_n = function N0 -> 0 | Npos p -> int_of_pos p

let n10 = n_of_int 10
(* decimal string (no sign) -> N, arbitrary size *)
let n_of_dec (s : string) : n =
  if s = "" then fail_parse "empty number";
  let acc = ref N0 in
  String.iter (fun c ->
    if c < '0' || c > '9' then fail_parse ("bad number " ^ s);
    acc := N.add (N.mul !acc n10) (n_of_int (Char.code c - 48))) s;
  !acc
let z_of_dec (s : string) : z =
  if String.length s > 0 && s.[0] = '-' then Z.opp (Z.of_N (n_of_dec (String.sub s 1 (String.length s - 1))))
  else Z.of_N (n_of_dec s)
let n_of_hex (s : string) : n =
  let acc = ref N0 in
  let n16 = n_of_int 16 in
  String.iter (fun c ->
    let d = match c with '0'..'9' -> Char.code c - 48 | 'a'..'f' -> Char.code c - 87 | 'A'..'F' -> Char.code c - 55
      | _ -> fail_parse ("bad hex " ^ s) in
    acc := N.add (N.mul !acc n16) (n_of_int d)) s;
  !acc

(* ---------- bytes ---------- *)
let byte_tab : byte array = Array.init 256 (fun i -> b_of_N (n_of_int i))
let int_of_byte (b : byte) : int = int_of_n (n_of_b b)
let bytes_of_string (s : string) : byte list =
  let r = ref [] in
  for i = String.length s - 1 downto 0 do r := byte_tab.(Char.code s.[i]) :: !r done; !r
let string_of_bytes (l : byte list) : string =
  let b = Buffer.create 64 in List.iter (fun x -> Buffer.add_char b (Char.chr (int_of_byte x))) l; Buffer.contents b
let hex_of_bytes (l : byte list) : string =
  let b = Buffer.create 64 in List.iter (fun x -> Buffer.add_string b (Printf.sprintf "%02x" (int_of_byte x))) l; Buffer.contents b
let hexval c = match c with '0'..'9' -> Char.code c - 48 | 'a'..'f' -> Char.code c - 87 | 'A'..'F' -> Char.code c - 55
  | _ -> fail_parse "bad hex digit"
(* hexspec -> raw OCaml string *)
let raw_of_hexspec (s : string) : string =
  if s = "-" then "" else begin
    let b = Buffer.create 64 in
    List.iter (fun seg ->
      if String.length seg > 0 && seg.[0] = 'r' then begin
        match String.index_opt seg 'x' with
        | None -> fail_parse ("bad repeat segment " ^ seg)
        | Some k ->
          let cnt = int_of_string (String.sub seg 1 (k - 1)) in
          let hh = String.sub seg (k + 1) 2 in
          let c = Char.chr (hexval hh.[0] * 16 + hexval hh.[1]) in
          Buffer.add_string b (String.make cnt c)
      end else begin
        if String.length seg mod 2 <> 0 then fail_parse ("odd hex " ^ seg);
        let i = ref 0 in
        while !i < String.length seg do
          Buffer.add_char b (Char.chr (hexval seg.[!i] * 16 + hexval seg.[!i + 1])); i := !i + 2
        done
      end) (String.split_on_char '+' s);
    Buffer.contents b
  end
let bytes_of_hexspec s = bytes_of_string (raw_of_hexspec s)

let dec_of_z (z : z) : string = string_of_bytes (dec_Z z)
let dec_of_n (n : n) : string = dec_of_z (Z.of_N n)
(* N -> fixed-width lowercase hex *)
let hex_of_n (width : int) (x : n) : string =
  let rec bits p acc = match p with
    | XH -> 1 :: acc | XO q -> bits q (0 :: acc) | XI q -> bits q (1 :: acc) in
  (* bits: most significant first *)
  let bl = match x with N0 -> [] | Npos p -> bits p [] in
  let total = width * 4 in
  let bl = let l = List.length bl in if l < total then List.init (total - l) (fun _ -> 0) @ bl else bl in
  let b = Buffer.create 16 in
  let rec go l = match l with
    | a :: b' :: c :: d :: r -> Buffer.add_char b "0123456789abcdef".[a*8+b'*4+c*2+d]; go r
    | [] -> () | _ -> () in
  go bl; Buffer.contents b

(* ---------- aux (float oracle) ---------- *)
let aux_f32 : (string, string * string) Hashtbl.t = Hashtbl.create 1024   (* bits -> shown(hex), bits64 *)
let aux_f64 : (string, string) Hashtbl.t = Hashtbl.create 1024           (* bits -> shown(hex) *)
let aux_trunc : (string, string) Hashtbl.t = Hashtbl.create 64
let load_aux path =
  if Sys.file_exists path then begin
    let ic = open_in path in
    (try while true do
      let l = input_line ic in
      match String.split_on_char '|' l with
      | ["f32"; b; shown; b64] -> Hashtbl.replace aux_f32 b (shown, b64)
      | ["f64"; b; shown] -> Hashtbl.replace aux_f64 b shown
      | ["trunc"; b64; b32] -> Hashtbl.replace aux_trunc b64 b32
      | _ -> ()
    done with End_of_file -> ());
    close_in ic
  end
let missing_aux = ref 0
let f32_info bits = match Hashtbl.find_opt aux_f32 bits with
  | Some (shown, b64) -> (bytes_of_hexspec (if shown = "" then "-" else shown), n_of_hex b64)
  | None -> incr missing_aux; ([], N0)
let f64_shown bits = match Hashtbl.find_opt aux_f64 bits with
  | Some shown -> bytes_of_hexspec (if shown = "" then "-" else shown)
  | None -> incr missing_aux; []
let fpext (b : n) : n = snd (f32_info (hex_of_n 8 b))
let fptrunc (b : n) : n = match Hashtbl.find_opt aux_trunc (hex_of_n 16 b) with
  | Some b32 -> n_of_hex b32 | None -> incr missing_aux; N0

(* ---------- token stream ---------- *)
type toks = { arr : string array; mutable pos : int }
let peek t = if t.pos < Array.length t.arr then Some t.arr.(t.pos) else None
let pop t = match peek t with Some x -> t.pos <- t.pos + 1; x | None -> fail_parse "unexpected end of line"
let split_colon s = String.split_on_char ':' s

let parse_col t : column =
  let table = bytes_of_hexspec (pop t) in
  let name = bytes_of_hexspec (pop t) in
  let ty = n_of_dec (pop t) in
  let fl = n_of_dec (pop t) in
  { c_table = table; c_name = name; c_type = ty; c_flags = fl }
let parse_cols t : column list =
  let n = int_of_string (pop t) in List.init n (fun _ -> parse_col t)

let ity_of = function
  | "u8" -> U8 | "i8" -> I8 | "u16" -> U16 | "i16" -> I16 | "u32" -> U32 | "i32" -> I32
  | "u64" -> U64 | "i64" -> I64 | "usize" -> Usize | "isize" -> Isize | s -> fail_parse ("bad int type " ^ s)

let rec parse_val t : value =
  let tok = pop t in
  match tok with
  | "none" -> VNone
  | "some" -> VSome (parse_val t)
  | "ref" -> VRef (parse_val t)
  | "mnull" -> VMyc MNull
  | _ ->
    match split_colon tok with
    | [("u8"|"i8"|"u16"|"i16"|"u32"|"i32"|"u64"|"i64"|"usize"|"isize") as ty; v] -> VInt (ity_of ty, z_of_dec v)
    | ["f32"; b] -> let (shown, b64) = f32_info b in VF32 (n_of_hex b, shown, b64)
    | ["f64"; b] -> VF64 (n_of_hex b, f64_shown b)
    | [("b"|"vec"|"s"|"string"); h] -> VBytes (bytes_of_hexspec h)
    | ["date"; y; m; d] -> VDate (z_of_dec y, n_of_dec m, n_of_dec d)
    | ["dt"; y; m; d; h; mi; s; ns] -> VDateTime (z_of_dec y, n_of_dec m, n_of_dec d, n_of_dec h, n_of_dec mi, n_of_dec s, n_of_dec ns)
    | ["dur"; s; ns] -> VDur (n_of_dec s, n_of_dec ns)
    | ["mbytes"; h] -> VMyc (MBytes (bytes_of_hexspec h))
    | ["mint"; v] -> VMyc (MInt (z_of_dec v))
    | ["muint"; v] -> VMyc (MUInt (z_of_dec v))
    | ["mfloat"; b] -> let (shown, b64) = f32_info b in VMyc (MFloat (n_of_hex b, shown, b64))
    | ["mdouble"; b] -> VMyc (MDouble (n_of_hex b, f64_shown b))
    | ["mdate"; y; mo; d; h; mi; s; us] -> VMyc (MDate (n_of_dec y, n_of_dec mo, n_of_dec d, n_of_dec h, n_of_dec mi, n_of_dec s, n_of_dec us))
    | ["mtime"; neg; d; h; m; s; us] -> VMyc (MTime (neg <> "0", n_of_dec d, n_of_dec h, n_of_dec m, n_of_dec s, n_of_dec us))
    | _ -> fail_parse ("bad value token " ^ tok)

let parse_onerr t = match pop t with "p" -> Propagate | "i" -> Ignore | s -> fail_parse ("bad onerr " ^ s)

let rec parse_qprog t : qprog =
  match pop t with
  | "start" -> let cols = parse_cols t in let k = parse_rprog t in QStart (cols, k)
  | "c1" -> let r = n_of_dec (pop t) in let i = n_of_dec (pop t) in let k = parse_qprog t in QCompleteOne (r, i, k)
  | "done" -> let r = n_of_dec (pop t) in let i = n_of_dec (pop t) in QCompleted (r, i)
  | "err" -> let c = n_of_dec (pop t) in let m = bytes_of_hexspec (pop t) in QError (c, m)
  | "nomore" -> QNoMore
  | "drop" -> QDrop
  | s -> fail_parse ("bad qprog token " ^ s)
and parse_rprog t : rprog =
  match pop t with
  | "wc" -> let v = parse_val t in let e = parse_onerr t in let k = parse_rprog t in RWriteCol (v, e, k)
  | "er" -> let e = parse_onerr t in let k = parse_rprog t in REndRow (e, k)
  | "wr" -> let n = int_of_string (pop t) in
            let vs = List.init n (fun _ -> parse_val t) in
            let e = parse_onerr t in let k = parse_rprog t in RWriteRow (vs, e, k)
  | "fin" -> RFinish
  | "fin1" -> RFinishOne (parse_qprog t)
  | "ferr" -> let c = n_of_dec (pop t) in let m = bytes_of_hexspec (pop t) in RFinishError (c, m)
  | "drop" -> RDrop
  | s -> fail_parse ("bad rprog token " ^ s)

let parse_ret t : n option =
  match peek t with
  | Some s when String.length s > 4 && String.sub s 0 4 = "ret:" ->
      ignore (pop t); Some (n_of_dec (String.sub s 4 (String.length s - 4)))
  | _ -> None

let conv_of = function
  | "none" | "" | "-" -> KNone | "u8" -> KU8 | "i8" -> KI8 | "u16" -> KU16 | "i16" -> KI16 | "u32" -> KU32
  | "i32" -> KI32 | "u64" -> KU64 | "i64" -> KI64 | "f32" -> KF32 | "f64" -> KF64 | "bytes" -> KBytes
  | "str" -> KStr | "date" -> KDate | "datetime" -> KDatetime | "dur" -> KDur
  | s -> fail_parse ("bad conv " ^ s)

let parse_rtok (s : string) : rd =
  if s = "eof" then RdEof
  else if String.length s > 4 && String.sub s 0 4 = "err:" then RdErr (n_of_dec (String.sub s 4 (String.length s - 4)))
  else if String.length s >= 2 && String.sub s 0 2 = "d:" then RdData (bytes_of_hexspec (String.sub s 2 (String.length s - 2)))
  else fail_parse ("bad read token " ^ s)

(* ---------- printing ---------- *)
let kind_str = function
  | EUnexpectedEof -> "UnexpectedEof" | EConnAborted -> "ConnectionAborted" | EInvalidData -> "InvalidData"
  | EInvalidInput -> "InvalidInput" | EWriteZero -> "WriteZero" | EOther -> "Other"
  | EInjected k -> "Injected:" ^ dec_of_n k | EShim t -> "Shim:" ^ dec_of_n t
let site_str = function
  | PFragSeq -> "FragSeq" | PParamsSplitNull | PParamsSplitTypes -> "ParamsSplit" | PParamsBadType -> "ParamsBadType"
  | PParamsBoundIndex -> "ParamsBoundIndex" | PParamsValue -> "ParamsValue" | PConv -> "Conv"
  | PConvOverflow -> "ConvOverflow" | PNullBin -> "NullBin" | PTimeNeg -> "TimeNeg" | PDropUnwrap -> "DropUnwrap"
  | PFromU16 -> "FromU16" | POutOfFuel -> "MODEL-OUT-OF-FUEL"
let inner_str = function
  | PINull -> "null" | PIBytes b -> "bytes:" ^ hex_of_bytes b | PIInt z -> "int:" ^ dec_of_z z
  | PIUInt n -> "uint:" ^ dec_of_n n | PIDouble b -> "double:" ^ hex_of_n 16 b
  | PIDate b -> "date:" ^ hex_of_bytes b | PITime b -> "time:" ^ hex_of_bytes b | PIDatetime b -> "datetime:" ^ hex_of_bytes b
let conv_str = function
  | CvInt z -> dec_of_z z | CvF32 b -> hex_of_n 8 b | CvF64 b -> hex_of_n 16 b | CvBytes b -> hex_of_bytes b
  | CvDate (y, m, d) -> Printf.sprintf "%s:%s:%s" (dec_of_z y) (dec_of_n m) (dec_of_n d)
  | CvDateTime (y, m, d, h, mi, s, ns) ->
      Printf.sprintf "%s:%s:%s:%s:%s:%s:%s" (dec_of_z y) (dec_of_n m) (dec_of_n d) (dec_of_n h) (dec_of_n mi) (dec_of_n s) (dec_of_n ns)
  | CvDur (s, ns) -> Printf.sprintf "%s:%s" (dec_of_n s) (dec_of_n ns)

let print_event oc id = function
  | ERead n -> Printf.fprintf oc "%s|read|%s\n" id (dec_of_n n)
  | EReadErr k -> Printf.fprintf oc "%s|readerr|%s\n" id (dec_of_n k)
  | EWrite bs -> Printf.fprintf oc "%s|w|%s\n" id (hex_of_bytes bs)
  | EWriteErr k -> Printf.fprintf oc "%s|werr|%s\n" id (dec_of_n k)
  | EFlush -> Printf.fprintf oc "%s|flush\n" id
  | EFlushErr k -> Printf.fprintf oc "%s|flusherr|%s\n" id (dec_of_n k)
  | EApi None -> Printf.fprintf oc "%s|api|ok\n" id
  | EApi (Some e) -> Printf.fprintf oc "%s|api|err %s\n" id (kind_str e)
  | ECall c ->
    (match c with
     | CAuth None -> Printf.fprintf oc "%s|call|auth|none\n" id
     | CAuth (Some u) -> Printf.fprintf oc "%s|call|auth|%s\n" id (hex_of_bytes u)
     | CQuery q -> Printf.fprintf oc "%s|call|query|%s\n" id (hex_of_bytes q)
     | CPrepare q -> Printf.fprintf oc "%s|call|prepare|%s\n" id (hex_of_bytes q)
     | CInit q -> Printf.fprintf oc "%s|call|init|%s\n" id (hex_of_bytes q)
     | CExecute i -> Printf.fprintf oc "%s|call|execute|%s\n" id (dec_of_n i)
     | CParam (ty, v) -> Printf.fprintf oc "%s|call|param|%s|%s\n" id (dec_of_n ty) (inner_str v)
     | CConv r -> Printf.fprintf oc "%s|call|conv|%s\n" id (conv_str r)
     | CClose i -> Printf.fprintf oc "%s|call|close|%s\n" id (dec_of_n i))

let print_result oc id (r : unit res) =
  match r with
  | ROk _ -> Printf.fprintf oc "%s|result|ok\n" id
  | RErr e -> Printf.fprintf oc "%s|result|err %s\n" id (kind_str e)
  | RPanic s -> Printf.fprintf oc "%s|result|panic %s\n" id (site_str s)

(* ---------- conn mode ---------- *)
type case = {
  mutable id : string; mutable lim : int; mutable tls : bool; mutable auth : n option; mutable dinit : bool;
  mutable reads : rd list; mutable fault : wfault; mutable mfault_set : bool;
  mutable qs : (qprog * n option) list; mutable ps : (pprog * n option) list;
  mutable xs : xscript list; mutable is : (iprog * n option) list;
  mutable pre : byte list; mutable plain : byte list;
}
let new_case id = { id; lim = 16777215; tls = false; auth = None; dinit = false; reads = []; fault = WNone; mfault_set = false;
                    qs = []; ps = []; xs = []; is = []; pre = []; plain = [] }

let run_case oc (c : case) =
  let sc = { sc_q = List.rev c.qs; sc_p = List.rev c.ps; sc_x = List.rev c.xs;
             sc_i = if c.dinit then List.init 64 (fun _ -> (IDefault, None)) else List.rev c.is } in
  let cfg = { cfg_tls = c.tls; cfg_auth = c.auth } in
  let st0 = model_init_st (n_of_int c.lim) c.reads c.fault in
  let (r, st1) = model_run_on fpext fptrunc model_errtab cfg sc st0 in
  (* dinit=1: the shim inherits the trait's default on_init, whose invocation the harness cannot
     observe (there is no user code in it): the model's CInit event is not printed *)
  let visible e = not (c.dinit && (match e with ECall (CInit _) -> true | _ -> false)) in
  List.iter (fun e -> if visible e then print_event oc c.id e) (List.rev st1.s_trace);
  print_result oc c.id r

(* tls mode: the model sees the plaintext SSL request on the socket and the client's plaintext
   (second handshake response + commands) as what the engine yields after the switch *)
let run_case_tls oc (c : case) =
  let sc = { sc_q = List.rev c.qs; sc_p = List.rev c.ps; sc_x = List.rev c.xs; sc_i = List.rev c.is } in
  let cfg = { cfg_tls = c.tls; cfg_auth = c.auth } in
  let st0 = model_init_st (n_of_int c.lim) [RdData c.pre] WNone in
  let plain = if c.plain = [] then [] else [RdData c.plain] in
  let (r, st1) = model_run_on_tls fpext fptrunc model_errtab cfg sc plain st0 in
  let evs = List.rev st1.s_trace in
  let seen_read = ref false in
  let plainout = Buffer.create 64 and tlsout = Buffer.create 256 in
  List.iter (fun e -> match e with
    | ERead _ | EReadErr _ -> seen_read := true
    | EWrite bs -> Buffer.add_string (if !seen_read then tlsout else plainout) (hex_of_bytes bs)
    | ECall _ | EApi _ -> print_event oc c.id e
    | _ -> ()) evs;
  Printf.fprintf oc "%s|tlsout|%s\n" c.id (Buffer.contents tlsout);
  Printf.fprintf oc "%s|plainout|%s\n" c.id (Buffer.contents plainout);
  print_result oc c.id r

let parse_fault s =
  match split_colon s with
  | ["none"] -> WNone
  | ["once"; op; k] -> WOnce (nat_of_int (int_of_string op), n_of_dec k)
  | ["from"; op; k] -> WFrom (nat_of_int (int_of_string op), n_of_dec k)
  | _ -> fail_parse ("bad fault " ^ s)

let conn_mode ?(tlsmode=false) cases out =
  let ic = open_in cases in
  let oc = open_out out in
  let cur = ref None in
  let lineno = ref 0 in
  (try while true do
    let l = input_line ic in
    incr lineno;
    if l <> "" && l.[0] <> '#' then begin
      let arr = Array.of_list (List.filter (fun s -> s <> "") (String.split_on_char ' ' l)) in
      let t = { arr; pos = 0 } in
      match pop t with
      | "case" -> cur := Some (new_case (pop t))
      | "end" -> (match !cur with Some c -> (if tlsmode then run_case_tls oc c else run_case oc c); cur := None | None -> fail_parse "end without case")
      | kw ->
        let c = match !cur with Some c -> c | None -> fail_parse ("directive outside case at line " ^ string_of_int !lineno) in
        (match kw with
         | "cfg" ->
           while peek t <> None do
             let kv = pop t in
             match String.split_on_char '=' kv with
             | ["lim"; v] -> c.lim <- int_of_string v
             | ["tls"; v] -> c.tls <- (v = "1")
             | ["dinit"; v] -> c.dinit <- (v = "1")
             | ["clientcert"; _] -> ()
             | ["bighello"; _] -> ()
             | ["wcap"; _] -> ()
             | ["wzero"; _] -> ()
             | ["auth"; "ok"] -> c.auth <- None
             | ["auth"; v] -> (match split_colon v with ["rej"; tag] -> c.auth <- Some (n_of_dec tag) | _ -> fail_parse ("bad auth " ^ v))
             | _ -> fail_parse ("bad cfg " ^ kv)
           done
         | "reads" -> let l = ref [] in while peek t <> None do l := parse_rtok (pop t) :: !l done; c.reads <- List.rev !l
         | "fault" -> let f = parse_fault (pop t) in if not c.mfault_set then c.fault <- f
         | "mfault" -> c.fault <- parse_fault (pop t); c.mfault_set <- true
         | "pre" -> c.pre <- bytes_of_hexspec (pop t)
         | "plain" -> c.plain <- bytes_of_hexspec (pop t)
         | "split" | "prechunks" | "chunks" -> ()
         | "q" -> let p = parse_qprog t in let r = parse_ret t in c.qs <- (p, r) :: c.qs
         | "p" ->
           let p = (match pop t with
             | "reply" -> let id = n_of_dec (pop t) in let ps = parse_cols t in let cs = parse_cols t in PReply (id, ps, cs)
             | "err" -> let code = n_of_dec (pop t) in let m = bytes_of_hexspec (pop t) in PError (code, m)
             | "noreply" -> PNoReply
             | s -> fail_parse ("bad pprog " ^ s)) in
           let r = parse_ret t in c.ps <- (p, r) :: c.ps
         | "i" ->
           let p = (match pop t with
             | "ok" -> IOk
             | "err" -> let code = n_of_dec (pop t) in let m = bytes_of_hexspec (pop t) in IError (code, m)
             | "noreply" -> INoReply
             | s -> fail_parse ("bad iprog " ^ s)) in
           let r = parse_ret t in c.is <- (p, r) :: c.is
         | "x" ->
           let pull = (match pop t with "all" -> None | s -> Some (nat_of_int (int_of_string s))) in
           let convs = (match pop t with "-" -> [] | s -> List.map conv_of (String.split_on_char ',' s)) in
           let p = parse_qprog t in let r = parse_ret t in
           c.xs <- { x_pull = pull; x_convs = convs; x_prog = p; x_ret = r } :: c.xs
         | s -> fail_parse ("unknown directive " ^ s ^ " at line " ^ string_of_int !lineno))
    end
  done with End_of_file -> ());
  close_in ic; close_out oc

(* ---------- val mode ---------- *)
let print_bres oc i (r : byte list res) =
  match r with
  | ROk bs -> Printf.fprintf oc "%d|ok %s\n" i (hex_of_bytes bs)
  | RErr e -> Printf.fprintf oc "%d|err %s\n" i (kind_str e)
  | RPanic s -> Printf.fprintf oc "%d|panic %s\n" i (site_str s)

let val_mode cases out =
  let ic = open_in cases in
  let oc = open_out out in
  let i = ref 0 in
  (try while true do
    let l = input_line ic in
    let arr = Array.of_list (List.filter (fun s -> s <> "") (String.split_on_char ' ' l)) in
    let t = { arr; pos = 0 } in
    (match pop t with
     | "t" -> print_bres oc !i (model_to_text (parse_val t))
     | "b" -> let ty = n_of_dec (pop t) in let fl = n_of_dec (pop t) in
              let v = parse_val t in
              print_bres oc !i (model_to_bin v { c_table = []; c_name = []; c_type = ty; c_flags = fl })
     | "n" -> let v = parse_val t in
              Printf.fprintf oc "%d|ok %s\n" !i (if model_is_null v then "01" else "00")
     | s -> fail_parse ("bad val line " ^ s));
    incr i
  done with End_of_file -> ());
  close_in ic; close_out oc

(* ---------- spec mode: the Coq specification's client applied to real server output ----------
   input lines:  <id>|<lim>|<kinds>|<hex of all server bytes>   kinds = comma list of
   g (greeting) a (auth reply) q (text response) x (binary response) p (prepare reply) o (OK/ERR) f (field list)
   output: one line per reply  <id>|<kind>|<canonical decoding>  or <id>|bad|<where> *)
let cell_str = function CNull -> "N" | CText b -> "T" ^ hex_of_bytes b
let binval_str = function
  | BNull -> "N" | BInt z -> "i" ^ dec_of_z z | BF32 b -> "f" ^ hex_of_n 8 b | BF64 b -> "d" ^ hex_of_n 16 b
  | BBytes b -> "b" ^ hex_of_bytes b
  | BDate (y, mo, d, h, mi, s, us) -> Printf.sprintf "D%s:%s:%s:%s:%s:%s:%s" (dec_of_n y) (dec_of_n mo) (dec_of_n d) (dec_of_n h) (dec_of_n mi) (dec_of_n s) (dec_of_n us)
  | BTime (neg, d, h, mi, s, us) -> Printf.sprintf "t%d:%s:%s:%s:%s:%s" (if neg then 1 else 0) (dec_of_n d) (dec_of_n h) (dec_of_n mi) (dec_of_n s) (dec_of_n us)
let col_str (c : column) = Printf.sprintf "%s/%s/%s/%s" (hex_of_bytes c.c_table) (hex_of_bytes c.c_name) (dec_of_n c.c_type) (dec_of_n c.c_flags)
let row_str = function
  | RText cs -> String.concat "," (List.map cell_str cs)
  | RBin vs -> String.concat "," (List.map binval_str vs)
let unit_str = function
  | UOk (r, i) -> Printf.sprintf "ok %s %s" (dec_of_n r) (dec_of_n i)
  | UErr (c, st, m) -> Printf.sprintf "err %s %s %s" (dec_of_n c) (hex_of_bytes st) (hex_of_bytes m)
  | URows (cols, rows) -> Printf.sprintf "rows [%s] [%s]" (String.concat ";" (List.map col_str cols)) (String.concat ";" (List.map row_str rows))
  | URowsErr (cols, rows, c, st, m) -> Printf.sprintf "rows_err [%s] [%s] %s %s %s" (String.concat ";" (List.map col_str cols)) (String.concat ";" (List.map row_str rows)) (dec_of_n c) (hex_of_bytes st) (hex_of_bytes m)

let spec_mode input out =
  let ic = open_in input in
  let oc = open_out out in
  (try while true do
    let l = input_line ic in
    match String.split_on_char '|' l with
    | [id; lim; kinds; hex] ->
      let bytes = bytes_of_hexspec (if hex = "" then "-" else hex) in
      (match spec_deframe (n_of_int (int_of_string lim)) bytes with
       | None -> Printf.fprintf oc "%s|bad|framing\n" id
       | Some msgs ->
         let seqs = List.map (fun ((first, last), _) -> (int_of_n first, int_of_n last)) msgs in
         Printf.fprintf oc "%s|seqs|%s\n" id (String.concat "," (List.map (fun (a, b) -> Printf.sprintf "%d-%d" a b) seqs));
         let payloads = ref (List.map snd msgs) in
         let take1 () = match !payloads with [] -> None | m :: r -> payloads := r; Some m in
         (try
           List.iter (fun k ->
             match k with
             | "" -> ()
             | "g" -> (match take1 () with
                 | Some m -> (match spec_greeting m with
                     | Some g -> Printf.fprintf oc "%s|g|%s %s\n" id (dec_of_n g.g_proto) (dec_of_n g.g_caps)
                     | None -> Printf.fprintf oc "%s|bad|greeting\n" id; raise Exit)
                 | None -> Printf.fprintf oc "%s|bad|missing greeting\n" id; raise Exit)
             | "a" | "o" -> (match take1 () with
                 | Some m -> (match spec_ok m, spec_err m with
                     | Some ok, _ -> Printf.fprintf oc "%s|%s|ok %s %s %s\n" id k (dec_of_n ok.ok_rows) (dec_of_n ok.ok_id) (dec_of_n ok.ok_status)
                     | None, Some e -> Printf.fprintf oc "%s|%s|err %s %s %s\n" id k (dec_of_n e.err_code) (hex_of_bytes e.err_state) (hex_of_bytes e.err_msg)
                     | None, None -> Printf.fprintf oc "%s|bad|ok/err expected\n" id; raise Exit)
                 | None -> Printf.fprintf oc "%s|bad|missing reply\n" id; raise Exit)
             | "q" | "x" ->
                 (match spec_response (nat_of_int (List.length !payloads + 1)) (k = "x") !payloads with
                  | Some (units, rest) -> payloads := rest;
                      Printf.fprintf oc "%s|%s|%s\n" id k (String.concat " ## " (List.map unit_str units))
                  | None -> Printf.fprintf oc "%s|bad|response\n" id; raise Exit)
             | "p" ->
                 (match !payloads with
                  | m :: _ when (match spec_err m with Some _ -> true | None -> false) ->
                      (match spec_err m with Some e -> ignore (take1 ()); Printf.fprintf oc "%s|p|err %s %s %s\n" id (dec_of_n e.err_code) (hex_of_bytes e.err_state) (hex_of_bytes e.err_msg) | None -> ())
                  | _ ->
                    (match spec_prepare_ok !payloads with
                     | Some (pk, rest) -> payloads := rest;
                         Printf.fprintf oc "%s|p|prep %s [%s] [%s]\n" id (dec_of_n pk.pk_id)
                           (String.concat ";" (List.map col_str pk.pk_params)) (String.concat ";" (List.map col_str pk.pk_cols))
                     | None -> Printf.fprintf oc "%s|bad|prepare reply\n" id; raise Exit))
             | "f" ->
                 let rec go acc = (match take1 () with
                   | None -> Printf.fprintf oc "%s|bad|field list\n" id; raise Exit
                   | Some m -> (match spec_eof m with
                       | Some _ when List.length m < 9 -> List.rev acc
                       | _ -> (match spec_coldef m with Some c -> go (c :: acc) | None -> Printf.fprintf oc "%s|bad|field list\n" id; raise Exit))) in
                 let cs = go [] in
                 Printf.fprintf oc "%s|f|[%s]\n" id (String.concat ";" (List.map col_str cs))
             | s -> fail_parse ("bad kind " ^ s)) (String.split_on_char ',' kinds);
           Printf.fprintf oc "%s|left|%d\n" id (List.length !payloads)
         with Exit -> ()))
    | _ -> ()
  done with End_of_file -> ());
  close_in ic; close_out oc

let () =
  match Array.to_list Sys.argv with
  | [_; "spec"; input; out] -> spec_mode input out
  | [_; "conn"; cases; aux; out] -> load_aux aux; conn_mode cases out;
      if !missing_aux > 0 then Printf.eprintf "driver: %d float lookups missing from aux\n" !missing_aux
  | [_; "tls"; cases; aux; out] -> load_aux aux; conn_mode ~tlsmode:true cases out
  | [_; "val"; cases; aux; out] -> load_aux aux; val_mode cases out;
      if !missing_aux > 0 then Printf.eprintf "driver: %d float lookups missing from aux\n" !missing_aux
  | _ -> prerr_endline "usage: driver (conn|val) <cases> <aux> <out>"; exit 2
