(* C12, "never waits for input while a complete command is buffered": next() performs a transport read
   only at moments when the bytes received so far do NOT contain a complete command.  Together with
   "everything written is flushed at every read" (conv_trace_flushed) this is the formal content of
   "a client that sends one command at a time and waits for each reply never hangs". *)
From MsqlVerif Require Import Model.Packet Proofs.BaseLemmas Proofs.PacketRead.
From Coq Require Import Lia.
Open Scope N_scope.

(* the buffered bytes do not (yet) form a complete command: the only situation in which next() reads *)
Definition needs_input (lim : N) (buf : bytes) : bool :=
  match buf with
  | [] => true
  | _ => match packet lim buf with PNeed => true | _ => false end
  end.

(* the chunks a run of next() consumed, each delivered at a moment when input was needed *)
Fixpoint reads_needed (lim : N) (buf : bytes) (chunks : list bytes) : Prop :=
  match chunks with
  | [] => True
  | c :: r => needs_input lim buf = true /\ reads_needed lim (buf ++ c) r
  end.

Lemma needs_input_spec lim buf :
  needs_input lim buf = match packet lim buf with PNeed => true | _ => false end.
Proof. destruct buf as [|b bs]; reflexivity. Qed.

Theorem next_reads_only_when_needed : forall fuel s r s',
  all_data (s_reads s) ->
  next_f fuel s = (r, s') ->
  exists chunks,
    s_reads s = map RdData chunks ++ s_reads s' /\
    reads_needed (s_lim s) (s_buf s) chunks /\
    (* it stops reading as soon as a command is complete: the returned command is the first one of the
       bytes received so far, completed by the last chunk (or already buffered: no read at all) *)
    (forall q p, r = ROk (Some (q, p)) ->
       packet (s_lim s) (s_buf s ++ concat chunks) = PDone q p (s_buf s')) /\
    (* the read that finds the stream ended was also made while input was needed *)
    (r = ROk None \/ r = RErr EUnexpectedEof -> needs_input (s_lim s) (s_buf s ++ concat chunks) = true).
Proof.
  induction fuel as [|f IH]; intros s r s' Hall Hn.
  - cbn [next_f] in Hn. unfold panic in Hn. injection Hn as <- <-.
    exists []. split; [reflexivity|]. split; [exact I|]. split.
    + intros q p Hq. discriminate Hq.
    + intros [Hq|Hq]; discriminate Hq.
  - rewrite next_f_S in Hn.
    pose proof (needs_input_spec (s_lim s) (s_buf s)) as Hni.
    destruct (packet (s_lim s) (s_buf s)) as [q0 p0 rest0| | |] eqn:Hp.
    + injection Hn as <- <-. exists [].
      cbn [map app concat set_buf s_reads s_buf reads_needed]. rewrite app_nil_r.
      split; [reflexivity|]. split; [exact I|]. split.
      * intros q p Hq. injection Hq as <- <-. exact Hp.
      * intros [Hq|Hq]; discriminate Hq.
    + unfold t_read in Hn. destruct (s_reads s) as [|x rs] eqn:Hr.
      * cbn [s_buf upd_trace set_buf] in Hn. rewrite app_nil_r in Hn.
        assert (Hres : (r = ROk None \/ r = RErr EUnexpectedEof) /\ s_reads s' = [] ).
        { destruct (s_buf s) as [|b0 bs0]; injection Hn as <- <-;
            (split; [auto|]); cbn [s_reads]; exact Hr. }
        destruct Hres as [Hres Hr'].
        exists []. cbn [map app concat reads_needed]. rewrite app_nil_r, Hr'.
        split; [reflexivity|]. split; [exact I|]. split.
        -- intros q p Hq. destruct Hres as [Hres|Hres]; rewrite Hres in Hq; discriminate Hq.
        -- intros _. exact Hni.
      * apply all_data_cons in Hall. destruct Hall as [(b & bs & ->) Hall].
        cbv zeta in Hn.
        apply IH in Hn; [|cbn [set_buf upd_trace set_reads s_reads]; exact Hall].
        cbn [set_buf upd_trace set_reads s_reads s_lim s_buf] in Hn.
        destruct Hn as (chunks & Hrd & Hneeded & Hdone & Heof).
        exists ((b :: bs) :: chunks).
        cbn [map concat reads_needed]. rewrite app_assoc.
        split; [cbn [app]; rewrite Hrd; reflexivity|].
        split; [split; [exact Hni|exact Hneeded]|].
        split; [exact Hdone|exact Heof].
    + injection Hn as <- <-. exists [].
      cbn [map app concat reads_needed]. rewrite app_nil_r.
      split; [reflexivity|]. split; [exact I|]. split.
      * intros q p Hq. discriminate Hq.
      * intros [Hq|Hq]; discriminate Hq.
    + injection Hn as <- <-. exists [].
      cbn [map app concat reads_needed]. rewrite app_nil_r.
      split; [reflexivity|]. split; [exact I|]. split.
      * intros q p Hq. discriminate Hq.
      * intros [Hq|Hq]; discriminate Hq.
Qed.

(* non-vacuity: a command delivered in three chunks; the third read completes it *)
Example reads_needed_example :
  let s := init_st 16777215 [RdData ["003"; "000"]%byte; RdData ["000"; "000"; "003"]%byte; RdData ["a"; "b"; "014"]%byte] WNone in
  fst (next_f 10 s) = ROk (Some (0, ["003"; "a"; "b"]%byte)) /\
  reads_needed 16777215 [] [["003"; "000"]%byte; ["000"; "000"; "003"]%byte; ["a"; "b"; "014"]%byte].
Proof. vm_compute. repeat split. Qed.

Print Assumptions next_reads_only_when_needed.
