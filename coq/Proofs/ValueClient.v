(* Values written by the shim against what the client decodes: binary values per column type
   (C07), integers exact-or-refused (C15), text cells (C06).  Proofs only; statements fixed. *)
From MsqlVerif Require Import Model.Value Spec.Client Spec.Render Spec.ClientValues
  Proofs.BaseLemmas Proofs.CodecClient.
From Coq Require Import Lia.
Open Scope Z_scope.

(* ================= helper lemmas ================= *)

Lemma pow2_63_Z : 2 ^ 63 = 9223372036854775808. Proof. reflexivity. Qed.
Lemma pow2_64_Z : 2 ^ 64 = 18446744073709551616. Proof. reflexivity. Qed.

Lemma in_int_range_iff w sg z : in_int_range w sg z = true <-> int_lo w sg <= z <= int_hi w sg.
Proof. unfold in_int_range. rewrite andb_true_iff, !Z.leb_le. reflexivity. Qed.
Lemma in_int_range_spec w sg z : reflect (int_lo w sg <= z <= int_hi w sg) (in_int_range w sg z).
Proof.
  destruct (in_int_range w sg z) eqn:E; constructor.
  - apply in_int_range_iff. exact E.
  - intro H. apply in_int_range_iff in H. congruence.
Qed.

Lemma lo_f w : int_lo w false = 0. Proof. reflexivity. Qed.
Lemma lo1t : int_lo 1 true = -128. Proof. reflexivity. Qed.
Lemma lo2t : int_lo 2 true = -32768. Proof. reflexivity. Qed.
Lemma lo4t : int_lo 4 true = -2147483648. Proof. reflexivity. Qed.
Lemma lo8t : int_lo 8 true = -9223372036854775808. Proof. reflexivity. Qed.
Lemma hi1t : int_hi 1 true = 127. Proof. reflexivity. Qed.
Lemma hi2t : int_hi 2 true = 32767. Proof. reflexivity. Qed.
Lemma hi4t : int_hi 4 true = 2147483647. Proof. reflexivity. Qed.
Lemma hi8t : int_hi 8 true = 9223372036854775807. Proof. reflexivity. Qed.
Lemma hi1f : int_hi 1 false = 255. Proof. reflexivity. Qed.
Lemma hi2f : int_hi 2 false = 65535. Proof. reflexivity. Qed.
Lemma hi4f : int_hi 4 false = 4294967295. Proof. reflexivity. Qed.
Lemma hi8f : int_hi 8 false = 18446744073709551615. Proof. reflexivity. Qed.

Ltac ranges :=
  unfold ity_in_range, ity_bytes, ity_signed in *;
  rewrite ?in_int_range_iff in *;
  rewrite ?lo_f, ?lo1t, ?lo2t, ?lo4t, ?lo8t, ?hi1t, ?hi2t, ?hi4t, ?hi8t,
          ?hi1f, ?hi2f, ?hi4f, ?hi8f, ?pow2_63_Z, ?pow2_64_Z in *.

Lemma le_bytes_z_eq w z : le_bytes_z w z = le_bytes w (Z.to_N (z mod 2 ^ (8 * Z.of_nat w))).
Proof. unfold le_bytes_z, wrap_u. rewrite N2Z.inj_mul, nat_N_Z. reflexivity. Qed.
Lemma le_bytes_z_length w z : length (le_bytes_z w z) = w.
Proof. unfold le_bytes_z. apply le_bytes_length. Qed.

Lemma mod_neg z M : - M <= z < 0 -> z mod M = z + M.
Proof.
  intro H. rewrite <- (Z.mod_add z 1 M) by lia. rewrite Z.mul_1_l. apply Z.mod_small. lia.
Qed.

Lemma le_val_z w M z :
  2 ^ (8 * Z.of_nat w) = M -> (256 ^ N.of_nat w)%N = Z.to_N M -> 0 < M ->
  Z.of_N (le_val (le_bytes_z w z)) = z mod M.
Proof.
  intros HM H256 Hpos. rewrite le_bytes_z_eq, HM.
  assert (Hb : 0 <= z mod M < M) by (apply Z.mod_pos_bound; exact Hpos).
  rewrite le_val_le_bytes.
  - apply Z2N.id. lia.
  - rewrite H256. apply Z2N.inj_lt; lia.
Qed.
Lemma dec_u w M z :
  2 ^ (8 * Z.of_nat w) = M -> (256 ^ N.of_nat w)%N = Z.to_N M -> 0 < M ->
  0 <= z <= M - 1 -> Z.of_N (le_val (le_bytes_z w z)) = z.
Proof.
  intros HM H256 Hpos Hz. rewrite (le_val_z w M z HM H256 Hpos). apply Z.mod_small. lia.
Qed.
Lemma dec_s w M H z :
  2 ^ (8 * Z.of_nat w) = M -> (256 ^ N.of_nat w)%N = Z.to_N M -> M = 2 * H -> 0 < H ->
  - H <= z <= H - 1 -> le_val_s (le_bytes_z w z) = z.
Proof.
  intros HM H256 HH Hpos Hz. unfold le_val_s, wrap_s.
  assert (HL : Nlen (le_bytes_z w z) = N.of_nat w) by (unfold Nlen; rewrite le_bytes_z_length; reflexivity).
  rewrite HL, (le_val_z w M z HM H256) by lia.
  rewrite N2Z.inj_mul, nat_N_Z. change (Z.of_N 8) with 8. rewrite HM. cbv zeta.
  rewrite Z.mod_mod by lia.
  assert (Hd : M / 2 = H) by (rewrite HH, Z.mul_comm; apply Z.div_mul; lia).
  rewrite Hd.
  assert (Hm : z mod M = if z <? 0 then z + M else z).
  { destruct (Z.ltb_spec z 0); [apply mod_neg | apply Z.mod_small]; lia. }
  rewrite Hm. destruct (Z.ltb_spec z 0);
    match goal with |- context [?a <? H] => destruct (Z.ltb_spec a H) end; lia.
Qed.

Definition width_ok (w : nat) : Prop := (w = 1 \/ w = 2 \/ w = 4 \/ w = 8)%nat.

Lemma int_decode w sg z : width_ok w -> int_lo w sg <= z <= int_hi w sg ->
  (if negb sg then Z.of_N (le_val (le_bytes_z w z)) else le_val_s (le_bytes_z w z)) = z.
Proof.
  intros Hw Hz. destruct Hw as [-> | [-> | [-> | ->]]]; destruct sg; cbn [negb]; ranges.
  - apply (dec_s 1 256 128); try reflexivity; lia.
  - apply (dec_u 1 256); try reflexivity; lia.
  - apply (dec_s 2 65536 32768); try reflexivity; lia.
  - apply (dec_u 2 65536); try reflexivity; lia.
  - apply (dec_s 4 4294967296 2147483648); try reflexivity; lia.
  - apply (dec_u 4 4294967296); try reflexivity; lia.
  - apply (dec_s 8 18446744073709551616 9223372036854775808); try reflexivity; lia.
  - apply (dec_u 8 18446744073709551616); try reflexivity; lia.
Qed.

Lemma c_bin_int_rt w sg z rest : width_ok w -> in_int_range w sg z = true ->
  c_bin_int w (negb sg) (le_bytes_z w z ++ rest) = Some (BInt z, rest).
Proof.
  intros Hw Hz. unfold c_bin_int, c_take.
  rewrite take_n_app by apply le_bytes_z_length. cbn [obind].
  rewrite (int_decode w sg z Hw) by (apply in_int_range_iff; exact Hz). reflexivity.
Qed.

Ltac dpos := match goal with p : positive |- _ => destruct p end.

Lemma int_col_bytes_w ct w : int_col_bytes ct = Some w -> width_ok w.
Proof.
  unfold width_ok. intro H. destruct ct as [|p]; [discriminate H|].
  do 4 (try dpos); cbv [int_col_bytes] in H; try discriminate H; inversion H; auto.
Qed.
Lemma c_bin_value_int ct w u i : int_col_bytes ct = Some w -> c_bin_value ct u i = c_bin_int w u i.
Proof.
  intro H. destruct ct as [|p]; [discriminate H|].
  do 4 (try dpos); cbv [int_col_bytes] in H; try discriminate H; inversion H; reflexivity.
Qed.

Ltac enc_cases He :=
  repeat match type of He with
  | context [if ?c then _ else _] =>
      match c with
      | in_int_range ?w ?s ?z => destruct (in_int_range_spec w s z)
      | (?a <? ?b) => destruct (Z.ltb_spec a b)
      | (?a <=? ?b) => destruct (Z.leb_spec a b)
      end
  end.

Lemma encode_int_ok t z ct csigned bs :
  ity_in_range t z = true -> encode_int t z ct csigned = ROk bs ->
  exists w, int_col_bytes ct = Some w /\ bs = le_bytes_z w z /\ in_int_range w csigned z = true.
Proof.
  intros Hr He. unfold encode_int, bad in He.
  destruct (int_col_bytes ct) as [w|] eqn:Hw; [|discriminate He].
  exists w. split; [reflexivity|].
  pose proof (int_col_bytes_w _ _ Hw) as Hww.
  destruct Hww as [-> | [-> | [-> | ->]]]; destruct t; destruct csigned;
    cbn [ity_bytes ity_signed Nat.ltb Nat.leb Nat.eqb Bool.eqb] in He;
    enc_cases He; try discriminate He;
    (inversion He; split; [reflexivity|]; ranges; lia).
Qed.


(* ---------------- integers (C15) ---------------- *)

(* accepted => the client decodes exactly the same number, for every Rust integer type, every
   integer column type and signedness, every value of the type *)
Lemma encode_int_exact t z ct csigned bs rest :
  ity_in_range t z = true ->
  encode_int t z ct csigned = ROk bs ->
  c_bin_value ct (negb csigned) (bs ++ rest) = Some (BInt z, rest).
Proof.
  intros Hr He.
  destruct (encode_int_ok t z ct csigned bs Hr He) as (w & Hw & -> & Hin).
  rewrite (c_bin_value_int ct w _ _ Hw).
  apply c_bin_int_rt; [exact (int_col_bytes_w ct w Hw) | exact Hin].
Qed.

(* accepted whenever the column's range contains the whole range of the fixed-width type *)
Lemma encode_int_accept_fixed t z ct csigned w :
  t <> Usize -> t <> Isize ->
  int_col_bytes ct = Some w ->
  int_lo w csigned <= int_lo (ity_bytes t) (ity_signed t) ->
  int_hi (ity_bytes t) (ity_signed t) <= int_hi w csigned ->
  ity_in_range t z = true ->
  exists bs, encode_int t z ct csigned = ROk bs.
Proof.
  intros Hu Hi Hw Hlo Hhi Hr. unfold encode_int, bad. rewrite Hw.
  pose proof (int_col_bytes_w _ _ Hw) as Hww.
  destruct Hww as [-> | [-> | [-> | ->]]]; destruct t; try congruence; destruct csigned;
    cbn [ity_bytes ity_signed Nat.ltb Nat.leb Nat.eqb Bool.eqb]; ranges;
    try (exfalso; lia); try (eexists; reflexivity);
    (destruct (Z.ltb_spec z 0); [exfalso; lia | eexists; reflexivity]).
Qed.

(* pointer-sized integers: accepted whenever the column's range contains the value *)
Lemma encode_int_accept_ptr t z ct csigned w :
  t = Usize \/ t = Isize ->
  int_col_bytes ct = Some w ->
  in_int_range w csigned z = true ->
  exists bs, encode_int t z ct csigned = ROk bs.
Proof.
  intros Ht Hw Hr. unfold encode_int. rewrite Hw.
  destruct Ht as [-> | ->]; rewrite Hr; eexists; reflexivity.
Qed.

(* never a panic *)
Lemma encode_int_no_panic t z ct csigned s : encode_int t z ct csigned <> RPanic s.
Proof.
  unfold encode_int, bad. destruct (int_col_bytes ct) as [w|]; [|discriminate].
  destruct t; cbv zeta;
    repeat match goal with |- context [if ?c then _ else _] => destruct c end; discriminate.
Qed.

(* generic integer values (mysql_common Value::Int / Value::UInt) *)
Lemma encode_myc_int_exact z ct csigned bs rest :
  - 2 ^ 63 <= z < 2 ^ 63 ->
  encode_myc_int z ct csigned = ROk bs ->
  c_bin_value ct (negb csigned) (bs ++ rest) = Some (BInt z, rest).
Proof.
  intros Hz He. unfold encode_myc_int, bad in He.
  destruct csigned; enc_cases He; try discriminate He;
    (eapply encode_int_exact; [|exact He]); ranges; lia.
Qed.
Lemma encode_myc_int_accept z ct csigned w :
  - 2 ^ 63 <= z < 2 ^ 63 ->
  int_col_bytes ct = Some w -> in_int_range w csigned z = true ->
  exists bs, encode_myc_int z ct csigned = ROk bs.
Proof.
  intros Hz Hw Hr. unfold encode_myc_int, bad.
  pose proof (int_col_bytes_w _ _ Hw) as Hww.
  destruct csigned;
    repeat match goal with
    | |- context [if ?c then _ else _] =>
        match c with
        | in_int_range ?w ?s ?z => destruct (in_int_range_spec w s z)
        | (?a <? ?b) => destruct (Z.ltb_spec a b)
        | (?a <=? ?b) => destruct (Z.leb_spec a b)
        end
    end;
    try (exfalso; ranges; lia);
    (eapply encode_int_accept_fixed; [discriminate | discriminate | exact Hw | | | ]);
    destruct Hww as [-> | [-> | [-> | ->]]]; ranges; lia.
Qed.

(* ---- helpers for binary values ---- *)
Local Ltac Zify.zify_post_hook ::= Z.to_euclidean_division_equations.
Open Scope N_scope.

Lemma ROk_inj {A} (a b : A) : ROk a = ROk b -> a = b.
Proof. intro H. injection H as H. exact H. Qed.
Lemma Nb x : x < 256 -> N_of_b (b_of_N x) = x.
Proof. intro H. rewrite N_of_b_of_N. apply N.mod_small. exact H. Qed.
Lemma le_val_2 a : a < 65536 -> le_val [b_of_N a; b_of_N (a / 256)] = a.
Proof. intro H. apply (le_val_le_bytes 2 a). rewrite pow256_2. exact H. Qed.
Lemma le_val_4 a : a < 4294967296 ->
  le_val [b_of_N a; b_of_N (a / 256); b_of_N (a / 256 / 256); b_of_N (a / 256 / 256 / 256)] = a.
Proof. intro H. apply (le_val_le_bytes 4 a). exact H. Qed.
Lemma le_bytes_z_2 y : (0 <= y < 65536)%Z -> le_bytes_z 2 y = le_bytes 2 (Z.to_N y).
Proof.
  intro H. rewrite le_bytes_z_eq. change (2 ^ (8 * Z.of_nat 2))%Z with 65536%Z.
  rewrite Z.mod_small by exact H. reflexivity.
Qed.

Lemma bin_f32_eq bits b64 ct :
  bin_f32 bits b64 ct =
    if ct =? 5 then ROk (le_bytes 8 b64) else if ct =? 4 then ROk (le_bytes 4 bits) else bad.
Proof. destruct ct as [|p]; [reflexivity|]. do 3 (try dpos); reflexivity. Qed.
Lemma bin_f64_eq bits ct : bin_f64 bits ct = if ct =? 5 then ROk (le_bytes 8 bits) else bad.
Proof. destruct ct as [|p]; [reflexivity|]. do 3 (try dpos); reflexivity. Qed.
Lemma bin_date_eq y m d ct :
  bin_date y m d ct = if ct =? 10 then ROk (x04 :: le_bytes_z 2 y ++ [b_of_N m; b_of_N d]) else bad.
Proof. destruct ct as [|p]; [reflexivity|]. do 4 (try dpos); reflexivity. Qed.
Lemma bin_datetime_eq y m d h mi s ns ct :
  bin_datetime y m d h mi s ns ct =
    if (ct =? 12) || (ct =? 7) then
      ROk ((if ns / 1000 =? 0 then x07 else x0b) :: le_bytes_z 2 y ++
           [b_of_N m; b_of_N d; b_of_N h; b_of_N mi; b_of_N s] ++
           (if ns / 1000 =? 0 then [] else le_bytes 4 (ns / 1000)))
    else bad.
Proof. destruct ct as [|p]; [reflexivity|]. do 4 (try dpos); reflexivity. Qed.
Lemma bin_duration_eq secs ns ct :
  bin_duration secs ns ct =
    if ct =? 11 then
      if 34 <? secs / 86400 then bad
      else if (secs =? 0) && (ns / 1000 =? 0) then ROk [x00]
      else ROk ((if ns / 1000 =? 0 then x08 else x0c) :: x00 :: le_bytes 4 (secs / 86400) ++
                [b_of_N ((secs mod 86400) / 3600); b_of_N ((secs mod 3600) / 60);
                 b_of_N (secs mod 60)] ++
                (if ns / 1000 =? 0 then [] else le_bytes 4 (ns / 1000)))
    else bad.
Proof. destruct ct as [|p]; [reflexivity|]. do 4 (try dpos); reflexivity. Qed.

Lemma c_bin_value_bytes ct u i : is_bytes_type ct = true ->
  c_bin_value ct u i = obind (c_lenenc_str i) (fun '(v, r) => Some (BBytes v, r)).
Proof. intro H. unfold c_bin_value. rewrite H. reflexivity. Qed.
Lemma c_bin_value_4 u i :
  c_bin_value 4 u i = obind (c_take 4 i) (fun '(v, r) => Some (BF32 (le_val v), r)).
Proof. reflexivity. Qed.
Lemma c_bin_value_5 u i :
  c_bin_value 5 u i = obind (c_take 8 i) (fun '(v, r) => Some (BF64 (le_val v), r)).
Proof. reflexivity. Qed.
Definition date_ct (ct : N) : Prop := ct = 10 \/ ct = 12 \/ ct = 7.
Lemma c_bin_date4 ct u y0 y1 mo d r : date_ct ct ->
  c_bin_value ct u (x04 :: y0 :: y1 :: mo :: d :: r) =
    Some (BDate (le_val [y0; y1]) (N_of_b mo) (N_of_b d) 0 0 0 0, r).
Proof. intros [-> | [-> | ->]]; reflexivity. Qed.
Lemma c_bin_date7 ct u y0 y1 mo d h mi s r : date_ct ct ->
  c_bin_value ct u (x07 :: y0 :: y1 :: mo :: d :: h :: mi :: s :: r) =
    Some (BDate (le_val [y0; y1]) (N_of_b mo) (N_of_b d) (N_of_b h) (N_of_b mi) (N_of_b s) 0, r).
Proof. intros [-> | [-> | ->]]; reflexivity. Qed.
Lemma c_bin_date11 ct u y0 y1 mo d h mi s u0 u1 u2 u3 r : date_ct ct ->
  c_bin_value ct u (x0b :: y0 :: y1 :: mo :: d :: h :: mi :: s :: u0 :: u1 :: u2 :: u3 :: r) =
    Some (BDate (le_val [y0; y1]) (N_of_b mo) (N_of_b d) (N_of_b h) (N_of_b mi) (N_of_b s)
                (le_val [u0; u1; u2; u3]), r).
Proof. intros [-> | [-> | ->]]; reflexivity. Qed.
Lemma c_bin_time0 u r : c_bin_value 11 u (x00 :: r) = Some (BTime false 0 0 0 0 0, r).
Proof. reflexivity. Qed.
Lemma c_bin_time8 u d0 d1 d2 d3 h mi s r :
  c_bin_value 11 u (x08 :: x00 :: d0 :: d1 :: d2 :: d3 :: h :: mi :: s :: r) =
    Some (BTime false (le_val [d0; d1; d2; d3]) (N_of_b h) (N_of_b mi) (N_of_b s) 0, r).
Proof. reflexivity. Qed.
Lemma c_bin_time12 u d0 d1 d2 d3 h mi s u0 u1 u2 u3 r :
  c_bin_value 11 u (x0c :: x00 :: d0 :: d1 :: d2 :: d3 :: h :: mi :: s :: u0 :: u1 :: u2 :: u3 :: r) =
    Some (BTime false (le_val [d0; d1; d2; d3]) (N_of_b h) (N_of_b mi) (N_of_b s)
                (le_val [u0; u1; u2; u3]), r).
Proof. reflexivity. Qed.

Lemma bin_f32_decode bits b64 ct u bs rest :
  bits < 2 ^ 32 -> b64 < 2 ^ 64 -> bin_f32 bits b64 ct = ROk bs ->
  c_bin_value ct u (bs ++ rest) = Some ((if ct =? 5 then BF64 b64 else BF32 bits), rest).
Proof.
  intros H1 H2 He. rewrite bin_f32_eq in He. unfold bad in He.
  destruct (N.eqb_spec ct 5) as [-> | N5].
  - apply ROk_inj in He; subst bs. rewrite c_bin_value_5. rewrite c_take_le. cbn [obind].
    rewrite le_val_le_bytes by (rewrite pow256_8; exact H2). reflexivity.
  - destruct (N.eqb_spec ct 4) as [-> | N4]; [|discriminate He].
    apply ROk_inj in He; subst bs. rewrite c_bin_value_4, c_take_le. cbn [obind].
    rewrite le_val_le_bytes by (rewrite pow256_4; exact H1). reflexivity.
Qed.
Lemma bin_f64_decode bits ct u bs rest :
  bits < 2 ^ 64 -> bin_f64 bits ct = ROk bs ->
  c_bin_value ct u (bs ++ rest) = Some (BF64 bits, rest).
Proof.
  intros H1 He. rewrite bin_f64_eq in He. unfold bad in He.
  destruct (N.eqb_spec ct 5) as [-> | N5]; [|discriminate He].
  apply ROk_inj in He; subst bs. rewrite c_bin_value_5, c_take_le. cbn [obind].
  rewrite le_val_le_bytes by (rewrite pow256_8; exact H1). reflexivity.
Qed.
Lemma bin_bytes_decode bs0 ct u bs rest :
  Nlen bs0 < 2 ^ 64 -> bin_bytes bs0 ct = ROk bs ->
  c_bin_value ct u (bs ++ rest) = Some (BBytes bs0, rest).
Proof.
  intros H1 He. unfold bin_bytes, bad in He.
  destruct (is_bytes_col ct) eqn:E; [|discriminate He]. apply ROk_inj in He; subst bs.
  rewrite c_bin_value_bytes by exact E.
  rewrite lenenc_str_roundtrip by exact H1. reflexivity.
Qed.
Lemma bin_date_decode y m d ct u bs rest :
  (0 <= y < 65536)%Z -> m < 256 -> d < 256 -> bin_date y m d ct = ROk bs ->
  c_bin_value ct u (bs ++ rest) = Some (BDate (Z.to_N y) m d 0 0 0 0, rest).
Proof.
  intros Hy Hm Hd He. rewrite bin_date_eq in He. unfold bad in He.
  destruct (N.eqb_spec ct 10) as [-> | N10]; [|discriminate He]. apply ROk_inj in He; subst bs.
  rewrite le_bytes_z_2 by exact Hy. cbn [le_bytes app].
  rewrite c_bin_date4 by (left; reflexivity).
  rewrite le_val_2 by lia. rewrite !Nb by assumption. reflexivity.
Qed.
Lemma bin_datetime_decode y m d h mi s ns ct u bs rest :
  (0 <= y < 65536)%Z -> m < 256 -> d < 256 -> h < 256 -> mi < 256 -> s < 256 ->
  ns / 1000 < 4294967296 -> bin_datetime y m d h mi s ns ct = ROk bs ->
  c_bin_value ct u (bs ++ rest) = Some (BDate (Z.to_N y) m d h mi s (ns / 1000), rest).
Proof.
  intros Hy Hm Hd Hh Hmi Hs Hus He. rewrite bin_datetime_eq in He. unfold bad in He.
  assert (Hct : date_ct ct).
  { unfold date_ct. destruct (N.eqb_spec ct 12); [auto|].
    destruct (N.eqb_spec ct 7); [auto|]. discriminate He. }
  destruct ((ct =? 12) || (ct =? 7)); [|discriminate He]. apply ROk_inj in He; subst bs.
  rewrite le_bytes_z_2 by exact Hy.
  destruct (N.eqb_spec (ns / 1000) 0) as [E | E]; cbn [le_bytes app].
  - rewrite c_bin_date7 by exact Hct.
    rewrite le_val_2 by lia. rewrite !Nb by assumption. rewrite E. reflexivity.
  - rewrite c_bin_date11 by exact Hct.
    rewrite le_val_2 by lia. rewrite !Nb by assumption. rewrite le_val_4 by exact Hus. reflexivity.
Qed.
Definition dur_denote (secs ns : N) : binval :=
  if (secs =? 0) && (ns / 1000 =? 0) then BTime false 0 0 0 0 0
  else BTime false (secs / 86400) ((secs mod 86400) / 3600) ((secs mod 3600) / 60) (secs mod 60) (ns / 1000).
Lemma bin_duration_decode secs ns ct u bs rest :
  ns / 1000 < 4294967296 -> bin_duration secs ns ct = ROk bs ->
  c_bin_value ct u (bs ++ rest) = Some (dur_denote secs ns, rest).
Proof.
  intros Hus He. rewrite bin_duration_eq in He. unfold bad in He. unfold dur_denote.
  destruct (N.eqb_spec ct 11) as [-> | N11]; [|discriminate He].
  destruct (N.ltb_spec 34 (secs / 86400)) as [Hd | Hd]; [discriminate He|].
  destruct ((secs =? 0) && (ns / 1000 =? 0)).
  - apply ROk_inj in He; subst bs. cbn [app]. apply c_bin_time0.
  - assert (H1 : secs mod 86400 / 3600 < 256) by lia.
    assert (H2 : secs mod 3600 / 60 < 256) by lia.
    assert (H3 : secs mod 60 < 256) by lia.
    assert (H4 : secs / 86400 < 4294967296) by lia.
    destruct (N.eqb_spec (ns / 1000) 0) as [E | E]; apply ROk_inj in He; subst bs; cbn [le_bytes app].
    + rewrite c_bin_time8. rewrite le_val_4 by exact H4. rewrite !Nb by assumption.
      rewrite E. reflexivity.
    + rewrite c_bin_time12. rewrite !le_val_4 by assumption. rewrite !Nb by assumption.
      reflexivity.
Qed.

Lemma encode_int_col t z ct csigned bs :
  encode_int t z ct csigned = ROk bs -> int_col_bytes ct <> None.
Proof.
  unfold encode_int, bad. destruct (int_col_bytes ct); [discriminate | discriminate].
Qed.
Lemma encode_myc_int_col z ct csigned bs :
  encode_myc_int z ct csigned = ROk bs -> int_col_bytes ct <> None.
Proof.
  unfold encode_myc_int, bad. intro He.
  destruct csigned; enc_cases He; try discriminate He; eapply encode_int_col; exact He.
Qed.

Lemma bin_f32_kind bits b64 ct bs : bin_f32 bits b64 ct = ROk bs ->
  if ct =? 5 then ct = 5 else ct = 4.
Proof.
  rewrite bin_f32_eq. unfold bad. destruct (N.eqb_spec ct 5); [auto|].
  destruct (N.eqb_spec ct 4); [auto | discriminate].
Qed.
Lemma bin_f64_kind bits ct bs : bin_f64 bits ct = ROk bs -> ct = 5.
Proof. rewrite bin_f64_eq. unfold bad. destruct (N.eqb_spec ct 5); [auto | discriminate]. Qed.
Lemma bin_bytes_kind bs0 ct bs : bin_bytes bs0 ct = ROk bs -> is_bytes_type ct = true.
Proof.
  unfold bin_bytes, bad. destruct (is_bytes_col ct) eqn:E; [intros _; exact E | discriminate].
Qed.
Lemma bin_date_kind y m d ct bs : bin_date y m d ct = ROk bs -> date_ct ct.
Proof.
  rewrite bin_date_eq. unfold bad, date_ct. destruct (N.eqb_spec ct 10); [auto | discriminate].
Qed.
Lemma bin_datetime_kind y m d h mi s ns ct bs : bin_datetime y m d h mi s ns ct = ROk bs -> date_ct ct.
Proof.
  rewrite bin_datetime_eq. unfold bad, date_ct. destruct (N.eqb_spec ct 12); [auto|].
  destruct (N.eqb_spec ct 7); [auto | discriminate].
Qed.
Lemma bin_duration_kind secs ns ct bs : bin_duration secs ns ct = ROk bs -> ct = 11.
Proof.
  rewrite bin_duration_eq. unfold bad. destruct (N.eqb_spec ct 11); [auto | discriminate].
Qed.

Open Scope Z_scope.

(* ---------------- all binary values (C07) ---------------- *)

Definition myc_ok (m : mycv) : Prop :=
  match m with
  | MNull => True
  | MBytes bs => (Nlen bs < 2 ^ 64)%N
  | MInt z => - 2 ^ 63 <= z < 2 ^ 63
  | MUInt z => 0 <= z < 2 ^ 64
  | MFloat bits _ b64 => (bits < 2 ^ 32 /\ b64 < 2 ^ 64)%N
  | MDouble bits _ => (bits < 2 ^ 64)%N
  | MDate y mo d h mi s us => (y < 65536 /\ mo < 256 /\ d < 256 /\ h < 256 /\ mi < 256 /\ s < 256 /\ us < 2 ^ 32)%N
  | MTime _ d h mi s us => (d < 2 ^ 32 /\ h < 256 /\ mi < 256 /\ s < 256 /\ us < 2 ^ 32)%N
  end.
(* the domain of the ToMysqlValue implementors: every value of the Rust types *)
Fixpoint val_ok (v : value) : Prop :=
  match v with
  | VInt t z => ity_in_range t z = true
  | VF32 bits _ b64 => (bits < 2 ^ 32 /\ b64 < 2 ^ 64)%N
  | VF64 bits _ => (bits < 2 ^ 64)%N
  | VBytes bs => (Nlen bs < 2 ^ 64)%N
  | VDate y m d => 0 <= y < 65536 /\ (m < 256 /\ d < 256)%N
  | VDateTime y m d h mi s ns => 0 <= y < 65536 /\ (m < 256 /\ d < 256 /\ h < 256 /\ mi < 256 /\ s < 256 /\ ns < 2 * 10 ^ 9)%N
  | VDur secs ns => (secs < 2 ^ 64 /\ ns < 10 ^ 9)%N
  | VNone => True
  | VSome v' | VRef v' => val_ok v'
  | VMyc m => myc_ok m
  end.

(* an accepted binary value is decoded, under the advertised column type and signedness, to
   exactly the value written; what follows it in the row is untouched *)
Lemma to_bin_decode v c bs rest :
  val_ok v -> to_bin v c = ROk bs ->
  c_bin_value (c_type c) (has_flag (c_flags c) UNSIGNED_FLAG) (bs ++ rest) = Some (bin_denote v c, rest).
Proof.
  revert bs.
  induction v as [t z|bits sh b64|bits sh|bs0|y m d|y m d h mi s ns|secs ns| |v IH|v IH|m];
    intros bs Hok He; cbn [to_bin bin_denote val_ok] in *.
  - pose proof (encode_int_exact t z _ _ bs rest Hok He) as H.
    unfold col_signed in H. rewrite negb_involutive in H. exact H.
  - destruct Hok as [H1 H2]. apply bin_f32_decode; assumption.
  - eapply bin_f64_decode; eassumption.
  - apply bin_bytes_decode; assumption.
  - destruct Hok as (Hy & Hm & Hd). apply bin_date_decode; assumption.
  - destruct Hok as (Hy & Hm & Hd & Hh & Hmi & Hs & Hns).
    change (2 * 10 ^ 9)%N with 2000000000%N in Hns.
    apply bin_datetime_decode; try assumption. lia.
  - destruct Hok as (Hsecs & Hns). change (10 ^ 9)%N with 1000000000%N in Hns.
    apply (bin_duration_decode secs ns); [lia | exact He].
  - discriminate He.
  - apply IH; assumption.
  - apply IH; assumption.
  - destruct m as [|bs0|z|z|bits sh b64|bits sh|y mo d h mi s us|neg d h mi s us];
      cbn [myc_bin myc_denote myc_ok] in *.
    + discriminate He.
    + apply bin_bytes_decode; assumption.
    + pose proof (encode_myc_int_exact z _ _ bs rest Hok He) as H.
      unfold col_signed in H. rewrite negb_involutive in H. exact H.
    + assert (Hr : ity_in_range U64 z = true) by (ranges; lia).
      pose proof (encode_int_exact U64 z _ _ bs rest Hr He) as H.
      unfold col_signed in H. rewrite negb_involutive in H. exact H.
    + destruct Hok as [H1 H2]. apply bin_f32_decode; assumption.
    + eapply bin_f64_decode; eassumption.
    + destruct Hok as (Hy & Hm & Hd & Hh & Hmi & Hs & Hus).
      change (2 ^ 32)%N with 4294967296%N in Hus.
      destruct (valid_ymd (Z.of_N y) mo d); [|discriminate He].
      destruct (valid_hms_micro h mi s us); [|discriminate He].
      pose proof (bin_datetime_decode (Z.of_N y) mo d h mi s (us * 1000)%N (c_type c)
                    (has_flag (c_flags c) UNSIGNED_FLAG) bs rest) as H.
      rewrite N2Z.id in H. rewrite N.div_mul in H by lia.
      apply H; try assumption; lia.
    + destruct neg; [discriminate He|].
      destruct Hok as (Hd & Hh & Hmi & Hs & Hus).
      destruct (myc_time_to_dur d h mi s us) as [secs nanos] eqn:E.
      unfold myc_time_to_dur in E. injection E as Es En.
      apply (bin_duration_decode secs nanos); [|exact He].
      rewrite <- En. lia.
Qed.

(* a value of a kind the column type cannot carry is refused: it is never encoded (so in
   particular never as some other value).  Characterisation of acceptance by kind: *)
Lemma to_bin_kind v c bs :
  to_bin v c = ROk bs ->
  match bin_denote v c with
  | BInt _ => int_col_bytes (c_type c) <> None
  | BF32 _ => c_type c = 4%N
  | BF64 _ => c_type c = 5%N
  | BBytes _ => is_bytes_type (c_type c) = true
  | BDate _ _ _ _ _ _ _ => c_type c = 10%N \/ c_type c = 12%N \/ c_type c = 7%N
  | BTime _ _ _ _ _ _ => c_type c = 11%N
  | BNull => False
  end.
Proof.
  revert bs.
  induction v as [t z|bits sh b64|bits sh|bs0|y m d|y m d h mi s ns|secs ns| |v IH|v IH|m];
    intros bs He; cbn [to_bin bin_denote] in *.
  - eapply encode_int_col; exact He.
  - apply bin_f32_kind in He. destruct (c_type c =? 5)%N; exact He.
  - eapply bin_f64_kind; exact He.
  - eapply bin_bytes_kind; exact He.
  - eapply bin_date_kind; exact He.
  - eapply bin_datetime_kind; exact He.
  - apply bin_duration_kind in He. destruct ((secs =? 0) && (ns / 1000 =? 0))%N; exact He.
  - discriminate He.
  - eapply IH; exact He.
  - eapply IH; exact He.
  - destruct m as [|bs0|z|z|bits sh b64|bits sh|y mo d h mi s us|neg d h mi s us];
      cbn [myc_bin myc_denote] in *.
    + discriminate He.
    + eapply bin_bytes_kind; exact He.
    + eapply encode_myc_int_col; exact He.
    + eapply encode_int_col; exact He.
    + apply bin_f32_kind in He. destruct (c_type c =? 5)%N; exact He.
    + eapply bin_f64_kind; exact He.
    + destruct (valid_ymd (Z.of_N y) mo d); [|discriminate He].
      destruct (valid_hms_micro h mi s us); [|discriminate He].
      eapply bin_datetime_kind; exact He.
    + destruct neg; [discriminate He|].
      destruct (myc_time_to_dur d h mi s us) as [secs nanos].
      apply bin_duration_kind in He.
      destruct ((secs =? 0) && (nanos / 1000 =? 0))%N; exact He.
Qed.

(* ---- helpers for text cells ---- *)
Open Scope N_scope.

Lemma lenenc_not_fb x : exists b r, lenenc x = b :: r /\ b <> xfb.
Proof.
  unfold lenenc.
  destruct (N.ltb_spec x 251) as [H1|H1].
  - exists (b_of_N x), []. split; [reflexivity|].
    intro E. assert (Hv : N_of_b (b_of_N x) = x) by (apply Nb; lia).
    rewrite E in Hv. change (N_of_b xfb) with 251 in Hv. lia.
  - destruct (x <? 65536); [|destruct (x <? 16777216)];
      eexists; eexists; (split; [reflexivity | discriminate]).
Qed.
Lemma c_text_cells_S n b r : b <> xfb ->
  c_text_cells (S n) (b :: r) =
    obind (c_lenenc_str (b :: r)) (fun '(v, r1) =>
    obind (c_text_cells n r1) (fun '(cs, rest) => Some (CText v :: cs, rest))).
Proof.
  intro Hb. cbn [c_text_cells]. destruct (byte_eqb b xfb) eqn:E; [|reflexivity].
  apply byte_eqb_eq in E. contradiction.
Qed.

(* decimal digits *)
Local Notation isdig := (fun b : byte => digit_val b <> None).

Lemma digit_val_digit d : d < 10 -> digit_val (digit d) = Some d.
Proof.
  intro H. unfold digit_val, digit. cbv zeta. rewrite Nb by lia.
  destruct (N.leb_spec 48 (48 + d)); [|lia].
  destruct (N.leb_spec (48 + d) 57); [|lia].
  cbn [andb]. f_equal. lia.
Qed.
Lemma c_digits_app a ds r :
  c_digits a (ds ++ r) = match c_digits a ds with Some a' => c_digits a' r | None => None end.
Proof.
  revert a. induction ds as [|b ds IH]; intro a; cbn [app c_digits]; [reflexivity|].
  destruct (digit_val b); [apply IH | reflexivity].
Qed.

Definition digs (x : N) (ds : bytes) : Prop :=
  ds <> [] /\ Forall isdig ds /\
  (forall a, c_digits a ds = Some (a * 10 ^ Nlen ds + x)) /\
  (forall k, k <> 0%nat -> x < 10 ^ N.of_nat k -> (length ds <= k)%nat).

Lemma digs_one x : x < 10 -> digs x [digit x].
Proof.
  intro H. repeat split.
  - discriminate.
  - constructor; [|constructor]. rewrite digit_val_digit by exact H. discriminate.
  - intro a. cbn [c_digits]. rewrite digit_val_digit by exact H.
    change (Nlen [digit x]) with 1. rewrite N.pow_1_r. reflexivity.
  - intros k Hk _. cbn [length]. lia.
Qed.
Lemma digs_snoc x ds : 10 <= x -> digs (x / 10) ds -> digs x (ds ++ [digit (x mod 10)]).
Proof.
  intros Hx (Hne & Hd & Hc & Hl).
  assert (Hm : x mod 10 < 10) by (apply N.mod_lt; lia).
  repeat split.
  - intro E. apply app_eq_nil in E. destruct E as [_ E]. discriminate E.
  - apply Forall_app. split; [exact Hd|].
    constructor; [|constructor]. rewrite digit_val_digit by exact Hm. discriminate.
  - intro a. rewrite c_digits_app, Hc. cbn [c_digits]. rewrite digit_val_digit by exact Hm.
    f_equal. rewrite Nlen_app. change (Nlen [digit (x mod 10)]) with 1.
    rewrite N.pow_add_r, N.pow_1_r.
    generalize (10 ^ Nlen ds). intro P.
    pose proof (N.div_mod x 10). lia.
  - intros k Hk Hlt. rewrite app_length. cbn [length].
    destruct k as [|k]; [congruence|].
    destruct k as [|k].
    + change (10 ^ N.of_nat 1) with 10 in Hlt. lia.
    + assert (Hq : x / 10 < 10 ^ N.of_nat (S k)).
      { rewrite (Nat2N.inj_succ (S k)), N.pow_succ_r' in Hlt.
        apply N.div_lt_upper_bound; [lia | exact Hlt]. }
      pose proof (Hl (S k) (Nat.neq_succ_0 k) Hq). lia.
Qed.

Lemma dec_f_S f x acc :
  dec_f (S f) x acc =
    if x <? 10 then digit (x mod 10) :: acc else dec_f f (x / 10) (digit (x mod 10) :: acc).
Proof. reflexivity. Qed.
Lemma dec_f_spec fuel : forall x acc, x < 10 ^ N.of_nat (S fuel) ->
  exists ds, dec_f (S fuel) x acc = ds ++ acc /\ digs x ds.
Proof.
  induction fuel as [|f IH]; intros x acc Hx; rewrite dec_f_S.
  - change (10 ^ N.of_nat 1) with 10 in Hx.
    destruct (N.ltb_spec x 10) as [H|H]; [|lia].
    exists [digit (x mod 10)]. split; [reflexivity|].
    rewrite N.mod_small by exact H. apply digs_one. exact H.
  - destruct (N.ltb_spec x 10) as [H|H].
    + exists [digit (x mod 10)]. split; [reflexivity|].
      rewrite N.mod_small by exact H. apply digs_one. exact H.
    + assert (Hq : x / 10 < 10 ^ N.of_nat (S f)).
      { rewrite (Nat2N.inj_succ (S f)), N.pow_succ_r' in Hx.
        apply N.div_lt_upper_bound; [lia | exact Hx]. }
      destruct (IH (x / 10) (digit (x mod 10) :: acc) Hq) as (ds & E & D).
      exists (ds ++ [digit (x mod 10)]). split.
      * rewrite E, <- app_assoc. reflexivity.
      * apply digs_snoc; assumption.
Qed.
Lemma dec_N_digs x : digs x (dec_N x).
Proof.
  unfold dec_N.
  destruct (dec_f_spec (N.to_nat (N.log2 x)) x []) as (ds & E & D).
  - rewrite Nat2N.inj_succ, N2Nat.id.
    destruct x as [|p].
    + change (N.log2 0) with 0. change (10 ^ N.succ 0) with 10. lia.
    + assert (H0 : 0 < N.pos p) by lia.
      destruct (N.log2_spec (N.pos p) H0) as [_ H2].
      assert (H3 : 2 ^ N.succ (N.log2 (N.pos p)) <= 10 ^ N.succ (N.log2 (N.pos p)))
        by (apply N.pow_le_mono_l; lia).
      lia.
  - rewrite E, app_nil_r. exact D.
Qed.

Lemma c_udec_ne bs : bs <> [] -> c_udec bs = c_digits 0 bs.
Proof. destruct bs; [congruence | reflexivity]. Qed.
Lemma udec_dec_N x : c_udec (dec_N x) = Some x.
Proof.
  destruct (dec_N_digs x) as (Hne & _ & Hc & _).
  rewrite c_udec_ne by exact Hne. rewrite Hc. f_equal.
Qed.
Lemma digit_val_x30 : digit_val x30 = Some 0.
Proof. reflexivity. Qed.
Lemma c_digits_zeros k s : c_digits 0 (repeat x30 k ++ s) = c_digits 0 s.
Proof.
  induction k as [|k IH]; [reflexivity|].
  cbn [repeat app c_digits]. rewrite digit_val_x30. exact IH.
Qed.
Lemma zeros_digits k : Forall isdig (repeat x30 k).
Proof.
  induction k as [|k IH]; cbn [repeat]; constructor; [|exact IH].
  rewrite digit_val_x30. discriminate.
Qed.
Lemma dec_pad_N_len6 x : x < 1000000 -> length (dec_pad_N 6 x) = 6%nat.
Proof.
  intro H. unfold dec_pad_N, pad0. rewrite app_length, repeat_length.
  destruct (dec_N_digs x) as (_ & _ & _ & Hl).
  assert (Hk : (length (dec_N x) <= 6)%nat) by (apply Hl; [discriminate | exact H]).
  lia.
Qed.

(* separators *)
Local Notation nosep sep := (Forall (fun b : byte => byte_eqb b sep = false)).
Lemma dig_ne_sep sep b : digit_val sep = None -> digit_val b <> None -> byte_eqb b sep = false.
Proof.
  intros Hs Hb. destruct (byte_eqb b sep) eqn:E; [|reflexivity].
  apply byte_eqb_eq in E. subst b. contradiction.
Qed.
Lemma digs_nosep sep l : digit_val sep = None -> Forall isdig l -> nosep sep l.
Proof.
  intros Hs H. eapply Forall_impl; [|exact H]. intros b Hb. apply dig_ne_sep; assumption.
Qed.
Lemma split_at_app sep a r : nosep sep a -> split_at sep (a ++ sep :: r) = Some (a, r).
Proof.
  intro H. induction H as [|b a Hb Ha IH]; cbn [app split_at].
  - rewrite byte_eqb_refl. reflexivity.
  - rewrite Hb, IH. reflexivity.
Qed.
Lemma split_at_none sep a : nosep sep a -> split_at sep a = None.
Proof.
  intro H. induction H as [|b a Hb Ha IH]; cbn [split_at]; [reflexivity|].
  rewrite Hb, IH. reflexivity.
Qed.

Open Scope Z_scope.

(* ---------------- text cells (C06) ---------------- *)

(* NULL stays distinguishable from every string, in particular from "" and from "NULL" *)
Lemma null_distinct s : enc_cell None <> enc_cell (Some s).
Proof.
  cbn [enc_cell]. unfold lenenc_str.
  destruct (lenenc_not_fb (Nlen s)) as (b & r & E & Hb). rewrite E. cbn [app].
  intro H. injection H as H1 H2. congruence.
Qed.

Definition text_ok (v : value) : Prop :=
  match text_cell v with ROk (Some s) => (Nlen s < 2 ^ 64)%N | _ => True end.

(* one cell: whatever follows is decoded as before, the cell itself to the written content *)
Lemma to_text_decode v bs n rest :
  text_ok v -> to_text v = ROk bs ->
  exists c, tcell v = Some c /\
    c_text_cells (S n) (bs ++ rest) =
      match c_text_cells n rest with Some (cs, r) => Some (c :: cs, r) | None => None end.
Proof.
  unfold text_ok, to_text, tcell. intros Hok He.
  destruct (text_cell v) as [[s|]| |]; cbn [rbind] in He; try discriminate He;
    apply ROk_inj in He; subst bs; cbn [enc_cell].
  - exists (CText s). split; [reflexivity|].
    destruct (lenenc_not_fb (Nlen s)) as (b & r & E & Hb).
    assert (Hs : lenenc_str s ++ rest = b :: (r ++ s ++ rest)).
    { unfold lenenc_str. rewrite E, <- app_assoc. reflexivity. }
    rewrite Hs, c_text_cells_S by exact Hb. rewrite <- Hs.
    rewrite lenenc_str_roundtrip by exact Hok. cbn [obind].
    destruct (c_text_cells n rest) as [[cs r']|]; reflexivity.
  - exists CNull. split; [reflexivity|].
    cbn [app c_text_cells]. change (byte_eqb xfb xfb) with true. cbv iota.
    destruct (c_text_cells n rest) as [[cs r']|]; reflexivity.
Qed.

(* integers of every width: the decimal text reads back as the same number (all of Z) *)
Lemma dec_roundtrip z : c_dec (dec_Z z) = Some z.
Proof.
  assert (Hnn : forall x, c_dec (dec_N x) = Some (Z.of_N x)).
  { intro x. destruct (dec_N_digs x) as (Hne & Hd & _ & _).
    pose proof (udec_dec_N x) as Hu.
    destruct (dec_N x) as [|b r]; [congruence|].
    unfold c_dec. inversion Hd as [|b' r' Hb Hr]; subst.
    rewrite (dig_ne_sep x2d b) by (reflexivity || exact Hb).
    rewrite Hu. reflexivity. }
  destruct z as [|p|p]; cbn [dec_Z].
  - apply Hnn.
  - rewrite Hnn. rewrite Z2N.id by lia. reflexivity.
  - unfold c_dec. rewrite byte_eqb_refl. rewrite udec_dec_N. reflexivity.
Qed.

(* zero-padded fields *)
Lemma udec_pad w x : c_udec (dec_pad_N w x) = Some x.
Proof.
  unfold dec_pad_N, pad0.
  destruct (dec_N_digs x) as (Hne & _ & Hc & _).
  rewrite c_udec_ne.
  - rewrite c_digits_zeros, Hc. f_equal.
  - intro E. apply app_eq_nil in E. destruct E as [_ E]. contradiction.
Qed.
Lemma dec_pad_N_digits w x : Forall (fun b => digit_val b <> None) (dec_pad_N w x).
Proof.
  unfold dec_pad_N, pad0. apply Forall_app. split; [apply zeros_digits|].
  destruct (dec_N_digs x) as (_ & Hd & _ & _). exact Hd.
Qed.

(* ---- helpers for dates and times ---- *)
Lemma dec_pad_Z_nonneg w y : 0 <= y -> dec_pad_Z w y = dec_pad_N w (Z.to_N y).
Proof. intro H. destruct y as [|p|p]; [reflexivity | reflexivity | lia]. Qed.
Lemma pad_nosep sep w x : digit_val sep = None ->
  Forall (fun b : byte => byte_eqb b sep = false) (dec_pad_N w x).
Proof. intro H. apply digs_nosep; [exact H | apply dec_pad_N_digits]. Qed.

Lemma c_text_date_pad wy wm wd y m d :
  c_text_date (dec_pad_N wy y ++ dash :: dec_pad_N wm m ++ dash :: dec_pad_N wd d) = Some (y, m, d).
Proof.
  unfold c_text_date, dash.
  rewrite split_at_app by (apply pad_nosep; reflexivity). cbv beta iota.
  rewrite split_at_app by (apply pad_nosep; reflexivity). cbv beta iota.
  rewrite !udec_pad. reflexivity.
Qed.
Lemma text_date_nosep20 y m d : 0 <= y ->
  Forall (fun b : byte => byte_eqb b x20 = false) (text_date y m d).
Proof.
  intro Hy. unfold text_date. rewrite dec_pad_Z_nonneg by exact Hy.
  apply Forall_app; split; [apply pad_nosep; reflexivity|].
  constructor; [reflexivity|].
  apply Forall_app; split; [apply pad_nosep; reflexivity|].
  constructor; [reflexivity|]. apply pad_nosep; reflexivity.
Qed.
Lemma c_text_time_hms h mi s us : (us < 1000000)%N ->
  c_text_time (text_hms h mi s ++ (if (us =? 0)%N then [] else x2e :: dec_pad_N 6 us)) =
    Some (h, mi, s, us).
Proof.
  intro Hus. unfold text_hms, c_text_time, colon.
  repeat (rewrite <- app_assoc || rewrite <- app_comm_cons).
  rewrite split_at_app by (apply pad_nosep; reflexivity). cbv beta iota.
  rewrite split_at_app by (apply pad_nosep; reflexivity). cbv beta iota.
  destruct (N.eqb_spec us 0) as [E|E].
  - rewrite app_nil_r. rewrite split_at_none by (apply pad_nosep; reflexivity). cbv beta iota.
    rewrite !udec_pad. subst us. reflexivity.
  - rewrite split_at_app by (apply pad_nosep; reflexivity). cbv beta iota.
    rewrite !udec_pad. rewrite dec_pad_N_len6 by exact Hus. reflexivity.
Qed.

(* DATE, years 0..9999 (any month/day numbers) *)
Lemma text_date_roundtrip y m d :
  0 <= y <= 9999 -> c_text_date (text_date y m d) = Some (Z.to_N y, m, d).
Proof.
  intro Hy. unfold text_date. rewrite dec_pad_Z_nonneg by lia. apply c_text_date_pad.
Qed.
(* DATETIME with and without microseconds *)
Lemma text_datetime_roundtrip y m d h mi s ns :
  0 <= y <= 9999 -> (ns / 1000 < 1000000)%N ->
  c_text_datetime (text_datetime y m d h mi s ns) = Some (Z.to_N y, m, d, (h, mi, s, (ns / 1000)%N)).
Proof.
  intros Hy Hus. unfold text_datetime, c_text_datetime. cbv zeta.
  rewrite split_at_app by (apply text_date_nosep20; lia). cbv beta iota.
  rewrite text_date_roundtrip by exact Hy.
  rewrite c_text_time_hms by exact Hus. reflexivity.
Qed.
(* TIME: hours unbounded (h = secs / 3600), with and without microseconds *)
Lemma text_duration_roundtrip secs ns :
  (ns < 10 ^ 9)%N ->
  c_text_time (text_duration secs ns) =
    Some ((secs / 3600)%N, ((secs mod 3600) / 60)%N, (secs mod 60)%N, (ns / 1000)%N).
Proof.
  intro Hns. unfold text_duration. cbv zeta.
  change (10 ^ 9)%N with 1000000000%N in Hns.
  apply c_text_time_hms. lia.
Qed.

Print Assumptions encode_int_exact.
Print Assumptions encode_int_accept_fixed.
Print Assumptions encode_int_accept_ptr.
Print Assumptions to_bin_decode.
Print Assumptions to_text_decode.
Print Assumptions dec_roundtrip.
Print Assumptions text_datetime_roundtrip.
Print Assumptions text_duration_roundtrip.
