(* C19: transport faults and connection ends are reported, never masked.
   For every world (any read script with error entries, any write/flush fault plan -- one-off or
   persistent, at any call index), every configuration and every shim script that propagates the
   errors it is given (no `Ignore` policy): if a transport fault occurs, run_on does not return Ok,
   and no shim callback is started after the fault.  Proofs only; statements fixed. *)
From MsqlVerif Require Import Model.Server Spec.Frame Spec.Render Spec.AbsServer
  Proofs.BaseLemmas Proofs.PacketRead Proofs.RunRender Proofs.ServerRun.
From Coq Require Import Lia.
Open Scope N_scope.

Definition is_fault (e : event) : bool :=
  match e with EWriteErr _ | EFlushErr _ | EReadErr _ => true | _ => false end.
Definition faulted (s : st) : Prop := existsb is_fault (s_trace s) = true.
Definition is_call (e : event) : bool := match e with ECall _ => true | _ => false end.

(* shim programs that never ignore an error returned by the writer API *)
Fixpoint noignore_q (p : qprog) : Prop :=
  match p with
  | QStart _ k => noignore_r k
  | QCompleteOne _ _ k => noignore_q k
  | _ => True
  end
with noignore_r (p : rprog) : Prop :=
  match p with
  | RWriteCol _ e k | REndRow e k | RWriteRow _ e k => e = Propagate /\ noignore_r k
  | RFinishOne k => noignore_q k
  | _ => True
  end.
Definition scripts_noignore (sc : scripts) : Prop :=
  Forall (fun x => noignore_q (fst x)) (sc_q sc) /\ Forall (fun x => noignore_q (x_prog x)) (sc_x sc).


(* ====================================================================================== *)
(* helper lemmas                                                                           *)
(* ====================================================================================== *)

(* ---- traces ---- *)

Definition nf (s : st) : Prop := ~ faulted s.
(* every fault so far is parked, waiting for the next flush *)
Definition Inv (s : st) : Prop := faulted s -> s_park s <> None.

(* newest-first trace: no call event is newer than a fault event *)
Fixpoint nca (tr : list event) : Prop :=
  match tr with
  | [] => True
  | e :: r => (is_call e = true -> existsb is_fault r = false) /\ nca r
  end.
Definition NCA (s : st) : Prop := nca (s_trace s).

Lemma faulted_upd e s : faulted (upd_trace e s) <-> is_fault e = true \/ faulted s.
Proof. unfold faulted. cbn [upd_trace s_trace existsb]. apply orb_true_iff. Qed.
Lemma nf_Inv s : nf s -> Inv s.
Proof. intros H F. contradiction. Qed.

Lemma nofault_nca tr : existsb is_fault tr = false -> nca tr.
Proof.
  induction tr as [|e r IH]; [exact (fun _ => I)|].
  cbn [existsb nca]. intro H. apply orb_false_iff in H. destruct H as [_ H].
  split; [intros _; exact H | exact (IH H)].
Qed.
Lemma nf_NCA s : nf s -> NCA s.
Proof.
  unfold nf, faulted, NCA. intro H. apply nofault_nca.
  destruct (existsb is_fault (s_trace s)); [exfalso; apply H; reflexivity | reflexivity].
Qed.
Lemma nocall_nca l tr : existsb is_call l = false -> nca tr -> nca (l ++ tr).
Proof.
  induction l as [|e l IH]; [exact (fun _ H => H)|].
  cbn [existsb app nca]. intros H Hn. apply orb_false_iff in H. destruct H as [He H].
  split; [rewrite He; discriminate | exact (IH H Hn)].
Qed.
Lemma nca_split a f b : nca (a ++ f :: b) -> is_fault f = true -> existsb is_call a = false.
Proof.
  intros Hn Hf. induction a as [|e a IH]; [reflexivity|].
  cbn [app nca] in Hn. destruct Hn as [He Hn]. cbn [existsb].
  rewrite (IH Hn), orb_false_r.
  destruct (is_call e); [|reflexivity].
  specialize (He eq_refl). rewrite existsb_app in He. cbn [existsb] in He.
  rewrite Hf, orb_true_r in He. discriminate.
Qed.
Lemma existsb_rev {A} (f : A -> bool) l : existsb f (rev l) = existsb f l.
Proof.
  induction l as [|x l IH]; [reflexivity|].
  cbn [rev existsb]. rewrite existsb_app, IH. cbn [existsb]. rewrite orb_false_r. apply orb_comm.
Qed.

(* the trace of s' is that of s plus newer events, none of which satisfies P *)
Definition grows (P : event -> bool) (s s' : st) : Prop :=
  exists l, s_trace s' = l ++ s_trace s /\ existsb P l = false.

Lemma grows_refl P s : grows P s s.
Proof. exists []. split; reflexivity. Qed.
Lemma grows_same P s s' : s_trace s' = s_trace s -> grows P s s'.
Proof. intro H. exists []. split; [exact H | reflexivity]. Qed.
Lemma grows_trans P s s1 s2 : grows P s s1 -> grows P s1 s2 -> grows P s s2.
Proof.
  intros (l1 & E1 & H1) (l2 & E2 & H2). exists (l2 ++ l1). split.
  - rewrite E2, E1. apply app_assoc.
  - rewrite existsb_app, H1, H2. reflexivity.
Qed.
Lemma grows_fault_iff s s' : grows is_fault s s' -> (faulted s' <-> faulted s).
Proof.
  intros (l & E & H). unfold faulted. rewrite E, existsb_app, H. reflexivity.
Qed.
Lemma grows_call_NCA s s' : grows is_call s s' -> NCA s -> NCA s'.
Proof. intros (l & E & H) Hn. unfold NCA. rewrite E. apply nocall_nca; assumption. Qed.

(* ---- low-level computations: log no call; when they succeed they log no fault and leave
        the parked error alone ---- *)

Definition Low {A} (m : M A) : Prop :=
  forall s r s', m s = (r, s') ->
    grows is_call s s' /\
    (forall a, r = ROk a -> grows is_fault s s' /\ s_park s' = s_park s).

Lemma low_bind {A B} (m : M A) (f : A -> M B) : Low m -> (forall a, Low (f a)) -> Low (bind m f).
Proof.
  intros Hm Hf s r s'. unfold bind. destruct (m s) as [[a|e|p] s1] eqn:E.
  - intro H. destruct (Hm _ _ _ E) as [G1 K1]. destruct (K1 a eq_refl) as [F1 P1].
    destruct (Hf a _ _ _ H) as [G2 K2]. split; [exact (grows_trans _ _ _ _ G1 G2)|].
    intros b Hb. destruct (K2 b Hb) as [F2 P2].
    split; [exact (grows_trans _ _ _ _ F1 F2) | congruence].
  - intro H. injection H as <- <-. split; [exact (proj1 (Hm _ _ _ E)) | discriminate].
  - intro H. injection H as <- <-. split; [exact (proj1 (Hm _ _ _ E)) | discriminate].
Qed.
Lemma low_same {A} (m : M A) : (forall s, snd (m s) = s) -> Low m.
Proof.
  intros H s r s' E. pose proof (H s) as Hs. rewrite E in Hs. cbn [snd] in Hs. subst s'.
  split; [apply grows_refl | intros; split; [apply grows_refl | reflexivity]].
Qed.
Lemma low_ret {A} (a : A) : Low (ret a).
Proof. apply low_same. reflexivity. Qed.
Lemma low_fail {A} e : Low (@fail A e).
Proof. apply low_same. reflexivity. Qed.
Lemma low_panic {A} p : Low (@panic A p).
Proof. apply low_same. reflexivity. Qed.
Lemma low_lift {A} (r : res A) : Low (lift r).
Proof. apply low_same. reflexivity. Qed.
Lemma low_set_seq q : Low (set_seq q).
Proof.
  intros s r s' E. unfold set_seq in E. injection E as <- <-.
  split; [apply grows_same; reflexivity | intros; split; [apply grows_same|]; reflexivity].
Qed.
Lemma low_log_api o : Low (log_api o).
Proof.
  intros s r s' E. unfold log_api in E. injection E as <- <-.
  split; [|intros _ _; split; [|reflexivity]]; exists [EApi o]; split; reflexivity.
Qed.
Lemma low_t_write bs : Low (t_write bs).
Proof.
  intros s r s' E. unfold t_write in E. destruct (fault_at (s_fault s) (s_wops s)) as [k|].
  - injection E as <- <-. split; [|discriminate]. exists [EWriteErr k]. split; reflexivity.
  - injection E as <- <-.
    split; [|intros _ _; split; [|reflexivity]]; exists [EWrite bs]; split; reflexivity.
Qed.
Lemma low_t_flush : Low t_flush.
Proof.
  intros s r s' E. unfold t_flush in E. destruct (fault_at (s_fault s) (s_wops s)) as [k|].
  - injection E as <- <-. split; [|discriminate]. exists [EFlushErr k]. split; reflexivity.
  - injection E as <- <-.
    split; [|intros _ _; split; [|reflexivity]]; exists [EFlush]; split; reflexivity.
Qed.
Lemma low_t_read : Low t_read.
Proof.
  intros s r s' E. unfold t_read in E. destruct (s_reads s) as [|[bs| |k] rs].
  - injection E as <- <-.
    split; [|intros _ _; split; [|reflexivity]]; exists [ERead 0]; split; reflexivity.
  - injection E as <- <-.
    split; [|intros _ _; split; [|reflexivity]]; exists [ERead (Nlen bs)]; split; reflexivity.
  - injection E as <- <-.
    split; [|intros _ _; split; [|reflexivity]]; exists [ERead 0]; split; reflexivity.
  - injection E as <- <-. split; [|discriminate]. exists [EReadErr k]. split; reflexivity.
Qed.

Lemma low_end_packet : Low end_packet.
Proof.
  intros s r s' E. unfold end_packet in E.
  destruct ((Nlen (s_tw s) =? 0) && negb (s_cont s)).
  - injection E as <- <-.
    split; [apply grows_refl | intros; split; [apply grows_refl | reflexivity]].
  - match type of E with context [t_write ?pkt ?s1] =>
      destruct (t_write pkt s1) as [r2 s2] eqn:E2; pose proof (low_t_write pkt _ _ _ E2) as [G K]
    end.
    unfold grows in *. cbn [set_seq_cont s_trace s_park] in *.
    destruct r2 as [u|e|p]; injection E as <- <-; cbn [set_tw s_trace s_park].
    + split; [exact G|]. intros a _. exact (K u eq_refl).
    + split; [exact G | discriminate].
    + split; [exact G | discriminate].
Qed.

Lemma low_write_all_f fuel : forall bs, Low (write_all_f fuel bs).
Proof.
  induction fuel as [|f IH]; intros [|b bs]; cbn [write_all_f];
    try apply low_ret; try apply low_panic.
  intros s r s'.
  set (left := N.to_nat (N.min (Nlen (b :: bs)) (s_lim s - Nlen (s_tw s)))).
  set (s1 := set_tw (s_tw s ++ firstn left (b :: bs)) s).
  set (cont := if Nat.eqb left 0 then fail EWriteZero else write_all_f f (skipn left (b :: bs))).
  assert (Hc : Low cont) by (unfold cont; destruct (Nat.eqb left 0); [apply low_fail | apply IH]).
  intro E.
  assert (E' : (if Nlen (s_tw s1) =? s_lim s then (end_packet ;;; cont) s1 else cont s1) = (r, s'))
    by exact E.
  clear E. destruct (Nlen (s_tw s1) =? s_lim s).
  - exact (low_bind end_packet (fun _ => cont) low_end_packet (fun _ => Hc) s1 r s' E').
  - exact (Hc s1 r s' E').
Qed.
Lemma low_write_all bs : Low (write_all bs).
Proof. apply low_write_all_f. Qed.
Lemma low_send msg : Low (send msg).
Proof. apply low_bind; [apply low_write_all | intro; apply low_end_packet]. Qed.
Lemma low_send_all msgs : Low (send_all msgs).
Proof.
  induction msgs as [|m r IH]; cbn [send_all]; [apply low_ret|].
  apply low_bind; [apply low_send | intro; exact IH].
Qed.

Lemma low_next_f fuel : Low (next_f fuel).
Proof.
  induction fuel as [|f IH]; [apply low_panic|].
  intros s r s' E. cbn [next_f] in E.
  destruct (match s_buf s with [] => PNeed | _ :: _ => packet (s_lim s) (s_buf s) end)
    as [q p rest| | |].
  - injection E as <- <-.
    split; [apply grows_same; reflexivity | intros; split; [apply grows_same|]; reflexivity].
  - destruct (t_read s) as [[chunk|e|p] s1] eqn:E1; pose proof (low_t_read _ _ _ E1) as [G K].
    + destruct (K chunk eq_refl) as [F P].
      destruct chunk as [|c chunk].
      * destruct (s_buf (set_buf (s_buf s1 ++ []) s1)); injection E as <- <-;
          (split; [exact G | intros; split; [exact F | exact P]]).
      * destruct (IH _ _ _ E) as [G2 K2]. split; [exact (grows_trans _ _ _ _ G G2)|].
        intros a Ha. destruct (K2 a Ha) as [F2 P2].
        split; [exact (grows_trans _ _ _ _ F F2) | rewrite P2; exact P].
    + injection E as <- <-. split; [exact G | discriminate].
    + injection E as <- <-. split; [exact G | discriminate].
  - injection E as <- <-. split; [apply grows_refl | discriminate].
  - injection E as <- <-. split; [apply grows_refl | discriminate].
Qed.
Lemma low_next : Low next.
Proof. intros s r s' E. exact (low_next_f _ s r s' E). Qed.


Lemma low_lapi quiet o : Low (lapi quiet o).
Proof. unfold lapi. destruct quiet; [apply low_ret | apply low_log_api]. Qed.
Lemma low_finalize q more : Low (finalize q more).
Proof. unfold finalize. destruct (q_last q) as [[rows id|]|]; try apply low_send. apply low_ret. Qed.
Lemma low_write_err errtab code msg : Low (write_err errtab code msg).
Proof. unfold write_err. destruct (errtab code) as [[c st]|]; [apply low_send | apply low_panic]. Qed.

Ltac low :=
  repeat (cbv beta iota zeta;
    match goal with
    | |- Low (bind _ _) => apply low_bind; [|intro]
    | |- Low (ret _) => apply low_ret
    | |- Low (fail _) => apply low_fail
    | |- Low (panic _) => apply low_panic
    | |- Low (lift _) => apply low_lift
    | |- Low (set_seq _) => apply low_set_seq
    | |- Low (log_api _) => apply low_log_api
    | |- Low (lapi _ _) => apply low_lapi
    | |- Low end_packet => apply low_end_packet
    | |- Low (write_all _) => apply low_write_all
    | |- Low (send _) => apply low_send
    | |- Low (send_all _) => apply low_send_all
    | |- Low (finalize _ _) => apply low_finalize
    | |- Low (write_err _ _ _) => apply low_write_err
    | |- Low next => apply low_next
    | |- Low t_flush => apply low_t_flush
    | |- Low (match ?x with _ => _ end) => destruct x
    end).

(* ---- computations that log no call, whatever their result ---- *)

Definition NC {A} (m : M A) : Prop := forall s r s', m s = (r, s') -> grows is_call s s'.

Lemma nc_low {A} (m : M A) : Low m -> NC m.
Proof. intros H s r s' E. exact (proj1 (H _ _ _ E)). Qed.
Lemma nc_bind {A B} (m : M A) (f : A -> M B) : NC m -> (forall a, NC (f a)) -> NC (bind m f).
Proof.
  intros Hm Hf s r s'. unfold bind. destruct (m s) as [[a|e|p] s1] eqn:E; intro H.
  - exact (grows_trans _ _ _ _ (Hm _ _ _ E) (Hf a _ _ _ H)).
  - injection H as <- <-. exact (Hm _ _ _ E).
  - injection H as <- <-. exact (Hm _ _ _ E).
Qed.
Lemma nc_attempt {A} (m : M A) : NC m -> NC (attempt m).
Proof.
  intros Hm s r s'. unfold attempt. destruct (m s) as [[a|e|p] s1] eqn:E; intro H;
    injection H as <- <-; exact (Hm _ _ _ E).
Qed.
Lemma nc_park_on_err (m : M unit) : NC m -> NC (park_on_err m).
Proof.
  intros Hm s r s'. unfold park_on_err. destruct (m s) as [[a|e|p] s1] eqn:E; intro H;
    injection H as <- <-; try exact (Hm _ _ _ E).
  destruct (Hm _ _ _ E) as (l & Tl & C). exists l. split; [|exact C].
  destruct (s_park s1); exact Tl.
Qed.
Lemma nc_park e : NC (park e).
Proof.
  intros s r s'. unfold park. intro H. injection H as <- <-. apply grows_same.
  destruct (s_park s); reflexivity.
Qed.

(* ---- success triples ---- *)

Definition T {A} (P : st -> Prop) (m : M A) (Q : A -> st -> Prop) : Prop :=
  forall s a s', m s = (ROk a, s') -> P s -> Q a s'.
Definition Fails {A} (m : M A) : Prop := forall s a s', m s <> (ROk a, s').
Definition TT : st -> Prop := fun _ => True.

Lemma t_bind {A B} P (m : M A) Q (f : A -> M B) R :
  T P m Q -> (forall a, T (Q a) (f a) R) -> T P (bind m f) R.
Proof.
  intros Hm Hf s b s'. unfold bind. destruct (m s) as [[a|e|p] s1] eqn:E; try discriminate.
  intros H HP. exact (Hf a _ _ _ H (Hm _ _ _ E HP)).
Qed.
Lemma t_ret {A} (P : st -> Prop) (a : A) (Q : A -> st -> Prop) : (forall s, P s -> Q a s) -> T P (ret a) Q.
Proof. intros H s b s' E. injection E as <- <-. apply H. Qed.
Lemma t_fails {A} P (m : M A) Q : Fails m -> T P m Q.
Proof. intros H s a s' E. destruct (H _ _ _ E). Qed.
Lemma t_pre {A} (P P' : st -> Prop) (m : M A) Q : (forall s, P' s -> P s) -> T P m Q -> T P' m Q.
Proof. intros HP H s a s' E Hs. exact (H _ _ _ E (HP _ Hs)). Qed.
Lemma t_post {A} P (m : M A) (Q Q' : A -> st -> Prop) :
  (forall a s, Q a s -> Q' a s) -> T P m Q -> T P m Q'.
Proof. intros HQ H s a s' E Hs. exact (HQ _ _ (H _ _ _ E Hs)). Qed.

Lemma fails_fail {A} e : Fails (@fail A e).
Proof. intros s a s'. discriminate. Qed.
Lemma fails_panic {A} p : Fails (@panic A p).
Proof. intros s a s'. discriminate. Qed.
Lemma fails_bind_r {A B} (m : M A) (f : A -> M B) : (forall a, Fails (f a)) -> Fails (bind m f).
Proof.
  intros Hf s b s'. unfold bind. destruct (m s) as [[a|e|p] s1]; try discriminate. apply Hf.
Qed.
Ltac fails := repeat first [apply fails_fail | apply fails_panic | apply fails_bind_r; intro].

Lemma t_low_inv {A} (m : M A) : Low m -> T Inv m (fun _ => Inv).
Proof.
  intros H s a s' E Hi. destruct (H _ _ _ E) as [_ K]. destruct (K a eq_refl) as [F P].
  unfold Inv. rewrite P, (grows_fault_iff _ _ F). exact Hi.
Qed.
Lemma t_low_nf {A} (m : M A) : Low m -> T nf m (fun _ => nf).
Proof.
  intros H s a s' E Hi. destruct (H _ _ _ E) as [_ K]. destruct (K a eq_refl) as [F P].
  unfold nf. rewrite (grows_fault_iff _ _ F). exact Hi.
Qed.

(* results that may carry an API error as a value *)
Definition Qa {A} (r : A + ioerr) (s : st) : Prop := match r with inl _ => Inv s | inr _ => True end.
Definition Qw (x : wres) (s : st) : Prop := snd x = None -> Inv s.
Definition Qi {A} (_ : A) (s : st) : Prop := Inv s.

Lemma t_att_low {A} (m : M A) : Low m -> T Inv (attempt m) Qa.
Proof.
  intros H s r s'. unfold attempt. destruct (m s) as [[a|e|p] s1] eqn:E; intros H1 Hi;
    try discriminate; injection H1 as <- <-; [|exact I].
  exact (t_low_inv m H _ _ _ E Hi).
Qed.
Lemma t_ret_inl {A} (a : A) : T Inv (ret (@inl A ioerr a)) Qa.
Proof. apply t_ret. intros s H. exact H. Qed.
Lemma t_bind_a {A B} (m : M (A + ioerr)) (f : A + ioerr -> M B) R :
  T Inv m Qa -> (forall a, T Inv (f (inl a)) R) -> (forall e, T TT (f (inr e)) R) ->
  T Inv (bind m f) R.
Proof.
  intros Hm H1 H2. apply (t_bind _ _ _ _ _ Hm).
  intros [a|e]; [apply H1 | apply (t_pre TT); [intros; exact I | apply H2]].
Qed.
Lemma t_bind_w {B} (m : M wres) (f : wres -> M B) R :
  T Inv m Qw -> (forall w, T Inv (f (w, None)) R) -> (forall w e, T TT (f (w, Some e)) R) ->
  T Inv (bind m f) R.
Proof.
  intros Hm H1 H2. apply (t_bind _ _ _ _ _ Hm). intros [w [e|]].
  - apply (t_pre TT); [intros; exact I | apply H2].
  - apply (t_pre Inv); [|apply H1]. intros s H. exact (H eq_refl).
Qed.
Lemma t_bind_i {A B} (m : M A) (f : A -> M B) R :
  T Inv m Qi -> (forall a, T Inv (f a) R) -> T Inv (bind m f) R.
Proof. intros Hm Hf. exact (t_bind _ _ _ _ _ Hm Hf). Qed.
Lemma t_retw_none (P : st -> Prop) w : (forall s, P s -> Inv s) -> T P (ret (w, @None ioerr)) Qw.
Proof. intro H. apply t_ret. intros s Hs _. exact (H s Hs). Qed.
Lemma t_retw_some P w e : T P (ret (w, Some e)) Qw.
Proof. apply t_ret. intros s _. discriminate. Qed.

Lemma t_park_on_err P (m : M unit) : T P m Qi -> T P (park_on_err m) Qi.
Proof.
  intros H s a s'. unfold park_on_err. destruct (m s) as [[u|e|p] s1] eqn:E; intros H1 HP;
    try discriminate; injection H1 as <- <-.
  - exact (H _ _ _ E HP).
  - unfold Qi, Inv. intros _. destruct (s_park s1) eqn:Ep; [rewrite Ep|]; discriminate.
Qed.
Lemma t_park P e : T P (park e) Qi.
Proof.
  intros s a s'. unfold park. intros H _. injection H as <- <-.
  unfold Qi, Inv. intros _. destruct (s_park s) eqn:Ep; [rewrite Ep|]; discriminate.
Qed.


(* ---- the writers ---- *)

Ltac nc0 :=
  repeat (cbv beta iota zeta;
    match goal with
    | |- NC (bind _ _) => apply nc_bind; [|intro]
    | |- NC (attempt _) => apply nc_attempt
    | |- NC (park_on_err _) => apply nc_park_on_err
    | |- NC (park _) => apply nc_park
    | |- NC (ret _) => apply nc_low, low_ret
    | |- NC (fail _) => apply nc_low, low_fail
    | |- NC (panic _) => apply nc_low, low_panic
    | |- NC (lapi _ _) => apply nc_low, low_lapi
    | |- NC (log_api _) => apply nc_low, low_log_api
    | |- NC end_packet => apply nc_low, low_end_packet
    | |- NC (write_all _) => apply nc_low, low_write_all
    | |- NC (send _) => apply nc_low, low_send
    | |- NC (send_all _) => apply nc_low, low_send_all
    | |- NC (finalize _ _) => apply nc_low, low_finalize
    | |- NC (write_err _ _ _) => apply nc_low, low_write_err
    | |- NC (match ?x with _ => _ end) => destruct x
    end).

Ltac wleaf :=
  repeat (cbv beta iota zeta;
    match goal with
    | |- T _ (ret (_, None)) Qw => apply t_retw_none; intros ? ?; assumption
    | |- T _ (ret (_, Some _)) Qw => apply t_retw_some
    | |- T _ (panic _) _ => apply t_fails, fails_panic
    | |- T _ (match ?x with _ => _ end) _ => destruct x
    end).

Lemma nc_drop_q q : NC (drop_q q).
Proof. unfold drop_q. nc0. Qed.
Lemma t_drop_q q : T Inv (drop_q q) Qi.
Proof. unfold drop_q. apply t_park_on_err. apply t_low_inv, low_finalize. Qed.

Lemma nc_write_col w v : NC (write_col w v).
Proof. unfold write_col. nc0. Qed.
Lemma t_write_col w v : T Inv (write_col w v) Qw.
Proof.
  unfold write_col. destruct (r_cols w) as [|c0 cs]; [wleaf|].
  destruct (q_bin (r_q w)).
  - apply t_bind_a.
    + destruct (Nat.eqb (r_col w) 0); [apply t_att_low, low_write_all | apply t_ret_inl].
    + intros _. wleaf.
    + intros e. wleaf.
  - destruct (to_text v) as [bs|e|p]; [|wleaf..].
    apply t_bind_a; [apply t_att_low, low_write_all | intros _; wleaf | intros e; wleaf].
Qed.

Lemma nc_end_row w : NC (end_row w).
Proof. unfold end_row. nc0. Qed.
Lemma t_end_row w : T Inv (end_row w) Qw.
Proof.
  unfold end_row. destruct (r_cols w) as [|c0 cs]; [wleaf|].
  destruct (negb _); [wleaf|].
  apply t_bind_a.
  - destruct (q_bin (r_q w)); [apply t_att_low, low_write_all | apply t_ret_inl].
  - intros _. cbv zeta.
    apply t_bind_a; [apply t_att_low, low_end_packet | intros _; wleaf | intros e; wleaf].
  - intros e. wleaf.
Qed.

Lemma nc_finish_inner w c : NC (finish_inner w c).
Proof.
  unfold finish_inner. destruct (r_finished w); [nc0|]. cbv zeta. apply nc_bind.
  - destruct (r_cols _); [nc0|]. destruct (Nat.eqb _ _); [nc0 | apply nc_end_row].
  - intro x. nc0.
Qed.
Lemma t_finish_inner w c : T Inv (finish_inner w c) Qw.
Proof.
  unfold finish_inner. destruct (r_finished w); [wleaf|]. cbv zeta. apply t_bind_w.
  - destruct (r_cols _); [wleaf|]. destruct (Nat.eqb _ _); [wleaf | apply t_end_row].
  - intro w2. wleaf.
  - intros w2 e. wleaf.
Qed.

Lemma nc_drop_rw w : NC (drop_rw w).
Proof.
  unfold drop_rw. apply nc_bind; [apply nc_finish_inner|]. intros [w' [e|]].
  - apply nc_bind; [apply nc_park | intro; apply nc_drop_q].
  - apply nc_drop_q.
Qed.
Lemma t_drop_rw w : T Inv (drop_rw w) Qi.
Proof.
  unfold drop_rw. apply t_bind_w; [apply t_finish_inner | intro w'; apply t_drop_q |].
  intros w' e. apply (t_bind _ _ _ _ _ (t_park TT e)). intros u. apply t_drop_q.
Qed.

Lemma nc_write_cols vs : forall w, NC (write_cols w vs).
Proof.
  induction vs as [|v vs IH]; intro w; cbn [write_cols]; [nc0|].
  apply nc_bind; [apply nc_write_col|]. intros [w' [e|]]; [nc0 | apply IH].
Qed.
Lemma t_write_cols vs : forall w, T Inv (write_cols w vs) Qw.
Proof.
  induction vs as [|v vs IH]; intro w; cbn [write_cols]; [wleaf|].
  apply t_bind_w; [apply t_write_col | intro w'; apply IH | intros w' e; wleaf].
Qed.
Lemma nc_write_row w vs : NC (write_row w vs).
Proof.
  unfold write_row. destruct (r_cols w); [apply nc_end_row|].
  apply nc_bind; [apply nc_write_cols|]. intros [w' [e|]]; [nc0 | apply nc_end_row].
Qed.
Lemma t_write_row w vs : T Inv (write_row w vs) Qw.
Proof.
  unfold write_row. destruct (r_cols w); [apply t_end_row|].
  apply t_bind_w; [apply t_write_cols | intro w'; apply t_end_row | intros w' e; wleaf].
Qed.

Lemma nc_api_ret (m : M unit) : Low m -> NC (api_ret m).
Proof.
  intro H. unfold api_ret. apply nc_bind; [apply nc_attempt, nc_low, H|]. intros [u|e]; nc0.
Qed.
Lemma t_api_ret (m : M unit) : Low m -> T Inv (api_ret m) Qi.
Proof.
  intro H. unfold api_ret. apply t_bind_a; [apply t_att_low, H | |].
  - intros _. apply t_low_inv, low_log_api.
  - intros e. apply t_fails. fails.
Qed.

(* ---- the interpreter of shim programs ---- *)

Ltac nc :=
  nc0;
  repeat (first [ apply nc_drop_rw | apply nc_drop_q | apply nc_finish_inner | apply nc_write_col
                | apply nc_end_row | apply nc_write_row ]; nc0).

Lemma nc_run_mut errtab quiet :
  (forall p q, NC (run_q errtab quiet q p)) /\ (forall p w, NC (run_r errtab quiet w p)).
Proof.
  apply qrprog_ind; intros; cbn [run_q run_r]; nc; auto.
Qed.
Lemma nc_run_q errtab quiet q p : NC (run_q errtab quiet q p).
Proof. apply (proj1 (nc_run_mut errtab quiet)). Qed.

Ltac tr :=
  repeat (cbv beta iota zeta;
    match goal with
    | |- T TT _ _ => solve [apply t_fails; fails]
    | |- T Inv (bind (attempt _) _) _ => apply t_bind_a; [apply t_att_low; low | intro | intro]
    | |- T Inv (bind (lapi _ _) _) _ => apply t_bind_i; [apply t_low_inv, low_lapi | intro]
    | |- T Inv (bind (finish_inner _ _) _) _ =>
        apply t_bind_w; [apply t_finish_inner | intro | intros ? ?]
    | |- T Inv (bind (write_col _ _) _) _ => apply t_bind_w; [apply t_write_col | intro | intros ? ?]
    | |- T Inv (bind (end_row _) _) _ => apply t_bind_w; [apply t_end_row | intro | intros ? ?]
    | |- T Inv (bind (write_row _ _) _) _ => apply t_bind_w; [apply t_write_row | intro | intros ? ?]
    | |- T Inv (lapi _ _) _ => apply t_low_inv, low_lapi
    | |- T Inv (drop_q _) _ => apply t_drop_q
    | |- T Inv (drop_rw _) _ => apply t_drop_rw
    end).

Lemma t_run_mut errtab quiet :
  (forall p, noignore_q p -> forall q, T Inv (run_q errtab quiet q p) Qi) /\
  (forall p, noignore_r p -> forall w, T Inv (run_r errtab quiet w p) Qi).
Proof.
  apply qrprog_ind.
  - intros cols k IH Hn q. cbn [noignore_q] in Hn. cbn [run_q]. tr. apply IH, Hn.
  - intros rows id k IH Hn q. cbn [noignore_q] in Hn. cbn [run_q]. tr. apply IH, Hn.
  - intros rows id _ q. cbn [run_q]. tr.
  - intros code msg _ q. cbn [run_q]. tr.
  - intros _ q. cbn [run_q]. tr.
  - intros _ q. cbn [run_q]. tr.
  - intros v e k IH Hn w. cbn [noignore_r] in Hn. destruct Hn as [-> Hn]. cbn [run_r]. tr.
    apply IH, Hn.
  - intros e k IH Hn w. cbn [noignore_r] in Hn. destruct Hn as [-> Hn]. cbn [run_r]. tr.
    apply IH, Hn.
  - intros vs e k IH Hn w. cbn [noignore_r] in Hn. destruct Hn as [-> Hn]. cbn [run_r]. tr.
    apply IH, Hn.
  - intros _ w. cbn [run_r]. tr.
  - intros k IH Hn w. cbn [noignore_r] in Hn. cbn [run_r]. tr. apply IH, Hn.
  - intros code msg _ w. cbn [run_r]. tr.
  - intros _ w. cbn [run_r]. tr.
Qed.
Lemma t_run_q errtab quiet q p : noignore_q p -> T Inv (run_q errtab quiet q p) Qi.
Proof. intro H. apply (proj1 (t_run_mut errtab quiet)), H. Qed.

(* ---- computations that log no fault (callback bookkeeping) ---- *)

Definition NFl {A} (m : M A) : Prop := forall s r s', m s = (r, s') -> nf s -> nf s'.

Lemma nfl_bind {A B} (m : M A) (f : A -> M B) : NFl m -> (forall a, NFl (f a)) -> NFl (bind m f).
Proof.
  intros Hm Hf s r s'. unfold bind. destruct (m s) as [[a|e|p] s1] eqn:E; intros H1 Hs.
  - exact (Hf a _ _ _ H1 (Hm _ _ _ E Hs)).
  - injection H1 as <- <-. exact (Hm _ _ _ E Hs).
  - injection H1 as <- <-. exact (Hm _ _ _ E Hs).
Qed.
Lemma nfl_same {A} (m : M A) : (forall s, snd (m s) = s) -> NFl m.
Proof.
  intros H s r s' E. pose proof (H s) as Hs. rewrite E in Hs. cbn [snd] in Hs. subst s'. auto.
Qed.
Lemma nfl_log_call c : NFl (log_call c).
Proof.
  intros s r s' E Hs. unfold log_call in E. injection E as <- <-.
  unfold nf. rewrite faulted_upd. intros [H|H]; [discriminate | exact (Hs H)].
Qed.

(* ---- triples that also maintain "no call after a fault", whatever the result ---- *)

Definition HT {A} (P : st -> Prop) (m : M A) (Q : A -> st -> Prop) : Prop :=
  forall s r s', m s = (r, s') -> P s -> NCA s -> NCA s' /\ (forall a, r = ROk a -> Q a s').

Lemma h_bind {A B} P (m : M A) Q (f : A -> M B) R :
  HT P m Q -> (forall a, HT (Q a) (f a) R) -> HT P (bind m f) R.
Proof.
  intros Hm Hf s r s'. unfold bind. destruct (m s) as [[a|e|p] s1] eqn:E; intros H1 HP Hn;
    destruct (Hm _ _ _ E HP Hn) as [N1 K1].
  - exact (Hf a _ _ _ H1 (K1 a eq_refl) N1).
  - injection H1 as <- <-. split; [exact N1 | discriminate].
  - injection H1 as <- <-. split; [exact N1 | discriminate].
Qed.
Lemma h_nct {A} P (m : M A) Q : NC m -> T P m Q -> HT P m Q.
Proof.
  intros Hc Ht s r s' E HP Hn. split; [exact (grows_call_NCA _ _ (Hc _ _ _ E) Hn)|].
  intros a ->. exact (Ht _ _ _ E HP).
Qed.
Lemma h_nfl {A} (m : M A) : NFl m -> HT nf m (fun _ => nf).
Proof.
  intros Hm s r s' E HP _. pose proof (Hm _ _ _ E HP) as H1.
  split; [exact (nf_NCA _ H1) | intros; exact H1].
Qed.
Lemma h_pre {A} (P P' : st -> Prop) (m : M A) Q : (forall s, P' s -> P s) -> HT P m Q -> HT P' m Q.
Proof. intros HP Hm s r s' E Hs. exact (Hm _ _ _ E (HP _ Hs)). Qed.
Lemma h_post {A} P (m : M A) (Q Q' : A -> st -> Prop) :
  (forall a s, Q a s -> Q' a s) -> HT P m Q -> HT P m Q'.
Proof.
  intros HQ Hm s r s' E Hs Hn. destruct (Hm _ _ _ E Hs Hn) as [N1 K]. split; [exact N1|].
  intros a Ha. exact (HQ _ _ (K a Ha)).
Qed.
Lemma h_pure {A} (P : st -> Prop) (phi : Prop) (m : M A) Q :
  (phi -> HT P m Q) -> HT (fun s => P s /\ phi) m Q.
Proof. intros Hm s r s' E [Hs Hphi]. exact (Hm Hphi _ _ _ E Hs). Qed.
Lemma h_ret {A} (P : st -> Prop) (a : A) (Q : A -> st -> Prop) :
  (forall s, P s -> Q a s) -> HT P (ret a) Q.
Proof. intro Hq. apply h_nct; [apply nc_low, low_ret | apply t_ret, Hq]. Qed.
Lemma h_fails {A} P (m : M A) Q : NC m -> Fails m -> HT P m Q.
Proof. intros Hc Hf. apply h_nct; [exact Hc | apply t_fails, Hf]. Qed.
Lemma h_low_nf {A} (m : M A) : Low m -> HT nf m (fun _ => nf).
Proof. intro Hl. apply h_nct; [apply nc_low, Hl | apply t_low_nf, Hl]. Qed.

(* ---- flush reports the parked error ---- *)

Lemma nc_flush : NC flush.
Proof.
  intros s r s'. unfold flush. destruct (s_park s) as [e|].
  - intro E. injection E as <- <-. apply grows_same. reflexivity.
  - apply (nc_low (end_packet ;;; t_flush)). low.
Qed.
Lemma t_flush_nf : T Inv flush (fun _ => nf).
Proof.
  intros s a s'. unfold flush. destruct (s_park s) as [e|] eqn:Ep; [discriminate|].
  intros E Hi. assert (Hs : nf s) by (intro F; exact (Hi F Ep)).
  assert (Hl : Low (end_packet ;;; t_flush)) by low.
  exact (t_low_nf _ Hl _ _ _ E Hs).
Qed.
Lemma h_flush : HT Inv flush (fun _ => nf).
Proof. apply h_nct; [exact nc_flush | exact t_flush_nf]. Qed.

(* ---- the scripts stay ignore-free ---- *)

Lemma pop_q_noignore sc prog tag sc' :
  scripts_noignore sc -> pop_q sc = ((prog, tag), sc') -> noignore_q prog /\ scripts_noignore sc'.
Proof.
  intros [Hq Hx]. unfold pop_q. destruct (sc_q sc) as [|x r] eqn:E; intro H.
  - injection H as <- <- <-. split; [exact I|]. split; [rewrite E; exact Hq | exact Hx].
  - injection H as -> <-. split; [exact (Forall_inv Hq)|].
    split; [exact (Forall_inv_tail Hq) | exact Hx].
Qed.
Lemma pop_x_noignore sc x sc' :
  scripts_noignore sc -> pop_x sc = (x, sc') -> noignore_q (x_prog x) /\ scripts_noignore sc'.
Proof.
  intros [Hq Hx]. unfold pop_x. destruct (sc_x sc) as [|y r] eqn:E; intro H; injection H as <- <-.
  - split; [exact I|]. split; [exact Hq | rewrite E; exact Hx].
  - split; [exact (Forall_inv Hx)|]. split; [exact Hq | exact (Forall_inv_tail Hx)].
Qed.
Lemma pop_p_noignore sc x sc' : scripts_noignore sc -> pop_p sc = (x, sc') -> scripts_noignore sc'.
Proof.
  intros [Hq Hx]. unfold pop_p. destruct (sc_p sc) as [|y r] eqn:E; intro H; injection H as <- <-;
    split; assumption.
Qed.
Lemma pop_i_noignore sc x sc' : scripts_noignore sc -> pop_i sc = (x, sc') -> scripts_noignore sc'.
Proof.
  intros [Hq Hx]. unfold pop_i. destruct (sc_i sc) as [|y r] eqn:E; intro H; injection H as <- <-;
    split; assumption.
Qed.

Section WithOracles.
Variable fpext : N -> N.
Variable fptrunc : N -> N.
Variable errtab : N -> option (N * bytes).

Lemma low_ret_tag t : Low (ret_tag t).
Proof. destruct t; [apply low_fail | apply low_ret]. Qed.

Ltac nfl :=
  repeat (cbv beta iota zeta;
    match goal with
    | |- NFl (bind _ _) => apply nfl_bind; [|intro]
    | |- NFl (ret _) => apply nfl_same; reflexivity
    | |- NFl (fail _) => apply nfl_same; reflexivity
    | |- NFl (panic _) => apply nfl_same; reflexivity
    | |- NFl (log_call _) => apply nfl_log_call
    | |- NFl (match ?x with _ => _ end) => destruct x
    end).

Lemma nfl_pull_params fuel : forall n convs p, NFl (pull_params fpext fptrunc fuel n convs p).
Proof.
  induction fuel as [|f IH]; intros n convs p; cbn [pull_params]; nfl; apply IH.
Qed.

(* what a callback leaves behind when it returns Ok *)
Definition HQ {A} (x : A * scripts) (s : st) : Prop := Inv s /\ scripts_noignore (snd x).

(* the reply phase of a callback: no call is logged, a fault makes it fail or is parked *)
Ltac reply :=
  apply (h_pre Inv); [exact nf_Inv|];
  apply h_nct;
  [ repeat (cbv beta iota zeta;
      match goal with
      | |- NC (bind _ _) => apply nc_bind; [|intro]
      | |- NC (run_q _ _ _ _) => apply nc_run_q
      | |- NC (api_ret _) => apply nc_api_ret; low
      | |- NC (ret_tag _) => apply nc_low, low_ret_tag
      | |- NC (ret _) => apply nc_low, low_ret
      | |- NC (fail _) => apply nc_low, low_fail
      | |- NC (send _) => apply nc_low, low_send
      | |- NC (send_all _) => apply nc_low, low_send_all
      | |- NC (match ?x with _ => _ end) => destruct x
      end)
  | repeat (cbv beta iota zeta;
      match goal with
      | |- T Inv (bind (run_q _ _ _ _) _) _ => apply t_bind_i; [apply t_run_q; assumption | intro]
      | |- T Inv (bind (api_ret _) _) _ => apply t_bind_i; [apply t_api_ret; low | intro]
      | |- T Inv (bind (ret_tag _) _) _ => apply t_bind_i; [apply t_low_inv, low_ret_tag | intro]
      | |- T Inv (bind (send _) _) _ => apply t_bind_i; [apply t_low_inv, low_send | intro]
      | |- T Inv (bind (send_all _) _) _ => apply t_bind_i; [apply t_low_inv, low_send_all | intro]
      | |- T Inv (bind (ret _) _) _ => apply t_bind_i; [apply t_low_inv, low_ret | intro]
      | |- T Inv (ret _) HQ => apply t_ret; intros ? ?; split; [assumption | cbn [snd]; assumption]
      | |- T Inv (fail _) _ => apply t_fails, fails_fail
      | |- T Inv (match ?x with _ => _ end) _ => destruct x
      end) ].

Lemma h_on_query q st sc :
  scripts_noignore sc -> HT nf (on_query errtab q (st, sc)) HQ.
Proof.
  intro Hsc. unfold on_query. destruct (pop_q sc) as [[prog tag] sc'] eqn:Ep.
  destruct (pop_q_noignore _ _ _ _ Hsc Ep) as [Hp Hsc'].
  apply (h_bind _ _ _ _ _ (h_nfl _ (nfl_log_call _))). intros _. reply.
Qed.

Lemma h_on_init schema st sc :
  scripts_noignore sc -> HT nf (on_init errtab schema (st, sc)) HQ.
Proof.
  intro Hsc. unfold on_init. destruct (pop_i sc) as [[prog tag] sc'] eqn:Ep.
  pose proof (pop_i_noignore _ _ _ Hsc Ep) as Hsc'.
  apply (h_bind _ _ _ _ _ (h_nfl _ (nfl_log_call _))). intros _.
  destruct prog; reply.
Qed.

Lemma h_on_prepare q st sc :
  scripts_noignore sc -> HT nf (on_prepare errtab q (st, sc)) HQ.
Proof.
  intro Hsc. unfold on_prepare. destruct (pop_p sc) as [[prog tag] sc'] eqn:Ep.
  pose proof (pop_p_noignore _ _ _ Hsc Ep) as Hsc'.
  apply (h_bind _ _ _ _ _ (h_nfl _ (nfl_log_call _))). intros _.
  destruct prog; reply.
Qed.

Lemma h_on_execute id sd params sc :
  scripts_noignore sc -> HT nf (on_execute fpext fptrunc errtab id sd params sc) HQ.
Proof.
  intro Hsc. unfold on_execute. destruct (pop_x sc) as [x sc'] eqn:Ep.
  destruct (pop_x_noignore _ _ _ Hsc Ep) as [Hp Hsc'].
  apply (h_bind _ _ _ _ _ (h_nfl _ (nfl_log_call _))). intros _. cbv zeta.
  apply (h_bind _ _ _ _ _ (h_nfl _ (nfl_pull_params _ _ _ _))). intros p. reply.
Qed.

Lemma h_handle cmd st sc :
  scripts_noignore sc -> HT nf (handle fpext fptrunc errtab cmd (st, sc)) HQ.
Proof.
  intro Hsc. destruct cmd as [q|a|schema|q|id params|id param data|id| |]; unfold handle.
  - destruct (is_prefix sel_upper q || is_prefix sel_lower q).
    + assert (Hp : noignore_q (QStart [{| c_table := []; c_name := at_max_allowed_packet;
                                          c_type := 3; c_flags := 32 |}]
                                 (RWriteRow [VInt U32 67108864] Propagate RFinish)))
        by (cbn [noignore_q noignore_r]; auto).
      assert (Hp2 : noignore_q (QCompleted 0 0)) by exact I.
      destruct (bytes_eqb (skipn 9 q) max_allowed_packet); reply.
    + destruct (is_prefix use_upper q || is_prefix use_lower q).
      * destruct (utf8_valid (skipn 4 q)); [apply h_on_init, Hsc|].
        apply h_fails; [apply nc_low, low_fail | apply fails_fail].
      * destruct (utf8_valid q); [apply h_on_query, Hsc|].
        apply h_fails; [apply nc_low, low_fail | apply fails_fail].
  - reply.
  - destruct (utf8_valid schema); [apply h_on_init, Hsc|].
    apply h_fails; [apply nc_low, low_fail | apply fails_fail].
  - destruct (utf8_valid q); [apply h_on_prepare, Hsc|].
    apply h_fails; [apply nc_low, low_fail | apply fails_fail].
  - destruct (lookup id st) as [sd|];
      [|apply h_fails; [apply nc_low, low_fail | apply fails_fail]].
    destruct (params_valid fpext sd params); cbn [negb];
      [|apply h_fails; [apply nc_low, low_fail | apply fails_fail]].
    apply (h_bind _ _ _ _ _ (h_on_execute id sd params sc Hsc)). intros [sd' sc'].
    apply h_pure. cbn [snd]. intro Hsc'. apply h_ret. intros s Hs. split; assumption.
  - destruct (lookup id st) as [sd|];
      [|apply h_fails; [apply nc_low, low_fail | apply fails_fail]].
    apply h_ret. intros s Hs. split; [exact (nf_Inv _ Hs) | exact Hsc].
  - apply (h_bind _ _ _ _ _ (h_nfl _ (nfl_log_call _))). intros _.
    apply h_ret. intros s Hs. split; [exact (nf_Inv _ Hs) | exact Hsc].
  - apply h_ret. intros s Hs. split; [exact (nf_Inv _ Hs) | exact Hsc].
  - reply.
Qed.

(* ---- the loop: at every loop head nothing has faulted ---- *)

Lemma h_run_f fuel : forall ss0, scripts_noignore (snd ss0) ->
  HT nf (run_f fpext fptrunc errtab fuel ss0) (fun _ => nf).
Proof.
  induction fuel as [|f IH]; intros [st sc] Hsc; cbn [snd] in Hsc; cbn [run_f].
  - apply h_fails; [apply nc_low, low_panic | apply fails_panic].
  - apply (h_bind _ _ _ _ _ (h_low_nf _ low_next)). intros [[q pkt]|]; [|apply h_ret; auto].
    apply (h_bind _ _ _ _ _ (h_low_nf _ (low_set_seq _))). intros _.
    assert (Hgen : forall cmd,
      HT nf (s' <- handle fpext fptrunc errtab cmd (st, sc) ;; flush ;;; run_f fpext fptrunc errtab f s')
         (fun _ => nf)).
    { intro cmd. apply (h_bind _ _ _ _ _ (h_handle cmd st sc Hsc)). intros ss'.
      apply h_pure. intro Hsc'.
      apply (h_bind _ _ _ _ _ h_flush). intros _. apply IH, Hsc'. }
    destruct (parse pkt) as [cmd|];
      [|apply h_fails; [apply nc_low, low_fail | apply fails_fail]].
    destruct cmd; try apply Hgen. apply h_ret. auto.
Qed.

Lemma h_init cfg : HT nf (init errtab cfg) (fun _ => nf).
Proof.
  unfold init.
  apply (h_bind _ _ _ _ _ (h_low_nf _ (low_write_all _))). intros _.
  apply (h_bind _ _ _ _ _ (h_pre _ _ _ _ nf_Inv h_flush)). intros _.
  apply (h_bind _ _ _ _ _ (h_low_nf _ low_next)).
  intros [[q pkt]|]; [|apply h_fails; [apply nc_low, low_fail | apply fails_fail]].
  destruct (client_handshake pkt false) as [ssl user|e];
    [|apply h_fails; [apply nc_low, low_fail | apply fails_fail]].
  apply (h_bind _ _ _ _ _ (h_low_nf _ (low_set_seq _))). intros _.
  destruct ssl; [apply h_fails; [apply nc_low, low_fail | apply fails_fail]|].
  apply (h_bind _ _ _ _ _ (h_nfl _ (nfl_log_call _))). intros _.
  destruct (cfg_auth cfg) as [tag|].
  - apply h_fails; [|fails].
    apply nc_bind; [destruct (errtab 1045) as [[c state]|]; apply nc_low; low|].
    intro. apply nc_bind; [exact nc_flush | intro; apply nc_low, low_fail].
  - apply (h_bind _ _ _ _ _ (h_low_nf _ (low_send _))). intros _.
    exact (h_pre _ _ _ _ nf_Inv h_flush).
Qed.

Lemma h_run_on cfg sc : scripts_noignore sc ->
  HT nf (run_on fpext fptrunc errtab cfg sc) (fun _ => nf).
Proof.
  intros Hsc s r s' E. unfold run_on in E. revert E.
  apply (h_bind _ _ _ _ _ (h_init cfg)). intros _. apply h_run_f. exact Hsc.
Qed.

Lemma start_nf s : s_trace s = [] -> nf s /\ NCA s.
Proof. intro H. unfold nf, faulted, NCA. rewrite H. split; [discriminate | exact I]. Qed.

(* a fault anywhere makes the whole run fail (never Ok) *)
Theorem fault_is_error cfg sc s r s' :
  s_trace s = [] -> s_park s = None -> scripts_noignore sc ->
  run_on fpext fptrunc errtab cfg sc s = (r, s') ->
  faulted s' -> r <> ROk tt.
Proof.
  intros Ht _ Hsc E F ->. destruct (start_nf s Ht) as [Hs Hn].
  destruct (h_run_on cfg sc Hsc _ _ _ E Hs Hn) as [_ K]. exact (K tt eq_refl F).
Qed.

(* no shim callback is started after the first fault *)
Theorem no_call_after_fault cfg sc s r s' pre f post :
  s_trace s = [] -> s_park s = None -> scripts_noignore sc ->
  run_on fpext fptrunc errtab cfg sc s = (r, s') ->
  rev (s_trace s') = pre ++ f :: post -> is_fault f = true ->
  existsb is_call post = false.
Proof.
  intros Ht _ Hsc E Hsplit Hf. destruct (start_nf s Ht) as [Hs Hn].
  destruct (h_run_on cfg sc Hsc _ _ _ E Hs Hn) as [N' _]. unfold NCA in N'.
  rewrite <- (rev_involutive (s_trace s')), Hsplit, rev_app_distr in N'.
  cbn [rev] in N'. rewrite <- app_assoc in N'. cbn [app] in N'.
  rewrite <- (existsb_rev is_call post). exact (nca_split _ _ _ N' Hf).
Qed.

(* a shim error ends the connection and is returned unchanged *)
Theorem shim_error_returned q st sc prog tag sc' msgs s :
  clean s ->
  is_prefix sel_upper q || is_prefix sel_lower q = false ->
  is_prefix use_upper q || is_prefix use_lower q = false ->
  utf8_valid q = true ->
  pop_q sc = ((prog, Some tag), sc') ->
  pm_q errtab false None prog = Some msgs ->
  exists s', handle fpext fptrunc errtab (CmdQuery q) (st, sc) s = (RErr (EShim tag), s').
Proof.
  intros Hc H1 H2 H3 Hpop Hpm. unfold handle. rewrite H1, H2, H3. unfold on_query. rewrite Hpop.
  assert (Hc1 : clean (upd_trace (ECall (CQuery q)) s)) by exact Hc.
  destruct (run_q_render errtab false (bin_qrw false) prog msgs _ Hc1 Hpm) as (s1 & Hrun & _).
  exists s1. unfold bind at 1. unfold log_call at 1. unfold bind at 1. rewrite Hrun. reflexivity.
Qed.
(* ... and run_f stops there: errors of handle are errors of the run *)
Lemma run_f_handle_error fuel ss s q pkt s1 cmd e s2 :
  next s = (ROk (Some (q, pkt)), s1) -> parse pkt = Some cmd -> cmd <> CmdQuit ->
  handle fpext fptrunc errtab cmd ss (snd (set_seq ((q + 1) mod 256) s1)) = (RErr e, s2) ->
  run_f fpext fptrunc errtab (S fuel) ss s = (RErr e, s2).
Proof.
  intros Hn Hp Hq Hh. rewrite (run_f_cmd fpext fptrunc errtab fuel ss s q pkt s1 cmd Hn Hp Hq).
  change (snd (set_seq ((q + 1) mod 256) s1)) with (set_seq_cont ((q + 1) mod 256) (s_cont s1) s1) in Hh.
  unfold bind at 1. rewrite Hh. reflexivity.
Qed.

(* the client stream ends inside a packet (after any number of served commands): an error *)
Theorem run_truncated cmds ss0 reps ss1 fuel s q p x y :
  wf_conn s -> Forall (fun c => fst c < 256) cmds -> q < 256 ->
  inbound s = frames (s_lim s) cmds ++ x -> x <> [] -> y <> [] -> x ++ y = frame (s_lim s) q p ->
  abs_run fpext fptrunc errtab cmds ss0 = Some (reps, ss1) ->
  (length cmds < fuel)%nat ->
  exists s', run_f fpext fptrunc errtab fuel ss0 s = (RErr EUnexpectedEof, s').
Proof.
  intros Hwf Hq Hq0 Hin Hx Hy Hxy. revert ss0 reps fuel s Hwf Hq Hin Hxy.
  induction cmds as [|[q1 p1] cmds IH]; intros ss0 reps fuel s Hwf Hq Hin Hxy Habs Hfuel;
    (destruct fuel as [|f]; [cbn [length] in Hfuel; lia|]).
  - cbn [frames app] in Hin.
    pose proof Hwf as ((_ & Hl0 & _) & Hl24 & Hall).
    destruct (next_truncated s q p x y Hl0 Hl24 Hq0 Hall Hin Hx Hy Hxy) as (s1 & Hn).
    exists s1. rewrite run_f_S. unfold bind. rewrite Hn. reflexivity.
  - destruct (abs_run_cons _ _ _ _ _ _ _ _ _ Habs)
      as (cmd & rep & reps' & ss' & Hp & Hnq & Hh & Hr & ->).
    pose proof (Forall_inv Hq) as Hq1. cbn [fst] in Hq1. apply Forall_inv_tail in Hq.
    cbn [frames] in Hin. rewrite <- app_assoc in Hin.
    destruct (step_one fpext fptrunc errtab s q1 p1 _ cmd ss0 rep ss' Hwf Hq1 Hin Hp Hnq Hh)
      as (s4 & rd & body & Hrun & Hwf4 & L4 & Hin4 & _).
    destruct (IH ss' reps' f s4 Hwf4 Hq) as (s' & Hrun').
    + rewrite L4. exact Hin4.
    + rewrite L4. exact Hxy.
    + exact Hr.
    + cbn [length] in Hfuel. lia.
    + exists s'. rewrite Hrun. exact Hrun'.
Qed.

End WithOracles.

Print Assumptions fault_is_error.
Print Assumptions no_call_after_fault.
Print Assumptions shim_error_returned.
Print Assumptions run_f_handle_error.
Print Assumptions run_truncated.
