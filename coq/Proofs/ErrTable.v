(* The translated error tables (Gen/ErrorCodes.v, regenerated from src/errorcodes.rs on every
   run): kinds <-> numeric codes convert both ways without loss, every kind has exactly one
   5-byte SQLSTATE, and the table extends the pinned reference.  Decided by complete evaluation
   over the (finite) table and lifted to the quantified statements.  Proofs only. *)
From MsqlVerif Require Import Model.Base Model.ErrTab Gen.ErrorCodes Spec.ErrRef Proofs.BaseLemmas.
From Coq Require Import Lia String.
Open Scope N_scope.

Definition kind_idx := map (fun k => fst (fst k)) kinds.
Definition kind_codes := map (fun k => snd k) kinds.

(* ---- generic facts about the first-match lookups (no table mentioned) ---- *)
Lemma kind_code_in_In l idx c : kind_code_in l idx = Some c -> exists n, In (idx, n, c) l.
Proof.
  induction l as [|[[i n] c'] r IH]; cbn [kind_code_in]; intros H.
  - discriminate.
  - destruct (N.eqb_spec i idx) as [->|_].
    + inversion H; subst. exists n. left. reflexivity.
    + destruct (IH H) as [n' Hn]. exists n'. right. exact Hn.
Qed.
Lemma from_u16_in_In l c i : from_u16_in l c = Some i -> In (c, i) l.
Proof.
  induction l as [|[c' i'] r IH]; cbn [from_u16_in]; intros H.
  - discriminate.
  - destruct (N.eqb_spec c' c) as [->|_].
    + inversion H; subst. left. reflexivity.
    + right. exact (IH H).
Qed.
Lemma kind_code_In idx c : kind_code idx = Some c -> exists n, In (idx, n, c) kinds.
Proof. unfold kind_code. apply kind_code_in_In. Qed.
Lemma from_u16_In c i : from_u16 c = Some i -> In (c, i) from_arms.
Proof. unfold from_u16. apply from_u16_in_In. Qed.

Lemma mem_N_false_notin x l : mem_N x l = false -> ~ In x l.
Proof.
  induction l as [|y r IH]; cbn [mem_N]; intros H Hin.
  - destruct Hin.
  - apply Bool.orb_false_iff in H. destruct H as [Hxy Hr].
    destruct Hin as [->|Hin].
    + rewrite N.eqb_refl in Hxy. discriminate.
    + exact (IH Hr Hin).
Qed.
Fixpoint nodupb (l : list N) : bool :=
  match l with [] => true | x :: r => negb (mem_N x r) && nodupb r end.
Lemma nodupb_sound l : nodupb l = true -> NoDup l.
Proof.
  induction l as [|x r IH]; cbn [nodupb]; intros H.
  - constructor.
  - apply Bool.andb_true_iff in H. destruct H as [Hx Hr].
    apply Bool.negb_true_iff in Hx.
    constructor; [apply mem_N_false_notin; exact Hx | exact (IH Hr)].
Qed.

(* ---- the boolean checks, each decided once by complete evaluation over the table ---- *)
(* for the kind an entry's index denotes (first match): its code converts back to it *)
Definition chk_cf (k : N * string * N) : bool :=
  match kind_code (fst (fst k)) with
  | Some c => match from_u16 c with Some j => j =? fst (fst k) | None => false end
  | None => false
  end.
Lemma chk_code_from : forallb chk_cf kinds = true.
Proof. vm_compute. reflexivity. Qed.
(* for the arm a code selects (first match): the selected kind's code is that code *)
Definition chk_fc (a : N * N) : bool :=
  match from_u16 (fst a) with
  | Some j => match kind_code j with Some c => c =? fst a | None => false end
  | None => false
  end.
Lemma chk_from_code : forallb chk_fc from_arms = true.
Proof. vm_compute. reflexivity. Qed.
Lemma chk_nodup : nodupb kind_codes = true.
Proof. vm_compute. reflexivity. Qed.
Definition chk_u16 (k : N * string * N) : bool :=
  match kind_code (fst (fst k)) with Some c => c <? 65536 | None => false end.
Lemma chk_codes_u16 : forallb chk_u16 kinds = true.
Proof. vm_compute. reflexivity. Qed.
Definition chk_st (k : N * string * N) : bool :=
  match sqlstate (fst (fst k)) with Some st => Nat.eqb (List.length st) 5 | None => false end.
Lemma chk_sqlstate : forallb chk_st kinds = true.
Proof. vm_compute. reflexivity. Qed.

(* kind -> code -> kind: every defined kind's code converts back to that kind *)
Lemma code_from idx c : kind_code idx = Some c -> from_u16 c = Some idx.
Proof.
  intros H. destruct (kind_code_In _ _ H) as [n Hin].
  pose proof (proj1 (forallb_forall _ _) chk_code_from _ Hin) as Hc.
  unfold chk_cf in Hc. cbn [fst snd] in Hc. rewrite H in Hc.
  destruct (from_u16 c) as [j|]; [|discriminate].
  apply N.eqb_eq in Hc. subst j. reflexivity.
Qed.
(* code -> kind -> code: every code From<u16> accepts names a kind whose code is that code *)
Lemma from_code c idx : from_u16 c = Some idx -> kind_code idx = Some c.
Proof.
  intros H. pose proof (from_u16_In _ _ H) as Hin.
  pose proof (proj1 (forallb_forall _ _) chk_from_code _ Hin) as Hc.
  unfold chk_fc in Hc. cbn [fst snd] in Hc. rewrite H in Hc.
  destruct (kind_code idx) as [c'|]; [|discriminate].
  apply N.eqb_eq in Hc. subst c'. reflexivity.
Qed.
(* numeric codes are pairwise distinct, and all fit in 16 bits *)
Lemma codes_distinct : NoDup kind_codes.
Proof. apply nodupb_sound. exact chk_nodup. Qed.
Lemma codes_u16 idx c : kind_code idx = Some c -> c < 65536.
Proof.
  intros H. destruct (kind_code_In _ _ H) as [n Hin].
  pose proof (proj1 (forallb_forall _ _) chk_codes_u16 _ Hin) as Hc.
  unfold chk_u16 in Hc. cbn [fst snd] in Hc. rewrite H in Hc.
  apply N.ltb_lt. exact Hc.
Qed.
(* every kind has a SQLSTATE, of exactly five bytes *)
Lemma sqlstate_five idx c : kind_code idx = Some c -> exists st, sqlstate idx = Some st /\ List.length st = 5%nat.
Proof.
  intros H. destruct (kind_code_In _ _ H) as [n Hin].
  pose proof (proj1 (forallb_forall _ _) chk_sqlstate _ Hin) as Hc.
  unfold chk_st in Hc. cbn [fst snd] in Hc.
  destruct (sqlstate idx) as [st|]; [|discriminate].
  exists st. split; [reflexivity|]. apply Nat.eqb_eq. exact Hc.
Qed.
(* what write_err puts on the wire for ErrorKind::from(code): the code itself and a 5-byte state *)
Lemma errtab_spec code c st : errtab code = Some (c, st) -> c = code /\ c < 65536 /\ List.length st = 5%nat.
Proof.
  unfold errtab. intros H.
  destruct (from_u16 code) as [idx|] eqn:Hf; [|discriminate].
  pose proof (from_code _ _ Hf) as Hk. rewrite Hk in H.
  destruct (sqlstate_five _ _ Hk) as [st' [Hs Hl]]. rewrite Hs in H.
  inversion H; subst. split; [reflexivity|]. split; [exact (codes_u16 _ _ Hk)|exact Hl].
Qed.
Lemma errtab_defined idx c : kind_code idx = Some c -> exists st, errtab c = Some (c, st) /\ sqlstate idx = Some st.
Proof.
  intros H. destruct (sqlstate_five _ _ H) as [st [Hs _]].
  exists st. split; [|exact Hs].
  unfold errtab. rewrite (code_from _ _ H), H, Hs. reflexivity.
Qed.

(* the current table extends the pinned reference: same code and SQLSTATE for every reference kind *)
Definition name_entry (name : string) : option (N * N) :=
  (fix go (l : list (N * string * N)) :=
     match l with
     | [] => None
     | (i, n, c) :: r => if String.eqb n name then Some (i, c) else go r
     end) kinds.
Definition chk_ref (e : string * N * list byte) : bool :=
  let '(name, code, st) := e in
  match name_entry name with
  | Some (idx, c) =>
      (c =? code)
      && match sqlstate idx with Some st' => bytes_eqb st' st | None => false end
      && match errtab code with Some (c2, st2) => (c2 =? code) && bytes_eqb st2 st | None => false end
  | None => false
  end.
Lemma chk_reference : forallb chk_ref err_ref = true.
Proof. vm_compute. reflexivity. Qed.
Lemma table_extends_reference :
  Forall (fun e => let '(name, code, st) := e in
            exists idx, name_entry name = Some (idx, code) /\ sqlstate idx = Some st /\ errtab code = Some (code, st))
         err_ref.
Proof.
  apply Forall_forall. intros [[name code] st] Hin.
  pose proof (proj1 (forallb_forall _ _) chk_reference _ Hin) as Hc.
  unfold chk_ref in Hc.
  destruct (name_entry name) as [[idx c]|] eqn:Hn; [|discriminate].
  destruct (sqlstate idx) as [st1|] eqn:Hs; [|rewrite Bool.andb_false_r in Hc; discriminate].
  destruct (errtab code) as [[c2 st2]|] eqn:He; [|rewrite Bool.andb_false_r in Hc; discriminate].
  apply Bool.andb_true_iff in Hc. destruct Hc as [Hc H3].
  apply Bool.andb_true_iff in Hc. destruct Hc as [H1 H2].
  apply Bool.andb_true_iff in H3. destruct H3 as [H3 H4].
  apply N.eqb_eq in H1. apply N.eqb_eq in H3.
  apply bytes_eqb_eq in H2. apply bytes_eqb_eq in H4.
  subst. exists idx. split; [reflexivity|]. split; [exact Hs|reflexivity].
Qed.

(* e.g. the kind the handshake uses *)
Lemma access_denied : errtab 1045 = Some (1045, [x32; x38; x30; x30; x30]).
Proof. vm_compute. reflexivity. Qed.

Print Assumptions code_from.
Print Assumptions from_code.
Print Assumptions codes_distinct.
Print Assumptions sqlstate_five.
Print Assumptions errtab_spec.
Print Assumptions table_extends_reference.
