(* Outbound side of PacketConn: what write_all / end_packet / send put on the transport when no
   fault is injected.  Proofs only (statements are fixed; helper lemmas may be added). *)
From MsqlVerif Require Import Model.Packet Spec.Frame Proofs.BaseLemmas.
From Coq Require Import Lia.
Open Scope N_scope.

(* state after emitting packets [pkts] (oldest first): only trace, write counter, buffer and
   sequence/continuation change *)
Definition emitted (s s' : st) (pkts : list bytes) : Prop :=
  s_reads s' = s_reads s /\ s_fault s' = s_fault s /\ s_lim s' = s_lim s /\ s_buf s' = s_buf s /\
  s_park s' = s_park s /\ s_wops s' = (s_wops s + length pkts)%nat /\
  s_trace s' = rev (map EWrite pkts) ++ s_trace s.


(* ---- helpers: monad, state projections ---- *)

Lemma bind_ret_tt (m : M unit) s : (m ;;; ret tt) s = m s.
Proof. unfold bind, ret. destruct (m s) as [[[]|e|p] s']; reflexivity. Qed.

Lemma s_tw_set_tw x s : s_tw (set_tw x s) = x.
Proof. reflexivity. Qed.
Lemma s_lim_set_tw x s : s_lim (set_tw x s) = s_lim s.
Proof. reflexivity. Qed.
Lemma set_tw_set_tw x y s : set_tw x (set_tw y s) = set_tw x s.
Proof. reflexivity. Qed.
Lemma set_tw_same s : set_tw (s_tw s) s = s.
Proof. destruct s; reflexivity. Qed.

Lemma emitted_refl s : emitted s s [].
Proof.
  unfold emitted. cbn [length map rev app]. rewrite Nat.add_0_r. repeat split; reflexivity.
Qed.
Lemma emitted_trans s s1 s2 a b : emitted s s1 a -> emitted s1 s2 b -> emitted s s2 (a ++ b).
Proof.
  unfold emitted. intros (A1 & A2 & A3 & A4 & A5 & A6 & A7) (B1 & B2 & B3 & B4 & B5 & B6 & B7).
  repeat split; try congruence.
  - rewrite B6, A6, app_length. lia.
  - rewrite B7, A7, map_app, rev_app_distr, app_assoc. reflexivity.
Qed.
Lemma emitted_set_tw x s s' l : emitted (set_tw x s) s' l -> emitted s s' l.
Proof. intro H; exact H. Qed.

(* ---- end_packet ---- *)

Lemma end_packet_ok_inv s u s' :
  end_packet s = (ROk u, s') -> s_lim s' = s_lim s /\ s_tw s' = [].
Proof.
  unfold end_packet.
  destruct ((Nlen (s_tw s) =? 0) && negb (s_cont s)) eqn:E.
  - intro H. inversion H; subst s'. split; [reflexivity|].
    apply Bool.andb_true_iff in E. destruct E as [E _].
    apply N.eqb_eq in E. apply Nlen_0; exact E.
  - unfold t_write.
    destruct (fault_at _ _); intro H; inversion H; subst s'. split; reflexivity.
Qed.

Lemma end_packet_emit s :
  s_fault s = WNone -> (Nlen (s_tw s) =? 0) && negb (s_cont s) = false ->
  exists s', end_packet s = (ROk tt, s') /\ s_tw s' = [] /\
    s_cont s' = (Nlen (s_tw s) =? s_lim s) /\ s_seq s' = (s_seq s + 1) mod 256 /\
    emitted s s' [le_bytes 3 (Nlen (s_tw s)) ++ b_of_N (s_seq s) :: s_tw s].
Proof.
  intros Hf Hc. unfold end_packet. rewrite Hc. unfold t_write.
  cbn [set_seq_cont s_fault s_wops]. rewrite Hf. cbn [fault_at].
  eexists. split; [reflexivity|].
  unfold emitted.
  cbn [set_tw upd_trace set_wops set_seq_cont s_reads s_fault s_wops s_trace s_lim s_buf s_tw
       s_seq s_cont s_park length map rev app].
  repeat split. lia.
Qed.

(* ---- write1 / write_bytes ---- *)

Lemma write1_fit b s :
  Nlen (s_tw s) + 1 < s_lim s -> write1 b s = (ROk tt, set_tw (s_tw s ++ [b]) s).
Proof.
  intro H. unfold write1. rewrite s_tw_set_tw, Nlen_app.
  change (Nlen [b]) with 1.
  destruct (N.eqb_spec (Nlen (s_tw s) + 1) (s_lim s)); [lia | reflexivity].
Qed.
Lemma write1_fill b s :
  Nlen (s_tw s) + 1 = s_lim s -> write1 b s = end_packet (set_tw (s_tw s ++ [b]) s).
Proof.
  intro H. unfold write1. rewrite s_tw_set_tw, Nlen_app.
  change (Nlen [b]) with 1.
  destruct (N.eqb_spec (Nlen (s_tw s) + 1) (s_lim s)); [reflexivity | lia].
Qed.

Lemma write_bytes_fit c : forall s,
  Nlen (s_tw s) + Nlen c < s_lim s -> write_bytes c s = (ROk tt, set_tw (s_tw s ++ c) s).
Proof.
  induction c as [|b c IH]; intros s H.
  - cbn [write_bytes]. unfold ret. rewrite app_nil_r, set_tw_same. reflexivity.
  - rewrite Nlen_cons in H. cbn [write_bytes]. unfold bind.
    rewrite write1_fit by lia.
    rewrite IH.
    + rewrite s_tw_set_tw, set_tw_set_tw, <- app_assoc. reflexivity.
    + rewrite s_tw_set_tw, s_lim_set_tw, Nlen_app. change (Nlen [b]) with 1. lia.
Qed.

Lemma write_bytes_fill c : forall s,
  c <> [] -> Nlen (s_tw s) + Nlen c = s_lim s ->
  write_bytes c s = end_packet (set_tw (s_tw s ++ c) s).
Proof.
  induction c as [|b c IH]; intros s Hne H; [congruence|].
  destruct c as [|b2 c].
  - cbn [write_bytes]. rewrite bind_ret_tt. apply write1_fill.
    change (Nlen [b]) with 1 in H. exact H.
  - change (write_bytes (b :: b2 :: c)) with (write1 b ;;; write_bytes (b2 :: c)).
    rewrite Nlen_cons in H. unfold bind.
    rewrite write1_fit by (rewrite Nlen_cons in H; lia).
    rewrite IH.
    + rewrite s_tw_set_tw, set_tw_set_tw, <- app_assoc. reflexivity.
    + discriminate.
    + rewrite s_tw_set_tw, s_lim_set_tw, Nlen_app. change (Nlen [b]) with 1. lia.
Qed.

Lemma write_bytes_app a b s : write_bytes (a ++ b) s = (write_bytes a ;;; write_bytes b) s.
Proof.
  revert s. induction a as [|x a IH]; intro s.
  - reflexivity.
  - cbn [app write_bytes]. unfold bind at 1 2 3.
    destruct (write1 x s) as [[u|e|p] s1]; [|reflexivity|reflexivity].
    rewrite IH. reflexivity.
Qed.

Lemma write1_inv b s u s' :
  0 < s_lim s -> Nlen (s_tw s) < s_lim s -> write1 b s = (ROk u, s') ->
  s_lim s' = s_lim s /\ Nlen (s_tw s') < s_lim s'.
Proof.
  intros H0 H1. unfold write1. rewrite s_tw_set_tw, Nlen_app. change (Nlen [b]) with 1.
  destruct (N.eqb_spec (Nlen (s_tw s) + 1) (s_lim s)) as [E|E]; intro H.
  - apply end_packet_ok_inv in H. destruct H as [Hl Ht].
    rewrite s_lim_set_tw in Hl. rewrite Hl, Ht. split; [reflexivity | exact H0].
  - inversion H; subst s'. rewrite s_tw_set_tw, s_lim_set_tw, Nlen_app.
    change (Nlen [b]) with 1. split; [reflexivity | lia].
Qed.

Lemma write_bytes_inv c : forall s u s',
  0 < s_lim s -> Nlen (s_tw s) < s_lim s -> write_bytes c s = (ROk u, s') ->
  s_lim s' = s_lim s /\ Nlen (s_tw s') < s_lim s'.
Proof.
  induction c as [|b c IH]; intros s u s' H0 H1 H.
  - cbn [write_bytes] in H. unfold ret in H. inversion H; subst s'. split; [reflexivity | exact H1].
  - cbn [write_bytes] in H. unfold bind in H.
    destruct (write1 b s) as [[u1|e|p] s1] eqn:E; try discriminate.
    apply write1_inv in E; [|assumption|assumption]. destruct E as [El Et].
    apply IH in H; [|rewrite El; assumption|assumption].
    destruct H as [Hl Ht]. split; [congruence | exact Ht].
Qed.

(* ---- write_all ---- *)

Lemma write_all_f_S f bs s : bs <> [] -> write_all_f (S f) bs s =
  let left := N.to_nat (N.min (Nlen bs) (s_lim s - Nlen (s_tw s))) in
  let s1 := set_tw (s_tw s ++ firstn left bs) s in
  let cont := if Nat.eqb left 0 then fail EWriteZero else write_all_f f (skipn left bs) in
  if Nlen (s_tw s1) =? s_lim s then (end_packet ;;; cont) s1 else cont s1.
Proof. destruct bs; [congruence|]. reflexivity. Qed.

Lemma write_all_f_write_bytes fuel : forall bs s,
  (length bs < fuel)%nat -> 0 < s_lim s -> Nlen (s_tw s) < s_lim s ->
  write_all_f fuel bs s = write_bytes bs s.
Proof.
  induction fuel as [|f IH]; intros bs s Hf H0 H1; [lia|].
  destruct bs as [|b0 r0] eqn:Ebs; [reflexivity|].
  rewrite <- Ebs in *. assert (Hne : bs <> []) by (rewrite Ebs; discriminate).
  assert (Hlen : (1 <= length bs)%nat) by (rewrite Ebs; cbn [length]; lia).
  clear Ebs b0 r0.
  rewrite write_all_f_S by exact Hne. cbv zeta.
  set (left := N.to_nat (N.min (Nlen bs) (s_lim s - Nlen (s_tw s)))).
  assert (Hl1 : (1 <= left)%nat) by (unfold left, Nlen in *; lia).
  assert (Hl2 : (left <= length bs)%nat) by (unfold left, Nlen in *; lia).
  assert (Hl3 : Nlen (s_tw s) + N.of_nat left <= s_lim s) by (unfold left, Nlen in *; lia).
  destruct (Nat.eqb_spec left 0) as [E0|_]; [lia|].
  rewrite s_tw_set_tw.
  assert (Hfl : Nlen (firstn left bs) = N.of_nat left).
  { unfold Nlen. rewrite firstn_length_le by exact Hl2. reflexivity. }
  assert (Hsk : (length (skipn left bs) < f)%nat) by (rewrite skipn_length; lia).
  transitivity (write_bytes (firstn left bs ++ skipn left bs) s);
    [|rewrite firstn_skipn; reflexivity].
  rewrite write_bytes_app. unfold bind.
  rewrite Nlen_app, Hfl.
  destruct (N.eqb_spec (Nlen (s_tw s) + N.of_nat left) (s_lim s)) as [E|E].
  - rewrite write_bytes_fill.
    + destruct (end_packet (set_tw (s_tw s ++ firstn left bs) s)) as [[u|e|p] s2] eqn:Eep;
        [|reflexivity|reflexivity].
      apply end_packet_ok_inv in Eep. destruct Eep as [El Et]. rewrite s_lim_set_tw in El.
      apply IH; [exact Hsk | rewrite El; exact H0 | rewrite El, Et; exact H0].
    + intro Hnil. rewrite Hnil in Hfl. change (Nlen (@nil byte)) with 0 in Hfl. lia.
    + rewrite Hfl. exact E.
  - rewrite write_bytes_fit by (rewrite Hfl; lia).
    apply IH; [exact Hsk | rewrite s_lim_set_tw; exact H0|].
    rewrite s_tw_set_tw, s_lim_set_tw, Nlen_app, Hfl. lia.
Qed.

(* the chunked write loop of std::io::Write::write_all over PacketConn::write is the
   byte-at-a-time loop, whenever the buffer is not already full *)
Lemma write_all_write_bytes bs s :
  0 < s_lim s -> Nlen (s_tw s) < s_lim s -> write_all bs s = write_bytes bs s.
Proof.
  intros H0 H1. unfold write_all. apply write_all_f_write_bytes; [lia | exact H0 | exact H1].
Qed.

(* writes are insensitive to how the caller cuts the data *)
Lemma write_all_app a b s :
  0 < s_lim s -> Nlen (s_tw s) < s_lim s ->
  write_all (a ++ b) s = (write_all a ;;; write_all b) s.
Proof.
  intros H0 H1. rewrite write_all_write_bytes, write_bytes_app by assumption.
  unfold bind. rewrite write_all_write_bytes by assumption.
  destruct (write_bytes a s) as [[u|e|p] s1] eqn:E; [|reflexivity|reflexivity].
  apply write_bytes_inv in E; [|assumption|assumption]. destruct E as [El Et].
  symmetry. apply write_all_write_bytes; [rewrite El; exact H0 | exact Et].
Qed.
(* ---- canonical framing: unfolding ---- *)

Lemma frame_pkts_f_fuel f1 : forall f2 lim q p,
  0 < lim -> (length p < f1)%nat -> (length p < f2)%nat ->
  frame_pkts_f f1 lim q p = frame_pkts_f f2 lim q p.
Proof.
  induction f1 as [|f1 IH]; intros f2 lim q p H0 H1 H2; [lia|].
  destruct f2 as [|f2]; [lia|].
  cbn [frame_pkts_f].
  destruct (N.leb_spec lim (Nlen p)) as [Hle|Hlt]; [|reflexivity].
  f_equal.
  assert (Hs : (length (skipn (N.to_nat lim) p) < length p)%nat).
  { rewrite skipn_length. unfold Nlen in Hle. lia. }
  apply IH; [exact H0 | lia | lia].
Qed.

Lemma frame_pkts_unfold lim q p : 0 < lim ->
  frame_pkts lim q p =
  if lim <=? Nlen p
  then (le_bytes 3 lim ++ b_of_N q :: firstn (N.to_nat lim) p)
       :: frame_pkts lim ((q + 1) mod 256) (skipn (N.to_nat lim) p)
  else [le_bytes 3 (Nlen p) ++ b_of_N q :: p].
Proof.
  intro H0. unfold frame_pkts.
  change (frame_pkts_f (S (length p)) lim q p) with
    (if lim <=? Nlen p
     then (le_bytes 3 lim ++ b_of_N q :: firstn (N.to_nat lim) p)
          :: frame_pkts_f (length p) lim ((q + 1) mod 256) (skipn (N.to_nat lim) p)
     else [le_bytes 3 (Nlen p) ++ b_of_N q :: p]).
  destruct (N.leb_spec lim (Nlen p)) as [Hle|Hlt]; [|reflexivity].
  f_equal.
  assert (Hs : (length (skipn (N.to_nat lim) p) < length p)%nat).
  { rewrite skipn_length. unfold Nlen in Hle. lia. }
  apply frame_pkts_f_fuel; [exact H0 | lia | lia].
Qed.

(* ---- finishing a message ---- *)

(* the first [lim - |tw|] bytes of p fill a maximal packet *)
Lemma fill_step p s :
  s_fault s = WNone -> 0 < s_lim s -> Nlen (s_tw s) < s_lim s ->
  s_lim s <= Nlen (s_tw s) + Nlen p ->
  exists s1,
    write_bytes (firstn (N.to_nat (s_lim s - Nlen (s_tw s))) p) s = (ROk tt, s1) /\
    s_tw s1 = [] /\ s_cont s1 = true /\ s_seq s1 = (s_seq s + 1) mod 256 /\
    emitted s s1 [le_bytes 3 (s_lim s) ++ b_of_N (s_seq s)
                  :: firstn (N.to_nat (s_lim s)) (s_tw s ++ p)] /\
    skipn (N.to_nat (s_lim s)) (s_tw s ++ p) = skipn (N.to_nat (s_lim s - Nlen (s_tw s))) p.
Proof.
  intros Hf H0 H1 H2.
  set (k := N.to_nat (s_lim s - Nlen (s_tw s))).
  assert (Hk1 : (1 <= k)%nat) by (unfold k, Nlen in *; lia).
  assert (Hk2 : (k <= length p)%nat) by (unfold k, Nlen in *; lia).
  assert (Hk3 : (N.to_nat (s_lim s) - length (s_tw s))%nat = k) by (unfold k, Nlen in *; lia).
  assert (Hk4 : (length (s_tw s) <= N.to_nat (s_lim s))%nat) by (unfold Nlen in *; lia).
  assert (Hfl : Nlen (firstn k p) = s_lim s - Nlen (s_tw s)).
  { unfold Nlen. rewrite firstn_length_le by exact Hk2. unfold k, Nlen. lia. }
  assert (Hfirst : firstn (N.to_nat (s_lim s)) (s_tw s ++ p) = s_tw s ++ firstn k p).
  { rewrite firstn_app, Hk3, firstn_all2 by exact Hk4. reflexivity. }
  assert (Hskip : skipn (N.to_nat (s_lim s)) (s_tw s ++ p) = skipn k p).
  { rewrite skipn_app, Hk3, skipn_all2 by exact Hk4. reflexivity. }
  rewrite write_bytes_fill.
  2:{ intro Hnil. rewrite Hnil in Hfl. change (Nlen (@nil byte)) with 0 in Hfl. lia. }
  2:{ rewrite Hfl. lia. }
  set (s0 := set_tw (s_tw s ++ firstn k p) s).
  assert (Hl0 : Nlen (s_tw s0) = s_lim s).
  { unfold s0. rewrite s_tw_set_tw, Nlen_app, Hfl. lia. }
  destruct (end_packet_emit s0) as (s1 & Hep & Ht & Hc & Hq & Hem).
  - exact Hf.
  - rewrite Hl0. destruct (N.eqb_spec (s_lim s) 0); [lia | reflexivity].
  - exists s1. split; [exact Hep|]. split; [exact Ht|].
    split. { rewrite Hc, Hl0. unfold s0. rewrite s_lim_set_tw. apply N.eqb_refl. }
    split. { exact Hq. }
    split; [|exact Hskip].
    rewrite Hl0 in Hem. unfold s0 in Hem at 2 3.
    rewrite s_tw_set_tw in Hem. change (s_seq (set_tw (s_tw s ++ firstn k p) s)) with (s_seq s) in Hem.
    rewrite Hfirst. apply emitted_set_tw in Hem. exact Hem.
Qed.

Lemma npackets_step lim q l l' : 0 < lim -> Nlen l = lim + Nlen l' ->
  ((q + 1) mod 256 + npackets lim l') mod 256 = (q + npackets lim l) mod 256.
Proof.
  intros H0 Hl. unfold npackets. rewrite Hl.
  replace (lim + Nlen l') with (Nlen l' + 1 * lim) by lia.
  rewrite N.div_add by lia.
  rewrite N.add_mod_idemp_l by lia. f_equal. lia.
Qed.

Lemma finish_msg_n n : forall p s, (length p <= n)%nat ->
  s_fault s = WNone -> 0 < s_lim s -> s_seq s < 256 -> Nlen (s_tw s) < s_lim s ->
  exists s',
    (write_bytes p ;;; end_packet) s = (ROk tt, s') /\
    s_tw s' = [] /\ s_cont s' = false /\
    (if (match s_tw s ++ p with [] => true | _ => false end) && negb (s_cont s)
     then s' = s
     else emitted s s' (frame_pkts (s_lim s) (s_seq s) (s_tw s ++ p)) /\
          s_seq s' = (s_seq s + npackets (s_lim s) (s_tw s ++ p)) mod 256).
Proof.
  induction n as [|n IH]; intros p s Hn Hf H0 Hq H1.
  - (* p = [] *)
    destruct p as [|b p]; [|cbn [length] in Hn; lia].
    rewrite app_nil_r. unfold bind. cbn [write_bytes]. unfold ret.
    destruct ((Nlen (s_tw s) =? 0) && negb (s_cont s)) eqn:Ec.
    + exists s. apply Bool.andb_true_iff in Ec. destruct Ec as [E1 E2].
      apply N.eqb_eq in E1. apply Nlen_0 in E1.
      apply Bool.negb_true_iff in E2.
      split. { unfold end_packet. rewrite E1, E2. reflexivity. }
      split; [exact E1|]. split; [exact E2|].
      rewrite E1, E2. reflexivity.
    + destruct (end_packet_emit s Hf Ec) as (s' & Hep & Ht & Hc & Hs & Hem).
      exists s'. split; [exact Hep|]. split; [exact Ht|].
      split. { rewrite Hc. destruct (N.eqb_spec (Nlen (s_tw s)) (s_lim s)); [lia | reflexivity]. }
      assert (Hif : (match s_tw s with [] => true | _ :: _ => false end) && negb (s_cont s) = false).
      { destruct (s_tw s); [exact Ec | reflexivity]. }
      rewrite Hif.
      rewrite frame_pkts_unfold by exact H0.
      destruct (N.leb_spec (s_lim s) (Nlen (s_tw s))); [lia|].
      split; [exact Hem|].
      rewrite Hs. unfold npackets. rewrite N.div_small by exact H1. reflexivity.
  - destruct (N.lt_ge_cases (Nlen (s_tw s) + Nlen p) (s_lim s)) as [Hlt|Hge].
    + (* everything fits in the current packet *)
      unfold bind. rewrite write_bytes_fit by exact Hlt.
      set (s0 := set_tw (s_tw s ++ p) s).
      destruct ((Nlen (s_tw s0) =? 0) && negb (s_cont s0)) eqn:Ec.
      * apply Bool.andb_true_iff in Ec. destruct Ec as [E1 E2].
        apply N.eqb_eq in E1. apply Nlen_0 in E1.
        apply Bool.negb_true_iff in E2.
        unfold s0 in E1, E2. rewrite s_tw_set_tw in E1.
        change (s_cont (set_tw (s_tw s ++ p) s)) with (s_cont s) in E2.
        assert (Hs0 : s0 = s).
        { unfold s0. rewrite E1. apply app_eq_nil in E1. destruct E1 as [E1 _].
          rewrite <- E1 at 1. apply set_tw_same. }
        rewrite Hs0. exists s.
        apply app_eq_nil in E1 as E1'. destruct E1' as [Etw _].
        split. { unfold end_packet. rewrite Etw, E2. reflexivity. }
        split; [exact Etw|]. split; [exact E2|].
        rewrite E1, E2. reflexivity.
      * destruct (end_packet_emit s0 Hf Ec) as (s' & Hep & Ht & Hc & Hs & Hem).
        assert (Hl0 : Nlen (s_tw s0) = Nlen (s_tw s ++ p)) by reflexivity.
        exists s'. split; [exact Hep|]. split; [exact Ht|].
        split.
        { rewrite Hc, Hl0, Nlen_app. unfold s0. rewrite s_lim_set_tw.
          destruct (N.eqb_spec (Nlen (s_tw s) + Nlen p) (s_lim s)); [lia | reflexivity]. }
        assert (Hif : (match s_tw s ++ p with [] => true | _ :: _ => false end)
                      && negb (s_cont s) = false).
        { unfold s0 in Ec. rewrite s_tw_set_tw in Ec.
          change (s_cont (set_tw (s_tw s ++ p) s)) with (s_cont s) in Ec.
          destruct (s_tw s ++ p); [exact Ec | reflexivity]. }
        rewrite Hif.
        rewrite frame_pkts_unfold by exact H0.
        destruct (N.leb_spec (s_lim s) (Nlen (s_tw s ++ p))) as [Hle|_];
          [rewrite Nlen_app in Hle; lia|].
        split.
        { apply emitted_set_tw in Hem. exact Hem. }
        rewrite Hs. change (s_seq s0) with (s_seq s).
        unfold npackets. rewrite N.div_small by (rewrite Nlen_app; exact Hlt). reflexivity.
    + (* the first bytes fill a maximal packet *)
      destruct (fill_step p s Hf H0 H1 Hge) as (s1 & Hw & Ht1 & Hc1 & Hq1 & Hem1 & Hskip).
      set (k := N.to_nat (s_lim s - Nlen (s_tw s))) in *.
      assert (Hk1 : (1 <= k)%nat) by (unfold k, Nlen in *; lia).
      assert (Hlim1 : s_lim s1 = s_lim s) by (destruct Hem1 as (_ & _ & E & _); exact E).
      assert (Hf1 : s_fault s1 = WNone).
      { destruct Hem1 as (_ & E & _). rewrite E. exact Hf. }
      destruct (IH (skipn k p) s1) as (s' & Hrun & Ht & Hc & Hrest).
      * rewrite skipn_length. lia.
      * exact Hf1.
      * rewrite Hlim1. exact H0.
      * rewrite Hq1. apply N.mod_lt. lia.
      * rewrite Ht1, Hlim1. exact H0.
      * rewrite Hc1, Bool.andb_false_r, Ht1, Hlim1, Hq1 in Hrest. cbn [app] in Hrest.
        destruct Hrest as [Hem2 Hseq2].
        exists s'. split.
        { transitivity ((write_bytes (firstn k p ++ skipn k p) ;;; end_packet) s);
            [rewrite firstn_skipn; reflexivity|].
          unfold bind. rewrite write_bytes_app. unfold bind. rewrite Hw. exact Hrun. }
        split; [exact Ht|]. split; [exact Hc|].
        assert (Hlen : Nlen (s_tw s ++ p) = s_lim s + Nlen (skipn k p)).
        { rewrite Nlen_app. unfold Nlen in *. rewrite skipn_length. lia. }
        assert (Hif : (match s_tw s ++ p with [] => true | _ :: _ => false end) = false).
        { destruct (s_tw s ++ p); [|reflexivity].
          change (Nlen (@nil byte)) with 0 in Hlen. lia. }
        rewrite Hif. cbn [andb].
        rewrite frame_pkts_unfold by exact H0.
        destruct (N.leb_spec (s_lim s) (Nlen (s_tw s ++ p))) as [_|Hlt]; [|lia].
        rewrite Hskip. split.
        { apply (emitted_trans s s1 s' [_] _ Hem1 Hem2). }
        rewrite Hseq2. apply npackets_step; [exact H0 | exact Hlen].
Qed.

(* finishing a message: from any mid-message state, writing the rest and ending the packet emits
   exactly the canonical framing of the whole pending payload *)
Lemma finish_msg p s :
  s_fault s = WNone -> 0 < s_lim s -> s_seq s < 256 -> Nlen (s_tw s) < s_lim s ->
  exists s',
    (write_bytes p ;;; end_packet) s = (ROk tt, s') /\
    s_tw s' = [] /\ s_cont s' = false /\
    (if (match s_tw s ++ p with [] => true | _ => false end) && negb (s_cont s)
     then s' = s
     else emitted s s' (frame_pkts (s_lim s) (s_seq s) (s_tw s ++ p)) /\
          s_seq s' = (s_seq s + npackets (s_lim s) (s_tw s ++ p)) mod 256).
Proof. apply (finish_msg_n (length p)). apply Nat.le_refl. Qed.


(* one whole non-empty message from a clean state *)
Lemma send_frame p s :
  s_fault s = WNone -> 0 < s_lim s -> s_seq s < 256 -> s_tw s = [] -> s_cont s = false -> p <> [] ->
  exists s',
    send p s = (ROk tt, s') /\ s_tw s' = [] /\ s_cont s' = false /\
    emitted s s' (frame_pkts (s_lim s) (s_seq s) p) /\
    s_seq s' = (s_seq s + npackets (s_lim s) p) mod 256.
Proof.
  intros Hf H0 Hq Ht Hc Hne.
  assert (H1 : Nlen (s_tw s) < s_lim s) by (rewrite Ht; exact H0).
  destruct (finish_msg p s Hf H0 Hq H1) as (s' & Hrun & Ht' & Hc' & Hrest).
  rewrite Ht in Hrest. cbn [app] in Hrest.
  destruct p as [|b p]; [congruence|]. cbn [andb] in Hrest.
  exists s'. split.
  { unfold send, bind. rewrite write_all_write_bytes by assumption. exact Hrun. }
  split; [exact Ht'|]. split; [exact Hc'|]. exact Hrest.
Qed.

Lemma send_all_frame_all msgs s :
  s_fault s = WNone -> 0 < s_lim s -> s_seq s < 256 -> s_tw s = [] -> s_cont s = false ->
  Forall (fun m => m <> []) msgs ->
  exists s',
    send_all msgs s = (ROk tt, s') /\ s_tw s' = [] /\ s_cont s' = false /\
    emitted s s' (frame_all_pkts (s_lim s) (s_seq s) msgs) /\
    s_seq s' = seq_after (s_lim s) (s_seq s) msgs.
Proof.
  revert s. induction msgs as [|m r IH]; intros s Hf H0 Hq Ht Hc Hall.
  - exists s. cbn [send_all frame_all_pkts seq_after]. unfold ret.
    split; [reflexivity|]. split; [exact Ht|]. split; [exact Hc|].
    split; [apply emitted_refl | reflexivity].
  - inversion Hall as [|m' r' Hm Hr]; subst m' r'.
    destruct (send_frame m s Hf H0 Hq Ht Hc Hm) as (s1 & Hrun1 & Ht1 & Hc1 & Hem1 & Hq1).
    assert (Hlim1 : s_lim s1 = s_lim s) by (destruct Hem1 as (_ & _ & E & _); exact E).
    assert (Hf1 : s_fault s1 = WNone).
    { destruct Hem1 as (_ & E & _). rewrite E. exact Hf. }
    destruct (IH s1) as (s' & Hrun & Ht' & Hc' & Hem & Hq').
    + exact Hf1.
    + rewrite Hlim1. exact H0.
    + rewrite Hq1. apply N.mod_lt. lia.
    + exact Ht1.
    + exact Hc1.
    + exact Hr.
    + rewrite Hlim1, Hq1 in Hem, Hq'.
      exists s'. cbn [send_all frame_all_pkts seq_after].
      split. { unfold bind. rewrite Hrun1. exact Hrun. }
      split; [exact Ht'|]. split; [exact Hc'|].
      split; [exact (emitted_trans _ _ _ _ _ Hem1 Hem) | exact Hq'].
Qed.

(* ---- the canonical framing is what a client reassembles ---- *)

Lemma frame_pkts_count_n n : forall lim q p, (length p <= n)%nat -> 0 < lim ->
  Nlen (frame_pkts lim q p) = npackets lim p.
Proof.
  induction n as [|n IH]; intros lim q p Hn H0; rewrite frame_pkts_unfold by exact H0;
    unfold npackets;
    (destruct (N.leb_spec lim (Nlen p)) as [Hle|Hlt];
      [|rewrite N.div_small by exact Hlt; reflexivity]).
  - unfold Nlen in Hle. lia.
  - rewrite Nlen_cons, IH; [|rewrite skipn_length; unfold Nlen in Hle; lia | exact H0].
    unfold npackets.
    assert (Hl : Nlen p = Nlen (skipn (N.to_nat lim) p) + 1 * lim).
    { unfold Nlen in *. rewrite skipn_length. lia. }
    rewrite Hl at 1. rewrite N.div_add by lia. reflexivity.
Qed.

Lemma frame_pkts_count lim q p : 0 < lim -> Nlen (frame_pkts lim q p) = npackets lim p.
Proof. apply (frame_pkts_count_n (length p)). apply Nat.le_refl. Qed.
Lemma b_of_N_mod x : b_of_N (x mod 256) = b_of_N x.
Proof. unfold b_of_N. rewrite N.mod_mod by lia. reflexivity. Qed.

Lemma shape_shift lim q bodies : forall k,
  map (fun '(i, b) => le_bytes 3 lim ++ b_of_N (((q + 1) mod 256 + N.of_nat i) mod 256) :: b)
      (combine (seq k (length bodies)) bodies) =
  map (fun '(i, b) => le_bytes 3 lim ++ b_of_N ((q + N.of_nat i) mod 256) :: b)
      (combine (seq (S k) (length bodies)) bodies).
Proof.
  induction bodies as [|x bodies IH]; intro k.
  - reflexivity.
  - cbn [length seq combine map]. f_equal.
    + replace (((q + 1) mod 256 + N.of_nat k) mod 256) with ((q + N.of_nat (S k)) mod 256);
        [reflexivity|].
      rewrite N.add_mod_idemp_l by lia. f_equal. lia.
    + apply IH.
Qed.

Lemma frame_pkts_shape_n n : forall lim q p, (length p <= n)%nat -> 0 < lim ->
  exists bodies last,
    p = concat bodies ++ last /\ Forall (fun b => Nlen b = lim) bodies /\ Nlen last < lim /\
    frame_pkts lim q p =
      map (fun '(i, b) => le_bytes 3 lim ++ b_of_N ((q + N.of_nat i) mod 256) :: b)
          (combine (seq 0 (length bodies)) bodies)
      ++ [le_bytes 3 (Nlen last) ++ b_of_N ((q + Nlen bodies) mod 256) :: last].
Proof.
  induction n as [|n IH]; intros lim q p Hn H0; rewrite frame_pkts_unfold by exact H0;
    destruct (N.leb_spec lim (Nlen p)) as [Hle|Hlt].
  - unfold Nlen in Hle. lia.
  - exists [], p. cbn [concat app length seq combine map].
    split; [reflexivity|]. split; [constructor|]. split; [exact Hlt|].
    change (Nlen (@nil bytes)) with 0. rewrite N.add_0_r, b_of_N_mod. reflexivity.
  - destruct (IH lim ((q + 1) mod 256) (skipn (N.to_nat lim) p)) as (bodies & last & Hp & Hall & Hlast & Hfr).
    { rewrite skipn_length. unfold Nlen in Hle. lia. }
    { exact H0. }
    exists (firstn (N.to_nat lim) p :: bodies), last.
    split. { cbn [concat]. rewrite <- app_assoc, <- Hp. symmetry. apply firstn_skipn. }
    split. { constructor; [|exact Hall]. unfold Nlen in *. rewrite firstn_length_le by lia. lia. }
    split; [exact Hlast|].
    rewrite Hfr. cbn [length seq combine map app]. f_equal.
    + change (N.of_nat 0) with 0. rewrite N.add_0_r, b_of_N_mod. reflexivity.
    + rewrite shape_shift.
      replace (((q + 1) mod 256 + Nlen bodies) mod 256)
        with ((q + Nlen (firstn (N.to_nat lim) p :: bodies)) mod 256); [reflexivity|].
      rewrite N.add_mod_idemp_l by lia. rewrite Nlen_cons. f_equal. lia.
  - exists [], p. cbn [concat app length seq combine map].
    split; [reflexivity|]. split; [constructor|]. split; [exact Hlt|].
    change (Nlen (@nil bytes)) with 0. rewrite N.add_0_r, b_of_N_mod. reflexivity.
Qed.

(* every packet of the framing has a header length equal to its payload length, non-final
   packets are maximal, the final one is shorter *)
Lemma frame_pkts_shape lim q p : 0 < lim -> lim < 2 ^ 24 -> q < 256 ->
  exists bodies last,
    p = concat bodies ++ last /\ Forall (fun b => Nlen b = lim) bodies /\ Nlen last < lim /\
    frame_pkts lim q p =
      map (fun '(i, b) => le_bytes 3 lim ++ b_of_N ((q + N.of_nat i) mod 256) :: b)
          (combine (seq 0 (length bodies)) bodies)
      ++ [le_bytes 3 (Nlen last) ++ b_of_N ((q + Nlen bodies) mod 256) :: last].
Proof. intros H0 _ _. apply (frame_pkts_shape_n (length p)); [apply Nat.le_refl | exact H0]. Qed.

(* ---- deframe ---- *)

Definition cur_ok (cur : option (N * N * bytes)) (q : N) : Prop :=
  match cur with None => True | Some (_, prev, _) => q = (prev + 1) mod 256 end.
Definition cur_first (cur : option (N * N * bytes)) (q : N) : N :=
  match cur with None => q | Some (f0, _, _) => f0 end.
Definition cur_pay (cur : option (N * N * bytes)) : bytes :=
  match cur with None => [] | Some (_, _, p) => p end.

Lemma deframe_f_S f lim cur a b c q r :
  deframe_f (S f) lim cur (a :: b :: c :: q :: r) =
  let len := le_val [a; b; c] in
  match take_cnt r len with
  | None => None
  | Some (body, rest) =>
    let ok := match cur with
              | None => true
              | Some (_, prev, _) => N_of_b q =? (prev + 1) mod 256 end in
    if negb ok then None else
    let '(q0, p0) := match cur with None => (N_of_b q, []) | Some (f0, _, p) => (f0, p) end in
    if len =? lim then deframe_f f lim (Some (q0, N_of_b q, p0 ++ body)) rest
    else match deframe_f f lim None rest with
         | Some l => Some ((q0, N_of_b q, p0 ++ body) :: l)
         | None => None
         end
  end.
Proof. reflexivity. Qed.

Lemma pow_3_24 : 256 ^ N.of_nat 3 = 2 ^ 24.
Proof. reflexivity. Qed.

Lemma deframe_f_step f lim cur len q body rest :
  len = Nlen body -> len < 2 ^ 24 -> q < 256 -> cur_ok cur q ->
  deframe_f (S f) lim cur ((le_bytes 3 len ++ b_of_N q :: body) ++ rest) =
  if len =? lim then deframe_f f lim (Some (cur_first cur q, q, cur_pay cur ++ body)) rest
  else match deframe_f f lim None rest with
       | Some l => Some ((cur_first cur q, q, cur_pay cur ++ body) :: l)
       | None => None
       end.
Proof.
  intros Hlen Hlt Hq Hok.
  assert (Hv : le_val (le_bytes 3 len) = len) by (apply le_val_le_bytes; rewrite pow_3_24; exact Hlt).
  assert (Hqq : N_of_b (b_of_N q) = q) by (rewrite N_of_b_of_N; apply N.mod_small; exact Hq).
  cbn [le_bytes app] in *. rewrite deframe_f_S. cbv zeta.
  rewrite Hv, Hqq. rewrite Hlen at 1. rewrite take_cnt_app.
  destruct cur as [[[f0 prev] p0]|]; cbn [cur_ok cur_first cur_pay] in *.
  - rewrite <- Hok, N.eqb_refl. cbn [negb]. reflexivity.
  - cbn [negb]. reflexivity.
Qed.

Lemma deframe_f_enough lim f' : forall f cur i l,
  deframe_f f lim cur i = Some l -> (length i < f')%nat -> deframe_f f' lim cur i = Some l.
Proof.
  induction f' as [|f' IH]; intros f cur i l H Hl; [lia|].
  destruct f as [|f]; [discriminate H|].
  destruct i as [|a [|b [|c [|q r]]]]; try exact H.
  rewrite deframe_f_S in *. cbv zeta in *.
  destruct (take_cnt r (le_val [a; b; c])) as [[body rest]|] eqn:Et; [|discriminate H].
  assert (Hr : (length rest < f')%nat).
  { rewrite take_cnt_spec in Et. destruct (le_val [a; b; c] <=? Nlen r); [|discriminate Et].
    inversion Et; subst rest. rewrite skipn_length. cbn [length] in Hl. lia. }
  destruct (negb _); [discriminate H|].
  destruct (match cur with None => (N_of_b q, []) | Some (f0, _, p) => (f0, p) end) as [q0 p0].
  destruct (le_val [a; b; c] =? lim).
  - eapply IH; [exact H | exact Hr].
  - destruct (deframe_f f lim None rest) as [l0|] eqn:E; [|discriminate H].
    rewrite (IH _ _ _ _ E Hr). exact H.
Qed.

Lemma last_seq_step lim q p p' : 0 < lim -> Nlen p = lim + Nlen p' ->
  last_seq lim ((q + 1) mod 256) p' = last_seq lim q p.
Proof.
  intros H0 Hl. unfold last_seq. rewrite Hl.
  replace (lim + Nlen p') with (Nlen p' + 1 * lim) by lia.
  rewrite N.div_add by lia.
  rewrite N.add_mod_idemp_l by lia. f_equal. lia.
Qed.

Lemma deframe_frame_gen lim f0 rest rest_msgs :
  0 < lim -> lim < 2 ^ 24 -> deframe_f f0 lim None rest = Some rest_msgs ->
  forall n p q cur, (length p <= n)%nat -> q < 256 -> cur_ok cur q ->
  exists f, deframe_f f lim cur (frame lim q p ++ rest) =
            Some ((cur_first cur q, last_seq lim q p, cur_pay cur ++ p) :: rest_msgs).
Proof.
  intros H0 Hlim Hrest.
  induction n as [|n IH]; intros p q cur Hn Hq Hok; unfold frame;
    rewrite frame_pkts_unfold by exact H0;
    destruct (N.leb_spec lim (Nlen p)) as [Hle|Hlt].
  - unfold Nlen in Hle. lia.
  - exists (S f0). cbn [concat]. rewrite app_nil_r.
    rewrite deframe_f_step; [|reflexivity | lia | exact Hq | exact Hok].
    destruct (N.eqb_spec (Nlen p) lim); [lia|].
    rewrite Hrest. unfold last_seq. rewrite N.div_small by exact Hlt.
    rewrite N.add_0_r, N.mod_small by exact Hq. reflexivity.
  - set (body := firstn (N.to_nat lim) p). set (p' := skipn (N.to_nat lim) p).
    assert (Hb : lim = Nlen body).
    { unfold body, Nlen in *. rewrite firstn_length_le by lia. lia. }
    assert (Hp : p = body ++ p') by (symmetry; apply firstn_skipn).
    assert (Hl : Nlen p = lim + Nlen p') by (rewrite Hp at 1; rewrite Nlen_app; lia).
    destruct (IH p' ((q + 1) mod 256) (Some (cur_first cur q, q, cur_pay cur ++ body)))
      as (f & Hf).
    { unfold p'. rewrite skipn_length. unfold Nlen in Hle. lia. }
    { apply N.mod_lt. lia. }
    { reflexivity. }
    exists (S f). cbn [concat]. rewrite <- app_assoc.
    rewrite deframe_f_step; [|exact Hb | exact Hlim | exact Hq | exact Hok].
    rewrite N.eqb_refl. unfold frame in Hf. rewrite Hf.
    cbn [cur_first cur_pay]. rewrite (last_seq_step lim q p p' H0 Hl), <- app_assoc, <- Hp.
    reflexivity.
  - exists (S f0). cbn [concat]. rewrite app_nil_r.
    rewrite deframe_f_step; [|reflexivity | lia | exact Hq | exact Hok].
    destruct (N.eqb_spec (Nlen p) lim); [lia|].
    rewrite Hrest. unfold last_seq. rewrite N.div_small by exact Hlt.
    rewrite N.add_0_r, N.mod_small by exact Hq. reflexivity.
Qed.

Lemma deframe_frame lim q p rest_msgs rest :
  0 < lim -> lim < 2 ^ 24 -> q < 256 ->
  deframe lim rest = Some rest_msgs ->
  deframe lim (frame lim q p ++ rest) = Some ((q, last_seq lim q p, p) :: rest_msgs).
Proof.
  intros H0 Hlim Hq Hrest. unfold deframe in *.
  destruct (deframe_frame_gen lim _ rest rest_msgs H0 Hlim Hrest (length p) p q None)
    as (f & Hf); [apply Nat.le_refl | exact Hq | exact I |].
  cbn [cur_first cur_pay app] in Hf.
  eapply deframe_f_enough; [exact Hf | lia].
Qed.

Lemma deframe_frame_all lim q msgs :
  0 < lim -> lim < 2 ^ 24 -> q < 256 ->
  exists l, deframe lim (frame_all lim q msgs) = Some l /\ map (fun x => snd x) l = msgs.
Proof.
  intros H0 Hlim. revert q. induction msgs as [|m r IH]; intros q Hq.
  - exists []. split; reflexivity.
  - destruct (IH ((q + npackets lim m) mod 256)) as (l & Hl & Hm).
    { apply N.mod_lt. lia. }
    exists ((q, last_seq lim q m, m) :: l). split.
    + unfold frame_all. cbn [frame_all_pkts]. rewrite concat_app.
      apply (deframe_frame lim q m l _ H0 Hlim Hq Hl).
    + cbn [map snd]. rewrite Hm. reflexivity.
Qed.

Print Assumptions finish_msg.
Print Assumptions send_all_frame_all.
Print Assumptions write_all_app.
Print Assumptions frame_pkts_shape.
Print Assumptions deframe_frame.
Print Assumptions deframe_frame_all.
