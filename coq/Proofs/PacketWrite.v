(* Outbound side of PacketConn: what write_all / end_packet / send put on the transport when no
   fault is injected.  Proofs only (statements are fixed; helper lemmas may be added). *)
From MsqlVerif Require Import Model.Packet Spec.Frame Proofs.BaseLemmas.
From Coq Require Import Lia.
Open Scope N_scope.

(* state after emitting packets [pkts] (oldest first): only trace, write counter, buffer and
   sequence/continuation change *)
Definition emitted (s s' : st) (pkts : list bytes) : Prop :=
  s_reads s' = s_reads s /\ s_fault s' = s_fault s /\ s_lim s' = s_lim s /\ s_buf s' = s_buf s /\
  s_park s' = s_park s /\ s_wops s' = (s_wops s + length pkts)%nat /\
  s_trace s' = rev (map EWrite pkts) ++ s_trace s.

(* the chunked write loop of std::io::Write::write_all over PacketConn::write is the
   byte-at-a-time loop, whenever the buffer is not already full *)
Lemma write_all_write_bytes bs s :
  0 < s_lim s -> Nlen (s_tw s) < s_lim s -> write_all bs s = write_bytes bs s.
Admitted.

Lemma write_bytes_app a b s : write_bytes (a ++ b) s = (write_bytes a ;;; write_bytes b) s.
Admitted.

(* writes are insensitive to how the caller cuts the data *)
Lemma write_all_app a b s :
  0 < s_lim s -> Nlen (s_tw s) < s_lim s ->
  write_all (a ++ b) s = (write_all a ;;; write_all b) s.
Admitted.

(* finishing a message: from any mid-message state, writing the rest and ending the packet emits
   exactly the canonical framing of the whole pending payload *)
Lemma finish_msg p s :
  s_fault s = WNone -> 0 < s_lim s -> s_seq s < 256 -> Nlen (s_tw s) < s_lim s ->
  exists s',
    (write_bytes p ;;; end_packet) s = (ROk tt, s') /\
    s_tw s' = [] /\ s_cont s' = false /\
    (if (match s_tw s ++ p with [] => true | _ => false end) && negb (s_cont s)
     then s' = s
     else emitted s s' (frame_pkts (s_lim s) (s_seq s) (s_tw s ++ p)) /\
          s_seq s' = (s_seq s + npackets (s_lim s) (s_tw s ++ p)) mod 256).
Admitted.


(* one whole non-empty message from a clean state *)
Lemma send_frame p s :
  s_fault s = WNone -> 0 < s_lim s -> s_seq s < 256 -> s_tw s = [] -> s_cont s = false -> p <> [] ->
  exists s',
    send p s = (ROk tt, s') /\ s_tw s' = [] /\ s_cont s' = false /\
    emitted s s' (frame_pkts (s_lim s) (s_seq s) p) /\
    s_seq s' = (s_seq s + npackets (s_lim s) p) mod 256.
Admitted.

Lemma send_all_frame_all msgs s :
  s_fault s = WNone -> 0 < s_lim s -> s_seq s < 256 -> s_tw s = [] -> s_cont s = false ->
  Forall (fun m => m <> []) msgs ->
  exists s',
    send_all msgs s = (ROk tt, s') /\ s_tw s' = [] /\ s_cont s' = false /\
    emitted s s' (frame_all_pkts (s_lim s) (s_seq s) msgs) /\
    s_seq s' = seq_after (s_lim s) (s_seq s) msgs.
Admitted.

(* ---- the canonical framing is what a client reassembles ---- *)

Lemma frame_pkts_count lim q p : 0 < lim -> Nlen (frame_pkts lim q p) = npackets lim p.
Admitted.

(* every packet of the framing has a header length equal to its payload length, non-final
   packets are maximal, the final one is shorter *)
Lemma frame_pkts_shape lim q p : 0 < lim -> lim < 2 ^ 24 -> q < 256 ->
  exists bodies last,
    p = concat bodies ++ last /\ Forall (fun b => Nlen b = lim) bodies /\ Nlen last < lim /\
    frame_pkts lim q p =
      map (fun '(i, b) => le_bytes 3 lim ++ b_of_N ((q + N.of_nat i) mod 256) :: b)
          (combine (seq 0 (length bodies)) bodies)
      ++ [le_bytes 3 (Nlen last) ++ b_of_N ((q + Nlen bodies) mod 256) :: last].
Admitted.

Lemma deframe_frame lim q p rest_msgs rest :
  0 < lim -> lim < 2 ^ 24 -> q < 256 ->
  deframe lim rest = Some rest_msgs ->
  deframe lim (frame lim q p ++ rest) = Some ((q, last_seq lim q p, p) :: rest_msgs).
Admitted.

Lemma deframe_frame_all lim q msgs :
  0 < lim -> lim < 2 ^ 24 -> q < 256 ->
  exists l, deframe lim (frame_all lim q msgs) = Some l /\ map (fun x => snd x) l = msgs.
Admitted.
