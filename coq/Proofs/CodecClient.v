(* The packet encoders of writers.rs against the client decoders of Spec/Client.v:
   every OK / EOF / ERR / column-definition packet the server builds is decoded by a conformant
   client to exactly the fields it was built from.  Proofs only. *)
From MsqlVerif Require Import Model.Codec Spec.Client Proofs.BaseLemmas.
From Coq Require Import Lia.
Open Scope N_scope.

(* length-encoded integers: all four size classes *)
(* ---- helpers ---- *)
Lemma pow256_1 : 256 ^ N.of_nat 1 = 256. Proof. reflexivity. Qed.
Lemma pow256_2 : 256 ^ N.of_nat 2 = 65536. Proof. reflexivity. Qed.
Lemma pow256_3 : 256 ^ N.of_nat 3 = 16777216. Proof. reflexivity. Qed.
Lemma pow256_4 : 256 ^ N.of_nat 4 = 2 ^ 32. Proof. reflexivity. Qed.
Lemma pow256_8 : 256 ^ N.of_nat 8 = 2 ^ 64. Proof. reflexivity. Qed.
Lemma pow2_24 : 2 ^ 24 = 16777216. Proof. reflexivity. Qed.
Lemma pow2_64 : 2 ^ 64 = 18446744073709551616. Proof. reflexivity. Qed.
Lemma Nlen_to_nat {A} (l : list A) : N.to_nat (Nlen l) = length l.
Proof. unfold Nlen. apply Nat2N.id. Qed.

Lemma c_take_le n x rest : c_take n (le_bytes n x ++ rest) = Some (le_bytes n x, rest).
Proof. unfold c_take. apply take_n_app, le_bytes_length. Qed.
Lemma c_take_1 b rest : c_take 1 (b :: rest) = Some ([b], rest).
Proof. reflexivity. Qed.
Lemma c_take_3 a b c rest : c_take 3 ([a] ++ [b; c] ++ rest) = Some ([a; b; c], rest).
Proof. reflexivity. Qed.

Lemma c_lenenc_small b r : N_of_b b < 251 -> c_lenenc (b :: r) = Some (N_of_b b, r).
Proof.
  intro H. cbn [c_lenenc]. destruct (N.ltb_spec (N_of_b b) 251); [reflexivity | lia].
Qed.
Lemma c_lenenc_fc r :
  c_lenenc (xfc :: r) = obind (c_take 2 r) (fun '(v, r') => Some (le_val v, r')).
Proof. reflexivity. Qed.
Lemma c_lenenc_fd r :
  c_lenenc (xfd :: r) = obind (c_take 3 r) (fun '(v, r') => Some (le_val v, r')).
Proof. reflexivity. Qed.
Lemma c_lenenc_fe r :
  c_lenenc (xfe :: r) = obind (c_take 8 r) (fun '(v, r') => Some (le_val v, r')).
Proof. reflexivity. Qed.

Lemma lenenc_roundtrip x rest : x < 2 ^ 64 -> c_lenenc (lenenc x ++ rest) = Some (x, rest).
Proof.
  intro Hx. unfold lenenc.
  destruct (N.ltb_spec x 251) as [H1|H1].
  - assert (Hv : N_of_b (b_of_N x) = x) by (rewrite N_of_b_of_N; apply N.mod_small; lia).
    cbn [app]. rewrite c_lenenc_small by (rewrite Hv; exact H1). rewrite Hv. reflexivity.
  - destruct (N.ltb_spec x 65536) as [H2|H2].
    + cbn [app]. rewrite c_lenenc_fc, c_take_le. cbn [obind].
      rewrite le_val_le_bytes by (rewrite pow256_2; exact H2). reflexivity.
    + destruct (N.ltb_spec x 16777216) as [H3|H3].
      * cbn [app]. rewrite c_lenenc_fd, c_take_le. cbn [obind].
        rewrite le_val_le_bytes by (rewrite pow256_3; exact H3). reflexivity.
      * cbn [app]. rewrite c_lenenc_fe, c_take_le. cbn [obind].
        rewrite le_val_le_bytes by (rewrite pow256_8; exact Hx). reflexivity.
Qed.
Lemma lenenc_nonempty x : lenenc x <> [].
Proof.
  unfold lenenc.
  destruct (x <? 251); [discriminate|].
  destruct (x <? 65536); [discriminate|].
  destruct (x <? 16777216); discriminate.
Qed.
(* the first byte of a length-encoded integer is never 0xfb (NULL) or 0xff (ERR) *)
Lemma lenenc_head x : x < 2 ^ 64 ->
  exists b r, lenenc x = b :: r /\ b <> xfb /\ b <> xff /\ (b = x00 <-> x = 0) /\ (b = xfe -> 2 ^ 24 <= x).
Proof.
  intro Hx. rewrite pow2_24. unfold lenenc.
  destruct (N.ltb_spec x 251) as [H1|H1].
  - exists (b_of_N x), []. split; [reflexivity|].
    assert (Hv : N_of_b (b_of_N x) = x) by (rewrite N_of_b_of_N; apply N.mod_small; lia).
    repeat split.
    + intro E. rewrite E in Hv. change (N_of_b xfb) with 251 in Hv. lia.
    + intro E. rewrite E in Hv. change (N_of_b xff) with 255 in Hv. lia.
    + intro E. rewrite E in Hv. change (N_of_b x00) with 0 in Hv. lia.
    + intros ->. reflexivity.
    + intro E. rewrite E in Hv. change (N_of_b xfe) with 254 in Hv. lia.
  - destruct (N.ltb_spec x 65536) as [H2|H2].
    + exists xfc, (le_bytes 2 x). split; [reflexivity|].
      repeat split; try discriminate. intros ->. lia.
    + destruct (N.ltb_spec x 16777216) as [H3|H3].
      * exists xfd, (le_bytes 3 x). split; [reflexivity|].
        repeat split; try discriminate. intros ->. lia.
      * exists xfe, (le_bytes 8 x). split; [reflexivity|].
        repeat split; try discriminate. { intros ->. lia. } intros _. exact H3.
Qed.
Lemma lenenc_str_roundtrip bs rest :
  Nlen bs < 2 ^ 64 -> c_lenenc_str (lenenc_str bs ++ rest) = Some (bs, rest).
Proof.
  intro H. unfold c_lenenc_str, lenenc_str. rewrite <- app_assoc.
  rewrite lenenc_roundtrip by exact H. cbn [obind]. apply take_cnt_app.
Qed.

(* OK packet: affected rows, last insert id, status flags *)
Lemma c_ok_x00 r :
  c_ok (x00 :: r) =
    obind (c_lenenc r) (fun '(rows, r1) =>
    obind (c_lenenc r1) (fun '(id, r2) =>
    obind (c_take 2 r2) (fun '(stat, r3) =>
    obind (c_take 2 r3) (fun '(warn, _) =>
      Some {| ok_rows := rows; ok_id := id; ok_status := le_val stat; ok_warnings := le_val warn |})))).
Proof. reflexivity. Qed.
Lemma c_take_2_nil a b : c_take 2 [a; b] = Some ([a; b], []).
Proof. reflexivity. Qed.

Lemma ok_roundtrip rows id status :
  rows < 2 ^ 64 -> id < 2 ^ 64 -> status < 65536 ->
  c_ok (ok_body rows id status) =
    Some {| ok_rows := rows; ok_id := id; ok_status := status; ok_warnings := 0 |}.
Proof.
  intros Hr Hi Hs. unfold ok_body. rewrite c_ok_x00.
  rewrite lenenc_roundtrip by exact Hr. cbn [obind].
  rewrite lenenc_roundtrip by exact Hi. cbn [obind].
  rewrite c_take_le. cbn [obind].
  rewrite c_take_2_nil. cbn [obind].
  rewrite le_val_le_bytes by (rewrite pow256_2; exact Hs). reflexivity.
Qed.
Lemma ok_head rows id status : exists r, ok_body rows id status = x00 :: r.
Proof. eexists. reflexivity. Qed.

Lemma c_eof_body status : c_eof (eof_body status) = Some (le_val (le_bytes 2 status)).
Proof. reflexivity. Qed.
Lemma eof_roundtrip status : status < 65536 -> c_eof (eof_body status) = Some status.
Proof.
  intro Hs. rewrite c_eof_body.
  rewrite le_val_le_bytes by (rewrite pow256_2; exact Hs). reflexivity.
Qed.
Lemma eof_shape status : exists r, eof_body status = xfe :: r /\ length (eof_body status) = 5%nat.
Proof. eexists. split; reflexivity. Qed.

(* ERR packet: code, SQLSTATE, message bytes unchanged (any message) *)
Lemma c_err_unfold code s0 s1 s2 s3 s4 msg :
  c_err (xff :: le_bytes 2 code ++ x23 :: [s0; s1; s2; s3; s4] ++ msg) =
    Some {| err_code := le_val (le_bytes 2 code); err_state := [s0; s1; s2; s3; s4]; err_msg := msg |}.
Proof. reflexivity. Qed.
Lemma err_roundtrip code state msg :
  code < 65536 -> length state = 5%nat ->
  c_err (err_body code state msg) = Some {| err_code := code; err_state := state; err_msg := msg |}.
Proof.
  intros Hc Hl.
  destruct state as [|s0 [|s1 [|s2 [|s3 [|s4 [|s5 state]]]]]]; try discriminate Hl.
  unfold err_body. rewrite c_err_unfold.
  rewrite le_val_le_bytes by (rewrite pow256_2; exact Hc). reflexivity.
Qed.
Lemma err_head code state msg : exists r, err_body code state msg = xff :: r.
Proof. eexists. reflexivity. Qed.

(* column definition: table, name, type, flags; names of any content and length *)
Lemma coldef_roundtrip c fl :
  Nlen (c_table c) < 2 ^ 64 -> Nlen (c_name c) < 2 ^ 64 -> c_type c < 256 -> c_flags c < 65536 ->
  c_coldef (coldef_body c fl) = Some c.
Proof.
  intros Ht Hn Hty Hfl. destruct c as [tbl nm ty flg]. cbn [c_table c_name c_type c_flags] in *.
  unfold coldef_body, c_coldef. cbn [c_table c_name c_type c_flags].
  rewrite (lenenc_str_roundtrip def_str) by (rewrite pow2_64; reflexivity). cbn [obind].
  change (bytes_eqb def_str def_str) with true. cbn [negb].
  rewrite (lenenc_str_roundtrip []) by (rewrite pow2_64; reflexivity). cbn [obind].
  rewrite (lenenc_str_roundtrip tbl) by exact Ht. cbn [obind].
  rewrite (lenenc_str_roundtrip []) by (rewrite pow2_64; reflexivity). cbn [obind].
  rewrite (lenenc_str_roundtrip nm) by exact Hn. cbn [obind].
  rewrite (lenenc_str_roundtrip []) by (rewrite pow2_64; reflexivity). cbn [obind].
  rewrite (lenenc_roundtrip 12) by (rewrite pow2_64; reflexivity). cbn [obind].
  change (12 =? 12) with true. cbn [negb].
  rewrite c_take_le. cbn [obind].
  rewrite c_take_le. cbn [obind].
  rewrite c_take_1. cbn [obind].
  rewrite c_take_le. cbn [obind].
  rewrite c_take_3. cbn [obind].
  rewrite le_val_le_bytes by (rewrite pow256_2; exact Hfl).
  cbn [le_val]. rewrite N_of_b_of_N, N.mod_small by exact Hty.
  rewrite N.mul_0_r, N.add_0_r. reflexivity.
Qed.
(* a column definition never looks like EOF / ERR / OK to the client: it starts with 0x03 *)
Lemma coldef_head c fl : exists r, coldef_body c fl = x03 :: r.
Proof. eexists. reflexivity. Qed.

Definition col_ok (c : column) : Prop :=
  Nlen (c_table c) < 2 ^ 64 /\ Nlen (c_name c) < 2 ^ 64 /\ c_type c < 256 /\ c_flags c < 65536.

(* n column definitions in a row are read back in order; what follows is untouched *)
Lemma coldefs_roundtrip cs fl rest :
  Forall col_ok cs ->
  c_coldefs (length cs) (map (fun c => coldef_body c fl) cs ++ rest) = Some (cs, rest).
Proof.
  intro H. induction H as [|c cs Hc Hcs IH]; cbn [length map app c_coldefs].
  - reflexivity.
  - destruct Hc as (H1 & H2 & H3 & H4).
    rewrite coldef_roundtrip by assumption. cbn [obind]. rewrite IH. reflexivity.
Qed.

(* resultset header as written by column_definitions: count packet, definitions, EOF *)
Lemma column_definitions_shape cs :
  column_definitions_msgs cs = lenenc (Nlen cs) :: map (fun c => coldef_body c false) cs ++ [eof_body 0].
Proof.
  unfold column_definitions_msgs, coldefs_msgs. destruct cs; reflexivity.
Qed.

(* reply to PREPARE: header, parameter definitions (+EOF iff any), column definitions (+EOF iff any) *)
(* the "n definitions, then EOF iff n > 0" reader inside c_prepare_ok *)
Definition defs_of (n : nat) (msgs : list bytes) : option (list column * list bytes) :=
  match n with
  | O => Some ([], msgs)
  | _ => obind (c_coldefs n msgs) (fun '(cs, rest) =>
         match rest with
         | e :: rest' => obind (c_eof e) (fun _ => Some (cs, rest'))
         | [] => None end)
  end.
Lemma defs_of_pos n msgs : n <> O ->
  defs_of n msgs = obind (c_coldefs n msgs) (fun '(cs, rest) =>
         match rest with
         | e :: rest' => obind (c_eof e) (fun _ => Some (cs, rest'))
         | [] => None end).
Proof. destruct n; [congruence | reflexivity]. Qed.
Lemma defs_roundtrip cs rest :
  Forall col_ok cs -> defs_of (length cs) (coldefs_msgs cs false true ++ rest) = Some (cs, rest).
Proof.
  intro F. destruct cs as [|c cs].
  - reflexivity.
  - rewrite defs_of_pos by discriminate. unfold coldefs_msgs. rewrite <- app_assoc.
    rewrite coldefs_roundtrip by exact F. cbn [obind app].
    rewrite eof_roundtrip by reflexivity. reflexivity.
Qed.
Lemma prepare_ok_body_decode id nc np r :
  c_prepare_ok (prepare_ok_body id nc np :: r) =
    obind (defs_of (N.to_nat (le_val (le_bytes 2 np))) r) (fun '(ps, r1) =>
    obind (defs_of (N.to_nat (le_val (le_bytes 2 nc))) r1) (fun '(cs, r2) =>
      Some ({| pk_id := le_val (le_bytes 4 id); pk_params := ps; pk_cols := cs |}, r2))).
Proof. reflexivity. Qed.

Lemma prepare_ok_roundtrip id params cols rest :
  id < 2 ^ 32 -> Nlen params < 65536 -> Nlen cols < 65536 ->
  Forall col_ok params -> Forall col_ok cols ->
  c_prepare_ok (prepare_ok_msgs id params cols ++ rest) =
    Some ({| pk_id := id; pk_params := params; pk_cols := cols |}, rest).
Proof.
  intros Hid Hp Hc Fp Fc. unfold prepare_ok_msgs.
  rewrite !N.mod_small by assumption.
  rewrite <- app_comm_cons, <- app_assoc, prepare_ok_body_decode.
  rewrite !le_val_le_bytes by (rewrite ?pow256_2, ?pow256_4; assumption).
  rewrite !Nlen_to_nat.
  rewrite defs_roundtrip by exact Fp. cbn [obind].
  rewrite defs_roundtrip by exact Fc. cbn [obind]. reflexivity.
Qed.

(* the greeting, for both configurations *)
Lemma greeting_roundtrip tls :
  exists g, c_greeting (greeting_body tls) = Some g /\
    g_proto g = 10 /\ has_flag (g_caps g) CLIENT_PROTOCOL_41 = true /\
    has_flag (g_caps g) CLIENT_SSL = tls /\ g_charset g = 33 /\ g_status g = 0.
Proof.
  destruct tls; eexists; (split; [vm_compute; reflexivity | repeat split; vm_compute; reflexivity]).
Qed.

Print Assumptions prepare_ok_roundtrip.
Print Assumptions coldef_roundtrip.
Print Assumptions ok_roundtrip.
Print Assumptions greeting_roundtrip.
