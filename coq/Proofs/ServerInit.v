(* Connection start (Model/Server.v: init): greeting, handshake response parsing, the
   authentication gate.  Proofs only; statements fixed. *)
From MsqlVerif Require Import Model.Server Spec.Frame Spec.Client Spec.ClientEnc
  Proofs.BaseLemmas Proofs.PacketWrite Proofs.PacketRead Proofs.RunRender Proofs.CodecClient.
From Coq Require Import Lia.
Open Scope N_scope.


(* ---- helpers: handshake parsing ---- *)
Lemma le_val_le_bytes_mod n : forall x, le_val (le_bytes n x) = x mod 256 ^ N.of_nat n.
Proof.
  induction n as [|n IH]; intro x.
  - cbn [le_bytes le_val]. change (256 ^ N.of_nat 0) with 1. rewrite N.mod_1_r. reflexivity.
  - cbn [le_bytes le_val]. rewrite N_of_b_of_N, IH, pow256_succ.
    rewrite N.mod_mul_r; [reflexivity | lia | apply N.pow_nonzero; lia].
Qed.

Lemma has_flag_low16 x bit :
  N.land (N.ones 16) bit = bit -> has_flag (x mod 65536) bit = has_flag x bit.
Proof.
  intro H. unfold has_flag. change 65536 with (2 ^ 16).
  rewrite <- N.land_ones, <- N.land_assoc, H. reflexivity.
Qed.

Lemma take_until_nul_user user tail :
  no_nul user -> take_until_nul (user ++ x00 :: tail) = Some (user, x00 :: tail).
Proof.
  intro H. induction H as [|b user Hb Hu IH].
  - reflexivity.
  - cbn [app take_until_nul]. destruct (byte_eqb b x00) eqn:E.
    + apply byte_eqb_eq in E. contradiction.
    + rewrite IH. reflexivity.
Qed.

Lemma client_handshake_41 caps maxps c reserved rest after_tls :
  length reserved = 23%nat -> has_flag caps CLIENT_PROTOCOL_41 = true ->
  client_handshake (le_bytes 4 caps ++ le_bytes 4 maxps ++ [c] ++ reserved ++ rest) after_tls =
    if after_tls || negb (has_flag caps CLIENT_SSL)
    then match take_until_nul rest with
         | Some (u, _) => HOk (has_flag caps CLIENT_SSL) (Some u)
         | None => HErr EInvalidData
         end
    else HOk (has_flag caps CLIENT_SSL) None.
Proof.
  intros Hr H41.
  assert (E4 : le_bytes 4 caps = le_bytes 2 caps ++ le_bytes 2 (caps / 256 / 256)) by reflexivity.
  rewrite E4, <- app_assoc. unfold client_handshake.
  rewrite (take_n_app 2) by apply le_bytes_length. cbv beta iota zeta.
  rewrite le_val_le_bytes_mod, pow256_2.
  rewrite !has_flag_low16 by reflexivity. rewrite H41.
  rewrite (take_n_app 2) by apply le_bytes_length. cbv beta iota zeta.
  rewrite (take_n_app 4) by apply le_bytes_length. cbv beta iota zeta.
  rewrite (take_n_app 1 [c]) by reflexivity. cbv beta iota zeta.
  rewrite (take_n_app 23) by exact Hr. cbv beta iota zeta.
  reflexivity.
Qed.

(* ---- the user name reaches the server exactly as sent ---- *)
Lemma username_41 caps maxps charset reserved user tail after_tls :
  caps < 2 ^ 32 -> maxps < 2 ^ 32 -> length reserved = 23%nat -> no_nul user ->
  has_flag caps CLIENT_PROTOCOL_41 = true ->
  (after_tls = true \/ has_flag caps CLIENT_SSL = false) ->
  client_handshake (hs41 caps maxps charset reserved user tail) after_tls
    = HOk (has_flag caps CLIENT_SSL) (Some user).
Proof.
  intros _ _ Hr Hu H41 Hssl. unfold hs41.
  rewrite client_handshake_41 by assumption.
  assert (Hc : after_tls || negb (has_flag caps CLIENT_SSL) = true).
  { destruct Hssl as [-> | ->]; [reflexivity | apply Bool.orb_true_r]. }
  rewrite Hc. change ([x00] ++ tail) with (x00 :: tail).
  rewrite take_until_nul_user by exact Hu. reflexivity.
Qed.
Lemma username_320 caps maxps user tail after_tls :
  caps < 2 ^ 16 -> maxps < 2 ^ 24 -> no_nul user ->
  has_flag caps CLIENT_PROTOCOL_41 = false ->
  client_handshake (hs320 caps maxps user tail) after_tls = HOk (has_flag caps CLIENT_SSL) (Some user).
Proof.
  intros Hc _ Hu H41. unfold hs320.
  assert (E3 : le_bytes 3 maxps = le_bytes 2 maxps ++ le_bytes 1 (maxps / 256 / 256)) by reflexivity.
  rewrite E3, <- app_assoc. unfold client_handshake.
  rewrite (take_n_app 2) by apply le_bytes_length. cbv beta iota zeta.
  rewrite le_val_le_bytes by (rewrite pow256_2; exact Hc).
  rewrite H41.
  rewrite (take_n_app 2) by apply le_bytes_length. cbv beta iota zeta.
  rewrite (take_n_app 1) by apply le_bytes_length. cbv beta iota zeta.
  change ([x00] ++ tail) with (x00 :: tail).
  rewrite take_until_nul_user by exact Hu. reflexivity.
Qed.
(* an SSL request (before the TLS switch) carries no user name *)
Lemma ssl_request_no_user caps maxps charset reserved :
  caps < 2 ^ 32 -> maxps < 2 ^ 32 -> length reserved = 23%nat ->
  has_flag caps CLIENT_PROTOCOL_41 = true -> has_flag caps CLIENT_SSL = true ->
  client_handshake (ssl_request caps maxps charset reserved) false = HOk true None.
Proof.
  intros _ _ Hr H41 Hssl. unfold ssl_request.
  rewrite <- (app_nil_r reserved).
  rewrite client_handshake_41 by assumption.
  rewrite Hssl. reflexivity.
Qed.

Definition fresh (s : st) : Prop :=
  s_fault s = WNone /\ 0 < s_lim s /\ s_lim s < 2 ^ 24 /\ s_seq s = 0 /\ s_tw s = [] /\ s_cont s = false /\
  s_park s = None /\ s_buf s = [] /\ s_wops s = 0%nat /\ s_trace s = [] /\ all_data (s_reads s).

Definition auth_failed_msg : bytes :=
  [x63; x6c; x69; x65; x6e; x74; x20; x61; x75; x74; x68; x65; x6e; x74; x69; x63;
   x61; x74; x69; x6f; x6e; x20; x66; x61; x69; x6c; x65; x64].


(* ---- helpers: the connection-start phases ---- *)
Definition no_call (ev : event) : Prop := match ev with ECall _ => False | _ => True end.

Lemma no_call_writes l : Forall no_call (rev (map EWrite l)).
Proof.
  apply Forall_rev. induction l as [|x l IH]; cbn [map]; constructor; [exact I | exact IH].
Qed.
Lemma no_call_reads evs : only_reads evs -> Forall no_call evs.
Proof.
  unfold only_reads. apply Forall_impl. intros [] H; try contradiction; exact I.
Qed.

Lemma end_packet_park s r s' : end_packet s = (r, s') -> s_park s' = s_park s.
Proof.
  unfold end_packet. destruct (_ && _).
  - intro H; inversion H; reflexivity.
  - unfold t_write. destruct (fault_at _ _); intro H; inversion H; reflexivity.
Qed.

Lemma flush_clean s :
  s_fault s = WNone -> s_tw s = [] -> s_cont s = false -> s_park s = None ->
  flush s = (ROk tt, upd_trace EFlush (set_wops (S (s_wops s)) s)).
Proof.
  intros Hf Ht Hc Hp. unfold flush. rewrite Hp. unfold bind, end_packet. rewrite Ht, Hc.
  change (Nlen (@nil byte)) with 0. cbn [N.eqb negb andb].
  unfold t_flush. rewrite Hf. reflexivity.
Qed.

Lemma greeting_ne tls : greeting_body tls <> [].
Proof. unfold greeting_body. cbn [app]. discriminate. Qed.

Lemma greeting_phase tls s : fresh s ->
  exists s0 s1,
    write_all (greeting_body tls) s = (ROk tt, s0) /\ flush s0 = (ROk tt, s1) /\
    clean s1 /\ s_lim s1 = s_lim s /\ s_buf s1 = s_buf s /\ s_reads s1 = s_reads s /\
    s_trace s1 = EFlush :: rev (map EWrite (frame_pkts (s_lim s) 0 (greeting_body tls))).
Proof.
  intros (Hf & H0 & H24 & Hq & Ht & Hc & Hp & Hb & Hw & Htr & Hall).
  assert (H1 : Nlen (s_tw s) < s_lim s) by (rewrite Ht; exact H0).
  assert (Hq' : s_seq s < 256) by (rewrite Hq; lia).
  destruct (finish_msg (greeting_body tls) s Hf H0 Hq' H1) as (s' & Hrun & Ht' & Hc' & Hrest).
  rewrite Ht, Hq in Hrest. cbn [app] in Hrest.
  assert (Hif : (match greeting_body tls with [] => true | _ :: _ => false end) = false)
    by reflexivity.
  rewrite Hif in Hrest. cbn [andb] in Hrest.
  destruct Hrest as [(E1 & E2 & E3 & E4 & E5 & E6 & E7) Hseq].
  unfold bind in Hrun.
  destruct (write_bytes (greeting_body tls) s) as [[[]|e|p] s0] eqn:Ew; try discriminate Hrun.
  pose proof (end_packet_park _ _ _ Hrun) as Hpk.
  exists s0, (upd_trace EFlush (set_wops (S (s_wops s')) s')).
  split. { rewrite write_all_write_bytes by assumption. exact Ew. }
  split.
  { unfold flush. rewrite <- Hpk, E5, Hp. unfold bind. rewrite Hrun.
    unfold t_flush. rewrite E2, Hf. reflexivity. }
  split.
  { unfold clean. cbn [upd_trace set_wops s_fault s_lim s_seq s_tw s_cont s_park].
    split; [rewrite E2; exact Hf|]. split; [rewrite E3; exact H0|].
    split; [rewrite Hseq; apply N.mod_lt; lia|]. split; [exact Ht'|]. split; [exact Hc'|].
    rewrite E5; exact Hp. }
  cbn [upd_trace set_wops s_lim s_buf s_reads s_trace].
  split; [exact E3|]. split; [exact E4|]. split; [exact E1|].
  rewrite E7, Htr, app_nil_r. reflexivity.
Qed.

Lemma send_flush m s : clean s -> m <> [] ->
  exists s5 s',
    send m s = (ROk tt, s5) /\ flush s5 = (ROk tt, s') /\ clean s' /\
    s_lim s' = s_lim s /\ s_buf s' = s_buf s /\ s_reads s' = s_reads s /\
    s_trace s' = EFlush :: rev (map EWrite (frame_pkts (s_lim s) (s_seq s) m)) ++ s_trace s.
Proof.
  intros (Hf & H0 & Hq & Ht & Hc & Hp) Hm.
  destruct (send_frame m s Hf H0 Hq Ht Hc Hm) as (s5 & Hrun & Ht5 & Hc5 & Hem & Hq5).
  destruct Hem as (E1 & E2 & E3 & E4 & E5 & E6 & E7).
  exists s5, (upd_trace EFlush (set_wops (S (s_wops s5)) s5)).
  split; [exact Hrun|].
  split. { apply flush_clean; [rewrite E2; exact Hf | exact Ht5 | exact Hc5 | rewrite E5; exact Hp]. }
  split.
  { unfold clean. cbn [upd_trace set_wops s_fault s_lim s_seq s_tw s_cont s_park].
    split; [rewrite E2; exact Hf|]. split; [rewrite E3; exact H0|].
    split; [rewrite Hq5; apply N.mod_lt; lia|]. split; [exact Ht5|]. split; [exact Hc5|].
    rewrite E5; exact Hp. }
  cbn [upd_trace set_wops s_lim s_buf s_reads s_trace].
  split; [exact E3|]. split; [exact E4|]. split; [exact E1|].
  rewrite E7. reflexivity.
Qed.

(* greeting, flush, then the handshake response is read whole *)
Lemma init_read cfg s q hs rest :
  fresh s -> q < 256 -> inbound s = frame (s_lim s) q hs ++ rest ->
  exists s0 s1 s2 evs,
    write_all (greeting_body (cfg_tls cfg)) s = (ROk tt, s0) /\ flush s0 = (ROk tt, s1) /\
    next s1 = (ROk (Some (last_seq (s_lim s) q hs, hs)), s2) /\
    only_reads evs /\ clean s2 /\ s_lim s2 = s_lim s /\ inbound s2 = rest /\
    all_data (s_reads s2) /\
    s_trace s2 = evs ++ EFlush :: rev (map EWrite (frame_pkts (s_lim s) 0 (greeting_body (cfg_tls cfg)))).
Proof.
  intros Hfresh Hq Hin.
  destruct (greeting_phase (cfg_tls cfg) s Hfresh)
    as (s0 & s1 & Hwa & Hfl & Hcl1 & El & Eb & Er & Etr).
  destruct Hfresh as (Hf & H0 & H24 & _ & _ & _ & _ & _ & _ & _ & Hall).
  assert (Hin1 : inbound s1 = frame (s_lim s1) q hs ++ rest).
  { unfold inbound in *. rewrite El, Eb, Er. exact Hin. }
  destruct (next_frame s1 q hs rest) as (s2 & Hn & Hin2 & Hall2 & Hpost);
    [rewrite El; exact H0 | rewrite El; exact H24 | exact Hq | rewrite Er; exact Hall | exact Hin1 |].
  rewrite El in Hn.
  destruct Hpost as (P1 & P2 & P3 & P4 & P5 & P6 & P7 & (evs & Pt & Pon) & _).
  destruct Hcl1 as (C1 & C2 & C3 & C4 & C5 & C6).
  exists s0, s1, s2, evs.
  split; [exact Hwa|]. split; [exact Hfl|]. split; [exact Hn|]. split; [exact Pon|].
  split.
  { unfold clean. rewrite P1, P2, P3, P4, P5, P6. repeat split; assumption. }
  split; [rewrite P2; exact El|]. split; [exact Hin2|]. split; [exact Hall2|].
  rewrite Pt, Etr. reflexivity.
Qed.

(* ... and, when it parses and is not an SSL request, after_authentication is called *)
Lemma init_to_auth errtab cfg s q hs user rest :
  fresh s -> q < 256 -> inbound s = frame (s_lim s) q hs ++ rest ->
  client_handshake hs false = HOk false user ->
  exists s4 rd,
    only_reads rd /\ clean s4 /\ s_lim s4 = s_lim s /\
    s_seq s4 = (last_seq (s_lim s) q hs + 1) mod 256 /\
    inbound s4 = rest /\ all_data (s_reads s4) /\
    s_trace s4 = ECall (CAuth user) :: rev rd
                 ++ EFlush :: rev (map EWrite (frame_pkts (s_lim s) 0 (greeting_body (cfg_tls cfg)))) /\
    init errtab cfg s =
      (match cfg_auth cfg with
       | Some tag =>
           (match errtab 1045 with
            | Some (c, state) => send (err_body c state auth_failed_msg)
            | None => panic PFromU16 end) ;;; flush ;;; fail (EShim tag)
       | None => send (ok_body 0 0 0) ;;; flush
       end) s4.
Proof.
  intros Hfresh Hq Hin Hhs.
  destruct (init_read cfg s q hs rest Hfresh Hq Hin)
    as (s0 & s1 & s2 & evs & Hwa & Hfl & Hn & Hon & Hcl & El & Hin2 & Hall2 & Htr).
  destruct Hcl as (C1 & C2 & C3 & C4 & C5 & C6).
  set (q' := (last_seq (s_lim s) q hs + 1) mod 256).
  exists (upd_trace (ECall (CAuth user)) (set_seq_cont q' (s_cont s2) s2)), (rev evs).
  split. { unfold only_reads. apply Forall_rev. exact Hon. }
  split.
  { unfold clean. cbn [upd_trace set_seq_cont s_fault s_lim s_seq s_tw s_cont s_park].
    repeat split; try assumption. unfold q'. apply N.mod_lt. lia. }
  cbn [upd_trace set_seq_cont s_lim s_seq s_reads s_trace].
  split; [exact El|]. split; [reflexivity|]. split; [exact Hin2|]. split; [exact Hall2|].
  split. { rewrite rev_involutive, Htr. reflexivity. }
  unfold init.
  rewrite (bind_ok _ _ _ _ _ Hwa). cbv beta.
  rewrite (bind_ok _ _ _ _ _ Hfl). cbv beta.
  rewrite (bind_ok _ _ _ _ _ Hn). cbv beta iota.
  rewrite Hhs. cbv beta iota.
  reflexivity.
Qed.

(* accepted: greeting (ids from 0), flush, reads, exactly one after_authentication call, OK with the
   id following the handshake response's last id, flush; the commands already pipelined behind
   the handshake stay buffered for the run loop *)
Theorem init_accept errtab cfg s q hs user rest :
  fresh s -> q < 256 -> cfg_auth cfg = None ->
  inbound s = frame (s_lim s) q hs ++ rest ->
  client_handshake hs false = HOk false user ->
  exists s' rd,
    init errtab cfg s = (ROk tt, s') /\ only_reads rd /\
    s_trace s' =
      EFlush :: rev (map EWrite (frame_pkts (s_lim s) ((last_seq (s_lim s) q hs + 1) mod 256) (ok_body 0 0 0)))
      ++ ECall (CAuth user) :: rev rd
      ++ EFlush :: rev (map EWrite (frame_pkts (s_lim s) 0 (greeting_body (cfg_tls cfg)))) /\
    inbound s' = rest /\ all_data (s_reads s') /\ clean s' /\ s_lim s' = s_lim s.
Proof.
  intros Hfresh Hq Hauth Hin Hhs.
  destruct (init_to_auth errtab cfg s q hs user rest Hfresh Hq Hin Hhs)
    as (s4 & rd & Hon & Hcl4 & El4 & Eq4 & Hin4 & Hall4 & Htr4 & Hinit).
  rewrite Hauth in Hinit.
  destruct (send_flush (ok_body 0 0 0) s4 Hcl4)
    as (s5 & s' & Hs & Hfl & Hcl' & El' & Eb' & Er' & Etr'); [unfold ok_body; discriminate|].
  exists s', rd.
  split. { rewrite Hinit, (bind_ok _ _ _ _ _ Hs). exact Hfl. }
  split; [exact Hon|].
  split. { rewrite Etr', El4, Eq4, Htr4. reflexivity. }
  split. { unfold inbound in *. rewrite Eb', Er'. exact Hin4. }
  split; [rewrite Er'; exact Hall4|]. split; [exact Hcl'|].
  rewrite El'. exact El4.
Qed.

(* rejected: ERR 1045 / 28000 with the next id, run_on returns the shim's error; the only callback
   ever invoked is after_authentication *)
Theorem init_reject errtab cfg s q hs user rest tag st :
  fresh s -> q < 256 -> cfg_auth cfg = Some tag ->
  errtab 1045 = Some (1045, st) ->
  inbound s = frame (s_lim s) q hs ++ rest ->
  client_handshake hs false = HOk false user ->
  exists s' rd,
    init errtab cfg s = (RErr (EShim tag), s') /\ only_reads rd /\
    s_trace s' =
      EFlush :: rev (map EWrite (frame_pkts (s_lim s) ((last_seq (s_lim s) q hs + 1) mod 256)
                                            (err_body 1045 st auth_failed_msg)))
      ++ ECall (CAuth user) :: rev rd
      ++ EFlush :: rev (map EWrite (frame_pkts (s_lim s) 0 (greeting_body (cfg_tls cfg)))).
Proof.
  intros Hfresh Hq Hauth Herr Hin Hhs.
  destruct (init_to_auth errtab cfg s q hs user rest Hfresh Hq Hin Hhs)
    as (s4 & rd & Hon & Hcl4 & El4 & Eq4 & Hin4 & Hall4 & Htr4 & Hinit).
  rewrite Hauth, Herr in Hinit.
  destruct (send_flush (err_body 1045 st auth_failed_msg) s4 Hcl4)
    as (s5 & s' & Hs & Hfl & Hcl' & El' & Eb' & Er' & Etr'); [unfold err_body; discriminate|].
  exists s', rd.
  split.
  { rewrite Hinit, (bind_ok _ _ _ _ _ Hs). cbv beta.
    rewrite (bind_ok _ _ _ _ _ Hfl). reflexivity. }
  split; [exact Hon|].
  rewrite Etr', El4, Eq4, Htr4. reflexivity.
Qed.

(* a malformed handshake response: error, and no callback at all *)
Theorem init_bad_handshake errtab cfg s q hs e rest :
  fresh s -> q < 256 ->
  inbound s = frame (s_lim s) q hs ++ rest ->
  client_handshake hs false = HErr e ->
  exists s', init errtab cfg s = (RErr e, s') /\
             Forall (fun ev => match ev with ECall _ => False | _ => True end) (s_trace s').
Proof.
  intros Hfresh Hq Hin Hhs.
  destruct (init_read cfg s q hs rest Hfresh Hq Hin)
    as (s0 & s1 & s2 & evs & Hwa & Hfl & Hn & Hon & Hcl & El & Hin2 & Hall2 & Htr).
  exists s2. split.
  - unfold init.
    rewrite (bind_ok _ _ _ _ _ Hwa). cbv beta.
    rewrite (bind_ok _ _ _ _ _ Hfl). cbv beta.
    rewrite (bind_ok _ _ _ _ _ Hn). cbv beta iota.
    rewrite Hhs. reflexivity.
  - change (Forall no_call (s_trace s2)). rewrite Htr.
    apply Forall_app. split; [apply no_call_reads; exact Hon|].
    constructor; [exact I | apply no_call_writes].
Qed.

(* the client hangs up before answering the greeting *)
Theorem init_no_handshake errtab cfg s :
  fresh s -> inbound s = [] ->
  exists s', init errtab cfg s = (RErr EConnAborted, s') /\
             Forall (fun ev => match ev with ECall _ => False | _ => True end) (s_trace s').
Proof.
  intros Hfresh Hin.
  destruct (greeting_phase (cfg_tls cfg) s Hfresh)
    as (s0 & s1 & Hwa & Hfl & Hcl1 & El & Eb & Er & Etr).
  destruct Hfresh as (_ & _ & _ & _ & _ & _ & _ & _ & _ & _ & Hall).
  destruct (next_eof s1) as (s2 & Hn & _ & _ & Htr2).
  { rewrite Er. exact Hall. }
  { unfold inbound in *. rewrite Eb, Er. exact Hin. }
  exists s2. split.
  - unfold init.
    rewrite (bind_ok _ _ _ _ _ Hwa). cbv beta.
    rewrite (bind_ok _ _ _ _ _ Hfl). cbv beta.
    rewrite (bind_ok _ _ _ _ _ Hn). reflexivity.
  - change (Forall no_call (s_trace s2)). rewrite Htr2, Etr.
    constructor; [exact I|]. constructor; [exact I | apply no_call_writes].
Qed.

Print Assumptions username_41.
Print Assumptions username_320.
Print Assumptions ssl_request_no_user.
Print Assumptions init_accept.
Print Assumptions init_reject.
Print Assumptions init_bad_handshake.
Print Assumptions init_no_handshake.
