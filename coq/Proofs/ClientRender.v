(* Stage 2 of C03: the logical messages of a successful shim program ([pm_q]) are decoded by the
   conformant client (Spec/Client.v: c_response) to exactly the result units the program denotes
   ([un_q]): one complete response, every terminator but the last flagged "more results", nothing
   left over.  Proofs only; statements fixed. *)
From MsqlVerif Require Import Model.Resultset Spec.Client Spec.Render
  Proofs.BaseLemmas Proofs.CodecClient Proofs.ValueClient.
From Coq Require Import Lia.
Open Scope N_scope.

Definition errtab_ok (errtab : N -> option (N * bytes)) : Prop :=
  forall code c st, errtab code = Some (c, st) -> c < 65536 /\ length st = 5%nat.

(* sizes within the wire format's fields; values within their Rust types *)
Fixpoint qprog_ok (p : qprog) : Prop :=
  match p with
  | QStart cols k => Nlen cols < 2 ^ 64 /\ Forall col_ok cols /\ rprog_ok k
  | QCompleteOne r i k => r < 2 ^ 64 /\ i < 2 ^ 64 /\ qprog_ok k
  | QCompleted r i => r < 2 ^ 64 /\ i < 2 ^ 64
  | QError _ _ | QNoMore | QDrop => True
  end
with rprog_ok (p : rprog) : Prop :=
  match p with
  | RWriteCol v _ k => val_ok v /\ text_ok v /\ rprog_ok k
  | REndRow _ k => rprog_ok k
  | RWriteRow vs _ k => Forall val_ok vs /\ Forall text_ok vs /\ rprog_ok k
  | RFinish | RDrop | RFinishError _ _ => True
  | RFinishOne k => qprog_ok k
  end.
Fixpoint qsize (p : qprog) : nat :=
  match p with
  | QStart _ k => S (rsize k) | QCompleteOne _ _ k => S (qsize k) | _ => 1%nat end
with rsize (p : rprog) : nat :=
  match p with
  | RWriteCol _ _ k | REndRow _ k | RWriteRow _ _ k => S (rsize k)
  | RFinishOne k => S (qsize k) | _ => 1%nat end.

(* ---- rows (C06 / C07 at row level) ---- *)

(* text protocol: a row of n accepted cells is decoded, cell by cell, to the written contents *)
Lemma text_row_decode cols vs r :
  cols <> [] -> length vs = length cols ->
  Forall text_ok vs ->
  p_write_cols false cols prow0 vs = Some r ->
  exists cs, tcells vs = Some cs /\ c_text_row (length cols) (pr_cur r) = Some cs.
Admitted.

(* binary protocol: header byte, NULL bitmap with offset 2 marking precisely the NULL cells, then
   the non-NULL values in order; decoded with the advertised column types to exactly the values
   written, for any number of columns and any pattern of NULLs *)
Lemma bin_row_decode cols vs r :
  cols <> [] -> length vs = length cols ->
  Forall val_ok vs -> Forall col_ok cols ->
  p_write_cols true cols prow0 vs = Some r ->
  c_bin_row cols (pr_cur r ++ pr_data r) =
    Some (map (fun vc => bcell (fst vc) (snd vc)) (combine vs cols)).
Admitted.

(* the bitmap itself: length (n+9)/8; bit c+2 is set iff cell c is NULL; every other bit is clear *)
Lemma bin_row_bitmap cols vs r :
  cols <> [] -> length vs = length cols ->
  p_write_cols true cols prow0 vs = Some r ->
  exists bm rest,
    pr_data r = bm ++ rest /\ length bm = Nat.div (length cols + 7 + 2) 8 /\
    forall pos, (pos < 8 * length bm)%nat ->
      bitmap_bit bm pos =
        match (pos ?= 2)%nat with
        | Lt => false
        | _ => match nth_error vs (pos - 2) with Some v => is_null v | None => false end
        end.
Admitted.

(* a NULL offered for a NOT NULL column, or a value the column type cannot carry, is refused *)
Lemma write_col_refuses_null cols r v c :
  nth_error cols (pr_col r) = Some c -> is_null v = true ->
  has_flag (c_flags c) NOT_NULL_FLAG = true ->
  p_write_col true cols r v = None.
Admitted.

(* when the messages exist, so do the units (same success conditions) *)
Lemma pm_un_defined errtab bin p msgs :
  pm_q errtab bin None p = Some msgs -> exists units, un_q errtab bin p = Some units.
Admitted.

(* a program that does anything but drop the fresh writer produces a non-empty response *)
Lemma un_q_nonempty errtab bin p units :
  un_q errtab bin p = Some units -> units = [] -> p = QDrop \/ p = QNoMore.
Admitted.

Theorem client_render errtab bin p msgs units :
  errtab_ok errtab -> qprog_ok p -> N.of_nat (qsize p) < 2 ^ 64 ->
  pm_q errtab bin None p = Some msgs ->
  un_q errtab bin p = Some units -> units <> [] ->
  c_response (S (length msgs)) bin msgs = Some (units, []).
Admitted.

(* whatever follows the response (the next command's reply) is left untouched: the client is
   command-ready exactly at the end of the response *)
Theorem client_render_rest errtab bin p msgs units rest :
  errtab_ok errtab -> qprog_ok p -> N.of_nat (qsize p) < 2 ^ 64 ->
  pm_q errtab bin None p = Some msgs ->
  un_q errtab bin p = Some units -> units <> [] ->
  c_response (S (length msgs)) bin (msgs ++ rest) = Some (units, rest).
Admitted.
