(* Stage 2 of C03: the logical messages of a successful shim program ([pm_q]) are decoded by the
   conformant client (Spec/Client.v: c_response) to exactly the result units the program denotes
   ([un_q]): one complete response, every terminator but the last flagged "more results", nothing
   left over.  Proofs only; statements fixed. *)
From MsqlVerif Require Import Model.Resultset Spec.Client Spec.Render
  Proofs.BaseLemmas Proofs.CodecClient Proofs.ValueClient.
From Coq Require Import Lia.
Open Scope N_scope.

Definition errtab_ok (errtab : N -> option (N * bytes)) : Prop :=
  forall code c st, errtab code = Some (c, st) -> c < 65536 /\ length st = 5%nat.

(* sizes within the wire format's fields; values within their Rust types *)
Fixpoint qprog_ok (p : qprog) : Prop :=
  match p with
  | QStart cols k => Nlen cols < 2 ^ 64 /\ Forall col_ok cols /\ rprog_ok k
  | QCompleteOne r i k => r < 2 ^ 64 /\ i < 2 ^ 64 /\ qprog_ok k
  | QCompleted r i => r < 2 ^ 64 /\ i < 2 ^ 64
  | QError _ _ | QNoMore | QDrop => True
  end
with rprog_ok (p : rprog) : Prop :=
  match p with
  | RWriteCol v _ k => val_ok v /\ text_ok v /\ rprog_ok k
  | REndRow _ k => rprog_ok k
  | RWriteRow vs _ k => Forall val_ok vs /\ Forall text_ok vs /\ rprog_ok k
  | RFinish | RDrop | RFinishError _ _ => True
  | RFinishOne k => qprog_ok k
  end.
Fixpoint qsize (p : qprog) : nat :=
  match p with
  | QStart _ k => S (rsize k) | QCompleteOne _ _ k => S (qsize k) | _ => 1%nat end
with rsize (p : rprog) : nat :=
  match p with
  | RWriteCol _ _ k | REndRow _ k | RWriteRow _ _ k => S (rsize k)
  | RFinishOne k => S (qsize k) | _ => 1%nat end.

(* ================= helpers: rows ================= *)

Ltac dm8 x := let q := fresh "q" in let m := fresh "m" in
  pose proof (Nat.div_mod x 8 ltac:(discriminate));
  pose proof (Nat.mod_upper_bound x 8 ltac:(discriminate));
  set (q := (x / 8)%nat) in *; set (m := (x mod 8)%nat) in *; clearbody q m.

Lemma p_write_cols_app bin cols r vs ws :
  p_write_cols bin cols r (vs ++ ws) =
    match p_write_cols bin cols r vs with
    | Some r' => p_write_cols bin cols r' ws
    | None => None end.
Proof.
  revert r. induction vs as [|v vs IH]; intro r; cbn [app p_write_cols].
  - reflexivity.
  - destruct (p_write_col bin cols r v) as [r1|]; [apply IH | reflexivity].
Qed.

(* ---- text ---- *)
Lemma p_write_col_text cols r v r' :
  cols <> [] -> p_write_col false cols r v = Some r' ->
  exists bs, to_text v = ROk bs /\
    r' = {| pr_cur := pr_cur r ++ bs; pr_data := pr_data r; pr_col := S (pr_col r) |}.
Proof.
  intros Hc H. destruct cols as [|c cols]; [congruence|].
  cbn [p_write_col] in H. destruct (to_text v) as [bs| |]; try discriminate H.
  injection H as <-. exists bs. split; reflexivity.
Qed.

Lemma text_cells_gen cols vs : cols <> [] -> forall r r',
  Forall text_ok vs -> p_write_cols false cols r vs = Some r' ->
  exists cs bs, tcells vs = Some cs /\ pr_cur r' = pr_cur r ++ bs /\
    pr_data r' = pr_data r /\ pr_col r' = (pr_col r + length vs)%nat /\
    forall n rest, c_text_cells (length vs + n) (bs ++ rest) =
      match c_text_cells n rest with Some (cs', r0) => Some (cs ++ cs', r0) | None => None end.
Proof.
  intro Hc. induction vs as [|v vs IH]; intros r r' F H.
  - cbn [p_write_cols] in H. injection H as <-. exists [], []. cbn [tcells length app Nat.add].
    rewrite app_nil_r, Nat.add_0_r. repeat split.
    intros n rest. destruct (c_text_cells n rest) as [[cs' r0]|]; reflexivity.
  - cbn [p_write_cols] in H. inversion F as [|? ? Fv Fvs]; subst.
    destruct (p_write_col false cols r v) as [r1|] eqn:E1; [|discriminate H].
    destruct (p_write_col_text _ _ _ _ Hc E1) as (bs & Ht & ->).
    destruct (IH _ _ Fvs H) as (cs & bs' & Hcs & Hcur & Hdata & Hcol & Hdec).
    cbn [pr_cur pr_data pr_col] in *.
    destruct (to_text_decode v bs 0 [] Fv Ht) as (c & Hc0 & _).
    exists (c :: cs), (bs ++ bs'). cbn [tcells]. rewrite Hc0, Hcs.
    split; [reflexivity|]. split; [rewrite Hcur, app_assoc; reflexivity|].
    split; [exact Hdata|]. split; [cbn [length]; lia|].
    intros n rest. cbn [length Nat.add]. rewrite <- app_assoc.
    destruct (to_text_decode v bs (length vs + n) (bs' ++ rest) Fv Ht) as (c' & Hc' & Hd).
    rewrite Hc0 in Hc'. injection Hc' as <-. rewrite Hd, Hdec.
    destruct (c_text_cells n rest) as [[cs' r0]|]; reflexivity.
Qed.

(* text protocol: a row of n accepted cells is decoded, cell by cell, to the written contents *)
Lemma text_row_decode cols vs r :
  cols <> [] -> length vs = length cols ->
  Forall text_ok vs ->
  p_write_cols false cols prow0 vs = Some r ->
  exists cs, tcells vs = Some cs /\ c_text_row (length cols) (pr_cur r) = Some cs.
Proof.
  intros Hc Hl F H.
  destruct (text_cells_gen cols vs Hc _ _ F H) as (cs & bs & Hcs & Hcur & _ & _ & Hdec).
  exists cs. split; [exact Hcs|]. cbn [prow0 pr_cur app] in Hcur. rewrite Hcur.
  unfold c_text_row. specialize (Hdec 0%nat []). rewrite Nat.add_0_r, app_nil_r in Hdec.
  rewrite <- Hl, Hdec. cbn [c_text_cells]. rewrite app_nil_r. reflexivity.
Qed.

(* ---- binary ---- *)
Definition blen (cols : list column) : nat := ((length cols + 7 + 2) / 8)%nat.
Definition eff_cur (r : prow) : bytes :=
  if Nat.eqb (pr_col r) 0 then pr_cur r ++ [x00] else pr_cur r.
Definition eff_data (cols : list column) (r : prow) : bytes :=
  if Nat.eqb (pr_col r) 0 then resize0 (pr_data r) (blen cols) else pr_data r.
Definition nullbit (bm : bytes) (k : nat) : bytes :=
  set_bit bm ((k + 2) / 8) (N.of_nat ((k + 2) mod 8)).

Lemma set_bit_app bm vals i b : (i < length bm)%nat ->
  set_bit (bm ++ vals) i b = set_bit bm i b ++ vals.
Proof.
  revert i. induction bm as [|x bm IH]; intros i H; cbn [length] in H; [lia|].
  destruct i as [|i]; cbn [app set_bit]; [reflexivity|]. rewrite IH by lia. reflexivity.
Qed.
Lemma set_bit_length bm i b : length (set_bit bm i b) = length bm.
Proof.
  revert i. induction bm as [|x bm IH]; intros i; [reflexivity|].
  destruct i; cbn [set_bit length]; [reflexivity | rewrite IH; reflexivity].
Qed.

Lemma blen_bound cols k : (k < length cols)%nat -> ((k + 2) / 8 < blen cols)%nat.
Proof. unfold blen. intro H. dm8 (k + 2)%nat. dm8 (length cols + 7 + 2)%nat. lia. Qed.

Lemma p_write_col_bin cols r v r1 bm vals :
  cols <> [] ->
  p_write_col true cols r v = Some r1 ->
  eff_data cols r = bm ++ vals -> length bm = blen cols ->
  exists c, nth_error cols (pr_col r) = Some c /\ pr_col r1 = S (pr_col r) /\
    pr_cur r1 = eff_cur r /\
    ((is_null v = true /\ pr_data r1 = nullbit bm (pr_col r) ++ vals) \/
     (is_null v = false /\ exists bs, to_bin v c = ROk bs /\ pr_data r1 = bm ++ vals ++ bs)).
Proof.
  intros Hc H He Hl. unfold p_write_col in H.
  destruct cols as [|c0 cols0] eqn:Ec; [congruence|]. rewrite <- Ec in *.
  fold (blen cols) in H. fold (eff_data cols r) in H. fold (eff_cur r) in H.
  destruct (nth_error cols (pr_col r)) as [c|] eqn:En; [|discriminate H].
  exists c. split; [reflexivity|].
  assert (Hk : (pr_col r < length cols)%nat) by (apply nth_error_Some; congruence).
  destruct (is_null v) eqn:Enull.
  - destruct (has_flag (c_flags c) NOT_NULL_FLAG); [discriminate H|]. injection H as <-.
    cbn [pr_col pr_cur pr_data]. repeat split. left. split; [reflexivity|].
    rewrite He. unfold nullbit. apply set_bit_app. rewrite Hl. apply blen_bound, Hk.
  - destruct (to_bin v c) as [bs| |] eqn:Eb; try discriminate H. injection H as <-.
    cbn [pr_col pr_cur pr_data]. repeat split. right. split; [reflexivity|].
    exists bs. split; [reflexivity|]. rewrite He, app_assoc. reflexivity.
Qed.

Fixpoint set_nulls (bm : bytes) (k : nat) (vs : list value) : bytes :=
  match vs with
  | [] => bm
  | v :: vs' => set_nulls (if is_null v then nullbit bm k else bm) (S k) vs'
  end.
Fixpoint bvals (vs : list value) (cs : list column) : option bytes :=
  match vs, cs with
  | [], _ => Some []
  | v :: vs', c :: cs' =>
      if is_null v then bvals vs' cs'
      else match to_bin v c, bvals vs' cs' with
           | ROk bs, Some r => Some (bs ++ r)
           | _, _ => None end
  | _ :: _, [] => None
  end.

Lemma set_nulls_length vs : forall bm k, length (set_nulls bm k vs) = length bm.
Proof.
  induction vs as [|v vs IH]; intros bm k; cbn [set_nulls]; [reflexivity|].
  rewrite IH. destruct (is_null v); [apply set_bit_length | reflexivity].
Qed.

Lemma skipn_nth {A} (l : list A) k x : nth_error l k = Some x -> skipn k l = x :: skipn (S k) l.
Proof.
  revert k. induction l as [|y l IH]; intros [|k] H; try discriminate H.
  - injection H as ->. reflexivity.
  - cbn [nth_error] in H. change (skipn (S k) (y :: l)) with (skipn k l). rewrite (IH _ H). reflexivity.
Qed.

Lemma p_write_cols_bin cols vs : cols <> [] -> forall r r' bm vals,
  p_write_cols true cols r vs = Some r' ->
  eff_data cols r = bm ++ vals -> length bm = blen cols ->
  exists vals', bvals vs (skipn (pr_col r) cols) = Some vals' /\
    eff_data cols r' = set_nulls bm (pr_col r) vs ++ vals ++ vals' /\
    eff_cur r' = eff_cur r /\ pr_col r' = (pr_col r + length vs)%nat.
Proof.
  intro Hc. induction vs as [|v vs IH]; intros r r' bm vals H He Hl; cbn [p_write_cols] in H.
  - injection H as <-. exists []. cbn [bvals set_nulls length]. rewrite app_nil_r, Nat.add_0_r.
    repeat split. exact He.
  - destruct (p_write_col true cols r v) as [r1|] eqn:E1; [|discriminate H].
    destruct (p_write_col_bin _ _ _ _ _ _ Hc E1 He Hl) as (c & Hn & Hcol & Hcur & Hd).
    assert (Hnz : Nat.eqb (pr_col r1) 0 = false) by (rewrite Hcol; reflexivity).
    assert (Ecur : eff_cur r1 = eff_cur r) by (unfold eff_cur at 1; rewrite Hnz; exact Hcur).
    rewrite (skipn_nth _ _ _ Hn). cbn [bvals set_nulls length].
    destruct Hd as [(Hnull & Hd) | (Hnull & bs & Hb & Hd)]; rewrite Hnull.
    + destruct (IH r1 r' (nullbit bm (pr_col r)) vals H) as (vals' & Hbv & Hed & Hec & Hcl).
      { unfold eff_data. rewrite Hnz. exact Hd. }
      { unfold nullbit. rewrite set_bit_length. exact Hl. }
      exists vals'. rewrite Hcol in *. split; [exact Hbv|]. split; [exact Hed|].
      split; [congruence | lia].
    + destruct (IH r1 r' bm (vals ++ bs) H) as (vals' & Hbv & Hed & Hec & Hcl).
      { unfold eff_data. rewrite Hnz. exact Hd. }
      { exact Hl. }
      rewrite Hcol in *. rewrite Hb, Hbv. exists (bs ++ vals'). split; [reflexivity|].
      split; [rewrite Hed, <- !app_assoc; reflexivity|]. split; [congruence | lia].
Qed.

(* bits *)
Lemma nth_error_set_bit data i b j :
  nth_error (set_bit data i b) j =
    if Nat.eqb j i
    then match nth_error data j with
         | Some x => Some (b_of_N (N.lor (N_of_b x) (N.shiftl 1 b))) | None => None end
    else nth_error data j.
Proof.
  revert i j. induction data as [|x data IH]; intros i j.
  - cbn [set_bit]. destruct (Nat.eqb j i); destruct j; reflexivity.
  - destruct i as [|i], j as [|j]; cbn [set_bit nth_error Nat.eqb]; try reflexivity. apply IH.
Qed.

Lemma testbit_setbyte x b q : b < 8 -> q < 8 ->
  N.testbit (N_of_b (b_of_N (N.lor x (N.shiftl 1 b)))) q = N.testbit x q || (b =? q).
Proof.
  intros Hb Hq. rewrite N_of_b_of_N. change 256 with (2 ^ 8).
  rewrite N.mod_pow2_bits_low by exact Hq.
  rewrite N.lor_spec, N.shiftl_1_l, N.pow2_bits_eqb. reflexivity.
Qed.


Lemma bitmap_bit_nullbit bm k pos : ((k + 2) / 8 < length bm)%nat ->
  bitmap_bit (nullbit bm k) pos = bitmap_bit bm pos || Nat.eqb pos (k + 2).
Proof.
  intro Hlt. unfold bitmap_bit, nullbit. rewrite nth_error_set_bit.
  destruct (Nat.eqb_spec (pos / 8) ((k + 2) / 8)) as [E|E].
  - destruct (nth_error bm (pos / 8)) as [x|] eqn:En.
    + rewrite testbit_setbyte.
      * f_equal. dm8 pos. dm8 (k + 2)%nat.
        destruct (N.eqb_spec (N.of_nat m0) (N.of_nat m)); destruct (Nat.eqb_spec pos (k + 2)); try reflexivity; lia.
      * dm8 (k + 2)%nat. lia.
      * dm8 pos. lia.
    + apply nth_error_None in En. lia.
  - destruct (Nat.eqb_spec pos (k + 2)) as [->|_]; [congruence|]. rewrite orb_false_r. reflexivity.
Qed.

Definition null_at (vs : list value) (j : nat) : bool :=
  match nth_error vs j with Some v => is_null v | None => false end.

Lemma bitmap_set_nulls vs : forall bm k pos,
  ((k + length vs + 1) / 8 < length bm \/ vs = [])%nat ->
  bitmap_bit (set_nulls bm k vs) pos =
    bitmap_bit bm pos || (if Nat.leb (k + 2) pos then null_at vs (pos - (k + 2)) else false).
Proof.
  induction vs as [|v vs IH]; intros bm k pos Hb; cbn [set_nulls].
  - unfold null_at. destruct (Nat.leb (k + 2) pos); [destruct (pos - (k + 2))%nat|]; cbn [nth_error];
      rewrite orb_false_r; reflexivity.
  - destruct Hb as [Hb | Hb]; [|discriminate Hb]. cbn [length] in Hb.
    assert (H1 : ((k + 2) / 8 < length bm)%nat).
    { dm8 (k + 2)%nat. dm8 (k + S (length vs) + 1)%nat. lia. }
    rewrite IH.
    2:{ destruct vs as [|v' vs']; [right; reflexivity | left]. cbn [length] in *.
        destruct (is_null v); [unfold nullbit; rewrite set_bit_length|];
        replace (S k + S (length vs') + 1)%nat with (k + S (S (length vs')) + 1)%nat by lia; exact Hb. }
    assert (E : bitmap_bit (if is_null v then nullbit bm k else bm) pos =
                bitmap_bit bm pos || (is_null v && Nat.eqb pos (k + 2))).
    { destruct (is_null v); [rewrite bitmap_bit_nullbit by exact H1; reflexivity |
        rewrite orb_false_r; reflexivity]. }
    rewrite E, <- orb_assoc. f_equal. unfold null_at.
    destruct (Nat.eqb_spec pos (k + 2)) as [->|Hne].
    + rewrite andb_true_r. replace (Nat.leb (S k + 2) (k + 2)) with false by (symmetry; apply Nat.leb_gt; lia).
      rewrite Nat.leb_refl, Nat.sub_diag. cbn [nth_error]. rewrite orb_false_r. reflexivity.
    + rewrite andb_false_r. cbn [orb].
      destruct (Nat.leb_spec (S k + 2) pos) as [Hle|Hle].
      * replace (Nat.leb (k + 2) pos) with true by (symmetry; apply Nat.leb_le; lia).
        replace (pos - (k + 2))%nat with (S (pos - (S k + 2))) by lia. reflexivity.
      * replace (Nat.leb (k + 2) pos) with false by (symmetry; apply Nat.leb_gt; lia). reflexivity.
Qed.

Lemma bin_cells_decode vs : forall cs idx bm vals rest,
  length vs = length cs -> Forall val_ok vs -> bvals vs cs = Some vals ->
  (forall j, (j < length vs)%nat -> bitmap_bit bm (idx + j + 2) = null_at vs j) ->
  c_bin_cells cs idx bm (vals ++ rest) =
    Some (map (fun vc => bcell (fst vc) (snd vc)) (combine vs cs), rest).
Proof.
  induction vs as [|v vs IH]; intros cs idx bm vals rest Hl F Hb Hbit.
  - destruct cs; [|discriminate Hl]. cbn [bvals] in Hb. injection Hb as <-. reflexivity.
  - destruct cs as [|c cs]; [discriminate Hl|]. cbn [length] in Hl. injection Hl as Hl.
    inversion F as [|? ? Fv Fvs]; subst.
    cbn [bvals] in Hb. cbn [c_bin_cells combine map fst snd].
    pose proof (Hbit 0%nat ltac:(cbn [length]; lia)) as H0.
    rewrite Nat.add_0_r in H0. unfold null_at in H0. cbn [nth_error] in H0. rewrite H0.
    assert (Hbit' : forall j, (j < length vs)%nat -> bitmap_bit bm (S idx + j + 2) = null_at vs j).
    { intros j Hj. specialize (Hbit (S j) ltac:(cbn [length]; lia)).
      replace (S idx + j + 2)%nat with (idx + S j + 2)%nat by lia. exact Hbit. }
    unfold bcell at 1. destruct (is_null v) eqn:En.
    + rewrite (IH cs (S idx) bm vals rest Hl Fvs Hb Hbit'). reflexivity.
    + destruct (to_bin v c) as [bs| |] eqn:Eb; try discriminate Hb.
      destruct (bvals vs cs) as [vals'|] eqn:Ebv; [|discriminate Hb]. injection Hb as <-.
      rewrite <- app_assoc, (to_bin_decode v c bs _ Fv Eb). cbn [obind].
      rewrite (IH cs (S idx) bm vals' rest Hl Fvs Ebv Hbit'). reflexivity.
Qed.

Lemma eff_prow0 cols : eff_data cols prow0 = repeat x00 (blen cols) ++ [] /\ eff_cur prow0 = [x00].
Proof.
  unfold eff_data, eff_cur, prow0, resize0. cbn [pr_col pr_data pr_cur Nat.eqb length app].
  rewrite firstn_nil, Nat.sub_0_r, app_nil_r. split; reflexivity.
Qed.

Lemma bitmap_bit_zero n pos : bitmap_bit (repeat x00 n) pos = false.
Proof.
  unfold bitmap_bit. destruct (nth_error (repeat x00 n) (pos / 8)) as [b|] eqn:E; [|reflexivity].
  apply nth_error_In, repeat_spec in E. subst b. apply N.bits_0.
Qed.

(* the state after writing a complete binary row *)
Lemma bin_row_shape cols vs r :
  cols <> [] -> length vs = length cols ->
  p_write_cols true cols prow0 vs = Some r ->
  exists vals, bvals vs cols = Some vals /\ pr_cur r = [x00] /\
    pr_data r = set_nulls (repeat x00 (blen cols)) 0 vs ++ vals /\ pr_col r = length cols.
Proof.
  intros Hc Hl H. destruct (eff_prow0 cols) as (Hd0 & Hc0).
  destruct (p_write_cols_bin cols vs Hc _ _ _ _ H Hd0 (repeat_length _ _))
    as (vals & Hbv & Hed & Hec & Hcol).
  cbn [prow0 pr_col skipn Nat.add app] in *. exists vals.
  assert (Hnz : Nat.eqb (pr_col r) 0 = false).
  { rewrite Hcol, Hl. destruct cols; [congruence | reflexivity]. }
  unfold eff_data in Hed. unfold eff_cur in Hec at 1. rewrite Hnz in *.
  repeat split; try assumption; congruence.
Qed.

Lemma bitmap_final cols vs pos : length vs = length cols -> cols <> [] ->
  bitmap_bit (set_nulls (repeat x00 (blen cols)) 0 vs) pos =
    if Nat.leb 2 pos then null_at vs (pos - 2) else false.
Proof.
  intros Hl Hc. rewrite bitmap_set_nulls, bitmap_bit_zero; [reflexivity|].
  left. rewrite repeat_length, Hl. unfold blen.
  dm8 (0 + length cols + 1)%nat. dm8 (length cols + 7 + 2)%nat. lia.
Qed.

Lemma bin_row_decode' cols vs r :
  cols <> [] -> length vs = length cols ->
  Forall val_ok vs ->
  p_write_cols true cols prow0 vs = Some r ->
  c_bin_row cols (pr_cur r ++ pr_data r) =
    Some (map (fun vc => bcell (fst vc) (snd vc)) (combine vs cols)).
Proof.
  intros Hc Hl Fv H.
  destruct (bin_row_shape cols vs r Hc Hl H) as (vals & Hbv & Hcur & Hdata & _).
  rewrite Hcur, Hdata. cbn [app c_bin_row]. change (byte_eqb x00 x00) with true. cbv iota.
  fold (blen cols). unfold c_take. rewrite take_n_app.
  2:{ rewrite set_nulls_length. apply repeat_length. }
  cbn [obind]. rewrite <- (app_nil_r vals).
  rewrite (bin_cells_decode vs cols 0 _ vals [] Hl Fv Hbv); [reflexivity|].
  intros j Hj. rewrite (bitmap_final cols vs _ Hl Hc).
  replace (Nat.leb 2 (0 + j + 2)) with true by (symmetry; apply Nat.leb_le; lia).
  f_equal. lia.
Qed.

(* binary protocol: header byte, NULL bitmap with offset 2 marking precisely the NULL cells, then
   the non-NULL values in order; decoded with the advertised column types to exactly the values
   written, for any number of columns and any pattern of NULLs *)
Lemma bin_row_decode cols vs r :
  cols <> [] -> length vs = length cols ->
  Forall val_ok vs -> Forall col_ok cols ->
  p_write_cols true cols prow0 vs = Some r ->
  c_bin_row cols (pr_cur r ++ pr_data r) =
    Some (map (fun vc => bcell (fst vc) (snd vc)) (combine vs cols)).
Proof. intros Hc Hl Fv _ H. apply bin_row_decode'; assumption. Qed.

(* the bitmap itself: length (n+9)/8; bit c+2 is set iff cell c is NULL; every other bit is clear *)
Lemma bin_row_bitmap cols vs r :
  cols <> [] -> length vs = length cols ->
  p_write_cols true cols prow0 vs = Some r ->
  exists bm rest,
    pr_data r = bm ++ rest /\ length bm = Nat.div (length cols + 7 + 2) 8 /\
    forall pos, (pos < 8 * length bm)%nat ->
      bitmap_bit bm pos =
        match (pos ?= 2)%nat with
        | Lt => false
        | _ => match nth_error vs (pos - 2) with Some v => is_null v | None => false end
        end.
Proof.
  intros Hc Hl H.
  destruct (bin_row_shape cols vs r Hc Hl H) as (vals & Hbv & Hcur & Hdata & _).
  exists (set_nulls (repeat x00 (blen cols)) 0 vs), vals. split; [exact Hdata|].
  split; [rewrite set_nulls_length; apply repeat_length|].
  intros pos _. rewrite (bitmap_final cols vs _ Hl Hc). unfold null_at.
  destruct (Nat.compare_spec pos 2) as [->|Hlt|Hgt].
  - reflexivity.
  - replace (Nat.leb 2 pos) with false by (symmetry; apply Nat.leb_gt; lia). reflexivity.
  - replace (Nat.leb 2 pos) with true by (symmetry; apply Nat.leb_le; lia). reflexivity.
Qed.

(* a NULL offered for a NOT NULL column, or a value the column type cannot carry, is refused *)
Lemma write_col_refuses_null cols r v c :
  nth_error cols (pr_col r) = Some c -> is_null v = true ->
  has_flag (c_flags c) NOT_NULL_FLAG = true ->
  p_write_col true cols r v = None.
Proof.
  intros Hn Hv Hf. unfold p_write_col. destruct cols as [|c0 cols0] eqn:Ec.
  - destruct (pr_col r); discriminate Hn.
  - rewrite Hn, Hv, Hf. reflexivity.
Qed.

(* ================= programs ================= *)

Scheme qprog_mind := Induction for qprog Sort Prop
  with rprog_mind := Induction for rprog Sort Prop.
Combined Scheme qrprog_mutind from qprog_mind, rprog_mind.

Lemma p_write_col_col bin cols r v r' : cols <> [] ->
  p_write_col bin cols r v = Some r' -> pr_col r' = S (pr_col r).
Proof.
  intros Hc H. unfold p_write_col in H. destruct cols as [|c0 cols0]; [congruence|].
  destruct bin.
  - destruct (nth_error (c0 :: cols0) (pr_col r)) as [c|]; [|discriminate H].
    destruct (is_null v).
    + destruct (has_flag (c_flags c) NOT_NULL_FLAG); [discriminate H|]. injection H as <-. reflexivity.
    + destruct (to_bin v c); try discriminate H. injection H as <-. reflexivity.
  - destruct (to_text v); try discriminate H. injection H as <-. reflexivity.
Qed.
Lemma p_write_cols_col bin cols vs : cols <> [] -> forall r r',
  p_write_cols bin cols r vs = Some r' -> pr_col r' = (pr_col r + length vs)%nat.
Proof.
  intro Hc. induction vs as [|v vs IH]; intros r r' H; cbn [p_write_cols length] in *.
  - injection H as <-. lia.
  - destruct (p_write_col bin cols r v) as [r1|] eqn:E; [|discriminate H].
    rewrite (IH _ _ H), (p_write_col_col _ _ _ _ _ Hc E). lia.
Qed.

Lemma tcells_defined cols vs : cols <> [] -> forall r r',
  p_write_cols false cols r vs = Some r' -> exists cs, tcells vs = Some cs.
Proof.
  intro Hc. induction vs as [|v vs IH]; intros r r' H; cbn [p_write_cols tcells] in *.
  - eexists; reflexivity.
  - destruct (p_write_col false cols r v) as [r1|] eqn:E; [|discriminate H].
    destruct (p_write_col_text _ _ _ _ Hc E) as (bs & Ht & _).
    destruct (IH _ _ H) as (cs & ->).
    unfold to_text, rbind in Ht. unfold tcell.
    destruct (text_cell v) as [[s|]| |]; try discriminate Ht; eexists; reflexivity.
Qed.
Lemma row_of_defined bin cols cur r : cols <> [] ->
  p_write_cols bin cols prow0 cur = Some r -> exists row, row_of bin cols cur = Some row.
Proof.
  intros Hc H. unfold row_of. destruct bin; [eexists; reflexivity|].
  destruct (tcells_defined _ _ Hc _ _ H) as (cs & ->). eexists; reflexivity.
Qed.
Lemma u_flush_defined bin cols cur done r : cols <> [] ->
  p_write_cols bin cols prow0 cur = Some r -> exists rows, u_flush bin cols cur done = Some rows.
Proof.
  intros Hc H. unfold u_flush. destruct cur as [|v cur']; [eexists; reflexivity|].
  destruct (row_of_defined _ _ _ _ Hc H) as (row & ->). eexists; reflexivity.
Qed.

Lemma oapp_some {A} (l : list A) o x : oapp l o = Some x -> exists l', o = Some l' /\ x = l ++ l'.
Proof. destruct o as [l'|]; cbn [oapp]; intro H; [injection H as <-; eauto | discriminate H]. Qed.

(* equations for a resultset with / without columns *)
Lemma p_end_row_ne bin cols r : cols <> [] ->
  p_end_row bin cols r =
    if negb (Nat.eqb (pr_col r) (length cols)) then None
    else Some ([pr_cur r ++ (if bin then pr_data r else [])], prow0).
Proof. destruct cols; [congruence | reflexivity]. Qed.
Lemma p_write_row_ne bin cols r vs : cols <> [] ->
  p_write_row bin cols r vs =
    match p_write_cols bin cols r vs with
    | Some r' => p_end_row bin cols r' | None => None end.
Proof. destruct cols; [congruence | reflexivity]. Qed.
Lemma p_finish_ne bin cols r : cols <> [] ->
  p_finish bin cols r =
    if Nat.eqb (pr_col r) 0 then Some ([], FEof)
    else match p_end_row bin cols r with
         | Some (m, _) => Some (m, FEof) | None => None end.
Proof. destruct cols; [congruence | reflexivity]. Qed.

Section Prog.
Variable errtab : N -> option (N * bytes).
Variable bin : bool.

Lemma pm_r_FinishError_ne cols r code msg : cols <> [] ->
  pm_r errtab bin cols r (RFinishError code msg) =
    match p_finish bin cols r, err_msg_of errtab code msg with
    | Some (m, _), Some e => Some (m ++ [e])
    | _, _ => None end.
Proof.
  intro Hc. rewrite p_finish_ne by exact Hc. destruct cols as [|c0 cols0]; [congruence|].
  cbn [pm_r pm_q]. destruct (Nat.eqb (pr_col r) 0).
  - destruct (err_msg_of errtab code msg); reflexivity.
  - destruct (p_end_row bin (c0 :: cols0) r) as [[m r']|]; [|reflexivity].
    destruct (err_msg_of errtab code msg); reflexivity.
Qed.

Lemma un_r_WriteCol_ne cols cur done cnt v e k : cols <> [] ->
  un_r errtab bin cols cur done cnt (RWriteCol v e k) = un_r errtab bin cols (cur ++ [v]) done cnt k.
Proof. destruct cols; [congruence | reflexivity]. Qed.
Lemma un_r_EndRow_ne cols cur done cnt e k : cols <> [] ->
  un_r errtab bin cols cur done cnt (REndRow e k) =
    match row_of bin cols cur with
    | Some r => un_r errtab bin cols [] (done ++ [r]) cnt k | None => None end.
Proof. destruct cols; [congruence | reflexivity]. Qed.
Lemma un_r_WriteRow_ne cols cur done cnt vs e k : cols <> [] ->
  un_r errtab bin cols cur done cnt (RWriteRow vs e k) =
    match row_of bin cols (cur ++ vs) with
    | Some r => un_r errtab bin cols [] (done ++ [r]) cnt k | None => None end.
Proof. destruct cols; [congruence | reflexivity]. Qed.
Lemma un_r_Finish_ne cols cur done cnt : cols <> [] ->
  un_r errtab bin cols cur done cnt RFinish =
    match u_flush bin cols cur done with
    | Some rows => Some [URows cols rows] | None => None end.
Proof. destruct cols; [congruence | reflexivity]. Qed.
Lemma un_r_Drop_ne cols cur done cnt : cols <> [] ->
  un_r errtab bin cols cur done cnt RDrop =
    match u_flush bin cols cur done with
    | Some rows => Some [URows cols rows] | None => None end.
Proof. destruct cols; [congruence | reflexivity]. Qed.
Lemma un_r_FinishOne_ne cols cur done cnt k : cols <> [] ->
  un_r errtab bin cols cur done cnt (RFinishOne k) =
    match u_flush bin cols cur done with
    | Some rows => ocons (URows cols rows) (un_q errtab bin k) | None => None end.
Proof. destruct cols; [congruence | reflexivity]. Qed.
Lemma un_r_FinishError_ne cols cur done cnt code msg : cols <> [] ->
  un_r errtab bin cols cur done cnt (RFinishError code msg) =
    match u_flush bin cols cur done, errtab code with
    | Some rows, Some (c, st) => Some [URowsErr cols rows c st msg]
    | _, _ => None end.
Proof. destruct cols; [congruence | reflexivity]. Qed.

Lemma un_r_FinishOne_nil cur done cnt k :
  un_r errtab bin [] cur done cnt (RFinishOne k) = ocons (UOk (N.of_nat cnt) 0) (un_q errtab bin k).
Proof. reflexivity. Qed.
Lemma pm_r_FinishOne cols r k :
  pm_r errtab bin cols r (RFinishOne k) =
    match p_finish bin cols r with
    | Some (m, f) => oapp m (pm_q errtab bin (Some f) k) | None => None end.
Proof. reflexivity. Qed.
Lemma pm_q_Start last cols k :
  pm_q errtab bin last (QStart cols k) =
    oapp (fin_msgs last true ++ match cols with [] => [] | _ => column_definitions_msgs cols end)
         (pm_r errtab bin cols prow0 k).
Proof. reflexivity. Qed.
Lemma un_q_Start cols k : un_q errtab bin (QStart cols k) = un_r errtab bin cols [] [] 0 k.
Proof. reflexivity. Qed.

Lemma err_msg_of_some code msg e : err_msg_of errtab code msg = Some e ->
  exists c st, errtab code = Some (c, st) /\ e = err_body c st msg.
Proof.
  unfold err_msg_of. destruct (errtab code) as [[c st]|]; [|discriminate].
  intro H. injection H as <-. eauto.
Qed.

(* ---- definedness ---- *)
Definition winv (cols : list column) (r : prow) (cur : list value) : Prop :=
  cols <> [] -> p_write_cols bin cols prow0 cur = Some r.

Lemma pm_un_defined_gen :
  (forall p last msgs, pm_q errtab bin last p = Some msgs -> exists units, un_q errtab bin p = Some units) /\
  (forall k cols r cur done cnt msgs, winv cols r cur ->
     pm_r errtab bin cols r k = Some msgs -> exists units, un_r errtab bin cols cur done cnt k = Some units).
Proof.
  apply qrprog_mutind.
  - (* QStart *) intros cols k IH last msgs H. rewrite pm_q_Start in H. rewrite un_q_Start.
    apply oapp_some in H. destruct H as (l' & H & _).
    apply (IH cols prow0 [] [] 0%nat l'); [|exact H]. intros _. reflexivity.
  - (* QCompleteOne *) intros rows id k IH last msgs H. cbn [pm_q pm_r un_q un_r] in *.
    apply oapp_some in H. destruct H as (l' & H & _).
    destruct (IH _ _ H) as (us & ->). eexists; reflexivity.
  - intros; eexists; reflexivity.
  - intros code msg last msgs H. cbn [pm_q pm_r un_q un_r] in *. unfold err_unit.
    destruct (err_msg_of errtab code msg) as [e|] eqn:E; [|discriminate H].
    destruct (err_msg_of_some _ _ _ E) as (c & st & -> & _). eexists; reflexivity.
  - intros; eexists; reflexivity.
  - intros; eexists; reflexivity.
  - (* RWriteCol *) intros v e k IH cols r cur done cnt msgs Hinv H. cbn [pm_r pm_q] in H.
    destruct (p_write_col bin cols r v) as [r'|] eqn:E; [|discriminate H].
    destruct cols as [|c0 cols0] eqn:Ec.
    + cbn [un_r un_q]. apply (IH [] r' cur done cnt msgs); [intro; congruence | exact H].
    + rewrite <- Ec in *. assert (Hc : cols <> []) by congruence.
      rewrite un_r_WriteCol_ne by exact Hc. apply (IH cols r' _ done cnt msgs); [|exact H].
      intros _. rewrite p_write_cols_app, (Hinv Hc). cbn [p_write_cols]. rewrite E. reflexivity.
  - (* REndRow *) intros e k IH cols r cur done cnt msgs Hinv H. cbn [pm_r pm_q] in H.
    destruct (p_end_row bin cols r) as [[m r']|] eqn:E; [|discriminate H].
    apply oapp_some in H. destruct H as (l' & H & _).
    destruct cols as [|c0 cols0] eqn:Ec.
    + cbn [un_r un_q]. apply (IH [] r' cur done (S cnt) l'); [intro; congruence | exact H].
    + rewrite <- Ec in *. assert (Hc : cols <> []) by congruence.
      rewrite un_r_EndRow_ne by exact Hc.
      destruct (row_of_defined _ _ _ _ Hc (Hinv Hc)) as (row & ->).
      rewrite p_end_row_ne in E by exact Hc.
      destruct (negb (Nat.eqb (pr_col r) (length cols))); [discriminate E|]. injection E as _ <-.
      apply (IH cols prow0 [] _ cnt l'); [|exact H]. intros _. reflexivity.
  - (* RWriteRow *) intros vs e k IH cols r cur done cnt msgs Hinv H. cbn [pm_r pm_q] in H.
    destruct (p_write_row bin cols r vs) as [[m r']|] eqn:E; [|discriminate H].
    apply oapp_some in H. destruct H as (l' & H & _).
    destruct cols as [|c0 cols0] eqn:Ec.
    + cbn [un_r un_q]. apply (IH [] r' cur done (S cnt) l'); [intro; congruence | exact H].
    + rewrite <- Ec in *. assert (Hc : cols <> []) by congruence.
      rewrite un_r_WriteRow_ne by exact Hc. rewrite p_write_row_ne in E by exact Hc.
      destruct (p_write_cols bin cols r vs) as [r1|] eqn:E1; [|discriminate E].
      assert (Hw : p_write_cols bin cols prow0 (cur ++ vs) = Some r1).
      { rewrite p_write_cols_app, (Hinv Hc). exact E1. }
      destruct (row_of_defined _ _ _ _ Hc Hw) as (row & ->).
      rewrite p_end_row_ne in E by exact Hc.
      destruct (negb (Nat.eqb (pr_col r1) (length cols))); [discriminate E|]. injection E as _ <-.
      apply (IH cols prow0 [] _ cnt l'); [|exact H]. intros _. reflexivity.
  - (* RFinish *) intros cols r cur done cnt msgs Hinv H.
    destruct cols as [|c0 cols0] eqn:Ec; [eexists; reflexivity|].
    rewrite <- Ec in *. assert (Hc : cols <> []) by congruence.
    rewrite un_r_Finish_ne by exact Hc.
    destruct (u_flush_defined _ _ _ done _ Hc (Hinv Hc)) as (rows & ->). eexists; reflexivity.
  - (* RFinishOne *) intros k IH cols r cur done cnt msgs Hinv H. rewrite pm_r_FinishOne in H.
    destruct (p_finish bin cols r) as [[m f]|]; [|discriminate H].
    apply oapp_some in H. destruct H as (l' & H & _). destruct (IH _ _ H) as (us & Hus).
    destruct cols as [|c0 cols0] eqn:Ec; [rewrite un_r_FinishOne_nil, Hus; eexists; reflexivity|].
    rewrite <- Ec in *. assert (Hc : cols <> []) by congruence.
    rewrite un_r_FinishOne_ne by exact Hc.
    destruct (u_flush_defined _ _ _ done _ Hc (Hinv Hc)) as (rows & ->). rewrite Hus.
    eexists; reflexivity.
  - (* RFinishError *) intros code msg cols r cur done cnt msgs Hinv H.
    destruct cols as [|c0 cols0] eqn:Ec.
    + cbn [pm_q pm_r un_q un_r] in *. unfold err_unit.
      destruct (err_msg_of errtab code msg) as [e|] eqn:E; [|discriminate H].
      destruct (err_msg_of_some _ _ _ E) as (c & st & -> & _). eexists; reflexivity.
    + rewrite <- Ec in *. assert (Hc : cols <> []) by congruence.
      rewrite pm_r_FinishError_ne in H by exact Hc. rewrite un_r_FinishError_ne by exact Hc.
      destruct (u_flush_defined _ _ _ done _ Hc (Hinv Hc)) as (rows & ->).
      destruct (p_finish bin cols r) as [[m f]|]; [|discriminate H].
      destruct (err_msg_of errtab code msg) as [e|] eqn:E; [|discriminate H].
      destruct (err_msg_of_some _ _ _ E) as (c & st & -> & _). eexists; reflexivity.
  - (* RDrop *) intros cols r cur done cnt msgs Hinv H.
    destruct cols as [|c0 cols0] eqn:Ec; [eexists; reflexivity|].
    rewrite <- Ec in *. assert (Hc : cols <> []) by congruence.
    rewrite un_r_Drop_ne by exact Hc.
    destruct (u_flush_defined _ _ _ done _ Hc (Hinv Hc)) as (rows & ->). eexists; reflexivity.
Qed.

Lemma ocons_nonempty {A} (x : A) o l : ocons x o = Some l -> l <> [].
Proof. destruct o; cbn [ocons]; intro H; [injection H as <-; discriminate | discriminate H]. Qed.

Lemma un_r_nonempty k : forall cols cur done cnt units,
  un_r errtab bin cols cur done cnt k = Some units -> units <> [].
Proof.
  induction k as [v e k IH|e k IH|vs e k IH| |k|code msg|]; intros cols cur done cnt units H.
  - cbn [un_r] in H. destruct cols; eapply IH; exact H.
  - cbn [un_r] in H. destruct cols; [eapply IH; exact H|].
    destruct (row_of bin (c :: cols) cur); [eapply IH; exact H | discriminate H].
  - cbn [un_r] in H. destruct cols; [eapply IH; exact H|].
    destruct (row_of bin (c :: cols) (cur ++ vs)); [eapply IH; exact H | discriminate H].
  - cbn [un_r] in H. destruct cols; [injection H as <-; discriminate|].
    destruct (u_flush bin (c :: cols) cur done); [injection H as <-; discriminate | discriminate H].
  - destruct cols.
    + rewrite un_r_FinishOne_nil in H. eapply ocons_nonempty; exact H.
    + rewrite un_r_FinishOne_ne in H by discriminate.
      destruct (u_flush bin (c :: cols) cur done); [|discriminate H].
      eapply ocons_nonempty; exact H.
  - cbn [un_r] in H. destruct cols.
    + destruct (err_unit errtab code msg); [injection H as <-; discriminate | discriminate H].
    + destruct (u_flush bin (c :: cols) cur done); [|discriminate H].
      destruct (errtab code) as [[c0 st]|]; [injection H as <-; discriminate | discriminate H].
  - cbn [un_r] in H. destruct cols; [injection H as <-; discriminate|].
    destruct (u_flush bin (c :: cols) cur done); [injection H as <-; discriminate | discriminate H].
Qed.

End Prog.

(* when the messages exist, so do the units (same success conditions) *)
Lemma pm_un_defined errtab bin p msgs :
  pm_q errtab bin None p = Some msgs -> exists units, un_q errtab bin p = Some units.
Proof. apply (proj1 (pm_un_defined_gen errtab bin)). Qed.

(* a program that does anything but drop the fresh writer produces a non-empty response *)
Lemma un_q_nonempty errtab bin p units :
  un_q errtab bin p = Some units -> units = [] -> p = QDrop \/ p = QNoMore.
Proof.
  intros H ->. destruct p as [cols k|r i k|r i|code msg| |]; cbn [un_q] in H; auto; exfalso.
  - exact (un_r_nonempty _ _ _ _ _ _ _ _ H eq_refl).
  - exact (ocons_nonempty _ _ _ H eq_refl).
  - discriminate H.
  - destruct (err_unit errtab code msg); discriminate H.
Qed.

(* ================= the client on messages ================= *)

Lemma byte_eqb_neq a b : a <> b -> byte_eqb a b = false.
Proof.
  intro H. destruct (byte_eqb a b) eqn:E; [|reflexivity]. apply byte_eqb_eq in E. contradiction.
Qed.

Definition after_rows (f : nat) (bin : bool) (cols : list column) (pre : list rowdata)
    (x : list rowdata * rows_end * list bytes) : option (list unit_ * list bytes) :=
  let '(rows, en, r3) := x in
  match en with
  | EndErr er => Some ([URowsErr cols (pre ++ rows) (err_code er) (err_state er) (err_msg er)], r3)
  | EndEof st =>
      if more st then
        obind (c_response f bin r3) (fun '(us, rest) => Some (URows cols (pre ++ rows) :: us, rest))
      else Some ([URows cols (pre ++ rows)], r3)
  end.

Lemma after_rows_cons f bin cols pre row o :
  obind (obind o (fun '(rows, e, rest) => Some (row :: rows, e, rest))) (after_rows f bin cols pre) =
  obind o (after_rows f bin cols (pre ++ [row])).
Proof.
  destruct o as [[[rows e] rest]|]; [|reflexivity]. cbn [obind after_rows].
  rewrite <- app_assoc. reflexivity.
Qed.

Lemma c_rows_head bin cols b m' tl :
  c_rows bin cols ((b :: m') :: tl) =
    if byte_eqb b xff then obind (c_err (b :: m')) (fun e => Some ([], EndErr e, tl))
    else if byte_eqb b xfe && (length (b :: m') <? 9)%nat then
      obind (c_eof (b :: m')) (fun st => Some ([], EndEof st, tl))
    else
      obind (if bin then obind (c_bin_row cols (b :: m')) (fun vs => Some (RBin vs))
             else obind (c_text_row (length cols) (b :: m')) (fun cs => Some (RText cs))) (fun row =>
      obind (c_rows bin cols tl) (fun '(rows, e, rest) => Some (row :: rows, e, rest))).
Proof. reflexivity. Qed.

Lemma c_rows_eof bin cols st tl : st < 65536 ->
  c_rows bin cols (eof_body st :: tl) = Some ([], EndEof st, tl).
Proof.
  intro H. change (eof_body st) with (xfe :: x00 :: x00 :: le_bytes 2 st).
  rewrite c_rows_head. change (byte_eqb xfe xff) with false. change (byte_eqb xfe xfe) with true.
  cbv iota. change (xfe :: x00 :: x00 :: le_bytes 2 st) with (eof_body st).
  destruct (eof_shape st) as (t & _ & ->). change (5 <? 9)%nat with true. cbn [andb].
  rewrite eof_roundtrip by exact H. reflexivity.
Qed.
Lemma c_rows_err bin cols c st msg tl : c < 65536 -> length st = 5%nat ->
  c_rows bin cols (err_body c st msg :: tl) =
    Some ([], EndErr {| err_code := c; err_state := st; err_msg := msg |}, tl).
Proof.
  intros Hc Hs. change (err_body c st msg) with (xff :: (le_bytes 2 c ++ x23 :: st ++ msg)).
  rewrite c_rows_head. change (byte_eqb xff xff) with true. cbv iota.
  change (xff :: (le_bytes 2 c ++ x23 :: st ++ msg)) with (err_body c st msg).
  rewrite err_roundtrip by assumption. reflexivity.
Qed.
Lemma c_rows_row (bin : bool) cols b m' tl row :
  byte_eqb b xff = false -> byte_eqb b xfe && (length (b :: m') <? 9)%nat = false ->
  (if bin then obind (c_bin_row cols (b :: m')) (fun vs => Some (RBin vs))
   else obind (c_text_row (length cols) (b :: m')) (fun cs => Some (RText cs))) = Some row ->
  c_rows bin cols ((b :: m') :: tl) =
    obind (c_rows bin cols tl) (fun '(rows, e, rest) => Some (row :: rows, e, rest)).
Proof. intros H1 H2 H3. rewrite c_rows_head, H1, H2, H3. reflexivity. Qed.

Lemma c_response_head f bin b m' tl :
  c_response (S f) bin ((b :: m') :: tl) =
    if byte_eqb b x00 then
      obind (c_ok (b :: m')) (fun ok =>
        if more (ok_status ok) then
          obind (c_response f bin tl) (fun '(us, rest) => Some (UOk (ok_rows ok) (ok_id ok) :: us, rest))
        else Some ([UOk (ok_rows ok) (ok_id ok)], tl))
    else if byte_eqb b xff then
      obind (c_err (b :: m')) (fun e => Some ([UErr (err_code e) (err_state e) (err_msg e)], tl))
    else
      match c_lenenc (b :: m') with
      | Some (n, []) =>
        if n =? 0 then None else
        obind (c_coldefs (N.to_nat n) tl) (fun '(cols, r1) =>
        match r1 with
        | [] => None
        | e :: r2 =>
          obind (c_eof e) (fun _ => obind (c_rows bin cols r2) (after_rows f bin cols []))
        end)
      | _ => None
      end.
Proof. reflexivity. Qed.

Lemma c_response_ok f bin r i st tl : r < 2 ^ 64 -> i < 2 ^ 64 -> st < 65536 ->
  c_response (S f) bin (ok_body r i st :: tl) =
    if more st then obind (c_response f bin tl) (fun '(us, rest) => Some (UOk r i :: us, rest))
    else Some ([UOk r i], tl).
Proof.
  intros Hr Hi Hs.
  change (ok_body r i st) with (x00 :: (lenenc r ++ lenenc i ++ le_bytes 2 st ++ [x00; x00])).
  rewrite c_response_head. change (byte_eqb x00 x00) with true. cbv iota.
  change (x00 :: (lenenc r ++ lenenc i ++ le_bytes 2 st ++ [x00; x00])) with (ok_body r i st).
  rewrite ok_roundtrip by assumption. reflexivity.
Qed.
Lemma c_response_err f bin c st msg tl : c < 65536 -> length st = 5%nat ->
  c_response (S f) bin (err_body c st msg :: tl) = Some ([UErr c st msg], tl).
Proof.
  intros Hc Hs. change (err_body c st msg) with (xff :: (le_bytes 2 c ++ x23 :: st ++ msg)).
  rewrite c_response_head. change (byte_eqb xff x00) with false. change (byte_eqb xff xff) with true.
  cbv iota. change (xff :: (le_bytes 2 c ++ x23 :: st ++ msg)) with (err_body c st msg).
  rewrite err_roundtrip by assumption. reflexivity.
Qed.
Lemma c_response_cols f bin cols tl :
  cols <> [] -> Nlen cols < 2 ^ 64 -> Forall col_ok cols ->
  c_response (S f) bin (column_definitions_msgs cols ++ tl) =
    obind (c_rows bin cols tl) (after_rows f bin cols []).
Proof.
  intros Hc Hn F. rewrite column_definitions_shape. cbn [app].
  destruct (lenenc_head (Nlen cols) Hn) as (b & t & E & _ & Nff & Z0 & _).
  assert (Hnz : Nlen cols <> 0) by (intro H0; apply Nlen_0 in H0; contradiction).
  pose proof (lenenc_roundtrip (Nlen cols) [] Hn) as Hrt. rewrite app_nil_r in Hrt.
  rewrite E in *. rewrite c_response_head.
  rewrite (byte_eqb_neq b x00) by (intro Hb; apply Z0 in Hb; contradiction).
  rewrite (byte_eqb_neq b xff) by exact Nff. rewrite Hrt.
  destruct (N.eqb_spec (Nlen cols) 0) as [H0|_]; [contradiction|].
  rewrite Nlen_to_nat, <- app_assoc, coldefs_roundtrip by exact F. cbn [obind app].
  rewrite eof_roundtrip by reflexivity. reflexivity.
Qed.

Lemma more_status b : more (status_of b) = b.
Proof. destruct b; reflexivity. Qed.
Lemma status_lt b : status_of b < 65536.
Proof. destruct b; reflexivity. Qed.

(* ---- heads of row messages ---- *)
Lemma text_head v bs : text_ok v -> to_text v = ROk bs ->
  exists b tl, bs = b :: tl /\ byte_eqb b xff = false /\
    forall more, byte_eqb b xfe && (length (bs ++ more) <? 9)%nat = false.
Proof.
  unfold text_ok, to_text, rbind. intros Hok H.
  destruct (text_cell v) as [[s|]| |]; try discriminate H; injection H as <-; cbn [enc_cell].
  - unfold lenenc_str. destruct (lenenc_head (Nlen s) Hok) as (b & t & E & _ & Nff & _ & Hfe).
    rewrite E. exists b, (t ++ s). split; [reflexivity|]. split; [apply byte_eqb_neq, Nff|].
    intro more. destruct (byte_eqb b xfe) eqn:Eb; [|reflexivity]. cbn [andb].
    apply byte_eqb_eq in Eb. specialize (Hfe Eb). rewrite pow2_24 in Hfe. unfold Nlen in Hfe.
    apply Nat.ltb_ge. cbn [app length]. rewrite !app_length. lia.
  - exists xfb, []. repeat split.
Qed.

(* ---- a finished row, as the client reads it ---- *)
Lemma end_row_client bin cols r cur ms r' row :
  cols <> [] -> p_write_cols bin cols prow0 cur = Some r ->
  Forall val_ok cur -> Forall text_ok cur ->
  p_end_row bin cols r = Some (ms, r') -> row_of bin cols cur = Some row ->
  r' = prow0 /\ exists b m', ms = [b :: m'] /\
    forall tl, c_rows bin cols ((b :: m') :: tl) =
      obind (c_rows bin cols tl) (fun '(rows, e, rest) => Some (row :: rows, e, rest)).
Proof.
  intros Hc Hw Fv Ft He Hrow. rewrite p_end_row_ne in He by exact Hc.
  destruct (Nat.eqb_spec (pr_col r) (length cols)) as [Hcol|]; [|discriminate He].
  cbn [negb] in He. injection He as <- <-. split; [reflexivity|].
  pose proof (p_write_cols_col _ _ _ Hc _ _ Hw) as Hlen. cbn [prow0 pr_col Nat.add] in Hlen.
  assert (Hl : length cur = length cols) by congruence.
  destruct bin.
  - destruct (bin_row_shape cols cur r Hc Hl Hw) as (vals & _ & Hcur & _ & _).
    pose proof (bin_row_decode' cols cur r Hc Hl Fv Hw) as Hd.
    rewrite Hcur in *. cbn [app] in *. exists x00, (pr_data r). split; [reflexivity|].
    intro tl. apply c_rows_row; [reflexivity | reflexivity |].
    rewrite Hd. cbn [obind]. unfold row_of in Hrow. exact Hrow.
  - destruct (text_row_decode cols cur r Hc Hl Ft Hw) as (cs & Hcs & Hd).
    unfold row_of in Hrow. rewrite Hcs in Hrow. injection Hrow as <-.
    destruct cur as [|v cur'].
    { destruct cols; [congruence | discriminate Hl]. }
    cbn [p_write_cols] in Hw.
    destruct (p_write_col false cols prow0 v) as [r1|] eqn:E1; [|discriminate Hw].
    destruct (p_write_col_text _ _ _ _ Hc E1) as (bs & Hbs & ->).
    inversion Ft as [|? ? Ftv Ftc]; subst.
    destruct (text_cells_gen cols cur' Hc _ _ Ftc Hw) as (_ & bs' & _ & Hcur & _).
    cbn [pr_cur prow0 app] in Hcur.
    destruct (text_head v bs Ftv Hbs) as (b & t & -> & Hff & Hfe).
    rewrite app_nil_r. rewrite Hcur in *. cbn [app] in *.
    exists b, (t ++ bs'). split; [reflexivity|].
    intro tl. apply c_rows_row; [exact Hff | exact (Hfe bs') |].
    rewrite Hd. reflexivity.
Qed.

Lemma flush_client bin cols r cur done ms fz rows :
  cols <> [] -> p_write_cols bin cols prow0 cur = Some r ->
  Forall val_ok cur -> Forall text_ok cur ->
  p_finish bin cols r = Some (ms, fz) -> u_flush bin cols cur done = Some rows ->
  fz = FEof /\ forall f tl,
    obind (c_rows bin cols (ms ++ tl)) (after_rows f bin cols done) =
    obind (c_rows bin cols tl) (after_rows f bin cols rows).
Proof.
  intros Hc Hw Fv Ft Hf Hu. rewrite p_finish_ne in Hf by exact Hc.
  pose proof (p_write_cols_col _ _ _ Hc _ _ Hw) as Hlen. cbn [prow0 pr_col Nat.add] in Hlen.
  unfold u_flush in Hu. destruct cur as [|v cur'] eqn:Ecur.
  - rewrite Hlen in Hf. cbn [length Nat.eqb] in Hf. injection Hf as <- <-. injection Hu as <-.
    split; reflexivity.
  - rewrite <- Ecur in *.
    assert (Hnz : Nat.eqb (pr_col r) 0 = false) by (rewrite Hlen, Ecur; reflexivity).
    rewrite Hnz in Hf.
    destruct (p_end_row bin cols r) as [[m r']|] eqn:Ee; [|discriminate Hf]. injection Hf as <- <-.
    destruct (row_of bin cols cur) as [row|] eqn:Er; [|discriminate Hu]. injection Hu as <-.
    destruct (end_row_client _ _ _ _ _ _ _ Hc Hw Fv Ft Ee Er) as (_ & b & m' & -> & Hrows).
    split; [reflexivity|]. intros f tl. cbn [app]. rewrite Hrows. apply after_rows_cons.
Qed.

(* ================= the main induction ================= *)
Definition qflag (p : qprog) : bool := match p with QNoMore | QDrop => false | _ => true end.

Section Main.
Variable errtab : N -> option (N * bytes).
Variable bin : bool.
Hypothesis Het : errtab_ok errtab.

Lemma pm_q_CompleteOne last r i k :
  pm_q errtab bin last (QCompleteOne r i k) =
    oapp (fin_msgs last true) (pm_q errtab bin (Some (FOk r i)) k).
Proof. reflexivity. Qed.
Lemma un_q_CompleteOne r i k :
  un_q errtab bin (QCompleteOne r i k) = ocons (UOk r i) (un_q errtab bin k).
Proof. reflexivity. Qed.

Lemma pm_q_last last p msgs : pm_q errtab bin last p = Some msgs ->
  exists msgs', pm_q errtab bin None p = Some msgs' /\ msgs = fin_msgs last (qflag p) ++ msgs'.
Proof.
  intro H. destruct p as [cols k|r i k|r i|code msg| |].
  - rewrite pm_q_Start in *. apply oapp_some in H. destruct H as (l' & -> & ->).
    cbn [fin_msgs app oapp qflag]. eexists. split; [reflexivity|]. rewrite app_assoc. reflexivity.
  - rewrite pm_q_CompleteOne in *. apply oapp_some in H. destruct H as (l' & -> & ->).
    cbn [fin_msgs app oapp qflag]. eexists. split; reflexivity.
  - cbn [pm_q] in *. injection H as <-. eexists. split; reflexivity.
  - cbn [pm_q] in *. destruct (err_msg_of errtab code msg); [|discriminate H]. injection H as <-.
    eexists. split; reflexivity.
  - cbn [pm_q] in *. injection H as <-. exists []. cbn [fin_msgs qflag]. rewrite app_nil_r.
    split; reflexivity.
  - cbn [pm_q] in *. injection H as <-. exists []. cbn [fin_msgs qflag]. rewrite app_nil_r.
    split; reflexivity.
Qed.
Lemma qflag_false p msgs units : qflag p = false ->
  pm_q errtab bin None p = Some msgs -> un_q errtab bin p = Some units -> msgs = [] /\ units = [].
Proof.
  destruct p; try discriminate; intros _ H1 H2; cbn [pm_q un_q fin_msgs] in *;
    injection H1 as <-; injection H2 as <-; split; reflexivity.
Qed.

Definition chain_res (fl : bool) (msgs' : list bytes) (us : list unit_) : Prop :=
  if fl then forall fuel rest, (length msgs' < fuel)%nat ->
              c_response fuel bin (msgs' ++ rest) = Some (us, rest)
  else msgs' = [] /\ us = [].

Lemma ok_chain fl msgs' us r i fuel rest :
  chain_res fl msgs' us -> r < 2 ^ 64 -> i < 2 ^ 64 -> (S (length msgs') < fuel)%nat ->
  c_response fuel bin ((ok_body r i (status_of fl) :: msgs') ++ rest) = Some (UOk r i :: us, rest).
Proof.
  intros Hch Hr Hi Hf. destruct fuel as [|f]; [lia|]. cbn [app].
  rewrite c_response_ok by (try assumption; apply status_lt). rewrite more_status.
  unfold chain_res in Hch. destruct fl.
  - rewrite Hch by lia. reflexivity.
  - destruct Hch as (-> & ->). reflexivity.
Qed.
Lemma eof_chain fl msgs' us cols rows f rest :
  chain_res fl msgs' us -> (length msgs' < f)%nat ->
  obind (c_rows bin cols ((eof_body (status_of fl) :: msgs') ++ rest)) (after_rows f bin cols rows) =
    Some (URows cols rows :: us, rest).
Proof.
  intros Hch Hf. cbn [app]. rewrite c_rows_eof by apply status_lt. cbn [obind after_rows].
  rewrite more_status, app_nil_r. unfold chain_res in Hch. destruct fl.
  - rewrite Hch by lia. reflexivity.
  - destruct Hch as (-> & ->). reflexivity.
Qed.

Definition P_q (p : qprog) : Prop :=
  forall msgs units, qprog_ok p -> N.of_nat (qsize p) < 2 ^ 64 -> qflag p = true ->
    pm_q errtab bin None p = Some msgs -> un_q errtab bin p = Some units ->
    forall fuel rest, (length msgs < fuel)%nat ->
      c_response fuel bin (msgs ++ rest) = Some (units, rest).
Definition P_r (k : rprog) : Prop :=
  forall cols r cur done cnt msgs units, rprog_ok k -> N.of_nat (cnt + rsize k) < 2 ^ 64 ->
    pm_r errtab bin cols r k = Some msgs -> un_r errtab bin cols cur done cnt k = Some units ->
    (cols = [] -> pr_col r = cnt -> forall fuel rest, (length msgs < fuel)%nat ->
       c_response fuel bin (msgs ++ rest) = Some (units, rest)) /\
    (cols <> [] -> p_write_cols bin cols prow0 cur = Some r ->
     Forall val_ok cur -> Forall text_ok cur -> forall f rest, (length msgs <= f)%nat ->
       obind (c_rows bin cols (msgs ++ rest)) (after_rows f bin cols done) = Some (units, rest)).

Lemma chain k f0 msgsq us : P_q k -> qprog_ok k -> N.of_nat (qsize k) < 2 ^ 64 ->
  pm_q errtab bin (Some f0) k = Some msgsq -> un_q errtab bin k = Some us ->
  exists msgs', msgsq = fin_msgs (Some f0) (qflag k) ++ msgs' /\ chain_res (qflag k) msgs' us.
Proof.
  intros IH Hok Hsz Hpm Hun. destruct (pm_q_last _ _ _ Hpm) as (msgs' & Hpm' & ->).
  exists msgs'. split; [reflexivity|]. unfold chain_res. destruct (qflag k) eqn:Efl.
  - intros fuel rest Hf. apply (IH msgs' us Hok Hsz Efl Hpm' Hun fuel rest Hf).
  - exact (qflag_false _ _ _ Efl Hpm' Hun).
Qed.

Lemma errtab_unit code msg e u : err_msg_of errtab code msg = Some e -> err_unit errtab code msg = Some u ->
  exists c st, e = err_body c st msg /\ u = UErr c st msg /\ c < 65536 /\ length st = 5%nat.
Proof.
  unfold err_msg_of, err_unit. destruct (errtab code) as [[c st]|] eqn:E; [|discriminate].
  intros H1 H2. injection H1 as <-. injection H2 as <-. destruct (Het _ _ _ E) as (Hc & Hs).
  exists c, st. repeat split; assumption.
Qed.

Lemma oapp_nil {A} (o : option (list A)) : oapp [] o = o.
Proof. destruct o; reflexivity. Qed.

Lemma main_ind : (forall p, P_q p) /\ (forall k, P_r k).
Proof.
  apply qrprog_mutind.
  - (* QStart *)
    intros cols k IH msgs units Hok Hsz _ Hpm Hun fuel rest Hf.
    rewrite pm_q_Start in Hpm. rewrite un_q_Start in Hun. cbn [fin_msgs app] in Hpm.
    cbn [qprog_ok] in Hok. destruct Hok as (Hn & Fc & Hk). cbn [qsize] in Hsz.
    apply oapp_some in Hpm. destruct Hpm as (rm & Hpm & ->).
    destruct (IH cols prow0 [] [] 0%nat rm units Hk ltac:(cbn [Nat.add]; lia) Hpm Hun) as (IH0 & IH1).
    destruct cols as [|c0 cols0] eqn:Ec.
    + cbn [app]. apply IH0; [reflexivity | reflexivity | exact Hf].
    + rewrite <- Ec in *. assert (Hc : cols <> []) by congruence.
      destruct fuel as [|f]; [lia|]. rewrite <- app_assoc.
      rewrite c_response_cols by assumption.
      apply IH1; try assumption; try constructor. rewrite app_length in Hf. lia.
  - (* QCompleteOne *)
    intros r i k IH msgs units Hok Hsz _ Hpm Hun fuel rest Hf.
    rewrite pm_q_CompleteOne in Hpm. rewrite un_q_CompleteOne in Hun. cbn [fin_msgs] in Hpm.
    rewrite oapp_nil in Hpm. cbn [qprog_ok] in Hok. destruct Hok as (Hr & Hi & Hk). cbn [qsize] in Hsz.
    destruct (un_q errtab bin k) as [us|] eqn:Eus; [|discriminate Hun]. injection Hun as <-.
    destruct (chain k _ _ _ IH Hk ltac:(lia) Hpm Eus) as (msgs' & -> & Hch).
    cbn [fin_msgs app]. apply ok_chain; try assumption; cbn [fin_msgs app length] in Hf; lia.
  - (* QCompleted *)
    intros r i msgs units Hok _ _ Hpm Hun fuel rest Hf. cbn [pm_q un_q fin_msgs app] in *.
    injection Hpm as <-. injection Hun as <-. destruct Hok as (Hr & Hi).
    destruct fuel as [|f]; [cbn [length] in Hf; lia|]. cbn [app].
    rewrite c_response_ok by (try assumption; reflexivity). reflexivity.
  - (* QError *)
    intros code msg msgs units _ _ _ Hpm Hun fuel rest Hf. cbn [pm_q un_q fin_msgs app] in *.
    destruct (err_msg_of errtab code msg) as [e|] eqn:Ee; [|discriminate Hpm]. injection Hpm as <-.
    destruct (err_unit errtab code msg) as [u|] eqn:Eu; [|discriminate Hun]. injection Hun as <-.
    destruct (errtab_unit _ _ _ _ Ee Eu) as (c & st & -> & -> & Hc & Hs).
    destruct fuel as [|f]; [cbn [length] in Hf; lia|]. cbn [app].
    apply c_response_err; assumption.
  - intros msgs units _ _ Hfl. discriminate Hfl.
  - intros msgs units _ _ Hfl. discriminate Hfl.
  - (* RWriteCol *)
    intros v e k IH cols r cur done cnt msgs units Hok Hsz Hpm Hun.
    cbn [rprog_ok] in Hok. destruct Hok as (Hv & Ht & Hk). cbn [rsize] in Hsz.
    cbn [pm_r] in Hpm. destruct (p_write_col bin cols r v) as [r'|] eqn:E; [|discriminate Hpm].
    split.
    + intros -> Hcnt. cbn [un_r] in Hun. cbn [p_write_col] in E. injection E as <-.
      apply (proj1 (IH [] r cur done cnt msgs units Hk ltac:(lia) Hpm Hun) eq_refl Hcnt).
    + intros Hc Hw Fv Ft. rewrite un_r_WriteCol_ne in Hun by exact Hc.
      apply (proj2 (IH cols r' (cur ++ [v]) done cnt msgs units Hk ltac:(lia) Hpm Hun) Hc).
      * rewrite p_write_cols_app, Hw. cbn [p_write_cols]. rewrite E. reflexivity.
      * apply Forall_app. split; [exact Fv | constructor; [exact Hv | constructor]].
      * apply Forall_app. split; [exact Ft | constructor; [exact Ht | constructor]].
  - (* REndRow *)
    intros e k IH cols r cur done cnt msgs units Hok Hsz Hpm Hun.
    cbn [rprog_ok] in Hok. cbn [rsize] in Hsz. cbn [pm_r] in Hpm.
    destruct (p_end_row bin cols r) as [[m r']|] eqn:E; [|discriminate Hpm].
    apply oapp_some in Hpm. destruct Hpm as (rm & Hpm & ->).
    split.
    + intros -> Hcnt. cbn [un_r] in Hun. cbn [p_end_row] in E. injection E as <- <-. cbn [app].
      apply (proj1 (IH [] _ cur done (S cnt) rm units Hok ltac:(lia) Hpm Hun) eq_refl).
      cbn [pr_col]. congruence.
    + intros Hc Hw Fv Ft f rest Hf. rewrite un_r_EndRow_ne in Hun by exact Hc.
      destruct (row_of bin cols cur) as [row|] eqn:Er; [|discriminate Hun].
      destruct (end_row_client _ _ _ _ _ _ _ Hc Hw Fv Ft E Er) as (-> & b & m' & -> & Hrows).
      cbn [app]. rewrite Hrows, after_rows_cons.
      apply (proj2 (IH cols prow0 [] (done ++ [row]) cnt rm units Hok ltac:(lia) Hpm Hun) Hc);
        try constructor. cbn [app length] in Hf. lia.
  - (* RWriteRow *)
    intros vs e k IH cols r cur done cnt msgs units Hok Hsz Hpm Hun.
    cbn [rprog_ok] in Hok. destruct Hok as (Hv & Ht & Hk). cbn [rsize] in Hsz. cbn [pm_r] in Hpm.
    destruct (p_write_row bin cols r vs) as [[m r']|] eqn:E; [|discriminate Hpm].
    apply oapp_some in Hpm. destruct Hpm as (rm & Hpm & ->).
    split.
    + intros -> Hcnt. cbn [un_r] in Hun. cbn [p_write_row p_end_row] in E. injection E as <- <-.
      cbn [app].
      apply (proj1 (IH [] _ cur done (S cnt) rm units Hk ltac:(lia) Hpm Hun) eq_refl).
      cbn [pr_col]. congruence.
    + intros Hc Hw Fv Ft f rest Hf. rewrite un_r_WriteRow_ne in Hun by exact Hc.
      rewrite p_write_row_ne in E by exact Hc.
      destruct (p_write_cols bin cols r vs) as [r1|] eqn:E1; [|discriminate E].
      assert (Hw1 : p_write_cols bin cols prow0 (cur ++ vs) = Some r1).
      { rewrite p_write_cols_app, Hw. exact E1. }
      assert (Fv1 : Forall val_ok (cur ++ vs)) by (apply Forall_app; split; assumption).
      assert (Ft1 : Forall text_ok (cur ++ vs)) by (apply Forall_app; split; assumption).
      destruct (row_of bin cols (cur ++ vs)) as [row|] eqn:Er; [|discriminate Hun].
      destruct (end_row_client _ _ _ _ _ _ _ Hc Hw1 Fv1 Ft1 E Er) as (-> & b & m' & -> & Hrows).
      cbn [app]. rewrite Hrows, after_rows_cons.
      apply (proj2 (IH cols prow0 [] (done ++ [row]) cnt rm units Hk ltac:(lia) Hpm Hun) Hc);
        try constructor. cbn [app length] in Hf. lia.
  - (* RFinish *)
    intros cols r cur done cnt msgs units _ Hsz Hpm Hun. cbn [rsize] in Hsz. cbn [pm_r] in Hpm.
    destruct (p_finish bin cols r) as [[m fz]|] eqn:E; [|discriminate Hpm]. injection Hpm as <-.
    split.
    + intros -> Hcnt fuel rest Hf. cbn [un_r] in Hun. injection Hun as <-.
      cbn [p_finish] in E. injection E as <- <-. cbn [fin_msgs app status_of] in *.
      destruct fuel as [|f]; [lia|]. rewrite Hcnt.
      rewrite c_response_ok by (try reflexivity; lia). reflexivity.
    + intros Hc Hw Fv Ft f rest Hf. rewrite un_r_Finish_ne in Hun by exact Hc.
      destruct (u_flush bin cols cur done) as [rows|] eqn:Eu; [|discriminate Hun]. injection Hun as <-.
      destruct (flush_client _ _ _ _ _ _ _ _ Hc Hw Fv Ft E Eu) as (-> & Hfl).
      rewrite <- app_assoc, Hfl. cbn [fin_msgs].
      apply (eof_chain false [] [] cols rows f rest); [split; reflexivity|].
      rewrite app_length in Hf. cbn [fin_msgs length] in Hf |- *. lia.
  - (* RFinishOne *)
    intros k IH cols r cur done cnt msgs units Hok Hsz Hpm Hun.
    cbn [rprog_ok] in Hok. cbn [rsize] in Hsz. rewrite pm_r_FinishOne in Hpm.
    destruct (p_finish bin cols r) as [[m fz]|] eqn:E; [|discriminate Hpm].
    apply oapp_some in Hpm. destruct Hpm as (qm & Hpm & ->).
    split.
    + intros -> Hcnt fuel rest Hf. rewrite un_r_FinishOne_nil in Hun.
      destruct (un_q errtab bin k) as [us|] eqn:Eus; [|discriminate Hun]. injection Hun as <-.
      cbn [p_finish] in E. injection E as <- <-.
      destruct (chain k _ _ _ IH Hok ltac:(lia) Hpm Eus) as (msgs' & -> & Hch).
      cbn [fin_msgs app] in *. rewrite Hcnt. apply ok_chain; try assumption; try reflexivity; try lia; cbn [length] in Hf; lia.
    + intros Hc Hw Fv Ft f rest Hf. rewrite un_r_FinishOne_ne in Hun by exact Hc.
      destruct (u_flush bin cols cur done) as [rows|] eqn:Eu; [|discriminate Hun].
      destruct (un_q errtab bin k) as [us|] eqn:Eus; [|discriminate Hun]. injection Hun as <-.
      destruct (flush_client _ _ _ _ _ _ _ _ Hc Hw Fv Ft E Eu) as (-> & Hfl).
      destruct (chain k _ _ _ IH Hok ltac:(lia) Hpm Eus) as (msgs' & -> & Hch).
      rewrite <- app_assoc, Hfl. cbn [fin_msgs app].
      apply (eof_chain _ _ _ cols rows f rest Hch).
      rewrite app_length in Hf. cbn [fin_msgs app length] in Hf. lia.
  - (* RFinishError *)
    intros code msg cols r cur done cnt msgs units _ _ Hpm Hun.
    split.
    + intros -> Hcnt fuel rest Hf. cbn [pm_r un_r] in *.
      destruct (err_msg_of errtab code msg) as [e|] eqn:Ee; [|discriminate Hpm]. injection Hpm as <-.
      destruct (err_unit errtab code msg) as [u|] eqn:Eu; [|discriminate Hun]. injection Hun as <-.
      destruct (errtab_unit _ _ _ _ Ee Eu) as (c & st & -> & -> & Hc & Hs).
      destruct fuel as [|f]; [cbn [length] in Hf; lia|]. cbn [app].
      apply c_response_err; assumption.
    + intros Hc Hw Fv Ft f rest Hf. rewrite un_r_FinishError_ne in Hun by exact Hc.
      rewrite pm_r_FinishError_ne in Hpm by exact Hc.
      destruct (p_finish bin cols r) as [[m fz]|] eqn:E; [|discriminate Hpm].
      destruct (err_msg_of errtab code msg) as [e|] eqn:Ee; [|discriminate Hpm]. injection Hpm as <-.
      destruct (u_flush bin cols cur done) as [rows|] eqn:Eu; [|discriminate Hun].
      destruct (err_msg_of_some _ _ _ _ Ee) as (c & st & Etab & ->). rewrite Etab in Hun.
      injection Hun as <-. destruct (Het _ _ _ Etab) as (Hc5 & Hs5).
      destruct (flush_client _ _ _ _ _ _ _ _ Hc Hw Fv Ft E Eu) as (_ & Hfl).
      rewrite <- app_assoc, Hfl. cbn [app]. rewrite c_rows_err by assumption.
      cbn [obind after_rows err_code err_state err_msg]. rewrite app_nil_r. reflexivity.
  - (* RDrop *)
    intros cols r cur done cnt msgs units _ Hsz Hpm Hun. cbn [rsize] in Hsz. cbn [pm_r] in Hpm.
    destruct (p_finish bin cols r) as [[m fz]|] eqn:E; [|discriminate Hpm]. injection Hpm as <-.
    split.
    + intros -> Hcnt fuel rest Hf. cbn [un_r] in Hun. injection Hun as <-.
      cbn [p_finish] in E. injection E as <- <-. cbn [fin_msgs app status_of] in *.
      destruct fuel as [|f]; [lia|]. rewrite Hcnt.
      rewrite c_response_ok by (try reflexivity; lia). reflexivity.
    + intros Hc Hw Fv Ft f rest Hf. rewrite un_r_Drop_ne in Hun by exact Hc.
      destruct (u_flush bin cols cur done) as [rows|] eqn:Eu; [|discriminate Hun]. injection Hun as <-.
      destruct (flush_client _ _ _ _ _ _ _ _ Hc Hw Fv Ft E Eu) as (-> & Hfl).
      rewrite <- app_assoc, Hfl. cbn [fin_msgs].
      apply (eof_chain false [] [] cols rows f rest); [split; reflexivity|].
      rewrite app_length in Hf. cbn [fin_msgs length] in Hf |- *. lia.
Qed.

End Main.

(* whatever follows the response (the next command's reply) is left untouched: the client is
   command-ready exactly at the end of the response *)
Theorem client_render_rest errtab bin p msgs units rest :
  errtab_ok errtab -> qprog_ok p -> N.of_nat (qsize p) < 2 ^ 64 ->
  pm_q errtab bin None p = Some msgs ->
  un_q errtab bin p = Some units -> units <> [] ->
  c_response (S (length msgs)) bin (msgs ++ rest) = Some (units, rest).
Proof.
  intros Het Hok Hsz Hpm Hun Hne.
  apply (proj1 (main_ind errtab bin Het) p msgs units Hok Hsz); try assumption; [|lia].
  destruct (qflag p) eqn:E; [reflexivity|]. exfalso. apply Hne.
  exact (proj2 (qflag_false errtab bin p msgs units E Hpm Hun)).
Qed.

Theorem client_render errtab bin p msgs units :
  errtab_ok errtab -> qprog_ok p -> N.of_nat (qsize p) < 2 ^ 64 ->
  pm_q errtab bin None p = Some msgs ->
  un_q errtab bin p = Some units -> units <> [] ->
  c_response (S (length msgs)) bin msgs = Some (units, []).
Proof.
  intros Het Hok Hsz Hpm Hun Hne.
  pose proof (client_render_rest errtab bin p msgs units [] Het Hok Hsz Hpm Hun Hne) as H.
  rewrite app_nil_r in H. exact H.
Qed.

Print Assumptions client_render.
Print Assumptions client_render_rest.
Print Assumptions bin_row_decode.
Print Assumptions bin_row_bitmap.
Print Assumptions text_row_decode.
