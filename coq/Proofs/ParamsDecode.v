(* C08: the COM_STMT_EXECUTE parameter block a client builds (Spec/ClientEnc.v: NULL bitmap,
   new-params-bound flag, type table, values) is decoded by Params::next (Model/Params.v) to
   exactly the parameters the client bound -- count, type codes, values -- for every number of
   parameters, every NULL pattern, every type code; with the flag clear the previously bound types
   are used (C16); long data overrides without consuming inline bytes (C17); and the From<Value>
   conversions return the encoded value.  Proofs only; statements fixed. *)
From MsqlVerif Require Import Model.Params Spec.ClientEnc Spec.AbsServer
  Proofs.BaseLemmas Proofs.CodecClient.
From Coq Require Import Lia.
Open Scope N_scope.

Local Ltac Zify.zify_post_hook ::= Z.to_euclidean_division_equations.

(* ---- helpers: readers are prefix-stable ---- *)
Lemma take_n_app_gen n i a b rest :
  take_n n i = Some (a, b) -> take_n n (i ++ rest) = Some (a, b ++ rest).
Proof.
  revert i a b. induction n as [|n IH]; intros i a b H.
  - cbn [take_n] in *. inversion H. reflexivity.
  - destruct i as [|x r]; cbn [take_n] in H; [discriminate|].
    destruct (take_n n r) as [[a' b']|] eqn:E; [|discriminate].
    inversion H; subst. cbn [app take_n]. rewrite (IH _ _ _ E). reflexivity.
Qed.
Lemma read_fixed_app n i a b rest :
  read_fixed n i = ROk (a, b) -> read_fixed n (i ++ rest) = ROk (a, b ++ rest).
Proof.
  unfold read_fixed. destruct (take_n n i) as [[a' b']|] eqn:E; [|discriminate].
  intro H. inversion H; subst. rewrite (take_n_app_gen _ _ _ _ rest E). reflexivity.
Qed.
Lemma read_len8_app i a b rest :
  read_len8 i = ROk (a, b) -> read_len8 (i ++ rest) = ROk (a, b ++ rest).
Proof.
  destruct i as [|x r]; cbn [read_len8 app]; [discriminate|]. apply read_fixed_app.
Qed.
Lemma read_lenenc_app i x r rest :
  read_lenenc i = ROk (x, r) -> read_lenenc (i ++ rest) = ROk (x, r ++ rest).
Proof.
  destruct i as [|b i]; unfold read_lenenc; cbn [app]; [discriminate|]. cbv zeta.
  destruct (N_of_b b <=? 250).
  - intro H. inversion H; subst. reflexivity.
  - assert (Hrd : forall n, match take_n n i with Some (v, r') => ROk (le_val v, r') | None => RErr EUnexpectedEof end = ROk (x, r) ->
                  match take_n n (i ++ rest) with Some (v, r') => ROk (le_val v, r') | None => RErr EUnexpectedEof end = ROk (x, r ++ rest)).
    { intros n. destruct (take_n n i) as [[v r']|] eqn:E; [|discriminate].
      intro H. inversion H; subst. rewrite (take_n_app_gen _ _ _ _ rest E). reflexivity. }
    destruct (N_of_b b =? 252); [apply Hrd|].
    destruct (N_of_b b =? 253); [apply Hrd|].
    destruct (N_of_b b =? 254); [apply Hrd|]. discriminate.
Qed.
Lemma Nb x : x < 256 -> N_of_b (b_of_N x) = x.
Proof. intro H. rewrite N_of_b_of_N. apply N.mod_small. exact H. Qed.
Lemma read_lenenc_rt x rest : x < 2 ^ 64 -> read_lenenc (lenenc x ++ rest) = ROk (x, rest).
Proof.
  intro Hx. unfold lenenc.
  destruct (N.ltb_spec x 251) as [H1|H1].
  - cbn [app]. unfold read_lenenc. cbv zeta. rewrite Nb by lia.
    destruct (N.leb_spec x 250); [reflexivity | lia].
  - destruct (N.ltb_spec x 65536) as [H2|H2].
    + cbn [app]. unfold read_lenenc. cbv zeta. change (N_of_b xfc) with 252.
      change (252 <=? 250) with false. change (252 =? 252) with true. cbv iota.
      rewrite take_n_app by apply le_bytes_length.
      rewrite le_val_le_bytes by (rewrite pow256_2; exact H2). reflexivity.
    + destruct (N.ltb_spec x 16777216) as [H3|H3].
      * cbn [app]. unfold read_lenenc. cbv zeta. change (N_of_b xfd) with 253.
        change (253 <=? 250) with false. change (253 =? 252) with false. change (253 =? 253) with true.
        cbv iota.
        rewrite take_n_app by apply le_bytes_length.
        rewrite le_val_le_bytes by (rewrite pow256_3; exact H3). reflexivity.
      * cbn [app]. unfold read_lenenc. cbv zeta. change (N_of_b xfe) with 254.
        change (254 <=? 250) with false. change (254 =? 252) with false. change (254 =? 253) with false.
        change (254 =? 254) with true. cbv iota.
        rewrite take_n_app by apply le_bytes_length.
        rewrite le_val_le_bytes by (rewrite pow256_8; exact Hx). reflexivity.
Qed.

(* ---- helpers: two's complement ---- *)
Lemma pow256_Z w : Z.of_N (256 ^ N.of_nat w) = (2 ^ (8 * Z.of_nat w))%Z.
Proof.
  rewrite N2Z.inj_pow, nat_N_Z. change (Z.of_N 256) with (2 ^ 8)%Z.
  rewrite <- Z.pow_mul_r by lia. reflexivity.
Qed.
Lemma le_bytes_z_len w z : length (le_bytes_z w z) = w.
Proof. unfold le_bytes_z. apply le_bytes_length. Qed.
Lemma le_val_le_bytes_z w z :
  Z.of_N (le_val (le_bytes_z w z)) = (z mod 2 ^ (8 * Z.of_nat w))%Z.
Proof.
  unfold le_bytes_z, wrap_u. rewrite N2Z.inj_mul, nat_N_Z. change (Z.of_N 8) with 8%Z.
  assert (Hpos : (0 < 2 ^ (8 * Z.of_nat w))%Z) by (apply Z.pow_pos_nonneg; lia).
  pose proof (Z.mod_pos_bound z _ Hpos) as Hb.
  rewrite le_val_le_bytes.
  - apply Z2N.id. lia.
  - apply N2Z.inj_lt. rewrite pow256_Z, Z2N.id; lia.
Qed.
Lemma pow2_half W : (1 <= W)%Z -> (2 ^ W = 2 * 2 ^ (W - 1))%Z.
Proof. intro H. rewrite <- Z.pow_succ_r by lia. f_equal. lia. Qed.
Lemma wrap_s_mod W z :
  (1 <= W)%Z -> (- 2 ^ (W - 1) <= z < 2 ^ (W - 1))%Z ->
  (let m := 2 ^ W in let r := (z mod m) mod m in if r <? m / 2 then r else r - m)%Z = z.
Proof.
  intros HW Hz. cbv zeta. pose proof (pow2_half W HW) as Hm.
  assert (HH : (0 < 2 ^ (W - 1))%Z) by (apply Z.pow_pos_nonneg; lia).
  set (H := (2 ^ (W - 1))%Z) in *. set (M := (2 ^ W)%Z) in *.
  rewrite Z.mod_mod by lia.
  assert (Hd : (M / 2 = H)%Z) by (rewrite Hm, Z.mul_comm; apply Z.div_mul; lia).
  rewrite Hd.
  assert (Hmod : (z mod M = if z <? 0 then z + M else z)%Z).
  { destruct (Z.ltb_spec z 0).
    - rewrite <- (Z.mod_add z 1 M) by lia. rewrite Z.mul_1_l. apply Z.mod_small. lia.
    - apply Z.mod_small. lia. }
  rewrite Hmod. destruct (Z.ltb_spec z 0);
    match goal with |- context [(?a <? H)%Z] => destruct (Z.ltb_spec a H) end; lia.
Qed.
Lemma wrap_u_small w z : (0 <= z < 2 ^ Z.of_N w)%Z -> wrap_u w z = z.
Proof. intro H. unfold wrap_u. apply Z.mod_small. exact H. Qed.
Lemma wrap_s_small w z :
  0 < w -> (- 2 ^ (Z.of_N w - 1) <= z < 2 ^ (Z.of_N w - 1))%Z -> wrap_s w z = z.
Proof.
  intros Hw Hz. unfold wrap_s.
  assert (HW : (1 <= Z.of_N w)%Z) by lia.
  pose proof (wrap_s_mod (Z.of_N w) z HW Hz) as E. cbv zeta in E.
  pose proof (pow2_half _ HW) as Hm.
  assert (HH : (0 < 2 ^ (Z.of_N w - 1))%Z) by (apply Z.pow_pos_nonneg; lia).
  rewrite Z.mod_mod in E by lia. cbv zeta. exact E.
Qed.
Lemma le_val_s_le_bytes_z w z :
  (0 < w)%nat -> (- 2 ^ (8 * Z.of_nat w - 1) <= z < 2 ^ (8 * Z.of_nat w - 1))%Z ->
  le_val_s (le_bytes_z w z) = z.
Proof.
  intros Hw Hz. unfold le_val_s, wrap_s.
  assert (HL : Nlen (le_bytes_z w z) = N.of_nat w) by (unfold Nlen; rewrite le_bytes_z_len; reflexivity).
  rewrite HL, le_val_le_bytes_z.
  rewrite N2Z.inj_mul, nat_N_Z. change (Z.of_N 8) with 8%Z.
  apply (wrap_s_mod (8 * Z.of_nat w) z); [lia | exact Hz].
Qed.

Ltac dpos8 p := do 8 (try destruct p as [p|p|]).
Lemma int_col_bytes_pos t w : int_col_bytes t = Some w -> (0 < w)%nat.
Proof.
  destruct t as [|p]; [discriminate|]. dpos8 p; cbn [int_col_bytes]; try discriminate;
    intro H; inversion H; lia.
Qed.

(* ---- helpers: nat division for lia ---- *)
Lemma nat_div_N a b : (a / b)%nat = N.to_nat (N.of_nat a / N.of_nat b).
Proof. rewrite N2Nat.inj_div, !Nat2N.id. reflexivity. Qed.
Lemma nat_mod_N a b : (a mod b)%nat = N.to_nat (N.of_nat a mod N.of_nat b).
Proof. rewrite N2Nat.inj_mod, !Nat2N.id. reflexivity. Qed.
Ltac nlia := rewrite ?nat_div_N, ?nat_mod_N in *; lia.

(* ---- helpers: lists ---- *)
Lemma skipn_skipn' {A} a b (l : list A) : skipn a (skipn b l) = skipn (b + a) l.
Proof.
  revert l. induction b as [|b IH]; intro l; [reflexivity|].
  destruct l as [|x l]; cbn [skipn Nat.add].
  - destruct a; reflexivity.
  - apply IH.
Qed.
Lemma nth_firstn' {A} j k (l : list A) d : (j < k)%nat -> nth j (firstn k l) d = nth j l d.
Proof.
  revert j l. induction k as [|k IH]; intros j l H; [lia|].
  destruct l as [|x l]; [destruct j; reflexivity|].
  destruct j as [|j]; cbn [firstn nth]; [reflexivity|]. apply IH. lia.
Qed.
Lemma nth_skipn' {A} k j (l : list A) d : nth j (skipn k l) d = nth (k + j) l d.
Proof.
  revert l. induction k as [|k IH]; intro l; [reflexivity|].
  destruct l as [|x l]; cbn [skipn Nat.add nth].
  - destruct j; reflexivity.
  - apply IH.
Qed.
Lemma skipn_cons_nth {A} i (l : list A) x r :
  skipn i l = x :: r -> nth_error l i = Some x /\ skipn (S i) l = r.
Proof.
  revert l. induction i as [|i IH]; intros l H.
  - cbn [skipn] in H. subst l. split; reflexivity.
  - destruct l as [|y l]; [cbn [skipn] in H; discriminate|].
    cbn [skipn] in H. cbn [nth_error]. change (skipn (S (S i)) (y :: l)) with (skipn (S i) l).
    apply IH; exact H.
Qed.
Lemma skipn_nth_cons {A} i (l : list A) :
  (i < length l)%nat -> exists x, skipn i l = x :: skipn (S i) l.
Proof.
  revert l; induction i as [|i IH]; intros l H; destruct l as [|y l]; cbn [length] in H; try lia.
  - exists y. reflexivity.
  - destruct (IH l) as [x Hx]; [lia|]. exists x. exact Hx.
Qed.

(* ---- helpers: the NULL bitmap ---- *)
Lemma null_bitmap_f_length fuel l :
  (length l <= fuel)%nat -> length (null_bitmap_f fuel l) = ((length l + 7) / 8)%nat.
Proof.
  revert l. induction fuel as [|f IH]; intros l H.
  - destruct l; [reflexivity | cbn [length] in H; lia].
  - destruct l as [|b l]; [reflexivity|].
    cbn [null_bitmap_f]. cbn [length] in H.
    assert (HL : length (skipn 8 (b :: l)) = (S (length l) - 8)%nat) by (rewrite skipn_length; reflexivity).
    change (length (b_of_N (bits_to_N (firstn 8 (b :: l))) :: null_bitmap_f f (skipn 8 (b :: l))))
      with (S (length (null_bitmap_f f (skipn 8 (b :: l))))).
    rewrite IH by lia. rewrite HL. cbn [length]. nlia.
Qed.
Lemma null_bitmap_f_nth fuel l k :
  (8 * k < length l)%nat -> (length l <= fuel)%nat ->
  nth_error (null_bitmap_f fuel l) k = Some (b_of_N (bits_to_N (firstn 8 (skipn (8 * k) l)))).
Proof.
  revert l k. induction fuel as [|f IH]; intros l k Hk Hf; [lia|].
  destruct l as [|b l]; [cbn [length] in Hk; lia|].
  cbn [null_bitmap_f]. destruct k as [|k].
  - reflexivity.
  - cbn [nth_error].
    assert (HL : length (skipn 8 (b :: l)) = (length (b :: l) - 8)%nat) by apply skipn_length.
    rewrite IH by lia.
    rewrite skipn_skipn'. replace (8 + 8 * k)%nat with (8 * S k)%nat by lia. reflexivity.
Qed.
Lemma bits_to_N_testbit l j : N.testbit (bits_to_N l) (N.of_nat j) = nth j l false.
Proof.
  revert j. induction l as [|b r IH]; intro j.
  - cbn [bits_to_N]. rewrite N.bits_0. destruct j; reflexivity.
  - cbn [bits_to_N]. change (if b then 1 else 0) with (N.b2n b). rewrite N.add_comm.
    destruct j as [|j].
    + cbn [nth]. change (N.of_nat 0) with 0. apply N.testbit_0_r.
    + rewrite Nat2N.inj_succ, N.testbit_succ_r. cbn [nth]. apply IH.
Qed.
Lemma bits_to_N_lt l : bits_to_N l < 2 ^ N.of_nat (length l).
Proof.
  induction l as [|b r IH].
  - cbn [bits_to_N length]. change (2 ^ N.of_nat 0) with 1. lia.
  - cbn [bits_to_N length]. rewrite Nat2N.inj_succ, N.pow_succ_r by lia. destruct b; lia.
Qed.
Lemma null_bit nulls i : (i < length nulls)%nat ->
  exists b, nth_error (null_bitmap nulls) (i / 8) = Some b /\
            N.testbit (N_of_b b) (N.of_nat (i mod 8)) = nth i nulls false.
Proof.
  intro Hi. unfold null_bitmap. eexists. split.
  - apply null_bitmap_f_nth; nlia.
  - set (chunk := firstn 8 (skipn (8 * (i / 8)) nulls)).
    assert (Hlen : (length chunk <= 8)%nat) by apply firstn_le_length.
    rewrite Nb.
    + rewrite bits_to_N_testbit. unfold chunk. rewrite nth_firstn' by nlia.
      rewrite nth_skipn'. f_equal. nlia.
    + pose proof (bits_to_N_lt chunk) as Hlt.
      assert (Hp : 2 ^ N.of_nat (length chunk) <= 2 ^ 8) by (apply N.pow_le_mono_r; lia).
      change (2 ^ 8) with 256 in Hp. lia.
Qed.

(* ---- helpers: the block ---- *)
Definition nulls_of (ps : list cparam) : list bool :=
  map (fun p => match cp_value p with None => true | Some _ => false end) ps.
Definition vbytes (p : cparam) : bytes := match cp_value p with Some v => v | None => [] end.
Definition stI (n : N) (bm : bytes) (long : list (N * bytes)) (types : list (N * bool))
  (i : nat) (inp : bytes) : pstate :=
  {| p_params := n; p_input := inp; p_nullmap := Some bm; p_col := N.of_nat i;
     p_long := long; p_bound := types |}.
Lemma type_table_cons p r :
  type_table (p :: r) = b_of_N (cp_type p) :: (if cp_unsigned p then x80 else x00) :: type_table r.
Proof. reflexivity. Qed.
Lemma values_of_cons p r : values_of (p :: r) = vbytes p ++ values_of r.
Proof. reflexivity. Qed.
Lemma type_table_length ps : length (type_table ps) = (2 * length ps)%nat.
Proof.
  induction ps as [|p r IH]; [reflexivity|]. rewrite type_table_cons. cbn [length]. rewrite IH. lia.
Qed.
Lemma exec_block_true ps : ps <> [] ->
  exec_block ps true = null_bitmap (nulls_of ps) ++ (x01 :: type_table ps) ++ values_of ps.
Proof. destruct ps; [congruence | reflexivity]. Qed.
Lemma exec_block_false ps : ps <> [] ->
  exec_block ps false = null_bitmap (nulls_of ps) ++ [x00] ++ values_of ps.
Proof. destruct ps; [congruence | reflexivity]. Qed.
Lemma bitmap_len ps : length (null_bitmap (nulls_of ps)) = N.to_nat ((Nlen ps + 7) / 8).
Proof.
  unfold null_bitmap. rewrite null_bitmap_f_length by lia.
  unfold nulls_of, Nlen. rewrite map_length. nlia.
Qed.
Lemma params_header_some p bm : p_nullmap p = Some bm -> params_header p = ROk p.
Proof. intro H. unfold params_header. rewrite H. reflexivity. Qed.
Lemma header_reuse ps long bound0 : ps <> [] ->
  params_header {| p_params := Nlen ps; p_input := exec_block ps false; p_nullmap := None; p_col := 0;
                   p_long := long; p_bound := bound0 |} =
  ROk (stI (Nlen ps) (null_bitmap (nulls_of ps)) long bound0 0 (values_of ps)).
Proof.
  intros Hne. rewrite exec_block_false by exact Hne.
  unfold params_header. cbn [p_nullmap p_params p_input p_col p_long p_bound].
  rewrite take_n_app by apply bitmap_len. cbn [app].
  change (byte_eqb x00 x00) with true. reflexivity.
Qed.

Section WithOracles.
Variable fpext : N -> N.
Variable fptrunc : N -> N.


(* ---- parse_value as a decision list ---- *)
Definition pv_int (i : bytes) (u : bool) (n : nat) : res (pinner * bytes) :=
  rbind (read_fixed n i) (fun '(v, r) => ROk (if u then PIUInt (le_val v) else PIInt (le_val_s v), r)).
Lemma parse_value_eq i ct u :
  parse_value fpext i ct u =
  match int_col_bytes ct with
  | Some n => pv_int i u n
  | None =>
    if is_bytes_col ct then
      rbind (read_lenenc i) (fun '(len, r) =>
        rbind (read_fixed (N.to_nat len) r) (fun '(v, r') => ROk (PIBytes v, r')))
    else if ct =? 4 then rbind (read_fixed 4 i) (fun '(v, r) => ROk (PIDouble (fpext (le_val v)), r))
    else if ct =? 5 then rbind (read_fixed 8 i) (fun '(v, r) => ROk (PIDouble (le_val v), r))
    else if (ct =? 7) || (ct =? 12) then rbind (read_len8 i) (fun '(v, r) => ROk (PIDatetime v, r))
    else if ct =? 10 then rbind (read_len8 i) (fun '(v, r) => ROk (PIDate v, r))
    else if ct =? 11 then rbind (read_len8 i) (fun '(v, r) => ROk (PITime v, r))
    else if ct =? 6 then ROk (PINull, i)
    else RErr EInvalidInput
  end.
Proof.
  unfold parse_value, pv_int. destruct ct as [|p]; [reflexivity|]. dpos8 p; reflexivity.
Qed.

Lemma rd_map_app (rd : bytes -> res (bytes * bytes)) (f : bytes -> pinner) i rest inner :
  (forall a b, rd i = ROk (a, b) -> rd (i ++ rest) = ROk (a, b ++ rest)) ->
  rbind (rd i) (fun '(v, r) => ROk (f v, r)) = ROk (inner, []) ->
  rbind (rd (i ++ rest)) (fun '(v, r) => ROk (f v, r)) = ROk (inner, rest).
Proof.
  intros Happ H. destruct (rd i) as [[a b]| |] eqn:E; cbn [rbind] in H; try discriminate.
  inversion H; subst. rewrite (Happ _ _ eq_refl). reflexivity.
Qed.

(* ---- values: what the client encodes is what parse_from returns ---- *)

(* decoding does not depend on what follows the value *)
Lemma parse_value_app v t u inner rest :
  parse_value fpext v t u = ROk (inner, []) ->
  parse_value fpext (v ++ rest) t u = ROk (inner, rest).
Proof.
  rewrite !parse_value_eq.
  destruct (int_col_bytes t) as [n|].
  - unfold pv_int.
    apply (rd_map_app (read_fixed n) (fun v => if u then PIUInt (le_val v) else PIInt (le_val_s v))).
    intros a b. apply read_fixed_app.
  - destruct (is_bytes_col t).
    + destruct (read_lenenc v) as [[len r]| |] eqn:E; cbn [rbind]; try discriminate.
      rewrite (read_lenenc_app _ _ _ rest E). cbn [rbind].
      apply (rd_map_app (read_fixed (N.to_nat len)) PIBytes). intros a b. apply read_fixed_app.
    + destruct (t =? 4).
      { apply (rd_map_app (read_fixed 4) (fun v => PIDouble (fpext (le_val v)))).
        intros a b. apply read_fixed_app. }
      destruct (t =? 5).
      { apply (rd_map_app (read_fixed 8) (fun v => PIDouble (le_val v))).
        intros a b. apply read_fixed_app. }
      destruct ((t =? 7) || (t =? 12)).
      { apply (rd_map_app read_len8 PIDatetime). intros a b. apply read_len8_app. }
      destruct (t =? 10).
      { apply (rd_map_app read_len8 PIDate). intros a b. apply read_len8_app. }
      destruct (t =? 11).
      { apply (rd_map_app read_len8 PITime). intros a b. apply read_len8_app. }
      destruct (t =? 6); [|discriminate].
      intro H. inversion H; subst. reflexivity.
Qed.

(* integers of every width and signedness *)
Lemma parse_int (t : N) (u : bool) (w : nat) (z : Z) (rest : bytes) :
  int_col_bytes t = Some w ->
  (if u then 0 <= z < 2 ^ (8 * Z.of_nat w) else - 2 ^ (8 * Z.of_nat w - 1) <= z < 2 ^ (8 * Z.of_nat w - 1))%Z ->
  parse_value fpext (le_bytes_z w z ++ rest) t u = ROk (if u then PIUInt (Z.to_N z) else PIInt z, rest).
Proof.
  intros Ht Hz. rewrite parse_value_eq, Ht. unfold pv_int, read_fixed.
  rewrite take_n_app by apply le_bytes_z_len. cbn [rbind].
  pose proof (int_col_bytes_pos _ _ Ht) as Hw.
  destruct u.
  - assert (E : le_val (le_bytes_z w z) = Z.to_N z).
    { apply N2Z.inj. rewrite le_val_le_bytes_z, Z.mod_small by exact Hz. rewrite Z2N.id; lia. }
    rewrite E. reflexivity.
  - rewrite le_val_s_le_bytes_z by assumption. reflexivity.
Qed.
(* length-encoded byte strings for every string-like type *)
Lemma parse_bytes t u bs rest :
  is_bytes_col t = true -> Nlen bs < 2 ^ 64 ->
  parse_value fpext (lenenc_str bs ++ rest) t u = ROk (PIBytes bs, rest).
Proof.
  intros Ht Hlen. unfold parse_value. rewrite Ht. cbv zeta.
  unfold lenenc_str. rewrite <- app_assoc, read_lenenc_rt by exact Hlen. cbn [rbind].
  unfold read_fixed. rewrite Nlen_to_nat, take_n_app by reflexivity. reflexivity.
Qed.
(* FLOAT is widened, DOUBLE is delivered bit-exact *)
Lemma parse_float u bits rest : bits < 2 ^ 32 ->
  parse_value fpext (le_bytes 4 bits ++ rest) 4 u = ROk (PIDouble (fpext bits), rest).
Proof.
  intro Hb. rewrite parse_value_eq.
  change (int_col_bytes 4) with (@None nat). change (is_bytes_col 4) with false.
  change (4 =? 4) with true. cbv iota.
  unfold read_fixed. rewrite take_n_app by apply le_bytes_length. cbn [rbind].
  rewrite le_val_le_bytes by (rewrite pow256_4; exact Hb). reflexivity.
Qed.
Lemma parse_double u bits rest : bits < 2 ^ 64 ->
  parse_value fpext (le_bytes 8 bits ++ rest) 5 u = ROk (PIDouble bits, rest).
Proof.
  intro Hb. rewrite parse_value_eq.
  change (int_col_bytes 5) with (@None nat). change (is_bytes_col 5) with false.
  change (5 =? 4) with false. change (5 =? 5) with true. cbv iota.
  unfold read_fixed. rewrite take_n_app by apply le_bytes_length. cbn [rbind].
  rewrite le_val_le_bytes by (rewrite pow256_8; exact Hb). reflexivity.
Qed.
(* DATE / DATETIME / TIMESTAMP / TIME: a length byte, then that many bytes, for EVERY length form *)
Lemma parse_temporal t u raw rest :
  t = 10 \/ t = 12 \/ t = 7 \/ t = 11 -> Nlen raw < 256 ->
  parse_value fpext (b_of_N (Nlen raw) :: raw ++ rest) t u =
    ROk (match t with 10 => PIDate raw | 11 => PITime raw | _ => PIDatetime raw end, rest).
Proof.
  intros Ht Hlen.
  assert (Hrd : read_len8 (b_of_N (Nlen raw) :: raw ++ rest) = ROk (raw, rest)).
  { cbn [read_len8]. rewrite Nb by exact Hlen. unfold read_fixed.
    rewrite Nlen_to_nat, take_n_app by reflexivity. reflexivity. }
  rewrite parse_value_eq.
  destruct Ht as [-> | [-> | [-> | ->]]].
  - change (int_col_bytes 10) with (@None nat). change (is_bytes_col 10) with false.
    change (10 =? 4) with false. change (10 =? 5) with false.
    change ((10 =? 7) || (10 =? 12)) with false. change (10 =? 10) with true. cbv iota.
    rewrite Hrd. reflexivity.
  - change (int_col_bytes 12) with (@None nat). change (is_bytes_col 12) with false.
    change (12 =? 4) with false. change (12 =? 5) with false.
    change ((12 =? 7) || (12 =? 12)) with true. cbv iota.
    rewrite Hrd. reflexivity.
  - change (int_col_bytes 7) with (@None nat). change (is_bytes_col 7) with false.
    change (7 =? 4) with false. change (7 =? 5) with false.
    change ((7 =? 7) || (7 =? 12)) with true. cbv iota.
    rewrite Hrd. reflexivity.
  - change (int_col_bytes 11) with (@None nat). change (is_bytes_col 11) with false.
    change (11 =? 4) with false. change (11 =? 5) with false.
    change ((11 =? 7) || (11 =? 12)) with false. change (11 =? 10) with false.
    change (11 =? 11) with true. cbv iota.
    rewrite Hrd. reflexivity.
Qed.

(* ---- conversions to Rust types yield the value the client encoded ---- *)
Lemma convert_int_exact (k : conv) (w : N) (signed : bool) (z : Z) :
  (k, w, signed) = (KU8, 8, false) \/ (k, w, signed) = (KI8, 8, true) \/
  (k, w, signed) = (KU16, 16, false) \/ (k, w, signed) = (KI16, 16, true) \/
  (k, w, signed) = (KU32, 32, false) \/ (k, w, signed) = (KI32, 32, true) ->
  (if signed then - 2 ^ (Z.of_N w - 1) <= z < 2 ^ (Z.of_N w - 1) else 0 <= z < 2 ^ Z.of_N w)%Z ->
  convert fptrunc k (PIInt z) = ROk (Some (CvInt z)) /\
  (0 <= z -> convert fptrunc k (PIUInt (Z.to_N z)) = ROk (Some (CvInt z)))%Z.
Proof.
  intros Hk Hz.
  destruct Hk as [H|[H|[H|[H|[H|H]]]]]; injection H as -> -> ->; cbv iota in Hz;
    (split; [| intro Hz0]; cbv [convert conv_int rbind]; rewrite ?Z2N.id by exact Hz0;
     first [ rewrite wrap_u_small by exact Hz | rewrite wrap_s_small by (first [exact Hz | lia]) ];
     reflexivity).
Qed.
Lemma convert_u64_exact n : n < 2 ^ 64 -> convert fptrunc KU64 (PIUInt n) = ROk (Some (CvInt (Z.of_N n))).
Proof.
  intro H. rewrite pow2_64 in H. cbv [convert conv_int rbind]. rewrite wrap_u_small; [reflexivity|].
  change (2 ^ Z.of_N 64)%Z with 18446744073709551616%Z. lia.
Qed.
Lemma convert_i64_exact z : (- 2 ^ 63 <= z < 2 ^ 63)%Z -> convert fptrunc KI64 (PIInt z) = ROk (Some (CvInt z)).
Proof.
  intro H. cbv [convert conv_int rbind]. rewrite wrap_s_small; [reflexivity | lia | exact H].
Qed.
Lemma convert_bytes_exact bs : convert fptrunc KBytes (PIBytes bs) = ROk (Some (CvBytes bs)).
Proof. reflexivity.
Qed.
Lemma convert_str_exact bs : utf8_valid bs = true -> convert fptrunc KStr (PIBytes bs) = ROk (Some (CvBytes bs)).
Proof. intro H. cbv [convert]. rewrite H. reflexivity.
Qed.
Lemma convert_f64_exact bits : convert fptrunc KF64 (PIDouble bits) = ROk (Some (CvF64 bits)).
Proof. reflexivity.
Qed.
(* f32: exact under the oracle hypothesis that narrowing undoes widening *)
Lemma convert_f32_exact bits : fptrunc (fpext bits) = bits ->
  convert fptrunc KF32 (PIDouble (fpext bits)) = ROk (Some (CvF32 bits)).
Proof. intro H. cbv [convert]. rewrite H. reflexivity.
Qed.
(* DATE (4 bytes) *)
Lemma convert_date_exact y m d :
  y < 65536 -> m < 256 -> d < 256 -> valid_ymd (Z.of_N y) m d = true ->
  convert fptrunc KDate (PIDate (le_bytes 2 y ++ [b_of_N m; b_of_N d])) = ROk (Some (CvDate (Z.of_N y) m d)).
Proof.
  intros Hy Hm Hd Hv. cbn [le_bytes app]. cbv [convert conv_date rbind].
  change [b_of_N y; b_of_N (y / 256)] with (le_bytes 2 y).
  rewrite le_val_le_bytes by (rewrite pow256_2; exact Hy). rewrite !Nb by assumption.
  rewrite Hv. reflexivity.
Qed.
(* DATETIME: 4, 7 and 11 byte forms; microseconds preserved *)
Lemma convert_datetime4_exact y m d :
  y < 65536 -> m < 256 -> d < 256 -> valid_ymd (Z.of_N y) m d = true ->
  convert fptrunc KDatetime (PIDatetime (le_bytes 2 y ++ [b_of_N m; b_of_N d]))
    = ROk (Some (CvDateTime (Z.of_N y) m d 0 0 0 0)).
Proof.
  intros Hy Hm Hd Hv. cbn [le_bytes app]. cbv [convert conv_datetime rbind].
  change [b_of_N y; b_of_N (y / 256)] with (le_bytes 2 y).
  rewrite le_val_le_bytes by (rewrite pow256_2; exact Hy). rewrite !Nb by assumption.
  rewrite Hv. reflexivity.
Qed.
Lemma convert_datetime7_exact y m d h mi s :
  y < 65536 -> m < 256 -> d < 256 -> valid_ymd (Z.of_N y) m d = true -> h < 24 -> mi < 60 -> s < 60 ->
  convert fptrunc KDatetime (PIDatetime (le_bytes 2 y ++ [b_of_N m; b_of_N d; b_of_N h; b_of_N mi; b_of_N s]))
    = ROk (Some (CvDateTime (Z.of_N y) m d h mi s 0)).
Proof.
  intros Hy Hm Hd Hv Hh Hmi Hs. cbn [le_bytes app]. cbv [convert conv_datetime rbind].
  change [b_of_N y; b_of_N (y / 256)] with (le_bytes 2 y).
  rewrite le_val_le_bytes by (rewrite pow256_2; exact Hy). rewrite !Nb by lia.
  assert (Hhms : valid_hms h mi s = true).
  { unfold valid_hms. rewrite !Bool.andb_true_iff, !N.ltb_lt. lia. }
  rewrite Hv, Hhms. reflexivity.
Qed.
Lemma convert_datetime11_exact y m d h mi s us :
  y < 65536 -> m < 256 -> d < 256 -> valid_ymd (Z.of_N y) m d = true -> h < 24 -> mi < 60 -> s < 60 -> us < 1000000 ->
  convert fptrunc KDatetime
    (PIDatetime (le_bytes 2 y ++ [b_of_N m; b_of_N d; b_of_N h; b_of_N mi; b_of_N s] ++ le_bytes 4 us))
    = ROk (Some (CvDateTime (Z.of_N y) m d h mi s (us * 1000))).
Proof.
  intros Hy Hm Hd Hv Hh Hmi Hs Hus. cbn [le_bytes app]. cbv [convert conv_datetime rbind].
  change [b_of_N y; b_of_N (y / 256)] with (le_bytes 2 y).
  change [b_of_N us; b_of_N (us / 256); b_of_N (us / 256 / 256); b_of_N (us / 256 / 256 / 256)]
    with (le_bytes 4 us).
  rewrite le_val_le_bytes by (rewrite pow256_2; exact Hy).
  rewrite le_val_le_bytes by (rewrite pow256_4; change (2 ^ 32) with 4294967296; lia).
  rewrite !Nb by lia.
  assert (Hhms : valid_hms_micro h mi s us = true).
  { unfold valid_hms_micro.
    destruct (N.ltb_spec (us * 1000) 4294967296); [|lia].
    destruct (N.ltb_spec h 24); [|lia].
    destruct (N.ltb_spec mi 60); [|lia].
    destruct (N.ltb_spec s 60); [|lia].
    destruct (N.leb_spec 1000000000 (us * 1000)); [lia|].
    destruct (N.ltb_spec (us * 1000) 2000000000); [|lia]. reflexivity. }
  rewrite Hv, Hhms. reflexivity.
Qed.
(* TIME: 0, 8 and 12 byte forms; microseconds preserved *)
Lemma convert_time0_exact : convert fptrunc KDur (PITime []) = ROk (Some (CvDur 0 0)).
Proof. reflexivity.
Qed.
Lemma convert_time8_exact days h mi s :
  days < 2 ^ 32 -> h < 256 -> mi < 256 -> s < 256 ->
  convert fptrunc KDur (PITime (x00 :: le_bytes 4 days ++ [b_of_N h; b_of_N mi; b_of_N s]))
    = ROk (Some (CvDur (days * 86400 + h * 3600 + mi * 60 + s) 0)).
Proof.
  intros Hd Hh Hmi Hs. cbn [le_bytes app]. cbv [convert conv_dur rbind].
  change (byte_eqb x00 x00) with true. cbn [negb].
  change (4294967296 <=? 0 * 1000) with false. cbv iota.
  change [b_of_N days; b_of_N (days / 256); b_of_N (days / 256 / 256); b_of_N (days / 256 / 256 / 256)]
    with (le_bytes 4 days).
  rewrite le_val_le_bytes by (rewrite pow256_4; exact Hd). rewrite !Nb by assumption.
  change (0 * 1000 / 1000000000) with 0. change ((0 * 1000) mod 1000000000) with 0.
  rewrite N.add_0_r. reflexivity.
Qed.
Lemma convert_time12_exact days h mi s us :
  days < 2 ^ 32 -> h < 256 -> mi < 256 -> s < 256 -> us < 1000000 ->
  convert fptrunc KDur (PITime (x00 :: le_bytes 4 days ++ [b_of_N h; b_of_N mi; b_of_N s] ++ le_bytes 4 us))
    = ROk (Some (CvDur (days * 86400 + h * 3600 + mi * 60 + s) (us * 1000))).
Proof.
  intros Hd Hh Hmi Hs Hus. cbn [le_bytes app]. cbv [convert conv_dur rbind].
  change (byte_eqb x00 x00) with true. cbn [negb].
  change [b_of_N days; b_of_N (days / 256); b_of_N (days / 256 / 256); b_of_N (days / 256 / 256 / 256)]
    with (le_bytes 4 days).
  change [b_of_N us; b_of_N (us / 256); b_of_N (us / 256 / 256); b_of_N (us / 256 / 256 / 256)]
    with (le_bytes 4 us).
  rewrite (le_val_le_bytes 4 days) by (rewrite pow256_4; exact Hd).
  rewrite (le_val_le_bytes 4 us) by (rewrite pow256_4; change (2 ^ 32) with 4294967296; lia).
  rewrite !Nb by assumption.
  destruct (N.leb_spec 4294967296 (us * 1000)); [lia|].
  rewrite N.div_small, N.mod_small, N.add_0_r by lia. reflexivity.
Qed.

(* ---- the whole block ---- *)

(* what the shim must be given for parameter number i *)
Definition delivered (long : list (N * bytes)) (types : list (N * bool)) (i : nat) (p : cparam) : option pinner :=
  match cp_value p with
  | None => Some PINull
  | Some v =>
    match lookup (N.of_nat i) long with
    | Some data => match v with [] => Some (PIBytes data) | _ => None end
    | None =>
      match nth_error types i with
      | Some (t, u) => match parse_value fpext v t u with ROk (inner, []) => Some inner | _ => None end
      | None => None
      end
    end
  end.
Fixpoint delivered_all (long : list (N * bytes)) (types : list (N * bool)) (i : nat) (ps : list cparam)
  : option (list pinner) :=
  match ps with
  | [] => Some []
  | p :: r => match delivered long types i p, delivered_all long types (S i) r with
              | Some x, Some xs => Some (x :: xs)
              | _, _ => None end
  end.
Definition types_of (ps : list cparam) : list (N * bool) := map (fun p => (cp_type p, cp_unsigned p)) ps.
Definition types_ok (ps : list cparam) : Prop :=
  Forall (fun p => coltype_known (cp_type p) = true /\ cp_type p < 256) ps.
Definition param_calls (types : list (N * bool)) (inners : list pinner) : list call :=
  map (fun ti => CParam (fst (fst ti)) (snd ti)) (combine types inners).

Definition pstate0 (n : N) (input : bytes) (long : list (N * bytes)) (bound : list (N * bool)) : pstate :=
  {| p_params := n; p_input := input; p_nullmap := None; p_col := 0; p_long := long; p_bound := bound |}.

(* ---- helpers: the iteration ---- *)
Lemma parse_types_table ps :
  types_ok ps -> parse_types (length ps) (type_table ps) = ROk (types_of ps).
Proof.
  unfold types_ok. induction 1 as [|p r [Hk Hlt] _ IH]; [reflexivity|].
  rewrite type_table_cons. cbn [length parse_types]. rewrite Nb by exact Hlt. rewrite Hk, IH.
  cbn [rbind].
  assert (E : negb (N.land (N_of_b (if cp_unsigned p then x80 else x00)) 128 =? 0) = cp_unsigned p)
    by (destruct (cp_unsigned p); reflexivity).
  rewrite E. reflexivity.
Qed.
Lemma header_bound ps long bound0 : ps <> [] -> types_ok ps ->
  params_header (pstate0 (Nlen ps) (exec_block ps true) long bound0) =
  ROk (stI (Nlen ps) (null_bitmap (nulls_of ps)) long (types_of ps) 0 (values_of ps)).
Proof.
  intros Hne Hok. rewrite exec_block_true by exact Hne.
  unfold params_header, pstate0. cbn [p_nullmap p_params p_input p_col p_long p_bound].
  rewrite take_n_app by apply bitmap_len. cbn [app].
  change (byte_eqb x01 x00) with false. cbv beta iota.
  rewrite Nlen_to_nat.
  rewrite take_n_app by apply type_table_length.
  rewrite parse_types_table by exact Hok. reflexivity.
Qed.

Lemma params_next_stI n bm long types i inp :
  params_next fpext (stI n bm long types i inp) =
  if n <=? N.of_nat i then ROk (None, stI n bm long types i inp) else
  match nth_error types i with
  | None => RPanic PParamsBoundIndex
  | Some (ct, uns) =>
    match nth_error bm (i / 8)%nat with
    | None => ROk (None, stI n bm long types i inp)
    | Some b =>
      if N.testbit (N_of_b b) (N.of_nat (i mod 8)%nat)
      then ROk (Some (ct, PINull), stI n bm long types (S i) inp)
      else match lookup (N.of_nat i) long with
           | Some data => ROk (Some (ct, PIBytes data), stI n bm long types (S i) inp)
           | None => match parse_value fpext inp ct uns with
                     | ROk (v, rest) => ROk (Some (ct, v), stI n bm long types (S i) rest)
                     | RErr _ => RPanic PParamsValue
                     | RPanic s => RPanic s end
           end
    end
  end.
Proof.
  unfold params_next, stI.
  cbn [params_header p_nullmap rbind p_params p_col p_bound p_input p_long].
  rewrite Nat2N.id.
  replace (N.to_nat (N.of_nat i / 8)) with (i / 8)%nat by nlia.
  replace (N.of_nat i mod 8) with (N.of_nat (i mod 8)%nat) by nlia.
  replace (N.of_nat i + 1) with (N.of_nat (S i)) by lia.
  reflexivity.
Qed.

Lemma step ps long types i p t u inner rest :
  nth_error ps i = Some p -> nth_error types i = Some (t, u) ->
  delivered long types i p = Some inner ->
  params_next fpext (stI (Nlen ps) (null_bitmap (nulls_of ps)) long types i (vbytes p ++ rest)) =
  ROk (Some (t, inner), stI (Nlen ps) (null_bitmap (nulls_of ps)) long types (S i) rest).
Proof.
  intros Hp Ht Hd. rewrite params_next_stI.
  assert (Hi : (i < length ps)%nat) by (apply nth_error_Some; congruence).
  destruct (N.leb_spec (Nlen ps) (N.of_nat i)) as [Hle|_]; [unfold Nlen in Hle; lia|].
  rewrite Ht.
  destruct (null_bit (nulls_of ps) i) as [b [Hb Hbit]];
    [unfold nulls_of; rewrite map_length; exact Hi|].
  rewrite Hb, Hbit.
  assert (Hn : nth i (nulls_of ps) false = match cp_value p with None => true | Some _ => false end).
  { unfold nulls_of. apply nth_error_nth.
    exact (map_nth_error (fun p => match cp_value p with None => true | Some _ => false end) _ _ Hp). }
  rewrite Hn. unfold delivered in Hd. unfold vbytes.
  destruct (cp_value p) as [v|].
  - destruct (lookup (N.of_nat i) long) as [data|].
    + destruct v; [|discriminate]. inversion Hd; subst. reflexivity.
    + rewrite Ht in Hd.
      destruct (parse_value fpext v t u) as [[inner' r']| |] eqn:E; try discriminate.
      destruct r'; [|discriminate]. inversion Hd; subst.
      rewrite (parse_value_app _ _ _ _ rest E). reflexivity.
  - inversion Hd; subst. reflexivity.
Qed.

Lemma abs_pull_step f p ct v p' :
  params_next fpext p = ROk (Some (ct, v), p') ->
  abs_pull fpext fptrunc (S f) None [] p =
  match abs_pull fpext fptrunc f None [] p' with
  | Some (cs, p'') => Some (CParam ct v :: cs, p'')
  | None => None end.
Proof. intro H. cbn [abs_pull]. rewrite H. reflexivity. Qed.
Lemma abs_pull_end f p p' :
  params_next fpext p = ROk (None, p') -> abs_pull fpext fptrunc (S f) None [] p = Some ([], p').
Proof. intro H. cbn [abs_pull]. rewrite H. reflexivity. Qed.
Lemma abs_pull_ext f c p0 p1 :
  params_next fpext p0 = params_next fpext p1 ->
  abs_pull fpext fptrunc (S f) None c p0 = abs_pull fpext fptrunc (S f) None c p1.
Proof. intro H. cbn [abs_pull]. rewrite H. reflexivity. Qed.
Lemma params_next_header p0 p1 bm :
  params_header p0 = ROk p1 -> p_nullmap p1 = Some bm ->
  params_next fpext p0 = params_next fpext p1.
Proof.
  intros H Hn. unfold params_next. rewrite H, (params_header_some _ _ Hn). reflexivity.
Qed.

Lemma pull_loop ps long types : length types = length ps ->
  forall rs i inners fuel,
  (i <= length ps)%nat -> skipn i ps = rs ->
  delivered_all long types i rs = Some inners -> (length rs < fuel)%nat ->
  abs_pull fpext fptrunc fuel None []
    (stI (Nlen ps) (null_bitmap (nulls_of ps)) long types i (values_of rs)) =
  Some (param_calls (skipn i types) inners,
        stI (Nlen ps) (null_bitmap (nulls_of ps)) long types (length ps) []).
Proof.
  intros Hlen rs. induction rs as [|p r IH]; intros i inners fuel Hi Hs Hd Hf.
  - destruct fuel as [|f]; [lia|].
    cbn [delivered_all] in Hd. inversion Hd; subst inners.
    assert (Ei : i = length ps).
    { pose proof (skipn_length i ps) as HL. rewrite Hs in HL. cbn [length] in HL. lia. }
    subst i.
    rewrite (abs_pull_end f _ (stI (Nlen ps) (null_bitmap (nulls_of ps)) long types (length ps) [])).
    + rewrite <- Hlen, skipn_all. reflexivity.
    + rewrite params_next_stI. unfold Nlen. rewrite N.leb_refl. reflexivity.
  - destruct fuel as [|f]; [lia|]. cbn [length] in Hf.
    destruct (skipn_cons_nth _ _ _ _ Hs) as [Hp Hs'].
    assert (Hi' : (i < length ps)%nat) by (apply nth_error_Some; congruence).
    destruct (skipn_nth_cons i types) as [[t u] Hx]; [lia|].
    destruct (skipn_cons_nth _ _ _ _ Hx) as [Ht _].
    cbn [delivered_all] in Hd.
    destruct (delivered long types i p) as [inner|] eqn:Hd1; [|discriminate].
    destruct (delivered_all long types (S i) r) as [ins|] eqn:Hd2; [|discriminate].
    inversion Hd; subst inners.
    rewrite values_of_cons.
    rewrite (abs_pull_step f _ _ _ _ (step ps long types i p t u inner (values_of r) Hp Ht Hd1)).
    rewrite (IH (S i) ins f) by (first [exact Hs' | exact Hd2 | lia]).
    rewrite Hx. reflexivity.
Qed.

(* new-params-bound = 1: the types sent with this execution are used and recorded *)
Theorem pull_bound ps long bound0 inners :
  Nlen ps < 65536 -> types_ok ps ->
  delivered_all long (types_of ps) 0 ps = Some inners ->
  exists final,
    abs_pull fpext fptrunc (S (length ps)) None [] (pstate0 (Nlen ps) (exec_block ps true) long bound0)
      = Some (param_calls (types_of ps) inners, final) /\
    (ps <> [] -> p_bound final = types_of ps) /\ p_input final = [].
Proof.
  intros _ Hok Hd. destruct ps as [|p0 ps0].
  - cbn [delivered_all] in Hd. inversion Hd; subst inners.
    eexists. split; [reflexivity|]. split; [congruence | reflexivity].
  - set (ps := p0 :: ps0) in *.
    assert (Hne : ps <> []) by discriminate. clearbody ps.
    exists (stI (Nlen ps) (null_bitmap (nulls_of ps)) long (types_of ps) (length ps) []).
    split; [|split; [intros _; reflexivity | reflexivity]].
    rewrite (abs_pull_ext _ _ _ _
               (params_next_header _ _ _ (header_bound ps long bound0 Hne Hok) eq_refl)).
    assert (Hlen : length (types_of ps) = length ps) by (unfold types_of; apply map_length).
    apply (pull_loop ps long (types_of ps) Hlen ps 0%nat inners (S (length ps)));
      [lia | reflexivity | exact Hd | lia].
Qed.

(* new-params-bound = 0: the types bound earlier for this statement are used, and kept *)
Theorem pull_reuse ps long bound0 inners :
  Nlen ps < 65536 -> length bound0 = length ps ->
  delivered_all long bound0 0 ps = Some inners ->
  exists final,
    abs_pull fpext fptrunc (S (length ps)) None [] (pstate0 (Nlen ps) (exec_block ps false) long bound0)
      = Some (param_calls bound0 inners, final) /\
    p_bound final = bound0 /\ p_input final = [].
Proof.
  intros _ Hlen Hd. destruct ps as [|p0 ps0].
  - cbn [delivered_all] in Hd. inversion Hd; subst inners.
    destruct bound0; [|discriminate Hlen].
    eexists. split; [reflexivity|]. split; reflexivity.
  - set (ps := p0 :: ps0) in *.
    assert (Hne : ps <> []) by discriminate. clearbody ps.
    exists (stI (Nlen ps) (null_bitmap (nulls_of ps)) long bound0 (length ps) []).
    split; [|split; reflexivity].
    unfold pstate0.
    rewrite (abs_pull_ext _ _ _ _
               (params_next_header _ _ _ (header_reuse ps long bound0 Hne) eq_refl)).
    apply (pull_loop ps long bound0 Hlen ps 0%nat inners (S (length ps)));
      [lia | reflexivity | exact Hd | lia].
Qed.

End WithOracles.

Print Assumptions pull_bound.
Print Assumptions pull_reuse.
Print Assumptions parse_value_app.
Print Assumptions parse_int.
Print Assumptions convert_datetime11_exact.
Print Assumptions convert_time12_exact.
