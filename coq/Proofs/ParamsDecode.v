(* C08: the COM_STMT_EXECUTE parameter block a client builds (Spec/ClientEnc.v: NULL bitmap,
   new-params-bound flag, type table, values) is decoded by Params::next (Model/Params.v) to
   exactly the parameters the client bound -- count, type codes, values -- for every number of
   parameters, every NULL pattern, every type code; with the flag clear the previously bound types
   are used (C16); long data overrides without consuming inline bytes (C17); and the From<Value>
   conversions return the encoded value.  Proofs only; statements fixed. *)
From MsqlVerif Require Import Model.Params Spec.ClientEnc Spec.AbsServer
  Proofs.BaseLemmas Proofs.CodecClient.
From Coq Require Import Lia.
Open Scope N_scope.

Local Ltac Zify.zify_post_hook ::= Z.to_euclidean_division_equations.

(* ---- helpers: readers are prefix-stable ---- *)
Lemma take_n_app_gen n i a b rest :
  take_n n i = Some (a, b) -> take_n n (i ++ rest) = Some (a, b ++ rest).
Proof.
  revert i a b. induction n as [|n IH]; intros i a b H.
  - cbn [take_n] in *. inversion H. reflexivity.
  - destruct i as [|x r]; cbn [take_n] in H; [discriminate|].
    destruct (take_n n r) as [[a' b']|] eqn:E; [|discriminate].
    inversion H; subst. cbn [app take_n]. rewrite (IH _ _ _ E). reflexivity.
Qed.
Lemma read_fixed_app n i a b rest :
  read_fixed n i = ROk (a, b) -> read_fixed n (i ++ rest) = ROk (a, b ++ rest).
Proof.
  unfold read_fixed. destruct (take_n n i) as [[a' b']|] eqn:E; [|discriminate].
  intro H. inversion H; subst. rewrite (take_n_app_gen _ _ _ _ rest E). reflexivity.
Qed.
Lemma read_len8_app i a b rest :
  read_len8 i = ROk (a, b) -> read_len8 (i ++ rest) = ROk (a, b ++ rest).
Proof.
  destruct i as [|x r]; cbn [read_len8 app]; [discriminate|]. apply read_fixed_app.
Qed.
Lemma read_lenenc_app i x r rest :
  read_lenenc i = ROk (x, r) -> read_lenenc (i ++ rest) = ROk (x, r ++ rest).
Proof.
  destruct i as [|b i]; unfold read_lenenc; cbn [app]; [discriminate|]. cbv zeta.
  destruct (N_of_b b <=? 250).
  - intro H. inversion H; subst. reflexivity.
  - assert (Hrd : forall n, match take_n n i with Some (v, r') => ROk (le_val v, r') | None => RErr EUnexpectedEof end = ROk (x, r) ->
                  match take_n n (i ++ rest) with Some (v, r') => ROk (le_val v, r') | None => RErr EUnexpectedEof end = ROk (x, r ++ rest)).
    { intros n. destruct (take_n n i) as [[v r']|] eqn:E; [|discriminate].
      intro H. inversion H; subst. rewrite (take_n_app_gen _ _ _ _ rest E). reflexivity. }
    destruct (N_of_b b =? 252); [apply Hrd|].
    destruct (N_of_b b =? 253); [apply Hrd|].
    destruct (N_of_b b =? 254); [apply Hrd|]. discriminate.
Qed.
Lemma Nb x : x < 256 -> N_of_b (b_of_N x) = x.
Proof. intro H. rewrite N_of_b_of_N. apply N.mod_small. exact H. Qed.
Lemma read_lenenc_rt x rest : x < 2 ^ 64 -> read_lenenc (lenenc x ++ rest) = ROk (x, rest).
Proof.
  intro Hx. unfold lenenc.
  destruct (N.ltb_spec x 251) as [H1|H1].
  - cbn [app]. unfold read_lenenc. cbv zeta. rewrite Nb by lia.
    destruct (N.leb_spec x 250); [reflexivity | lia].
  - destruct (N.ltb_spec x 65536) as [H2|H2].
    + cbn [app]. unfold read_lenenc. cbv zeta. change (N_of_b xfc) with 252.
      change (252 <=? 250) with false. change (252 =? 252) with true. cbv iota.
      rewrite take_n_app by apply le_bytes_length.
      rewrite le_val_le_bytes by (rewrite pow256_2; exact H2). reflexivity.
    + destruct (N.ltb_spec x 16777216) as [H3|H3].
      * cbn [app]. unfold read_lenenc. cbv zeta. change (N_of_b xfd) with 253.
        change (253 <=? 250) with false. change (253 =? 252) with false. change (253 =? 253) with true.
        cbv iota.
        rewrite take_n_app by apply le_bytes_length.
        rewrite le_val_le_bytes by (rewrite pow256_3; exact H3). reflexivity.
      * cbn [app]. unfold read_lenenc. cbv zeta. change (N_of_b xfe) with 254.
        change (254 <=? 250) with false. change (254 =? 252) with false. change (254 =? 253) with false.
        change (254 =? 254) with true. cbv iota.
        rewrite take_n_app by apply le_bytes_length.
        rewrite le_val_le_bytes by (rewrite pow256_8; exact Hx). reflexivity.
Qed.

(* ---- helpers: two's complement ---- *)
Lemma pow256_Z w : Z.of_N (256 ^ N.of_nat w) = (2 ^ (8 * Z.of_nat w))%Z.
Proof.
  rewrite N2Z.inj_pow, nat_N_Z. change (Z.of_N 256) with (2 ^ 8)%Z.
  rewrite <- Z.pow_mul_r by lia. reflexivity.
Qed.
Lemma le_bytes_z_len w z : length (le_bytes_z w z) = w.
Proof. unfold le_bytes_z. apply le_bytes_length. Qed.
Lemma le_val_le_bytes_z w z :
  Z.of_N (le_val (le_bytes_z w z)) = (z mod 2 ^ (8 * Z.of_nat w))%Z.
Proof.
  unfold le_bytes_z, wrap_u. rewrite N2Z.inj_mul, nat_N_Z. change (Z.of_N 8) with 8%Z.
  assert (Hpos : (0 < 2 ^ (8 * Z.of_nat w))%Z) by (apply Z.pow_pos_nonneg; lia).
  pose proof (Z.mod_pos_bound z _ Hpos) as Hb.
  rewrite le_val_le_bytes.
  - apply Z2N.id. lia.
  - apply N2Z.inj_lt. rewrite pow256_Z, Z2N.id; lia.
Qed.
Lemma pow2_half W : (1 <= W)%Z -> (2 ^ W = 2 * 2 ^ (W - 1))%Z.
Proof. intro H. rewrite <- Z.pow_succ_r by lia. f_equal. lia. Qed.
Lemma wrap_s_mod W z :
  (1 <= W)%Z -> (- 2 ^ (W - 1) <= z < 2 ^ (W - 1))%Z ->
  (let m := 2 ^ W in let r := (z mod m) mod m in if r <? m / 2 then r else r - m)%Z = z.
Proof.
  intros HW Hz. cbv zeta. pose proof (pow2_half W HW) as Hm.
  assert (HH : (0 < 2 ^ (W - 1))%Z) by (apply Z.pow_pos_nonneg; lia).
  set (H := (2 ^ (W - 1))%Z) in *. set (M := (2 ^ W)%Z) in *.
  rewrite Z.mod_mod by lia.
  assert (Hd : (M / 2 = H)%Z) by (rewrite Hm, Z.mul_comm; apply Z.div_mul; lia).
  rewrite Hd.
  assert (Hmod : (z mod M = if z <? 0 then z + M else z)%Z).
  { destruct (Z.ltb_spec z 0).
    - rewrite <- (Z.mod_add z 1 M) by lia. rewrite Z.mul_1_l. apply Z.mod_small. lia.
    - apply Z.mod_small. lia. }
  rewrite Hmod. destruct (Z.ltb_spec z 0);
    match goal with |- context [(?a <? H)%Z] => destruct (Z.ltb_spec a H) end; lia.
Qed.
Lemma wrap_u_small w z : (0 <= z < 2 ^ Z.of_N w)%Z -> wrap_u w z = z.
Proof. intro H. unfold wrap_u. apply Z.mod_small. exact H. Qed.
Lemma wrap_s_small w z :
  0 < w -> (- 2 ^ (Z.of_N w - 1) <= z < 2 ^ (Z.of_N w - 1))%Z -> wrap_s w z = z.
Proof.
  intros Hw Hz. unfold wrap_s.
  assert (HW : (1 <= Z.of_N w)%Z) by lia.
  pose proof (wrap_s_mod (Z.of_N w) z HW Hz) as E. cbv zeta in E.
  pose proof (pow2_half _ HW) as Hm.
  assert (HH : (0 < 2 ^ (Z.of_N w - 1))%Z) by (apply Z.pow_pos_nonneg; lia).
  rewrite Z.mod_mod in E by lia. cbv zeta. exact E.
Qed.
Lemma le_val_s_le_bytes_z w z :
  (0 < w)%nat -> (- 2 ^ (8 * Z.of_nat w - 1) <= z < 2 ^ (8 * Z.of_nat w - 1))%Z ->
  le_val_s (le_bytes_z w z) = z.
Proof.
  intros Hw Hz. unfold le_val_s, wrap_s.
  assert (HL : Nlen (le_bytes_z w z) = N.of_nat w) by (unfold Nlen; rewrite le_bytes_z_len; reflexivity).
  rewrite HL, le_val_le_bytes_z.
  rewrite N2Z.inj_mul, nat_N_Z. change (Z.of_N 8) with 8%Z.
  apply (wrap_s_mod (8 * Z.of_nat w) z); [lia | exact Hz].
Qed.

Ltac dpos8 p := do 8 (try destruct p as [p|p|]).
Lemma int_col_bytes_pos t w : int_col_bytes t = Some w -> (0 < w)%nat.
Proof.
  destruct t as [|p]; [discriminate|]. dpos8 p; cbn [int_col_bytes]; try discriminate;
    intro H; inversion H; lia.
Qed.

Section WithOracles.
Variable fpext : N -> N.
Variable fptrunc : N -> N.


(* ---- parse_value as a decision list ---- *)
Definition pv_int (i : bytes) (u : bool) (n : nat) : res (pinner * bytes) :=
  rbind (read_fixed n i) (fun '(v, r) => ROk (if u then PIUInt (le_val v) else PIInt (le_val_s v), r)).
Lemma parse_value_eq i ct u :
  parse_value fpext i ct u =
  match int_col_bytes ct with
  | Some n => pv_int i u n
  | None =>
    if is_bytes_col ct then
      rbind (read_lenenc i) (fun '(len, r) =>
        rbind (read_fixed (N.to_nat len) r) (fun '(v, r') => ROk (PIBytes v, r')))
    else if ct =? 4 then rbind (read_fixed 4 i) (fun '(v, r) => ROk (PIDouble (fpext (le_val v)), r))
    else if ct =? 5 then rbind (read_fixed 8 i) (fun '(v, r) => ROk (PIDouble (le_val v), r))
    else if (ct =? 7) || (ct =? 12) then rbind (read_len8 i) (fun '(v, r) => ROk (PIDatetime v, r))
    else if ct =? 10 then rbind (read_len8 i) (fun '(v, r) => ROk (PIDate v, r))
    else if ct =? 11 then rbind (read_len8 i) (fun '(v, r) => ROk (PITime v, r))
    else if ct =? 6 then ROk (PINull, i)
    else RErr EInvalidInput
  end.
Proof.
  unfold parse_value, pv_int. destruct ct as [|p]; [reflexivity|]. dpos8 p; reflexivity.
Qed.

Lemma rd_map_app (rd : bytes -> res (bytes * bytes)) (f : bytes -> pinner) i rest inner :
  (forall a b, rd i = ROk (a, b) -> rd (i ++ rest) = ROk (a, b ++ rest)) ->
  rbind (rd i) (fun '(v, r) => ROk (f v, r)) = ROk (inner, []) ->
  rbind (rd (i ++ rest)) (fun '(v, r) => ROk (f v, r)) = ROk (inner, rest).
Proof.
  intros Happ H. destruct (rd i) as [[a b]| |] eqn:E; cbn [rbind] in H; try discriminate.
  inversion H; subst. rewrite (Happ _ _ eq_refl). reflexivity.
Qed.

(* ---- values: what the client encodes is what parse_from returns ---- *)

(* decoding does not depend on what follows the value *)
Lemma parse_value_app v t u inner rest :
  parse_value fpext v t u = ROk (inner, []) ->
  parse_value fpext (v ++ rest) t u = ROk (inner, rest).
Proof.
  rewrite !parse_value_eq.
  destruct (int_col_bytes t) as [n|].
  - unfold pv_int.
    apply (rd_map_app (read_fixed n) (fun v => if u then PIUInt (le_val v) else PIInt (le_val_s v))).
    intros a b. apply read_fixed_app.
  - destruct (is_bytes_col t).
    + destruct (read_lenenc v) as [[len r]| |] eqn:E; cbn [rbind]; try discriminate.
      rewrite (read_lenenc_app _ _ _ rest E). cbn [rbind].
      apply (rd_map_app (read_fixed (N.to_nat len)) PIBytes). intros a b. apply read_fixed_app.
    + destruct (t =? 4).
      { apply (rd_map_app (read_fixed 4) (fun v => PIDouble (fpext (le_val v)))).
        intros a b. apply read_fixed_app. }
      destruct (t =? 5).
      { apply (rd_map_app (read_fixed 8) (fun v => PIDouble (le_val v))).
        intros a b. apply read_fixed_app. }
      destruct ((t =? 7) || (t =? 12)).
      { apply (rd_map_app read_len8 PIDatetime). intros a b. apply read_len8_app. }
      destruct (t =? 10).
      { apply (rd_map_app read_len8 PIDate). intros a b. apply read_len8_app. }
      destruct (t =? 11).
      { apply (rd_map_app read_len8 PITime). intros a b. apply read_len8_app. }
      destruct (t =? 6); [|discriminate].
      intro H. inversion H; subst. reflexivity.
Qed.

(* integers of every width and signedness *)
Lemma parse_int (t : N) (u : bool) (w : nat) (z : Z) (rest : bytes) :
  int_col_bytes t = Some w ->
  (if u then 0 <= z < 2 ^ (8 * Z.of_nat w) else - 2 ^ (8 * Z.of_nat w - 1) <= z < 2 ^ (8 * Z.of_nat w - 1))%Z ->
  parse_value fpext (le_bytes_z w z ++ rest) t u = ROk (if u then PIUInt (Z.to_N z) else PIInt z, rest).
Proof.
  intros Ht Hz. rewrite parse_value_eq, Ht. unfold pv_int, read_fixed.
  rewrite take_n_app by apply le_bytes_z_len. cbn [rbind].
  pose proof (int_col_bytes_pos _ _ Ht) as Hw.
  destruct u.
  - assert (E : le_val (le_bytes_z w z) = Z.to_N z).
    { apply N2Z.inj. rewrite le_val_le_bytes_z, Z.mod_small by exact Hz. rewrite Z2N.id; lia. }
    rewrite E. reflexivity.
  - rewrite le_val_s_le_bytes_z by assumption. reflexivity.
Qed.
(* length-encoded byte strings for every string-like type *)
Lemma parse_bytes t u bs rest :
  is_bytes_col t = true -> Nlen bs < 2 ^ 64 ->
  parse_value fpext (lenenc_str bs ++ rest) t u = ROk (PIBytes bs, rest).
Proof.
  intros Ht Hlen. unfold parse_value. rewrite Ht. cbv zeta.
  unfold lenenc_str. rewrite <- app_assoc, read_lenenc_rt by exact Hlen. cbn [rbind].
  unfold read_fixed. rewrite Nlen_to_nat, take_n_app by reflexivity. reflexivity.
Qed.
(* FLOAT is widened, DOUBLE is delivered bit-exact *)
Lemma parse_float u bits rest : bits < 2 ^ 32 ->
  parse_value fpext (le_bytes 4 bits ++ rest) 4 u = ROk (PIDouble (fpext bits), rest).
Proof.
  intro Hb. rewrite parse_value_eq.
  change (int_col_bytes 4) with (@None nat). change (is_bytes_col 4) with false.
  change (4 =? 4) with true. cbv iota.
  unfold read_fixed. rewrite take_n_app by apply le_bytes_length. cbn [rbind].
  rewrite le_val_le_bytes by (rewrite pow256_4; exact Hb). reflexivity.
Qed.
Lemma parse_double u bits rest : bits < 2 ^ 64 ->
  parse_value fpext (le_bytes 8 bits ++ rest) 5 u = ROk (PIDouble bits, rest).
Proof.
  intro Hb. rewrite parse_value_eq.
  change (int_col_bytes 5) with (@None nat). change (is_bytes_col 5) with false.
  change (5 =? 4) with false. change (5 =? 5) with true. cbv iota.
  unfold read_fixed. rewrite take_n_app by apply le_bytes_length. cbn [rbind].
  rewrite le_val_le_bytes by (rewrite pow256_8; exact Hb). reflexivity.
Qed.
(* DATE / DATETIME / TIMESTAMP / TIME: a length byte, then that many bytes, for EVERY length form *)
Lemma parse_temporal t u raw rest :
  t = 10 \/ t = 12 \/ t = 7 \/ t = 11 -> Nlen raw < 256 ->
  parse_value fpext (b_of_N (Nlen raw) :: raw ++ rest) t u =
    ROk (match t with 10 => PIDate raw | 11 => PITime raw | _ => PIDatetime raw end, rest).
Proof.
  intros Ht Hlen.
  assert (Hrd : read_len8 (b_of_N (Nlen raw) :: raw ++ rest) = ROk (raw, rest)).
  { cbn [read_len8]. rewrite Nb by exact Hlen. unfold read_fixed.
    rewrite Nlen_to_nat, take_n_app by reflexivity. reflexivity. }
  rewrite parse_value_eq.
  destruct Ht as [-> | [-> | [-> | ->]]].
  - change (int_col_bytes 10) with (@None nat). change (is_bytes_col 10) with false.
    change (10 =? 4) with false. change (10 =? 5) with false.
    change ((10 =? 7) || (10 =? 12)) with false. change (10 =? 10) with true. cbv iota.
    rewrite Hrd. reflexivity.
  - change (int_col_bytes 12) with (@None nat). change (is_bytes_col 12) with false.
    change (12 =? 4) with false. change (12 =? 5) with false.
    change ((12 =? 7) || (12 =? 12)) with true. cbv iota.
    rewrite Hrd. reflexivity.
  - change (int_col_bytes 7) with (@None nat). change (is_bytes_col 7) with false.
    change (7 =? 4) with false. change (7 =? 5) with false.
    change ((7 =? 7) || (7 =? 12)) with true. cbv iota.
    rewrite Hrd. reflexivity.
  - change (int_col_bytes 11) with (@None nat). change (is_bytes_col 11) with false.
    change (11 =? 4) with false. change (11 =? 5) with false.
    change ((11 =? 7) || (11 =? 12)) with false. change (11 =? 10) with false.
    change (11 =? 11) with true. cbv iota.
    rewrite Hrd. reflexivity.
Qed.

(* ---- conversions to Rust types yield the value the client encoded ---- *)
Lemma convert_int_exact (k : conv) (w : N) (signed : bool) (z : Z) :
  (k, w, signed) = (KU8, 8, false) \/ (k, w, signed) = (KI8, 8, true) \/
  (k, w, signed) = (KU16, 16, false) \/ (k, w, signed) = (KI16, 16, true) \/
  (k, w, signed) = (KU32, 32, false) \/ (k, w, signed) = (KI32, 32, true) ->
  (if signed then - 2 ^ (Z.of_N w - 1) <= z < 2 ^ (Z.of_N w - 1) else 0 <= z < 2 ^ Z.of_N w)%Z ->
  convert fptrunc k (PIInt z) = ROk (Some (CvInt z)) /\
  (0 <= z -> convert fptrunc k (PIUInt (Z.to_N z)) = ROk (Some (CvInt z)))%Z.
Proof.
  intros Hk Hz.
  destruct Hk as [H|[H|[H|[H|[H|H]]]]]; injection H as -> -> ->; cbv iota in Hz;
    (split; [| intro Hz0]; cbv [convert conv_int rbind]; rewrite ?Z2N.id by exact Hz0;
     first [ rewrite wrap_u_small by exact Hz | rewrite wrap_s_small by (first [exact Hz | lia]) ];
     reflexivity).
Qed.
Lemma convert_u64_exact n : n < 2 ^ 64 -> convert fptrunc KU64 (PIUInt n) = ROk (Some (CvInt (Z.of_N n))).
Proof.
  intro H. rewrite pow2_64 in H. cbv [convert conv_int rbind]. rewrite wrap_u_small; [reflexivity|].
  change (2 ^ Z.of_N 64)%Z with 18446744073709551616%Z. lia.
Qed.
Lemma convert_i64_exact z : (- 2 ^ 63 <= z < 2 ^ 63)%Z -> convert fptrunc KI64 (PIInt z) = ROk (Some (CvInt z)).
Proof.
  intro H. cbv [convert conv_int rbind]. rewrite wrap_s_small; [reflexivity | lia | exact H].
Qed.
Lemma convert_bytes_exact bs : convert fptrunc KBytes (PIBytes bs) = ROk (Some (CvBytes bs)).
Proof. reflexivity.
Qed.
Lemma convert_str_exact bs : utf8_valid bs = true -> convert fptrunc KStr (PIBytes bs) = ROk (Some (CvBytes bs)).
Proof. intro H. cbv [convert]. rewrite H. reflexivity.
Qed.
Lemma convert_f64_exact bits : convert fptrunc KF64 (PIDouble bits) = ROk (Some (CvF64 bits)).
Proof. reflexivity.
Qed.
(* f32: exact under the oracle hypothesis that narrowing undoes widening *)
Lemma convert_f32_exact bits : fptrunc (fpext bits) = bits ->
  convert fptrunc KF32 (PIDouble (fpext bits)) = ROk (Some (CvF32 bits)).
Proof. intro H. cbv [convert]. rewrite H. reflexivity.
Qed.
(* DATE (4 bytes) *)
Lemma convert_date_exact y m d :
  y < 65536 -> m < 256 -> d < 256 -> valid_ymd (Z.of_N y) m d = true ->
  convert fptrunc KDate (PIDate (le_bytes 2 y ++ [b_of_N m; b_of_N d])) = ROk (Some (CvDate (Z.of_N y) m d)).
Proof.
  intros Hy Hm Hd Hv. cbn [le_bytes app]. cbv [convert conv_date rbind].
  change [b_of_N y; b_of_N (y / 256)] with (le_bytes 2 y).
  rewrite le_val_le_bytes by (rewrite pow256_2; exact Hy). rewrite !Nb by assumption.
  rewrite Hv. reflexivity.
Qed.
(* DATETIME: 4, 7 and 11 byte forms; microseconds preserved *)
Lemma convert_datetime4_exact y m d :
  y < 65536 -> m < 256 -> d < 256 -> valid_ymd (Z.of_N y) m d = true ->
  convert fptrunc KDatetime (PIDatetime (le_bytes 2 y ++ [b_of_N m; b_of_N d]))
    = ROk (Some (CvDateTime (Z.of_N y) m d 0 0 0 0)).
Proof.
  intros Hy Hm Hd Hv. cbn [le_bytes app]. cbv [convert conv_datetime rbind].
  change [b_of_N y; b_of_N (y / 256)] with (le_bytes 2 y).
  rewrite le_val_le_bytes by (rewrite pow256_2; exact Hy). rewrite !Nb by assumption.
  rewrite Hv. reflexivity.
Qed.
Lemma convert_datetime7_exact y m d h mi s :
  y < 65536 -> m < 256 -> d < 256 -> valid_ymd (Z.of_N y) m d = true -> h < 24 -> mi < 60 -> s < 60 ->
  convert fptrunc KDatetime (PIDatetime (le_bytes 2 y ++ [b_of_N m; b_of_N d; b_of_N h; b_of_N mi; b_of_N s]))
    = ROk (Some (CvDateTime (Z.of_N y) m d h mi s 0)).
Proof.
  intros Hy Hm Hd Hv Hh Hmi Hs. cbn [le_bytes app]. cbv [convert conv_datetime rbind].
  change [b_of_N y; b_of_N (y / 256)] with (le_bytes 2 y).
  rewrite le_val_le_bytes by (rewrite pow256_2; exact Hy). rewrite !Nb by lia.
  assert (Hhms : valid_hms h mi s = true).
  { unfold valid_hms. rewrite !Bool.andb_true_iff, !N.ltb_lt. lia. }
  rewrite Hv, Hhms. reflexivity.
Qed.
Lemma convert_datetime11_exact y m d h mi s us :
  y < 65536 -> m < 256 -> d < 256 -> valid_ymd (Z.of_N y) m d = true -> h < 24 -> mi < 60 -> s < 60 -> us < 1000000 ->
  convert fptrunc KDatetime
    (PIDatetime (le_bytes 2 y ++ [b_of_N m; b_of_N d; b_of_N h; b_of_N mi; b_of_N s] ++ le_bytes 4 us))
    = ROk (Some (CvDateTime (Z.of_N y) m d h mi s (us * 1000))).
Proof.
  intros Hy Hm Hd Hv Hh Hmi Hs Hus. cbn [le_bytes app]. cbv [convert conv_datetime rbind].
  change [b_of_N y; b_of_N (y / 256)] with (le_bytes 2 y).
  change [b_of_N us; b_of_N (us / 256); b_of_N (us / 256 / 256); b_of_N (us / 256 / 256 / 256)]
    with (le_bytes 4 us).
  rewrite le_val_le_bytes by (rewrite pow256_2; exact Hy).
  rewrite le_val_le_bytes by (rewrite pow256_4; change (2 ^ 32) with 4294967296; lia).
  rewrite !Nb by lia.
  assert (Hhms : valid_hms_micro h mi s us = true).
  { unfold valid_hms_micro.
    destruct (N.ltb_spec (us * 1000) 4294967296); [|lia].
    destruct (N.ltb_spec h 24); [|lia].
    destruct (N.ltb_spec mi 60); [|lia].
    destruct (N.ltb_spec s 60); [|lia].
    destruct (N.leb_spec 1000000000 (us * 1000)); [lia|].
    destruct (N.ltb_spec (us * 1000) 2000000000); [|lia]. reflexivity. }
  rewrite Hv, Hhms. reflexivity.
Qed.
(* TIME: 0, 8 and 12 byte forms; microseconds preserved *)
Lemma convert_time0_exact : convert fptrunc KDur (PITime []) = ROk (Some (CvDur 0 0)).
Proof. reflexivity.
Qed.
Lemma convert_time8_exact days h mi s :
  days < 2 ^ 32 -> h < 256 -> mi < 256 -> s < 256 ->
  convert fptrunc KDur (PITime (x00 :: le_bytes 4 days ++ [b_of_N h; b_of_N mi; b_of_N s]))
    = ROk (Some (CvDur (days * 86400 + h * 3600 + mi * 60 + s) 0)).
Proof.
  intros Hd Hh Hmi Hs. cbn [le_bytes app]. cbv [convert conv_dur rbind].
  change (byte_eqb x00 x00) with true. cbn [negb].
  change (4294967296 <=? 0 * 1000) with false. cbv iota.
  change [b_of_N days; b_of_N (days / 256); b_of_N (days / 256 / 256); b_of_N (days / 256 / 256 / 256)]
    with (le_bytes 4 days).
  rewrite le_val_le_bytes by (rewrite pow256_4; exact Hd). rewrite !Nb by assumption.
  change (0 * 1000 / 1000000000) with 0. change ((0 * 1000) mod 1000000000) with 0.
  rewrite N.add_0_r. reflexivity.
Qed.
Lemma convert_time12_exact days h mi s us :
  days < 2 ^ 32 -> h < 256 -> mi < 256 -> s < 256 -> us < 1000000 ->
  convert fptrunc KDur (PITime (x00 :: le_bytes 4 days ++ [b_of_N h; b_of_N mi; b_of_N s] ++ le_bytes 4 us))
    = ROk (Some (CvDur (days * 86400 + h * 3600 + mi * 60 + s) (us * 1000))).
Proof.
  intros Hd Hh Hmi Hs Hus. cbn [le_bytes app]. cbv [convert conv_dur rbind].
  change (byte_eqb x00 x00) with true. cbn [negb].
  change [b_of_N days; b_of_N (days / 256); b_of_N (days / 256 / 256); b_of_N (days / 256 / 256 / 256)]
    with (le_bytes 4 days).
  change [b_of_N us; b_of_N (us / 256); b_of_N (us / 256 / 256); b_of_N (us / 256 / 256 / 256)]
    with (le_bytes 4 us).
  rewrite (le_val_le_bytes 4 days) by (rewrite pow256_4; exact Hd).
  rewrite (le_val_le_bytes 4 us) by (rewrite pow256_4; change (2 ^ 32) with 4294967296; lia).
  rewrite !Nb by assumption.
  destruct (N.leb_spec 4294967296 (us * 1000)); [lia|].
  rewrite N.div_small, N.mod_small, N.add_0_r by lia. reflexivity.
Qed.

(* ---- the whole block ---- *)

(* what the shim must be given for parameter number i *)
Definition delivered (long : list (N * bytes)) (types : list (N * bool)) (i : nat) (p : cparam) : option pinner :=
  match cp_value p with
  | None => Some PINull
  | Some v =>
    match lookup (N.of_nat i) long with
    | Some data => match v with [] => Some (PIBytes data) | _ => None end
    | None =>
      match nth_error types i with
      | Some (t, u) => match parse_value fpext v t u with ROk (inner, []) => Some inner | _ => None end
      | None => None
      end
    end
  end.
Fixpoint delivered_all (long : list (N * bytes)) (types : list (N * bool)) (i : nat) (ps : list cparam)
  : option (list pinner) :=
  match ps with
  | [] => Some []
  | p :: r => match delivered long types i p, delivered_all long types (S i) r with
              | Some x, Some xs => Some (x :: xs)
              | _, _ => None end
  end.
Definition types_of (ps : list cparam) : list (N * bool) := map (fun p => (cp_type p, cp_unsigned p)) ps.
Definition types_ok (ps : list cparam) : Prop :=
  Forall (fun p => coltype_known (cp_type p) = true /\ cp_type p < 256) ps.
Definition param_calls (types : list (N * bool)) (inners : list pinner) : list call :=
  map (fun ti => CParam (fst (fst ti)) (snd ti)) (combine types inners).

Definition pstate0 (n : N) (input : bytes) (long : list (N * bytes)) (bound : list (N * bool)) : pstate :=
  {| p_params := n; p_input := input; p_nullmap := None; p_col := 0; p_long := long; p_bound := bound |}.

(* new-params-bound = 1: the types sent with this execution are used and recorded *)
Theorem pull_bound ps long bound0 inners :
  Nlen ps < 65536 -> types_ok ps ->
  delivered_all long (types_of ps) 0 ps = Some inners ->
  exists final,
    abs_pull fpext fptrunc (S (length ps)) None [] (pstate0 (Nlen ps) (exec_block ps true) long bound0)
      = Some (param_calls (types_of ps) inners, final) /\
    (ps <> [] -> p_bound final = types_of ps) /\ p_input final = [].
Admitted.

(* new-params-bound = 0: the types bound earlier for this statement are used, and kept *)
Theorem pull_reuse ps long bound0 inners :
  Nlen ps < 65536 -> length bound0 = length ps ->
  delivered_all long bound0 0 ps = Some inners ->
  exists final,
    abs_pull fpext fptrunc (S (length ps)) None [] (pstate0 (Nlen ps) (exec_block ps false) long bound0)
      = Some (param_calls bound0 inners, final) /\
    p_bound final = bound0 /\ p_input final = [].
Admitted.

End WithOracles.
