(* C12 at the level of whole conversations: while serving ANY conversation under ANY chunking, the
   server asks the transport for input only at moments when the bytes it has received and not yet
   consumed do not contain a complete command; each command is taken up as soon as the chunk that
   completes it has arrived.  (Proofs/ReadsNeeded.v shows it for one call of next(); here it is
   threaded through the run loop: handling a command and flushing never read.) *)
From MsqlVerif Require Import Model.Server Spec.Frame Spec.AbsServer Proofs.BaseLemmas Proofs.PacketRead
  Proofs.RunRender Proofs.ServerRun Proofs.ReadsNeeded.
From Coq Require Import Lia.
Open Scope N_scope.

(* cks: for each command, the chunks read while waiting for it; buf: received but unconsumed bytes *)
Fixpoint conv_reads (lim : N) (buf : bytes) (cmds : list (N * bytes)) (cks : list (list bytes)) : Prop :=
  match cmds, cks with
  | [], [] => True
  | (q, p) :: cmds', ck :: cks' =>
      reads_needed lim buf ck /\
      exists rest, buf ++ concat ck = frame lim q p ++ rest /\ conv_reads lim rest cmds' cks'
  | _, _ => False
  end.

Lemma reads_data_map_app ck r : reads_data (map RdData ck ++ r) = concat ck ++ reads_data r.
Proof.
  induction ck as [|c ck IH]; [reflexivity|].
  cbn [map app reads_data concat]. rewrite IH, app_assoc. reflexivity.
Qed.

Lemma inbound_nil_reads s : all_data (s_reads s) -> inbound s = [] -> s_reads s = [].
Proof.
  intros Hall Hin. unfold inbound in Hin. apply app_eq_nil in Hin. destruct Hin as [Hb Hrd].
  destruct (s_reads s) as [|r l]; [reflexivity|]. exfalso.
  apply all_data_cons in Hall. destruct Hall as [(b & bs & ->) _].
  cbn [reads_data app] in Hrd. discriminate.
Qed.

(* step_one of ServerRun.v, additionally exposing the chunks consumed by the call of next() *)
Lemma step_one_reads fpext fptrunc errtab s q p rest cmd ss0 rep ss' :
  wf_conn s -> q < 256 ->
  inbound s = frame (s_lim s) q p ++ rest ->
  parse p = Some cmd -> cmd <> CmdQuit ->
  abs_handle fpext fptrunc errtab cmd ss0 = Some (rep, ss') ->
  exists s4 ck,
    (forall f, run_f fpext fptrunc errtab (S f) ss0 s = run_f fpext fptrunc errtab f ss' s4) /\
    wf_conn s4 /\ s_lim s4 = s_lim s /\ inbound s4 = rest /\
    s_reads s = map RdData ck ++ s_reads s4 /\
    reads_needed (s_lim s) (s_buf s) ck /\
    s_buf s ++ concat ck = frame (s_lim s) q p ++ s_buf s4.
Proof.
  intros (Hcl & Hl24 & Hall) Hq Hin Hp Hnq Habs.
  pose proof Hcl as (Hf & Hl0 & Hsq & Htw & Hcn & Hpk).
  destruct (next_frame s q p rest Hl0 Hl24 Hq Hall Hin) as (s1 & Hn & Hin1 & Hall1 & Hpost).
  destruct Hpost as (F1 & L1 & T1 & _ & C1 & P1 & _ & (evs & Tr1 & Hev) & _).
  pose proof Hn as Hn0. unfold next in Hn0.
  destruct (next_reads_only_when_needed _ s _ s1 Hall Hn0) as (ck & Hrd & Hneed & _ & _).
  set (s2 := set_seq_cont ((last_seq (s_lim s) q p + 1) mod 256) (s_cont s1) s1).
  assert (Hcl2 : clean s2).
  { unfold clean, s2. cbn [set_seq_cont s_fault s_lim s_seq s_tw s_cont s_park].
    rewrite F1, L1, T1, C1, P1.
    refine (conj Hf (conj Hl0 (conj _ (conj Htw (conj Hcn Hpk))))). apply N.mod_lt. lia. }
  destruct (handle_refines fpext fptrunc errtab cmd ss0 rep ss' s2 Habs Hcl2)
    as (s3 & Hh & Hcl3 & R3 & L3 & B3 & _ & body & Tr3 & Hbody & Hcalls & Hwr).
  set (s4 := upd_trace EFlush (set_wops (S (s_wops s3)) s3)).
  exists s4, ck.
  assert (L2 : s_lim s2 = s_lim s) by exact L1.
  assert (R4 : s_reads s4 = s_reads s1) by exact R3.
  assert (B4 : s_buf s4 = s_buf s1) by exact B3.
  split; [|split; [|split; [|split; [|split; [|split]]]]].
  - intro f. rewrite (run_f_cmd fpext fptrunc errtab f ss0 s _ _ s1 cmd Hn Hp Hnq). fold s2.
    rewrite (bind_ok _ _ _ _ _ Hh), (bind_ok _ _ _ _ _ (flush_clean s3 Hcl3)). reflexivity.
  - unfold wf_conn. split; [exact Hcl3|]. unfold s4. cbn [upd_trace set_wops s_lim s_reads].
    rewrite L3, L2, R3. split; [exact Hl24 | exact Hall1].
  - unfold s4. cbn [upd_trace set_wops s_lim]. rewrite L3. exact L2.
  - unfold inbound. rewrite B4, R4. exact Hin1.
  - rewrite R4. exact Hrd.
  - exact Hneed.
  - rewrite B4. unfold inbound in Hin, Hin1.
    rewrite Hrd, reads_data_map_app, <- Hin1 in Hin.
    rewrite !app_assoc in Hin. apply app_inv_tail in Hin. exact Hin.
Qed.

Theorem run_reads_needed : forall fpext fptrunc errtab cmds ss0 reps ss1 fuel s,
  wf_conn s -> Forall (fun c => fst c < 256) cmds ->
  inbound s = frames (s_lim s) cmds ->
  abs_run fpext fptrunc errtab cmds ss0 = Some (reps, ss1) ->
  (length cmds < fuel)%nat ->
  exists s' cks,
    run_f fpext fptrunc errtab fuel ss0 s = (ROk tt, s') /\
    s_reads s = map RdData (concat cks) /\
    conv_reads (s_lim s) (s_buf s) cmds cks.
Proof.
  intros fpext fptrunc errtab cmds. 
  induction cmds as [|[q p] cmds IH]; intros ss0 reps ss1 fuel s Hwf Hq Hin Habs Hfuel;
    (destruct fuel as [|f]; [cbn [length] in Hfuel; lia|]).
  - cbn [frames] in Hin.
    pose proof Hwf as (Hcl & Hl24 & Hall).
    pose proof (next_eof_clean s Hall Hin) as Hn.
    exists (set_buf [] (upd_trace (ERead 0) s)), [].
    split; [apply run_f_eof; exact Hn|].
    split; [|exact I].
    cbn [concat map]. exact (inbound_nil_reads s Hall Hin).
  - destruct (abs_run_cons _ _ _ _ _ _ _ _ _ Habs)
      as (cmd & rep & reps' & ss' & Hp & Hnq & Hh & Hr & ->).
    pose proof (Forall_inv Hq) as Hq1. cbn [fst] in Hq1. apply Forall_inv_tail in Hq.
    cbn [frames] in Hin.
    destruct (step_one_reads fpext fptrunc errtab s q p _ cmd ss0 rep ss' Hwf Hq1 Hin Hp Hnq Hh)
      as (s4 & ck & Hrun & Hwf4 & L4 & Hin4 & Hrd & Hneed & Hbuf).
    destruct (IH ss' reps' ss1 f s4 Hwf4 Hq) as (s' & cks & Hrun' & Hrd' & Hcr).
    + rewrite L4. exact Hin4.
    + exact Hr.
    + cbn [length] in Hfuel. lia.
    + exists s', (ck :: cks).
      split; [rewrite Hrun; exact Hrun'|]. split.
      * cbn [concat]. rewrite map_app, Hrd, Hrd'. reflexivity.
      * cbn [conv_reads]. split; [exact Hneed|].
        exists (s_buf s4). split; [exact Hbuf|]. rewrite L4 in Hcr. exact Hcr.
Qed.

Print Assumptions run_reads_needed.
