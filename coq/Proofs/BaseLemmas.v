(* Lemmas about bytes, little-endian integers, take/split helpers.  Proofs only. *)
From MsqlVerif Require Import Model.Base.
From Coq Require Import Lia.
Open Scope N_scope.

Lemma N_of_b_of_N x : N_of_b (b_of_N x) = x mod 256.
Proof.
  unfold N_of_b, b_of_N.
  destruct (Byte.of_N (x mod 256)) as [b|] eqn:E.
  - apply Byte.to_of_N; exact E.
  - apply Byte.of_N_None_iff in E.
    assert (x mod 256 < 256) by (apply N.mod_lt; lia). lia.
Qed.
Lemma N_of_b_lt b : N_of_b b < 256.
Proof.
  unfold N_of_b. pose proof (Byte.to_N_bounded b). lia.
Qed.
Lemma b_of_N_of_b b : b_of_N (N_of_b b) = b.
Proof.
  unfold b_of_N. rewrite N.mod_small by apply N_of_b_lt.
  unfold N_of_b. rewrite Byte.of_to_N. reflexivity.
Qed.
Lemma N_of_b_inj a b : N_of_b a = N_of_b b -> a = b.
Proof.
  intro H. rewrite <- (b_of_N_of_b a), <- (b_of_N_of_b b), H. reflexivity.
Qed.
Lemma byte_eqb_eq a b : byte_eqb a b = true <-> a = b.
Proof.
  unfold byte_eqb. split.
  - apply Byte.byte_dec_bl.
  - apply Byte.byte_dec_lb.
Qed.
Lemma byte_eqb_refl a : byte_eqb a a = true.
Proof. apply byte_eqb_eq. reflexivity. Qed.
Lemma bytes_eqb_eq a b : bytes_eqb a b = true <-> a = b.
Proof.
  revert b. induction a as [|x a IH]; intros [|y b]; cbn [bytes_eqb].
  - split; reflexivity.
  - split; discriminate.
  - split; discriminate.
  - rewrite Bool.andb_true_iff, byte_eqb_eq, IH. split.
    + intros [-> ->]. reflexivity.
    + intro H. inversion H. split; reflexivity.
Qed.
Lemma is_prefix_spec p s : is_prefix p s = true <-> exists r, s = p ++ r.
Proof.
  revert s. induction p as [|x p IH]; intros s; cbn [is_prefix].
  - split; [intros _; exists s; reflexivity | reflexivity].
  - destruct s as [|y s].
    + split; [discriminate | intros [r H]; discriminate H].
    + rewrite Bool.andb_true_iff, byte_eqb_eq, IH. split.
      * intros [-> [r ->]]. exists r. reflexivity.
      * intros [r H]. cbn [app] in H. inversion H. split; [reflexivity | exists r; reflexivity].
Qed.

Lemma le_bytes_length n x : length (le_bytes n x) = n.
Proof.
  revert x. induction n as [|n IH]; intro x; cbn [le_bytes length].
  - reflexivity.
  - rewrite IH. reflexivity.
Qed.

Lemma Nlen_app {A} (a b : list A) : Nlen (a ++ b) = Nlen a + Nlen b.
Proof. unfold Nlen. rewrite app_length. lia. Qed.
Lemma Nlen_nil {A} : Nlen (@nil A) = 0.
Proof. reflexivity. Qed.
Lemma Nlen_cons {A} (x : A) l : Nlen (x :: l) = Nlen l + 1.
Proof. unfold Nlen. cbn [length]. lia. Qed.
Lemma Nlen_0 {A} (l : list A) : Nlen l = 0 -> l = [].
Proof.
  destruct l as [|x l]; [reflexivity|]. rewrite Nlen_cons. lia.
Qed.

Lemma pow256_succ n : 256 ^ N.of_nat (S n) = 256 * 256 ^ N.of_nat n.
Proof.
  rewrite Nat2N.inj_succ, N.pow_succ_r by lia. reflexivity.
Qed.

Lemma le_val_lt bs : le_val bs < 256 ^ Nlen bs.
Proof.
  induction bs as [|b r IH].
  - cbn [le_val]. unfold Nlen. cbn [length]. change (256 ^ N.of_nat 0) with 1. lia.
  - cbn [le_val]. unfold Nlen in *. cbn [length]. rewrite pow256_succ.
    pose proof (N_of_b_lt b). lia.
Qed.
Lemma le_val_le_bytes n x : x < 256 ^ N.of_nat n -> le_val (le_bytes n x) = x.
Proof.
  revert x. induction n as [|n IH]; intros x Hx.
  - cbn [le_bytes le_val]. change (256 ^ N.of_nat 0) with 1 in Hx. lia.
  - cbn [le_bytes le_val]. rewrite pow256_succ in Hx.
    rewrite N_of_b_of_N, IH.
    + rewrite N.add_comm. symmetry. apply N.div_mod. lia.
    + apply N.div_lt_upper_bound; lia.
Qed.
Lemma le_bytes_le_val bs : le_bytes (length bs) (le_val bs) = bs.
Proof.
  induction bs as [|b r IH].
  - reflexivity.
  - cbn [length le_bytes le_val]. pose proof (N_of_b_lt b) as Hb.
    assert (Hm : (N_of_b b + 256 * le_val r) mod 256 = N_of_b b).
    { rewrite N.mul_comm, N.mod_add by lia. apply N.mod_small; exact Hb. }
    assert (Hd : (N_of_b b + 256 * le_val r) / 256 = le_val r).
    { rewrite N.mul_comm, N.div_add by lia. rewrite N.div_small by exact Hb. lia. }
    rewrite Hd, IH. f_equal.
    unfold b_of_N. rewrite Hm. unfold N_of_b. rewrite Byte.of_to_N. reflexivity.
Qed.
Lemma le_bytes_inj n x y : x < 256 ^ N.of_nat n -> y < 256 ^ N.of_nat n ->
  le_bytes n x = le_bytes n y -> x = y.
Proof.
  intros Hx Hy H. rewrite <- (le_val_le_bytes n x Hx), <- (le_val_le_bytes n y Hy), H.
  reflexivity.
Qed.

Lemma take_n_spec n l :
  take_n n l = if Nat.leb n (length l) then Some (firstn n l, skipn n l) else None.
Proof.
  revert l. induction n as [|n IH]; intro l.
  - reflexivity.
  - destruct l as [|x r].
    + reflexivity.
    + cbn [take_n length firstn skipn Nat.leb]. rewrite IH.
      destruct (Nat.leb n (length r)); reflexivity.
Qed.
Lemma take_n_app n a b : length a = n -> take_n n (a ++ b) = Some (a, b).
Proof.
  intros <-. induction a as [|x a IH].
  - reflexivity.
  - cbn [length app take_n]. rewrite IH. reflexivity.
Qed.
Lemma take_cnt_spec l n :
  take_cnt l n = if n <=? Nlen l then Some (firstn (N.to_nat n) l, skipn (N.to_nat n) l) else None.
Proof.
  revert n. induction l as [|x r IH]; intro n.
  - cbn [take_cnt]. change (Nlen (@nil byte)) with 0.
    destruct (N.eqb_spec n 0) as [->|Hn].
    + reflexivity.
    + destruct (N.leb_spec n 0); [lia | reflexivity].
  - cbn [take_cnt]. rewrite Nlen_cons.
    destruct (N.eqb_spec n 0) as [->|Hn].
    + destruct (N.leb_spec 0 (Nlen r + 1)); [reflexivity | lia].
    + rewrite IH.
      assert (Hs : N.to_nat n = S (N.to_nat (N.pred n))) by lia.
      rewrite Hs. cbn [firstn skipn].
      destruct (N.leb_spec (N.pred n) (Nlen r)); destruct (N.leb_spec n (Nlen r + 1));
        try lia; reflexivity.
Qed.
Lemma take_cnt_app a b : take_cnt (a ++ b) (Nlen a) = Some (a, b).
Proof.
  rewrite take_cnt_spec, Nlen_app.
  destruct (N.leb_spec (Nlen a) (Nlen a + Nlen b)); [|lia].
  unfold Nlen. rewrite Nat2N.id.
  rewrite firstn_app, skipn_app, Nat.sub_diag, firstn_all, skipn_all.
  cbn [firstn skipn app]. rewrite app_nil_r. reflexivity.
Qed.
Lemma take_cnt_short l n : Nlen l < n -> take_cnt l n = None.
Proof.
  intro H. rewrite take_cnt_spec. destruct (N.leb_spec n (Nlen l)); [lia | reflexivity].
Qed.

Print Assumptions take_cnt_spec.
Print Assumptions take_cnt_app.
Print Assumptions take_cnt_short.
Print Assumptions le_bytes_le_val.
Print Assumptions le_val_le_bytes.
