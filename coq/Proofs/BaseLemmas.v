(* Lemmas about bytes, little-endian integers, take/split helpers.  Proofs only. *)
From MsqlVerif Require Import Model.Base.
From Coq Require Import Lia.
Open Scope N_scope.

Lemma N_of_b_of_N x : N_of_b (b_of_N x) = x mod 256.
Admitted.
Lemma N_of_b_lt b : N_of_b b < 256.
Admitted.
Lemma b_of_N_of_b b : b_of_N (N_of_b b) = b.
Admitted.
Lemma N_of_b_inj a b : N_of_b a = N_of_b b -> a = b.
Admitted.
Lemma byte_eqb_eq a b : byte_eqb a b = true <-> a = b.
Admitted.
Lemma byte_eqb_refl a : byte_eqb a a = true.
Admitted.
Lemma bytes_eqb_eq a b : bytes_eqb a b = true <-> a = b.
Admitted.
Lemma is_prefix_spec p s : is_prefix p s = true <-> exists r, s = p ++ r.
Admitted.

Lemma le_bytes_length n x : length (le_bytes n x) = n.
Admitted.
Lemma le_val_lt bs : le_val bs < 256 ^ Nlen bs.
Admitted.
Lemma le_val_le_bytes n x : x < 256 ^ N.of_nat n -> le_val (le_bytes n x) = x.
Admitted.
Lemma le_bytes_le_val bs : le_bytes (length bs) (le_val bs) = bs.
Admitted.
Lemma le_bytes_inj n x y : x < 256 ^ N.of_nat n -> y < 256 ^ N.of_nat n ->
  le_bytes n x = le_bytes n y -> x = y.
Admitted.

Lemma Nlen_app {A} (a b : list A) : Nlen (a ++ b) = Nlen a + Nlen b.
Admitted.
Lemma Nlen_nil {A} : Nlen (@nil A) = 0.
Admitted.
Lemma Nlen_cons {A} (x : A) l : Nlen (x :: l) = Nlen l + 1.
Admitted.
Lemma Nlen_0 {A} (l : list A) : Nlen l = 0 -> l = [].
Admitted.

Lemma take_n_spec n l :
  take_n n l = if Nat.leb n (length l) then Some (firstn n l, skipn n l) else None.
Admitted.
Lemma take_n_app n a b : length a = n -> take_n n (a ++ b) = Some (a, b).
Admitted.
Lemma take_cnt_spec l n :
  take_cnt l n = if n <=? Nlen l then Some (firstn (N.to_nat n) l, skipn (N.to_nat n) l) else None.
Admitted.
Lemma take_cnt_app a b : take_cnt (a ++ b) (Nlen a) = Some (a, b).
Admitted.
Lemma take_cnt_short l n : Nlen l < n -> take_cnt l n = None.
Admitted.
