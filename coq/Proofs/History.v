(* History-level properties of prepared statements (C10, C16, C17) and of command dispatch (C02):
   (1) pure facts about the specification Spec/History.v; (2) the registry of the server
   (Spec/AbsServer.v: abs_handle, refined by the monadic model, Proofs/ServerRun.v) matches the
   specification after every conversation; (3) which callback each command reaches.
   Proofs only; statements fixed. *)
From MsqlVerif Require Import Model.Server Spec.Render Spec.AbsServer Spec.ClientEnc Spec.History
  Proofs.BaseLemmas Proofs.ParamsDecode Proofs.HdrLemmas.
From Coq Require Import Lia.
Open Scope N_scope.

(* ---------- (1) the specification itself ---------- *)

(* association lists *)
Lemma lookup_remove_same {A} k (l : list (N * A)) : lookup k (remove_key k l) = None.
Proof.
  induction l as [|[k' v] r IH]; cbn [remove_key lookup]; [reflexivity|].
  destruct (N.eqb_spec k k') as [E|E]; [exact IH|].
  cbn [lookup]. destruct (N.eqb_spec k k'); [contradiction|exact IH].
Qed.
Lemma lookup_remove_other {A} k k' (l : list (N * A)) :
  k' <> k -> lookup k' (remove_key k l) = lookup k' l.
Proof.
  intro Hne. induction l as [|[k2 v] r IH]; cbn [remove_key lookup]; [reflexivity|].
  destruct (N.eqb_spec k k2) as [E|E].
  - subst k2. destruct (N.eqb_spec k' k); [contradiction|exact IH].
  - cbn [lookup]. rewrite IH. reflexivity.
Qed.
Lemma lookup_insert_same {A} k (v : A) l : lookup k (insert_key k v l) = Some v.
Proof. unfold insert_key. cbn [lookup]. rewrite N.eqb_refl. reflexivity. Qed.
Lemma lookup_insert_other {A} k k' (v : A) l :
  k' <> k -> lookup k' (insert_key k v l) = lookup k' l.
Proof.
  intro Hne. unfold insert_key. cbn [lookup].
  destruct (N.eqb_spec k' k); [contradiction|]. apply lookup_remove_other. exact Hne.
Qed.

Lemma abs_stmt_snoc h e id : abs_stmt (h ++ [e]) id = hstep id (abs_stmt h id) e.
Proof. unfold abs_stmt. rewrite fold_left_app. reflexivity. Qed.

(* isolation: events for one id never influence another id *)
Lemma hist_isolation h e id :
  (match e with
   | HPrepare i _ | HClose i | HExec i _ _ | HLong i _ _ => i <> id
   | HOther => True end) ->
  abs_stmt (h ++ [e]) id = abs_stmt h id.
Proof.
  rewrite abs_stmt_snoc.
  destruct e as [i n|i|i ps b|i p d|]; cbn [hstep]; intro Hne; try reflexivity;
    destruct (N.eqb_spec i id); try contradiction; reflexivity.
Qed.

(* re-preparing starts afresh: declared count, no bound types, nothing pending *)
Lemma hist_reprepare h id n :
  abs_stmt (h ++ [HPrepare id n]) id = Some {| v_params := n; v_types := []; v_long := [] |}.
Proof. rewrite abs_stmt_snoc. cbn [hstep]. rewrite N.eqb_refl. reflexivity. Qed.
Lemma hist_close h id : live (h ++ [HClose id]) id = false.
Proof. unfold live. rewrite abs_stmt_snoc. cbn [hstep]. rewrite N.eqb_refl. reflexivity. Qed.
(* never prepared, rejected at prepare time, or closed: not live *)
Lemma hist_never_prepared h id :
  Forall (fun e => match e with HPrepare i _ => i <> id | _ => True end) h -> live h id = false.
Proof.
  intro HF. unfold live.
  assert (Hn : abs_stmt h id = None); [|rewrite Hn; reflexivity].
  induction h as [|e h IH] using rev_ind; [reflexivity|].
  apply Forall_app in HF. destruct HF as [HF1 HF2]. specialize (IH HF1).
  rewrite abs_stmt_snoc, IH. inversion HF2 as [|e' l' He _]; subst.
  destruct e as [i n|i|i ps b|i p d|]; cbn [hstep]; try reflexivity;
    destruct (N.eqb_spec i id); try contradiction; reflexivity.
Qed.

Lemma live_some h id : live h id = true -> exists v, abs_stmt h id = Some v.
Proof. unfold live. destruct (abs_stmt h id) as [v|]; [eauto|discriminate]. Qed.
Lemma live_none h id : live h id = false -> abs_stmt h id = None.
Proof. unfold live. destruct (abs_stmt h id) as [v|]; [discriminate|reflexivity]. Qed.

(* a rebind replaces the bound types completely; a reuse keeps them *)
Lemma hist_rebind h id ps :
  live h id = true -> ps <> [] -> latest_types (h ++ [HExec id ps true]) id = types_of ps.
Proof.
  intros Hl Hps. apply live_some in Hl. destruct Hl as [v Hv].
  unfold latest_types. rewrite abs_stmt_snoc, Hv. cbn [hstep]. rewrite N.eqb_refl.
  destruct ps as [|p ps]; [contradiction|]. reflexivity.
Qed.
Lemma hist_reuse h id ps : latest_types (h ++ [HExec id ps false]) id = latest_types h id.
Proof.
  unfold latest_types. rewrite abs_stmt_snoc. cbn [hstep]. rewrite N.eqb_refl.
  destruct (abs_stmt h id) as [v|]; [|reflexivity]. destruct ps; reflexivity.
Qed.

(* long data: chunks are concatenated in arrival order; an execution consumes them; other
   parameters and other statements are not touched *)
Lemma hist_long_append h id param data :
  live h id = true ->
  pending (h ++ [HLong id param data]) id param =
    Some ((match pending h id param with Some d => d | None => [] end) ++ data).
Proof.
  intro Hl. apply live_some in Hl. destruct Hl as [v Hv].
  unfold pending. rewrite abs_stmt_snoc, Hv. cbn [hstep]. rewrite N.eqb_refl.
  cbn [v_long]. unfold add_chunk. apply lookup_insert_same.
Qed.
Lemma hist_long_other_param h id param param' data :
  param' <> param -> pending (h ++ [HLong id param data]) id param' = pending h id param'.
Proof.
  intro Hne. unfold pending. rewrite abs_stmt_snoc. cbn [hstep]. rewrite N.eqb_refl.
  destruct (abs_stmt h id) as [v|]; [|reflexivity].
  cbn [v_long]. unfold add_chunk. apply lookup_insert_other. exact Hne.
Qed.
Lemma hist_exec_consumes h id ps b param : pending (h ++ [HExec id ps b]) id param = None.
Proof.
  unfold pending. rewrite abs_stmt_snoc. cbn [hstep]. rewrite N.eqb_refl.
  destruct (abs_stmt h id) as [v|]; reflexivity.
Qed.

(* ---------- (2) the server's registry is the specification's ---------- *)

Definition reg_matches (st : stmts) (h : list hev) : Prop :=
  forall id,
    match lookup id st, abs_stmt h id with
    | Some sd, Some v => sd_params sd = v_params v /\ sd_bound sd = v_types v /\
                         (forall p, lookup p (sd_long sd) = lookup p (v_long v))
    | None, None => True
    | _, _ => False
    end.

Lemma reg_matches_nil : reg_matches [] [].
Proof. intro id. cbn. exact I. Qed.

Lemma reg_matches_other st h : reg_matches st h -> reg_matches st (h ++ [HOther]).
Proof. intros H id. rewrite abs_stmt_snoc. cbn [hstep]. apply H. Qed.

Lemma reg_matches_prepare st h id n :
  reg_matches st h ->
  reg_matches (insert_key id {| sd_params := n; sd_bound := []; sd_long := [] |} st) (h ++ [HPrepare id n]).
Proof.
  intros H id'. rewrite abs_stmt_snoc. cbn [hstep].
  destruct (N.eqb_spec id id') as [E|E].
  - subst id'. rewrite lookup_insert_same. cbn. auto.
  - rewrite lookup_insert_other by congruence. apply H.
Qed.

Lemma reg_matches_close st h id : reg_matches st h -> reg_matches (remove_key id st) (h ++ [HClose id]).
Proof.
  intros H id'. rewrite abs_stmt_snoc. cbn [hstep].
  destruct (N.eqb_spec id id') as [E|E].
  - subst id'. rewrite lookup_remove_same. exact I.
  - rewrite lookup_remove_other by congruence. apply H.
Qed.

Lemma reg_matches_long st h id sd param data :
  reg_matches st h -> lookup id st = Some sd ->
  reg_matches
    (insert_key id {| sd_params := sd_params sd; sd_bound := sd_bound sd;
                      sd_long := insert_key param
                        ((match lookup param (sd_long sd) with Some d => d | None => [] end) ++ data)
                        (sd_long sd) |} st)
    (h ++ [HLong id param data]).
Proof.
  intros H L id'. rewrite abs_stmt_snoc. cbn [hstep].
  destruct (N.eqb_spec id id') as [E|E].
  - subst id'. rewrite lookup_insert_same. specialize (H id). rewrite L in H.
    destruct (abs_stmt h id) as [v|]; [|contradiction]. destruct H as (Hp & Hb & Hl).
    cbn [sd_params sd_bound sd_long v_params v_types v_long]. split; [exact Hp|]. split; [exact Hb|].
    intro p. unfold add_chunk. rewrite <- (Hl param).
    destruct (N.eqb_spec p param) as [Ep|Ep].
    + subst p. rewrite !lookup_insert_same. reflexivity.
    + rewrite !lookup_insert_other by exact Ep. apply Hl.
  - rewrite lookup_insert_other by congruence. apply H.
Qed.

Lemma reg_matches_exec st h id sd v ps b bound' :
  reg_matches st h -> lookup id st = Some sd -> abs_stmt h id = Some v ->
  bound' = (match ps, b with _ :: _, true => types_of ps | _, _ => v_types v end) ->
  reg_matches (insert_key id {| sd_params := sd_params sd; sd_bound := bound'; sd_long := [] |} st)
              (h ++ [HExec id ps b]).
Proof.
  intros H L Hv Hb' id'. rewrite abs_stmt_snoc. cbn [hstep].
  destruct (N.eqb_spec id id') as [E|E].
  - subst id'. rewrite lookup_insert_same, Hv. specialize (H id). rewrite L, Hv in H.
    destruct H as (Hp & Hb & Hl).
    cbn [sd_params sd_bound sd_long v_params v_types v_long]. split; [exact Hp|]. split; [exact Hb'|].
    intro p. reflexivity.
  - rewrite lookup_insert_other by congruence. apply H.
Qed.

Section WithOracles.
Variable fpext : N -> N.
Variable fptrunc : N -> N.
Variable errtab : N -> option (N * bytes).

(* what a command contributes to the history (EXECUTE is handled by exec_delivers below) *)
Definition hev_of (cmd : command) (sc : scripts) : hev :=
  match cmd with
  | CmdPrepare q =>
      if utf8_valid q then
        match fst (fst (pop_p sc)) with
        | PReply id params _ => HPrepare id (Nlen params mod 65536)
        | _ => HOther end
      else HOther
  | CmdClose id => HClose id
  | CmdLongData id param data => HLong id param data
  | _ => HOther
  end.

(* inversion of abs_handle, command by command *)
Lemma abs_init_inv schema st sc rep st' sc' :
  abs_init errtab schema (st, sc) = Some (rep, (st', sc')) -> st' = st /\ a_calls rep = [CInit schema].
Proof.
  unfold abs_init. destruct (pop_i sc) as [[prog tag] sc1].
  destruct (negb (no_tag tag)); [discriminate|].
  destruct prog as [|code msg| |];
    try (destruct (err_msg_of errtab code msg); [|discriminate]);
    intro H; inversion H; subst; auto.
Qed.

Lemma handle_query q st sc rep st' sc' :
  abs_handle fpext fptrunc errtab (CmdQuery q) (st, sc) = Some (rep, (st', sc')) ->
  st' = st /\
  (if is_prefix sel_upper q || is_prefix sel_lower q then a_calls rep = []
   else if is_prefix use_upper q || is_prefix use_lower q
        then utf8_valid (skipn 4 q) = true /\ a_calls rep = [CInit (use_schema (skipn 4 q))]
        else utf8_valid q = true /\ a_calls rep = [CQuery q]).
Proof.
  unfold abs_handle; cbv beta iota zeta.
  destruct (is_prefix sel_upper q || is_prefix sel_lower q).
  - destruct (pm_q errtab false None _); [|discriminate]. intro H; inversion H; subst; auto.
  - destruct (is_prefix use_upper q || is_prefix use_lower q).
    + destruct (utf8_valid (skipn 4 q)); [|discriminate].
      intro H. apply abs_init_inv in H. destruct H; auto.
    + destruct (utf8_valid q); [|discriminate]. destruct (pop_q sc) as [[prog tag] sc1].
      destruct (negb (no_tag tag)); [discriminate|].
      destruct (pm_q errtab false None prog); [|discriminate].
      intro H; inversion H; subst; auto.
Qed.

Lemma handle_prepare q st sc rep st' sc' :
  abs_handle fpext fptrunc errtab (CmdPrepare q) (st, sc) = Some (rep, (st', sc')) ->
  utf8_valid q = true /\ a_calls rep = [CPrepare q] /\
  st' = match fst (fst (pop_p sc)) with
        | PReply id params _ =>
            insert_key id {| sd_params := Nlen params mod 65536; sd_bound := []; sd_long := [] |} st
        | _ => st end.
Proof.
  unfold abs_handle; cbv beta iota zeta.
  destruct (utf8_valid q); [|discriminate].
  destruct (pop_p sc) as [[prog tag] sc1]. cbn [fst].
  destruct (negb (no_tag tag)); [discriminate|].
  destruct prog as [id params cols|code msg|];
    try (destruct (err_msg_of errtab code msg); [|discriminate]);
    intro H; inversion H; subst; auto.
Qed.

Lemma handle_init schema st sc rep st' sc' :
  abs_handle fpext fptrunc errtab (CmdInit schema) (st, sc) = Some (rep, (st', sc')) ->
  utf8_valid schema = true /\ st' = st /\ a_calls rep = [CInit schema].
Proof.
  unfold abs_handle; cbv beta iota zeta.
  destruct (utf8_valid schema); [|discriminate].
  intro H. apply abs_init_inv in H. destruct H; auto.
Qed.

Lemma handle_long id param data st sc rep st' sc' :
  abs_handle fpext fptrunc errtab (CmdLongData id param data) (st, sc) = Some (rep, (st', sc')) ->
  exists sd, lookup id st = Some sd /\ a_calls rep = [] /\
    st' = insert_key id {| sd_params := sd_params sd; sd_bound := sd_bound sd;
                           sd_long := insert_key param
                             ((match lookup param (sd_long sd) with Some d => d | None => [] end) ++ data)
                             (sd_long sd) |} st.
Proof.
  unfold abs_handle; cbv beta iota zeta.
  destruct (lookup id st) as [sd|]; [|discriminate].
  intro H; inversion H; subst. exists sd. auto.
Qed.

(* every command except EXECUTE *)
Lemma step_matches cmd st sc h rep st' sc' :
  (forall id b, cmd <> CmdExecute id b) ->
  reg_matches st h ->
  abs_handle fpext fptrunc errtab cmd (st, sc) = Some (rep, (st', sc')) ->
  reg_matches st' (h ++ [hev_of cmd sc]).
Proof.
  intros Hne Hreg Hh.
  destruct cmd as [q|a|schema|q|id b|id param data|id| |].
  - apply handle_query in Hh. destruct Hh as [-> _]. cbn [hev_of]. apply reg_matches_other, Hreg.
  - unfold abs_handle in Hh. inversion Hh; subst. cbn [hev_of]. apply reg_matches_other, Hreg.
  - apply handle_init in Hh. destruct Hh as (_ & -> & _). cbn [hev_of]. apply reg_matches_other, Hreg.
  - apply handle_prepare in Hh. destruct Hh as (Hu & _ & ->). cbn [hev_of]. rewrite Hu.
    destruct (fst (fst (pop_p sc))) as [id params cols|code msg|].
    + apply reg_matches_prepare, Hreg.
    + apply reg_matches_other, Hreg.
    + apply reg_matches_other, Hreg.
  - exfalso. exact (Hne id b eq_refl).
  - apply handle_long in Hh. destruct Hh as (sd & Hlk & _ & ->). cbn [hev_of].
    apply reg_matches_long; assumption.
  - unfold abs_handle in Hh. inversion Hh; subst. cbn [hev_of]. apply reg_matches_close, Hreg.
  - unfold abs_handle in Hh. discriminate.
  - unfold abs_handle in Hh. inversion Hh; subst. cbn [hev_of]. apply reg_matches_other, Hreg.
Qed.

(* gate: EXECUTE / SEND_LONG_DATA for an id the history says is not live never succeed *)
Lemma gate_execute id block st sc h :
  reg_matches st h -> live h id = false ->
  abs_handle fpext fptrunc errtab (CmdExecute id block) (st, sc) = None /\ lookup id st = None.
Proof.
  intros Hreg Hl. apply live_none in Hl. specialize (Hreg id). rewrite Hl in Hreg.
  destruct (lookup id st) as [sd|] eqn:E; [contradiction|].
  split; [|reflexivity]. unfold abs_handle; cbv beta iota zeta. rewrite E. reflexivity.
Qed.
Lemma gate_long_data id param data st sc h :
  reg_matches st h -> live h id = false ->
  abs_handle fpext fptrunc errtab (CmdLongData id param data) (st, sc) = None /\ lookup id st = None.
Proof.
  intros Hreg Hl. apply live_none in Hl. specialize (Hreg id). rewrite Hl in Hreg.
  destruct (lookup id st) as [sd|] eqn:E; [contradiction|].
  split; [|reflexivity]. unfold abs_handle; cbv beta iota zeta. rewrite E. reflexivity.
Qed.
(* every CLOSE reaches on_close exactly once, sends nothing, whether or not the id was live *)
Lemma close_always id st sc :
  abs_handle fpext fptrunc errtab (CmdClose id) (st, sc)
    = Some ({| a_calls := [CClose id]; a_msgs := [] |}, (remove_key id st, sc)).
Proof. reflexivity. Qed.

Lemma delivered_all_ext l1 l2 types ps :
  (forall p, lookup p l1 = lookup p l2) ->
  forall i, delivered_all fpext l1 types i ps = delivered_all fpext l2 types i ps.
Proof.
  intro Hext. induction ps as [|p r IH]; intro i; cbn [delivered_all]; [reflexivity|].
  rewrite IH. unfold delivered. rewrite Hext. reflexivity.
Qed.

(* a parameter block that the shim can pull completely (no conversions) passes validation *)
Lemma abs_pull_all_ok fuel : forall p calls p',
  abs_pull fpext fptrunc fuel None [] p = Some (calls, p') -> pull_all_ok fpext fuel p = true.
Proof.
  induction fuel as [|f IH]; intros p calls p' H; [reflexivity|].
  cbn [abs_pull] in H. cbn [pull_all_ok].
  destruct (params_next fpext p) as [[[[ct v]|] p1]|e|s]; try discriminate; [|reflexivity].
  destruct (convert fptrunc KNone v) as [r|e|s]; try discriminate.
  cbn [tl] in H.
  destruct (abs_pull fpext fptrunc f None [] p1) as [[cs1 p2]|] eqn:E; [|discriminate].
  eapply IH. exact E.
Qed.

(* EXECUTE of a live statement: the shim is given exactly the parameters the client bound, decoded
   with the types of this execution (rebind) or the latest bound ones (reuse), long-data
   parameters replaced by the pending data; the history advances *)
Theorem exec_delivers id ps b st sc h v inners x sc' msgs :
  reg_matches st h -> abs_stmt h id = Some v ->
  v_params v = Nlen ps -> Nlen ps < 65536 ->
  (b = true -> types_ok ps) ->
  (b = false -> length (v_types v) = length ps) ->
  delivered_all fpext (v_long v) (if b then types_of ps else v_types v) 0 ps = Some inners ->
  pop_x sc = (x, sc') -> x_pull x = None -> x_convs x = [] -> x_ret x = None ->
  pm_q errtab true None (x_prog x) = Some msgs ->
  exists st',
    abs_handle fpext fptrunc errtab (CmdExecute id (exec_block ps b)) (st, sc) =
      Some ({| a_calls := CExecute id :: param_calls (if b then types_of ps else v_types v) inners;
               a_msgs := msgs |}, (st', sc')) /\
    reg_matches st' (h ++ [HExec id ps b]).
Proof.
  intros Hreg Habs Hn Hlt Htok Hlen Hdel Hpop Hpull Hconvs Hret Hmsgs.
  pose proof (Hreg id) as Hid. rewrite Habs in Hid.
  destruct (lookup id st) as [sd|] eqn:Hlk; [|contradiction].
  destruct Hid as (Hp & Hb & Hl).
  assert (Hdel' : delivered_all fpext (sd_long sd) (if b then types_of ps else v_types v) 0 ps
                  = Some inners).
  { rewrite <- Hdel. apply delivered_all_ext. exact Hl. }
  assert (Hex : exists final,
     abs_pull fpext fptrunc (S (length ps)) None []
       (pstate0 (Nlen ps) (exec_block ps b) (sd_long sd) (sd_bound sd))
       = Some (param_calls (if b then types_of ps else v_types v) inners, final) /\
     p_bound final = (match ps, b with _ :: _, true => types_of ps | _, _ => v_types v end)).
  { destruct b.
    - destruct ps as [|p0 ps'].
      + cbn [delivered_all] in Hdel'. injection Hdel' as <-.
        exists {| p_params := 0; p_input := []; p_nullmap := Some []; p_col := 0;
                  p_long := sd_long sd; p_bound := sd_bound sd |}.
        split; [reflexivity|exact Hb].
      + destruct (pull_bound fpext fptrunc (p0 :: ps') (sd_long sd) (sd_bound sd) inners
                    Hlt (Htok eq_refl) Hdel') as (final & Hf & Hbd & _).
        exists final. split; [exact Hf|]. apply Hbd. discriminate.
    - destruct (pull_reuse fpext fptrunc ps (sd_long sd) (sd_bound sd) inners Hlt)
        as (final & Hf & Hbd & _).
      + rewrite Hb. apply Hlen. reflexivity.
      + rewrite Hb. exact Hdel'.
      + exists final. split; [rewrite Hf, Hb; reflexivity|]. rewrite Hbd, Hb.
        destruct ps; reflexivity. }
  destruct Hex as (final & Hf & Hbd).
  exists (insert_key id {| sd_params := sd_params sd; sd_bound := p_bound final; sd_long := [] |} st).
  split.
  - assert (Hvalid : params_valid fpext sd (exec_block ps b) = true).
    { unfold params_valid, pstate_of. rewrite Hp, Hn.
      replace (N.to_nat (Nlen ps)) with (length ps) by (unfold Nlen; symmetry; apply Nat2N.id).
      eapply abs_pull_all_ok. unfold pstate0 in Hf. exact Hf. }
    unfold abs_handle; cbv beta iota zeta. rewrite Hlk, Hvalid, Hpop. cbv beta iota zeta.
    rewrite Hret, Hpull, Hconvs. cbn [no_tag negb].
    rewrite abs_pull_hdr by discriminate. unfold pstate_of.
    rewrite Hp, Hn.
    replace (N.to_nat (Nlen ps)) with (length ps) by (unfold Nlen; symmetry; apply Nat2N.id).
    unfold pstate0 in Hf. rewrite Hf, Hmsgs. reflexivity.
  - eapply reg_matches_exec; eauto.
Qed.

(* the registry follows the history however many parameters the shim pulls (including none, and
   whatever conversions it asks for): the types sent with an execution are bound when the command is
   validated ([b = true] records the new types, [b = false] keeps the old ones) *)
Theorem exec_registry_any_pull id ps b st sc h v rep st' sc' :
  reg_matches st h -> abs_stmt h id = Some v ->
  v_params v = Nlen ps -> Nlen ps < 65536 ->
  (b = true -> types_ok ps) ->
  abs_handle fpext fptrunc errtab (CmdExecute id (exec_block ps b)) (st, sc) = Some (rep, (st', sc')) ->
  reg_matches st' (h ++ [HExec id ps b]).
Proof.
  intros Hreg Habs Hn Hlt Htok Hh.
  pose proof (Hreg id) as Hid. rewrite Habs in Hid.
  destruct (lookup id st) as [sd|] eqn:Hlk; [|contradiction].
  destruct Hid as (Hp & Hb & Hl).
  revert Hh. unfold abs_handle; cbv beta iota zeta. rewrite Hlk.
  destruct (params_valid fpext sd (exec_block ps b)) eqn:Hv; cbn [negb]; [|discriminate].
  destruct (pop_x sc) as [x sc1].
  destruct (negb (no_tag (x_ret x))); [discriminate|].
  destruct (abs_pull fpext fptrunc _ _ _ _) as [[cs p]|] eqn:E; [|discriminate].
  destruct (pm_q errtab true None (x_prog x)); [|discriminate].
  intro Hh. inversion Hh; subst rep st' sc'. clear Hh.
  destruct (params_valid_header fpext sd _ Hv) as (p1 & Hh1 & Ehdr).
  rewrite Ehdr in E.
  destruct (params_header_nullmap _ _ Hh1) as [bm Hbm].
  assert (Hpb : p_bound p = p_bound p1) by (eapply abs_pull_bound; [exact E | congruence]).
  eapply reg_matches_exec; [exact Hreg | exact Hlk | exact Habs |].
  rewrite Hpb. unfold pstate_of in Hh1. rewrite Hp, Hn in Hh1.
  destruct ps as [|p0 ps0].
  - change (exec_block [] b) with (@nil byte) in Hh1.
    unfold params_header in Hh1. cbn [p_nullmap p_params p_input p_col p_long p_bound] in Hh1.
    change (N.to_nat ((Nlen (@nil cparam) + 7) / 8)) with O in Hh1. cbn [take_n] in Hh1.
    inversion Hh1; subst p1. cbn [p_bound]. destruct b; exact Hb.
  - assert (Hne : p0 :: ps0 <> []) by discriminate.
    destruct b.
    + pose proof (header_bound (p0 :: ps0) (sd_long sd) (sd_bound sd) Hne (Htok eq_refl)) as HB.
      unfold pstate0 in HB. rewrite HB in Hh1. inversion Hh1; subst p1. reflexivity.
    + pose proof (header_reuse (p0 :: ps0) (sd_long sd) (sd_bound sd) Hne) as HB.
      rewrite HB in Hh1. inversion Hh1; subst p1. cbn [stI p_bound]. exact Hb.
Qed.

(* ---------- (3) dispatch (C02) ---------- *)

Definition is_builtin_query (q : bytes) : bool := is_prefix sel_upper q || is_prefix sel_lower q.
Definition is_use_query (q : bytes) : bool := is_prefix use_upper q || is_prefix use_lower q.

(* the callback a command reaches first (None: answered by the library itself / no callback) *)
Definition primary_call (cmd : command) : option call :=
  match cmd with
  | CmdQuery q =>
      if is_builtin_query q then None
      else if is_use_query q then Some (CInit (use_schema (skipn 4 q)))
      else Some (CQuery q)
  | CmdPrepare q => Some (CPrepare q)
  | CmdExecute id _ => Some (CExecute id)
  | CmdClose id => Some (CClose id)
  | CmdInit schema => Some (CInit schema)
  | CmdLongData _ _ _ | CmdListFields _ | CmdPing | CmdQuit => None
  end.
Definition is_param_call (c : call) : Prop := match c with CParam _ _ | CConv _ => True | _ => False end.

Lemma abs_pull_calls fuel : forall n convs p cs p',
  abs_pull fpext fptrunc fuel n convs p = Some (cs, p') -> Forall is_param_call cs.
Proof.
  induction fuel as [|f IH]; intros n convs p cs p' H.
  - cbn [abs_pull] in H. inversion H. constructor.
  - cbn [abs_pull] in H.
    destruct n as [[|m]|]; [inversion H; constructor| |];
      (destruct (params_next fpext p) as [[[[ct v]|] p1]|e|s]; try discriminate;
       [|inversion H; constructor];
       destruct (convert fptrunc _ v) as [r|e|s]; try discriminate;
       destruct (abs_pull fpext fptrunc f _ _ p1) as [[cs1 p2]|] eqn:E; try discriminate;
       inversion H; subst; apply IH in E;
       constructor; [exact I|];
       destruct r; [constructor; [exact I|exact E]|exact E]).
Qed.

Lemma handle_execute id block st sc rep st' sc' :
  abs_handle fpext fptrunc errtab (CmdExecute id block) (st, sc) = Some (rep, (st', sc')) ->
  exists cs, a_calls rep = CExecute id :: cs /\ Forall is_param_call cs.
Proof.
  unfold abs_handle; cbv beta iota zeta.
  destruct (lookup id st) as [sd|]; [|discriminate].
  destruct (negb (params_valid fpext sd block)); [discriminate|].
  destruct (pop_x sc) as [x sc1].
  destruct (negb (no_tag (x_ret x))); [discriminate|].
  destruct (abs_pull fpext fptrunc _ _ _ _) as [[cs p]|] eqn:E; [|discriminate].
  destruct (pm_q errtab true None (x_prog x)); [|discriminate].
  intro H; inversion H; subst. exists cs. split; [reflexivity|].
  eapply abs_pull_calls; exact E.
Qed.

Lemma dispatch cmd ss rep ss' :
  abs_handle fpext fptrunc errtab cmd ss = Some (rep, ss') ->
  match primary_call cmd with
  | None => a_calls rep = []
  | Some c => exists params, a_calls rep = c :: params /\ Forall is_param_call params /\
                             ((forall id b, cmd <> CmdExecute id b) -> params = [])
  end.
Proof.
  destruct ss as [st sc], ss' as [st' sc']. intro Hh.
  destruct cmd as [q|a|schema|q|id b|id param data|id| |]; cbn [primary_call].
  - apply handle_query in Hh. destruct Hh as [_ Hh]. unfold is_builtin_query, is_use_query.
    destruct (is_prefix sel_upper q || is_prefix sel_lower q); [exact Hh|].
    destruct (is_prefix use_upper q || is_prefix use_lower q); destruct Hh as [_ Hh];
      exists []; (split; [exact Hh|]); (split; [constructor|intros _; reflexivity]).
  - unfold abs_handle in Hh. inversion Hh; subst. reflexivity.
  - apply handle_init in Hh. destruct Hh as (_ & _ & Hh).
    exists []. split; [exact Hh|]. split; [constructor|intros _; reflexivity].
  - apply handle_prepare in Hh. destruct Hh as (_ & Hh & _).
    exists []. split; [exact Hh|]. split; [constructor|intros _; reflexivity].
  - apply handle_execute in Hh. destruct Hh as (cs & Hc & HF).
    exists cs. split; [exact Hc|]. split; [exact HF|].
    intros Hne. exfalso. apply (Hne id b). reflexivity.
  - apply handle_long in Hh. destruct Hh as (sd & _ & Hh & _). exact Hh.
  - unfold abs_handle in Hh. inversion Hh; subst.
    exists []. split; [reflexivity|]. split; [constructor|intros _; reflexivity].
  - unfold abs_handle in Hh. discriminate.
  - unfold abs_handle in Hh. inversion Hh; subst. reflexivity.
Qed.


(* text that is not valid UTF-8 is never handed to the shim *)
Lemma dispatch_utf8 cmd ss rep ss' :
  abs_handle fpext fptrunc errtab cmd ss = Some (rep, ss') ->
  match cmd with
  | CmdQuery q => is_builtin_query q = false -> utf8_valid (if is_use_query q then skipn 4 q else q) = true
  | CmdPrepare q | CmdInit q => utf8_valid q = true
  | _ => True
  end.
Proof.
  destruct ss as [st sc], ss' as [st' sc']. intro Hh.
  destruct cmd as [q|a|schema|q|id b|id param data|id| |]; try exact I.
  - apply handle_query in Hh. destruct Hh as [_ Hh]. unfold is_builtin_query, is_use_query.
    destruct (is_prefix sel_upper q || is_prefix sel_lower q); [discriminate|].
    intros _. destruct (is_prefix use_upper q || is_prefix use_lower q); apply Hh.
  - apply handle_init in Hh. apply Hh.
  - apply handle_prepare in Hh. apply Hh.
Qed.

End WithOracles.

(* `USE <db>` in the spellings clients emit: optional white space around, optional back-tick
   quoting, optional trailing semicolons -- the shim gets the bare name *)
Definition ws_run (bs : bytes) : Prop := exists l, Forall (fun w => In w ws_seqs) l /\ bs = concat l.
Definition no_prefix (pats : list bytes) (s : bytes) : Prop := strip_one pats s = None.
Definition bare_name (name : bytes) : Prop :=
  name <> [] /\
  no_prefix ws_seqs name /\ no_prefix (map (@rev byte) ws_seqs) (rev name) /\
  no_prefix [[x60]] name /\ no_prefix [[x60]] (rev name) /\ no_prefix [[x3b]] (rev name).

(* --- generic facts about strip_one / strip_many / trimming --- *)
Lemma strip_one_none pats s :
  strip_one pats s = None <-> (forall p, In p pats -> is_prefix p s = false).
Proof.
  induction pats as [|p ps IH]; cbn [strip_one In].
  - split; [intros _ p []|reflexivity].
  - destruct (is_prefix p s) eqn:E.
    + split; [discriminate|]. intro H. pose proof (H p (or_introl eq_refl)) as C.
      rewrite E in C. discriminate.
    + split.
      * intros H q [<-|Hq]; [exact E|]. apply (proj1 IH H). exact Hq.
      * intros H. apply (proj2 IH). intros q Hq. apply H. right. exact Hq.
Qed.

Lemma is_prefix_app_inv p : forall a b,
  is_prefix p (a ++ b) = true ->
  is_prefix p a = true \/ exists c p2 b', p = a ++ c :: p2 /\ b = c :: b'.
Proof.
  induction p as [|x p IH]; intros a b H.
  - left. reflexivity.
  - destruct a as [|y a].
    + right. cbn [app] in H. destruct b as [|c b']; cbn [is_prefix] in H; [discriminate|].
      apply andb_prop in H. destruct H as [H1 _]. apply byte_eqb_eq in H1. subst c.
      exists x, p, b'. split; reflexivity.
    + cbn [app is_prefix] in H. apply andb_prop in H. destruct H as [H1 H2].
      apply byte_eqb_eq in H1. subst y.
      destruct (IH a b H2) as [Hl|(c & p2 & b' & -> & ->)].
      * left. cbn [is_prefix]. rewrite byte_eqb_refl. exact Hl.
      * right. exists c, p2, b'. split; reflexivity.
Qed.

(* bytes occurring in a pattern after its first byte *)
Definition inner_bytes (pats : list bytes) : list byte := flat_map (@tl byte) pats.
Definition safe_head (pats : list bytes) (rest : bytes) : Prop :=
  match rest with [] => True | c :: _ => ~ In c (inner_bytes pats) end.

Lemma no_prefix_app pats name rest :
  name <> [] -> strip_one pats name = None -> safe_head pats rest ->
  strip_one pats (name ++ rest) = None.
Proof.
  intros Hne Hnp Hsafe. apply strip_one_none. intros p Hp.
  pose proof (proj1 (strip_one_none _ _) Hnp p Hp) as Hf.
  destruct (is_prefix p (name ++ rest)) eqn:E; [|reflexivity]. exfalso.
  apply is_prefix_app_inv in E. destruct E as [E|(c & p2 & b' & -> & ->)].
  - rewrite Hf in E. discriminate.
  - destruct name as [|n0 name']; [contradiction|]. apply Hsafe.
    unfold inner_bytes. apply in_flat_map. exists ((n0 :: name') ++ c :: p2). split; [exact Hp|].
    cbn [app tl]. apply in_or_app. right. left. reflexivity.
Qed.

Definition good_pats (pats : list bytes) : Prop :=
  (forall w, In w pats -> w <> []) /\
  (forall w, In w pats -> forall r, strip_one pats (w ++ r) = Some r).

Lemma strip_many_concat pats : good_pats pats ->
  forall (l : list bytes) rest fuel, Forall (fun w => In w pats) l -> strip_one pats rest = None ->
  (length l <= fuel)%nat -> strip_many fuel pats (concat l ++ rest) = rest.
Proof.
  intros [Hne Hdet] l. induction l as [|w l IH]; intros rest fuel HF Hnone Hlen.
  - cbn [concat app]. destruct fuel; cbn [strip_many]; [reflexivity|]. rewrite Hnone. reflexivity.
  - inversion HF as [|w' l' Hw HF']; subst. cbn [length] in Hlen.
    destruct fuel as [|f]; [lia|]. cbn [concat strip_many]. rewrite <- app_assoc, (Hdet w Hw).
    apply IH; [exact HF'|exact Hnone|lia].
Qed.

Lemma concat_length_ge (pats l : list bytes) :
  (forall w, In w pats -> w <> []) -> Forall (fun w => In w pats) l ->
  (length l <= length (concat l))%nat.
Proof.
  intros Hne HF. induction HF as [|w l Hw HF IH]; cbn [concat length]; [lia|].
  rewrite app_length. specialize (Hne w Hw). destruct w; [contradiction|]. cbn [length]. lia.
Qed.

Lemma trim_start_run pats l rest :
  good_pats pats -> Forall (fun w => In w pats) l -> strip_one pats rest = None ->
  trim_start_pats pats (concat l ++ rest) = rest.
Proof.
  intros Hg HF Hn. unfold trim_start_pats. apply strip_many_concat; auto.
  rewrite app_length. pose proof (concat_length_ge pats l (proj1 Hg) HF). lia.
Qed.

Lemma rev_concat (l : list bytes) : rev (concat l) = concat (rev (map (@rev byte) l)).
Proof.
  induction l as [|x l IH]; [reflexivity|].
  cbn [concat map rev]. rewrite rev_app_distr, IH, concat_app. cbn [concat].
  rewrite app_nil_r. reflexivity.
Qed.

Lemma trim_end_run pats l rest :
  good_pats (map (@rev byte) pats) -> Forall (fun w => In w pats) l ->
  strip_one (map (@rev byte) pats) (rev rest) = None ->
  trim_end_pats pats (rest ++ concat l) = rest.
Proof.
  intros Hg HF Hn. unfold trim_end_pats. rewrite rev_app_distr, rev_concat.
  rewrite trim_start_run; [apply rev_involutive|exact Hg| |exact Hn].
  apply Forall_rev. apply Forall_map.
  eapply Forall_impl; [|exact HF]. intros w Hw. apply in_map. exact Hw.
Qed.

Lemma rev_repeat {A} (x : A) n : rev (repeat x n) = repeat x n.
Proof.
  induction n as [|n IH]; [reflexivity|]. cbn [repeat rev]. rewrite IH. symmetry. apply repeat_cons.
Qed.

(* --- single-byte patterns --- *)
Lemma good_single (c : byte) : good_pats [[c]].
Proof.
  split.
  - intros w [<-|[]]. discriminate.
  - intros w [<-|[]] r. cbn [strip_one app is_prefix]. rewrite byte_eqb_refl. reflexivity.
Qed.
Lemma repeat_run (c : byte) n : Forall (fun w => In w [[c]]) (repeat [c] n).
Proof. induction n; cbn [repeat]; constructor; [left; reflexivity|assumption]. Qed.
Lemma trim_start_byte (c : byte) n rest :
  strip_one [[c]] rest = None -> trim_start_pats [[c]] (repeat c n ++ rest) = rest.
Proof.
  intro H. rewrite repeat_to_concat.
  apply trim_start_run; [apply good_single|apply repeat_run|exact H].
Qed.
Lemma trim_end_byte (c : byte) n rest :
  strip_one [[c]] (rev rest) = None -> trim_end_pats [[c]] (rest ++ repeat c n) = rest.
Proof.
  intro H. rewrite repeat_to_concat.
  apply (trim_end_run [[c]]); [apply good_single|apply repeat_run|exact H].
Qed.
Lemma safe_single (c : byte) rest : safe_head [[c]] rest.
Proof. unfold safe_head. destruct rest; [exact I|]. intro H. cbn in H. exact H. Qed.

(* --- the white-space patterns --- *)
Definition ws_rev : list bytes := Eval cbv in map (@rev byte) ws_seqs.
Lemma ws_rev_eq : map (@rev byte) ws_seqs = ws_rev.
Proof. reflexivity. Qed.

Lemma good_ws : good_pats ws_seqs.
Proof.
  split.
  - intros w Hin. unfold ws_seqs in Hin. cbn [In] in Hin.
    repeat (destruct Hin as [<-|Hin]; [discriminate|]). destruct Hin.
  - intros w Hin r. unfold ws_seqs in Hin. cbn [In] in Hin.
    repeat (destruct Hin as [<-|Hin]; [reflexivity|]). destruct Hin.
Qed.
Lemma good_ws_rev : good_pats ws_rev.
Proof.
  split.
  - intros w Hin. unfold ws_rev in Hin. cbn [In] in Hin.
    repeat (destruct Hin as [<-|Hin]; [discriminate|]). destruct Hin.
  - intros w Hin r. unfold ws_rev in Hin. cbn [In] in Hin.
    repeat (destruct Hin as [<-|Hin]; [reflexivity|]). destruct Hin.
Qed.

Lemma In_existsb c l : In c l -> existsb (byte_eqb c) l = true.
Proof. intro H. apply existsb_exists. exists c. split; [exact H|apply byte_eqb_refl]. Qed.

Lemma safe_x60_ws r : safe_head ws_seqs (x60 :: r).
Proof. unfold safe_head. intro H. apply In_existsb in H. vm_compute in H. discriminate. Qed.
Lemma safe_x3b_ws r : safe_head ws_seqs (x3b :: r).
Proof. unfold safe_head. intro H. apply In_existsb in H. vm_compute in H. discriminate. Qed.
Lemma safe_x60_wsrev r : safe_head ws_rev (x60 :: r).
Proof. unfold safe_head. intro H. apply In_existsb in H. vm_compute in H. discriminate. Qed.

Lemma ws_heads_safe w : In w ws_seqs -> forall r, safe_head ws_seqs (w ++ r).
Proof.
  intros Hin r. unfold ws_seqs in Hin. cbn [In] in Hin.
  repeat (destruct Hin as [<-|Hin];
          [unfold safe_head; cbn [app]; intro H; apply In_existsb in H; vm_compute in H; discriminate|]).
  destruct Hin.
Qed.
Lemma ws_run_safe l : Forall (fun w => In w ws_seqs) l -> safe_head ws_seqs (concat l).
Proof.
  intros HF. destruct HF as [|w l Hw HF]; [exact I|]. cbn [concat]. apply ws_heads_safe. exact Hw.
Qed.

Lemma use_spellings_n l1 l2 name n1 n2 n3 :
  Forall (fun w => In w ws_seqs) l1 -> Forall (fun w => In w ws_seqs) l2 -> bare_name name ->
  use_schema (concat l1 ++ repeat x60 n1 ++ name ++ repeat x60 n2 ++ repeat x3b n3 ++ concat l2) = name.
Proof.
  intros H1 H2 (Hne & Hws & Hwsr & Hq & Hqr & Hsr).
  assert (Hrne : rev name <> []).
  { intro E. apply Hne. rewrite <- (rev_involutive name), E. reflexivity. }
  unfold no_prefix in *.
  unfold use_schema, trim_ws.
  (* 1: leading white space *)
  rewrite (trim_start_run ws_seqs l1); [|exact good_ws|exact H1|].
  2: { destruct n1 as [|n1]; [|reflexivity].
       cbn [repeat app]. apply no_prefix_app; [exact Hne|exact Hws|].
       destruct n2 as [|n2]; [|apply safe_x60_ws].
       destruct n3 as [|n3]; [|apply safe_x3b_ws].
       cbn [repeat app]. apply ws_run_safe, H2. }
  (* 2: trailing white space *)
  replace (repeat x60 n1 ++ name ++ repeat x60 n2 ++ repeat x3b n3 ++ concat l2)
    with ((repeat x60 n1 ++ name ++ repeat x60 n2 ++ repeat x3b n3) ++ concat l2)
    by (rewrite <- !app_assoc; reflexivity).
  rewrite (trim_end_run ws_seqs l2); [|rewrite ws_rev_eq; exact good_ws_rev|exact H2|].
  2: { rewrite ws_rev_eq, !rev_app_distr, !rev_repeat, <- !app_assoc.
       destruct n3 as [|n3]; [|reflexivity].
       destruct n2 as [|n2]; [|reflexivity].
       cbn [repeat app]. apply no_prefix_app; [exact Hrne|rewrite <- ws_rev_eq; exact Hwsr|].
       destruct n1 as [|n1]; [exact I|apply safe_x60_wsrev]. }
  (* 3: trailing semicolons *)
  replace (repeat x60 n1 ++ name ++ repeat x60 n2 ++ repeat x3b n3)
    with ((repeat x60 n1 ++ name ++ repeat x60 n2) ++ repeat x3b n3)
    by (rewrite <- !app_assoc; reflexivity).
  rewrite (trim_end_byte x3b n3 (repeat x60 n1 ++ name ++ repeat x60 n2)).
  2: { rewrite !rev_app_distr, !rev_repeat, <- !app_assoc.
       destruct n2 as [|n2]; [|reflexivity].
       cbn [repeat app]. apply no_prefix_app; [exact Hrne|exact Hsr|apply safe_single]. }
  (* 4: leading back-ticks *)
  rewrite (trim_start_byte x60 n1 (name ++ repeat x60 n2)).
  2: { apply no_prefix_app; [exact Hne|exact Hq|apply safe_single]. }
  (* 5: trailing back-ticks *)
  apply (trim_end_byte x60 n2 name). exact Hqr.
Qed.

Lemma use_spellings ws1 q1 name q2 semis ws2 :
  ws_run ws1 -> ws_run ws2 -> bare_name name ->
  q1 = repeat x60 (length q1) -> q2 = repeat x60 (length q2) -> semis = repeat x3b (length semis) ->
  use_schema (ws1 ++ q1 ++ name ++ q2 ++ semis ++ ws2) = name.
Proof.
  intros (l1 & Hl1 & ->) (l2 & Hl2 & ->) Hb Hq1 Hq2 Hs.
  rewrite Hq1, Hq2, Hs. apply use_spellings_n; assumption.
Qed.

Print Assumptions step_matches.
Print Assumptions exec_delivers.
Print Assumptions gate_execute.
Print Assumptions dispatch.
Print Assumptions use_spellings.
Print Assumptions hist_isolation.
Print Assumptions hist_long_append.
Print Assumptions exec_registry_any_pull.
