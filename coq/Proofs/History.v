(* History-level properties of prepared statements (C10, C16, C17) and of command dispatch (C02):
   (1) pure facts about the specification Spec/History.v; (2) the registry of the server
   (Spec/AbsServer.v: abs_handle, refined by the monadic model, Proofs/ServerRun.v) matches the
   specification after every conversation; (3) which callback each command reaches.
   Proofs only; statements fixed. *)
From MsqlVerif Require Import Model.Server Spec.Render Spec.AbsServer Spec.ClientEnc Spec.History
  Proofs.BaseLemmas Proofs.ParamsDecode.
From Coq Require Import Lia.
Open Scope N_scope.

(* ---------- (1) the specification itself ---------- *)

(* association lists *)
Lemma lookup_remove_same {A} k (l : list (N * A)) : lookup k (remove_key k l) = None.
Proof.
  induction l as [|[k' v] r IH]; cbn [remove_key lookup]; [reflexivity|].
  destruct (N.eqb_spec k k') as [E|E]; [exact IH|].
  cbn [lookup]. destruct (N.eqb_spec k k'); [contradiction|exact IH].
Qed.
Lemma lookup_remove_other {A} k k' (l : list (N * A)) :
  k' <> k -> lookup k' (remove_key k l) = lookup k' l.
Proof.
  intro Hne. induction l as [|[k2 v] r IH]; cbn [remove_key lookup]; [reflexivity|].
  destruct (N.eqb_spec k k2) as [E|E].
  - subst k2. destruct (N.eqb_spec k' k); [contradiction|exact IH].
  - cbn [lookup]. rewrite IH. reflexivity.
Qed.
Lemma lookup_insert_same {A} k (v : A) l : lookup k (insert_key k v l) = Some v.
Proof. unfold insert_key. cbn [lookup]. rewrite N.eqb_refl. reflexivity. Qed.
Lemma lookup_insert_other {A} k k' (v : A) l :
  k' <> k -> lookup k' (insert_key k v l) = lookup k' l.
Proof.
  intro Hne. unfold insert_key. cbn [lookup].
  destruct (N.eqb_spec k' k); [contradiction|]. apply lookup_remove_other. exact Hne.
Qed.

Lemma abs_stmt_snoc h e id : abs_stmt (h ++ [e]) id = hstep id (abs_stmt h id) e.
Proof. unfold abs_stmt. rewrite fold_left_app. reflexivity. Qed.

(* isolation: events for one id never influence another id *)
Lemma hist_isolation h e id :
  (match e with
   | HPrepare i _ | HClose i | HExec i _ _ | HLong i _ _ => i <> id
   | HOther => True end) ->
  abs_stmt (h ++ [e]) id = abs_stmt h id.
Proof.
  rewrite abs_stmt_snoc.
  destruct e as [i n|i|i ps b|i p d|]; cbn [hstep]; intro Hne; try reflexivity;
    destruct (N.eqb_spec i id); try contradiction; reflexivity.
Qed.

(* re-preparing starts afresh: declared count, no bound types, nothing pending *)
Lemma hist_reprepare h id n :
  abs_stmt (h ++ [HPrepare id n]) id = Some {| v_params := n; v_types := []; v_long := [] |}.
Proof. rewrite abs_stmt_snoc. cbn [hstep]. rewrite N.eqb_refl. reflexivity. Qed.
Lemma hist_close h id : live (h ++ [HClose id]) id = false.
Proof. unfold live. rewrite abs_stmt_snoc. cbn [hstep]. rewrite N.eqb_refl. reflexivity. Qed.
(* never prepared, rejected at prepare time, or closed: not live *)
Lemma hist_never_prepared h id :
  Forall (fun e => match e with HPrepare i _ => i <> id | _ => True end) h -> live h id = false.
Proof.
  intro HF. unfold live.
  assert (Hn : abs_stmt h id = None); [|rewrite Hn; reflexivity].
  induction h as [|e h IH] using rev_ind; [reflexivity|].
  apply Forall_app in HF. destruct HF as [HF1 HF2]. specialize (IH HF1).
  rewrite abs_stmt_snoc, IH. inversion HF2 as [|e' l' He _]; subst.
  destruct e as [i n|i|i ps b|i p d|]; cbn [hstep]; try reflexivity;
    destruct (N.eqb_spec i id); try contradiction; reflexivity.
Qed.

Lemma live_some h id : live h id = true -> exists v, abs_stmt h id = Some v.
Proof. unfold live. destruct (abs_stmt h id) as [v|]; [eauto|discriminate]. Qed.
Lemma live_none h id : live h id = false -> abs_stmt h id = None.
Proof. unfold live. destruct (abs_stmt h id) as [v|]; [discriminate|reflexivity]. Qed.

(* a rebind replaces the bound types completely; a reuse keeps them *)
Lemma hist_rebind h id ps :
  live h id = true -> ps <> [] -> latest_types (h ++ [HExec id ps true]) id = types_of ps.
Proof.
  intros Hl Hps. apply live_some in Hl. destruct Hl as [v Hv].
  unfold latest_types. rewrite abs_stmt_snoc, Hv. cbn [hstep]. rewrite N.eqb_refl.
  destruct ps as [|p ps]; [contradiction|]. reflexivity.
Qed.
Lemma hist_reuse h id ps : latest_types (h ++ [HExec id ps false]) id = latest_types h id.
Proof.
  unfold latest_types. rewrite abs_stmt_snoc. cbn [hstep]. rewrite N.eqb_refl.
  destruct (abs_stmt h id) as [v|]; [|reflexivity]. destruct ps; reflexivity.
Qed.

(* long data: chunks are concatenated in arrival order; an execution consumes them; other
   parameters and other statements are not touched *)
Lemma hist_long_append h id param data :
  live h id = true ->
  pending (h ++ [HLong id param data]) id param =
    Some ((match pending h id param with Some d => d | None => [] end) ++ data).
Proof.
  intro Hl. apply live_some in Hl. destruct Hl as [v Hv].
  unfold pending. rewrite abs_stmt_snoc, Hv. cbn [hstep]. rewrite N.eqb_refl.
  cbn [v_long]. unfold add_chunk. apply lookup_insert_same.
Qed.
Lemma hist_long_other_param h id param param' data :
  param' <> param -> pending (h ++ [HLong id param data]) id param' = pending h id param'.
Proof.
  intro Hne. unfold pending. rewrite abs_stmt_snoc. cbn [hstep]. rewrite N.eqb_refl.
  destruct (abs_stmt h id) as [v|]; [|reflexivity].
  cbn [v_long]. unfold add_chunk. apply lookup_insert_other. exact Hne.
Qed.
Lemma hist_exec_consumes h id ps b param : pending (h ++ [HExec id ps b]) id param = None.
Proof.
  unfold pending. rewrite abs_stmt_snoc. cbn [hstep]. rewrite N.eqb_refl.
  destruct (abs_stmt h id) as [v|]; reflexivity.
Qed.

(* ---------- (2) the server's registry is the specification's ---------- *)

Definition reg_matches (st : stmts) (h : list hev) : Prop :=
  forall id,
    match lookup id st, abs_stmt h id with
    | Some sd, Some v => sd_params sd = v_params v /\ sd_bound sd = v_types v /\
                         (forall p, lookup p (sd_long sd) = lookup p (v_long v))
    | None, None => True
    | _, _ => False
    end.

Lemma reg_matches_nil : reg_matches [] [].
Proof. intro id. cbn. exact I. Qed.

Lemma reg_matches_other st h : reg_matches st h -> reg_matches st (h ++ [HOther]).
Proof. intros H id. rewrite abs_stmt_snoc. cbn [hstep]. apply H. Qed.

Lemma reg_matches_prepare st h id n :
  reg_matches st h ->
  reg_matches (insert_key id {| sd_params := n; sd_bound := []; sd_long := [] |} st) (h ++ [HPrepare id n]).
Proof.
  intros H id'. rewrite abs_stmt_snoc. cbn [hstep].
  destruct (N.eqb_spec id id') as [E|E].
  - subst id'. rewrite lookup_insert_same. cbn. auto.
  - rewrite lookup_insert_other by congruence. apply H.
Qed.

Lemma reg_matches_close st h id : reg_matches st h -> reg_matches (remove_key id st) (h ++ [HClose id]).
Proof.
  intros H id'. rewrite abs_stmt_snoc. cbn [hstep].
  destruct (N.eqb_spec id id') as [E|E].
  - subst id'. rewrite lookup_remove_same. exact I.
  - rewrite lookup_remove_other by congruence. apply H.
Qed.

Lemma reg_matches_long st h id sd param data :
  reg_matches st h -> lookup id st = Some sd ->
  reg_matches
    (insert_key id {| sd_params := sd_params sd; sd_bound := sd_bound sd;
                      sd_long := insert_key param
                        ((match lookup param (sd_long sd) with Some d => d | None => [] end) ++ data)
                        (sd_long sd) |} st)
    (h ++ [HLong id param data]).
Proof.
  intros H L id'. rewrite abs_stmt_snoc. cbn [hstep].
  destruct (N.eqb_spec id id') as [E|E].
  - subst id'. rewrite lookup_insert_same. specialize (H id). rewrite L in H.
    destruct (abs_stmt h id) as [v|]; [|contradiction]. destruct H as (Hp & Hb & Hl).
    cbn [sd_params sd_bound sd_long v_params v_types v_long]. split; [exact Hp|]. split; [exact Hb|].
    intro p. unfold add_chunk. rewrite <- (Hl param).
    destruct (N.eqb_spec p param) as [Ep|Ep].
    + subst p. rewrite !lookup_insert_same. reflexivity.
    + rewrite !lookup_insert_other by exact Ep. apply Hl.
  - rewrite lookup_insert_other by congruence. apply H.
Qed.

Lemma reg_matches_exec st h id sd v ps b bound' :
  reg_matches st h -> lookup id st = Some sd -> abs_stmt h id = Some v ->
  bound' = (match ps, b with _ :: _, true => types_of ps | _, _ => v_types v end) ->
  reg_matches (insert_key id {| sd_params := sd_params sd; sd_bound := bound'; sd_long := [] |} st)
              (h ++ [HExec id ps b]).
Proof.
  intros H L Hv Hb' id'. rewrite abs_stmt_snoc. cbn [hstep].
  destruct (N.eqb_spec id id') as [E|E].
  - subst id'. rewrite lookup_insert_same, Hv. specialize (H id). rewrite L, Hv in H.
    destruct H as (Hp & Hb & Hl).
    cbn [sd_params sd_bound sd_long v_params v_types v_long]. split; [exact Hp|]. split; [exact Hb'|].
    intro p. reflexivity.
  - rewrite lookup_insert_other by congruence. apply H.
Qed.

Section WithOracles.
Variable fpext : N -> N.
Variable fptrunc : N -> N.
Variable errtab : N -> option (N * bytes).

(* what a command contributes to the history (EXECUTE is handled by exec_delivers below) *)
Definition hev_of (cmd : command) (sc : scripts) : hev :=
  match cmd with
  | CmdPrepare q =>
      if utf8_valid q then
        match fst (fst (pop_p sc)) with
        | PReply id params _ => HPrepare id (Nlen params mod 65536)
        | _ => HOther end
      else HOther
  | CmdClose id => HClose id
  | CmdLongData id param data => HLong id param data
  | _ => HOther
  end.

(* every command except EXECUTE *)
Lemma step_matches cmd st sc h rep st' sc' :
  (forall id b, cmd <> CmdExecute id b) ->
  reg_matches st h ->
  abs_handle fpext fptrunc errtab cmd (st, sc) = Some (rep, (st', sc')) ->
  reg_matches st' (h ++ [hev_of cmd sc]).
Admitted.

(* gate: EXECUTE / SEND_LONG_DATA for an id the history says is not live never succeed *)
Lemma gate_execute id block st sc h :
  reg_matches st h -> live h id = false ->
  abs_handle fpext fptrunc errtab (CmdExecute id block) (st, sc) = None /\ lookup id st = None.
Admitted.
Lemma gate_long_data id param data st sc h :
  reg_matches st h -> live h id = false ->
  abs_handle fpext fptrunc errtab (CmdLongData id param data) (st, sc) = None /\ lookup id st = None.
Admitted.
(* every CLOSE reaches on_close exactly once, sends nothing, whether or not the id was live *)
Lemma close_always id st sc :
  abs_handle fpext fptrunc errtab (CmdClose id) (st, sc)
    = Some ({| a_calls := [CClose id]; a_msgs := [] |}, (remove_key id st, sc)).
Admitted.

(* EXECUTE of a live statement: the shim is given exactly the parameters the client bound, decoded
   with the types of this execution (rebind) or the latest bound ones (reuse), long-data
   parameters replaced by the pending data; the history advances *)
Theorem exec_delivers id ps b st sc h v inners x sc' msgs :
  reg_matches st h -> abs_stmt h id = Some v ->
  v_params v = Nlen ps -> Nlen ps < 65536 ->
  (b = true -> types_ok ps) ->
  (b = false -> length (v_types v) = length ps) ->
  delivered_all fpext (v_long v) (if b then types_of ps else v_types v) 0 ps = Some inners ->
  pop_x sc = (x, sc') -> x_pull x = None -> x_convs x = [] -> x_ret x = None ->
  pm_q errtab true None (x_prog x) = Some msgs ->
  exists st',
    abs_handle fpext fptrunc errtab (CmdExecute id (exec_block ps b)) (st, sc) =
      Some ({| a_calls := CExecute id :: param_calls (if b then types_of ps else v_types v) inners;
               a_msgs := msgs |}, (st', sc')) /\
    reg_matches st' (h ++ [HExec id ps b]).
Admitted.

(* ---------- (3) dispatch (C02) ---------- *)

Definition is_builtin_query (q : bytes) : bool := is_prefix sel_upper q || is_prefix sel_lower q.
Definition is_use_query (q : bytes) : bool := is_prefix use_upper q || is_prefix use_lower q.

(* the callback a command reaches first (None: answered by the library itself / no callback) *)
Definition primary_call (cmd : command) : option call :=
  match cmd with
  | CmdQuery q =>
      if is_builtin_query q then None
      else if is_use_query q then Some (CInit (use_schema (skipn 4 q)))
      else Some (CQuery q)
  | CmdPrepare q => Some (CPrepare q)
  | CmdExecute id _ => Some (CExecute id)
  | CmdClose id => Some (CClose id)
  | CmdInit schema => Some (CInit schema)
  | CmdLongData _ _ _ | CmdListFields _ | CmdPing | CmdQuit => None
  end.
Definition is_param_call (c : call) : Prop := match c with CParam _ _ | CConv _ => True | _ => False end.

Lemma dispatch cmd ss rep ss' :
  abs_handle fpext fptrunc errtab cmd ss = Some (rep, ss') ->
  match primary_call cmd with
  | None => a_calls rep = []
  | Some c => exists params, a_calls rep = c :: params /\ Forall is_param_call params /\
                             (forall id b, cmd <> CmdExecute id b -> params = [])
  end.
Admitted.

(* text that is not valid UTF-8 is never handed to the shim *)
Lemma dispatch_utf8 cmd ss rep ss' :
  abs_handle fpext fptrunc errtab cmd ss = Some (rep, ss') ->
  match cmd with
  | CmdQuery q => is_builtin_query q = false -> utf8_valid (if is_use_query q then skipn 4 q else q) = true
  | CmdPrepare q | CmdInit q => utf8_valid q = true
  | _ => True
  end.
Admitted.

End WithOracles.

(* `USE <db>` in the spellings clients emit: optional white space around, optional back-tick
   quoting, optional trailing semicolons -- the shim gets the bare name *)
Definition ws_run (bs : bytes) : Prop := exists l, Forall (fun w => In w ws_seqs) l /\ bs = concat l.
Definition no_prefix (pats : list bytes) (s : bytes) : Prop := strip_one pats s = None.
Definition bare_name (name : bytes) : Prop :=
  name <> [] /\
  no_prefix ws_seqs name /\ no_prefix (map (@rev byte) ws_seqs) (rev name) /\
  no_prefix [[x60]] name /\ no_prefix [[x60]] (rev name) /\ no_prefix [[x3b]] (rev name).

Lemma use_spellings ws1 q1 name q2 semis ws2 :
  ws_run ws1 -> ws_run ws2 -> bare_name name ->
  q1 = repeat x60 (length q1) -> q2 = repeat x60 (length q2) -> semis = repeat x3b (length semis) ->
  use_schema (ws1 ++ q1 ++ name ++ q2 ++ semis ++ ws2) = name.
Admitted.
