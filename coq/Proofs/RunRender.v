(* Stage 1 of C03: on a fault-free transport, a shim program all of whose writer-API calls
   succeed makes the monadic model (Model/Resultset.v: run_q / run_r, i.e. QueryResultWriter and
   RowWriter with their Drop impls over PacketConn) send exactly the canonical framing of the
   logical messages [pm_q] computes, with consecutive sequence ids, and leaves the connection
   clean.  Proofs only; statements fixed. *)
From MsqlVerif Require Import Model.Resultset Spec.Frame Spec.Render
  Proofs.BaseLemmas Proofs.PacketWrite.
From Coq Require Import Lia.
Open Scope N_scope.

Definition quiet_events (evs : list event) : Prop :=
  Forall (fun e => match e with EWrite _ | EApi None => True | _ => False end) evs.

(* s' is s after handing exactly the packets [pkts] (oldest first) to the transport: nothing else
   happened on the transport, the only other events are successful API-call log entries *)
Definition sent (s s' : st) (pkts : list bytes) : Prop :=
  s_reads s' = s_reads s /\ s_fault s' = s_fault s /\ s_lim s' = s_lim s /\ s_buf s' = s_buf s /\
  s_park s' = s_park s /\
  exists evs, s_trace s' = evs ++ s_trace s /\ quiet_events evs /\ rev (written_rev evs) = pkts.

Definition clean (s : st) : Prop :=
  s_fault s = WNone /\ 0 < s_lim s /\ s_seq s < 256 /\ s_tw s = [] /\ s_cont s = false /\ s_park s = None.


(* ====================================================================================== *)
(* helper lemmas                                                                           *)
(* ====================================================================================== *)

(* ---- monad ---- *)

Lemma bind_ok {A B} (m : M A) (f : A -> M B) s a s1 :
  m s = (ROk a, s1) -> bind m f s = f a s1.
Proof. intro H. unfold bind. rewrite H. reflexivity. Qed.

Lemma attempt_ok {A} (m : M A) s a s1 :
  m s = (ROk a, s1) -> attempt m s = (ROk (inl a), s1).
Proof. intro H. unfold attempt. rewrite H. reflexivity. Qed.

Lemma park_on_err_ok (m : M unit) s s1 :
  m s = (ROk tt, s1) -> park_on_err m s = (ROk tt, s1).
Proof. intro H. unfold park_on_err. rewrite H. reflexivity. Qed.

(* ---- events, sent ---- *)

Lemma written_rev_app a b : written_rev (a ++ b) = written_rev a ++ written_rev b.
Proof.
  induction a as [|e a IH]; [reflexivity|].
  destruct e; cbn [app written_rev]; rewrite ?IH; reflexivity.
Qed.
Lemma written_rev_writes l : written_rev (map EWrite l) = l.
Proof. induction l as [|x l IH]; [reflexivity|]. cbn [map written_rev]. rewrite IH. reflexivity. Qed.
Lemma quiet_writes l : quiet_events (map EWrite l).
Proof. unfold quiet_events. induction l as [|x l IH]; cbn [map]; constructor; [exact I | exact IH]. Qed.
Lemma quiet_app a b : quiet_events a -> quiet_events b -> quiet_events (a ++ b).
Proof. unfold quiet_events. intros Ha Hb. apply Forall_app. split; assumption. Qed.

Lemma emitted_sent s s' pk : emitted s s' pk -> sent s s' pk.
Proof.
  intros (A1 & A2 & A3 & A4 & A5 & _ & A7). unfold sent.
  refine (conj A1 (conj A2 (conj A3 (conj A4 (conj A5 _))))).
  exists (rev (map EWrite pk)). split; [exact A7|]. rewrite <- map_rev.
  split; [apply quiet_writes|]. rewrite written_rev_writes. apply rev_involutive.
Qed.

Lemma sent_refl s : sent s s [].
Proof.
  unfold sent. refine (conj eq_refl (conj eq_refl (conj eq_refl (conj eq_refl (conj eq_refl _))))).
  exists []. split; [reflexivity|]. split; [constructor | reflexivity].
Qed.

Lemma sent_trans s s1 s2 a b : sent s s1 a -> sent s1 s2 b -> sent s s2 (a ++ b).
Proof.
  intros (A1 & A2 & A3 & A4 & A5 & ea & At & Aq & Aw) (B1 & B2 & B3 & B4 & B5 & eb & Bt & Bq & Bw).
  unfold sent. refine (conj _ (conj _ (conj _ (conj _ (conj _ _))))); try congruence.
  exists (eb ++ ea). split; [rewrite Bt, At, app_assoc; reflexivity|].
  split; [apply quiet_app; assumption|].
  rewrite written_rev_app, rev_app_distr, Aw, Bw. reflexivity.
Qed.

Lemma sent_api s : sent s (upd_trace (EApi None) s) [].
Proof.
  unfold sent. cbn [upd_trace s_reads s_fault s_lim s_buf s_park s_trace].
  refine (conj eq_refl (conj eq_refl (conj eq_refl (conj eq_refl (conj eq_refl _))))).
  exists [EApi None]. split; [reflexivity|]. split; [|reflexivity].
  constructor; [exact I | constructor].
Qed.

(* ---- framing of message lists ---- *)

Lemma frame_all_pkts_app lim a : forall q b,
  frame_all_pkts lim q (a ++ b) = frame_all_pkts lim q a ++ frame_all_pkts lim (seq_after lim q a) b.
Proof.
  induction a as [|m a IH]; intros q b; [reflexivity|].
  cbn [app frame_all_pkts seq_after]. rewrite IH, app_assoc. reflexivity.
Qed.
Lemma seq_after_app lim a : forall q b,
  seq_after lim q (a ++ b) = seq_after lim (seq_after lim q a) b.
Proof.
  induction a as [|m a IH]; intros q b; [reflexivity|].
  cbn [app seq_after]. apply IH.
Qed.
Lemma seq_after_lt lim msgs : forall q, q < 256 -> seq_after lim q msgs < 256.
Proof.
  induction msgs as [|m r IH]; intros q Hq; [exact Hq|].
  cbn [seq_after]. apply IH. apply N.mod_lt. lia.
Qed.

(* ---- post: the outcome of a successful run segment ---- *)

Definition post (s : st) (msgs : list bytes) (s' : st) : Prop :=
  clean s' /\ sent s s' (frame_all_pkts (s_lim s) (s_seq s) msgs) /\
  s_seq s' = seq_after (s_lim s) (s_seq s) msgs.

Lemma post_nil s : clean s -> post s [] s.
Proof. intro H. split; [exact H|]. split; [apply sent_refl | reflexivity]. Qed.

Lemma post_trans s s1 s2 a b : post s a s1 -> post s1 b s2 -> post s (a ++ b) s2.
Proof.
  intros (C1 & S1 & Q1) (C2 & S2 & Q2).
  assert (Hl : s_lim s1 = s_lim s) by (destruct S1 as (_ & _ & E & _); exact E).
  rewrite Hl, Q1 in S2, Q2.
  split; [exact C2|]. split.
  - rewrite frame_all_pkts_app. exact (sent_trans _ _ _ _ _ S1 S2).
  - rewrite seq_after_app. exact Q2.
Qed.

Lemma clean_api s : clean s -> clean (upd_trace (EApi None) s).
Proof. intro H. exact H. Qed.

Lemma post_api s a s1 : post s a s1 -> post s a (upd_trace (EApi None) s1).
Proof.
  intros (C1 & S1 & Q1). split; [exact C1|]. split; [|exact Q1].
  rewrite <- (app_nil_r (frame_all_pkts _ _ a)).
  exact (sent_trans _ _ _ _ _ S1 (sent_api s1)).
Qed.

Lemma lapi_post quiet s a s1 : post s a s1 ->
  exists s2, lapi quiet None s1 = (ROk tt, s2) /\ post s a s2.
Proof.
  intro H. unfold lapi. destruct quiet.
  - exists s1. split; [reflexivity | exact H].
  - exists (upd_trace (EApi None) s1). split; [reflexivity | apply post_api; exact H].
Qed.

Lemma send_all_post msgs s :
  clean s -> Forall (fun m => m <> []) msgs ->
  exists s', send_all msgs s = (ROk tt, s') /\ post s msgs s'.
Proof.
  intros (Hf & H0 & Hq & Ht & Hc & Hp) Hall.
  destruct (send_all_frame_all msgs s Hf H0 Hq Ht Hc Hall) as (s' & Hrun & Ht' & Hc' & Hem & Hq').
  exists s'. split; [exact Hrun|].
  pose proof Hem as (_ & E2 & E3 & _ & E5 & _).
  split.
  - unfold clean. rewrite E2, E3, E5, Hq'.
    refine (conj Hf (conj H0 (conj _ (conj Ht' (conj Hc' Hp))))).
    apply seq_after_lt. exact Hq.
  - split; [apply emitted_sent; exact Hem | exact Hq'].
Qed.

Lemma send_post m s : clean s -> m <> [] ->
  exists s', send m s = (ROk tt, s') /\ post s [m] s'.
Proof.
  intros Hc Hm. destruct (send_all_post [m] s Hc) as (s' & Hrun & Hpost).
  - constructor; [exact Hm | constructor].
  - exists s'. split; [|exact Hpost].
    cbn [send_all] in Hrun. rewrite bind_ret_tt in Hrun. exact Hrun.
Qed.

(* ---- trace insensitivity of the packet writer ---- *)

Definition retrace (t : list event) (s : st) : st :=
  {| s_reads := s_reads s; s_fault := s_fault s; s_wops := s_wops s; s_trace := t;
     s_lim := s_lim s; s_buf := s_buf s; s_tw := s_tw s; s_seq := s_seq s; s_cont := s_cont s;
     s_park := s_park s |}.

Lemma retrace_self s : retrace (s_trace s) s = s.
Proof. destruct s; reflexivity. Qed.

(* under no fault, m does not look at the trace and only pushes write events on it *)
Definition TI (m : M unit) : Prop :=
  forall s, s_fault s = WNone ->
    exists r s1 l, s_fault s1 = WNone /\
      forall t, m (retrace t s) = (r, retrace (map EWrite l ++ t) s1).

Lemma TI_ret : TI (ret tt).
Proof.
  intros s Hs. exists (ROk tt), s, []. split; [exact Hs|]. intro t. reflexivity.
Qed.

Lemma TI_bind (m f : M unit) : TI m -> TI f -> TI (m ;;; f).
Proof.
  intros Hm Hf s Hs. destruct (Hm s Hs) as (r & s1 & l & F1 & E1). destruct r as [u|e|p].
  - destruct (Hf s1 F1) as (r2 & s2 & l2 & F2 & E2). exists r2, s2, (l2 ++ l).
    split; [exact F2|]. intro t. unfold bind. rewrite E1, E2, map_app, app_assoc. reflexivity.
  - exists (RErr e), s1, l. split; [exact F1|]. intro t. unfold bind. rewrite E1. reflexivity.
  - exists (RPanic p), s1, l. split; [exact F1|]. intro t. unfold bind. rewrite E1. reflexivity.
Qed.

Lemma TI_end_packet : TI end_packet.
Proof.
  intros s Hs.
  destruct ((Nlen (s_tw s) =? 0) && negb (s_cont s)) eqn:E.
  - exists (ROk tt), s, []. split; [exact Hs|]. intro t. unfold end_packet.
    cbn [retrace s_tw s_cont]. rewrite E. reflexivity.
  - exists (ROk tt),
      (set_tw [] (set_wops (S (s_wops s))
         (set_seq_cont ((s_seq s + 1) mod 256) (Nlen (s_tw s) =? s_lim s) s))),
      [le_bytes 3 (Nlen (s_tw s)) ++ b_of_N (s_seq s) :: s_tw s].
    split; [exact Hs|]. intro t. unfold end_packet, t_write.
    cbn [retrace set_seq_cont s_tw s_cont s_fault s_wops s_seq s_lim]. rewrite E, Hs.
    cbn [fault_at]. reflexivity.
Qed.

Lemma write1_retrace b t s :
  write1 b (retrace t s) =
  if Nlen (s_tw s ++ [b]) =? s_lim s then end_packet (retrace t (set_tw (s_tw s ++ [b]) s))
  else (ROk tt, retrace t (set_tw (s_tw s ++ [b]) s)).
Proof. reflexivity. Qed.

Lemma TI_write1 b : TI (write1 b).
Proof.
  intros s Hs. destruct (Nlen (s_tw s ++ [b]) =? s_lim s) eqn:E.
  - destruct (TI_end_packet (set_tw (s_tw s ++ [b]) s) Hs) as (r & s1 & l & F & Ht).
    exists r, s1, l. split; [exact F|]. intro t. rewrite write1_retrace, E. apply Ht.
  - exists (ROk tt), (set_tw (s_tw s ++ [b]) s), []. split; [exact Hs|].
    intro t. rewrite write1_retrace, E. reflexivity.
Qed.

Lemma TI_write_bytes p : TI (write_bytes p).
Proof.
  induction p as [|b p IH]; cbn [write_bytes].
  - apply TI_ret.
  - apply TI_bind; [apply TI_write1 | exact IH].
Qed.

(* same connection state up to the trace *)
Definition sim (sp s : st) : Prop := retrace [] sp = retrace [] s.

Lemma sim_refl s : sim s s.
Proof. reflexivity. Qed.

Lemma sim_retrace sp s : sim sp s -> s = retrace (s_trace s) sp.
Proof.
  unfold sim, retrace. intro H. injection H as H1 H2 H3 H4 H5 H6 H7 H8 H9.
  destruct s as [a1 a2 a3 a4 a5 a6 a7 a8 a9 a10];
    cbn [s_reads s_fault s_wops s_trace s_lim s_buf s_tw s_seq s_cont s_park] in *.
  subst. reflexivity.
Qed.

Lemma sim_fields sp s : sim sp s ->
  s_reads s = s_reads sp /\ s_fault s = s_fault sp /\ s_lim s = s_lim sp /\ s_buf s = s_buf sp /\
  s_tw s = s_tw sp /\ s_seq s = s_seq sp /\ s_cont s = s_cont sp /\ s_park s = s_park sp.
Proof.
  intro H. apply sim_retrace in H. rewrite H. cbn [retrace s_reads s_fault s_lim s_buf s_tw s_seq s_cont s_park].
  repeat split.
Qed.

Lemma TI_transfer m sp s r sp' : TI m -> s_fault sp = WNone -> sim sp s -> m sp = (r, sp') ->
  exists l, s_fault sp' = WNone /\ s_trace sp' = map EWrite l ++ s_trace sp /\
    m s = (r, retrace (map EWrite l ++ s_trace s) sp').
Proof.
  intros Hm Hf Hs E. destruct (Hm sp Hf) as (r0 & s1 & l & F1 & Ht).
  pose proof (Ht (s_trace sp)) as E1. rewrite retrace_self, E in E1.
  injection E1 as Er Es. subst r0 sp'.
  exists l. split; [exact F1|]. split; [reflexivity|].
  transitivity (m (retrace (s_trace s) sp)).
  - f_equal. apply sim_retrace. exact Hs.
  - rewrite Ht. reflexivity.
Qed.

(* ---- a row in progress ---- *)

Lemma write_bytes_ok p s :
  s_fault s = WNone -> 0 < s_lim s -> s_seq s < 256 -> Nlen (s_tw s) < s_lim s ->
  exists s', write_bytes p s = (ROk tt, s').
Proof.
  intros Hf H0 Hq H1. destruct (finish_msg p s Hf H0 Hq H1) as (s' & Hrun & _).
  unfold bind in Hrun. destruct (write_bytes p s) as [[[]|e|pp] s1]; try discriminate.
  exists s1. reflexivity.
Qed.

(* s is the connection after the bytes [cur] of the current row message were written from the
   clean row-start state s0, possibly with API log entries interleaved *)
Definition Mid (s0 : st) (cur : bytes) (s : st) : Prop :=
  exists sp, write_bytes cur s0 = (ROk tt, sp) /\ sim sp s /\
    written_rev (s_trace s) = written_rev (s_trace sp) /\
    exists d, s_trace s = d ++ s_trace s0 /\ quiet_events d.

Lemma Mid_start s0 : Mid s0 [] s0.
Proof.
  exists s0. split; [reflexivity|]. split; [apply sim_refl|]. split; [reflexivity|].
  exists []. split; [reflexivity | constructor].
Qed.

Lemma Mid_api s0 cur s : Mid s0 cur s -> Mid s0 cur (upd_trace (EApi None) s).
Proof.
  intros (sp & Hw & Hs & Hwr & d & Hd & Hq).
  exists sp. split; [exact Hw|]. split; [exact Hs|]. split; [exact Hwr|].
  exists (EApi None :: d). split.
  - cbn [upd_trace s_trace app]. rewrite Hd. reflexivity.
  - constructor; [exact I | exact Hq].
Qed.

Lemma Mid_sp_facts s0 cur sp : clean s0 -> write_bytes cur s0 = (ROk tt, sp) ->
  s_fault sp = WNone /\ s_lim sp = s_lim s0 /\ Nlen (s_tw sp) < s_lim sp.
Proof.
  intros (Hf & H0 & Hq & Ht & Hc & Hp) Hw.
  destruct (TI_transfer _ s0 s0 _ _ (TI_write_bytes cur) Hf (sim_refl s0) Hw) as (l & F & _).
  split; [exact F|].
  apply write_bytes_inv in Hw; [exact Hw | exact H0 | rewrite Ht; exact H0].
Qed.

Lemma Mid_write s0 cur s bs : clean s0 -> Mid s0 cur s ->
  exists s2, write_all bs s = (ROk tt, s2) /\ Mid s0 (cur ++ bs) s2.
Proof.
  intros Hcl (sp & Hw & Hs & Hwr & d & Hd & Hqd).
  destruct (Mid_sp_facts s0 cur sp Hcl Hw) as (Fsp & Lsp & Tsp).
  pose proof Hcl as (Hf & H0 & Hq & Ht & Hc & Hp).
  destruct (write_bytes_ok (cur ++ bs) s0 Hf H0 Hq) as (sp2 & Hw2); [rewrite Ht; exact H0|].
  pose proof Hw2 as Hw2'. rewrite write_bytes_app in Hw2'. rewrite (bind_ok _ _ _ _ _ Hw) in Hw2'.
  destruct (sim_fields sp s Hs) as (_ & _ & El & _ & Et & _).
  destruct (TI_transfer _ sp s _ _ (TI_write_bytes bs) Fsp Hs Hw2') as (l & F2 & Tr2 & Run2).
  exists (retrace (map EWrite l ++ s_trace s) sp2). split.
  - rewrite write_all_write_bytes; [exact Run2 | rewrite El, Lsp; exact H0 | rewrite El, Et; exact Tsp].
  - exists sp2. split; [exact Hw2|]. split; [reflexivity|]. split.
    + cbn [retrace s_trace]. rewrite Tr2, !written_rev_app, Hwr. reflexivity.
    + exists (map EWrite l ++ d). split.
      * cbn [retrace s_trace]. rewrite Hd, app_assoc. reflexivity.
      * apply quiet_app; [apply quiet_writes | exact Hqd].
Qed.

Lemma app_self_nil {A} (a l : list A) : a ++ l = l -> a = [].
Proof. intro H. apply (app_inv_tail l a []). exact H. Qed.

Lemma Mid_nil s0 s : clean s0 -> Mid s0 [] s -> post s0 [] s.
Proof.
  intros Hcl (sp & Hw & Hs & Hwr & d & Hd & Hqd).
  cbn [write_bytes] in Hw. unfold ret in Hw. injection Hw as Hw. subst sp.
  destruct (sim_fields s0 s Hs) as (E1 & E2 & E3 & E4 & E5 & E6 & E7 & E8).
  destruct Hcl as (Hf & H0 & Hq & Ht & Hc & Hp).
  split.
  - unfold clean. rewrite E2, E3, E5, E6, E7, E8. repeat split; assumption.
  - split; [|exact E6]. cbn [frame_all_pkts]. unfold sent.
    refine (conj E1 (conj E2 (conj E3 (conj E4 (conj E8 _))))).
    exists d. split; [exact Hd|]. split; [exact Hqd|].
    rewrite Hd, written_rev_app in Hwr. apply app_self_nil in Hwr. rewrite Hwr. reflexivity.
Qed.

Lemma Mid_end s0 cur s : clean s0 -> Mid s0 cur s -> cur <> [] ->
  exists s', end_packet s = (ROk tt, s') /\ post s0 [cur] s'.
Proof.
  intros Hcl (sp & Hw & Hs & Hwr & d & Hd & Hqd) Hne.
  destruct (Mid_sp_facts s0 cur sp Hcl Hw) as (Fsp & Lsp & Tsp).
  pose proof Hcl as (Hf & H0 & Hq & Ht & Hc & Hp).
  destruct (finish_msg cur s0 Hf H0 Hq) as (s1 & Hrun & Ht1 & Hc1 & Hrest); [rewrite Ht; exact H0|].
  rewrite Ht in Hrest. cbn [app] in Hrest.
  destruct cur as [|b0 cur0] eqn:Ecur; [congruence|]. rewrite <- Ecur in *. clear Ecur b0 cur0.
  assert (Hrest' : emitted s0 s1 (frame_pkts (s_lim s0) (s_seq s0) cur) /\
                   s_seq s1 = (s_seq s0 + npackets (s_lim s0) cur) mod 256).
  { destruct cur; [congruence | exact Hrest]. }
  clear Hrest. destruct Hrest' as [Hem Hq1].
  rewrite (bind_ok _ _ _ _ _ Hw) in Hrun.
  destruct (TI_transfer _ sp s _ _ TI_end_packet Fsp Hs Hrun) as (l & F1 & Tr1 & Run1).
  exists (retrace (map EWrite l ++ s_trace s) s1). split; [exact Run1|].
  pose proof Hem as (E1 & E2 & E3 & E4 & E5 & _ & E7).
  split.
  - unfold clean. cbn [retrace s_fault s_lim s_seq s_tw s_cont s_park].
    rewrite E2, E3, E5, Hq1. refine (conj Hf (conj H0 (conj _ (conj Ht1 (conj Hc1 Hp))))).
    apply N.mod_lt. lia.
  - split.
    + cbn [frame_all_pkts]. rewrite app_nil_r. unfold sent.
      cbn [retrace s_reads s_fault s_lim s_buf s_park s_trace].
      refine (conj E1 (conj E2 (conj E3 (conj E4 (conj E5 _))))).
      exists (map EWrite l ++ d). split; [rewrite Hd, app_assoc; reflexivity|].
      split; [apply quiet_app; [apply quiet_writes | exact Hqd]|].
      rewrite written_rev_app, written_rev_writes.
      assert (Hx : (l ++ written_rev d) ++ written_rev (s_trace s0) =
                   rev (frame_pkts (s_lim s0) (s_seq s0) cur) ++ written_rev (s_trace s0)).
      { rewrite <- app_assoc, <- written_rev_app, <- Hd, Hwr.
        rewrite <- (written_rev_writes l), <- written_rev_app, <- Tr1, E7.
        rewrite written_rev_app, <- map_rev, written_rev_writes. reflexivity. }
      apply app_inv_tail in Hx. rewrite Hx. apply rev_involutive.
    + cbn [retrace s_seq seq_after]. exact Hq1.
Qed.

(* ---- non-emptiness of message bodies ---- *)

Lemma lenenc_ne x : lenenc x <> [].
Proof.
  unfold lenenc. destruct (x <? 251); [discriminate|]. destruct (x <? 65536); [discriminate|].
  destruct (x <? 16777216); discriminate.
Qed.
Lemma lenenc_str_ne s : lenenc_str s <> [].
Proof.
  unfold lenenc_str. intro E. apply app_eq_nil in E. destruct E as [E _]. exact (lenenc_ne _ E).
Qed.
Lemma to_text_ne v bs : to_text v = ROk bs -> bs <> [].
Proof.
  unfold to_text, rbind. destruct (text_cell v) as [[c|]|e|p]; intro H; try discriminate;
    injection H as <-; unfold enc_cell; [apply lenenc_str_ne | discriminate].
Qed.
Lemma ok_body_ne r i st : ok_body r i st <> [].
Proof. unfold ok_body. discriminate. Qed.
Lemma eof_body_ne st : eof_body st <> [].
Proof. unfold eof_body. cbn [app]. discriminate. Qed.
Lemma err_body_ne c st m : err_body c st m <> [].
Proof. unfold err_body. discriminate. Qed.
Lemma coldef_body_ne c fl : coldef_body c fl <> [].
Proof.
  unfold coldef_body. intro E. apply app_eq_nil in E. destruct E as [E _].
  exact (lenenc_str_ne _ E).
Qed.
Lemma coldefs_ne cols : Forall (fun m => m <> []) (column_definitions_msgs cols).
Proof.
  unfold column_definitions_msgs, coldefs_msgs. constructor; [apply lenenc_ne|].
  apply Forall_app. split.
  - apply Forall_map. apply Forall_forall. intros c _. apply coldef_body_ne.
  - destruct cols; (constructor; [apply eof_body_ne | constructor]).
Qed.
Lemma fin_msgs_ne last more : Forall (fun m => m <> []) (fin_msgs last more).
Proof.
  unfold fin_msgs. destruct last as [[r i|]|]; [| |constructor];
    (constructor; [|constructor]); [apply ok_body_ne | apply eof_body_ne].
Qed.
Lemma err_msg_of_ne errtab code msg e : err_msg_of errtab code msg = Some e -> e <> [].
Proof.
  unfold err_msg_of. destruct (errtab code) as [[c st]|]; [|discriminate].
  intro H. injection H as <-. apply err_body_ne.
Qed.

(* ---- invariant of the pure row state ---- *)

Definition PInv (cols : list column) (r : prow) : Prop :=
  (pr_col r = 0%nat -> pr_cur r = []) /\ (cols = [] -> pr_cur r = []) /\
  (cols <> [] -> pr_col r <> 0%nat -> pr_cur r <> []).

Lemma PInv0 cols : PInv cols prow0.
Proof.
  unfold PInv, prow0; cbn [pr_col pr_cur].
  split; [reflexivity|]. split; [reflexivity|]. intros _ H. congruence.
Qed.

Lemma PInv_started c0 cs cur data col : cur <> [] ->
  PInv (c0 :: cs) {| pr_cur := cur; pr_data := data; pr_col := S col |}.
Proof.
  intro H. unfold PInv; cbn [pr_col pr_cur].
  split; [discriminate|]. split; [discriminate|]. intros _ _. exact H.
Qed.

Lemma p_write_col_PInv bin cols r v r' :
  PInv cols r -> p_write_col bin cols r v = Some r' -> PInv cols r'.
Proof.
  intros (P1 & P2 & P3). unfold p_write_col. destruct cols as [|c0 cs].
  - intro H. injection H as <-. split; [exact P1|]. split; [exact P2 | exact P3].
  - destruct bin.
    + cbv zeta.
      set (cur := if Nat.eqb (pr_col r) 0%nat then pr_cur r ++ [x00] else pr_cur r).
      assert (Hcur : cur <> []).
      { unfold cur. destruct (Nat.eqb_spec (pr_col r) 0%nat) as [E|E].
        - intro E1. apply app_eq_nil in E1. destruct E1 as [_ E1]. discriminate.
        - apply P3; [discriminate | exact E]. }
      destruct (nth_error (c0 :: cs) (pr_col r)) as [c|]; [|discriminate].
      destruct (is_null v).
      * destruct (has_flag (c_flags c) NOT_NULL_FLAG); [discriminate|].
        intro H. injection H as <-. apply PInv_started. exact Hcur.
      * destruct (to_bin v c); try discriminate.
        intro H. injection H as <-. apply PInv_started. exact Hcur.
    + destruct (to_text v) as [bs|e|p] eqn:Et; try discriminate.
      intro H. injection H as <-. apply PInv_started.
      intro E1. apply app_eq_nil in E1. destruct E1 as [_ E1]. exact (to_text_ne _ _ Et E1).
Qed.

Lemma p_end_row_spec bin cols r m r' :
  PInv cols r -> p_end_row bin cols r = Some (m, r') ->
  Forall (fun x => x <> []) m /\ PInv cols r'.
Proof.
  intros (P1 & P2 & P3). unfold p_end_row. destruct cols as [|c0 cs].
  - intro H. injection H as <- <-. split; [constructor|].
    unfold PInv; cbn [pr_col pr_cur]. split; [discriminate|]. split; [exact P2|].
    intros E. congruence.
  - destruct (Nat.eqb_spec (pr_col r) (length (c0 :: cs))) as [E|E]; cbn [negb]; [|discriminate].
    intro H. injection H as <- <-. split; [|apply PInv0].
    constructor; [|constructor]. intro E1. apply app_eq_nil in E1. destruct E1 as [E1 _].
    revert E1. apply P3; [discriminate|]. rewrite E. cbn [length]. discriminate.
Qed.

Lemma p_write_cols_PInv bin cols vs : forall r r',
  PInv cols r -> p_write_cols bin cols r vs = Some r' -> PInv cols r'.
Proof.
  induction vs as [|v vs IH]; intros r r' HP; cbn [p_write_cols].
  - intro H. injection H as <-. exact HP.
  - destruct (p_write_col bin cols r v) as [r1|] eqn:E; [|discriminate].
    apply IH. exact (p_write_col_PInv _ _ _ _ _ HP E).
Qed.

Lemma p_write_row_spec bin cols r vs m r' :
  PInv cols r -> p_write_row bin cols r vs = Some (m, r') ->
  Forall (fun x => x <> []) m /\ PInv cols r'.
Proof.
  intros HP. unfold p_write_row. destruct cols as [|c0 cs].
  - apply p_end_row_spec. exact HP.
  - destruct (p_write_cols bin (c0 :: cs) r vs) as [r1|] eqn:E; [|discriminate].
    apply p_end_row_spec. exact (p_write_cols_PInv _ _ _ _ _ HP E).
Qed.

Lemma p_finish_spec bin cols r m f :
  PInv cols r -> p_finish bin cols r = Some (m, f) -> Forall (fun x => x <> []) m.
Proof.
  intros HP. unfold p_finish. destruct cols as [|c0 cs].
  - intro H. injection H as <- _. constructor.
  - destruct (Nat.eqb (pr_col r) 0%nat).
    + intro H. injection H as <- _. constructor.
    + destruct (p_end_row bin (c0 :: cs) r) as [[m1 r1]|] eqn:E; [|discriminate].
      intro H. injection H as <- _. exact (proj1 (p_end_row_spec _ _ _ _ _ HP E)).
Qed.

(* ---- the row writer ---- *)

Definition RInv (bin : bool) (cols : list column) (w : rw) (r : prow) (s0 s : st) : Prop :=
  r_cols w = cols /\ q_bin (r_q w) = bin /\ q_last (r_q w) = None /\ r_col w = pr_col r /\
  (bin = true -> r_data w = pr_data r) /\ clean s0 /\ Mid s0 (pr_cur r) s /\ PInv cols r.

Ltac canon w :=
  destruct w as [[wb wl] wcols wdata wcol wfin];
  cbn [r_q r_cols r_data r_col r_finished q_bin q_last] in *.

Lemma RInv_lapi quiet bin cols w r s0 s : RInv bin cols w r s0 s ->
  exists s2, lapi quiet None s = (ROk tt, s2) /\ RInv bin cols w r s0 s2.
Proof.
  intros (Hc & Hb & Hl & Hcol & Hdata & Hcl & Hmid & HP). unfold lapi. destruct quiet.
  - exists s. split; [reflexivity|].
    exact (conj Hc (conj Hb (conj Hl (conj Hcol (conj Hdata (conj Hcl (conj Hmid HP))))))).
  - exists (upd_trace (EApi None) s). split; [reflexivity|].
    refine (conj Hc (conj Hb (conj Hl (conj Hcol (conj Hdata (conj Hcl (conj _ HP))))))).
    apply Mid_api. exact Hmid.
Qed.

Lemma L_write_col bin cols w r s0 s v r' :
  RInv bin cols w r s0 s -> p_write_col bin cols r v = Some r' ->
  exists w' s', write_col w v s = (ROk (w', None), s') /\ RInv bin cols w' r' s0 s' /\
                r_finished w' = r_finished w.
Proof.
  intros (Hc & Hb & Hl & Hcol & Hdata & Hcl & Hmid & HP) Hp.
  pose proof (p_write_col_PInv _ _ _ _ _ HP Hp) as HP'.
  canon w. subst wcols wb wl wcol.
  unfold write_col. cbn [r_cols r_q q_bin r_col r_data]. unfold p_write_col in Hp.
  destruct cols as [|c0 cs].
  - injection Hp as <-. eexists _, s. split; [reflexivity|]. split; [|reflexivity].
    unfold RInv. cbn [r_q r_cols r_data r_col q_bin q_last].
    refine (conj eq_refl (conj eq_refl (conj eq_refl (conj eq_refl (conj Hdata (conj Hcl (conj Hmid HP))))))).
  - destruct bin.
    + pose proof (Hdata eq_refl) as Hd. subst wdata. cbv zeta in Hp.
      destruct (Nat.eqb (pr_col r) 0%nat) eqn:E0.
      * destruct (Mid_write s0 _ s [x00] Hcl Hmid) as (s2 & Hw & Hm2).
        rewrite (bind_ok _ _ _ _ _ (attempt_ok _ _ _ _ Hw)). cbv beta iota zeta.
        cbn [set_data rw_upd r_cols r_q q_bin r_col r_data r_finished].
        destruct (nth_error (c0 :: cs) (pr_col r)) as [c|]; [|discriminate].
        destruct (is_null v).
        -- destruct (has_flag (c_flags c) NOT_NULL_FLAG); [discriminate|].
           injection Hp as <-. eexists _, s2. split; [reflexivity|]. split; [|reflexivity].
           unfold RInv, set_col, set_data, rw_upd, bitmap_len.
           cbn [r_q r_cols r_data r_col q_bin q_last pr_cur pr_data pr_col].
           refine (conj eq_refl (conj eq_refl (conj eq_refl (conj eq_refl (conj _ (conj Hcl (conj Hm2 HP'))))))).
           intros _. reflexivity.
        -- destruct (to_bin v c) as [bs|e|p]; try discriminate.
           injection Hp as <-. eexists _, s2. split; [reflexivity|]. split; [|reflexivity].
           unfold RInv, set_col, set_data, rw_upd, bitmap_len.
           cbn [r_q r_cols r_data r_col q_bin q_last pr_cur pr_data pr_col].
           refine (conj eq_refl (conj eq_refl (conj eq_refl (conj eq_refl (conj _ (conj Hcl (conj Hm2 HP'))))))).
           intros _. reflexivity.
      * assert (Hr : @ret (unit + ioerr) (inl tt) s = (ROk (inl tt), s)) by reflexivity.
        rewrite (bind_ok _ _ _ _ _ Hr). cbv beta iota zeta.
        cbn [set_data rw_upd r_cols r_q q_bin r_col r_data r_finished].
        destruct (nth_error (c0 :: cs) (pr_col r)) as [c|]; [|discriminate].
        destruct (is_null v).
        -- destruct (has_flag (c_flags c) NOT_NULL_FLAG); [discriminate|].
           injection Hp as <-. eexists _, s. split; [reflexivity|]. split; [|reflexivity].
           unfold RInv, set_col, set_data, rw_upd, bitmap_len.
           cbn [r_q r_cols r_data r_col q_bin q_last pr_cur pr_data pr_col].
           refine (conj eq_refl (conj eq_refl (conj eq_refl (conj eq_refl (conj _ (conj Hcl (conj Hmid HP'))))))).
           intros _. reflexivity.
        -- destruct (to_bin v c) as [bs|e|p]; try discriminate.
           injection Hp as <-. eexists _, s. split; [reflexivity|]. split; [|reflexivity].
           unfold RInv, set_col, set_data, rw_upd, bitmap_len.
           cbn [r_q r_cols r_data r_col q_bin q_last pr_cur pr_data pr_col].
           refine (conj eq_refl (conj eq_refl (conj eq_refl (conj eq_refl (conj _ (conj Hcl (conj Hmid HP'))))))).
           intros _. reflexivity.
    + destruct (to_text v) as [bs|e|p] eqn:Et; try discriminate.
      injection Hp as <-.
      destruct (Mid_write s0 _ s bs Hcl Hmid) as (s2 & Hw & Hm2).
      rewrite (bind_ok _ _ _ _ _ (attempt_ok _ _ _ _ Hw)). cbv beta iota.
      eexists _, s2. split; [reflexivity|]. split; [|reflexivity].
      unfold RInv, set_col, rw_upd.
      cbn [r_q r_cols r_data r_col q_bin q_last pr_cur pr_data pr_col].
      refine (conj eq_refl (conj eq_refl (conj eq_refl (conj eq_refl (conj _ (conj Hcl (conj Hm2 HP'))))))).
      intro H. discriminate H.
Qed.

Lemma L_end_row bin cols w r s0 s m r' :
  RInv bin cols w r s0 s -> p_end_row bin cols r = Some (m, r') ->
  exists w' s' s0', end_row w s = (ROk (w', None), s') /\ post s0 m s0' /\
                    RInv bin cols w' r' s0' s' /\ r_finished w' = r_finished w.
Proof.
  intros (Hc & Hb & Hl & Hcol & Hdata & Hcl & Hmid & HP) Hp.
  pose proof (p_end_row_spec _ _ _ _ _ HP Hp) as [Hne HP'].
  canon w. subst wcols wb wl wcol.
  unfold end_row. cbn [r_cols r_q q_bin r_col r_data]. unfold p_end_row in Hp.
  destruct cols as [|c0 cs].
  - injection Hp as <- <-. eexists _, s, s0. split; [reflexivity|].
    split; [apply post_nil; exact Hcl|]. split; [|reflexivity].
    unfold RInv, set_col, rw_upd. cbn [r_q r_cols r_data r_col q_bin q_last pr_cur pr_data pr_col].
    exact (conj eq_refl (conj eq_refl (conj eq_refl (conj eq_refl (conj Hdata (conj Hcl (conj Hmid HP'))))))).
  - destruct (negb (Nat.eqb (pr_col r) (length (c0 :: cs)))); [discriminate|].
    injection Hp as <- <-.
    assert (Hmne : pr_cur r ++ (if bin then pr_data r else []) <> []).
    { inversion Hne; assumption. }
    destruct bin.
    + pose proof (Hdata eq_refl) as Hd. subst wdata.
      destruct (Mid_write s0 _ s (pr_data r) Hcl Hmid) as (s2 & Hw & Hm2).
      rewrite (bind_ok _ _ _ _ _ (attempt_ok _ _ _ _ Hw)). cbv beta iota zeta.
      destruct (Mid_end s0 _ s2 Hcl Hm2 Hmne) as (s3 & He & Hpost).
      rewrite (bind_ok _ _ _ _ _ (attempt_ok _ _ _ _ He)). cbv beta iota.
      eexists _, s3, s3. split; [reflexivity|]. split; [exact Hpost|]. split; [|reflexivity].
      unfold RInv, set_col, set_data, rw_upd, prow0.
      cbn [r_q r_cols r_data r_col q_bin q_last pr_cur pr_data pr_col].
      refine (conj eq_refl (conj eq_refl (conj eq_refl (conj eq_refl (conj _ (conj (proj1 Hpost) (conj (Mid_start s3) HP'))))))).
      intros _. reflexivity.
    + rewrite app_nil_r in *.
      assert (Hr : @ret (unit + ioerr) (inl tt) s = (ROk (inl tt), s)) by reflexivity.
      rewrite (bind_ok _ _ _ _ _ Hr). cbv beta iota zeta.
      destruct (Mid_end s0 _ s Hcl Hmid Hmne) as (s3 & He & Hpost).
      rewrite (bind_ok _ _ _ _ _ (attempt_ok _ _ _ _ He)). cbv beta iota.
      eexists _, s3, s3. split; [reflexivity|]. split; [exact Hpost|]. split; [|reflexivity].
      unfold RInv, set_col, set_data, rw_upd, prow0.
      cbn [r_q r_cols r_data r_col q_bin q_last pr_cur pr_data pr_col].
      refine (conj eq_refl (conj eq_refl (conj eq_refl (conj eq_refl (conj _ (conj (proj1 Hpost) (conj (Mid_start s3) HP'))))))).
      intro H. discriminate H.
Qed.

Lemma L_write_cols bin cols vs : forall w r s0 s r',
  RInv bin cols w r s0 s -> p_write_cols bin cols r vs = Some r' ->
  exists w' s', write_cols w vs s = (ROk (w', None), s') /\ RInv bin cols w' r' s0 s' /\
                r_finished w' = r_finished w.
Proof.
  induction vs as [|v vs IH]; intros w r s0 s r' HR Hp; cbn [p_write_cols write_cols] in *.
  - injection Hp as <-. exists w, s. split; [reflexivity|]. split; [exact HR | reflexivity].
  - destruct (p_write_col bin cols r v) as [r1|] eqn:E; [|discriminate].
    destruct (L_write_col _ _ _ _ _ _ _ _ HR E) as (w1 & s1 & Hrun & HR1 & Hf1).
    rewrite (bind_ok _ _ _ _ _ Hrun). cbv beta iota.
    destruct (IH _ _ _ _ _ HR1 Hp) as (w2 & s2 & Hrun2 & HR2 & Hf2).
    exists w2, s2. split; [exact Hrun2|]. split; [exact HR2 | congruence].
Qed.

Lemma L_write_row bin cols w r s0 s vs m r' :
  RInv bin cols w r s0 s -> p_write_row bin cols r vs = Some (m, r') ->
  exists w' s' s0', write_row w vs s = (ROk (w', None), s') /\ post s0 m s0' /\
                    RInv bin cols w' r' s0' s' /\ r_finished w' = r_finished w.
Proof.
  intros HR Hp. unfold write_row, p_write_row in *.
  pose proof HR as (Hc & _). rewrite Hc.
  destruct cols as [|c0 cs].
  - exact (L_end_row _ _ _ _ _ _ _ _ HR Hp).
  - destruct (p_write_cols bin (c0 :: cs) r vs) as [r1|] eqn:E; [|discriminate].
    destruct (L_write_cols _ _ _ _ _ _ _ _ HR E) as (w1 & s1 & Hrun & HR1 & Hf1).
    rewrite (bind_ok _ _ _ _ _ Hrun). cbv beta iota.
    destruct (L_end_row _ _ _ _ _ _ _ _ HR1 Hp) as (w2 & s2 & s0' & Hrun2 & Hpost & HR2 & Hf2).
    exists w2, s2, s0'. split; [exact Hrun2|]. split; [exact Hpost|]. split; [exact HR2 | congruence].
Qed.

Lemma L_finish bin cols w r s0 s complete m f :
  RInv bin cols w r s0 s -> r_finished w = false -> p_finish bin cols r = Some (m, f) ->
  exists w' s', finish_inner w complete s = (ROk (w', None), s') /\ post s0 m s' /\
    q_bin (r_q w') = bin /\ q_last (r_q w') = (if complete then Some f else None).
Proof.
  intros HR Hfin Hp. unfold finish_inner. rewrite Hfin.
  set (w1 := rw_upd w (r_q w) (r_data w) (r_col w) true).
  assert (HR1 : RInv bin cols w1 r s0 s).
  { destruct HR as (Hc & Hb & Hl & Hcol & Hdata & Hcl & Hmid & HP).
    exact (conj Hc (conj Hb (conj Hl (conj Hcol (conj Hdata (conj Hcl (conj Hmid HP))))))). }
  pose proof HR1 as (Hc & Hb & Hl & Hcol & Hdata & Hcl & Hmid & (P1 & P2 & P3)).
  assert (Hfinal : forall w2 s2, r_cols w2 = cols -> q_bin (r_q w2) = bin -> q_last (r_q w2) = None ->
            post s0 m s2 ->
            f = match cols with [] => FOk (N.of_nat (r_col w2)) 0 | _ => FEof end ->
            exists w' s',
              (if complete
               then ret (rw_upd w2 (set_last (r_q w2)
                           (Some match r_cols w2 with [] => FOk (N.of_nat (r_col w2)) 0 | _ => FEof end))
                           (r_data w2) (r_col w2) true, @None ioerr)
               else ret (w2, None)) s2 = (ROk (w', None), s') /\ post s0 m s' /\
              q_bin (r_q w') = bin /\ q_last (r_q w') = (if complete then Some f else None)).
  { intros w2 s2 Hc2 Hb2 Hl2 Hpost Hf. destruct complete.
    - eexists _, s2. split; [reflexivity|]. split; [exact Hpost|].
      cbn [rw_upd r_q set_last q_bin q_last]. split; [exact Hb2|]. rewrite Hc2, Hf. reflexivity.
    - exists w2, s2. split; [reflexivity|]. split; [exact Hpost|]. split; assumption. }
  unfold p_finish in Hp. rewrite Hc. destruct cols as [|c0 cs].
  - injection Hp as <- <-.
    assert (Hr : @ret wres (w1, None) s = (ROk (w1, None), s)) by reflexivity.
    rewrite (bind_ok _ _ _ _ _ Hr). cbv beta iota.
    apply Hfinal; try assumption.
    + apply Mid_nil; [exact Hcl|]. rewrite <- (P2 eq_refl). exact Hmid.
    + rewrite Hcol. reflexivity.
  - rewrite Hcol. destruct (Nat.eqb_spec (pr_col r) 0%nat) as [E0|E0].
    + injection Hp as <- <-.
      assert (Hr : @ret wres (w1, None) s = (ROk (w1, None), s)) by reflexivity.
      rewrite (bind_ok _ _ _ _ _ Hr). cbv beta iota.
      apply Hfinal; try assumption; [|reflexivity].
      apply Mid_nil; [exact Hcl|]. rewrite <- (P1 E0). exact Hmid.
    + destruct (p_end_row bin (c0 :: cs) r) as [[m1 r1]|] eqn:E; [|discriminate].
      injection Hp as <- <-.
      destruct (L_end_row _ _ _ _ _ _ _ _ HR1 E) as (w2 & s2 & s0' & Hrun2 & Hpost & HR2 & Hf2).
      rewrite (bind_ok _ _ _ _ _ Hrun2). cbv beta iota.
      destruct HR2 as (Hc2 & Hb2 & Hl2 & _ & _ & Hcl2 & Hmid2 & _).
      apply Hfinal; try assumption; [|reflexivity].
      assert (Hr1 : pr_cur r1 = []).
      { unfold p_end_row in E. destruct (negb _) in E; [discriminate|]. injection E as _ <-. reflexivity. }
      rewrite Hr1 in Hmid2. rewrite <- (app_nil_r m1).
      exact (post_trans _ _ _ _ _ Hpost (Mid_nil _ _ Hcl2 Hmid2)).
Qed.

Lemma L_finalize q more s : clean s ->
  exists s', finalize q more s = (ROk tt, s') /\ post s (fin_msgs (q_last q) more) s'.
Proof.
  intro Hcl. unfold finalize, fin_msgs, status_of. destruct (q_last q) as [[rows id|]|].
  - apply send_post; [exact Hcl | apply ok_body_ne].
  - apply send_post; [exact Hcl | apply eof_body_ne].
  - exists s. split; [reflexivity | apply post_nil; exact Hcl].
Qed.

Lemma L_write_err errtab code msg e s : clean s -> err_msg_of errtab code msg = Some e ->
  exists s', write_err errtab code msg s = (ROk tt, s') /\ post s [e] s'.
Proof.
  intros Hcl. unfold err_msg_of, write_err. destruct (errtab code) as [[c st]|]; [|discriminate].
  intro H. injection H as <-. apply send_post; [exact Hcl | apply err_body_ne].
Qed.

Lemma L_coldefs cols s : clean s ->
  exists s', (match cols with [] => ret tt | _ => send_all (column_definitions_msgs cols) end) s = (ROk tt, s') /\
             post s (match cols with [] => [] | _ => column_definitions_msgs cols end) s'.
Proof.
  intro Hcl. destruct cols as [|c0 cs].
  - exists s. split; [reflexivity | apply post_nil; exact Hcl].
  - apply send_all_post; [exact Hcl | apply coldefs_ne].
Qed.

Lemma pm_r_finish_error errtab bin cols r code msg :
  pm_r errtab bin cols r (RFinishError code msg) =
  match p_finish bin cols r, err_msg_of errtab code msg with
  | Some (m, _), Some e => Some (m ++ [e])
  | _, _ => None
  end.
Proof.
  cbn [pm_r]. unfold p_finish. destruct cols as [|c0 cs].
  - destruct (err_msg_of errtab code msg); reflexivity.
  - destruct (Nat.eqb (pr_col r) 0%nat).
    + destruct (err_msg_of errtab code msg); reflexivity.
    + destruct (p_end_row bin (c0 :: cs) r) as [[m r1]|]; [|reflexivity].
      destruct (err_msg_of errtab code msg); reflexivity.
Qed.

(* ---- the interpreter ---- *)

Scheme qprog_mut := Induction for qprog Sort Prop
with rprog_mut := Induction for rprog Sort Prop.
Combined Scheme qrprog_ind from qprog_mut, rprog_mut.

Lemma oapp_some {A} (l : list A) o msgs : oapp l o = Some msgs -> exists l', o = Some l' /\ msgs = l ++ l'.
Proof.
  destruct o as [l'|]; cbn [oapp]; intro H; [|discriminate].
  injection H as <-. exists l'. split; reflexivity.
Qed.

Lemma run_render_mut errtab quiet :
  (forall p q s msgs, clean s -> pm_q errtab (q_bin q) (q_last q) p = Some msgs ->
     exists s', run_q errtab quiet q p s = (ROk tt, s') /\ post s msgs s') /\
  (forall p bin cols w r s0 s msgs, RInv bin cols w r s0 s -> r_finished w = false ->
     pm_r errtab bin cols r p = Some msgs ->
     exists s', run_r errtab quiet w p s = (ROk tt, s') /\ post s0 msgs s').
Proof.
  apply qrprog_ind.
  - (* QStart *)
    intros cols k IH q s msgs Hcl Hp. cbn [pm_q] in Hp.
    apply oapp_some in Hp. destruct Hp as (ms & Hr & ->).
    cbn [run_q].
    destruct (L_finalize q true s Hcl) as (s1 & Hrun1 & Hpost1).
    rewrite (bind_ok _ _ _ _ _ (attempt_ok _ _ _ _ Hrun1)). cbv beta iota zeta.
    destruct (L_coldefs cols s1 (proj1 Hpost1)) as (s2 & Hrun2 & Hpost2).
    rewrite (bind_ok _ _ _ _ _ (attempt_ok _ _ _ _ Hrun2)). cbv beta iota.
    pose proof (post_trans _ _ _ _ _ Hpost1 Hpost2) as Hpost12.
    destruct (lapi_post quiet _ _ _ Hpost12) as (s3 & Hrun3 & Hpost3).
    rewrite (bind_ok _ _ _ _ _ Hrun3).
    set (w := {| r_q := set_last q None; r_cols := cols; r_data := []; r_col := 0; r_finished := false |}).
    assert (HR : RInv (q_bin q) cols w prow0 s3 s3).
    { unfold RInv, w. cbn [r_q r_cols r_data r_col set_last q_bin q_last prow0 pr_cur pr_data pr_col].
      refine (conj eq_refl (conj eq_refl (conj eq_refl (conj eq_refl (conj _ (conj (proj1 Hpost3) (conj (Mid_start s3) (PInv0 cols)))))))).
      intros _. reflexivity. }
    destruct (IH _ _ _ _ _ _ _ HR eq_refl Hr) as (s' & Hrun & Hpost).
    exists s'. split; [exact Hrun|]. exact (post_trans _ _ _ _ _ Hpost3 Hpost).
  - (* QCompleteOne *)
    intros rows id k IH q s msgs Hcl Hp. cbn [pm_q] in Hp.
    apply oapp_some in Hp. destruct Hp as (ms & Hr & ->).
    cbn [run_q].
    destruct (L_finalize q true s Hcl) as (s1 & Hrun1 & Hpost1).
    rewrite (bind_ok _ _ _ _ _ (attempt_ok _ _ _ _ Hrun1)). cbv beta iota.
    destruct (lapi_post quiet _ _ _ Hpost1) as (s2 & Hrun2 & Hpost2).
    rewrite (bind_ok _ _ _ _ _ Hrun2).
    destruct (IH (set_last q (Some (FOk rows id))) s2 ms (proj1 Hpost2) Hr) as (s' & Hrun & Hpost).
    exists s'. split; [exact Hrun|]. exact (post_trans _ _ _ _ _ Hpost2 Hpost).
  - (* QCompleted *)
    intros rows id q s msgs Hcl Hp. cbn [pm_q] in Hp. injection Hp as <-.
    cbn [run_q].
    destruct (L_finalize q true s Hcl) as (s1 & Hrun1 & Hpost1).
    destruct (L_finalize (set_last q (Some (FOk rows id))) false s1 (proj1 Hpost1)) as (s2 & Hrun2 & Hpost2).
    assert (Hrun12 : (finalize q true ;;; finalize (set_last q (Some (FOk rows id))) false) s = (ROk tt, s2)).
    { rewrite (bind_ok _ _ _ _ _ Hrun1). exact Hrun2. }
    rewrite (bind_ok _ _ _ _ _ (attempt_ok _ _ _ _ Hrun12)). cbv beta iota.
    apply lapi_post. exact (post_trans _ _ _ _ _ Hpost1 Hpost2).
  - (* QError *)
    intros code msg q s msgs Hcl Hp. cbn [pm_q] in Hp.
    destruct (err_msg_of errtab code msg) as [e|] eqn:Ee; [|discriminate]. injection Hp as <-.
    cbn [run_q].
    destruct (L_finalize q true s Hcl) as (s1 & Hrun1 & Hpost1).
    destruct (L_write_err errtab code msg e s1 (proj1 Hpost1) Ee) as (s2 & Hrun2 & Hpost2).
    assert (Hrun12 : (finalize q true ;;; write_err errtab code msg) s = (ROk tt, s2)).
    { rewrite (bind_ok _ _ _ _ _ Hrun1). exact Hrun2. }
    rewrite (bind_ok _ _ _ _ _ (attempt_ok _ _ _ _ Hrun12)). cbv beta iota.
    apply lapi_post. exact (post_trans _ _ _ _ _ Hpost1 Hpost2).
  - (* QNoMore *)
    intros q s msgs Hcl Hp. cbn [pm_q] in Hp. injection Hp as <-.
    cbn [run_q].
    destruct (L_finalize q false s Hcl) as (s1 & Hrun1 & Hpost1).
    rewrite (bind_ok _ _ _ _ _ (attempt_ok _ _ _ _ Hrun1)). cbv beta iota.
    apply lapi_post. exact Hpost1.
  - (* QDrop *)
    intros q s msgs Hcl Hp. cbn [pm_q] in Hp. injection Hp as <-.
    cbn [run_q]. unfold drop_q.
    destruct (L_finalize q false s Hcl) as (s1 & Hrun1 & Hpost1).
    exists s1. split; [apply park_on_err_ok; exact Hrun1 | exact Hpost1].
  - (* RWriteCol *)
    intros v e k IH bin cols w r s0 s msgs HR Hfin Hp. cbn [pm_r] in Hp.
    destruct (p_write_col bin cols r v) as [r1|] eqn:E; [|discriminate].
    cbn [run_r].
    destruct (L_write_col _ _ _ _ _ _ _ _ HR E) as (w1 & s1 & Hrun1 & HR1 & Hf1).
    rewrite (bind_ok _ _ _ _ _ Hrun1). cbv beta iota.
    destruct (RInv_lapi quiet _ _ _ _ _ _ HR1) as (s2 & Hrun2 & HR2).
    rewrite (bind_ok _ _ _ _ _ Hrun2).
    apply (IH _ _ _ _ _ _ _ HR2); [congruence | exact Hp].
  - (* REndRow *)
    intros e k IH bin cols w r s0 s msgs HR Hfin Hp. cbn [pm_r] in Hp.
    destruct (p_end_row bin cols r) as [[m r1]|] eqn:E; [|discriminate].
    apply oapp_some in Hp. destruct Hp as (ms & Hr & ->).
    cbn [run_r].
    destruct (L_end_row _ _ _ _ _ _ _ _ HR E) as (w1 & s1 & s0' & Hrun1 & Hpost1 & HR1 & Hf1).
    rewrite (bind_ok _ _ _ _ _ Hrun1). cbv beta iota.
    destruct (RInv_lapi quiet _ _ _ _ _ _ HR1) as (s2 & Hrun2 & HR2).
    rewrite (bind_ok _ _ _ _ _ Hrun2).
    destruct (IH _ _ _ _ _ _ _ HR2 (eq_trans Hf1 Hfin) Hr) as (s' & Hrun & Hpost).
    exists s'. split; [exact Hrun|]. exact (post_trans _ _ _ _ _ Hpost1 Hpost).
  - (* RWriteRow *)
    intros vs e k IH bin cols w r s0 s msgs HR Hfin Hp. cbn [pm_r] in Hp.
    destruct (p_write_row bin cols r vs) as [[m r1]|] eqn:E; [|discriminate].
    apply oapp_some in Hp. destruct Hp as (ms & Hr & ->).
    cbn [run_r].
    destruct (L_write_row _ _ _ _ _ _ _ _ _ HR E) as (w1 & s1 & s0' & Hrun1 & Hpost1 & HR1 & Hf1).
    rewrite (bind_ok _ _ _ _ _ Hrun1). cbv beta iota.
    destruct (RInv_lapi quiet _ _ _ _ _ _ HR1) as (s2 & Hrun2 & HR2).
    rewrite (bind_ok _ _ _ _ _ Hrun2).
    destruct (IH _ _ _ _ _ _ _ HR2 (eq_trans Hf1 Hfin) Hr) as (s' & Hrun & Hpost).
    exists s'. split; [exact Hrun|]. exact (post_trans _ _ _ _ _ Hpost1 Hpost).
  - (* RFinish *)
    intros bin cols w r s0 s msgs HR Hfin Hp. cbn [pm_r] in Hp.
    destruct (p_finish bin cols r) as [[m f]|] eqn:E; [|discriminate]. injection Hp as <-.
    cbn [run_r].
    destruct (L_finish _ _ _ _ _ _ true _ _ HR Hfin E) as (w1 & s1 & Hrun1 & Hpost1 & Hb1 & Hl1).
    rewrite (bind_ok _ _ _ _ _ Hrun1). cbv beta iota.
    destruct (L_finalize (r_q w1) false s1 (proj1 Hpost1)) as (s2 & Hrun2 & Hpost2).
    rewrite (bind_ok _ _ _ _ _ (attempt_ok _ _ _ _ Hrun2)). cbv beta iota.
    rewrite Hl1 in Hpost2.
    apply lapi_post. exact (post_trans _ _ _ _ _ Hpost1 Hpost2).
  - (* RFinishOne *)
    intros k IH bin cols w r s0 s msgs HR Hfin Hp. cbn [pm_r] in Hp.
    destruct (p_finish bin cols r) as [[m f]|] eqn:E; [|discriminate].
    apply oapp_some in Hp. destruct Hp as (ms & Hr & ->).
    cbn [run_r].
    destruct (L_finish _ _ _ _ _ _ true _ _ HR Hfin E) as (w1 & s1 & Hrun1 & Hpost1 & Hb1 & Hl1).
    rewrite (bind_ok _ _ _ _ _ Hrun1). cbv beta iota.
    destruct (lapi_post quiet _ _ _ Hpost1) as (s2 & Hrun2 & Hpost2).
    rewrite (bind_ok _ _ _ _ _ Hrun2).
    rewrite <- Hb1, <- Hl1 in Hr.
    destruct (IH (r_q w1) s2 ms (proj1 Hpost2) Hr) as (s' & Hrun & Hpost).
    exists s'. split; [exact Hrun|]. exact (post_trans _ _ _ _ _ Hpost2 Hpost).
  - (* RFinishError *)
    intros code msg bin cols w r s0 s msgs HR Hfin Hp. rewrite pm_r_finish_error in Hp.
    destruct (p_finish bin cols r) as [[m f]|] eqn:E; [|discriminate].
    destruct (err_msg_of errtab code msg) as [e|] eqn:Ee; [|discriminate]. injection Hp as <-.
    cbn [run_r].
    destruct (L_finish _ _ _ _ _ _ false _ _ HR Hfin E) as (w1 & s1 & Hrun1 & Hpost1 & Hb1 & Hl1).
    rewrite (bind_ok _ _ _ _ _ Hrun1). cbv beta iota.
    destruct (L_finalize (r_q w1) true s1 (proj1 Hpost1)) as (s2 & Hrun2 & Hpost2).
    rewrite Hl1 in Hpost2. cbn [fin_msgs] in Hpost2.
    destruct (L_write_err errtab code msg e s2 (proj1 Hpost2) Ee) as (s3 & Hrun3 & Hpost3).
    assert (Hrun23 : (finalize (r_q w1) true ;;; write_err errtab code msg) s1 = (ROk tt, s3)).
    { rewrite (bind_ok _ _ _ _ _ Hrun2). exact Hrun3. }
    rewrite (bind_ok _ _ _ _ _ (attempt_ok _ _ _ _ Hrun23)). cbv beta iota.
    apply lapi_post.
    exact (post_trans _ _ _ _ _ Hpost1 (post_trans _ _ _ _ _ Hpost2 Hpost3)).
  - (* RDrop *)
    intros bin cols w r s0 s msgs HR Hfin Hp. cbn [pm_r] in Hp.
    destruct (p_finish bin cols r) as [[m f]|] eqn:E; [|discriminate]. injection Hp as <-.
    cbn [run_r]. unfold drop_rw, drop_q.
    destruct (L_finish _ _ _ _ _ _ true _ _ HR Hfin E) as (w1 & s1 & Hrun1 & Hpost1 & Hb1 & Hl1).
    rewrite (bind_ok _ _ _ _ _ Hrun1). cbv beta iota.
    destruct (L_finalize (r_q w1) false s1 (proj1 Hpost1)) as (s2 & Hrun2 & Hpost2).
    rewrite Hl1 in Hpost2.
    exists s2. split; [apply park_on_err_ok; exact Hrun2|].
    exact (post_trans _ _ _ _ _ Hpost1 Hpost2).
Qed.

Lemma pm_nonempty_mut errtab :
  (forall p bin last msgs, pm_q errtab bin last p = Some msgs -> Forall (fun m => m <> []) msgs) /\
  (forall p bin cols r msgs, PInv cols r -> pm_r errtab bin cols r p = Some msgs ->
     Forall (fun m => m <> []) msgs).
Proof.
  apply qrprog_ind.
  - intros cols k IH bin last msgs Hp. cbn [pm_q] in Hp.
    apply oapp_some in Hp. destruct Hp as (ms & Hr & ->).
    apply Forall_app. split; [|exact (IH _ _ _ _ (PInv0 cols) Hr)].
    apply Forall_app. split; [apply fin_msgs_ne|].
    destruct cols; [constructor | apply coldefs_ne].
  - intros rows id k IH bin last msgs Hp. cbn [pm_q] in Hp.
    apply oapp_some in Hp. destruct Hp as (ms & Hr & ->).
    apply Forall_app. split; [apply fin_msgs_ne | exact (IH _ _ _ Hr)].
  - intros rows id bin last msgs Hp. cbn [pm_q] in Hp. injection Hp as <-.
    apply Forall_app. split; [apply fin_msgs_ne|]. constructor; [apply ok_body_ne | constructor].
  - intros code msg bin last msgs Hp. cbn [pm_q] in Hp.
    destruct (err_msg_of errtab code msg) as [e|] eqn:Ee; [|discriminate]. injection Hp as <-.
    apply Forall_app. split; [apply fin_msgs_ne|].
    constructor; [exact (err_msg_of_ne _ _ _ _ Ee) | constructor].
  - intros bin last msgs Hp. cbn [pm_q] in Hp. injection Hp as <-. apply fin_msgs_ne.
  - intros bin last msgs Hp. cbn [pm_q] in Hp. injection Hp as <-. apply fin_msgs_ne.
  - intros v e k IH bin cols r msgs HP Hp. cbn [pm_r] in Hp.
    destruct (p_write_col bin cols r v) as [r1|] eqn:E; [|discriminate].
    exact (IH _ _ _ _ (p_write_col_PInv _ _ _ _ _ HP E) Hp).
  - intros e k IH bin cols r msgs HP Hp. cbn [pm_r] in Hp.
    destruct (p_end_row bin cols r) as [[m r1]|] eqn:E; [|discriminate].
    apply oapp_some in Hp. destruct Hp as (ms & Hr & ->).
    destruct (p_end_row_spec _ _ _ _ _ HP E) as [Hm HP1].
    apply Forall_app. split; [exact Hm | exact (IH _ _ _ _ HP1 Hr)].
  - intros vs e k IH bin cols r msgs HP Hp. cbn [pm_r] in Hp.
    destruct (p_write_row bin cols r vs) as [[m r1]|] eqn:E; [|discriminate].
    apply oapp_some in Hp. destruct Hp as (ms & Hr & ->).
    destruct (p_write_row_spec _ _ _ _ _ _ HP E) as [Hm HP1].
    apply Forall_app. split; [exact Hm | exact (IH _ _ _ _ HP1 Hr)].
  - intros bin cols r msgs HP Hp. cbn [pm_r] in Hp.
    destruct (p_finish bin cols r) as [[m f]|] eqn:E; [|discriminate]. injection Hp as <-.
    apply Forall_app. split; [exact (p_finish_spec _ _ _ _ _ HP E) | exact (fin_msgs_ne (Some f) false)].
  - intros k IH bin cols r msgs HP Hp. cbn [pm_r] in Hp.
    destruct (p_finish bin cols r) as [[m f]|] eqn:E; [|discriminate].
    apply oapp_some in Hp. destruct Hp as (ms & Hr & ->).
    apply Forall_app. split; [exact (p_finish_spec _ _ _ _ _ HP E) | exact (IH _ _ _ Hr)].
  - intros code msg bin cols r msgs HP Hp. rewrite pm_r_finish_error in Hp.
    destruct (p_finish bin cols r) as [[m f]|] eqn:E; [|discriminate].
    destruct (err_msg_of errtab code msg) as [e|] eqn:Ee; [|discriminate]. injection Hp as <-.
    apply Forall_app. split; [exact (p_finish_spec _ _ _ _ _ HP E)|].
    constructor; [exact (err_msg_of_ne _ _ _ _ Ee) | constructor].
  - intros bin cols r msgs HP Hp. cbn [pm_r] in Hp.
    destruct (p_finish bin cols r) as [[m f]|] eqn:E; [|discriminate]. injection Hp as <-.
    apply Forall_app. split; [exact (p_finish_spec _ _ _ _ _ HP E) | exact (fin_msgs_ne (Some f) false)].
Qed.

(* ====================================================================================== *)
(* the theorems                                                                            *)
(* ====================================================================================== *)

(* every message a successful program sends is non-empty *)
Lemma pm_q_nonempty errtab bin last p msgs :
  pm_q errtab bin last p = Some msgs -> Forall (fun m => m <> []) msgs.
Proof. apply (proj1 (pm_nonempty_mut errtab)). Qed.

Theorem run_q_render errtab quiet q p msgs s :
  clean s ->
  pm_q errtab (q_bin q) (q_last q) p = Some msgs ->
  exists s',
    run_q errtab quiet q p s = (ROk tt, s') /\ clean s' /\
    sent s s' (frame_all_pkts (s_lim s) (s_seq s) msgs) /\
    s_seq s' = seq_after (s_lim s) (s_seq s) msgs.
Proof.
  intros Hcl Hp.
  destruct (proj1 (run_render_mut errtab quiet) p q s msgs Hcl Hp) as (s' & Hrun & Hc' & Hs & Hq).
  exists s'. exact (conj Hrun (conj Hc' (conj Hs Hq))).
Qed.

(* the same for plain message lists (prepare replies, OK, ERR, field lists) *)
Theorem send_all_render msgs s :
  clean s -> Forall (fun m => m <> []) msgs ->
  exists s',
    send_all msgs s = (ROk tt, s') /\ clean s' /\
    sent s s' (frame_all_pkts (s_lim s) (s_seq s) msgs) /\
    s_seq s' = seq_after (s_lim s) (s_seq s) msgs.
Proof.
  intros Hcl Hall.
  destruct (send_all_post msgs s Hcl Hall) as (s' & Hrun & Hc' & Hs & Hq).
  exists s'. exact (conj Hrun (conj Hc' (conj Hs Hq))).
Qed.

Print Assumptions pm_q_nonempty.
Print Assumptions run_q_render.
Print Assumptions send_all_render.
