(* Lemmas purely about the framing specification (frame / frame_pkts / last_seq).  Proofs only. *)
From MsqlVerif Require Import Model.Packet Spec.Frame Proofs.BaseLemmas.
From Coq Require Import Lia.
Open Scope N_scope.

Lemma Nlen_firstn_le {A} (l : list A) n : n <= Nlen l -> Nlen (firstn (N.to_nat n) l) = n.
Proof. unfold Nlen. intros H. rewrite firstn_length. lia. Qed.

Lemma Nlen_skipn {A} (l : list A) n : Nlen (skipn (N.to_nat n) l) = Nlen l - n.
Proof. unfold Nlen. rewrite skipn_length. lia. Qed.

Lemma length_skipn_lt {A} (l : list A) lim n :
  0 < lim -> lim <= Nlen l -> (length l < S n)%nat -> (length (skipn (N.to_nat lim) l) < n)%nat.
Proof. unfold Nlen. intros H0 Hle Hn. rewrite skipn_length. lia. Qed.

(* any fuel above the payload length gives the same packets *)
Lemma frame_pkts_f_fuel lim : 0 < lim ->
  forall f1 f2 q p, (length p < f1)%nat -> (length p < f2)%nat ->
  frame_pkts_f f1 lim q p = frame_pkts_f f2 lim q p.
Proof.
  intros Hlim. induction f1 as [|f1 IH]; intros f2 q p H1 H2; [lia|].
  destruct f2 as [|f2]; [lia|].
  cbn [frame_pkts_f].
  destruct (N.leb_spec lim (Nlen p)) as [Hle|Hgt]; [|reflexivity].
  f_equal. apply IH; apply length_skipn_lt; assumption.
Qed.

(* unfolding equation of the spec *)
Lemma frame_unfold lim q p : 0 < lim ->
  frame lim q p =
    if lim <=? Nlen p
    then le_bytes 3 lim ++ b_of_N q :: firstn (N.to_nat lim) p
           ++ frame lim ((q + 1) mod 256) (skipn (N.to_nat lim) p)
    else le_bytes 3 (Nlen p) ++ b_of_N q :: p.
Proof.
  intros Hlim. unfold frame, frame_pkts. cbn [frame_pkts_f].
  destruct (N.leb_spec lim (Nlen p)) as [Hle|Hgt].
  - cbn [concat]. rewrite <- app_assoc. cbn [app].
    rewrite (frame_pkts_f_fuel lim Hlim (length p)
               (S (length (skipn (N.to_nat lim) p)))).
    + reflexivity.
    + apply length_skipn_lt; [assumption|assumption|lia].
    + lia.
  - cbn [concat]. rewrite app_nil_r. reflexivity.
Qed.

Lemma last_seq_small lim q p : q < 256 -> Nlen p < lim -> last_seq lim q p = q.
Proof.
  intros Hq Hp. unfold last_seq. rewrite N.div_small by assumption.
  rewrite N.add_0_r. apply N.mod_small; assumption.
Qed.

Lemma last_seq_step lim q p : 0 < lim -> lim <= Nlen p ->
  last_seq lim ((q + 1) mod 256) (skipn (N.to_nat lim) p) = last_seq lim q p.
Proof.
  intros Hlim Hle. unfold last_seq. rewrite Nlen_skipn.
  rewrite N.add_mod_idemp_l by lia.
  assert (E : Nlen p / lim = 1 + (Nlen p - lim) / lim).
  { rewrite <- N.div_add_l by lia. f_equal. lia. }
  rewrite E. f_equal. lia.
Qed.

Lemma last_seq_lt lim q p : last_seq lim q p < 256.
Proof. unfold last_seq. apply N.mod_lt. lia. Qed.
