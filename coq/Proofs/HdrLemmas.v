(* pstate_hdr (the iterator state after validate() has read the header of the parameter block)
   versus pstate_of (the untouched state): reading the header is idempotent, so the first
   Params::next step is the same from either; the header alone decides p_bound.  Proofs only. *)
From MsqlVerif Require Import Model.Server Spec.AbsServer.
Open Scope N_scope.

(* ---- params_header is idempotent ---- *)
Lemma params_header_nullmap p0 p1 :
  params_header p0 = ROk p1 -> exists bm, p_nullmap p1 = Some bm.
Proof.
  unfold params_header.
  destruct (p_nullmap p0) as [bm|] eqn:E.
  - intro H. inversion H; subst. eauto.
  - destruct (take_n _ (p_input p0)) as [[nm rest]|]; [|discriminate].
    destruct rest as [|flag rest1].
    + intro H. inversion H; subst. cbn [p_nullmap]. eauto.
    + destruct (byte_eqb flag x00).
      * intro H. inversion H; subst. cbn [p_nullmap]. eauto.
      * destruct (take_n _ rest1) as [[tm rest2]|]; [|discriminate].
        destruct (parse_types _ tm) as [bt|e|s]; cbn [rbind]; try discriminate.
        intro H. inversion H; subst. cbn [p_nullmap]. eauto.
Qed.
Lemma params_header_done p : p_nullmap p <> None -> params_header p = ROk p.
Proof.
  intro H. unfold params_header. destruct (p_nullmap p); [reflexivity|congruence].
Qed.
Lemma params_header_idem p0 p1 : params_header p0 = ROk p1 -> params_header p1 = ROk p1.
Proof.
  intro H. apply params_header_nullmap in H. destruct H as [bm H].
  apply params_header_done. congruence.
Qed.

(* ---- pstate_hdr ---- *)
Lemma pstate_hdr_ok sd ps p1 :
  params_header (pstate_of sd ps) = ROk p1 -> pstate_hdr sd ps = p1.
Proof. intro H. unfold pstate_hdr. rewrite H. reflexivity. Qed.
Lemma pstate_hdr_cases sd ps :
  (exists p1, params_header (pstate_of sd ps) = ROk p1 /\ pstate_hdr sd ps = p1) \/
  pstate_hdr sd ps = pstate_of sd ps.
Proof.
  unfold pstate_hdr. destruct (params_header (pstate_of sd ps)) as [p1|e|s]; eauto.
Qed.

Section WithOracles.
Variable fpext : N -> N.
Variable fptrunc : N -> N.

Lemma params_next_header_ok p0 p1 :
  params_header p0 = ROk p1 -> params_next fpext p1 = params_next fpext p0.
Proof.
  intro H. unfold params_next. rewrite H, (params_header_idem _ _ H). reflexivity.
Qed.
Lemma params_next_hdr sd ps :
  params_next fpext (pstate_hdr sd ps) = params_next fpext (pstate_of sd ps).
Proof.
  destruct (pstate_hdr_cases sd ps) as [(p1 & H & E)|E]; rewrite E; [|reflexivity].
  apply params_next_header_ok. exact H.
Qed.

(* a successful Params::next means the header was readable *)
Lemma params_next_ok_header p r : params_next fpext p = ROk r -> exists p1, params_header p = ROk p1.
Proof.
  unfold params_next. destruct (params_header p) as [p1|e|s]; cbn [rbind]; [eauto|discriminate|discriminate].
Qed.

Lemma pull_all_ok_hdr fuel sd ps :
  pull_all_ok fpext fuel (pstate_hdr sd ps) = pull_all_ok fpext fuel (pstate_of sd ps).
Proof.
  destruct fuel as [|f]; [reflexivity|]. cbn [pull_all_ok]. rewrite params_next_hdr. reflexivity.
Qed.
Lemma params_valid_hdr sd ps :
  pull_all_ok fpext (S (N.to_nat (sd_params sd))) (pstate_hdr sd ps) = params_valid fpext sd ps.
Proof. unfold params_valid. apply pull_all_ok_hdr. Qed.
(* validation passed: the header was readable *)
Lemma params_valid_header sd ps :
  params_valid fpext sd ps = true ->
  exists p1, params_header (pstate_of sd ps) = ROk p1 /\ pstate_hdr sd ps = p1.
Proof.
  unfold params_valid. cbn [pull_all_ok]. intro H.
  destruct (params_next fpext (pstate_of sd ps)) as [r|e|s] eqn:E; try discriminate.
  apply params_next_ok_header in E. destruct E as [p1 E]. exists p1. split; [exact E|].
  apply pstate_hdr_ok. exact E.
Qed.

Lemma abs_pull_hdr f n convs sd ps : n <> Some O ->
  abs_pull fpext fptrunc (S f) n convs (pstate_hdr sd ps) =
  abs_pull fpext fptrunc (S f) n convs (pstate_of sd ps).
Proof.
  intro Hn. cbn [abs_pull].
  destruct n as [[|m]|]; [congruence | |]; rewrite params_next_hdr; reflexivity.
Qed.
Lemma pull_params_hdr f n convs sd ps : n <> Some O ->
  pull_params fpext fptrunc (S f) n convs (pstate_hdr sd ps) =
  pull_params fpext fptrunc (S f) n convs (pstate_of sd ps).
Proof.
  intro Hn. cbn [pull_params].
  destruct n as [[|m]|]; [congruence | |]; rewrite params_next_hdr; reflexivity.
Qed.

(* ---- after the header, nothing touches p_bound ---- *)
Lemma params_next_bound p o p' :
  params_next fpext p = ROk (o, p') -> p_nullmap p <> None ->
  p_bound p' = p_bound p /\ p_nullmap p' <> None.
Proof.
  intros H Hn. unfold params_next in H. rewrite (params_header_done _ Hn) in H. cbn [rbind] in H.
  destruct (p_params p <=? p_col p); [inversion H; subst; auto|].
  destruct (nth_error (p_bound p) _) as [[ct uns]|]; [|discriminate].
  destruct (nth_error _ _) as [b|]; [|inversion H; subst; auto].
  destruct (N.testbit _ _); [inversion H; subst; cbn [p_bound p_nullmap]; auto|].
  destruct (lookup _ _) as [data|]; [inversion H; subst; cbn [p_bound p_nullmap]; auto|].
  destruct (parse_value _ _ _ _) as [[v rest]|e|s]; try discriminate.
  inversion H; subst; cbn [p_bound p_nullmap]; auto.
Qed.
Lemma abs_pull_bound fuel : forall n convs p cs p',
  abs_pull fpext fptrunc fuel n convs p = Some (cs, p') -> p_nullmap p <> None ->
  p_bound p' = p_bound p.
Proof.
  induction fuel as [|f IH]; intros n convs p cs p' H Hn.
  - cbn [abs_pull] in H. inversion H; subst. reflexivity.
  - cbn [abs_pull] in H.
    assert (Hgen :
      match params_next fpext p with
      | ROk (None, p') => Some ([], p')
      | ROk (Some (ct, v), p') =>
          match convert fptrunc (match convs with [] => KNone | k :: _ => k end) v with
          | ROk r =>
              match abs_pull fpext fptrunc f (match n with Some (S m) => Some m | _ => None end)
                      (tl convs) p' with
              | Some (cs, p'') =>
                  Some (CParam ct v :: match r with Some x => [CConv x] | None => [] end ++ cs, p'')
              | None => None
              end
          | _ => None
          end
      | _ => None
      end = Some (cs, p') -> p_bound p' = p_bound p).
    { clear H. intro H.
      destruct (params_next fpext p) as [[[[ct v]|] p1]|e|s] eqn:E; try discriminate.
      - destruct (params_next_bound _ _ _ E Hn) as [Hb Hn1].
        destruct (convert fptrunc _ v) as [r|e|s]; try discriminate.
        destruct (abs_pull fpext fptrunc f _ _ p1) as [[cs1 p2]|] eqn:E1; [|discriminate].
        inversion H; subst. rewrite (IH _ _ _ _ _ E1 Hn1). exact Hb.
      - inversion H; subst. apply (params_next_bound _ _ _ E Hn). }
    destruct n as [[|m]|]; [inversion H; subst; reflexivity | exact (Hgen H) | exact (Hgen H)].
Qed.

End WithOracles.
