(* C01 for the EXACT inbound bookkeeping of PacketConn::next (Model/PacketBuf.v: bytes / start /
   remaining, drain, resize to max(4096, 2*end), read into the spare capacity, truncate): under every
   chunking of the stream -- including chunks larger than the spare capacity, which are delivered in
   parts -- exactly the next framed command is returned and exactly the rest of the stream remains.
   Proofs only; statements fixed. *)
From MsqlVerif Require Import Model.Packet Model.PacketBuf Spec.Frame Proofs.BaseLemmas Proofs.PacketRead.
From Coq Require Import Lia.
Open Scope N_scope.

Definition x_wf (x : xbuf) : Prop := (x_rem x <= length (x_bytes x))%nat.
Definition inbound_x (x : xbuf) (s : st) : bytes := x_tail x ++ reads_data (s_reads s).
Fixpoint script_size (l : list rd) : nat :=
  match l with
  | [] => O
  | RdData bs :: r => (S (length bs) + script_size r)%nat
  | _ :: r => S (script_size r)
  end.
(* everything but the read script and the trace is untouched; only reads were logged *)
Definition reads_only (s s' : st) : Prop :=
  s_fault s' = s_fault s /\ s_lim s' = s_lim s /\ s_tw s' = s_tw s /\ s_seq s' = s_seq s /\
  s_cont s' = s_cont s /\ s_park s' = s_park s /\ s_wops s' = s_wops s /\ s_buf s' = s_buf s /\
  exists evs, s_trace s' = evs ++ s_trace s /\ only_reads evs.

(* ---- helpers: lists, the buffer record ---- *)

Lemma skipn_len_sub {A} (a l : list A) : skipn (length (a ++ l) - length l)%nat (a ++ l) = l.
Proof.
  rewrite app_length. rewrite Nat.add_sub. rewrite skipn_app. rewrite skipn_all.
  rewrite Nat.sub_diag. reflexivity.
Qed.

(* the loop invariant: start = len - remaining *)
Definition x_inv (x : xbuf) : Prop := x_start x = (length (x_bytes x) - x_rem x)%nat.

Lemma kept_tail x : x_inv x -> skipn (x_start x) (x_bytes x) = x_tail x.
Proof. unfold x_inv, x_tail. intros ->. reflexivity. Qed.

Lemma x_tail_length x : x_wf x -> length (x_tail x) = x_rem x.
Proof. unfold x_wf, x_tail. intros H. rewrite skipn_length. lia. Qed.

Lemma x_tail_suffix bs st pre l :
  bs = pre ++ l -> x_tail {| x_bytes := bs; x_start := st; x_rem := length l |} = l.
Proof. intros ->. unfold x_tail. cbn [x_bytes x_rem]. apply skipn_len_sub. Qed.

Definition x_after (x : xbuf) (chunk : bytes) : xbuf :=
  {| x_bytes := skipn (x_start x) (x_bytes x) ++ chunk; x_start := 0;
     x_rem := length (skipn (x_start x) (x_bytes x) ++ chunk) |}.

Lemma x_tail_after x chunk : x_tail (x_after x chunk) = skipn (x_start x) (x_bytes x) ++ chunk.
Proof. unfold x_tail, x_after. cbn [x_bytes x_rem]. rewrite Nat.sub_diag. reflexivity. Qed.

Lemma x_inv_after x chunk : x_inv (x_after x chunk).
Proof. unfold x_inv, x_after. cbn [x_bytes x_rem x_start]. rewrite Nat.sub_diag. reflexivity. Qed.

Lemma x_wf_after x chunk : x_wf (x_after x chunk).
Proof. unfold x_wf, x_after. cbn [x_bytes x_rem]. apply le_n. Qed.

(* ---- helpers: one iteration of next_x_f ---- *)

Definition x_try (x : xbuf) (s : st) : pres :=
  if Nat.eqb (x_rem x) 0 then PNeed else packet (s_lim s) (skipn (x_start x) (x_bytes x)).

Lemma next_x_f_done f x s q p rest :
  x_try x s = PDone q p rest ->
  next_x_f (S f) x s =
    (ROk (Some (q, p)), {| x_bytes := x_bytes x; x_start := x_start x; x_rem := length rest |}, s).
Proof. unfold x_try. intros H. cbn [next_x_f]. rewrite H. reflexivity. Qed.

(* one read: some non-empty part of the first scripted chunk moves from the script to the buffer *)
Lemma next_x_f_read f x s b bs r :
  x_try x s = PNeed -> s_reads s = RdData (b :: bs) :: r ->
  exists chunk r' n,
    chunk <> [] /\ chunk ++ reads_data r' = (b :: bs) ++ reads_data r /\
    (all_data r -> all_data r') /\
    (script_size r' < script_size (RdData (b :: bs) :: r))%nat /\
    next_x_f (S f) x s = next_x_f f (x_after x chunk) (upd_trace (ERead n) (set_reads r' s)).
Proof.
  intros H Hr. unfold x_try in H. cbn [next_x_f]. rewrite H. unfold t_read_cap. rewrite Hr.
  cbv beta iota.
  set (e := length (skipn (x_start x) (x_bytes x))).
  remember (Nat.max 4096 (e * 2) - e)%nat as cap eqn:Hcap.
  assert (Hpos : (0 < cap)%nat) by (subst cap; lia).
  clear Hcap.
  destruct (Nat.leb_spec (length (b :: bs)) cap) as [Hle|Hgt].
  - exists (b :: bs), r, (Nlen (b :: bs)).
    split; [discriminate|]. split; [reflexivity|]. split; [auto|].
    split; [cbn [script_size]; lia|]. reflexivity.
  - destruct cap as [|c]; [lia|].
    exists (firstn (S c) (b :: bs)), (RdData (skipn (S c) (b :: bs)) :: r), (N.of_nat (S c)).
    split; [cbn [firstn]; discriminate|].
    split; [cbn [reads_data]; rewrite app_assoc, firstn_skipn; reflexivity|].
    split.
    { intros Hall. constructor; [|exact Hall].
      destruct (skipn (S c) (b :: bs)) eqn:E; [|exact I].
      apply (f_equal (@length _)) in E. rewrite skipn_length in E. cbn [length] in *. lia. }
    split.
    { cbn [script_size]. rewrite skipn_length. cbn [length] in *. lia. }
    cbn [firstn]. reflexivity.
Qed.

Lemma next_x_f_end_cut f x s :
  x_try x s = PNeed -> skipn (x_start x) (x_bytes x) <> [] -> s_reads s = [] ->
  exists x' s', next_x_f (S f) x s = (RErr EUnexpectedEof, x', s').
Proof.
  intros H Hb Hr. unfold x_try in H. cbn [next_x_f]. rewrite H. unfold t_read_cap. rewrite Hr.
  cbv beta iota. rewrite app_nil_r.
  destruct (skipn (x_start x) (x_bytes x)) as [|b0 bs0]; [congruence|].
  eexists. eexists. reflexivity.
Qed.

Lemma next_x_f_end_empty f x s :
  x_rem x = 0%nat -> skipn (x_start x) (x_bytes x) = [] -> s_reads s = [] ->
  next_x_f (S f) x s =
    (ROk None, {| x_bytes := []; x_start := 0; x_rem := 0 |}, upd_trace (ERead 0) s).
Proof.
  intros H1 H2 H3. cbn [next_x_f]. rewrite H1, H2. unfold t_read_cap. rewrite H3. reflexivity.
Qed.

Lemma reads_only_refl s : reads_only s s.
Proof.
  unfold reads_only. repeat (split; [reflexivity|]).
  exists []. split; [reflexivity|constructor].
Qed.

Lemma reads_only_step s n r s' :
  reads_only (upd_trace (ERead n) (set_reads r s)) s' -> reads_only s s'.
Proof.
  intros (H1 & H2 & H3 & H4 & H5 & H6 & H7 & H8 & evs & Hev & Hon).
  cbn [upd_trace set_reads s_fault s_lim s_tw s_seq s_cont s_park s_wops s_buf s_trace] in *.
  unfold reads_only. repeat (split; [assumption|]).
  exists (evs ++ [ERead n]). split.
  - rewrite <- app_assoc. exact Hev.
  - apply Forall_app. split; [exact Hon|]. constructor; [exact I|constructor].
Qed.

(* ---- the read loop on a complete frame, for any sufficient fuel ---- *)

Lemma next_x_f_frame q p rest : q < 256 ->
  forall fuel x s, x_inv x -> x_wf x ->
  0 < s_lim s -> s_lim s < 2 ^ 24 -> all_data (s_reads s) ->
  inbound_x x s = frame (s_lim s) q p ++ rest ->
  (script_size (s_reads s) < fuel)%nat ->
  exists x' s',
    next_x_f fuel x s = (ROk (Some (last_seq (s_lim s) q p, p)), x', s') /\
    x_wf x' /\ inbound_x x' s' = rest /\ all_data (s_reads s') /\ reads_only s s'.
Proof.
  intros Hq. induction fuel as [|f IH]; intros x s Hinv Hwf Hl Hl24 Hall Hin Hfuel; [lia|].
  pose proof (kept_tail x Hinv) as Hk.
  unfold inbound_x in Hin. pose proof Hin as Hin0.
  apply app_split in Hin. destruct Hin as [(l & Hb & Hrest)|(l & Hlne & Hcut & Hrd)].
  - (* the whole frame is buffered *)
    assert (Hp : packet (s_lim s) (x_tail x) = PDone (last_seq (s_lim s) q p) p l)
      by (rewrite Hb; apply packet_frame; assumption).
    assert (Hne : x_rem x <> 0%nat).
    { intros E. pose proof (x_tail_length x Hwf) as HL. rewrite E in HL.
      apply length_zero_iff_nil in HL. rewrite HL in Hp. rewrite packet_nil in Hp. discriminate. }
    eexists. exists s. split; [|split; [|split; [|split]]].
    + apply next_x_f_done. unfold x_try. rewrite Hk.
      destruct (Nat.eqb_spec (x_rem x) 0); [contradiction|]. exact Hp.
    + unfold x_wf. cbn [x_bytes x_rem].
      assert (HL : (length (x_tail x) <= length (x_bytes x))%nat)
        by (unfold x_tail; rewrite skipn_length; lia).
      rewrite Hb in HL. rewrite !app_length in HL. lia.
    + unfold inbound_x. rewrite <- Hrest. f_equal.
      apply (x_tail_suffix _ _
               (firstn (length (x_bytes x) - x_rem x) (x_bytes x) ++ frame (s_lim s) q p)).
      rewrite <- app_assoc, <- Hb. unfold x_tail. symmetry. apply firstn_skipn.
    + exact Hall.
    + apply reads_only_refl.
  - (* a strict prefix is buffered: one read, then the induction hypothesis *)
    assert (Hneed : x_try x s = PNeed).
    { unfold x_try. destruct (Nat.eqb (x_rem x) 0); [reflexivity|]. rewrite Hk.
      apply (packet_prefix (s_lim s) q p (x_tail x) l); auto. }
    remember (s_reads s) as reads eqn:Hr. symmetry in Hr. destruct reads as [|r0 r].
    + exfalso. cbn [reads_data] in Hrd. destruct l; [congruence|discriminate].
    + apply all_data_cons in Hall. destruct Hall as [(b & bs & ->) Hall].
      destruct (next_x_f_read f x s b bs r Hneed Hr)
        as (chunk & r' & n & Hc & Hdata & Hall' & Hsz & Hstep).
      rewrite Hstep.
      destruct (IH (x_after x chunk) (upd_trace (ERead n) (set_reads r' s)))
        as (x' & s' & Hn & Hwf' & Hin' & Hall'' & Hro).
      * apply x_inv_after.
      * apply x_wf_after.
      * exact Hl.
      * exact Hl24.
      * cbn [upd_trace set_reads s_reads]. auto.
      * unfold inbound_x. rewrite x_tail_after. cbn [upd_trace set_reads s_reads s_lim].
        rewrite Hk. rewrite <- app_assoc, Hdata. exact Hin0.
      * cbn [upd_trace set_reads s_reads]. lia.
      * exists x', s'. split; [exact Hn|]. split; [exact Hwf'|]. split; [exact Hin'|].
        split; [exact Hall''|]. apply (reads_only_step s n r' s' Hro).
Qed.

(* ---- the read loop on a stream that ends inside a frame ---- *)

Lemma next_x_f_truncated q p y : q < 256 -> y <> [] ->
  forall fuel x s, x_inv x -> x_wf x ->
  0 < s_lim s -> s_lim s < 2 ^ 24 -> all_data (s_reads s) ->
  inbound_x x s <> [] -> inbound_x x s ++ y = frame (s_lim s) q p ->
  (script_size (s_reads s) < fuel)%nat ->
  exists x' s', next_x_f fuel x s = (RErr EUnexpectedEof, x', s').
Proof.
  intros Hq Hy. induction fuel as [|f IH]; intros x s Hinv Hwf Hl Hl24 Hall Hne Heq Hfuel; [lia|].
  pose proof (kept_tail x Hinv) as Hk. unfold inbound_x in *.
  assert (Hneed : x_try x s = PNeed).
  { unfold x_try. destruct (Nat.eqb (x_rem x) 0); [reflexivity|]. rewrite Hk.
    apply (packet_prefix (s_lim s) q p (x_tail x) (reads_data (s_reads s) ++ y)); auto.
    - rewrite app_assoc. exact Heq.
    - intros E. apply app_eq_nil in E. destruct E as [_ E]. contradiction. }
  remember (s_reads s) as reads eqn:Hr. symmetry in Hr. destruct reads as [|r0 r].
  - cbn [reads_data] in *. rewrite app_nil_r in *.
    apply next_x_f_end_cut; [assumption| |assumption]. rewrite Hk. exact Hne.
  - apply all_data_cons in Hall. destruct Hall as [(b & bs & ->) Hall].
    destruct (next_x_f_read f x s b bs r Hneed Hr)
      as (chunk & r' & n & Hc & Hdata & Hall' & Hsz & Hstep).
    rewrite Hstep.
    apply (IH (x_after x chunk) (upd_trace (ERead n) (set_reads r' s))).
    + apply x_inv_after.
    + apply x_wf_after.
    + exact Hl.
    + exact Hl24.
    + cbn [upd_trace set_reads s_reads]. auto.
    + unfold inbound_x. rewrite x_tail_after. cbn [upd_trace set_reads s_reads].
      rewrite Hk. rewrite <- app_assoc, Hdata. exact Hne.
    + unfold inbound_x. rewrite x_tail_after. cbn [upd_trace set_reads s_reads s_lim].
      rewrite Hk. rewrite <- (app_assoc (x_tail x)), Hdata. exact Heq.
    + cbn [upd_trace set_reads s_reads]. lia.
Qed.

(* next_x first recomputes start = len - remaining *)
Definition x_norm (x : xbuf) : xbuf :=
  {| x_bytes := x_bytes x; x_start := (length (x_bytes x) - x_rem x)%nat; x_rem := x_rem x |}.

Lemma x_inv_norm x : x_inv (x_norm x).
Proof. reflexivity. Qed.

Theorem next_x_frame x s q p rest fuel :
  0 < s_lim s -> s_lim s < 2 ^ 24 -> q < 256 -> x_wf x ->
  all_data (s_reads s) ->
  inbound_x x s = frame (s_lim s) q p ++ rest ->
  (script_size (s_reads s) < fuel)%nat ->
  exists x' s',
    next_x fuel x s = (ROk (Some (last_seq (s_lim s) q p, p)), x', s') /\
    x_wf x' /\ inbound_x x' s' = rest /\ all_data (s_reads s') /\ reads_only s s'.
Proof.
  intros Hl Hl24 Hq Hwf Hall Hin Hfuel. unfold next_x.
  apply (next_x_f_frame q p rest Hq fuel (x_norm x) s (x_inv_norm x)); assumption.
Qed.

Theorem next_x_eof x s fuel :
  x_wf x -> all_data (s_reads s) -> inbound_x x s = [] -> (script_size (s_reads s) < fuel)%nat ->
  exists x' s', next_x fuel x s = (ROk None, x', s') /\ x_tail x' = [] /\ s_reads s' = [].
Proof.
  intros Hwf Hall Hin Hfuel. unfold inbound_x in Hin. apply app_eq_nil in Hin.
  destruct Hin as [Ht Hrd].
  assert (Hr : s_reads s = []).
  { destruct (s_reads s) as [|r l]; [reflexivity|]. exfalso.
    apply all_data_cons in Hall. destruct Hall as [(b & bs & ->) _].
    cbn [reads_data app] in Hrd. discriminate. }
  destruct fuel as [|f]; [lia|].
  assert (Hrem : x_rem x = 0%nat) by (rewrite <- (x_tail_length x Hwf), Ht; reflexivity).
  change (next_x (S f) x s) with (next_x_f (S f) (x_norm x) s).
  rewrite (next_x_f_end_empty f (x_norm x) s Hrem Ht Hr).
  eexists. eexists. split; [reflexivity|]. split; [reflexivity|exact Hr].
Qed.

Theorem next_x_truncated x s q p a b fuel :
  0 < s_lim s -> s_lim s < 2 ^ 24 -> q < 256 -> x_wf x ->
  all_data (s_reads s) ->
  inbound_x x s = a -> a <> [] -> b <> [] -> a ++ b = frame (s_lim s) q p ->
  (script_size (s_reads s) < fuel)%nat ->
  exists x' s', next_x fuel x s = (RErr EUnexpectedEof, x', s').
Proof.
  intros Hl Hl24 Hq Hwf Hall Hin Ha Hb Heq Hfuel. subst a. unfold next_x.
  apply (next_x_f_truncated q p b Hq Hb fuel (x_norm x) s (x_inv_norm x)); assumption.
Qed.

Print Assumptions next_x_frame.
Print Assumptions next_x_eof.
Print Assumptions next_x_truncated.
