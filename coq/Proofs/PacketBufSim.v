(* The exact buffer bookkeeping of PacketConn::next (Model/PacketBuf.v) SIMULATES the abstract one
   (Model/Packet.v, [next_f] over the unconsumed tail [s_buf]) step for step, for every read script —
   data, end of stream and transport errors alike — as long as no scripted chunk is larger than the
   spare capacity the buffer always offers (max(4096, 2e) - e >= 2048): same result, same trace, same
   remaining script, and the abstract buffer is exactly the exact buffer's unconsumed tail.  Every
   theorem about [next_f] therefore transfers to the exact bookkeeping. *)
From MsqlVerif Require Import Model.Packet Model.PacketBuf Proofs.BaseLemmas Proofs.PacketRead Proofs.PacketBufRefine.
From Coq Require Import Lia.
Open Scope N_scope.

Definition small_rd (r : rd) : Prop :=
  match r with RdData bs => (length bs <= 2048)%nat | _ => True end.
Definition small_reads (l : list rd) : Prop := Forall small_rd l.

(* ---- helpers: the state record ---- *)

Lemma set_buf_id s : set_buf (s_buf s) s = s.
Proof. destruct s; reflexivity. Qed.

Lemma set_buf_set_buf b b' s : set_buf b (set_buf b' s) = set_buf b s.
Proof. reflexivity. Qed.

Lemma set_buf_upd_trace b e s : set_buf b (upd_trace e s) = upd_trace e (set_buf b s).
Proof. reflexivity. Qed.

Lemma set_buf_set_reads b r s : set_buf b (set_reads r s) = set_reads r (set_buf b s).
Proof. reflexivity. Qed.

Lemma s_buf_set_buf b s : s_buf (set_buf b s) = b.
Proof. reflexivity. Qed.

Lemma s_lim_set_buf b s : s_lim (set_buf b s) = s_lim s.
Proof. reflexivity. Qed.

Lemma s_reads_set_buf b s : s_reads (set_buf b s) = s_reads s.
Proof. reflexivity. Qed.

(* ---- helpers: the transport read ---- *)

(* the abstract read neither looks at nor touches the inbound buffer *)
Lemma t_read_set_buf b s :
  t_read (set_buf b s) = (fst (t_read s), set_buf b (snd (t_read s))).
Proof.
  unfold t_read. rewrite s_reads_set_buf.
  destruct (s_reads s) as [|[bs| |k] r]; reflexivity.
Qed.

Lemma t_read_cap_small cap s :
  small_reads (s_reads s) -> (2048 <= cap)%nat -> t_read_cap cap s = t_read s.
Proof.
  intros Hs Hcap. unfold t_read_cap, t_read. revert Hs.
  destruct (s_reads s) as [|[bs| |k] r]; intros Hs; try reflexivity.
  inversion Hs as [|? ? Hbs Hr]; subst. cbn [small_rd] in Hbs.
  destruct (Nat.leb_spec (length bs) cap) as [Hle|Hgt]; [reflexivity|lia].
Qed.

Lemma t_read_small s :
  small_reads (s_reads s) ->
  small_reads (s_reads (snd (t_read s))) /\ (forall p, fst (t_read s) <> RPanic p).
Proof.
  intros Hs. unfold t_read. remember (s_reads s) as l eqn:El.
  destruct l as [|[bs| |k] r]; cbn [fst snd upd_trace set_reads s_reads];
    (split; [|discriminate]); try (rewrite <- El; exact Hs); inversion Hs; assumption.
Qed.

Lemma spare_cap e : (2048 <= Nat.max 4096 (e * 2) - e)%nat.
Proof. lia. Qed.

(* ---- helpers: the rest returned by packet() is a suffix of its input ---- *)

Lemma take_cnt_suffix l n body rest : take_cnt l n = Some (body, rest) -> l = body ++ rest.
Proof.
  rewrite take_cnt_spec. destruct (n <=? Nlen l); [|discriminate].
  intros H. injection H as H1 H2. subst body rest. symmetry. apply firstn_skipn.
Qed.

Lemma try_full_suffix lim i q body rest :
  try_full lim i = Some (q, body, rest) -> exists pre, i = pre ++ rest.
Proof.
  unfold try_full. destruct i as [|a [|b [|c [|q0 r]]]]; try discriminate.
  destruct (bytes_eqb _ _); [|discriminate].
  destruct (take_cnt r lim) as [[bd rs]|] eqn:E; [|discriminate].
  intros H. injection H as H1 H2 H3. subst. apply take_cnt_suffix in E.
  exists (a :: b :: c :: q0 :: body). rewrite E. reflexivity.
Qed.

Lemma try_one_suffix i q body rest :
  try_one i = Some (q, body, rest) -> exists pre, i = pre ++ rest.
Proof.
  unfold try_one. destruct i as [|a [|b [|c [|q0 r]]]]; try discriminate.
  destruct (take_cnt r _) as [[bd rs]|] eqn:E; [|discriminate].
  intros H. injection H as H1 H2 H3. subst. apply take_cnt_suffix in E.
  exists (a :: b :: c :: q0 :: body). rewrite E. reflexivity.
Qed.

Lemma packet_f_suffix fuel : forall lim acc ok i q p rest,
  packet_f fuel lim acc ok i = PDone q p rest -> exists pre, i = pre ++ rest.
Proof.
  induction fuel as [|f IH]; intros lim acc ok i q p rest H; [discriminate|].
  cbn [packet_f] in H.
  destruct (try_full lim i) as [[[q1 body] rest1]|] eqn:Ef.
  - destruct (try_full_suffix _ _ _ _ _ Ef) as (pre1 & E1).
    assert (Hrec : exists pre, rest1 = pre ++ rest).
    { destruct acc as [[q0 p0]|]; eapply IH; exact H. }
    destruct Hrec as (pre2 & E2). exists (pre1 ++ pre2). rewrite <- app_assoc, <- E2. exact E1.
  - destruct (try_one i) as [[[q1 body] rest1]|] eqn:Eo; [|discriminate].
    destruct (try_one_suffix _ _ _ _ Eo) as (pre1 & E1).
    assert (rest1 = rest) as <-.
    { destruct acc as [[q0 p0]|]; [destruct (_ && _); [|discriminate]|];
        injection H as _ _ H3; exact H3. }
    exists pre1. exact E1.
Qed.

Lemma packet_suffix lim i q p rest : packet lim i = PDone q p rest -> exists pre, i = pre ++ rest.
Proof. unfold packet. apply packet_f_suffix. Qed.

(* ---- the simulation of the loop, under the loop invariant ---- *)

Lemma next_x_f_simulates : forall fuel x s,
  x_inv x -> x_wf x -> small_reads (s_reads s) ->
  exists r x' s',
    next_x_f fuel x s = (r, x', s') /\
    x_wf x' /\ small_reads (s_reads s') /\
    next_f fuel (set_buf (x_tail x) s) = (r, set_buf (x_tail x') s').
Proof.
  induction fuel as [|f IH]; intros x s Hinv Hwf Hs.
  { exists (RPanic POutOfFuel), x, s. repeat split; assumption. }
  pose proof (kept_tail x Hinv) as Hk.
  pose proof (x_tail_length x Hwf) as Hlen.
  rewrite next_f_S. rewrite s_lim_set_buf, s_buf_set_buf.
  cbn [next_x_f]. rewrite Hk.
  assert (Htry : (if Nat.eqb (x_rem x) 0 then PNeed else packet (s_lim s) (x_tail x))
                 = packet (s_lim s) (x_tail x)).
  { destruct (Nat.eqb_spec (x_rem x) 0) as [E|E]; [|reflexivity].
    rewrite E in Hlen. apply length_zero_iff_nil in Hlen. rewrite Hlen. reflexivity. }
  rewrite Htry. clear Htry.
  destruct (packet (s_lim s) (x_tail x)) as [q p rest| | |] eqn:Ep.
  - (* a whole packet is buffered *)
    destruct (packet_suffix _ _ _ _ _ Ep) as (pre & Epre).
    assert (Ebytes : x_bytes x = (firstn (length (x_bytes x) - x_rem x) (x_bytes x) ++ pre) ++ rest).
    { rewrite <- app_assoc, <- Epre. unfold x_tail. symmetry. apply firstn_skipn. }
    eexists. eexists. exists s. split; [reflexivity|].
    split.
    { unfold x_wf. cbn [x_bytes x_rem].
      pose proof (f_equal (@length _) Ebytes) as HL. rewrite app_length in HL. lia. }
    split; [exact Hs|].
    rewrite (x_tail_suffix _ _ _ _ Ebytes). reflexivity.
  - (* more bytes are needed: one read *)
    rewrite (t_read_cap_small _ s Hs (spare_cap _)).
    rewrite t_read_set_buf.
    destruct (t_read_small s Hs) as [Hs1 Hnp].
    destruct (t_read s) as [r1 s1] eqn:Er. cbn [fst snd] in *.
    destruct r1 as [chunk|e|pn].
    + rewrite s_buf_set_buf, set_buf_set_buf.
      destruct chunk as [|c cs].
      * (* end of stream *)
        rewrite s_buf_set_buf.
        assert (Et : forall b, x_tail {| x_bytes := b; x_start := 0; x_rem := length b |} = b).
        { intros b. unfold x_tail. cbn [x_bytes x_rem]. rewrite Nat.sub_diag. reflexivity. }
        destruct (x_tail x ++ []) as [|b0 bs0] eqn:Eb.
        -- eexists. eexists. exists s1. split; [reflexivity|].
           split; [unfold x_wf; cbn [x_bytes x_rem]; lia|]. split; [exact Hs1|].
           rewrite Et. reflexivity.
        -- eexists. eexists. exists s1. split; [reflexivity|].
           split; [unfold x_wf; cbn [x_bytes x_rem]; lia|]. split; [exact Hs1|].
           rewrite Et. reflexivity.
      * (* a non-empty chunk: the induction hypothesis *)
        set (x1 := {| x_bytes := x_tail x ++ c :: cs; x_start := 0;
                      x_rem := length (x_tail x ++ c :: cs) |}).
        assert (Et : x_tail x1 = x_tail x ++ c :: cs).
        { unfold x_tail, x1. cbn [x_bytes x_rem]. rewrite Nat.sub_diag. reflexivity. }
        destruct (IH x1 s1) as (r & x' & s' & Hn & Hwf' & Hs' & Hf).
        { unfold x_inv, x1. cbn [x_bytes x_rem x_start]. rewrite Nat.sub_diag. reflexivity. }
        { unfold x_wf, x1. cbn [x_bytes x_rem]. lia. }
        { exact Hs1. }
        exists r, x', s'. split; [exact Hn|]. split; [exact Hwf'|]. split; [exact Hs'|].
        rewrite ?s_buf_set_buf. rewrite <- Et. exact Hf.
    + (* transport error *)
      eexists. eexists. exists s1. split; [reflexivity|].
      split; [unfold x_wf; cbn [x_bytes x_rem]; lia|]. split; [exact Hs1|].
      f_equal. f_equal. unfold x_tail at 2. cbn [x_bytes x_rem].
      rewrite Hlen, Nat.sub_diag. reflexivity.
    + exfalso. exact (Hnp pn eq_refl).
  - (* out-of-order fragment ids *)
    exists (RErr EInvalidData), x, s. repeat split; assumption.
  - exists (RPanic POutOfFuel), x, s. repeat split; assumption.
Qed.

Theorem next_x_simulates : forall fuel x s,
  x_wf x -> small_reads (s_reads s) -> s_buf s = x_tail x ->
  exists r x' s',
    next_x fuel x s = (r, x', s') /\
    x_wf x' /\ small_reads (s_reads s') /\
    next_f fuel s = (r, set_buf (x_tail x') s').
Proof.
  intros fuel x s Hwf Hs Hb.
  destruct (next_x_f_simulates fuel (x_norm x) s (x_inv_norm x)) as (r & x' & s' & Hn & Hwf' & Hs' & Hf).
  { exact Hwf. }
  { exact Hs. }
  exists r, x', s'. split; [exact Hn|]. split; [exact Hwf'|]. split; [exact Hs'|].
  change (x_tail (x_norm x)) with (x_tail x) in Hf. rewrite <- Hb, set_buf_id in Hf. exact Hf.
Qed.

(* non-vacuity: a concrete exact-buffer state with a partial packet pending *)
Example sim_applies :
  let x := {| x_bytes := ["005"; "000"; "000"; "000"; "003"]%byte; x_start := 0; x_rem := 5 |} in
  x_wf x /\ small_reads [RdData ["a"; "b"; "c"; "d"]%byte; RdEof].
Proof. split; [unfold x_wf; simpl; lia | repeat constructor; simpl; lia]. Qed.

Print Assumptions next_x_simulates.
