(* The run loop of Model/Server.v (next -> set_seq -> parse -> handle -> flush, over PacketConn)
   refines the pure conversation semantics of Spec/AbsServer.v on a fault-free transport, for
   every conversation and every chunking of the client stream.  The trace it leaves has the shape
   [reads; callbacks and reply packets; flush] per command.  Proofs only; statements fixed. *)
From MsqlVerif Require Import Model.Server Spec.Frame Spec.Render Spec.AbsServer
  Proofs.BaseLemmas Proofs.PacketWrite Proofs.PacketRead Proofs.RunRender.
From Coq Require Import Lia.
Open Scope N_scope.

(* chronological event lists *)
Definition body_events (evs : list event) : Prop :=
  Forall (fun e => match e with ECall _ | EWrite _ | EApi None => True | _ => False end) evs.
Fixpoint calls_of (evs : list event) : list call :=
  match evs with [] => [] | ECall c :: r => c :: calls_of r | _ :: r => calls_of r end.
Fixpoint writes_of (evs : list event) : list bytes :=
  match evs with [] => [] | EWrite b :: r => b :: writes_of r | _ :: r => writes_of r end.

(* trace of a served conversation: per command, reads (as many as the chunking needs), then the
   callbacks and the reply packets -- sequence ids continuing the request's last id -- then a flush *)
Inductive conv_trace (lim : N) : list (N * bytes) -> list areply -> list event -> Prop :=
  | CT_nil : conv_trace lim [] [] []
  | CT_cons : forall q p cmds rep reps rd body tr,
      only_reads rd -> body_events body ->
      calls_of body = a_calls rep ->
      writes_of body = frame_all_pkts lim ((last_seq lim q p + 1) mod 256) (a_msgs rep) ->
      conv_trace lim cmds reps tr ->
      conv_trace lim ((q, p) :: cmds) (rep :: reps) (rd ++ body ++ EFlush :: tr).

Definition wf_conn (s : st) : Prop := clean s /\ s_lim s < 2 ^ 24 /\ all_data (s_reads s).


(* ====================================================================================== *)
(* helper lemmas                                                                           *)
(* ====================================================================================== *)

(* ---- chronological event lists ---- *)

Lemma calls_of_app a b : calls_of (a ++ b) = calls_of a ++ calls_of b.
Proof.
  induction a as [|e a IH]; [reflexivity|].
  destruct e; cbn [app calls_of]; rewrite ?IH; reflexivity.
Qed.
Lemma writes_of_app a b : writes_of (a ++ b) = writes_of a ++ writes_of b.
Proof.
  induction a as [|e a IH]; [reflexivity|].
  destruct e; cbn [app writes_of]; rewrite ?IH; reflexivity.
Qed.
Lemma body_events_app a b : body_events a -> body_events b -> body_events (a ++ b).
Proof. unfold body_events. intros Ha Hb. apply Forall_app. split; assumption. Qed.

Lemma only_reads_calls rd : only_reads rd -> calls_of rd = [].
Proof.
  induction 1 as [|e l He _ IH]; [reflexivity|].
  destruct e; try contradiction. cbn [calls_of]. exact IH.
Qed.
Lemma only_reads_app a b : only_reads a -> only_reads b -> only_reads (a ++ b).
Proof. unfold only_reads. intros Ha Hb. apply Forall_app. split; assumption. Qed.

Lemma writes_of_written_rev l : writes_of l = written_rev l.
Proof.
  induction l as [|e l IH]; [reflexivity|].
  destruct e; cbn [writes_of written_rev]; rewrite ?IH; reflexivity.
Qed.
Lemma writes_of_rev l : writes_of (rev l) = rev (writes_of l).
Proof.
  induction l as [|e l IH]; [reflexivity|].
  cbn [rev]. rewrite writes_of_app, IH.
  destruct e; cbn [writes_of rev]; rewrite ?app_nil_r; reflexivity.
Qed.
Lemma quiet_body evs : quiet_events evs -> body_events evs.
Proof.
  unfold quiet_events, body_events. apply Forall_impl.
  intros e He. destruct e; try contradiction; exact He.
Qed.
Lemma quiet_calls evs : quiet_events evs -> calls_of evs = [].
Proof.
  induction 1 as [|e l He _ IH]; [reflexivity|].
  destruct e; try contradiction; cbn [calls_of]; exact IH.
Qed.
Lemma quiet_rev evs : quiet_events evs -> quiet_events (rev evs).
Proof. unfold quiet_events. apply Forall_rev. Qed.

(* ---- the outcome of a successful segment of a callback: callbacks logged, messages sent ---- *)

Definition hpost (s : st) (calls : list call) (msgs : list bytes) (s' : st) : Prop :=
  clean s' /\ s_reads s' = s_reads s /\ s_lim s' = s_lim s /\ s_buf s' = s_buf s /\
  s_seq s' = seq_after (s_lim s) (s_seq s) msgs /\
  exists body, s_trace s' = rev body ++ s_trace s /\ body_events body /\ calls_of body = calls /\
               writes_of body = frame_all_pkts (s_lim s) (s_seq s) msgs.

Lemma hpost_nil s : clean s -> hpost s [] [] s.
Proof.
  intro H. unfold hpost. refine (conj H (conj eq_refl (conj eq_refl (conj eq_refl (conj eq_refl _))))).
  exists []. repeat split. constructor.
Qed.

Lemma hpost_trans s s1 s2 c1 c2 m1 m2 :
  hpost s c1 m1 s1 -> hpost s1 c2 m2 s2 -> hpost s (c1 ++ c2) (m1 ++ m2) s2.
Proof.
  intros (_ & R1 & L1 & B1 & Q1 & b1 & T1 & E1 & Ca1 & W1)
         (C2 & R2 & L2 & B2 & Q2 & b2 & T2 & E2 & Ca2 & W2).
  rewrite L1, Q1 in Q2, W2.
  unfold hpost. refine (conj C2 (conj _ (conj _ (conj _ (conj _ _))))); try congruence.
  - rewrite seq_after_app. exact Q2.
  - exists (b1 ++ b2). split; [|split; [|split]].
    + rewrite T2, T1, rev_app_distr, app_assoc. reflexivity.
    + apply body_events_app; assumption.
    + rewrite calls_of_app, Ca1, Ca2. reflexivity.
    + rewrite writes_of_app, W1, W2, frame_all_pkts_app. reflexivity.
Qed.

Lemma post_hpost s msgs s' : post s msgs s' -> hpost s [] msgs s'.
Proof.
  intros (C & (R & _ & L & B & _ & evs & T & Qv & W) & Q).
  unfold hpost. refine (conj C (conj R (conj L (conj B (conj Q _))))).
  exists (rev evs). split; [|split; [|split]].
  - rewrite rev_involutive. exact T.
  - apply quiet_body, quiet_rev, Qv.
  - apply quiet_calls, quiet_rev, Qv.
  - rewrite writes_of_rev, writes_of_written_rev. exact W.
Qed.

Lemma hpost_event e s :
  match e with ECall _ | EApi None => True | _ => False end -> clean s ->
  hpost s (calls_of [e]) [] (upd_trace e s).
Proof.
  intros He H. unfold hpost. cbn [upd_trace s_reads s_lim s_buf s_seq s_trace seq_after].
  refine (conj H (conj eq_refl (conj eq_refl (conj eq_refl (conj eq_refl _))))).
  exists [e]. split; [reflexivity|]. split; [|split; [reflexivity|]].
  - constructor; [|constructor]. destruct e; try contradiction; exact He.
  - destruct e; try contradiction; reflexivity.
Qed.

(* [m] run from [s] succeeds with [a], logging exactly [calls] and sending exactly [msgs] *)
Definition Runs {A} (m : M A) (s : st) (a : A) (calls : list call) (msgs : list bytes) : Prop :=
  exists s', m s = (ROk a, s') /\ hpost s calls msgs s'.

Lemma Runs_eq {A} (m : M A) s a c c' ms ms' :
  Runs m s a c ms -> c = c' -> ms = ms' -> Runs m s a c' ms'.
Proof. intros H <- <-. exact H. Qed.

Lemma Runs_bind {A B} (m : M A) (f : A -> M B) s a b c1 c2 m1 m2 :
  Runs m s a c1 m1 -> (forall s1, clean s1 -> Runs (f a) s1 b c2 m2) ->
  Runs (bind m f) s b (c1 ++ c2) (m1 ++ m2).
Proof.
  intros (s1 & Hm & P1) Hf. pose proof P1 as (C1 & _).
  destruct (Hf s1 C1) as (s2 & Hf2 & P2).
  exists s2. split; [rewrite (bind_ok _ _ _ _ _ Hm); exact Hf2|].
  exact (hpost_trans _ _ _ _ _ _ _ P1 P2).
Qed.

Lemma Runs_ret {A} (a : A) s : clean s -> Runs (ret a) s a [] [].
Proof. intro H. exists s. split; [reflexivity | apply hpost_nil; exact H]. Qed.

Lemma Runs_log_call c s : clean s -> Runs (log_call c) s tt [c] [].
Proof.
  intro H. exists (upd_trace (ECall c) s). split; [reflexivity|].
  apply (hpost_event (ECall c) s I H).
Qed.

Lemma Runs_post (m : M unit) s msgs :
  (exists s', m s = (ROk tt, s') /\ post s msgs s') -> Runs m s tt [] msgs.
Proof. intros (s' & Hm & P). exists s'. split; [exact Hm | apply post_hpost; exact P]. Qed.

Lemma Runs_run_q errtab quiet q p msgs s :
  clean s -> pm_q errtab (q_bin q) (q_last q) p = Some msgs ->
  Runs (run_q errtab quiet q p) s tt [] msgs.
Proof.
  intros Hc Hp. apply Runs_post.
  destruct (run_q_render errtab quiet q p msgs s Hc Hp) as (s' & Hrun & Hc' & Hs & Hq).
  exists s'. split; [exact Hrun|]. exact (conj Hc' (conj Hs Hq)).
Qed.

Lemma Runs_send_all msgs s :
  clean s -> Forall (fun m => m <> []) msgs -> Runs (send_all msgs) s tt [] msgs.
Proof. intros Hc Hall. apply Runs_post. apply send_all_post; assumption. Qed.

Lemma Runs_send m s : clean s -> m <> [] -> Runs (send m) s tt [] [m].
Proof. intros Hc Hm. apply Runs_post. apply send_post; assumption. Qed.

Lemma Runs_write_err errtab code msg e s :
  clean s -> err_msg_of errtab code msg = Some e -> Runs (write_err errtab code msg) s tt [] [e].
Proof. intros Hc He. apply Runs_post. apply L_write_err; assumption. Qed.

Lemma Runs_api_ret (m : M unit) s c msgs :
  Runs m s tt c msgs -> Runs (api_ret m) s tt c msgs.
Proof.
  intros (s1 & Hm & P). pose proof P as (C1 & _).
  exists (upd_trace (EApi None) s1). split.
  - unfold api_ret. rewrite (bind_ok _ _ _ _ _ (attempt_ok _ _ _ _ Hm)). reflexivity.
  - rewrite <- (app_nil_r c), <- (app_nil_r msgs).
    exact (hpost_trans _ _ _ _ _ _ _ P (hpost_event (EApi None) s1 I C1)).
Qed.


(* ---- non-empty messages ---- *)

Lemma prepare_ok_body_ne id a b : prepare_ok_body id a b <> [].
Proof. unfold prepare_ok_body. discriminate. Qed.
Lemma coldefs_msgs_ne cs fl oe : Forall (fun m => m <> []) (coldefs_msgs cs fl oe).
Proof.
  unfold coldefs_msgs. apply Forall_app. split.
  - apply Forall_map. apply Forall_forall. intros c _. apply coldef_body_ne.
  - destruct cs; [destruct oe|]; repeat constructor; apply eof_body_ne.
Qed.
Lemma prepare_ok_msgs_ne id params cols : Forall (fun m => m <> []) (prepare_ok_msgs id params cols).
Proof.
  unfold prepare_ok_msgs. constructor; [apply prepare_ok_body_ne|].
  apply Forall_app. split; apply coldefs_msgs_ne.
Qed.

(* goal-directed decomposition of a callback body into its segments *)
Ltac runs :=
  lazymatch goal with
  | |- Runs (bind _ _) _ _ _ _ =>
      eapply Runs_bind;
      [ runs
      | let s1 := fresh "s" in let H1 := fresh "Hc" in intros s1 H1; cbv beta iota zeta; runs ]
  | |- Runs (ret _) _ _ _ _ => apply Runs_ret; assumption
  | |- Runs (ret_tag None) _ _ _ _ => apply (Runs_ret tt); assumption
  | |- Runs (log_call _) _ _ _ _ => apply Runs_log_call; assumption
  | |- Runs (api_ret _) _ _ _ _ => apply Runs_api_ret; runs
  | |- Runs (send _) _ _ _ _ =>
      apply Runs_send; [assumption | first [apply ok_body_ne | apply err_body_ne]]
  | |- Runs (send_all _) _ _ _ _ =>
      apply Runs_send_all; [assumption | first [apply prepare_ok_msgs_ne | apply coldefs_msgs_ne]]
  | |- Runs (write_err _ _ _) _ _ _ _ => eapply Runs_write_err; [assumption | eassumption]
  | |- Runs (run_q _ _ _ _) _ _ _ _ => eapply Runs_run_q; [assumption | eassumption]
  | |- _ => idtac
  end.
Ltac lists := cbn [app a_calls a_msgs]; rewrite ?app_nil_r; reflexivity.

Section WithOracles.
Variable fpext : N -> N.
Variable fptrunc : N -> N.
Variable errtab : N -> option (N * bytes).

(* ---- parameters: pull_params only logs what abs_pull computes ---- *)

Lemma Runs_pull_params fuel : forall n convs p cs p' s,
  abs_pull fpext fptrunc fuel n convs p = Some (cs, p') -> clean s ->
  Runs (pull_params fpext fptrunc fuel n convs p) s p' cs [].
Proof.
  induction fuel as [|f IH]; intros n convs p cs p' s H Hc.
  - cbn [abs_pull] in H. injection H as <- <-. cbn [pull_params]. apply Runs_ret; exact Hc.
  - cbn [abs_pull pull_params] in H |- *.
    destruct n as [[|m]|];
      [ injection H as <- <-; apply Runs_ret; exact Hc | | ];
      (destruct (params_next fpext p) as [[[[ct v]|] p1]|e|site]; try discriminate;
       [ | injection H as <- <-; apply Runs_ret; exact Hc ];
       destruct (convert fptrunc match convs with [] => KNone | k :: _ => k end v) as [r|e|site];
         try discriminate;
       match type of H with
       | match abs_pull _ _ ?f' ?n' ?c' ?q' with _ => _ end = _ =>
           destruct (abs_pull fpext fptrunc f' n' c' q') as [[cs1 p2]|] eqn:E; try discriminate
       end;
       injection H as <- <-;
       destruct r as [x|];
       (eapply Runs_eq;
        [ eapply Runs_bind; [apply Runs_log_call; exact Hc|]; intros s1 Hc1;
          eapply Runs_bind;
          [ first [apply Runs_log_call | apply (Runs_ret tt)]; exact Hc1 |];
          intros s2 Hc2; apply (IH _ _ _ _ _ _ E Hc2)
        | reflexivity
        | reflexivity ])).
Qed.

(* ---- the callbacks ---- *)

Lemma init_refines schema st sc rep ss' s :
  abs_init errtab schema (st, sc) = Some (rep, ss') -> clean s ->
  Runs (on_init errtab schema (st, sc)) s ss' (a_calls rep) (a_msgs rep).
Proof.
  unfold abs_init, on_init. destruct (pop_i sc) as [[prog tag] sc'].
  destruct tag as [t|]; cbn [no_tag negb]; [discriminate|].
  intros H Hc. destruct prog as [|code msg| |].
  - injection H as <- <-. eapply Runs_eq; [runs | lists | lists].
  - destruct (err_msg_of errtab code msg) as [e|] eqn:E; [|discriminate].
    injection H as <- <-. eapply Runs_eq; [runs | lists | lists].
  - injection H as <- <-. eapply Runs_eq; [runs | lists | lists].
  - injection H as <- <-. eapply Runs_eq; [runs | lists | lists].
Qed.

Lemma query_refines q st sc rep ss' s :
  abs_handle fpext fptrunc errtab (CmdQuery q) (st, sc) = Some (rep, ss') -> clean s ->
  Runs (handle fpext fptrunc errtab (CmdQuery q) (st, sc)) s ss' (a_calls rep) (a_msgs rep).
Proof.
  unfold abs_handle, handle. intros H Hc.
  destruct (is_prefix sel_upper q || is_prefix sel_lower q).
  - destruct (bytes_eqb (skipn 9 q) max_allowed_packet);
      (destruct (pm_q errtab false None _) as [msgs|] eqn:E in H; [|discriminate]);
      injection H as <- <-; (eapply Runs_eq; [runs | lists | lists]).
  - destruct (is_prefix use_upper q || is_prefix use_lower q).
    + destruct (utf8_valid (skipn 4 q)); [|discriminate].
      apply init_refines; assumption.
    + destruct (utf8_valid q); [|discriminate].
      unfold on_query. destruct (pop_q sc) as [[prog tag] sc'].
      destruct tag as [t|]; cbn [no_tag negb] in H; [discriminate|].
      destruct (pm_q errtab false None prog) as [msgs|] eqn:E; [|discriminate].
      injection H as <- <-. eapply Runs_eq; [runs | lists | lists].
Qed.

Lemma prepare_refines q st sc rep ss' s :
  abs_handle fpext fptrunc errtab (CmdPrepare q) (st, sc) = Some (rep, ss') -> clean s ->
  Runs (handle fpext fptrunc errtab (CmdPrepare q) (st, sc)) s ss' (a_calls rep) (a_msgs rep).
Proof.
  unfold abs_handle, handle. intros H Hc.
  destruct (utf8_valid q); [|discriminate].
  unfold on_prepare. destruct (pop_p sc) as [[prog tag] sc'].
  destruct tag as [t|]; cbn [no_tag negb] in H; [discriminate|].
  destruct prog as [id params cols|code msg|].
  - injection H as <- <-. eapply Runs_eq; [runs | lists | lists].
  - destruct (err_msg_of errtab code msg) as [e|] eqn:E; [|discriminate].
    injection H as <- <-. eapply Runs_eq; [runs | lists | lists].
  - injection H as <- <-. eapply Runs_eq; [runs | lists | lists].
Qed.

Lemma execute_refines id params st sc rep ss' s :
  abs_handle fpext fptrunc errtab (CmdExecute id params) (st, sc) = Some (rep, ss') -> clean s ->
  Runs (handle fpext fptrunc errtab (CmdExecute id params) (st, sc)) s ss' (a_calls rep) (a_msgs rep).
Proof.
  unfold abs_handle, handle. intros H Hc.
  destruct (lookup id st) as [sd|]; [|discriminate].
  destruct (params_valid fpext sd params); cbn [negb] in H |- *; [|discriminate].
  unfold on_execute. destruct (pop_x sc) as [x sc'].
  destruct (x_ret x) as [t|] eqn:Et; cbn [no_tag negb] in H; [discriminate|].
  cbv zeta in H.
  destruct (abs_pull fpext fptrunc _ _ _ _) as [[cs p]|] eqn:Ep in H; [|discriminate].
  destruct (pm_q errtab true None (x_prog x)) as [msgs|] eqn:E; [|discriminate].
  injection H as <- <-. eapply Runs_eq; [runs | | ];
    [ apply (Runs_pull_params _ _ _ _ cs p); [exact Ep | assumption] | lists | lists ].
Qed.

Theorem handle_refines cmd ss0 rep ss' s :
  abs_handle fpext fptrunc errtab cmd ss0 = Some (rep, ss') -> clean s ->
  Runs (handle fpext fptrunc errtab cmd ss0) s ss' (a_calls rep) (a_msgs rep).
Proof.
  destruct ss0 as [st sc]. destruct cmd as [q|a|schema|q|id params|id param data|id| |].
  - apply query_refines.
  - unfold abs_handle, handle. intros H Hc. injection H as <- <-.
    eapply Runs_eq; [runs | lists | lists].
  - unfold abs_handle, handle. intros H Hc.
    destruct (utf8_valid schema); [|discriminate]. apply init_refines; assumption.
  - apply prepare_refines.
  - apply execute_refines.
  - unfold abs_handle, handle. intros H Hc.
    destruct (lookup id st) as [sd|]; [|discriminate]. injection H as <- <-.
    apply Runs_ret; exact Hc.
  - unfold abs_handle, handle. intros H Hc. injection H as <- <-.
    eapply Runs_eq; [runs | lists | lists].
  - unfold abs_handle. discriminate.
  - unfold abs_handle, handle. intros H Hc. injection H as <- <-.
    eapply Runs_eq; [runs | lists | lists].
Qed.

(* ---- flush on a clean connection ---- *)

Lemma flush_clean s : clean s ->
  flush s = (ROk tt, upd_trace EFlush (set_wops (S (s_wops s)) s)).
Proof.
  intros (Hf & _ & _ & Ht & Hcn & Hp).
  unfold flush. rewrite Hp. unfold bind, end_packet. rewrite Ht, Hcn.
  cbn [Nlen length N.of_nat N.eqb negb andb]. unfold t_flush. rewrite Hf. reflexivity.
Qed.

(* ---- one iteration of the loop ---- *)

Lemma run_f_S f ss0 s :
  run_f fpext fptrunc errtab (S f) ss0 s =
    (r <- next ;;
     match r with
     | None => ret tt
     | Some (q, pkt) =>
         set_seq ((q + 1) mod 256) ;;;
         match parse pkt with
         | None => fail EInvalidData
         | Some CmdQuit => ret tt
         | Some cmd => s' <- handle fpext fptrunc errtab cmd ss0 ;; flush ;;; run_f fpext fptrunc errtab f s'
         end
     end) s.
Proof. reflexivity. Qed.

Lemma set_seq_bind {A} x (k : M A) s : (set_seq x ;;; k) s = k (set_seq_cont x (s_cont s) s).
Proof. reflexivity. Qed.

Lemma run_f_cmd f ss0 s q pkt s1 cmd :
  next s = (ROk (Some (q, pkt)), s1) -> parse pkt = Some cmd -> cmd <> CmdQuit ->
  run_f fpext fptrunc errtab (S f) ss0 s =
    (s' <- handle fpext fptrunc errtab cmd ss0 ;; flush ;;; run_f fpext fptrunc errtab f s')
      (set_seq_cont ((q + 1) mod 256) (s_cont s1) s1).
Proof.
  intros Hn Hp Hq. rewrite run_f_S, (bind_ok _ _ _ _ _ Hn). cbv beta iota.
  rewrite set_seq_bind, Hp. destruct cmd; try reflexivity. congruence.
Qed.

Lemma run_f_quit f ss0 s q pkt s1 :
  next s = (ROk (Some (q, pkt)), s1) -> parse pkt = Some CmdQuit ->
  run_f fpext fptrunc errtab (S f) ss0 s = (ROk tt, set_seq_cont ((q + 1) mod 256) (s_cont s1) s1).
Proof.
  intros Hn Hp. rewrite run_f_S, (bind_ok _ _ _ _ _ Hn). cbv beta iota.
  rewrite set_seq_bind, Hp. reflexivity.
Qed.

Lemma run_f_eof f ss0 s s1 :
  next s = (ROk None, s1) -> run_f fpext fptrunc errtab (S f) ss0 s = (ROk tt, s1).
Proof. intros Hn. rewrite run_f_S, (bind_ok _ _ _ _ _ Hn). reflexivity. Qed.

Lemma step_one s q p rest cmd ss0 rep ss' :
  wf_conn s -> q < 256 ->
  inbound s = frame (s_lim s) q p ++ rest ->
  parse p = Some cmd -> cmd <> CmdQuit ->
  abs_handle fpext fptrunc errtab cmd ss0 = Some (rep, ss') ->
  exists s4 rd body,
    (forall f, run_f fpext fptrunc errtab (S f) ss0 s = run_f fpext fptrunc errtab f ss' s4) /\
    wf_conn s4 /\ s_lim s4 = s_lim s /\ inbound s4 = rest /\
    s_trace s4 = EFlush :: rev body ++ rev rd ++ s_trace s /\
    only_reads rd /\ body_events body /\ calls_of body = a_calls rep /\
    writes_of body = frame_all_pkts (s_lim s) ((last_seq (s_lim s) q p + 1) mod 256) (a_msgs rep).
Proof.
  intros (Hcl & Hl24 & Hall) Hq Hin Hp Hnq Habs.
  pose proof Hcl as (Hf & Hl0 & Hsq & Htw & Hcn & Hpk).
  destruct (next_frame s q p rest Hl0 Hl24 Hq Hall Hin) as (s1 & Hn & Hin1 & Hall1 & Hpost).
  destruct Hpost as (F1 & L1 & T1 & _ & C1 & P1 & _ & (evs & Tr1 & Hev) & _).
  set (s2 := set_seq_cont ((last_seq (s_lim s) q p + 1) mod 256) (s_cont s1) s1).
  assert (Hcl2 : clean s2).
  { unfold clean, s2. cbn [set_seq_cont s_fault s_lim s_seq s_tw s_cont s_park].
    rewrite F1, L1, T1, C1, P1.
    refine (conj Hf (conj Hl0 (conj _ (conj Htw (conj Hcn Hpk))))). apply N.mod_lt. lia. }
  destruct (handle_refines cmd ss0 rep ss' s2 Habs Hcl2)
    as (s3 & Hh & Hcl3 & R3 & L3 & B3 & _ & body & Tr3 & Hbody & Hcalls & Hwr).
  set (s4 := upd_trace EFlush (set_wops (S (s_wops s3)) s3)).
  exists s4, (rev evs), body.
  assert (L2 : s_lim s2 = s_lim s) by exact L1.
  split; [|split; [|split; [|split; [|split; [|split; [|split; [|split]]]]]]].
  - intro f. rewrite (run_f_cmd f ss0 s _ _ s1 cmd Hn Hp Hnq). fold s2.
    rewrite (bind_ok _ _ _ _ _ Hh), (bind_ok _ _ _ _ _ (flush_clean s3 Hcl3)). reflexivity.
  - unfold wf_conn. split; [exact Hcl3|]. unfold s4. cbn [upd_trace set_wops s_lim s_reads].
    rewrite L3, L2, R3. split; [exact Hl24 | exact Hall1].
  - unfold s4. cbn [upd_trace set_wops s_lim]. rewrite L3. exact L2.
  - unfold inbound, s4. cbn [upd_trace set_wops s_buf s_reads]. rewrite B3, R3. exact Hin1.
  - unfold s4. cbn [upd_trace set_wops s_trace]. rewrite Tr3. unfold s2. cbn [set_seq_cont s_trace].
    rewrite Tr1, rev_involutive. reflexivity.
  - apply Forall_rev. exact Hev.
  - exact Hbody.
  - exact Hcalls.
  - rewrite Hwr, L2. reflexivity.
Qed.

Lemma next_eof_clean s :
  all_data (s_reads s) -> inbound s = [] ->
  next s = (ROk None, set_buf [] (upd_trace (ERead 0) s)).
Proof.
  intros Hall Hin. unfold inbound in Hin. apply app_eq_nil in Hin. destruct Hin as [Hb Hrd].
  assert (Hr : s_reads s = []).
  { destruct (s_reads s) as [|r l]; [reflexivity|]. exfalso.
    apply all_data_cons in Hall. destruct Hall as [(b & bs & ->) _].
    cbn [reads_data app] in Hrd. discriminate. }
  unfold next. apply next_f_end_empty; assumption.
Qed.

Lemma abs_run_cons q p cmds ss0 reps ss1 :
  abs_run fpext fptrunc errtab ((q, p) :: cmds) ss0 = Some (reps, ss1) ->
  exists cmd rep reps' ss',
    parse p = Some cmd /\ cmd <> CmdQuit /\
    abs_handle fpext fptrunc errtab cmd ss0 = Some (rep, ss') /\
    abs_run fpext fptrunc errtab cmds ss' = Some (reps', ss1) /\ reps = rep :: reps'.
Proof.
  cbn [abs_run]. destruct (parse p) as [cmd|]; [|discriminate]. intro H.
  destruct cmd; try discriminate;
    (match type of H with
     | match ?ah with _ => _ end = _ => destruct ah as [[rep ss']|] eqn:E; [|discriminate]
     end;
     destruct (abs_run fpext fptrunc errtab cmds ss') as [[reps' ss'']|] eqn:E2; [|discriminate];
     injection H as <- <-;
     eexists _, rep, reps', ss';
     (split; [reflexivity|]); (split; [discriminate|]);
     (split; [exact E|]); (split; [exact E2 | reflexivity])).
Qed.

Lemma parse_quit junk : parse (x01 :: junk) = Some CmdQuit.
Proof. reflexivity. Qed.

End WithOracles.

(* the whole conversation, then a clean end of stream *)
Theorem run_refines fpext fptrunc errtab cmds ss0 reps ss1 fuel s :
  wf_conn s -> Forall (fun c => fst c < 256) cmds ->
  inbound s = frames (s_lim s) cmds ->
  abs_run fpext fptrunc errtab cmds ss0 = Some (reps, ss1) ->
  (length cmds < fuel)%nat ->
  exists s' chron,
    run_f fpext fptrunc errtab fuel ss0 s = (ROk tt, s') /\
    s_trace s' = ERead 0 :: rev chron ++ s_trace s /\
    conv_trace (s_lim s) cmds reps chron /\ clean s'.
Proof.
  revert ss0 reps fuel s.
  induction cmds as [|[q p] cmds IH]; intros ss0 reps fuel s Hwf Hq Hin Habs Hfuel;
    (destruct fuel as [|f]; [cbn [length] in Hfuel; lia|]).
  - cbn [abs_run] in Habs. injection Habs as <- <-. cbn [frames] in Hin.
    pose proof Hwf as (Hcl & Hl24 & Hall).
    pose proof (next_eof_clean s Hall Hin) as Hn.
    exists (set_buf [] (upd_trace (ERead 0) s)), [].
    split; [apply run_f_eof; exact Hn|]. split; [reflexivity|]. split; [constructor | exact Hcl].
  - destruct (abs_run_cons _ _ _ _ _ _ _ _ _ Habs)
      as (cmd & rep & reps' & ss' & Hp & Hnq & Hh & Hr & ->).
    pose proof (Forall_inv Hq) as Hq1. cbn [fst] in Hq1. apply Forall_inv_tail in Hq.
    cbn [frames] in Hin.
    destruct (step_one fpext fptrunc errtab s q p _ cmd ss0 rep ss' Hwf Hq1 Hin Hp Hnq Hh)
      as (s4 & rd & body & Hrun & Hwf4 & L4 & Hin4 & Tr4 & Hrd & Hb & Hc & Hw).
    destruct (IH ss' reps' f s4 Hwf4 Hq) as (s' & chron & Hrun' & Htr' & Hct & Hcl').
    + rewrite L4. exact Hin4.
    + exact Hr.
    + cbn [length] in Hfuel. lia.
    + exists s', (rd ++ body ++ EFlush :: chron).
      split; [rewrite Hrun; exact Hrun'|]. split; [|split; [|exact Hcl']].
      * rewrite Htr', Tr4.
        repeat (rewrite ?rev_app_distr; cbn [rev app]; rewrite <- ?app_assoc). reflexivity.
      * rewrite L4 in Hct. constructor; assumption.
Qed.

(* ... or ended by COM_QUIT: run returns Ok at once (no reply, nothing after it is looked at) *)
Theorem run_refines_quit fpext fptrunc errtab cmds ss0 reps ss1 fuel s q junk rest :
  wf_conn s -> Forall (fun c => fst c < 256) cmds -> q < 256 ->
  inbound s = frames (s_lim s) cmds ++ frame (s_lim s) q (x01 :: junk) ++ rest ->
  abs_run fpext fptrunc errtab cmds ss0 = Some (reps, ss1) ->
  (length cmds < fuel)%nat ->
  exists s' chron rd,
    run_f fpext fptrunc errtab fuel ss0 s = (ROk tt, s') /\
    s_trace s' = rev (chron ++ rd) ++ s_trace s /\ only_reads rd /\
    conv_trace (s_lim s) cmds reps chron.
Proof.
  intros Hwf Hq Hq0. revert ss0 reps fuel s Hwf Hq.
  induction cmds as [|[q1 p] cmds IH]; intros ss0 reps fuel s Hwf Hq Hin Habs Hfuel;
    (destruct fuel as [|f]; [cbn [length] in Hfuel; lia|]).
  - cbn [abs_run] in Habs. injection Habs as <- <-. cbn [frames app] in Hin.
    pose proof Hwf as ((_ & Hl0 & _) & Hl24 & Hall).
    destruct (next_frame s q (x01 :: junk) rest Hl0 Hl24 Hq0 Hall Hin)
      as (s1 & Hn & _ & _ & Hpost).
    destruct Hpost as (_ & _ & _ & _ & _ & _ & _ & (evs & Tr1 & Hev) & _).
    eexists _, [], (rev evs).
    split; [apply (run_f_quit fpext fptrunc errtab f ss0 s _ _ s1 Hn (parse_quit junk))|].
    split; [|split; [apply Forall_rev; exact Hev | constructor]].
    cbn [app set_seq_cont s_trace]. rewrite rev_involutive. exact Tr1.
  - destruct (abs_run_cons _ _ _ _ _ _ _ _ _ Habs)
      as (cmd & rep & reps' & ss' & Hp & Hnq & Hh & Hr & ->).
    pose proof (Forall_inv Hq) as Hq1. cbn [fst] in Hq1. apply Forall_inv_tail in Hq.
    cbn [frames] in Hin. rewrite <- app_assoc in Hin.
    destruct (step_one fpext fptrunc errtab s q1 p _ cmd ss0 rep ss' Hwf Hq1 Hin Hp Hnq Hh)
      as (s4 & rd & body & Hrun & Hwf4 & L4 & Hin4 & Tr4 & Hrd & Hb & Hc & Hw).
    destruct (IH ss' reps' f s4 Hwf4 Hq) as (s' & chron & rd' & Hrun' & Htr' & Hrd' & Hct).
    + rewrite L4. exact Hin4.
    + exact Hr.
    + cbn [length] in Hfuel. lia.
    + exists s', (rd ++ body ++ EFlush :: chron), rd'.
      split; [rewrite Hrun; exact Hrun'|]. split; [|split; [exact Hrd'|]].
      * rewrite Htr', Tr4.
        repeat (rewrite ?rev_app_distr; cbn [rev app]; rewrite <- ?app_assoc). reflexivity.
      * rewrite L4 in Hct. constructor; assumption.
Qed.

(* C12: whenever the server waits for input (any read event), everything it wrote has been flushed *)
Fixpoint flushed_at_reads (pending : bool) (evs : list event) : Prop :=
  match evs with
  | [] => True
  | ERead _ :: r => pending = false /\ flushed_at_reads false r
  | EWrite _ :: r => flushed_at_reads true r
  | EFlush :: r => flushed_at_reads false r
  | _ :: r => flushed_at_reads pending r
  end.
Lemma flushed_reads rd X :
  only_reads rd -> flushed_at_reads false X -> flushed_at_reads false (rd ++ X).
Proof.
  intros Hrd HX. induction Hrd as [|e l He _ IH]; [exact HX|].
  destruct e; try contradiction. cbn [app flushed_at_reads]. split; [reflexivity | exact IH].
Qed.
Lemma flushed_body body X :
  body_events body -> flushed_at_reads false X ->
  forall b, flushed_at_reads b (body ++ EFlush :: X).
Proof.
  intros Hb HX. induction Hb as [|e l He _ IH]; intro b; [exact HX|].
  destruct e as [| | | | | |c|r]; try contradiction; cbn [app flushed_at_reads]; apply IH.
Qed.

Lemma conv_trace_flushed lim cmds reps chron :
  conv_trace lim cmds reps chron -> flushed_at_reads false (chron ++ [ERead 0]).
Proof.
  induction 1 as [|q p cmds rep reps rd body tr Hrd Hb Hc Hw _ IH].
  - cbn [app flushed_at_reads]. split; [reflexivity | exact I].
  - rewrite <- !app_assoc, <- app_comm_cons.
    apply flushed_reads; [exact Hrd|]. apply flushed_body; [exact Hb | exact IH].
Qed.

(* the callbacks of a conversation are exactly those of its commands, in order *)
Lemma conv_trace_calls lim cmds reps chron :
  conv_trace lim cmds reps chron -> calls_of chron = flat_map a_calls reps.
Proof.
  induction 1 as [|q p cmds rep reps rd body tr Hrd Hb Hc Hw _ IH]; [reflexivity|].
  rewrite !calls_of_app, (only_reads_calls rd Hrd), Hc. cbn [app calls_of flat_map].
  rewrite IH. reflexivity.
Qed.

(* gate (C10): a statement id that is not registered never reaches the shim; the connection ends
   with an error and nothing is sent *)
Lemma handle_unknown_execute fpext fptrunc errtab id params st sc s :
  lookup id st = None ->
  handle fpext fptrunc errtab (CmdExecute id params) (st, sc) s = (RErr EInvalidData, s).
Proof. intro H. unfold handle. rewrite H. reflexivity. Qed.
Lemma handle_unknown_long_data fpext fptrunc errtab id param data st sc s :
  lookup id st = None ->
  handle fpext fptrunc errtab (CmdLongData id param data) (st, sc) s = (RErr EInvalidData, s).
Proof. intro H. unfold handle. rewrite H. reflexivity. Qed.
(* query / prepare / init text that is not valid UTF-8 never reaches the shim *)
Lemma handle_invalid_utf8_query fpext fptrunc errtab q st sc s :
  is_prefix sel_upper q || is_prefix sel_lower q = false ->
  is_prefix use_upper q || is_prefix use_lower q = false ->
  utf8_valid q = false ->
  handle fpext fptrunc errtab (CmdQuery q) (st, sc) s = (RErr EInvalidData, s).
Proof. intros H1 H2 H3. unfold handle. rewrite H1, H2, H3. reflexivity. Qed.

Print Assumptions run_refines.
Print Assumptions run_refines_quit.
Print Assumptions conv_trace_flushed.
Print Assumptions conv_trace_calls.
Print Assumptions handle_unknown_execute.
Print Assumptions handle_unknown_long_data.
Print Assumptions handle_invalid_utf8_query.
