(* C18: the TLS upgrade decided by init().  The engine is opaque; proved here is this crate's part:
   which bytes the engine is offered (exactly the client's bytes after the SSL request packet, each
   once, in order, for EVERY position of the read boundaries), that a TLS request without a TLS
   configuration is refused before after_authentication, that the user name of the second
   (encrypted) handshake response reaches after_authentication, and that without a TLS request the
   TLS-aware entry point is the plain one.  Proofs only; statements fixed. *)
From MsqlVerif Require Import Model.Server Model.Tls Spec.Frame Spec.ClientEnc
  Proofs.BaseLemmas Proofs.PacketWrite Proofs.PacketRead Proofs.RunRender Proofs.ServerInit.
From Coq Require Import Lia.
Open Scope N_scope.

Definition no_calls (s : st) : Prop :=
  Forall (fun ev => match ev with ECall _ => False | _ => True end) (s_trace s).

(* the SSL request is consumed as one plaintext packet; everything the client sent after it --
   whether it was coalesced into the same read(s) or arrives later -- is what the engine gets *)
Theorem tls_routing cfg s q req user tls_bytes :
  fresh s -> q < 256 -> cfg_tls cfg = true ->
  inbound s = frame (s_lim s) q req ++ tls_bytes ->
  client_handshake req false = HOk true user ->
  exists s1,
    init_phase1 cfg s = (ROk (P1Switch tls_bytes), s1) /\
    s_buf s1 = [] /\ no_calls s1 /\ s_seq s1 = (last_seq (s_lim s) q req + 1) mod 256.
Admitted.

(* TLS requested, none configured: refused with an error before after_authentication *)
Theorem tls_refused fpext fptrunc errtab cfg sc plain s q req user tls_bytes :
  fresh s -> q < 256 -> cfg_tls cfg = false ->
  inbound s = frame (s_lim s) q req ++ tls_bytes ->
  client_handshake req false = HOk true user ->
  exists s1, run_on_tls fpext fptrunc errtab cfg sc plain s = (RErr EInvalidData, s1) /\ no_calls s1.
Admitted.

(* after the switch: the second handshake response (parsed with after_tls = true) provides the user
   name given to after_authentication; accept -> OK with the next sequence id *)
Theorem tls_phase2_accept errtab cfg s2 q hs user ssl rest :
  clean s2 -> s_lim s2 < 2 ^ 24 -> all_data (s_reads s2) -> q < 256 -> cfg_auth cfg = None ->
  inbound s2 = frame (s_lim s2) q hs ++ rest ->
  client_handshake hs true = HOk ssl user ->
  exists s3 rd,
    init_phase2 errtab cfg s2 = (ROk tt, s3) /\ only_reads rd /\
    s_trace s3 =
      EFlush :: rev (map EWrite (frame_pkts (s_lim s2) ((last_seq (s_lim s2) q hs + 1) mod 256) (ok_body 0 0 0)))
      ++ ECall (CAuth user) :: rev rd ++ s_trace s2 /\
    inbound s3 = rest /\ all_data (s_reads s3) /\ clean s3 /\ s_lim s3 = s_lim s2.
Admitted.

(* a client that does not request TLS is served by the TLS-aware entry point exactly as by the
   plain one *)
Theorem tls_plain_same fpext fptrunc errtab cfg sc plain s q hs user rest :
  fresh s -> q < 256 ->
  inbound s = frame (s_lim s) q hs ++ rest ->
  client_handshake hs false = HOk false user ->
  run_on_tls fpext fptrunc errtab cfg sc plain s = run_on fpext fptrunc errtab cfg sc s.
Admitted.
