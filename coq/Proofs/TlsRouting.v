(* C18: the TLS upgrade decided by init().  The engine is opaque; proved here is this crate's part:
   which bytes the engine is offered (exactly the client's bytes after the SSL request packet, each
   once, in order, for EVERY position of the read boundaries), that a TLS request without a TLS
   configuration is refused before after_authentication, that the user name of the second
   (encrypted) handshake response reaches after_authentication, and that without a TLS request the
   TLS-aware entry point is the plain one.  Proofs only; statements fixed. *)
From MsqlVerif Require Import Model.Server Model.Tls Spec.Frame Spec.ClientEnc
  Proofs.BaseLemmas Proofs.PacketWrite Proofs.PacketRead Proofs.RunRender Proofs.ServerInit.
From Coq Require Import Lia.
Open Scope N_scope.

Definition no_calls (s : st) : Prop :=
  Forall (fun ev => match ev with ECall _ => False | _ => True end) (s_trace s).


(* ---- helpers ---- *)
Lemma sock_data_reads_data l : sock_data l = reads_data l.
Proof.
  induction l as [|[bs| |k] l IH]; cbn [sock_data reads_data]; [reflexivity| |exact IH|exact IH].
  rewrite IH. reflexivity.
Qed.

Lemma no_calls_after_read s evs tls :
  only_reads evs ->
  s_trace s = evs ++ EFlush :: rev (map EWrite (frame_pkts (s_lim s) 0 (greeting_body tls))) ->
  no_calls s.
Proof.
  intros Hon Htr. unfold no_calls. change (Forall no_call (s_trace s)). rewrite Htr.
  apply Forall_app. split; [apply no_call_reads; exact Hon|].
  constructor; [exact I | apply no_call_writes].
Qed.

Lemma bind_same {A B} (m m' : M A) (f : A -> M B) s s' :
  m s = m' s' -> bind m f s = bind m' f s'.
Proof. intro H. unfold bind. rewrite H. reflexivity. Qed.

(* the plaintext phase up to and including set_seq *)
Lemma phase1_prefix cfg s q req rest ssl user :
  fresh s -> q < 256 -> inbound s = frame (s_lim s) q req ++ rest ->
  client_handshake req false = HOk ssl user ->
  exists s3 evs,
    only_reads evs /\ clean s3 /\ s_lim s3 = s_lim s /\
    s_seq s3 = (last_seq (s_lim s) q req + 1) mod 256 /\
    inbound s3 = rest /\ all_data (s_reads s3) /\
    s_trace s3 = evs ++ EFlush :: rev (map EWrite (frame_pkts (s_lim s) 0 (greeting_body (cfg_tls cfg)))) /\
    init_phase1 cfg s =
      (if ssl then
         if cfg_tls cfg then
           fun s => (ROk (P1Switch (s_buf s ++ sock_data (s_reads s))), set_buf [] s)
         else fail EInvalidData
       else ret (P1Plain user)) s3 /\
    forall errtab, init errtab cfg s =
      (if ssl then fail EInvalidData else auth_phase errtab cfg user) s3.
Proof.
  intros Hfresh Hq Hin Hhs.
  destruct (init_read cfg s q req rest Hfresh Hq Hin)
    as (s0 & s1 & s2 & evs & Hwa & Hfl & Hn & Hon & Hcl & El & Hin2 & Hall2 & Htr).
  destruct Hcl as (C1 & C2 & C3 & C4 & C5 & C6).
  set (q' := (last_seq (s_lim s) q req + 1) mod 256).
  exists (set_seq_cont q' (s_cont s2) s2), evs.
  split; [exact Hon|].
  split.
  { unfold clean. cbn [set_seq_cont s_fault s_lim s_seq s_tw s_cont s_park].
    repeat split; try assumption. unfold q'. apply N.mod_lt. lia. }
  cbn [set_seq_cont s_lim s_seq s_reads s_trace].
  split; [exact El|]. split; [reflexivity|]. split; [exact Hin2|]. split; [exact Hall2|].
  split; [exact Htr|].
  split.
  - unfold init_phase1.
    rewrite (bind_ok _ _ _ _ _ Hwa). cbv beta.
    rewrite (bind_ok _ _ _ _ _ Hfl). cbv beta.
    rewrite (bind_ok _ _ _ _ _ Hn). cbv beta iota.
    rewrite Hhs. cbv beta iota.
    reflexivity.
  - intro errtab. unfold init.
    rewrite (bind_ok _ _ _ _ _ Hwa). cbv beta.
    rewrite (bind_ok _ _ _ _ _ Hfl). cbv beta.
    rewrite (bind_ok _ _ _ _ _ Hn). cbv beta iota.
    rewrite Hhs. cbv beta iota.
    destruct ssl; reflexivity.
Qed.

(* the SSL request is consumed as one plaintext packet; everything the client sent after it --
   whether it was coalesced into the same read(s) or arrives later -- is what the engine gets *)
Theorem tls_routing cfg s q req user tls_bytes :
  fresh s -> q < 256 -> cfg_tls cfg = true ->
  inbound s = frame (s_lim s) q req ++ tls_bytes ->
  client_handshake req false = HOk true user ->
  exists s1,
    init_phase1 cfg s = (ROk (P1Switch tls_bytes), s1) /\
    s_buf s1 = [] /\ no_calls s1 /\ s_seq s1 = (last_seq (s_lim s) q req + 1) mod 256.
Proof.
  intros Hfresh Hq Htls Hin Hhs.
  destruct (phase1_prefix cfg s q req tls_bytes true user Hfresh Hq Hin Hhs)
    as (s3 & evs & Hon & Hcl & El & Eq & Hin3 & Hall & Htr & Hp1 & _).
  rewrite Htls in Hp1. cbv beta iota in Hp1.
  exists (set_buf [] s3). split.
  { rewrite Hp1. rewrite sock_data_reads_data. unfold inbound in Hin3. rewrite Hin3. reflexivity. }
  split; [reflexivity|].
  split.
  { apply (no_calls_after_read (set_buf [] s3) evs (cfg_tls cfg) Hon).
    cbn [set_buf s_trace s_lim]. rewrite El. exact Htr. }
  cbn [set_buf s_seq]. exact Eq.
Qed.

(* TLS requested, none configured: refused with an error before after_authentication *)
Theorem tls_refused fpext fptrunc errtab cfg sc plain s q req user tls_bytes :
  fresh s -> q < 256 -> cfg_tls cfg = false ->
  inbound s = frame (s_lim s) q req ++ tls_bytes ->
  client_handshake req false = HOk true user ->
  exists s1, run_on_tls fpext fptrunc errtab cfg sc plain s = (RErr EInvalidData, s1) /\ no_calls s1.
Proof.
  intros Hfresh Hq Htls Hin Hhs.
  destruct (phase1_prefix cfg s q req tls_bytes true user Hfresh Hq Hin Hhs)
    as (s3 & evs & Hon & Hcl & El & Eq & Hin3 & Hall & Htr & Hp1 & _).
  rewrite Htls in Hp1. cbv beta iota in Hp1.
  exists s3. split.
  { unfold run_on_tls. rewrite Hp1. reflexivity. }
  apply (no_calls_after_read s3 evs (cfg_tls cfg) Hon). rewrite El. exact Htr.
Qed.

(* after the switch: the second handshake response (parsed with after_tls = true) provides the user
   name given to after_authentication; accept -> OK with the next sequence id *)
Theorem tls_phase2_accept errtab cfg s2 q hs user ssl rest :
  clean s2 -> s_lim s2 < 2 ^ 24 -> all_data (s_reads s2) -> q < 256 -> cfg_auth cfg = None ->
  inbound s2 = frame (s_lim s2) q hs ++ rest ->
  client_handshake hs true = HOk ssl user ->
  exists s3 rd,
    init_phase2 errtab cfg s2 = (ROk tt, s3) /\ only_reads rd /\
    s_trace s3 =
      EFlush :: rev (map EWrite (frame_pkts (s_lim s2) ((last_seq (s_lim s2) q hs + 1) mod 256) (ok_body 0 0 0)))
      ++ ECall (CAuth user) :: rev rd ++ s_trace s2 /\
    inbound s3 = rest /\ all_data (s_reads s3) /\ clean s3 /\ s_lim s3 = s_lim s2.
Proof.
  intros Hcl H24 Hall Hq Hauth Hin Hhs.
  pose proof Hcl as (C1 & C2 & C3 & C4 & C5 & C6).
  destruct (next_frame s2 q hs rest C2 H24 Hq Hall Hin) as (sa & Hn & Hina & Halla & Hpost).
  destruct Hpost as (P1 & P2 & P3 & P4 & P5 & P6 & P7 & (evs & Pt & Pon) & _).
  set (q' := (last_seq (s_lim s2) q hs + 1) mod 256) in *.
  set (s4 := upd_trace (ECall (CAuth user)) (set_seq_cont q' (s_cont sa) sa)).
  assert (Hcl4 : clean s4).
  { unfold clean, s4. cbn [upd_trace set_seq_cont s_fault s_lim s_seq s_tw s_cont s_park].
    rewrite P1, P2, P3, P5, P6. repeat split; try assumption. unfold q'. apply N.mod_lt. lia. }
  destruct (send_flush (ok_body 0 0 0) s4 Hcl4)
    as (s5 & s' & Hs & Hfl & Hcl' & El' & Eb' & Er' & Etr'); [unfold ok_body; discriminate|].
  exists s', (rev evs).
  split.
  { unfold init_phase2.
    rewrite (bind_ok _ _ _ _ _ Hn). cbv beta iota.
    rewrite Hhs. cbv beta iota.
    unfold auth_phase. rewrite Hauth.
    change ((send (ok_body 0 0 0) ;;; flush) s4 = (ROk tt, s')).
    rewrite (bind_ok _ _ _ _ _ Hs). exact Hfl. }
  split. { unfold only_reads. apply Forall_rev. exact Pon. }
  split.
  { rewrite Etr'. unfold s4. cbn [upd_trace set_seq_cont s_lim s_seq s_trace].
    rewrite P2, Pt, rev_involutive. reflexivity. }
  split. { unfold inbound in *. rewrite Eb', Er'. exact Hina. }
  split; [rewrite Er'; exact Halla|]. split; [exact Hcl'|].
  rewrite El'. exact P2.
Qed.

(* a client that does not request TLS is served by the TLS-aware entry point exactly as by the
   plain one *)
Theorem tls_plain_same fpext fptrunc errtab cfg sc plain s q hs user rest :
  fresh s -> q < 256 ->
  inbound s = frame (s_lim s) q hs ++ rest ->
  client_handshake hs false = HOk false user ->
  run_on_tls fpext fptrunc errtab cfg sc plain s = run_on fpext fptrunc errtab cfg sc s.
Proof.
  intros Hfresh Hq Hin Hhs.
  destruct (phase1_prefix cfg s q hs rest false user Hfresh Hq Hin Hhs)
    as (s3 & evs & Hon & Hcl & El & Eq & Hin3 & Hall & Htr & Hp1 & Hinit).
  cbv beta iota in Hp1. specialize (Hinit errtab). cbv beta iota in Hinit.
  unfold run_on_tls, run_on. rewrite Hp1. unfold ret. cbv beta iota.
  apply bind_same. symmetry. exact Hinit.
Qed.

Print Assumptions tls_routing.
Print Assumptions tls_refused.
Print Assumptions tls_phase2_accept.
Print Assumptions tls_plain_same.
