(* C18, "loses no bytes", for the exact reader handed to the TLS engine (Model/Prepend.v): whatever
   buffer sizes the engine reads with, what it has received plus what is still pending is exactly the
   buffered tail followed by the socket's data: nothing lost, duplicated or reordered. *)
From MsqlVerif Require Import Model.Packet Model.PacketBuf Model.Prepend Proofs.PacketRead.
From Coq Require Import Lia.
Open Scope N_scope.

(* one transport read with a non-empty buffer, on a script of non-empty data chunks *)
Lemma t_read_cap_step : forall c s,
  (0 < c)%nat -> all_data (s_reads s) ->
  exists out s',
    t_read_cap c s = (ROk out, s') /\ all_data (s_reads s') /\
    out ++ reads_data (s_reads s') = reads_data (s_reads s).
Proof.
  intros c s Hc Hall. unfold t_read_cap.
  destruct (s_reads s) as [|r l] eqn:Hr.
  - exists [], (upd_trace (ERead 0) s). split; [reflexivity|].
    cbn [upd_trace s_reads]. rewrite Hr. split; [exact Hall|reflexivity].
  - apply all_data_cons in Hall. destruct Hall as [(b & bs & ->) Hl].
    destruct (Nat.leb (length (b :: bs)) c) eqn:Hle.
    + eexists _, _. split; [reflexivity|].
      cbn [upd_trace set_reads s_reads reads_data]. split; [exact Hl|reflexivity].
    + apply PeanoNat.Nat.leb_gt in Hle.
      eexists _, _. split; [reflexivity|].
      cbn [upd_trace set_reads s_reads]. split.
      * constructor; [|exact Hl].
        destruct (skipn c (b :: bs)) as [|x xs] eqn:Hsk; [|exact I].
        exfalso. assert (Hlen : length (skipn c (b :: bs)) = 0%nat) by (rewrite Hsk; reflexivity).
        rewrite skipn_length in Hlen. lia.
      * cbn [reads_data]. rewrite app_assoc. rewrite firstn_skipn. reflexivity.
Qed.

(* the invariant of the real code: the chain's flag is only set once the cursor is exhausted *)
Definition prd_ok (p : prd) : Prop := pr_done p = true -> pr_pre p = [].

Lemma prd_read_step : forall c p s,
  (0 < c)%nat -> all_data (s_reads s) -> prd_ok p ->
  exists out p' s',
    prd_read c p s = (ROk out, p', s') /\ all_data (s_reads s') /\ prd_ok p' /\
    out ++ pr_pre p' ++ reads_data (s_reads s') = pr_pre p ++ reads_data (s_reads s).
Proof.
  intros c p s Hc Hall Hok. unfold prd_read.
  destruct (pr_done p) eqn:Hd.
  - destruct (t_read_cap_step c s Hc Hall) as (out & s' & Ht & Hall' & Heq).
    rewrite Ht. exists out, p, s'. split; [reflexivity|]. split; [exact Hall'|].
    split; [exact Hok|]. unfold prd_ok in Hok. rewrite (Hok Hd). cbn [app]. exact Heq.
  - destruct (pr_pre p) as [|x xs] eqn:Hp.
    + destruct (t_read_cap_step c s Hc Hall) as (out & s' & Ht & Hall' & Heq).
      rewrite Ht. eexists _, _, _. split; [reflexivity|]. split; [exact Hall'|].
      split; [intros _; reflexivity|]. cbn [pr_pre app]. exact Heq.
    + eexists _, _, _. split; [reflexivity|]. split; [exact Hall|].
      split; [intros Hf; cbn [pr_done] in Hf; discriminate|].
      cbn [pr_pre]. rewrite app_assoc. rewrite firstn_skipn. reflexivity.
Qed.

(* Without the invariant the equation fails: a reader whose flag is set although prefix bytes remain
   never delivers them, and they end up AFTER the socket bytes on the left-hand side. *)
Example prepend_no_loss_needs_invariant :
  let p := {| pr_pre := ["a"]%byte; pr_done := true |} in
  let s := init_st 16777215 [RdData ["x"]%byte] WNone in
  exists out p' s',
    prd_reads [1]%nat p s = (ROk out, p', s') /\
    out ++ pr_pre p' ++ reads_data (s_reads s') = ["x"; "a"]%byte /\
    pr_pre p ++ reads_data (s_reads s) = ["a"; "x"]%byte.
Proof. vm_compute. eexists _, _, _. split; [reflexivity|]. split; reflexivity. Qed.

Eval vm_compute in
  (let p := {| pr_pre := ["a"]%byte; pr_done := true |} in
   let s := init_st 16777215 [RdData ["x"]%byte] WNone in
   match prd_reads [1]%nat p s with
   | (ROk out, p', s') => Some (out ++ pr_pre p' ++ reads_data (s_reads s'), pr_pre p ++ reads_data (s_reads s))
   | _ => None
   end).

Theorem prepend_no_loss : forall caps p s,
  Forall (fun c => (0 < c)%nat) caps -> (pr_done p = true -> pr_pre p = []) ->
  all_data (s_reads s) ->
  exists out p' s',
    prd_reads caps p s = (ROk out, p', s') /\ all_data (s_reads s') /\
    out ++ pr_pre p' ++ reads_data (s_reads s') = pr_pre p ++ reads_data (s_reads s).
Proof.
  intros caps. induction caps as [|c caps IH]; intros p s Hcaps Hok Hall.
  - exists [], p, s. split; [reflexivity|]. split; [exact Hall|reflexivity].
  - inversion Hcaps as [|? ? Hc Hcaps']; subst.
    destruct (prd_read_step c p s Hc Hall Hok) as (o1 & p1 & s1 & Hr & Hall1 & Hok1 & Heq1).
    destruct (IH p1 s1 Hcaps' Hok1 Hall1) as (o2 & p2 & s2 & Hrs & Hall2 & Heq2).
    exists (o1 ++ o2), p2, s2. split; [|split; [exact Hall2|]].
    + cbn [prd_reads]. rewrite Hr. rewrite Hrs. reflexivity.
    + rewrite <- app_assoc. rewrite Heq2. exact Heq1.
Qed.

(* and the engine is never offered a byte of the prefix twice nor a socket byte before the prefix is
   exhausted: while prefix bytes remain, a read returns prefix bytes only and leaves the socket alone *)
Theorem prepend_prefix_first : forall cap p s,
  (0 < cap)%nat -> pr_done p = false -> pr_pre p <> [] ->
  prd_read cap p s = (ROk (firstn cap (pr_pre p)), {| pr_pre := skipn cap (pr_pre p); pr_done := false |}, s).
Proof.
  intros cap p s Hc Hd Hne. unfold prd_read. rewrite Hd.
  destruct (pr_pre p) as [|x xs] eqn:Hp; [congruence|reflexivity].
Qed.

Example prepend_applies :
  prd_reads [2; 1; 5; 3]%nat {| pr_pre := ["a"; "b"; "c"]%byte; pr_done := false |}
            (init_st 16777215 [RdData ["x"; "y"; "z"; "w"]%byte] WNone)
  = (ROk ["a"; "b"; "c"; "x"; "y"; "z"; "w"]%byte, {| pr_pre := []; pr_done := true |},
     snd (prd_reads [2; 1; 5; 3]%nat {| pr_pre := ["a"; "b"; "c"]%byte; pr_done := false |}
            (init_st 16777215 [RdData ["x"; "y"; "z"; "w"]%byte] WNone))).
Proof. vm_compute. reflexivity. Qed.

Print Assumptions prepend_no_loss.
Print Assumptions prepend_prefix_first.
