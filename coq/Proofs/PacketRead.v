(* Inbound side of PacketConn: packet() and next() reassemble exactly the framed commands under
   every chunking of the byte stream.  Proofs only (statements fixed; helpers may be added). *)
From MsqlVerif Require Import Model.Packet Spec.Frame Proofs.BaseLemmas.
From Coq Require Import Lia.
Open Scope N_scope.

(* a complete framed command at the head of the buffer is returned whole, with the id of its
   last packet, and nothing after it is touched *)
Lemma packet_frame lim q p rest :
  0 < lim -> lim < 2 ^ 24 -> q < 256 ->
  packet lim (frame lim q p ++ rest) = PDone (last_seq lim q p) p rest.
Admitted.

(* a strict prefix of a framed command never yields a packet (in particular not a wrong one) *)
Lemma packet_prefix lim q p x y :
  0 < lim -> lim < 2 ^ 24 -> q < 256 ->
  x ++ y = frame lim q p -> y <> [] -> packet lim x = PNeed.
Admitted.

(* the inbound byte stream still to be consumed: buffered tail, then the scripted reads *)
Fixpoint reads_data (l : list rd) : bytes :=
  match l with
  | [] => []
  | RdData bs :: r => bs ++ reads_data r
  | _ :: r => reads_data r
  end.
Definition all_data (l : list rd) : Prop :=
  Forall (fun r => match r with RdData (_ :: _) => True | _ => False end) l.
Definition inbound (s : st) : bytes := s_buf s ++ reads_data (s_reads s).

(* events appended by next(): reads only *)
Definition only_reads (evs : list event) : Prop :=
  Forall (fun e => match e with ERead _ => True | _ => False end) evs.
Definition next_frame_post (s s' : st) : Prop :=
  s_fault s' = s_fault s /\ s_lim s' = s_lim s /\ s_tw s' = s_tw s /\ s_seq s' = s_seq s /\
  s_cont s' = s_cont s /\ s_park s' = s_park s /\ s_wops s' = s_wops s /\
  (exists evs, s_trace s' = evs ++ s_trace s /\ only_reads evs) /\
  (exists k, s_reads s' = skipn k (s_reads s)).

(* whatever the chunking, next() returns exactly the next framed command and leaves exactly
   the rest of the stream to be consumed *)
Lemma next_frame s q p rest :
  0 < s_lim s -> s_lim s < 2 ^ 24 -> q < 256 ->
  all_data (s_reads s) ->
  inbound s = frame (s_lim s) q p ++ rest ->
  exists s',
    next s = (ROk (Some (last_seq (s_lim s) q p, p)), s') /\
    inbound s' = rest /\ all_data (s_reads s') /\ next_frame_post s s'.
Admitted.

(* clean end of stream at a packet boundary *)
Lemma next_eof s :
  all_data (s_reads s) -> inbound s = [] ->
  exists s', next s = (ROk None, s') /\ s_buf s' = [] /\ s_reads s' = [] /\
             s_trace s' = ERead 0 :: s_trace s.
Admitted.

(* the stream ends inside a packet: an error, never a packet *)
Lemma next_truncated s q p x y :
  0 < s_lim s -> s_lim s < 2 ^ 24 -> q < 256 ->
  all_data (s_reads s) ->
  inbound s = x -> x <> [] -> y <> [] -> x ++ y = frame (s_lim s) q p ->
  exists s', next s = (RErr EUnexpectedEof, s').
Admitted.

(* all commands of a stream, in order, exactly once: iterate next() *)
Fixpoint drain (fuel : nat) (s : st) : list (N * bytes) * res unit * st :=
  match fuel with
  | O => ([], RPanic POutOfFuel, s)
  | S f =>
    match next s with
    | (ROk (Some x), s') => let '(l, r, s'') := drain f s' in (x :: l, r, s'')
    | (ROk None, s') => ([], ROk tt, s')
    | (RErr e, s') => ([], RErr e, s')
    | (RPanic p, s') => ([], RPanic p, s')
    end
  end.
Fixpoint frames (lim : N) (cmds : list (N * bytes)) : bytes :=
  match cmds with [] => [] | (q, p) :: r => frame lim q p ++ frames lim r end.

Theorem reassembly s cmds :
  0 < s_lim s -> s_lim s < 2 ^ 24 -> Forall (fun c => fst c < 256) cmds ->
  all_data (s_reads s) ->
  inbound s = frames (s_lim s) cmds ->
  exists s',
    drain (S (length cmds)) s =
      (map (fun c => (last_seq (s_lim s) (fst c) (snd c), snd c)) cmds, ROk tt, s').
Admitted.
