(* Inbound side of PacketConn: packet() and next() reassemble exactly the framed commands under
   every chunking of the byte stream.  Proofs only (statements fixed; helpers may be added). *)
From MsqlVerif Require Import Model.Packet Spec.Frame Proofs.BaseLemmas Proofs.FrameLemmas.
From Coq Require Import Lia.
Open Scope N_scope.

(* ---- helpers: lists ---- *)

Lemma app_split {A} (x y a b : list A) : x ++ y = a ++ b ->
  (exists l, x = a ++ l /\ l ++ y = b) \/ (exists l, l <> [] /\ a = x ++ l /\ y = l ++ b).
Proof.
  intros H. apply app_eq_app in H. destruct H as [l [[H1 H2]|[H1 H2]]].
  - left. exists l. split; [assumption|symmetry; assumption].
  - destruct l as [|c l].
    + left. exists []. rewrite app_nil_r in *. cbn [app] in *. subst. split; reflexivity.
    + right. exists (c :: l). split; [discriminate|]. split; assumption.
Qed.

Lemma pkt_assoc (h : bytes) qb body F rest :
  (h ++ qb :: body ++ F) ++ rest = h ++ qb :: body ++ (F ++ rest).
Proof. rewrite <- app_assoc. cbn [app]. rewrite <- app_assoc. reflexivity. Qed.

Lemma pkt_assoc1 (h : bytes) qb body rest :
  (h ++ qb :: body) ++ rest = h ++ qb :: body ++ rest.
Proof. rewrite <- app_assoc. reflexivity. Qed.

(* ---- helpers: the two nom parsers ---- *)

Lemma pow24 : 2 ^ 24 = 256 ^ N.of_nat 3.
Proof. reflexivity. Qed.

Lemma le_bytes3_shape x : exists a b c, le_bytes 3 x = [a; b; c].
Proof. cbn [le_bytes]. eauto. Qed.

Lemma N_of_b_of_N_small q : q < 256 -> N_of_b (b_of_N q) = q.
Proof. intros Hq. rewrite N_of_b_of_N. apply N.mod_small. assumption. Qed.

Lemma bytes_eqb_refl a : bytes_eqb a a = true.
Proof. apply bytes_eqb_eq. reflexivity. Qed.

Lemma try_full_frame lim q body rest :
  q < 256 -> Nlen body = lim ->
  try_full lim (le_bytes 3 lim ++ b_of_N q :: body ++ rest) = Some (q, body, rest).
Proof.
  intros Hq Hb. destruct (le_bytes3_shape lim) as (a & b & c & E).
  unfold try_full. rewrite E. cbn [app]. rewrite bytes_eqb_refl.
  rewrite <- Hb. rewrite take_cnt_app. rewrite N_of_b_of_N_small by assumption. reflexivity.
Qed.

Lemma try_full_other lim l r :
  l <> lim -> l < 2 ^ 24 -> lim < 2 ^ 24 -> try_full lim (le_bytes 3 l ++ r) = None.
Proof.
  intros Hne Hl Hlim. destruct (le_bytes3_shape l) as (a & b & c & E).
  unfold try_full. rewrite E. cbn [app]. destruct r as [|qb r]; [reflexivity|].
  destruct (bytes_eqb [a; b; c] (le_bytes 3 lim)) eqn:Eb; [|reflexivity].
  exfalso. apply Hne. apply bytes_eqb_eq in Eb. rewrite <- E in Eb.
  rewrite pow24 in *. apply (le_bytes_inj 3); assumption.
Qed.

Lemma try_one_frame l q body rest :
  q < 256 -> l < 2 ^ 24 -> Nlen body = l ->
  try_one (le_bytes 3 l ++ b_of_N q :: body ++ rest) = Some (q, body, rest).
Proof.
  intros Hq Hl Hb. destruct (le_bytes3_shape l) as (a & b & c & E).
  unfold try_one. rewrite E. cbn [app]. rewrite <- E.
  rewrite le_val_le_bytes by (rewrite <- pow24; assumption).
  rewrite <- Hb. rewrite take_cnt_app. rewrite N_of_b_of_N_small by assumption. reflexivity.
Qed.

(* a packet (header, id, body) cut anywhere before its end: neither parser succeeds *)
Lemma cut_pkt lim l qb body x z :
  lim < 2 ^ 24 -> l < 2 ^ 24 -> Nlen body = l ->
  le_bytes 3 l ++ qb :: body = x ++ z -> z <> [] ->
  try_full lim x = None /\ try_one x = None.
Proof.
  intros Hlim Hl Hb Heq Hz. destruct (le_bytes3_shape l) as (a & b & c & E).
  rewrite E in Heq. cbn [app] in Heq.
  destruct x as [|a' [|b' [|c' [|q' r]]]]; try (split; reflexivity).
  cbn [app] in Heq. injection Heq as <- <- <- <- Hbody.
  assert (Hr : Nlen r < l).
  { rewrite <- Hb, Hbody, Nlen_app. destruct z as [|z0 z]; [congruence|].
    rewrite Nlen_cons. lia. }
  split.
  - unfold try_full. destruct (bytes_eqb [a; b; c] (le_bytes 3 lim)) eqn:Eb; [|reflexivity].
    apply bytes_eqb_eq in Eb. rewrite <- E in Eb.
    assert (l = lim) by (rewrite pow24 in *; apply (le_bytes_inj 3); assumption).
    subst lim. rewrite take_cnt_short by assumption. reflexivity.
  - unfold try_one. rewrite <- E.
    rewrite le_val_le_bytes by (rewrite <- pow24; assumption).
    rewrite take_cnt_short by assumption. reflexivity.
Qed.

(* ---- helpers: one iteration of packet_f ---- *)

Definition acc_ok (acc : option (N * bytes)) (q : N) : Prop :=
  match acc with None => True | Some (q0, _) => q = (q0 + 1) mod 256 end.
Definition acc_pay (acc : option (N * bytes)) : bytes :=
  match acc with None => [] | Some (_, p0) => p0 end.

Lemma packet_f_full_step f lim acc q body rest x :
  acc_ok acc q -> try_full lim x = Some (q, body, rest) ->
  packet_f (S f) lim acc true x = packet_f f lim (Some (q, acc_pay acc ++ body)) true rest.
Proof.
  intros Hacc Hfull. cbn [packet_f]. rewrite Hfull.
  destruct acc as [[q0 p0]|]; cbn [acc_ok acc_pay app] in *.
  - rewrite <- Hacc. rewrite N.eqb_refl. reflexivity.
  - reflexivity.
Qed.

Lemma packet_f_one_step f lim acc q body rest x :
  acc_ok acc q -> try_full lim x = None -> try_one x = Some (q, body, rest) ->
  packet_f (S f) lim acc true x = PDone q (acc_pay acc ++ body) rest.
Proof.
  intros Hacc Hfull Hone. cbn [packet_f]. rewrite Hfull, Hone.
  destruct acc as [[q0 p0]|]; cbn [acc_ok acc_pay app] in *.
  - rewrite <- Hacc. rewrite N.eqb_refl. reflexivity.
  - reflexivity.
Qed.

Lemma packet_f_need f lim acc ok x :
  try_full lim x = None -> try_one x = None -> packet_f (S f) lim acc ok x = PNeed.
Proof. intros Hfull Hone. cbn [packet_f]. rewrite Hfull, Hone. reflexivity. Qed.

Lemma succ_lt256 q : (q + 1) mod 256 < 256.
Proof. apply N.mod_lt. lia. Qed.

(* ---- packet() on a complete frame ---- *)

Lemma packet_f_frame lim : 0 < lim -> lim < 2 ^ 24 ->
  forall n p, (length p < n)%nat -> forall fuel q acc rest,
  q < 256 -> acc_ok acc q -> (length (frame lim q p ++ rest) < fuel)%nat ->
  packet_f fuel lim acc true (frame lim q p ++ rest) = PDone (last_seq lim q p) (acc_pay acc ++ p) rest.
Proof.
  intros Hlim Hlim24. induction n as [|n IH]; intros p Hn fuel q acc rest Hq Hacc Hfuel; [lia|].
  destruct fuel as [|f]; [lia|].
  rewrite (frame_unfold lim q p Hlim) in *.
  destruct (N.leb_spec lim (Nlen p)) as [Hle|Hgt].
  - assert (Hb : Nlen (firstn (N.to_nat lim) p) = lim) by (apply Nlen_firstn_le; exact Hle).
    rewrite pkt_assoc in *.
    rewrite (packet_f_full_step f lim acc q _ _ _ Hacc (try_full_frame lim q _ _ Hq Hb)).
    rewrite IH.
    + f_equal.
      * apply last_seq_step; assumption.
      * cbn [acc_pay]. rewrite <- app_assoc. rewrite firstn_skipn. reflexivity.
    + apply length_skipn_lt; assumption.
    + apply succ_lt256.
    + cbn [acc_ok]. reflexivity.
    + rewrite app_length in Hfuel. cbn [length] in Hfuel. rewrite app_length in Hfuel. lia.
  - rewrite pkt_assoc1.
    rewrite (packet_f_one_step f lim acc q p rest).
    + rewrite last_seq_small by assumption. reflexivity.
    + assumption.
    + apply try_full_other; lia.
    + apply try_one_frame; [assumption|lia|reflexivity].
Qed.

(* ---- packet() on a strict prefix of a frame ---- *)

Lemma packet_f_prefix lim : 0 < lim -> lim < 2 ^ 24 ->
  forall n p, (length p < n)%nat -> forall fuel q acc x y,
  q < 256 -> acc_ok acc q -> x ++ y = frame lim q p -> y <> [] -> (length x < fuel)%nat ->
  packet_f fuel lim acc true x = PNeed.
Proof.
  intros Hlim Hlim24. induction n as [|n IH]; intros p Hn fuel q acc x y Hq Hacc Heq Hy Hfuel; [lia|].
  destruct fuel as [|f]; [lia|].
  rewrite (frame_unfold lim q p Hlim) in Heq.
  destruct (N.leb_spec lim (Nlen p)) as [Hle|Hgt].
  - assert (Hb : Nlen (firstn (N.to_nat lim) p) = lim) by (apply Nlen_firstn_le; exact Hle).
    change (le_bytes 3 lim ++ b_of_N q :: firstn (N.to_nat lim) p
              ++ frame lim ((q + 1) mod 256) (skipn (N.to_nat lim) p))
      with (le_bytes 3 lim ++ (b_of_N q :: firstn (N.to_nat lim) p)
              ++ frame lim ((q + 1) mod 256) (skipn (N.to_nat lim) p)) in Heq.
    rewrite app_assoc in Heq.
    apply app_split in Heq. destruct Heq as [(l & Hx & Hl)|(l & Hl & Hcut & _)].
    + subst x. rewrite <- app_assoc. cbn [app].
      rewrite (packet_f_full_step f lim acc q _ _ _ Hacc (try_full_frame lim q _ _ Hq Hb)).
      apply (IH (skipn (N.to_nat lim) p)) with (q := (q + 1) mod 256) (y := y).
      * apply length_skipn_lt; assumption.
      * apply succ_lt256.
      * cbn [acc_ok]. reflexivity.
      * assumption.
      * assumption.
      * rewrite app_length in Hfuel. rewrite app_length in Hfuel. cbn [length] in Hfuel. lia.
    + destruct (cut_pkt lim lim _ _ x l Hlim24 Hlim24 Hb Hcut Hl) as [H1 H2].
      apply packet_f_need; assumption.
  - assert (Hp24 : Nlen p < 2 ^ 24) by lia.
    symmetry in Heq.
    destruct (cut_pkt lim (Nlen p) _ _ x y Hlim24 Hp24 eq_refl Heq Hy) as [H1 H2].
    apply packet_f_need; assumption.
Qed.

(* a complete framed command at the head of the buffer is returned whole, with the id of its
   last packet, and nothing after it is touched *)
Lemma packet_frame lim q p rest :
  0 < lim -> lim < 2 ^ 24 -> q < 256 ->
  packet lim (frame lim q p ++ rest) = PDone (last_seq lim q p) p rest.
Proof.
  intros Hlim Hlim24 Hq. unfold packet.
  apply (packet_f_frame lim Hlim Hlim24 (S (length p)) p) with (acc := None);
    [lia|assumption|exact I|lia].
Qed.

(* a strict prefix of a framed command never yields a packet (in particular not a wrong one) *)
Lemma packet_prefix lim q p x y :
  0 < lim -> lim < 2 ^ 24 -> q < 256 ->
  x ++ y = frame lim q p -> y <> [] -> packet lim x = PNeed.
Proof.
  intros Hlim Hlim24 Hq Heq Hy. unfold packet.
  apply (packet_f_prefix lim Hlim Hlim24 (S (length p)) p) with (q := q) (y := y) (acc := None);
    [lia|assumption|exact I|assumption|assumption|lia].
Qed.

(* the inbound byte stream still to be consumed: buffered tail, then the scripted reads *)
Fixpoint reads_data (l : list rd) : bytes :=
  match l with
  | [] => []
  | RdData bs :: r => bs ++ reads_data r
  | _ :: r => reads_data r
  end.
Definition all_data (l : list rd) : Prop :=
  Forall (fun r => match r with RdData (_ :: _) => True | _ => False end) l.
Definition inbound (s : st) : bytes := s_buf s ++ reads_data (s_reads s).

(* events appended by next(): reads only *)
Definition only_reads (evs : list event) : Prop :=
  Forall (fun e => match e with ERead _ => True | _ => False end) evs.
Definition next_frame_post (s s' : st) : Prop :=
  s_fault s' = s_fault s /\ s_lim s' = s_lim s /\ s_tw s' = s_tw s /\ s_seq s' = s_seq s /\
  s_cont s' = s_cont s /\ s_park s' = s_park s /\ s_wops s' = s_wops s /\
  (exists evs, s_trace s' = evs ++ s_trace s /\ only_reads evs) /\
  (exists k, s_reads s' = skipn k (s_reads s)).

(* ---- helpers: one iteration of next_f ---- *)

Lemma packet_nil lim : packet lim [] = PNeed.
Proof. reflexivity. Qed.

Lemma next_f_S f s :
  next_f (S f) s =
    match packet (s_lim s) (s_buf s) with
    | PDone q p rest => (ROk (Some (q, p)), set_buf rest s)
    | PBadSeq => (RErr EInvalidData, s)
    | PFuel => (RPanic POutOfFuel, s)
    | PNeed =>
        match t_read s with
        | (ROk chunk, s1) =>
            let s2 := set_buf (s_buf s1 ++ chunk) s1 in
            match chunk with
            | [] => match s_buf s2 with
                    | [] => (ROk None, s2)
                    | _ => (RErr EUnexpectedEof, s2)
                    end
            | _ => next_f f s2
            end
        | (RErr e, s1) => (RErr e, s1)
        | (RPanic p, s1) => (RPanic p, s1)
        end
    end.
Proof. cbn [next_f]. destruct (s_buf s); reflexivity. Qed.

Lemma next_f_done f s q p rest :
  packet (s_lim s) (s_buf s) = PDone q p rest ->
  next_f (S f) s = (ROk (Some (q, p)), set_buf rest s).
Proof. intros H. rewrite next_f_S, H. reflexivity. Qed.

Definition after_read (bs : bytes) (r : list rd) (s : st) : st :=
  set_buf (s_buf s ++ bs) (upd_trace (ERead (Nlen bs)) (set_reads r s)).

Lemma next_f_data f s b bs r :
  packet (s_lim s) (s_buf s) = PNeed -> s_reads s = RdData (b :: bs) :: r ->
  next_f (S f) s = next_f f (after_read (b :: bs) r s).
Proof. intros H Hr. rewrite next_f_S, H. unfold t_read. rewrite Hr. reflexivity. Qed.

Lemma next_f_end_empty f s :
  s_buf s = [] -> s_reads s = [] ->
  next_f (S f) s = (ROk None, set_buf [] (upd_trace (ERead 0) s)).
Proof.
  intros Hb Hr. rewrite next_f_S, Hb, packet_nil. unfold t_read. rewrite Hr.
  cbn [s_buf upd_trace set_buf]. rewrite Hb. reflexivity.
Qed.

Lemma next_f_end_cut f s :
  packet (s_lim s) (s_buf s) = PNeed -> s_buf s <> [] -> s_reads s = [] ->
  exists s', next_f (S f) s = (RErr EUnexpectedEof, s').
Proof.
  intros H Hb Hr. rewrite next_f_S, H. unfold t_read. rewrite Hr.
  cbn [s_buf upd_trace set_buf]. rewrite app_nil_r.
  destruct (s_buf s) as [|b0 bs0]; [congruence|]. eexists. reflexivity.
Qed.

Lemma all_data_cons r l : all_data (r :: l) ->
  (exists b bs, r = RdData (b :: bs)) /\ all_data l.
Proof.
  intros H. inversion H as [|? ? Hr Hl]; subst. split; [|exact Hl].
  destruct r as [[|b bs]| |]; try contradiction. eauto.
Qed.

Lemma all_data_skipn k l : all_data l -> all_data (skipn k l).
Proof.
  revert l. induction k as [|k IH]; intros l H; [exact H|].
  destruct l as [|r l]; [exact H|]. cbn [skipn]. apply IH.
  inversion H; assumption.
Qed.

Lemma next_frame_post_done s l : next_frame_post s (set_buf l s).
Proof.
  unfold next_frame_post. cbn [set_buf s_fault s_lim s_tw s_seq s_cont s_park s_wops s_trace s_reads].
  repeat (split; [reflexivity|]). split.
  - exists []. split; [reflexivity|constructor].
  - exists 0%nat. reflexivity.
Qed.

Lemma next_frame_post_step s bs x r s' :
  s_reads s = x :: r -> next_frame_post (after_read bs r s) s' -> next_frame_post s s'.
Proof.
  intros Hr (H1 & H2 & H3 & H4 & H5 & H6 & H7 & (evs & Hev & Hon) & (k & Hk)).
  unfold after_read in *.
  cbn [set_buf upd_trace set_reads s_fault s_lim s_tw s_seq s_cont s_park s_wops s_trace s_reads] in *.
  unfold next_frame_post. repeat (split; [assumption|]). split.
  - exists (evs ++ [ERead (Nlen bs)]). split.
    + rewrite <- app_assoc. exact Hev.
    + apply Forall_app. split; [exact Hon|]. constructor; [exact I|constructor].
  - exists (S k). rewrite Hr. exact Hk.
Qed.

(* the read loop, for any sufficient fuel *)
Lemma next_f_frame q p rest : q < 256 ->
  forall reads, all_data reads -> forall fuel s,
  s_reads s = reads -> (length reads < fuel)%nat ->
  0 < s_lim s -> s_lim s < 2 ^ 24 ->
  inbound s = frame (s_lim s) q p ++ rest ->
  exists s',
    next_f fuel s = (ROk (Some (last_seq (s_lim s) q p, p)), s') /\
    inbound s' = rest /\ all_data (s_reads s') /\ next_frame_post s s'.
Proof.
  intros Hq. induction reads as [|r reads IH]; intros Hall fuel s Hr Hfuel Hl Hl24 Hin;
    (destruct fuel as [|f]; [cbn [length] in Hfuel; lia|]);
    unfold inbound in Hin; pose proof Hin as Hin0;
    apply app_split in Hin; destruct Hin as [(l & Hb & Hrest)|(l & Hlne & Hcut & Hrd)].
  - exists (set_buf l s). split; [|split; [|split]].
    + apply next_f_done. rewrite Hb. apply packet_frame; assumption.
    + unfold inbound. cbn [set_buf s_buf s_reads]. exact Hrest.
    + cbn [set_buf s_reads]. rewrite Hr. exact Hall.
    + apply next_frame_post_done.
  - exfalso. rewrite Hr in Hrd. cbn [reads_data] in Hrd.
    destruct l; [congruence|discriminate].
  - exists (set_buf l s). split; [|split; [|split]].
    + apply next_f_done. rewrite Hb. apply packet_frame; assumption.
    + unfold inbound. cbn [set_buf s_buf s_reads]. exact Hrest.
    + cbn [set_buf s_reads]. rewrite Hr. exact Hall.
    + apply next_frame_post_done.
  - apply all_data_cons in Hall. destruct Hall as [(b & bs & ->) Hall].
    assert (Hneed : packet (s_lim s) (s_buf s) = PNeed).
    { apply (packet_prefix (s_lim s) q p (s_buf s) l); auto. }
    rewrite (next_f_data f s b bs reads Hneed Hr).
    destruct (IH Hall f (after_read (b :: bs) reads s) eq_refl ltac:(cbn [length] in Hfuel; lia) Hl Hl24)
      as (s' & Hn & Hin' & Hall' & Hpost).
    { unfold inbound, after_read. cbn [set_buf upd_trace set_reads s_buf s_reads s_lim].
      rewrite <- app_assoc. rewrite <- Hin0. rewrite Hr. reflexivity. }
    exists s'. split; [exact Hn|]. split; [exact Hin'|]. split; [exact Hall'|].
    apply (next_frame_post_step s (b :: bs) _ reads s' Hr Hpost).
Qed.

(* whatever the chunking, next() returns exactly the next framed command and leaves exactly
   the rest of the stream to be consumed *)
Lemma next_frame s q p rest :
  0 < s_lim s -> s_lim s < 2 ^ 24 -> q < 256 ->
  all_data (s_reads s) ->
  inbound s = frame (s_lim s) q p ++ rest ->
  exists s',
    next s = (ROk (Some (last_seq (s_lim s) q p, p)), s') /\
    inbound s' = rest /\ all_data (s_reads s') /\ next_frame_post s s'.
Proof.
  intros Hl Hl24 Hq Hall Hin. unfold next.
  apply (next_f_frame q p rest Hq (s_reads s) Hall); auto.
Qed.

(* clean end of stream at a packet boundary *)
Lemma next_eof s :
  all_data (s_reads s) -> inbound s = [] ->
  exists s', next s = (ROk None, s') /\ s_buf s' = [] /\ s_reads s' = [] /\
             s_trace s' = ERead 0 :: s_trace s.
Proof.
  intros Hall Hin. unfold inbound in Hin. apply app_eq_nil in Hin. destruct Hin as [Hb Hrd].
  assert (Hr : s_reads s = []).
  { destruct (s_reads s) as [|r l]; [reflexivity|]. exfalso.
    apply all_data_cons in Hall. destruct Hall as [(b & bs & ->) _].
    cbn [reads_data app] in Hrd. discriminate. }
  exists (set_buf [] (upd_trace (ERead 0) s)). split; [|split; [|split]].
  - unfold next. apply next_f_end_empty; assumption.
  - reflexivity.
  - cbn [set_buf upd_trace s_reads]. exact Hr.
  - reflexivity.
Qed.

(* the read loop on a stream that ends inside a frame, for any sufficient fuel *)
Lemma next_f_truncated q p : q < 256 ->
  forall reads, all_data reads -> forall fuel s y,
  s_reads s = reads -> (length reads < fuel)%nat ->
  0 < s_lim s -> s_lim s < 2 ^ 24 ->
  inbound s <> [] -> y <> [] -> inbound s ++ y = frame (s_lim s) q p ->
  exists s', next_f fuel s = (RErr EUnexpectedEof, s').
Proof.
  intros Hq. induction reads as [|r reads IH]; intros Hall fuel s y Hr Hfuel Hl Hl24 Hne Hy Heq;
    (destruct fuel as [|f]; [cbn [length] in Hfuel; lia|]);
    unfold inbound in *; rewrite Hr in *.
  - cbn [reads_data] in *. rewrite app_nil_r in *.
    apply next_f_end_cut; [|assumption|assumption].
    apply (packet_prefix (s_lim s) q p (s_buf s) y); assumption.
  - apply all_data_cons in Hall. destruct Hall as [(b & bs & ->) Hall].
    cbn [reads_data] in *.
    assert (Hneed : packet (s_lim s) (s_buf s) = PNeed).
    { apply (packet_prefix (s_lim s) q p (s_buf s) (((b :: bs) ++ reads_data reads) ++ y));
        try assumption.
      - rewrite app_assoc. exact Heq.
      - cbn [app]. discriminate. }
    rewrite (next_f_data f s b bs reads Hneed Hr).
    apply (IH Hall f (after_read (b :: bs) reads s) y); try assumption.
    + reflexivity.
    + cbn [length] in Hfuel. lia.
    + unfold inbound, after_read. cbn [set_buf upd_trace set_reads s_buf s_reads].
      rewrite <- app_assoc. exact Hne.
    + unfold inbound, after_read. cbn [set_buf upd_trace set_reads s_buf s_reads s_lim].
      rewrite <- (app_assoc (s_buf s) (b :: bs)). exact Heq.
Qed.

(* the stream ends inside a packet: an error, never a packet *)
Lemma next_truncated s q p x y :
  0 < s_lim s -> s_lim s < 2 ^ 24 -> q < 256 ->
  all_data (s_reads s) ->
  inbound s = x -> x <> [] -> y <> [] -> x ++ y = frame (s_lim s) q p ->
  exists s', next s = (RErr EUnexpectedEof, s').
Proof.
  intros Hl Hl24 Hq Hall Hin Hx Hy Heq. subst x. unfold next.
  apply (next_f_truncated q p Hq (s_reads s) Hall _ s y); auto.
Qed.

(* all commands of a stream, in order, exactly once: iterate next() *)
Fixpoint drain (fuel : nat) (s : st) : list (N * bytes) * res unit * st :=
  match fuel with
  | O => ([], RPanic POutOfFuel, s)
  | S f =>
    match next s with
    | (ROk (Some x), s') => let '(l, r, s'') := drain f s' in (x :: l, r, s'')
    | (ROk None, s') => ([], ROk tt, s')
    | (RErr e, s') => ([], RErr e, s')
    | (RPanic p, s') => ([], RPanic p, s')
    end
  end.
Fixpoint frames (lim : N) (cmds : list (N * bytes)) : bytes :=
  match cmds with [] => [] | (q, p) :: r => frame lim q p ++ frames lim r end.

Lemma drain_S f s :
  drain (S f) s =
    match next s with
    | (ROk (Some x), s') => let '(l, r, s'') := drain f s' in (x :: l, r, s'')
    | (ROk None, s') => ([], ROk tt, s')
    | (RErr e, s') => ([], RErr e, s')
    | (RPanic p, s') => ([], RPanic p, s')
    end.
Proof. reflexivity. Qed.

Theorem reassembly s cmds :
  0 < s_lim s -> s_lim s < 2 ^ 24 -> Forall (fun c => fst c < 256) cmds ->
  all_data (s_reads s) ->
  inbound s = frames (s_lim s) cmds ->
  exists s',
    drain (S (length cmds)) s =
      (map (fun c => (last_seq (s_lim s) (fst c) (snd c), snd c)) cmds, ROk tt, s').
Proof.
  revert s. induction cmds as [|[q p] cmds IH]; intros s Hl Hl24 Hq Hall Hin.
  - cbn [frames] in Hin. destruct (next_eof s Hall Hin) as (s' & Hn & _).
    exists s'. cbn [length map]. rewrite drain_S, Hn. reflexivity.
  - cbn [frames] in Hin. inversion Hq as [|? ? Hq1 Hq2]; subst. cbn [fst] in Hq1.
    destruct (next_frame s q p _ Hl Hl24 Hq1 Hall Hin) as (s1 & Hn & Hin1 & Hall1 & Hpost).
    destruct Hpost as (_ & Hlim1 & _).
    destruct (IH s1) as (s' & Hd).
    + rewrite Hlim1. exact Hl.
    + rewrite Hlim1. exact Hl24.
    + exact Hq2.
    + exact Hall1.
    + rewrite Hlim1. exact Hin1.
    + exists s'. cbn [length]. rewrite drain_S, Hn, Hd. rewrite Hlim1.
      cbn [map fst snd]. reflexivity.
Qed.

Print Assumptions reassembly.
Print Assumptions next_frame.
Print Assumptions packet_prefix.
