(* C20 (termination half) and panic-site enumeration: for EVERY world (any read script, any fault
   plan), every shim script and every configuration, the model's run of a connection never runs out
   of fuel -- the fuel computed from the input is always enough, i.e. the loops terminate -- and
   any panic it reports is one of the named, data-reachable sites.  Proofs only; statements fixed. *)
From MsqlVerif Require Import Model.Server Proofs.BaseLemmas Proofs.HdrLemmas.
From Coq Require Import Lia.
Open Scope N_scope.

(* ================= helper machinery ================= *)

(* a result whose panic (if any) satisfies Q *)
Definition RP {A} (Q : site -> Prop) (r : res A) : Prop :=
  match r with RPanic p => Q p | _ => True end.

Lemma RP_rbind {A B} Q (r : res A) (f : A -> res B) :
  RP Q r -> (forall a, RP Q (f a)) -> RP Q (rbind r f).
Proof. intros Hr Hf. destruct r as [a|e|p]; cbn [rbind]; [apply Hf | exact I | exact Hr]. Qed.

(* case-split every match in the goal *)
Ltac brk :=
  repeat (cbv beta iota zeta;
          match goal with
          | |- context [match ?x with _ => _ end] =>
              lazymatch x with
              | context [match _ with _ => _ end] => fail
              | _ => destruct x
              end
          end).

(* same as [inbound_len] below *)
Definition ilen (s : st) : nat := (length (s_buf s) + reads_len (s_reads s))%nat.

Scheme qprog_mind := Induction for qprog Sort Prop
  with rprog_mind := Induction for rprog Sort Prop.
Combined Scheme qr_mutind from qprog_mind, rprog_mind.

(* ---- pure encoders / decoders: which panics ---- *)

Lemma text_cell_np Q v : RP Q (text_cell v).
Proof.
  induction v; cbn [text_cell]; try exact I; try assumption.
  destruct m; cbn [myc_text_cell]; brk; exact I.
Qed.
Lemma to_text_np Q v : RP Q (to_text v).
Proof. unfold to_text. apply RP_rbind; [apply text_cell_np | intro; exact I]. Qed.

Lemma encode_int_np Q t z ct cs : RP Q (encode_int t z ct cs).
Proof.
  unfold encode_int, bad. destruct (int_col_bytes ct); [|exact I]. brk; exact I.
Qed.
Lemma encode_myc_int_np Q n ct cs : RP Q (encode_myc_int n ct cs).
Proof. unfold encode_myc_int, bad. brk; first [exact I | apply encode_int_np]. Qed.
Lemma bin_f32_np Q a b ct : RP Q (bin_f32 a b ct).
Proof. unfold bin_f32, bad. brk; exact I. Qed.
Lemma bin_f64_np Q a ct : RP Q (bin_f64 a ct).
Proof. unfold bin_f64, bad. brk; exact I. Qed.
Lemma bin_bytes_np Q a ct : RP Q (bin_bytes a ct).
Proof. unfold bin_bytes, bad. destruct (is_bytes_col ct); exact I. Qed.
Lemma bin_date_np Q y m d ct : RP Q (bin_date y m d ct).
Proof. unfold bin_date, bad. brk; exact I. Qed.
Lemma bin_datetime_np Q y m d h mi s n ct : RP Q (bin_datetime y m d h mi s n ct).
Proof. unfold bin_datetime, bad. brk; exact I. Qed.
Lemma bin_duration_np Q s n ct : RP Q (bin_duration s n ct).
Proof. unfold bin_duration, bad. brk; exact I. Qed.

Ltac np_fin :=
  first [ exact I | assumption | apply encode_int_np | apply encode_myc_int_np | apply bin_f32_np
        | apply bin_f64_np | apply bin_bytes_np | apply bin_date_np | apply bin_datetime_np
        | apply bin_duration_np ].

Lemma myc_bin_np (Q : site -> Prop) m c : Q PNullBin -> RP Q (myc_bin m c).
Proof.
  intro H. destruct m; unfold myc_bin; cbv beta iota zeta; try np_fin; brk; np_fin.
Qed.
Lemma to_bin_np (Q : site -> Prop) v c : Q PNullBin -> RP Q (to_bin v c).
Proof.
  intro H. induction v; cbn [to_bin]; try np_fin.
  apply myc_bin_np; exact H.
Qed.

Section PureParams.
Variable fpext : N -> N.
Variable fptrunc : N -> N.
Variable Q : site -> Prop.

Lemma parse_value_np i ct u : RP Q (parse_value fpext i ct u).
Proof.
  unfold parse_value, rbind, read_len8, read_fixed, read_lenenc.
  destruct (is_bytes_col ct).
  - brk; exact I.
  - brk; exact I.
Qed.

Hypothesis HSplitNull : Q PParamsSplitNull.
Hypothesis HSplitTypes : Q PParamsSplitTypes.
Hypothesis HBadType : Q PParamsBadType.
Hypothesis HBoundIndex : Q PParamsBoundIndex.
Hypothesis HValue : Q PParamsValue.

Lemma parse_types_np n : forall tm, RP Q (parse_types n tm).
Proof.
  induction n as [|n IH]; intro tm; cbn [parse_types]; [exact I|].
  destruct tm as [|t [|f r]]; try exact HSplitTypes.
  destruct (coltype_known _); [|exact HBadType].
  apply RP_rbind; [apply IH | intro; exact I].
Qed.
Lemma params_header_np p : RP Q (params_header p).
Proof.
  unfold params_header. destruct (p_nullmap p); [exact I|]. cbv zeta.
  destruct (take_n _ _) as [[nm rest]|]; [|exact HSplitNull].
  destruct rest as [|flag rest1]; [exact I|].
  destruct (byte_eqb flag x00); [exact I|].
  destruct (take_n _ _) as [[tm rest2]|]; [|exact HSplitTypes].
  apply RP_rbind; [apply parse_types_np | intro; exact I].
Qed.
Lemma params_next_np p0 : RP Q (params_next fpext p0).
Proof.
  unfold params_next. apply RP_rbind; [apply params_header_np | intro p].
  destruct (_ <=? _); [exact I|].
  destruct (nth_error _ _) as [[ct uns]|]; [|exact HBoundIndex]. cbv zeta.
  destruct (nth_error _ _); [|exact I].
  destruct (N.testbit _ _); [exact I|].
  destruct (lookup _ _); [exact I|].
  pose proof (parse_value_np (p_input p) ct uns) as X. revert X.
  destruct (parse_value _ _ _ _) as [[v rest]|e|s]; intro X; [exact I | exact HValue | exact X].
Qed.

Hypothesis HConv : Q PConv.
Hypothesis HConvOverflow : Q PConvOverflow.
Lemma convert_np k v : RP Q (convert fptrunc k v).
Proof.
  unfold convert, conv_int, conv_date, conv_datetime, conv_dur, rbind.
  destruct k; brk; first [exact I | exact HConv | exact HConvOverflow].
Qed.
End PureParams.

(* ---- state-monad closure lemmas ---- *)

Section Closure.
Variable P : site -> Prop.

(* never reads: inbound side untouched, panics in P *)
Definition W {A} (m : M A) : Prop :=
  forall s, RP P (fst (m s)) /\ ilen (snd (m s)) = ilen s.
(* may read: inbound side never grows, panics in P *)
Definition NI {A} (m : M A) : Prop :=
  forall s, RP P (fst (m s)) /\ (ilen (snd (m s)) <= ilen s)%nat.

Lemma W_NI {A} (m : M A) : W m -> NI m.
Proof. intros H s. destruct (H s) as [H1 H2]. split; [exact H1 | lia]. Qed.

Lemma W_ret {A} (a : A) : W (ret a).
Proof. intro s. split; [exact I | reflexivity]. Qed.
Lemma W_fail {A} e : W (@fail A e).
Proof. intro s. split; [exact I | reflexivity]. Qed.
Lemma W_panic {A} p : P p -> W (@panic A p).
Proof. intros H s. split; [exact H | reflexivity]. Qed.
Lemma W_lift {A} (r : res A) : RP P r -> W (lift r).
Proof. intros H s. split; [exact H | reflexivity]. Qed.
Lemma W_bind {A B} (m : M A) (f : A -> M B) : W m -> (forall a, W (f a)) -> W (bind m f).
Proof.
  intros Hm Hf s. unfold bind. destruct (Hm s) as [H1 H2].
  destruct (m s) as [[a|e|p] s']; cbn [fst snd] in *.
  - destruct (Hf a s') as [H3 H4]. split; [exact H3 | congruence].
  - split; [exact I | exact H2].
  - split; [exact H1 | exact H2].
Qed.
Lemma NI_bind {A B} (m : M A) (f : A -> M B) : NI m -> (forall a, NI (f a)) -> NI (bind m f).
Proof.
  intros Hm Hf s. unfold bind. destruct (Hm s) as [H1 H2].
  destruct (m s) as [[a|e|p] s']; cbn [fst snd] in *.
  - destruct (Hf a s') as [H3 H4]. split; [exact H3 | lia].
  - split; [exact I | exact H2].
  - split; [exact H1 | exact H2].
Qed.
Lemma W_attempt {A} (m : M A) : W m -> W (attempt m).
Proof.
  intros Hm s. unfold attempt. destruct (Hm s) as [H1 H2].
  destruct (m s) as [[a|e|p] s']; cbn [fst snd] in *; split; try exact I; assumption.
Qed.
Lemma W_park_on_err (m : M unit) : W m -> W (park_on_err m).
Proof.
  intros Hm s. unfold park_on_err. destruct (Hm s) as [H1 H2].
  destruct (m s) as [[a|e|p] s']; cbn [fst snd] in *; split; try exact I; try assumption.
  destruct (s_park s'); exact H2.
Qed.

Lemma W_log_call c : W (log_call c).
Proof. intro s. split; [exact I | reflexivity]. Qed.
Lemma W_log_api r : W (log_api r).
Proof. intro s. split; [exact I | reflexivity]. Qed.
Lemma W_set_seq q : W (set_seq q).
Proof. intro s. split; [exact I | reflexivity]. Qed.
Lemma W_park e : W (park e).
Proof. intro s. unfold park. split; [exact I | destruct (s_park s); reflexivity]. Qed.
Lemma W_t_write bs : W (t_write bs).
Proof.
  intro s. unfold t_write. cbv zeta.
  destruct (fault_at (s_fault s) (s_wops s)); split; try exact I; reflexivity.
Qed.
Lemma W_t_flush : W t_flush.
Proof.
  intro s. unfold t_flush. cbv zeta.
  destruct (fault_at (s_fault s) (s_wops s)); split; try exact I; reflexivity.
Qed.
Lemma W_end_packet : W end_packet.
Proof.
  intro s. unfold end_packet. cbv zeta.
  destruct (_ && _); [split; [exact I | reflexivity]|].
  match goal with |- context [t_write ?b ?s1] =>
    destruct (W_t_write b s1) as [H1 H2]; destruct (t_write b s1) as [[a|e|p] s2] end;
  cbn [fst snd] in *; split; try exact I; try assumption; exact H2.
Qed.

Lemma W_write_all_f fuel : forall bs, (length bs < fuel)%nat -> W (write_all_f fuel bs).
Proof.
  induction fuel as [|f IH]; intros bs Hlt; [lia|].
  destruct bs as [|b bs']; [apply W_ret|].
  intro s. cbn [write_all_f].
  set (bs := b :: bs') in *.
  set (left := N.to_nat (N.min (Nlen bs) (s_lim s - Nlen (s_tw s)))).
  set (cont := if Nat.eqb left 0 then fail EWriteZero else write_all_f f (skipn left bs)).
  assert (Hc : W cont).
  { unfold cont. destruct (Nat.eqb_spec left 0) as [E|E]; [apply W_fail|].
    apply IH. rewrite skipn_length.
    assert (length bs = S (length bs')) by reflexivity. lia. }
  set (s1 := set_tw (s_tw s ++ firstn left bs) s).
  change (ilen s) with (ilen s1).
  destruct (_ =? _); [apply (W_bind end_packet (fun _ => cont) W_end_packet (fun _ => Hc)) | apply Hc].
Qed.
Lemma W_write_all bs : W (write_all bs).
Proof. apply W_write_all_f. lia. Qed.
Lemma W_flush : W flush.
Proof.
  intro s. unfold flush. destruct (s_park s).
  - split; [exact I | reflexivity].
  - apply (W_bind end_packet (fun _ => t_flush) W_end_packet (fun _ => W_t_flush)).
Qed.
Lemma W_send msg : W (send msg).
Proof. unfold send. apply W_bind; [apply W_write_all | intro; apply W_end_packet]. Qed.
Lemma W_send_all msgs : W (send_all msgs).
Proof.
  induction msgs as [|m r IH]; cbn [send_all]; [apply W_ret|].
  apply W_bind; [apply W_send | intro; exact IH].
Qed.

End Closure.

(* ================= the packet layer ================= *)

(* the loops of the packet layer *)
Lemma write_all_total bs s : fst (write_all bs s) <> RPanic POutOfFuel.
Proof.
  destruct (W_write_all (fun _ => False) bs s) as [H _]. intro E. rewrite E in H. exact H.
Qed.

Lemma try_full_rest lim i q body rest :
  try_full lim i = Some (q, body, rest) -> (length rest + 4 <= length i)%nat.
Proof.
  unfold try_full. destruct i as [|a [|b [|c [|q0 r]]]]; try discriminate.
  destruct (bytes_eqb _ _); [|discriminate].
  rewrite take_cnt_spec. destruct (lim <=? Nlen r); [|discriminate].
  intro H. injection H as _ _ H3. subst rest. cbn [length]. rewrite skipn_length. lia.
Qed.
Lemma try_one_rest i q body rest :
  try_one i = Some (q, body, rest) -> (length rest + 4 <= length i)%nat.
Proof.
  unfold try_one. destruct i as [|a [|b [|c [|q0 r]]]]; try discriminate.
  rewrite take_cnt_spec. destruct (_ <=? Nlen r); [|discriminate].
  intro H. injection H as _ _ H3. subst rest. cbn [length]. rewrite skipn_length. lia.
Qed.

Lemma packet_f_ok fuel : forall lim acc ok i, (length i < fuel)%nat ->
  packet_f fuel lim acc ok i <> PFuel /\
  (forall q p rest, packet_f fuel lim acc ok i = PDone q p rest -> (length rest + 4 <= length i)%nat).
Proof.
  induction fuel as [|f IH]; intros lim acc ok i Hlt; [lia|].
  cbn [packet_f].
  destruct (try_full lim i) as [[[q body] rest]|] eqn:Ef.
  - pose proof (try_full_rest _ _ _ _ _ Ef) as Hr.
    assert (Hf : (length rest < f)%nat) by lia.
    destruct acc as [[q0 p0]|].
    + destruct (IH lim (Some (q, p0 ++ body)) (ok && (q =? (q0 + 1) mod 256)) rest Hf) as [H1 H2].
      split; [exact H1|].
      intros q' p' rest' E. specialize (H2 _ _ _ E). lia.
    + destruct (IH lim (Some (q, body)) ok rest Hf) as [H1 H2]. split; [exact H1|].
      intros q' p' rest' E. specialize (H2 _ _ _ E). lia.
  - destruct (try_one i) as [[[q body] rest]|] eqn:Eo.
    + pose proof (try_one_rest _ _ _ _ Eo) as Hr.
      destruct acc as [[q0 p0]|]; [destruct (_ && _)|]; (split; [discriminate|]);
        intros q' p' rest' E; try discriminate; injection E as _ _ E3; subst rest'; exact Hr.
    + split; [discriminate | intros; discriminate].
Qed.

Lemma packet_total lim i : packet lim i <> PFuel.
Proof. unfold packet. apply packet_f_ok. lia. Qed.
Lemma packet_rest lim i q p rest :
  packet lim i = PDone q p rest -> (length rest + 4 <= length i)%nat.
Proof. unfold packet. apply packet_f_ok. lia. Qed.

(* what [next] guarantees: it never panics (out-of-order fragment ids are an InvalidData error);
   a returned packet consumed at least 4 inbound bytes; the inbound side never grows *)
Definition next_try (s : st) : pres :=
  match s_buf s with [] => PNeed | _ :: _ => packet (s_lim s) (s_buf s) end.
Definition next_post (s : st) (r : res (option (N * bytes))) (s' : st) : Prop :=
  match r with
  | RPanic _ => False
  | ROk (Some _) => (ilen s' + 4 <= ilen s)%nat
  | _ => True
  end /\ (ilen s' <= ilen s)%nat.

Lemma next_try_ok s :
  next_try s <> PFuel /\
  (forall q p rest, next_try s = PDone q p rest -> (length rest + 4 <= length (s_buf s))%nat).
Proof.
  unfold next_try. destruct (s_buf s) as [|b r] eqn:E.
  - split; [discriminate | intros; discriminate].
  - split; [apply packet_total | apply packet_rest].
Qed.

Lemma next_post_shift s0 s r s' : ilen s0 = ilen s -> next_post s0 r s' -> next_post s r s'.
Proof. unfold next_post. intros <- H. exact H. Qed.

Lemma next_f_post fuel : forall s, (length (s_reads s) < fuel)%nat ->
  next_post s (fst (next_f fuel s)) (snd (next_f fuel s)).
Proof.
  induction fuel as [|f IH]; intros s Hlt; [lia|].
  cbn [next_f].
  change (match s_buf s with [] => PNeed | _ :: _ => packet (s_lim s) (s_buf s) end)
    with (next_try s).
  destruct (next_try_ok s) as [T1 T2].
  destruct (next_try s) as [q p rest| | |].
  - specialize (T2 _ _ _ eq_refl). cbn [fst snd]. unfold next_post, ilen.
    cbn [set_buf s_buf s_reads]. lia.
  - unfold t_read. destruct (s_reads s) as [|[bs| |k] r] eqn:Er.
    + cbn [fst snd]. rewrite app_nil_r.
      cbn [set_buf upd_trace s_buf s_reads].
      destruct (s_buf s) eqn:Eb; cbn [fst snd]; unfold next_post, ilen;
        cbn [set_buf upd_trace s_buf s_reads]; rewrite ?Er, ?Eb; split; try exact I; lia.
    + destruct bs as [|b bs].
      * rewrite app_nil_r. cbn [set_buf upd_trace set_reads s_buf s_reads].
        destruct (s_buf s) eqn:Eb; cbn [fst snd]; unfold next_post, ilen;
          cbn [set_buf upd_trace set_reads s_buf s_reads]; rewrite ?Er, ?Eb;
          cbn [reads_len length]; split; try exact I; lia.
      * match goal with |- next_post s (fst (next_f f ?s2)) _ =>
          apply (next_post_shift s2); [|apply IH] end.
        -- unfold ilen. cbn [set_buf upd_trace set_reads s_buf s_reads]. rewrite Er.
           cbn [reads_len]. rewrite app_length. lia.
        -- cbn [set_buf upd_trace set_reads s_buf s_reads].
           cbn [length] in Hlt. lia.
    + rewrite app_nil_r. cbn [set_buf upd_trace set_reads s_buf s_reads].
      destruct (s_buf s) eqn:Eb; cbn [fst snd]; unfold next_post, ilen;
        cbn [set_buf upd_trace set_reads s_buf s_reads]; rewrite ?Er, ?Eb;
        cbn [reads_len length]; split; try exact I; lia.
    + cbn [fst snd]. unfold next_post, ilen.
      cbn [set_buf upd_trace set_reads s_buf s_reads]. rewrite Er. cbn [reads_len].
      split; [exact I | lia].
  - cbn [fst snd]. unfold next_post. split; [exact I | lia].
  - contradiction.
Qed.

Lemma next_post_thm s : next_post s (fst (next s)) (snd (next s)).
Proof. unfold next. apply next_f_post. lia. Qed.

(* the packet layer never panics: out-of-order fragment sequence ids are a parse failure *)
Lemma next_never_panics s p : fst (next s) <> RPanic p.
Proof.
  destruct (next_post_thm s) as [H _]. intro E. rewrite E in H. exact H.
Qed.
Lemma next_total s : fst (next s) <> RPanic POutOfFuel.
Proof. apply next_never_panics. Qed.
(* kept for its users: vacuously true, since next never panics *)
Lemma next_panics s p : fst (next s) = RPanic p -> p = PFragSeq.
Proof. intro E. exfalso. exact (next_never_panics s p E). Qed.

(* bytes still to come from the client *)
Definition inbound_len (s : st) : nat := (length (s_buf s) + reads_len (s_reads s))%nat.
(* next consumes at least the 4 header bytes of the packet it returns, and never adds input *)
Lemma next_consumes s x s' : next s = (ROk (Some x), s') -> (inbound_len s' + 4 <= inbound_len s)%nat.
Proof.
  intro E. destruct (next_post_thm s) as [H _]. rewrite E in H. exact H.
Qed.

(* ================= writers, callbacks, the command loop (generic in the allowed panics) ======= *)

Section Generic.
Variable P : site -> Prop.
Variable fpext : N -> N.
Variable fptrunc : N -> N.
Variable errtab : N -> option (N * bytes).
Hypothesis HSplitNull : P PParamsSplitNull.
Hypothesis HSplitTypes : P PParamsSplitTypes.
Hypothesis HBadType : P PParamsBadType.
Hypothesis HBoundIndex : P PParamsBoundIndex.
Hypothesis HValue : P PParamsValue.
Hypothesis HConv : P PConv.
Hypothesis HConvOverflow : P PConvOverflow.
Hypothesis HNullBin : P PNullBin.
Hypothesis HFromU16 : P PFromU16.

Lemma to_text_P v : RP P (to_text v).
Proof. apply to_text_np. Qed.
Lemma to_bin_P v c : RP P (to_bin v c).
Proof. apply to_bin_np. exact HNullBin. Qed.
Lemma params_next_P p : RP P (params_next fpext p).
Proof. apply params_next_np; assumption. Qed.
Lemma convert_P k v : RP P (convert fptrunc k v).
Proof. apply convert_np; assumption. Qed.

#[local] Hint Resolve to_text_P to_bin_P params_next_P convert_P : np.
#[local] Hint Resolve W_ret W_fail W_log_call W_log_api W_set_seq W_park W_t_write W_t_flush
  W_end_packet W_write_all W_flush W_send W_send_all : wdb.

(* split a match in a W goal; for a [res] scrutinee remember which panics it may raise *)
Ltac wmatch :=
  match goal with
  | |- W P (match ?x with _ => _ end) =>
      lazymatch type of x with
      | res _ =>
          let H := fresh "HR" in
          assert (H : RP P x) by auto with np; revert H; destruct x; intro H; cbn [RP] in H
      | _ => destruct x
      end
  end.
Ltac wstep :=
  first
    [ assumption
    | solve [auto 1 with wdb]
    | lazymatch goal with |- W P (panic _) => apply W_panic; assumption end
    | lazymatch goal with |- W P (attempt _) => apply W_attempt end
    | lazymatch goal with |- W P (park_on_err _) => apply W_park_on_err end
    | lazymatch goal with |- W P (bind _ _) => apply W_bind; [| intro; cbv beta] end
    | match goal with H : context [W P _] |- _ => apply H end
    | wmatch
    | progress cbv beta zeta ].
Ltac wauto := repeat wstep.

Lemma W_write_err code msg : W P (write_err errtab code msg).
Proof. unfold write_err. wauto. Qed.
Lemma W_finalize q more : W P (finalize q more).
Proof. unfold finalize. wauto. Qed.
Lemma W_drop_q q : W P (drop_q q).
Proof. unfold drop_q. apply W_park_on_err, W_finalize. Qed.
#[local] Hint Resolve W_write_err W_finalize W_drop_q : wdb.

Lemma W_write_col w v : W P (write_col w v).
Proof. unfold write_col. wauto. Qed.
Lemma W_end_row w : W P (end_row w).
Proof. unfold end_row. wauto. Qed.
#[local] Hint Resolve W_write_col W_end_row : wdb.
Lemma W_finish_inner w c : W P (finish_inner w c).
Proof. unfold finish_inner. wauto. Qed.
#[local] Hint Resolve W_finish_inner : wdb.
Lemma W_drop_rw w : W P (drop_rw w).
Proof. unfold drop_rw. wauto. Qed.
Lemma W_write_cols vs : forall w, W P (write_cols w vs).
Proof. induction vs as [|v r IH]; intro w; cbn [write_cols]; wauto. Qed.
#[local] Hint Resolve W_drop_rw W_write_cols : wdb.
Lemma W_write_row w vs : W P (write_row w vs).
Proof. unfold write_row. wauto. Qed.
Lemma W_api_ret m : W P m -> W P (api_ret m).
Proof. intro H. unfold api_ret. wauto. Qed.
Lemma W_lapi quiet r : W P (lapi quiet r).
Proof. unfold lapi. wauto. Qed.
Lemma W_ret_tag t : W P (ret_tag t).
Proof. unfold ret_tag. wauto. Qed.
#[local] Hint Resolve W_write_row W_lapi W_ret_tag : wdb.

Lemma W_run_qr quiet :
  (forall p q, W P (run_q errtab quiet q p)) /\ (forall p w, W P (run_r errtab quiet w p)).
Proof.
  apply qr_mutind; intros; cbn [run_q run_r]; wauto.
Qed.
Lemma W_run_q quiet q p : W P (run_q errtab quiet q p).
Proof. apply W_run_qr. Qed.
#[local] Hint Resolve W_run_q : wdb.

(* callbacks *)
Lemma W_on_query q s : W P (on_query errtab q s).
Proof. unfold on_query. destruct s as [st sc]. destruct (pop_q sc) as [[prog tag] sc']. wauto. Qed.
Lemma W_on_init schema s : W P (on_init errtab schema s).
Proof.
  unfold on_init. destruct s as [st sc]. destruct (pop_i sc) as [[prog tag] sc'].
  apply W_bind; [apply W_log_call | intro].
  apply W_bind; [| intro; wauto].
  destruct prog; wauto; apply W_api_ret; wauto.
Qed.
Lemma W_on_prepare q s : W P (on_prepare errtab q s).
Proof.
  unfold on_prepare. destruct s as [st sc]. destruct (pop_p sc) as [[prog tag] sc'].
  apply W_bind; [apply W_log_call | intro].
  destruct prog; wauto; apply W_api_ret; wauto.
Qed.
Lemma W_pull_params fuel : forall n convs p, W P (pull_params fpext fptrunc fuel n convs p).
Proof.
  induction fuel as [|f IH]; intros n convs p; cbn [pull_params]; wauto.
Qed.
#[local] Hint Resolve W_on_query W_on_init W_on_prepare W_pull_params : wdb.
Lemma W_on_execute id sd params sc : W P (on_execute fpext fptrunc errtab id sd params sc).
Proof. unfold on_execute. destruct (pop_x sc) as [x sc']. wauto. Qed.
#[local] Hint Resolve W_on_execute : wdb.

Lemma W_handle cmd s : W P (handle fpext fptrunc errtab cmd s).
Proof. unfold handle. destruct s as [st sc]. destruct cmd; wauto. Qed.

(* safe from every state with at most n inbound bytes *)
Definition SF (n : nat) {A} (m : M A) : Prop :=
  forall s, (ilen s <= n)%nat -> RP P (fst (m s)).
Lemma SF_W n {A} (m : M A) : W P m -> SF n m.
Proof. intros H s _. apply H. Qed.
Lemma SF_bind_W n {A B} (m : M A) (f : A -> M B) :
  W P m -> (forall a, SF n (f a)) -> SF n (bind m f).
Proof.
  intros Hm Hf s Hs. unfold bind. destruct (Hm s) as [H1 H2].
  destruct (m s) as [[a|e|p] s']; cbn [fst snd] in *; [|exact I|exact H1].
  apply Hf. lia.
Qed.
Lemma SF_bind_next n {B} (f : option (N * bytes) -> M B) :
  SF n (f None) -> (forall x m, (m + 4 <= n)%nat -> SF m (f (Some x))) -> SF n (bind next f).
Proof.
  intros H0 H1 s Hs. unfold bind. destruct (next_post_thm s) as [Ha Hb].
  destruct (next s) as [[[x|]|e|p] s1]; cbn [fst snd] in *.
  - apply (H1 x (ilen s1)); lia.
  - apply H0; lia.
  - exact I.
  - destruct Ha.
Qed.

Lemma run_f_safe fuel : forall ss n, (n < fuel)%nat -> SF n (run_f fpext fptrunc errtab fuel ss).
Proof.
  induction fuel as [|f IH]; intros ss n Hlt; [lia|].
  cbn [run_f]. apply SF_bind_next.
  - apply SF_W, W_ret.
  - intros [q pkt] m Hm. apply SF_bind_W; [apply W_set_seq | intros _].
    destruct (parse pkt) as [cmd|]; [|apply SF_W, W_fail].
    assert (Hgen : SF m (s' <- handle fpext fptrunc errtab cmd ss ;;
                         flush ;;; run_f fpext fptrunc errtab f s')).
    { apply SF_bind_W; [apply W_handle | intro s'].
      apply SF_bind_W; [apply W_flush | intros _]. apply IH. lia. }
    destruct cmd; try exact Hgen. apply SF_W, W_ret.
Qed.

Lemma NI_next : NI P next.
Proof.
  intro s. destruct (next_post_thm s) as [Ha Hb]. split; [|exact Hb].
  destruct (fst (next s)) as [x|e|p]; [exact I | exact I | destruct Ha].
Qed.
Lemma NI_init cfg : NI P (init errtab cfg).
Proof.
  unfold init.
  apply NI_bind; [apply W_NI, W_write_all | intros _].
  apply NI_bind; [apply W_NI, W_flush | intros _].
  apply NI_bind; [apply NI_next | intros r].
  apply W_NI. wauto.
Qed.

Lemma run_on_safe cfg sc w : RP P (fst (run_on fpext fptrunc errtab cfg sc w)).
Proof.
  unfold run_on, bind. destruct (NI_init cfg w) as [H1 H2].
  destruct (init errtab cfg w) as [[a|e|p] s']; cbn [fst snd] in *; [|exact I|exact H1].
  apply (run_f_safe (S (ilen w)) ([], sc) (ilen s')); lia.
Qed.

End Generic.

(* the allowed panics of a whole connection: client_sites ++ shim_sites below *)
Definition okp (p : site) : Prop :=
  In p [PFragSeq; PParamsSplitNull; PParamsSplitTypes; PParamsBadType; PParamsBoundIndex;
        PParamsValue; PConv; PConvOverflow; PNullBin; PFromU16].
Lemma RP_okp_fuel {A} (r : res A) : RP okp r -> r <> RPanic POutOfFuel.
Proof.
  intros H E. subst r. unfold RP, okp in H. cbn [In] in H.
  repeat (destruct H as [H|H]; [discriminate|]). exact H.
Qed.
Ltac okp_hyps := unfold okp; cbn [In]; tauto.

Section WithOracles.
Variable fpext : N -> N.
Variable fptrunc : N -> N.
Variable errtab : N -> option (N * bytes).

(* writer programs and callbacks never touch the inbound side and never run out of fuel *)
Lemma run_q_total quiet q p s :
  fst (run_q errtab quiet q p s) <> RPanic POutOfFuel /\
  inbound_len (snd (run_q errtab quiet q p s)) = inbound_len s.
Proof.
  destruct (W_run_q okp errtab ltac:(okp_hyps) ltac:(okp_hyps) quiet q p s) as [H1 H2].
  split; [apply RP_okp_fuel, H1 | exact H2].
Qed.
Lemma handle_total cmd ss s :
  fst (handle fpext fptrunc errtab cmd ss s) <> RPanic POutOfFuel /\
  inbound_len (snd (handle fpext fptrunc errtab cmd ss s)) = inbound_len s.
Proof.
  destruct (W_handle okp fpext fptrunc errtab ltac:(okp_hyps) ltac:(okp_hyps) ltac:(okp_hyps)
              ltac:(okp_hyps) ltac:(okp_hyps) ltac:(okp_hyps) ltac:(okp_hyps) ltac:(okp_hyps)
              ltac:(okp_hyps) cmd ss s) as [H1 H2].
  split; [apply RP_okp_fuel, H1 | exact H2].
Qed.

(* the command loop: fuel = 1 + number of inbound bytes is always enough *)
Theorem run_total fuel ss s :
  (inbound_len s < fuel)%nat -> fst (run_f fpext fptrunc errtab fuel ss s) <> RPanic POutOfFuel.
Proof.
  intro Hlt. apply RP_okp_fuel.
  apply (run_f_safe okp fpext fptrunc errtab ltac:(okp_hyps) ltac:(okp_hyps) ltac:(okp_hyps)
           ltac:(okp_hyps) ltac:(okp_hyps) ltac:(okp_hyps) ltac:(okp_hyps) ltac:(okp_hyps)
           ltac:(okp_hyps) fuel ss (ilen s) Hlt s (le_n _)).
Qed.
Theorem run_on_total cfg sc s : fst (run_on fpext fptrunc errtab cfg sc s) <> RPanic POutOfFuel.
Proof.
  apply RP_okp_fuel.
  apply (run_on_safe okp fpext fptrunc errtab); okp_hyps.
Qed.

(* every panic of a whole connection is one of the named data-reachable sites *)
Definition client_sites : list site :=
  [PFragSeq; PParamsSplitNull; PParamsSplitTypes; PParamsBadType; PParamsBoundIndex; PParamsValue].
Definition shim_sites : list site := [PConv; PConvOverflow; PNullBin; PFromU16].
Theorem run_on_panics cfg sc s p :
  fst (run_on fpext fptrunc errtab cfg sc s) = RPanic p -> In p (client_sites ++ shim_sites).
Proof.
  intro E.
  assert (H : RP okp (fst (run_on fpext fptrunc errtab cfg sc s)))
    by (apply (run_on_safe okp fpext fptrunc errtab); okp_hyps).
  rewrite E in H. exact H.
Qed.

(* values whose to_mysql_bin cannot hit unreachable!(): no NULL below a Some *)
Fixpoint value_tame (v : value) : Prop :=
  match v with
  | VSome v' => is_null v' = false /\ value_tame v'
  | VRef v' => value_tame v'
  | _ => True
  end.
Fixpoint tame_q (p : qprog) : Prop :=
  match p with
  | QStart _ k => tame_r k
  | QCompleteOne _ _ k => tame_q k
  | QError code _ => errtab code <> None
  | _ => True
  end
with tame_r (p : rprog) : Prop :=
  match p with
  | RWriteCol v _ k => value_tame v /\ tame_r k
  | REndRow _ k => tame_r k
  | RWriteRow vs _ k => Forall value_tame vs /\ tame_r k
  | RFinishOne k => tame_q k
  | RFinishError code _ => errtab code <> None
  | _ => True
  end.
Definition scripts_tame (sc : scripts) : Prop :=
  errtab 1045 <> None /\
  Forall (fun x => tame_q (fst x)) (sc_q sc) /\
  Forall (fun x => tame_q (x_prog x) /\ Forall (fun k => k = KNone) (x_convs x)) (sc_x sc) /\
  Forall (fun x => match fst x with PError code _ => errtab code <> None | _ => True end) (sc_p sc) /\
  Forall (fun x => match fst x with IError code _ => errtab code <> None | _ => True end) (sc_i sc).

(* ---- helpers for run_on_panics_tame ---- *)

(* the client-reachable panics *)
Definition cp (p : site) : Prop := In p client_sites.
Ltac cpf := unfold cp, client_sites; cbn [In]; tauto.
Lemma cp_FragSeq : cp PFragSeq. Proof. cpf. Qed.

Lemma myc_bin_nonnull Q m c : is_null (VMyc m) = false -> RP Q (myc_bin m c).
Proof.
  intro H. destruct m; [cbn [is_null] in H; discriminate H|..];
    unfold myc_bin; cbv beta iota zeta; try np_fin; brk; np_fin.
Qed.
Lemma to_bin_tame Q v c : value_tame v -> is_null v = false -> RP Q (to_bin v c).
Proof.
  induction v; cbn [value_tame is_null to_bin]; intros Ht Hn; try np_fin.
  - discriminate Hn.
  - apply IHv; tauto.
  - apply IHv; assumption.
  - apply myc_bin_nonnull. exact Hn.
Qed.
Lemma to_text_cp v : RP cp (to_text v).
Proof. apply to_text_np. Qed.
Lemma params_next_cp p : RP cp (params_next fpext p).
Proof. apply params_next_np; cpf. Qed.
Lemma convert_tame Q convs v : Forall (fun k => k = KNone) convs ->
  RP Q (convert fptrunc (match convs with [] => KNone | k :: _ => k end) v).
Proof. intro H. destruct convs; [exact I | inversion H; subst; exact I]. Qed.
Lemma Forall_tl {A} (Q : A -> Prop) l : Forall Q l -> Forall Q (tl l).
Proof. intro H. destruct l; [exact H | inversion H; assumption]. Qed.

#[local] Hint Resolve to_text_cp params_next_cp convert_tame to_bin_tame : tnp.
#[local] Hint Resolve W_ret W_fail W_log_call W_log_api W_set_seq W_park W_t_write W_t_flush
  W_end_packet W_write_all W_flush W_send W_send_all W_finalize W_drop_q W_end_row
  W_finish_inner W_drop_rw W_lapi W_ret_tag Forall_tl : tdb.

Ltac tmatch :=
  match goal with
  | |- W cp (match ?x with _ => _ end) =>
      lazymatch type of x with
      | res _ =>
          let H := fresh "HR" in
          assert (H : RP cp x) by auto with tnp; revert H; destruct x; intro H; cbn [RP] in H
      | _ => first [destruct x eqn:? | destruct x]
      end
  end.
Ltac tstep :=
  first
    [ assumption
    | solve [auto 2 with tdb]
    | lazymatch goal with |- W cp (panic _) => apply W_panic; assumption end
    | lazymatch goal with |- W cp (attempt _) => apply W_attempt end
    | lazymatch goal with |- W cp (park_on_err _) => apply W_park_on_err end
    | lazymatch goal with |- W cp (bind _ _) => apply W_bind; [| intro; cbv beta] end
    | match goal with H : context [W cp _] |- _ => solve [apply H; auto 2 with tdb] end
    | tmatch
    | progress cbv beta zeta ].
Ltac tauto_w := repeat tstep.

Lemma W_write_err_t code msg : errtab code <> None -> W cp (write_err errtab code msg).
Proof. intro H. unfold write_err. destruct (errtab code) as [[c st]|]; [apply W_send | congruence]. Qed.
Lemma W_write_col_t w v : value_tame v -> W cp (write_col w v).
Proof. intro H. unfold write_col. tauto_w. Qed.
#[local] Hint Resolve W_write_err_t W_write_col_t : tdb.
Lemma W_write_cols_t vs : forall w, Forall value_tame vs -> W cp (write_cols w vs).
Proof.
  induction vs as [|v r IH]; intros w H; cbn [write_cols]; [apply W_ret|].
  inversion H; subst. tauto_w.
Qed.
#[local] Hint Resolve W_write_cols_t : tdb.
Lemma W_write_row_t w vs : Forall value_tame vs -> W cp (write_row w vs).
Proof. intro H. unfold write_row. tauto_w. Qed.
#[local] Hint Resolve W_write_row_t : tdb.

Lemma W_run_qr_t quiet :
  (forall p q, tame_q p -> W cp (run_q errtab quiet q p)) /\
  (forall p w, tame_r p -> W cp (run_r errtab quiet w p)).
Proof.
  apply qr_mutind; intros; cbn [run_q run_r]; cbn [tame_q tame_r] in *;
    repeat match goal with H : _ /\ _ |- _ => destruct H end; tauto_w.
Qed.
Lemma W_run_q_t quiet q p : tame_q p -> W cp (run_q errtab quiet q p).
Proof. apply W_run_qr_t. Qed.
#[local] Hint Resolve W_run_q_t : tdb.

Lemma W_pull_params_t fuel : forall n convs p, Forall (fun k => k = KNone) convs ->
  W cp (pull_params fpext fptrunc fuel n convs p).
Proof.
  induction fuel as [|f IH]; intros n convs p Hc; cbn [pull_params]; tauto_w.
Qed.
#[local] Hint Resolve W_pull_params_t : tdb.

(* popping a script keeps the queues tame *)
Lemma pop_q_tame sc : scripts_tame sc ->
  tame_q (fst (fst (pop_q sc))) /\ scripts_tame (snd (pop_q sc)).
Proof.
  unfold scripts_tame, pop_q. intros (H0 & Hq & Hx & Hp & Hi).
  destruct (sc_q sc) as [|x r] eqn:E; cbn [fst snd tame_q sc_q sc_p sc_x sc_i].
  - rewrite E. repeat split; auto.
  - inversion Hq; subst. repeat split; assumption.
Qed.
Lemma pop_p_tame sc : scripts_tame sc ->
  match fst (fst (pop_p sc)) with PError code _ => errtab code <> None | _ => True end /\
  scripts_tame (snd (pop_p sc)).
Proof.
  unfold scripts_tame, pop_p. intros (H0 & Hq & Hx & Hp & Hi).
  destruct (sc_p sc) as [|x r] eqn:E; cbn [fst snd sc_q sc_p sc_x sc_i].
  - rewrite E. repeat split; auto.
  - inversion Hp; subst. repeat split; assumption.
Qed.
Lemma pop_x_tame sc : scripts_tame sc ->
  tame_q (x_prog (fst (pop_x sc))) /\ Forall (fun k => k = KNone) (x_convs (fst (pop_x sc))) /\
  scripts_tame (snd (pop_x sc)).
Proof.
  unfold scripts_tame, pop_x. intros (H0 & Hq & Hx & Hp & Hi).
  destruct (sc_x sc) as [|x r] eqn:E; cbn [fst snd tame_q x_prog x_convs sc_q sc_p sc_x sc_i].
  - rewrite E. repeat split; auto.
  - inversion Hx as [|? ? [Ha Hb] Hr]; subst. repeat split; assumption.
Qed.
Lemma pop_i_tame sc : scripts_tame sc ->
  match fst (fst (pop_i sc)) with IError code _ => errtab code <> None | _ => True end /\
  scripts_tame (snd (pop_i sc)).
Proof.
  unfold scripts_tame, pop_i. intros (H0 & Hq & Hx & Hp & Hi).
  destruct (sc_i sc) as [|x r] eqn:E; cbn [fst snd sc_q sc_p sc_x sc_i].
  - rewrite E. repeat split; auto.
  - inversion Hi; subst. repeat split; assumption.
Qed.

(* callbacks under tame scripts *)
Lemma W_on_query_t q st sc : scripts_tame sc -> W cp (on_query errtab q (st, sc)).
Proof.
  intro H. unfold on_query. destruct (pop_q_tame sc H) as [H1 _].
  destruct (pop_q sc) as [[prog tag] sc']. cbn [fst] in H1. tauto_w.
Qed.
Lemma W_on_init_t schema st sc : scripts_tame sc -> W cp (on_init errtab schema (st, sc)).
Proof.
  intro H. unfold on_init. destruct (pop_i_tame sc H) as [H1 _].
  destruct (pop_i sc) as [[prog tag] sc']. cbn [fst] in H1.
  apply W_bind; [apply W_log_call | intro].
  apply W_bind; [| intro; tauto_w].
  destruct prog; tauto_w; apply W_api_ret; tauto_w.
Qed.
Lemma W_on_prepare_t q st sc : scripts_tame sc -> W cp (on_prepare errtab q (st, sc)).
Proof.
  intro H. unfold on_prepare. destruct (pop_p_tame sc H) as [H1 _].
  destruct (pop_p sc) as [[prog tag] sc']. cbn [fst] in H1.
  apply W_bind; [apply W_log_call | intro].
  destruct prog; tauto_w; apply W_api_ret; tauto_w.
Qed.
Lemma W_on_execute_t id sd params sc : scripts_tame sc ->
  W cp (on_execute fpext fptrunc errtab id sd params sc).
Proof.
  intro H. unfold on_execute. destruct (pop_x_tame sc H) as (H1 & H2 & _).
  destruct (pop_x sc) as [x sc']. cbn [fst] in H1, H2. tauto_w.
Qed.
#[local] Hint Resolve W_on_query_t W_on_init_t W_on_prepare_t W_on_execute_t : tdb.

Lemma W_handle_t cmd st sc : scripts_tame sc -> W cp (handle fpext fptrunc errtab cmd (st, sc)).
Proof.
  intro H. unfold handle. destruct cmd; try solve [tauto_w].
  destruct (_ || _); [|tauto_w].
  apply W_bind; [|intro; apply W_ret].
  destruct (bytes_eqb _ _); apply W_run_q_t; cbn [tame_q tame_r].
  - split; [constructor; [exact I | constructor] | exact I].
  - exact I.
Qed.

(* the value returned on success *)
Definition Ret {A} (Q : A -> Prop) (m : M A) : Prop := forall s a, fst (m s) = ROk a -> Q a.
Lemma Ret_ret {A} (Q : A -> Prop) a : Q a -> Ret Q (ret a).
Proof. intros H s b E. cbn in E. injection E as <-. exact H. Qed.
Lemma Ret_fail {A} (Q : A -> Prop) e : Ret Q (fail e).
Proof. intros s b E. discriminate E. Qed.
Lemma Ret_bind {A B} (Q1 : A -> Prop) (Q : B -> Prop) (m : M A) (f : A -> M B) :
  Ret Q1 m -> (forall a, Q1 a -> Ret Q (f a)) -> Ret Q (bind m f).
Proof.
  intros Hm Hf s b. unfold bind. specialize (Hm s).
  destruct (m s) as [[a|e|p] s']; cbn [fst] in *; try discriminate.
  apply Hf, Hm. reflexivity.
Qed.
Lemma Ret_bind_any {A B} (Q : B -> Prop) (m : M A) (f : A -> M B) :
  (forall a, Ret Q (f a)) -> Ret Q (bind m f).
Proof. intro Hf. apply (Ret_bind (fun _ => True)); [intros s a _; exact I | intros a _; apply Hf]. Qed.

Ltac rstep :=
  first
    [ lazymatch goal with |- Ret _ (ret _) => apply Ret_ret; cbn [snd]; assumption end
    | lazymatch goal with |- Ret _ (fail _) => apply Ret_fail end
    | solve [auto 2 with rdb]
    | lazymatch goal with |- Ret _ (bind _ _) => apply Ret_bind_any; intro; cbv beta end
    | match goal with |- Ret _ (match ?x with _ => _ end) => destruct x end
    | progress cbv beta zeta ].
Ltac rauto := repeat rstep.

Definition ss_tame (r : ss) : Prop := scripts_tame (snd r).
Lemma Ret_on_query q st sc : scripts_tame sc -> Ret ss_tame (on_query errtab q (st, sc)).
Proof.
  intro H. unfold on_query, ss_tame. destruct (pop_q_tame sc H) as [_ H2].
  destruct (pop_q sc) as [[prog tag] sc']. cbn [snd] in H2. rauto.
Qed.
Lemma Ret_on_init schema st sc : scripts_tame sc -> Ret ss_tame (on_init errtab schema (st, sc)).
Proof.
  intro H. unfold on_init, ss_tame. destruct (pop_i_tame sc H) as [_ H2].
  destruct (pop_i sc) as [[prog tag] sc']. cbn [snd] in H2. rauto.
Qed.
Lemma Ret_on_prepare q st sc : scripts_tame sc -> Ret ss_tame (on_prepare errtab q (st, sc)).
Proof.
  intro H. unfold on_prepare, ss_tame. destruct (pop_p_tame sc H) as [_ H2].
  destruct (pop_p sc) as [[prog tag] sc']. cbn [snd] in H2. rauto.
Qed.
Lemma Ret_on_execute id sd params sc : scripts_tame sc ->
  Ret (fun x => scripts_tame (snd x)) (on_execute fpext fptrunc errtab id sd params sc).
Proof.
  intro H. unfold on_execute. destruct (pop_x_tame sc H) as (_ & _ & H2).
  destruct (pop_x sc) as [x sc']. cbn [snd] in H2. rauto.
Qed.
#[local] Hint Resolve Ret_on_query Ret_on_init Ret_on_prepare : rdb.
Lemma Ret_handle cmd st sc : scripts_tame sc ->
  Ret ss_tame (handle fpext fptrunc errtab cmd (st, sc)).
Proof.
  intro H. unfold handle. destruct cmd; try solve [unfold ss_tame in *; rauto]; try solve [rauto].
  destruct (lookup _ _); [|apply Ret_fail].
  destruct (negb _); [apply Ret_fail|].
  apply (Ret_bind (fun x => scripts_tame (snd x))); [apply Ret_on_execute; exact H|].
  intros [sd' sc'] Hx. apply Ret_ret. exact Hx.
Qed.

Lemma SF_bind_W_ret n {A B} (Q : A -> Prop) (m : M A) (f : A -> M B) :
  W cp m -> Ret Q m -> (forall a, Q a -> SF cp n (f a)) -> SF cp n (bind m f).
Proof.
  intros Hm Hr Hf s Hs. unfold bind. destruct (Hm s) as [H1 H2]. specialize (Hr s).
  destruct (m s) as [[a|e|p] s']; cbn [fst snd] in *; [|exact I|exact H1].
  apply Hf; [apply Hr; reflexivity | lia].
Qed.

Lemma run_f_safe_t fuel : forall st sc n, scripts_tame sc -> (n < fuel)%nat ->
  SF cp n (run_f fpext fptrunc errtab fuel (st, sc)).
Proof.
  induction fuel as [|f IH]; intros st sc n Ht Hlt; [lia|].
  cbn [run_f]. apply (SF_bind_next cp).
  - apply SF_W, W_ret.
  - intros [q pkt] m Hm. apply SF_bind_W; [apply W_set_seq | intros _].
    destruct (parse pkt) as [cmd|]; [|apply SF_W, W_fail].
    assert (Hgen : SF cp m (s' <- handle fpext fptrunc errtab cmd (st, sc) ;;
                            flush ;;; run_f fpext fptrunc errtab f s')).
    { apply (SF_bind_W_ret m ss_tame);
        [apply W_handle_t; exact Ht | apply Ret_handle; exact Ht | intros [st' sc'] Hr].
      apply SF_bind_W; [apply W_flush | intros _]. apply IH; [exact Hr | lia]. }
    destruct cmd; try exact Hgen. apply SF_W, W_ret.
Qed.

Lemma NI_init_t cfg : errtab 1045 <> None -> NI cp (init errtab cfg).
Proof.
  intro H. unfold init.
  apply NI_bind; [apply W_NI, W_write_all | intros _].
  apply NI_bind; [apply W_NI, W_flush | intros _].
  apply NI_bind; [apply (NI_next cp) | intros r].
  apply W_NI. destruct (errtab 1045) as [[c state]|]; [|congruence]. tauto_w.
Qed.

Theorem run_on_panics_tame cfg sc s p :
  scripts_tame sc ->
  fst (run_on fpext fptrunc errtab cfg sc s) = RPanic p -> In p client_sites.
Proof.
  intros Ht E.
  assert (H : RP cp (fst (run_on fpext fptrunc errtab cfg sc s))).
  { unfold run_on, bind. destruct (NI_init_t cfg (proj1 Ht) s) as [H1 H2].
    destruct (init errtab cfg s) as [[a|e|p'] s']; cbn [fst snd] in *; [|exact I|exact H1].
    apply (run_f_safe_t (S (ilen s)) [] sc (ilen s') Ht); lia. }
  rewrite E in H. exact H.
Qed.

(* ---- after ParamParser::validate no panic site is left for a tame shim ---- *)

(* no panic allowed at all *)
Definition np0 (p : site) : Prop := False.

Lemma to_text_z v : RP np0 (to_text v).
Proof. apply to_text_np. Qed.

#[local] Hint Resolve to_text_z convert_tame to_bin_tame : znp.
#[local] Hint Resolve W_ret W_fail W_log_call W_log_api W_set_seq W_park W_t_write W_t_flush
  W_end_packet W_write_all W_flush W_send W_send_all W_finalize W_drop_q W_end_row
  W_finish_inner W_drop_rw W_lapi W_ret_tag Forall_tl : zdb.

Ltac zmatch :=
  match goal with
  | |- W np0 (match ?x with _ => _ end) =>
      lazymatch type of x with
      | res _ =>
          let H := fresh "HR" in
          assert (H : RP np0 x) by auto with znp; revert H; destruct x; intro H; cbn [RP] in H
      | _ => first [destruct x eqn:? | destruct x]
      end
  end.
Ltac zstep :=
  first
    [ assumption
    | solve [auto 2 with zdb]
    | lazymatch goal with |- W np0 (panic _) => apply W_panic; assumption end
    | lazymatch goal with |- W np0 (attempt _) => apply W_attempt end
    | lazymatch goal with |- W np0 (park_on_err _) => apply W_park_on_err end
    | lazymatch goal with |- W np0 (bind _ _) => apply W_bind; [| intro; cbv beta] end
    | match goal with H : context [W np0 _] |- _ => solve [apply H; auto 2 with zdb] end
    | zmatch
    | progress cbv beta zeta ].
Ltac zauto := repeat zstep.

Lemma W_write_err_z code msg : errtab code <> None -> W np0 (write_err errtab code msg).
Proof. intro H. unfold write_err. destruct (errtab code) as [[c st]|]; [apply W_send | congruence]. Qed.
Lemma W_write_col_z w v : value_tame v -> W np0 (write_col w v).
Proof. intro H. unfold write_col. zauto. Qed.
#[local] Hint Resolve W_write_err_z W_write_col_z : zdb.
Lemma W_write_cols_z vs : forall w, Forall value_tame vs -> W np0 (write_cols w vs).
Proof.
  induction vs as [|v r IH]; intros w H; cbn [write_cols]; [apply W_ret|].
  inversion H; subst. zauto.
Qed.
#[local] Hint Resolve W_write_cols_z : zdb.
Lemma W_write_row_z w vs : Forall value_tame vs -> W np0 (write_row w vs).
Proof. intro H. unfold write_row. zauto. Qed.
#[local] Hint Resolve W_write_row_z : zdb.

Lemma W_run_qr_z quiet :
  (forall p q, tame_q p -> W np0 (run_q errtab quiet q p)) /\
  (forall p w, tame_r p -> W np0 (run_r errtab quiet w p)).
Proof.
  apply qr_mutind; intros; cbn [run_q run_r]; cbn [tame_q tame_r] in *;
    repeat match goal with H : _ /\ _ |- _ => destruct H end; zauto.
Qed.
Lemma W_run_q_z quiet q p : tame_q p -> W np0 (run_q errtab quiet q p).
Proof. apply W_run_qr_z. Qed.
#[local] Hint Resolve W_run_q_z : zdb.

(* the shim's pulls are a prefix of the validated full pull: pull_params steps through the same
   params_next calls as pull_all_ok, and may only stop earlier *)
Lemma W_pull_params_z fuel : forall n convs p, Forall (fun k => k = KNone) convs ->
  pull_all_ok fpext fuel p = true ->
  W np0 (pull_params fpext fptrunc fuel n convs p).
Proof.
  induction fuel as [|f IH]; intros n convs p Hc Hv; cbn [pull_params]; [apply W_ret|].
  cbn [pull_all_ok] in Hv.
  assert (Hgen : W np0
    (match params_next fpext p with
     | RPanic site => panic site
     | RErr e => fail e
     | ROk (None, p') => ret p'
     | ROk (Some (ct, v), p') =>
         log_call (CParam ct v) ;;;
         (match convert fptrunc (match convs with [] => KNone | k :: _ => k end) v with
          | RPanic site => panic site
          | RErr e => fail e
          | ROk None => ret tt
          | ROk (Some r) => log_call (CConv r)
          end) ;;;
         pull_params fpext fptrunc f (match n with Some (S m) => Some m | _ => None end)
           (tl convs) p'
     end)).
  { destruct (params_next fpext p) as [[[[ct v]|] p']|e|s].
    - apply W_bind; [apply W_log_call | intros _].
      apply W_bind; [| intros _; apply IH; [apply Forall_tl; exact Hc | exact Hv]].
      pose proof (convert_tame np0 convs v Hc) as HR. revert HR.
      destruct (convert fptrunc _ v) as [[r|]|e|s]; intro HR; cbn [RP] in HR.
      + apply W_log_call.
      + apply W_ret.
      + apply W_fail.
      + destruct HR.
    - apply W_ret.
    - apply W_fail.
    - discriminate Hv. }
  destruct n as [[|m]|]; [apply W_ret | exact Hgen | exact Hgen].
Qed.

(* callbacks under tame scripts *)
Lemma W_on_query_z q st sc : scripts_tame sc -> W np0 (on_query errtab q (st, sc)).
Proof.
  intro H. unfold on_query. destruct (pop_q_tame sc H) as [H1 _].
  destruct (pop_q sc) as [[prog tag] sc']. cbn [fst] in H1. zauto.
Qed.
Lemma W_on_init_z schema st sc : scripts_tame sc -> W np0 (on_init errtab schema (st, sc)).
Proof.
  intro H. unfold on_init. destruct (pop_i_tame sc H) as [H1 _].
  destruct (pop_i sc) as [[prog tag] sc']. cbn [fst] in H1.
  apply W_bind; [apply W_log_call | intro].
  apply W_bind; [| intro; zauto].
  destruct prog; zauto; apply W_api_ret; zauto.
Qed.
Lemma W_on_prepare_z q st sc : scripts_tame sc -> W np0 (on_prepare errtab q (st, sc)).
Proof.
  intro H. unfold on_prepare. destruct (pop_p_tame sc H) as [H1 _].
  destruct (pop_p sc) as [[prog tag] sc']. cbn [fst] in H1.
  apply W_bind; [apply W_log_call | intro].
  destruct prog; zauto; apply W_api_ret; zauto.
Qed.
(* on_execute pulls with the very fuel params_valid checked, from the state whose header validate()
   has already read (pstate_hdr): the first Params::next step is the same as from pstate_of *)
Lemma W_on_execute_z id sd params sc : scripts_tame sc -> params_valid fpext sd params = true ->
  W np0 (on_execute fpext fptrunc errtab id sd params sc).
Proof.
  intros H Hv. unfold on_execute. destruct (pop_x_tame sc H) as (H1 & H2 & _).
  destruct (pop_x sc) as [x sc']. cbn [fst] in H1, H2.
  apply W_bind; [apply W_log_call | intros _]. cbv zeta.
  apply W_bind; [apply W_pull_params_z; [exact H2 | rewrite params_valid_hdr; exact Hv] | intro p].
  zauto.
Qed.
#[local] Hint Resolve W_on_query_z W_on_init_z W_on_prepare_z : zdb.

Lemma W_handle_z cmd st sc : scripts_tame sc -> W np0 (handle fpext fptrunc errtab cmd (st, sc)).
Proof.
  intro H. unfold handle. destruct cmd; try solve [zauto].
  - destruct (_ || _); [|zauto].
    apply W_bind; [|intro; apply W_ret].
    destruct (bytes_eqb _ _); apply W_run_q_z; cbn [tame_q tame_r].
    + split; [constructor; [exact I | constructor] | exact I].
    + exact I.
  - destruct (lookup _ _) as [sd|]; [|apply W_fail].
    destruct (params_valid fpext sd _) eqn:Ev; cbn [negb]; [|apply W_fail].
    apply W_bind; [apply W_on_execute_z; assumption | intros [sd' sc']; apply W_ret].
Qed.

Lemma SF_bind_W_ret_z n {A B} (Q : A -> Prop) (m : M A) (f : A -> M B) :
  W np0 m -> Ret Q m -> (forall a, Q a -> SF np0 n (f a)) -> SF np0 n (bind m f).
Proof.
  intros Hm Hr Hf s Hs. unfold bind. destruct (Hm s) as [H1 H2]. specialize (Hr s).
  destruct (m s) as [[a|e|p] s']; cbn [fst snd] in *; [|exact I|exact H1].
  apply Hf; [apply Hr; reflexivity | lia].
Qed.

Lemma run_f_safe_z fuel : forall st sc n, scripts_tame sc -> (n < fuel)%nat ->
  SF np0 n (run_f fpext fptrunc errtab fuel (st, sc)).
Proof.
  induction fuel as [|f IH]; intros st sc n Ht Hlt; [lia|].
  cbn [run_f]. apply (SF_bind_next np0).
  - apply SF_W, W_ret.
  - intros [q pkt] m Hm. apply SF_bind_W; [apply W_set_seq | intros _].
    destruct (parse pkt) as [cmd|]; [|apply SF_W, W_fail].
    assert (Hgen : SF np0 m (s' <- handle fpext fptrunc errtab cmd (st, sc) ;;
                             flush ;;; run_f fpext fptrunc errtab f s')).
    { apply (SF_bind_W_ret_z m ss_tame);
        [apply W_handle_z; exact Ht | apply Ret_handle; exact Ht | intros [st' sc'] Hr].
      apply SF_bind_W; [apply W_flush | intros _]. apply IH; [exact Hr | lia]. }
    destruct cmd; try exact Hgen. apply SF_W, W_ret.
Qed.

Lemma NI_init_z cfg : errtab 1045 <> None -> NI np0 (init errtab cfg).
Proof.
  intro H. unfold init.
  apply NI_bind; [apply W_NI, W_write_all | intros _].
  apply NI_bind; [apply W_NI, W_flush | intros _].
  apply NI_bind; [apply (NI_next np0) | intros r].
  apply W_NI. destruct (errtab 1045) as [[c state]|]; [|congruence]. zauto.
Qed.

(* after validation the parameter iterator cannot panic: on_execute's pulls are a prefix of the
   validated full pull *)
Theorem run_on_never_panics_tame cfg sc s p :
  scripts_tame sc ->
  fst (run_on fpext fptrunc errtab cfg sc s) <> RPanic p.
Proof.
  intros Ht E.
  assert (H : RP np0 (fst (run_on fpext fptrunc errtab cfg sc s))).
  { unfold run_on, bind. destruct (NI_init_z cfg (proj1 Ht) s) as [H1 H2].
    destruct (init errtab cfg s) as [[a|e|p'] s']; cbn [fst snd] in *; [|exact I|exact H1].
    apply (run_f_safe_z (S (ilen s)) [] sc (ilen s') Ht); lia. }
  rewrite E in H. exact H.
Qed.

End WithOracles.

Print Assumptions run_on_total.
Print Assumptions run_on_panics.
Print Assumptions next_total.
Print Assumptions next_consumes.
Print Assumptions write_all_total.
Print Assumptions packet_total.
Print Assumptions next_panics.
Print Assumptions run_q_total.
Print Assumptions handle_total.
Print Assumptions run_total.
Print Assumptions run_on_panics_tame.
Print Assumptions run_on_never_panics_tame.
