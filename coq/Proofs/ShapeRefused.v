(* C03, last sentence: writer calls that contradict the declared row shape fail with an error instead
   of emitting a malformed row -- at the level of the monadic model of RowWriter (Model/Resultset.v):
   the call returns InvalidData and leaves the connection state untouched (nothing is written). *)
From MsqlVerif Require Import Model.Resultset Proofs.BaseLemmas.
From Coq Require Import Lia.
Open Scope N_scope.

(* end_row with fewer or more cells than declared columns *)
Theorem end_row_wrong_count_refused : forall w s,
  r_cols w <> [] -> r_col w <> length (r_cols w) ->
  end_row w s = (ROk (w, Some EInvalidData), s).
Proof.
  intros w s Hc Hn. unfold end_row. destruct (r_cols w) as [|c cs] eqn:E; [congruence|].
  destruct (Nat.eqb (r_col w) (length (c :: cs))) eqn:Eq.
  - apply Nat.eqb_eq in Eq. congruence.
  - reflexivity.
Qed.

(* a surplus cell in a binary row (the row already holds a value for every column) *)
Theorem write_col_surplus_refused_bin : forall w v s,
  r_cols w <> [] -> q_bin (r_q w) = true -> (0 < r_col w)%nat -> (length (r_cols w) <= r_col w)%nat ->
  write_col w v s = (ROk (w, Some EInvalidData), s).
Proof.
  intros w v s Hc Hb H0 Hn. unfold write_col. destruct (r_cols w) as [|c cs] eqn:E; [congruence|].
  rewrite Hb. destruct (Nat.eqb (r_col w) 0) eqn:Ez; [apply Nat.eqb_eq in Ez; lia|].
  unfold bind, ret. cbn.
  destruct (nth_error (c :: cs) (r_col w)) eqn:En.
  - assert (Hlt : (r_col w < length (c :: cs))%nat) by (apply nth_error_Some; congruence). lia.
  - reflexivity.
Qed.

(* write_row with the wrong number of values: the row is refused by its end_row whatever the cells were *)
Theorem write_row_wrong_count_refused : forall w vs w' s s',
  r_cols w <> [] ->
  write_cols w vs s = (ROk (w', None), s') -> r_cols w' = r_cols w -> r_col w' <> length (r_cols w) ->
  write_row w vs s = (ROk (w', Some EInvalidData), s').
Proof.
  intros w vs w' s s' Hc Hw Hcols Hn. unfold write_row.
  destruct (r_cols w) as [|c cs] eqn:E; [congruence|].
  unfold bind. rewrite Hw. apply end_row_wrong_count_refused; rewrite Hcols; [congruence | exact Hn].
Qed.

Print Assumptions end_row_wrong_count_refused.
Print Assumptions write_col_surplus_refused_bin.
Print Assumptions write_row_wrong_count_refused.
